/-
C19 — semantic edits (mro edit) preserve behaviour.  PROPERTY THEOREMS ONLY
(helper lemmas live in Proofs/Refactor*.lean).  The model is
Martian/Refactor.lean; it is tied to martian/syntax/refactoring by the
correspondence run of harness/c19*.go (every edit on every callable/parameter
of generated programs and of the repository's testdata, model result = real
result).
-/
import Martian.Refactor
import Proofs.RefactorRename
import Proofs.RefactorRemove
import Proofs.RefactorRemoveOutput
import Proofs.RefactorGraphIn
import Proofs.RefactorGraphCall
import Proofs.RefactorGraphOut
import Proofs.RefactorGraphRem
import Proofs.RefactorGraphDel
import Proofs.RefactorGraphRo
import Proofs.RefactorClosure
import Proofs.RefactorLoop
import Proofs.RefactorGraphRoFull
import Proofs.RefactorGraphEmbed
import Proofs.RefactorGraphFuel
import Proofs.RefactorUnusedOuts

namespace Props.C19
open Martian.Refactor

/-! ### example program used for non-vacuity

    stage S(in a, out o)   stage T(in a, out o)
    pipeline P(in a, out r) { call S(a = self.a)  call T as U(a = S.o)  call S as V(a = U.o)
                              return (r = V.o)  retain (S.o) }
    call P(a = 1)                                                                  -/
def exS : Callable := ⟨false, "S", false, ["a"], [("o", false)], [], [], [], []⟩
def exT : Callable := ⟨false, "T", false, ["a"], [("o", false)], [], [], [], []⟩
def exP : Callable :=
  ⟨true, "P", false, ["a"], [("r", false)], [],
   [⟨"S", "S", "", [⟨"a", .ref ⟨.self, "a", []⟩⟩], []⟩,
    ⟨"U", "T", "", [⟨"a", .ref ⟨.call, "S", ["o"]⟩⟩], []⟩,
    ⟨"V", "S", "", [⟨"a", .ref ⟨.call, "U", ["o"]⟩⟩], []⟩],
   [⟨"r", .ref ⟨.call, "V", ["o"]⟩⟩], [⟨.call, "S", ["o"]⟩]⟩
def exProg : Program := ⟨[exS, exT, exP], some ⟨"P", "P", "", [⟨"a", .lit "31"⟩], []⟩⟩

/-- **rename_rename_id (partial).**  On a well-formed program, renaming callable `x` to a
name `y` that is fresh for it and then `y` back to `x` gives back the original
program *syntactically* — including the case where `y` collides with an
existing call id of another callable (the call of `x` gets an explicit alias)
and including references, retains, modifiers and the top-level call. -/
theorem rename_rename_id_partial (p : Program) (x y : String)
    (hwf : WF p = true) (hfresh : FreshFor x y p = true) :
    renameCallable y x (renameCallable x y p) = p := by
  exact Proofs.Refactor.rename_rename_id p x y hwf hfresh

/-- non-vacuity: the hypotheses hold for the example, for a plain fresh name
and for a name that collides with the existing call id `U` (forced alias);
the edit really changes the program. -/
example : WF exProg = true ∧ FreshFor "S" "Z" exProg = true ∧ FreshFor "S" "U" exProg = true
    ∧ renameCallable "S" "Z" exProg ≠ exProg ∧ renameCallable "S" "U" exProg ≠ exProg := by decide

/-- `pipeline Q(in a, out r) { call S as V(a = self.a)  return (r = V.o) }` -/
def exQ : Callable :=
  ⟨true, "Q", false, ["a"], [("r", false)], [],
   [⟨"V", "S", "", [⟨"a", .ref ⟨.self, "a", []⟩⟩], []⟩], [⟨"r", .ref ⟨.call, "V", ["o"]⟩⟩], []⟩
def exProg2 : Program := ⟨[exS, exQ], some ⟨"Q", "Q", "", [⟨"a", .lit "31"⟩], []⟩⟩

/-- Negative witness: without the freshness condition the round trip fails —
`V` is already the alias of a call of `S`; `S → V` makes it `call V as V`,
which is an unaliased `call V`, and `V → S` then renames the call id too:
`call S as V` has become `call S` (the harness replays this on the real code:
known finding C19-KF3). -/
theorem rename_to_own_alias_not_reversible :
    WF exProg2 = true ∧ FreshFor "S" "V" exProg2 = false ∧
    renameCallable "V" "S" (renameCallable "S" "V" exProg2) ≠ exProg2 := by decide

/-- **rename_callgraph (partial).**  Modulo the choice of call ids — i.e. after
replacing every call id by the position of the call and every call reference
by the position it resolves to — renaming a callable changes nothing but the
callable's name: every call invokes the same callable with the same bindings,
every reference (bindings, modifiers, returns, retains; with its projection
path) resolves to the same call.  Hence every function of the id-erased
program, in particular the resolved call graph, is unchanged up to the renamed
identifier.
PARTIAL: the statement is about the one-level resolved program; the deep
inlining of sub-pipeline inputs performed by `Ast.MakeCallGraph` is not
modelled (it is compared before/after on the real code by the harness), and
the analogous statements for renameInput/renameOutput are not proved. -/
theorem rename_callgraph_partial (p : Program) (x y : String)
    (hwf : WF p = true) (hfresh : FreshFor x y p = true) (hx : (p.find? x).isSome = true) :
    eraseIds (renameCallable x y p) = renameDec x y (eraseIds p) := by
  exact Proofs.Refactor.rename_callgraph p x y hwf hfresh hx

example : (exProg.find? "S").isSome = true
    ∧ eraseIds (renameCallable "S" "U" exProg) = renameDec "S" "U" (eraseIds exProg)
    ∧ eraseIds exProg ≠ exProg := by decide

/-- **remove_unused_preserves (partial).**  A call that `removeUnusedCalls`
selects is referenced by nothing in its pipeline (no binding, modifier, return
or retain), so deleting it leaves no dangling reference; the deletion keeps
every other call of every pipeline unchanged and in order, and does not touch
returns, retains, outputs or names.
PARTIAL: the cascade that afterwards drops pipeline inputs which became
unbound (and their bindings in callers) is covered by `remove_input_only`
below, not composed into one statement about the deep call graph.
NOTE (audit): conjunct 2 is a structural fact about `applyCallRemovals` for ANY
removal list and does not use the hypothesis; conjunct 1 restates the filter of
`unusedCalls`.  The statement that connects "what is removed" with "what was
unused" and says that the graph of the remaining calls is unchanged is
`remove_unused_calls_pass_graph_partial` / `remove_unused_calls_loop_graph_exact_partial`
below (side conditions derived from the analyses). -/
theorem remove_unused_preserves_partial (p : Program) (pipe : Callable) (id : String)
    (hid : id ∈ unusedCalls p pipe) :
    id ∉ callRefIdsOf pipe
    ∧ ∀ rem c, c ∈ (applyCallRemovals rem p).callables →
        ∃ c0 ∈ p.callables, c.name = c0.name ∧ c.ret = c0.ret ∧ c.retain = c0.retain ∧
          c.outs = c0.outs ∧ c.ins = c0.ins ∧ List.Sublist c.calls c0.calls := by
  exact Proofs.Refactor.remove_unused_preserves p pipe id hid

/-- removing an input parameter `q` of `x` touches nothing but: the parameter
itself, and the bindings named `q` of calls of `x` (all other bindings, all
modifiers, returns, retains, outputs are unchanged). -/
theorem remove_input_only (x q : String) (p : Program) (c : Callable)
    (hc : c ∈ (removeInputOne x q p).callables) :
    ∃ c0 ∈ p.callables, c.name = c0.name ∧ c.ret = c0.ret ∧ c.retain = c0.retain ∧ c.outs = c0.outs
      ∧ c.calls.map (fun k => (k.id, k.decId, k.mods, k.binds.filter (·.name != q)))
        = c0.calls.map (fun k => (k.id, k.decId, k.mods, k.binds.filter (·.name != q))) := by
  exact Proofs.Refactor.remove_input_only x q p c hc

example : "U" ∉ unusedCalls exProg exP ∧
    unusedCalls { exProg with callables := [exS, exT, { exP with ret := [], retain := [] }] }
      { exP with ret := [], retain := [] } = ["V"] := by decide

/-- **remove_output_unused.**  Removing an output parameter that no binding,
modifier, return or retain refers to changes nothing but the parameter itself
(for a stage also its retain entry; for a pipeline also its return binding and
the inputs this leaves unbound, with their bindings in callers): no expression
anywhere is rewritten, no call modifier or retain is dropped, no other
pipeline loses an output. -/
theorem remove_output_unused (p : Program) (x o : String)
    (h : outputUnreferenced x o p = true) :
    removeOutput x o p = removeOutputPlain x o p := by
  exact Proofs.Refactor.remove_output_unused p x o h

/-- non-vacuity: output `o` of `T` is unreferenced once `V` no longer reads `U.o`;
and the referenced case really is different (the reference becomes `null`). -/
example :
    let P' : Callable := { exP with calls := [⟨"S", "S", "", [⟨"a", .ref ⟨.self, "a", []⟩⟩], []⟩,
                                              ⟨"U", "T", "", [⟨"a", .ref ⟨.call, "S", ["o"]⟩⟩], []⟩] ,
                                    ret := [⟨"r", .ref ⟨.call, "S", ["o"]⟩⟩] }
    outputUnreferenced "T" "o" ⟨[exS, exT, P'], none⟩ = true
    ∧ removeOutput "T" "o" ⟨[exS, exT, P'], none⟩ ≠ ⟨[exS, exT, P'], none⟩
    ∧ outputUnreferenced "T" "o" exProg = false
    ∧ removeOutput "T" "o" exProg ≠ removeOutputPlain "T" "o" exProg := by decide

/-- **fixpoint_terminates.**  The removal loop of `Refactor` (`removeUnusedCalls`
/ `removeUnusedOutputs` alternated until nothing changes), as run by
`removeUnused` with `measure p + 1` iterations of fuel, stops at a program on
which a further iteration changes nothing; and an iteration that reports a
change strictly decreases the number of calls + outputs + inputs. -/
theorem fixpoint_terminates (p : Program) (calls : Bool) (tops : List String) :
    ((removeStep p calls tops p).2 = true → measure (removeStep p calls tops p).1 < measure p)
    ∧ (removeStep p calls tops (removeUnused calls tops p)).2 = false := by
  exact Proofs.Refactor.fixpoint_terminates_self p calls tops

/-- The same for *every* iteration of the loop, relative to the loop invariant
`Agree p0 p` (every name that was a pipeline when the program was compiled,
`p0`, is still a pipeline in the current program `p`; it holds initially and
every pass preserves names and kinds). -/
theorem fixpoint_step_decreases (p0 p : Program) (calls : Bool) (tops : List String)
    (hag : tops.isEmpty = true ∨ Proofs.Refactor.Agree p0 p) :
    ((removeStep p0 calls tops p).2 = true → measure (removeStep p0 calls tops p).1 < measure p)
    ∧ (removeStep p0 calls tops (removeLoop p0 calls tops (measure p + 1) p)).2 = false := by
  exact Proofs.Refactor.fixpoint_terminates p0 p calls tops hag

/-- Negative witness for dropping the invariant: if the compile-time tables
(`p0`) say `C` is a pipeline but the current program has a *stage* `C`, an
iteration reports a change without changing anything. -/
theorem fixpoint_needs_invariant :
    let callC : Call := ⟨"C", "C", "", [], []⟩
    let callD : Call := ⟨"D", "D", "", [], []⟩
    let T : Callable := ⟨true, "T", false, [], [], [], [callC], [], []⟩
    let C0 : Callable := ⟨true, "C", false, [], [("o", false)], [], [callD], [⟨"o", .lit "1"⟩], []⟩
    let D : Callable := ⟨true, "D", false, [], [], [], [], [], []⟩
    let Cs : Callable := ⟨false, "C", false, [], [("o", false)], [], [], [], []⟩
    let P0 : Program := ⟨[T, C0, D], none⟩
    let P : Program := ⟨[T, Cs, D], none⟩
    (removeStep P0 false ["T"] P).2 = true ∧ (removeStep P0 false ["T"] P).1 = P := by decide

example : (removeStep exProg true ["P"] exProg).2 = false := by decide


/-! ### naming: why the call-graph theorems below are `_partial`

The property quantifies over ALL compiling programs, "including references through
wildcards, struct projections and disabled modifiers".  Every theorem about the
resolved call graph (`deepGraph`) is proved on a sub-domain, and is therefore named
`…_partial`:
* the model fragment: no map calls / `split`; `disabled` modifiers only in the
  extended model `deepGraphD`, which is tied to the code but has no edit theorems;
* the decidable side condition of each theorem (`RenInOK`, `RenOutOK`, `RenCallOK`,
  `RemInOK`/`RemInsOK`, `RemOutOK`, `CallRemOK`, `StructOK`, `seedOK`) excludes
  wildcard bindings (known finding KF1: the FULL statement is false there, witness on
  the real code), whole-call bindings / callable-as-type (KF2: false, witness
  `rename_output_whole_call_breaks`), non-fresh target names (KF3: false, witness
  `rename_to_own_alias_not_reversible`) and requires distinct call ids / binding names
  and references that name existing calls (what the compiler guarantees).
FULL statement of each: the same equation for every compiling program and every
applicable edit.  Struct PROJECTIONS are inside the proved domain (see `exDeep`).
The driver evaluates every side condition on every real instance and the harness
reports how often it holds (quick: 55–70 %). -/

/-! ### the resolved call graph with deep inlining (Martian/RefactorGraph.lean)

`deepGraph ti p` is the model of `Ast.MakeCallGraph` (tied to it on every run by
the `C19.graph` correspondence): one node per call reachable from the top-level
call, with its inputs resolved through the enclosing pipelines' bindings and
the sub-pipelines' return bindings down to stage outputs and literals, narrowed
to the declared parameter types (`ti`: struct member lists, typed signatures). -/

/-- the types of the example program: `S(in int a, out int o)`, `T` alike, `P(in int a, out int r)` -/
def exTi : TypeInfo :=
  ⟨[], [("S", [("a", ⟨"int", 0, 0⟩)]), ("T", [("a", ⟨"int", 0, 0⟩)]), ("P", [("a", ⟨"int", 0, 0⟩)])],
       [("S", [("o", ⟨"int", 0, 0⟩)]), ("T", [("o", ⟨"int", 0, 0⟩)]), ("P", [("r", ⟨"int", 0, 0⟩)])]⟩

/-- **rename_rename_id_typed_partial.**  The round trip `x → y → x` on the program
together with its type table (struct definitions and the typed signatures of all
callables): both come back syntactically, for every `y` that is fresh for `x`
and names no signature.  (Uses of a callable's name as a parameter TYPE are not
rewritten by the edit — known finding KF2 — and are therefore untouched in both
directions.) -/
theorem rename_rename_id_typed_partial (p : Program) (ti : TypeInfo) (x y : String)
    (hwf : WF p = true) (hfresh : FreshFor x y p = true)
    (hi : y ∉ ti.ins.map (·.1)) (ho : y ∉ ti.outs.map (·.1)) :
    renameCallable y x (renameCallable x y p) = p
    ∧ (ti.renameCallable x y).renameCallable y x = ti :=
  ⟨Proofs.Refactor.rename_rename_id p x y hwf hfresh,
   Proofs.RefactorGraph.typeInfo_rename_roundtrip x y ti hi ho⟩

example : "Z" ∉ exTi.ins.map (·.1) ∧ "Z" ∉ exTi.outs.map (·.1)
    ∧ exTi.renameCallable "S" "Z" ≠ exTi := by decide

/-- **rename_input_graph_partial.**  Renaming input `a` of callable `x` to a fresh name
`b` leaves the resolved call graph unchanged except that every node of a call
of `x` carries its resolved input under the key `b` instead of `a`: the same
nodes (fqids, callables), the same resolved expressions for every input of
every call at every depth, the same resolved outputs and retained references.
`RenInOK` (decidable) is the freshness / well-formedness hypothesis: `b` is not
an input of `x`, is not referred to as `self.b` inside `x` and is bound by no
call of `x`; no wildcard bindings (known finding KF1); call ids are distinct. -/
theorem rename_input_graph_partial (x a b : String) (ti : TypeInfo) (p : Program)
    (hok : RenInOK x a b ti p = true) :
    deepGraph (ti.renameInput x a b) (renameInput x a b p)
      = (deepGraph ti p).map (renNodeIn x a b) := by
  exact Proofs.RefactorGraph.rename_input_graph x a b ti p hok

/-- non-vacuity: the hypothesis holds for the example (stage input, and the
pipeline input `P.a`, whose renaming rewrites `self.a` inside `P` and the
top-level call), the graph has 4 nodes and the renaming changes it. -/
example : RenInOK "S" "a" "z" exTi exProg = true ∧ RenInOK "P" "a" "z" exTi exProg = true
    ∧ (deepGraph exTi exProg).length = 4
    ∧ (deepGraph exTi exProg).map (renNodeIn "S" "a" "z") ≠ deepGraph exTi exProg := by decide

/-- **rename_callable_graph_partial** (the full form of `rename_callgraph_partial`: deep
inlining included).  Modulo the choice of call ids (`eraseIds`: the k-th call of
a pipeline is called `#k`, references point to positions — renaming a callable
may turn `call X` into `call Y` or into `call Y as X`), renaming callable `x` to
a fresh name `y` leaves the resolved call graph unchanged except for the
callable's name: the same nodes with the same fqids, every resolved input,
output and retained reference identical up to `x ↦ y` in the callable named by
a stage-output reference.  `RenCallOK` (decidable): `y` names no callable, no
call, no signature and no type; `x` is not used as a parameter type (known
finding KF2); no wildcard bindings (KF1); distinct call ids. -/
theorem rename_callable_graph_partial (p : Program) (x y : String) (ti : TypeInfo)
    (hwf : WF p = true) (hfresh : FreshFor x y p = true) (hx : (p.find? x).isSome = true)
    (hok : RenCallOK x y ti (eraseIds p) = true) :
    deepGraph (ti.renameCallable x y) (eraseIds (renameCallable x y p))
      = (deepGraph ti (eraseIds p)).map (renNodeCallable x y) := by
  rw [Proofs.Refactor.rename_callgraph p x y hwf hfresh hx]
  exact Proofs.RefactorGraph.renameDec_graph x y ti (eraseIds p) hok

/-- non-vacuity: a plain fresh name and the name `U` that collides with an
existing call id (forced alias); the graph of the id-erased example has 4
nodes and changes under the renaming. -/
example : RenCallOK "S" "Z" exTi (eraseIds exProg) = true ∧ RenCallOK "S" "U" exTi (eraseIds exProg) = true
    ∧ (deepGraph exTi (eraseIds exProg)).length = 4
    ∧ (deepGraph exTi (eraseIds exProg)).map (renNodeCallable "S" "Z") ≠ deepGraph exTi (eraseIds exProg) := by
  decide

/-- **rename_output_graph_partial.**  Renaming output `a` of callable `x` to a fresh name
`b` leaves the resolved call graph unchanged modulo that name: the same nodes;
in every resolved input, output and retained reference, a reference to output
`a` (with any projection below it) of a STAGE node of `x` names `b` instead;
a node of PIPELINE `x` lists its resolved output struct with the key `b` instead
of `a`; nothing else changes — in particular every consumer of the output, at
any depth of inlining, still receives the same stage output / literal.
`RenOutOK` (decidable): `b` is not an output of `x` and is projected from no
call of `x`; no call of `x` is bound as a whole (`= CALL`) and `x` is not used
as a parameter type (known finding KF2); no wildcard bindings (KF1); call ids
distinct; references name existing calls of existing callables. -/
theorem rename_output_graph_partial (x a b : String) (ti : TypeInfo) (p : Program)
    (hok : RenOutOK x a b ti p = true) :
    deepGraph (ti.renameOutput x a b) (renameOutput x a b p)
      = (deepGraph ti p).map (renNodeOut x a b) := by
  exact Proofs.RefactorGraph.rename_output_graph x a b ti p hok

/-- non-vacuity: a stage output that is consumed twice and retained (`S.o`), and
the pipeline output `P.r`; the renaming changes the graph. -/
example : RenOutOK "S" "o" "z" exTi exProg = true ∧ RenOutOK "P" "r" "z" exTi exProg = true
    ∧ (deepGraph exTi exProg).map (renNodeOut "S" "o" "z") ≠ deepGraph exTi exProg
    ∧ (deepGraph exTi exProg).map (renNodeOut "P" "r" "z") ≠ deepGraph exTi exProg := by decide

/-- Negative witness for the whole-call condition (known finding KF2): `T` reads
the call `S` as a struct (`pt = S`) and a sub-pipeline projects `.o` from it; the
edit does not rewrite that projection, so after `S.o → z` the consumer's input
no longer resolves to the stage output. -/
theorem rename_output_whole_call_breaks :
    let S : Callable := ⟨false, "S", false, [], [("o", false)], [], [], [], []⟩
    let T : Callable := ⟨false, "T", false, ["v"], [("w", false)], [], [], [], []⟩
    let Q : Callable := ⟨true, "Q", false, ["s"], [("r", false)], [],
      [⟨"T", "T", "", [⟨"v", .ref ⟨.self, "s", ["o"]⟩⟩], []⟩], [⟨"r", .ref ⟨.call, "T", ["w"]⟩⟩], []⟩
    let P : Callable := ⟨true, "P", false, [], [("r", false)], [],
      [⟨"S", "S", "", [], []⟩, ⟨"Q", "Q", "", [⟨"s", .ref ⟨.call, "S", []⟩⟩], []⟩],
      [⟨"r", .ref ⟨.call, "Q", ["r"]⟩⟩], []⟩
    let prog : Program := ⟨[S, T, Q, P], some ⟨"P", "P", "", [], []⟩⟩
    RenOutOK "S" "o" "z" TypeInfo.empty prog = false
    ∧ deepGraph (TypeInfo.empty.renameOutput "S" "o" "z") (renameOutput "S" "o" "z" prog)
        ≠ (deepGraph TypeInfo.empty prog).map (renNodeOut "S" "o" "z") := by decide

/-- **remove_input_graph_partial** (the deep form of `remove_input_only`).  Removing input
`q` of callable `x` (the parameter and the bindings named `q` of the calls of
`x`) when nothing inside `x` refers to `self.q` leaves the resolved call graph
unchanged except that the nodes of calls of `x` lose the key `q`: every
remaining input of every call, at every depth of inlining, resolves to the same
stage output / literal; outputs and retained references are unchanged. -/
theorem remove_input_graph_partial (x q : String) (ti : TypeInfo) (p : Program)
    (hok : RemInOK x q p = true) :
    deepGraph (ti.removeInput x q) (removeInputOne x q p) = (deepGraph ti p).map (remNodeIn x q) := by
  exact Proofs.RefactorGraph.remove_input_graph x q ti p hok

/-- **remove_input_closure_graph (partial).**  The whole edit `removeInput x q`
(the parameter plus the cascade of pipeline inputs that nothing binds any more,
as computed by `removeInputClosure`; the same closure is what the remove-unused
loop applies after deleting calls / outputs): the nodes lose exactly the removed
keys, every remaining resolved input is unchanged.
PARTIAL: the side condition `RemInsOK` — each removed pipeline input is
unreferenced inside its pipeline at the moment it is removed — is a decidable
hypothesis (evaluated by the harness on every real instance), not derived from
the closure's own analysis `leftoverInputs` (which decides it on the unedited
program, one parameter at a time; known finding KF5 documents where that
analysis is imprecise).  The deep-graph statements for deleting an unused call
and for removing an unreferenced output (the other two steps of the
remove-unused fixed point) are not proved; their one-level forms are
`remove_unused_preserves_partial` and `remove_output_unused`, and the real call
graph before/after is compared by the harness on every such edit. -/
theorem remove_input_closure_graph_partial (x q : String) (ti : TypeInfo) (p : Program)
    (hx : (p.find? x).isSome = true)
    (hok : RemInsOK (removeInputClosure p (closureFuel p) [(x, q)] []) p = true) :
    deepGraph (ti.removeInputs (removeInputClosure p (closureFuel p) [(x, q)] [])) (removeInput x q p)
      = (removeInputClosure p (closureFuel p) [(x, q)] []).foldl
          (fun g xq => g.map (remNodeIn xq.1 xq.2)) (deepGraph ti p) := by
  have : removeInput x q p = removeInputs (removeInputClosure p (closureFuel p) [(x, q)] []) p := by
    unfold removeInput
    cases h : p.find? x with
    | none => simp [h] at hx
    | some _ => rfl
  rw [this]
  exact Proofs.RefactorGraph.remove_inputs_graph _ ti p hok

/-- non-vacuity: removing `S.a` cascades to the pipeline input `P.a` (and the
top-level binding); both steps satisfy the side condition; the graph changes. -/
example : removeInputClosure exProg (closureFuel exProg) [("S", "a")] [] = [("S", "a"), ("P", "a")]
    ∧ RemInsOK [("S", "a"), ("P", "a")] exProg = true
    ∧ (deepGraph exTi exProg).map (remNodeIn "S" "a") ≠ deepGraph exTi exProg := by decide

/-- **remove_input_closure_graph_derived_partial** — the full form of
`remove_input_closure_graph_partial`: the side condition `RemInsOK` is DERIVED
from the closure's own analysis (`leftoverInputs`).  On a structurally
well-formed program (`StructOK`: what the compiler guarantees, independent of
the edit) in which nothing inside `x` reads `self.q` (`seedOK`; vacuous for a
stage), the whole edit `removeInput x q` — the parameter, the bindings of the
calls of `x`, and the cascade of pipeline inputs that nothing binds any more —
removes exactly those keys from the nodes of the resolved call graph and leaves
every remaining resolved input, every output and retained reference unchanged. -/
theorem remove_input_closure_graph_derived_partial (x q : String) (ti : TypeInfo) (p : Program)
    (hx : (p.find? x).isSome = true) (hs : StructOK p = true) (hseed : seedOK x q p = true) :
    deepGraph (ti.removeInputs (removeInputClosure p (closureFuel p) [(x, q)] [])) (removeInput x q p)
      = (removeInputClosure p (closureFuel p) [(x, q)] []).foldl
          (fun g xq => g.map (remNodeIn xq.1 xq.2)) (deepGraph ti p) :=
  remove_input_closure_graph_partial x q ti p hx
    (Proofs.RefactorGraph.closure_remInsOK p x q (closureFuel p) hs hseed)

example : StructOK exProg = true ∧ seedOK "S" "a" exProg = true := by decide

/-- **remove_calls_graph_partial.**  Deleting calls that nothing remaining refers to
(`CallRemOK`: what `unusedCalls` establishes) leaves every remaining node of the
resolved call graph exactly as it was — the graph after the deletion is the
graph of the kept calls resolved in the ORIGINAL program (`deepGraphKeepAt`) —
at every unfolding budget `(big, fuel)` (`deepGraph` is `deepGraphAt` at
`graphFuel`, which the deletion lowers). -/
theorem remove_calls_graph_partial (rem : List CallRemoval) (ti : TypeInfo) (p : Program)
    (hok : CallRemOK rem p = true) (big fuel : Nat) :
    deepGraphAt big fuel ti (applyCallRemovals rem p) = deepGraphKeepAt (keepOf rem) big fuel ti p := by
  unfold deepGraphAt deepGraphKeepAt
  have htop : (applyCallRemovals rem p).top = p.top := rfl
  rw [htop]
  cases ht : p.top with
  | none => rfl
  | some t => exact Proofs.RefactorGraph.remove_calls_nodes rem ti p hok big fuel t ht

/-- `pipeline P2(in a, out r) { call S(a = self.a)  call T as U(a = S.o)  call S as V(a = U.o)
return (r = S.o) }`: the call `V` is referenced by nothing. -/
def exP2 : Callable := { exP with ret := [⟨"r", .ref ⟨.call, "S", ["o"]⟩⟩], retain := [] }
def exProg3 : Program := ⟨[exS, exT, exP2], some ⟨"P", "P", "", [⟨"a", .lit "31"⟩], []⟩⟩

example : CallRemOK [⟨"P", ["V"]⟩] exProg3 = true
    ∧ (deepGraphAt 9 9 exTi (applyCallRemovals [⟨"P", ["V"]⟩] exProg3)).length = 3
    ∧ (deepGraphAt 9 9 exTi exProg3).length = 4 := by decide

/-- **remove_output_graph_partial** (the deep form of `remove_output_unused`).  Removing
an output `o` of `x` that nothing refers to (`RemOutOK`: projected from no call
of `x`, no call of `x` bound as a whole, `x` not used as a type, not the last
output) — the parameter with its return binding / retain entry — leaves the
resolved call graph unchanged except that the nodes of pipeline `x` lose the key
`o` in their resolved output struct.  (The pipeline inputs that this leaves
unbound are then removed by the cascade: `remove_input_closure_graph`.) -/
theorem remove_output_graph_partial (x o : String) (ti : TypeInfo) (p : Program)
    (hok : RemOutOK x o ti p = true) :
    deepGraph (ti.removeOutput x o) (outStep x o p) = (deepGraph ti p).map (remNodeOut x o) :=
  Proofs.RefactorGraph.remove_output_graph x o ti p hok

/-- non-vacuity: stage `S2(in a, out o, out u)` whose output `u` nobody reads;
pipeline `P` with a second output `w`. -/
def exS2 : Callable := ⟨false, "S", false, ["a"], [("o", false), ("u", false)], [], [], [], []⟩
def exP4 : Callable := { exP with outs := [("r", false), ("w", false)],
                                  ret := exP.ret ++ [⟨"w", .ref ⟨.call, "U", ["o"]⟩⟩] }
def exProg4 : Program := ⟨[exS2, exT, exP4], some ⟨"P", "P", "", [⟨"a", .lit "31"⟩], []⟩⟩

example : RemOutOK "S" "u" exTi exProg4 = true ∧ RemOutOK "P" "w" exTi exProg4 = true
    ∧ (deepGraph exTi exProg4).map (remNodeOut "P" "w") ≠ deepGraph exTi exProg4 := by decide

/-- **remove_unused_calls_pass_graph_partial.**  One pass of `RemoveAllUnusedCalls` (delete
the calls selected by `unusedCalls`, then remove the pipeline inputs this leaves
unbound with their cascade) on a structurally well-formed program: the graph
after the pass is the graph of the kept calls, resolved in the program BEFORE
the pass, minus the removed input keys.  No side condition about the edit is
assumed: that the deleted calls are unreferenced, that every cascaded input is
unreferenced when it is removed, and that the seeds of the cascade are, are
derived from `unusedCalls`, `leftoverInputs` and `unboundInputs`. -/
theorem remove_unused_calls_pass_graph_partial (p : Program) (ti : TypeInfo) (hs : StructOK p = true)
    (big fuel : Nat) :
    deepGraphAt big fuel (ti.removeInputs (unusedCallPlan p).2)
        (removeInputs (unusedCallPlan p).2 (applyCallRemovals (unusedCallPlan p).1 p))
      = (unusedCallPlan p).2.foldl (fun g xq => g.map (remNodeIn xq.1 xq.2))
          (deepGraphKeepAt (keepOf (unusedCallPlan p).1) big fuel ti p) :=
  Proofs.RefactorGraph.calls_pass_graph p ti hs big fuel

/-- **remove_unused_calls_loop_graph_upper_bound_partial** (was `remove_unused_calls_loop_graph_partial`)
— an UPPER BOUND only, kept for the record: after the loop (remove-unused-calls mode of
`mro edit`, no `-top-calls`) every node is a node of the original graph with the same fqid,
callable, resolved outputs and retained references, and with resolved inputs that are a
sub-list of the original ones (`GraphLe`).  It does NOT say which nodes remain or which
inputs were dropped, the type table `ti'` is unconstrained, and the conclusion is also met
by a loop that deletes the whole program and by the identity (audit pass 2, C19-M1).  The
exact statement is `remove_unused_calls_loop_graph_exact_partial` below. -/
theorem remove_unused_calls_loop_graph_upper_bound_partial (p0 p : Program) (ti : TypeInfo) (n big fuel : Nat)
    (hs : StructOK p = true) :
    ∃ ti', Proofs.RefactorGraph.GraphLe (deepGraphAt big fuel ti' (removeLoop p0 true [] n p))
      (deepGraphAt big fuel ti p) :=
  Proofs.RefactorGraph.remove_calls_loop_graph p0 big fuel n p ti hs

open Proofs.RefactorGraph in
/-- **remove_unused_calls_loop_graph_exact_partial** — the remove-unused-calls loop (no
`-top-calls`) as ONE equation about the original resolved call graph, on a structurally
well-formed program, for every fuel `n` of the loop and every unfolding budget:
the loop is `m ≤ n` calls passes (`callsIter`: each deletes exactly its own
`unusedCallPlan`); the graph of the result, in the type table `ti.removeInputs pairs`, is
EXACTLY the original graph restricted to the calls that every pass keeps (`loopKeep`:
the walk skips the deleted calls, every remaining node has the fqid / callable / resolved
inputs / outputs / retained references it has in the ORIGINAL program —
`deepGraphKeepAt`, an ordered sub-list of the original graph by `kept_graph_sublist_partial`)
minus the input keys removed by the cascades (`loopPairs`); each of the `m` passes had
something to delete; and unless the fuel ran out (`m = n`; `removeUnused` starts with
`measure p + 1`, `fixpoint_terminates`) no call of the result is unused.  So what is
removed is exactly the union of the passes' plans, and what remains is unchanged.
Neither the identity (on a program with an unused call) nor a loop that deletes more
satisfies this.  All side conditions are derived from the loop's own analyses.
PARTIAL with respect to the full loop: with `-top-calls` the loop also removes unused
pipeline OUTPUTS; each such removal is covered by `remove_output_edit_graph_partial`
under its decidable hypothesis `RemOutOK`, which is not derived from the
`unusedOutputs` reachability analysis. -/
theorem remove_unused_calls_loop_graph_exact_partial (p0 p : Program) (ti : TypeInfo) (n big fuel : Nat)
    (hs : StructOK p = true) :
    ∃ m, m ≤ n
      ∧ removeLoop p0 true [] n p = (callsIter m (ti, p)).2
      ∧ deepGraphAt big fuel (ti.removeInputs (loopPairs m (ti, p))) (removeLoop p0 true [] n p)
          = (loopPairs m (ti, p)).foldl (fun g xq => g.map (remNodeIn xq.1 xq.2))
              (deepGraphKeepAt (fun c i => loopKeep m (ti, p) c.name c.isPipe i) big fuel ti p)
      ∧ (∀ k, k < m → (unusedCallPlan (callsIter k (ti, p)).2).1 ≠ [])
      ∧ (m < n → (unusedCallPlan (removeLoop p0 true [] n p)).1 = []) :=
  remove_calls_loop_graph_eq p0 big fuel n p ti hs

/-- the restricted graph is an ordered sub-list of the full graph of the same program:
deleting calls deletes whole subtrees of the walk, and permutes / duplicates / alters nothing -/
theorem kept_graph_sublist_partial (keep : Callable → String → Bool) (big fuel : Nat) (ti : TypeInfo) (p : Program) :
    (deepGraphKeepAt keep big fuel ti p).Sublist (deepGraphAt big fuel ti p) :=
  Proofs.RefactorGraph.deepGraphKeepAt_sublist keep big fuel ti p

example : StructOK exProg3 = true ∧ (unusedCallPlan exProg3).1 = [⟨"P", ["V"]⟩]
    ∧ removeUnused true [] exProg3 ≠ exProg3 := by decide

/-- **remove_output_edit_graph_partial** — the whole edit `removeOutput x o` on an output
that nothing refers to (`outputUnreferenced`, `RemOutOK`) of a structurally
well-formed program: the parameter with its return binding / retain entry, then
the cascade of the pipeline inputs this leaves unbound (`roPairs`: the closure
that `RemoveOutputParam` computes).  The nodes of pipeline `x` lose the key `o`
of their resolved output struct, the nodes of the callables whose inputs were
cascaded away lose those keys, and nothing else in the resolved call graph
changes.  The cascade's side conditions are derived from `unboundInputs` and
`leftoverInputs`. -/
theorem remove_output_edit_graph_partial (x o : String) (ti : TypeInfo) (p : Program)
    (hun : outputUnreferenced x o p = true) (hok : RemOutOK x o ti p = true) (hs : StructOK p = true) :
    deepGraph ((ti.removeOutput x o).removeInputs (Proofs.RefactorGraph.roPairs x o p)) (removeOutput x o p)
      = (Proofs.RefactorGraph.roPairs x o p).foldl (fun g xq => g.map (remNodeIn xq.1 xq.2))
          ((deepGraph ti p).map (remNodeOut x o)) := by
  rw [remove_output_unused p x o hun]
  exact Proofs.RefactorGraph.remove_output_plain_graph x o ti p hok hs

example : outputUnreferenced "P" "w" exProg4 = true ∧ StructOK exProg4 = true
    ∧ removeOutput "P" "w" exProg4 ≠ exProg4 := by decide

/-! ### non-vacuity on a program with real inlining

    struct PT(int a, int b)
    stage A(in int a, out PT pt)            stage B(in int v, in PT q, out int o)
    pipeline Q(in int a, out PT r, out int z) { call A(a = self.a)  return (r = A.pt, z = 7) }
    pipeline P(in int a, out int w) {
        call Q(a = self.a)
        call B(v = Q.r.b, q = Q.r)                          -- projection through Q's return binding
        call B as B2(v = Q.z, q = {a: 1, b: Q.z, c: 3})     -- literal inlined; struct narrowed to PT
        return (w = B.o) }
    call P(a = 5)

Five nodes on three levels; `P.B.v` resolves through the sub-pipeline's return
binding to the stage output `P.Q.A.pt.b`; `P.B2.q` is narrowed to the members of
`PT` with `b` resolved to the literal that `Q` returns. -/
def dA : Callable := ⟨false, "A", false, ["a"], [("pt", false)], [], [], [], []⟩
def dB : Callable := ⟨false, "B", false, ["v", "q"], [("o", false)], [], [], [], []⟩
def dQ : Callable :=
  ⟨true, "Q", false, ["a"], [("r", false), ("z", false)], [],
   [⟨"A", "A", "", [⟨"a", .ref ⟨.self, "a", []⟩⟩], []⟩],
   [⟨"r", .ref ⟨.call, "A", ["pt"]⟩⟩, ⟨"z", .lit "37"⟩], []⟩
def dP : Callable :=
  ⟨true, "P", false, ["a"], [("w", false)], [],
   [⟨"Q", "Q", "", [⟨"a", .ref ⟨.self, "a", []⟩⟩], []⟩,
    ⟨"B", "B", "", [⟨"v", .ref ⟨.call, "Q", ["r", "b"]⟩⟩, ⟨"q", .ref ⟨.call, "Q", ["r"]⟩⟩], []⟩,
    ⟨"B2", "B", "", [⟨"v", .ref ⟨.call, "Q", ["z"]⟩⟩,
       ⟨"q", .map true (.cons "a" (.lit "31") (.cons "b" (.ref ⟨.call, "Q", ["z"]⟩) (.cons "c" (.lit "33") .nil)))⟩], []⟩],
   [⟨"w", .ref ⟨.call, "B", ["o"]⟩⟩], []⟩
def exDeep : Program := ⟨[dA, dB, dQ, dP], some ⟨"P", "P", "", [⟨"a", .lit "35"⟩], []⟩⟩
def tInt : Ty := ⟨"int", 0, 0⟩
def tPT : Ty := ⟨"PT", 0, 0⟩
def exDeepTi : TypeInfo :=
  ⟨[("PT", [("a", tInt), ("b", tInt)])],
   [("A", [("a", tInt)]), ("B", [("v", tInt), ("q", tPT)]), ("Q", [("a", tInt)]), ("P", [("a", tInt)])],
   [("A", [("pt", tPT)]), ("B", [("o", tInt)]), ("Q", [("r", tPT), ("z", tInt)]), ("P", [("w", tInt)])]⟩

/-- the deep graph of `exDeep` really inlines, projects and narrows -/
example :
    (deepGraph exDeepTi exDeep).map (·.fqid) = [["P"], ["P", "Q"], ["P", "Q", "A"], ["P", "B"], ["P", "B2"]]
    ∧ ((deepGraph exDeepTi exDeep).find? (·.fqid == ["P", "B"])).map (·.inputs)
        = some [("v", .sref ["P", "Q", "A"] "A" ["pt", "b"]), ("q", .sref ["P", "Q", "A"] "A" ["pt"])]
    ∧ ((deepGraph exDeepTi exDeep).find? (·.fqid == ["P", "B2"])).map (·.inputs)
        = some [("v", .lit "37"), ("q", .map true (.cons "a" (.lit "31") (.cons "b" (.lit "37") .nil)))] := by
  decide

/-- every side condition of the call-graph theorems holds on it: inputs and outputs of
the sub-pipeline and of the stage behind it, the callable (on the id-erased program),
the removals; and the edits change the graph -/
example :
    RenInOK "Q" "a" "n" exDeepTi exDeep = true ∧ RenInOK "A" "a" "n" exDeepTi exDeep = true
    ∧ RenOutOK "Q" "r" "rr" exDeepTi exDeep = true ∧ RenOutOK "A" "pt" "pp" exDeepTi exDeep = true
    ∧ RenCallOK "A" "AA" exDeepTi (eraseIds exDeep) = true ∧ WF exDeep = true ∧ FreshFor "A" "AA" exDeep = true
    ∧ StructOK exDeep = true ∧ seedOK "B" "v" exDeep = true ∧ RemOutOK "Q" "z" exDeepTi exDeep = false
    ∧ (deepGraph exDeepTi exDeep).map (renNodeOut "A" "pt" "pp") ≠ deepGraph exDeepTi exDeep
    ∧ (deepGraph exDeepTi exDeep).map (renNodeOut "Q" "r" "rr") ≠ deepGraph exDeepTi exDeep := by
  decide

/-- **graph_fuel_stable.**  The graph model is fuel-bounded (`graphFuel`).  Whenever the
resolution WITH EXPLICIT FUEL EXHAUSTION (`deepGraphO`: `none` as soon as a branch
that is really followed runs out of fuel) succeeds at a budget `n`, the fuelled
graph equals that result at `n` and at every larger budget: nothing was cut off.
The driver evaluates `deepGraphO (graphFuel p)` on every program of every run
(`C19.gfuel`); a `none` there is reported as a violation of the tie. -/
theorem graph_fuel_stable (ti : TypeInfo) (p : Program) (n : Nat) (g : List Node)
    (h : deepGraphO n n ti p = some g) (k : Nat) :
    deepGraphAt (n + k) (n + k) ti p = g :=
  Proofs.RefactorGraph.deepGraph_stable ti p n n g h k k

/-- in particular `deepGraph` (= the budget `graphFuel`) is the graph at every larger budget -/
theorem graph_fuel_adequate (ti : TypeInfo) (p : Program) (g : List Node)
    (h : deepGraphO (graphFuel p) (graphFuel p) ti p = some g) (k : Nat) :
    deepGraph ti p = g ∧ deepGraphAt (graphFuel p + k) (graphFuel p + k) ti p = deepGraph ti p := by
  have h0 := Proofs.RefactorGraph.deepGraph_stable ti p _ _ g h 0 0
  have hk := Proofs.RefactorGraph.deepGraph_stable ti p _ _ g h k k
  have : deepGraph ti p = deepGraphAt (graphFuel p) (graphFuel p) ti p := rfl
  simp only [Nat.add_zero] at h0
  exact ⟨this ▸ h0, by rw [hk, this, h0]⟩

example : (deepGraphO (graphFuel exDeep) (graphFuel exDeep) exDeepTi exDeep).isSome = true
    ∧ (deepGraphO 2 2 exDeepTi exDeep).isSome = false := by decide

/-- **deepGraphD_embeds_deepGraph.**  On a program without `disabled` modifiers the
extended model `deepGraphD` (RefactorGraphD.lean: per-node disable lists, `dis`
wrappers) is exactly the embedding of `deepGraph`: every theorem about `deepGraph`
is a theorem about `deepGraphD` there. -/
theorem deepGraphD_embeds_deepGraph (ti : TypeInfo) (p : Program) (h : noDisabledMods p = true) :
    deepGraphD ti p = (deepGraph ti p).map Node.toD :=
  Proofs.RefactorGraph.deepGraphD_eq_embed ti p h

example : noDisabledMods exDeep = true ∧ (deepGraphD exDeepTi exDeep).length = 5 := by decide

/-! ### the removal theorems at depth (audit pass 2, C19 MEDIUM-3 / M1)

`exDeep2`: sub-pipeline `Q` of `P` has an unused call `B3` which is the only user of `A2`,
which is the only user of `Q`'s input `u`.  Pass 1 deletes `Q.B3` and `P.B2`, pass 2
deletes `Q.A2` and cascades: input `u` of `Q` and its binding in `P`'s call of `Q` go;
pass 3 finds nothing. -/
def dQ2 : Callable :=
  ⟨true, "Q", false, ["a", "u"], [("r", false), ("z", false)], [],
   [⟨"A", "A", "", [⟨"a", .ref ⟨.self, "a", []⟩⟩], []⟩,
    ⟨"A2", "A", "", [⟨"a", .ref ⟨.self, "u", []⟩⟩], []⟩,
    ⟨"B3", "B", "", [⟨"v", .ref ⟨.self, "a", []⟩⟩, ⟨"q", .ref ⟨.call, "A2", ["pt"]⟩⟩], []⟩],
   [⟨"r", .ref ⟨.call, "A", ["pt"]⟩⟩, ⟨"z", .lit "37"⟩], []⟩
def dP2 : Callable :=
  { dP with calls := [⟨"Q", "Q", "", [⟨"a", .ref ⟨.self, "a", []⟩⟩, ⟨"u", .ref ⟨.self, "a", []⟩⟩], []⟩] ++ dP.calls.drop 1 }
def exDeep2 : Program := ⟨[dA, dB, dQ2, dP2], some ⟨"P", "P", "", [⟨"a", .lit "35"⟩], []⟩⟩
def exDeepTi2 : TypeInfo :=
  ⟨exDeepTi.structs,
   [("A", [("a", tInt)]), ("B", [("v", tInt), ("q", tPT)]), ("Q", [("a", tInt), ("u", tInt)]), ("P", [("a", tInt)])],
   exDeepTi.outs⟩

open Proofs.RefactorGraph in
example :
    StructOK exDeep2 = true
    ∧ unusedCallPlan exDeep2 = ([⟨"Q", ["B3"]⟩, ⟨"P", ["B2"]⟩], [])
    ∧ unusedCallPlan (callsIter 1 (exDeepTi2, exDeep2)).2 = ([⟨"Q", ["A2"]⟩], [("Q", "u")])
    ∧ unusedCallPlan (callsIter 2 (exDeepTi2, exDeep2)).2 = ([], [])
    ∧ removeUnused true [] exDeep2 = (callsIter 2 (exDeepTi2, exDeep2)).2
    ∧ loopPairs 2 (exDeepTi2, exDeep2) = [("Q", "u")] := by decide

open Proofs.RefactorGraph in
example :
    (deepGraph exDeepTi2 exDeep2).map (·.fqid)
      = [["P"], ["P", "Q"], ["P", "Q", "A"], ["P", "Q", "A2"], ["P", "Q", "B3"], ["P", "B"], ["P", "B2"]]
    ∧ (deepGraphKeepAt (fun c i => loopKeep 2 (exDeepTi2, exDeep2) c.name c.isPipe i)
          (graphFuel exDeep2) (graphFuel exDeep2) exDeepTi2 exDeep2).map (·.fqid)
      = [["P"], ["P", "Q"], ["P", "Q", "A"], ["P", "B"]]
    ∧ ((deepGraph exDeepTi2 exDeep2).find? (·.fqid == ["P", "Q"])).map (·.inputs)
      = some [("a", .lit "35"), ("u", .lit "35")]
    ∧ ((deepGraphAt (graphFuel exDeep2) (graphFuel exDeep2) (exDeepTi2.removeInputs [("Q", "u")])
          (removeUnused true [] exDeep2)).find? (·.fqid == ["P", "Q"])).map (·.inputs)
      = some [("a", .lit "35")] := by decide

/-! ### the outputs pass of the `-top-calls` loop: side conditions derived from `unusedOutputs`
(bonus round) -/

open Proofs.RefactorUnusedOuts in
/-- **unused_outputs_analysis_sound_partial** — soundness of the reachability analysis behind
`mro edit -top-calls … -remove-unused-outputs` (`unusedOutputs`: `populateChildPipelineOuts`
+ the frontier walk that strikes referenced outputs from the table).  When the walk
terminates by exhausting the frontier (`unusedOutputsO … = some T`: explicit exhaustion,
evaluated per instance by the driver), `T` is what the loop uses, and an output `o` of
`x` that is still in `T` is referenced — as `CALL.o…` or through a whole-call reference
`CALL` — by no binding, modifier, return or retain of any pipeline REACHABLE from the top
pipelines.  PARTIAL: says nothing about pipelines the walk does not reach (the Go code
does not look at them either: an unreachable pipeline that reads `x.o` is broken by the
edit — hence the hypothesis `allReachB` of the pass theorem below). -/
theorem unused_outputs_analysis_sound_partial (p0 p : Program) (tops : List String)
    (T : List (String × List String)) (h : unusedOutputsO p0 p tops = some T) :
    unusedOutputs p0 p tops = T ∧
    ∀ x o, Has T x o → ∀ n, Reach p (topNames p tops) n → ∀ pipe, p.find? n = some pipe →
      ∀ r ∈ pipeCallRefs p pipe, ¬ RefersTo p pipe x o r :=
  unusedOutputsO_spec p0 p tops T h

open Proofs.RefactorUnusedOuts in
/-- **remove_unused_outputs_pass_graph_partial** — one outputs pass of the `-top-calls` loop
(`removeUnusedOutputsPass`: remove the whole table of unused outputs simultaneously, then
the pipeline inputs this leaves unbound with their cascade).  The graph after the pass,
in the type table with the same parameters removed, is the graph before with exactly the
removed keys dropped from the output structs of the pipelines concerned and the cascaded
input keys dropped — nothing else changes.
NO per-output reference condition is assumed: that no reachable pipeline refers to a
removed output (`refCondRo`, `outputUnreferenced`), that the cascade's seeds are
unreferenced after the removal and that every cascaded input is unreferenced when it is
removed are DERIVED from `unusedOutputs`, `unboundInputs` and `leftoverInputs`.
Hypotheses, all decidable and evaluated per instance by the driver (`gthm
removeOutputsPass`): `StructOK` (what compile guarantees minus wildcards, KF1);
`allReachB`: every pipeline is reachable from the top pipelines (otherwise the statement
is FALSE: the analysis does not visit unreachable pipelines); the walk exhausted its
frontier (`unusedOutputsO = some T`, `T` non-empty); `TableShapeOK` (distinct keys, keys
are pipelines with distinct return names — not derived from `populate`); `TableStructOK`:
the STRUCTURAL part of `RemOutOK` for each removal in turn (the pipeline exists once, the
removed output is not its last output / return binding (KF4/KF5), it is not used as a
type (KF2), existing callees, the top-level call's bindings do not refer to it) — it
mentions no reference to the removed outputs inside the program's callables.
PARTIAL: one pass, not composed with the calls passes into the whole loop; `p0` (the
program whose compile-time callable tables `populate` reads) is arbitrary. -/
theorem remove_unused_outputs_pass_graph_partial (p0 p : Program) (tops : List String)
    (T : List (String × List String)) (ti : TypeInfo)
    (hs : StructOK p = true) (hreach : allReachB p tops = true) (hT : unusedOutputsO p0 p tops = some T)
    (hne : T.isEmpty = false) (hshape : TableShapeOK T p = true)
    (hst : TableStructOK (tablePairs T) ti p = true) :
    (removeUnusedOutputsPass p0 tops p).1 = removeInputs (outPassIns p T) (outSteps (tablePairs T) p)
    ∧ deepGraph ((ti.removeOutputs (tablePairs T)).removeInputs (outPassIns p T)) (removeUnusedOutputsPass p0 tops p).1
      = (outPassIns p T).foldl (fun g xq => g.map (remNodeIn xq.1 xq.2))
          ((tablePairs T).foldl (fun g xo => g.map (remNodeOut xo.1 xo.2)) (deepGraph ti p)) :=
  outputs_pass_graph p0 p tops T ti hs (allReach_of_B p tops hreach) hT hne hshape hst

/-- every removed output of the pass satisfies the full hypothesis of the single-output
theorems (`RemOutOK`, `outputUnreferenced`) once its structural part holds -/
theorem unused_output_entry_ok_partial (p0 p : Program) (tops : List String) (T : List (String × List String))
    (ti : TypeInfo) (hs : StructOK p = true) (hreach : allReachB p tops = true)
    (h : unusedOutputsO p0 p tops = some T) (x o : String) (os : List String) (he : (x, os) ∈ T) (ho : o ∈ os)
    (hst : RemOutStructOK x o ti p = true) :
    RemOutOK x o ti p = true ∧ outputUnreferenced x o p = true :=
  Proofs.RefactorUnusedOuts.unused_entry_ok p0 p tops T ti hs
    (Proofs.RefactorUnusedOuts.allReach_of_B p tops hreach) h x o ⟨(x, os), he, rfl, ho⟩ hst

/-! `exOut`: `P → Q → R → A`; `Q` has an output `y = self.u` that `P` does not use: the pass
removes `Q.y`, which leaves `Q`'s input `u` unbound and cascades to `P`'s call of `Q`. -/
def oR : Callable :=
  ⟨true, "R", false, ["a"], [("r", false)], [],
   [⟨"A", "A", "", [⟨"a", .ref ⟨.self, "a", []⟩⟩], []⟩],
   [⟨"r", .ref ⟨.call, "A", ["pt"]⟩⟩], []⟩
def oQ : Callable :=
  ⟨true, "Q", false, ["a", "u"], [("r", false), ("y", false)], [],
   [⟨"R", "R", "", [⟨"a", .ref ⟨.self, "a", []⟩⟩], []⟩],
   [⟨"r", .ref ⟨.call, "R", ["r"]⟩⟩, ⟨"y", .ref ⟨.self, "u", []⟩⟩], []⟩
def oP : Callable :=
  ⟨true, "P", false, ["a"], [("w", false)], [],
   [⟨"Q", "Q", "", [⟨"a", .ref ⟨.self, "a", []⟩⟩, ⟨"u", .ref ⟨.self, "a", []⟩⟩], []⟩,
    ⟨"B", "B", "", [⟨"v", .ref ⟨.call, "Q", ["r", "b"]⟩⟩, ⟨"q", .ref ⟨.call, "Q", ["r"]⟩⟩], []⟩],
   [⟨"w", .ref ⟨.call, "B", ["o"]⟩⟩], []⟩
def exOut : Program := ⟨[dA, dB, oR, oQ, oP], some ⟨"P", "P", "", [⟨"a", .lit "35"⟩], []⟩⟩
def exOutTi : TypeInfo :=
  ⟨exDeepTi.structs,
   [("A", [("a", tInt)]), ("B", [("v", tInt), ("q", tPT)]), ("R", [("a", tInt)]),
    ("Q", [("a", tInt), ("u", tInt)]), ("P", [("a", tInt)])],
   [("A", [("pt", tPT)]), ("B", [("o", tInt)]), ("R", [("r", tPT)]), ("Q", [("r", tPT), ("y", tInt)]),
    ("P", [("w", tInt)])]⟩

example :
    StructOK exOut = true ∧ allReachB exOut ["P"] = true
    ∧ unusedOutputsO exOut exOut ["P"] = some [("Q", ["y"])]
    ∧ TableShapeOK [("Q", ["y"])] exOut = true
    ∧ TableStructOK (tablePairs [("Q", ["y"])]) exOutTi exOut = true
    ∧ outPassIns exOut [("Q", ["y"])] = [("Q", "u")]
    ∧ (removeUnusedOutputsPass exOut ["P"] exOut).1 ≠ exOut
    ∧ ((deepGraph exOutTi exOut).find? (·.fqid == ["P", "Q"])).map (fun n => n.inputs.map (·.1)) = some ["a", "u"]
    ∧ ((deepGraph ((exOutTi.removeOutputs [("Q", "y")]).removeInputs [("Q", "u")])
          (removeUnusedOutputsPass exOut ["P"] exOut).1).find? (·.fqid == ["P", "Q"])).map
        (fun n => n.inputs.map (·.1)) = some ["a"] := by decide

/-- the reachability hypothesis is needed: a pipeline `Z` that nothing calls reads `Q.y`;
the analysis does not visit it and still reports `Q.y` as unused -/
def oZ : Callable :=
  ⟨true, "Z", false, ["a"], [("z", false)], [],
   [⟨"Q", "Q", "", [⟨"a", .ref ⟨.self, "a", []⟩⟩, ⟨"u", .ref ⟨.self, "a", []⟩⟩], []⟩],
   [⟨"z", .ref ⟨.call, "Q", ["y"]⟩⟩], []⟩
def exOutZ : Program := { exOut with callables := exOut.callables ++ [oZ] }

example : StructOK exOutZ = true ∧ allReachB exOutZ ["P"] = false
    ∧ unusedOutputsO exOutZ exOutZ ["P"] = some [("Q", ["y"])]
    ∧ outputUnreferenced "Q" "y" exOutZ = false := by decide

end Props.C19
