/-
C19 — semantic edits (mro edit) preserve behaviour.  PROPERTY THEOREMS ONLY.
-/
import Martian.Refactor

namespace Props.C19
open Martian.Refactor

/-- placeholder while the proofs are being written -/
theorem rename_same_name (x : String) (p : Program) : renameCallable x x p = p := by
  simp [renameCallable]

end Props.C19
