/-
C03 — every enabled job runs exactly once; disabled calls never run.
PROPERTY THEOREMS ONLY (model: Martian/Sched.lean, lemmas: Proofs/Sched.lean).
`s.launches` is the ghost history of every submission `(object, incarnation)`,
`s.resets` of every restart-time reset.  All theorems hold for every state
reachable by any accepted history of any graph.

AT-LEAST-ONCE (progress + termination), section "every failure-free run completes":
`deadlock_free`, `measure_never_increases`, `measure_well_founded`,
`failure_free_run_terminates`, `maximal_run_complete` and the combination
`failure_free_run_completes_exactly_once`.  Vocabulary (Martian/SchedProgress.lean):
`mu` = progress measure (forks without chunk definition, potential of all sentinel
sets and cached node states), ordered lexicographically by `LexLt`;
`Ev.structural` = fork / forkorder / mkchunks-while-loading (the environment's
fork expansion; the model leaves its extent open, so a run is assumed to contain
finitely many of them) and crash / restart / reset; `Ev.quiet` = failure-free and
not structural; `Ev.sched` = the scheduler/job/journal alphabet (refresh a node's cached state,
end loading, submit a job, write a stub/fork `_complete`, define chunks once the split is
complete, a job starts, a job ends successfully, a `_complete` is read) — NOT the environment's
choices (`fork`, `W … disabled`, chunk counts while loading), failures or interruptions;
`Progress s e` = e ∈ `Ev.sched`, enabled, lowers `mu`; `Finished s` =
normal phase, every node Complete/Disabled with a current cached state.
The event language lets the environment stutter for ever (`stepend`, `refresh`,
`killed`, re-reads `R`/`D`/`W` of known files, `U`, `nodestate` restating the state):
those are exactly the quiet events that leave `mu` unchanged, and `Fair` says a run
does not consist of them only while the pipestance is unfinished and a progress
event is enabled (weak fairness towards the scheduler/job alphabet as a whole).

`exactly_once_at_complete` is proved for FAILURE-FREE histories (the property
says "in a run without failures"): `FailureFree h` = no `jobend … errors|assert`,
no `silentfail`, no `W … errors|assert`, no `crash`/`restart`/`reset`.
-/
import Martian.Sched
import Proofs.Sched
import Proofs.SchedOnce
import Martian.SchedProgress
import Proofs.SchedProgress

/-! ### definitional unfoldings (documentation of the model, not guarantees)
The theorems whose docstring starts with DEFINITIONAL UNFOLDING (finished_fork_never_launches, no_double_submission, launched_object_exists) restate a guard
or a definition of the model; they stay where later theorems use them and are not cited as guarantees. -/
namespace Props.C03
open Martian.Sched

/-- `at_most_once` (one incarnation): the submission history never contains the
same (object, incarnation) twice — no job is submitted twice by one mrp process. -/
theorem at_most_once {g : List NodeInfo} {s : State} (hr : Reach g s) : s.launches.Nodup :=
  (reach_launchInv hr).nodup

/-- DEFINITIONAL UNFOLDING (documentation of the model / of a guard, not a guarantee). the same as a guard: a job already submitted in this incarnation cannot be submitted again -/
theorem no_double_submission {s : State} {o : Obj} (h : (o, s.inc) ∈ s.launches) :
    enabled s (.launch o) = false := by
  cases he : enabled s (.launch o)
  · rfl
  · exact absurd h (launchOk_phase (en_launch he)).2.2.2.1

/-- `at_most_once` (across incarnations): a job submitted in incarnation `i` is
submitted again in a later incarnation `j` only if the object was reset
(`Pipestance.Reset` / `RestartLocalJobs`) at some restart in between. -/
theorem relaunch_only_after_reset {g : List NodeInfo} {s : State} (hr : Reach g s)
    {o : Obj} {i j : Nat} (hi : (o, i) ∈ s.launches) (hj : (o, j) ∈ s.launches) (hlt : i < j) :
    ∃ k, i < k ∧ k ≤ j ∧ (o, k) ∈ s.resets :=
  (reach_launchInv hr).relaunch o i j hi hj hlt

/-- a submission leaves `_jobinfo` behind until the object is reset: a job that
is believed submitted is not submitted a second time even by a later incarnation -/
theorem submitted_stays_submitted {g : List NodeInfo} {s : State} (hr : Reach g s)
    {o : Obj} {i : Nat} (hi : (o, i) ∈ s.launches) :
    (s.m o).disk.has .jobinfo = true ∨ ∃ k, i < k ∧ k ≤ s.inc ∧ (o, k) ∈ s.resets :=
  (reach_launchInv hr).alive o i hi

/-- DEFINITIONAL UNFOLDING (documentation of the model / of a guard, not a guarantee). `disabled calls never run` / finished forks are left alone: no job of a fork
whose own metadata says disabled or complete can be submitted … -/
theorem finished_fork_never_launches {s : State} {n f : Nat} {r : Role}
    (h : fmDone s n f = true) : enabled s (.launch ⟨n, f, r⟩) = false := by
  cases he : enabled s (.launch ⟨n, f, r⟩)
  · rfl
  · have := (launchOk_phase (en_launch he)).2.2.1
    simp [h] at this

/-- … and a disabled/complete fork stays so under every event (also crash,
restart and restart-time resets). -/
theorem finished_fork_stays_finished {g : List NodeInfo} {s : State} {e : Ev} {n f : Nat}
    (hr : Reach g s) (hen : enabled s e = true) (h : fmDone s n f = true) :
    fmDone (apply s e) n f = true :=
  fmDone_stable (reach_objsInv hr) (reach_full hr) hen h

/-- DEFINITIONAL UNFOLDING (documentation of the model / of a guard, not a guarantee). only objects that exist are run: the fork is in the node's fork list and a
chunk index is below the number of chunks the split defined -/
theorem launched_object_exists {s : State} {o : Obj} (hen : enabled s (.launch o) = true) :
    s.hasObj o = true ∧ o.r ≠ .fork := by
  refine ⟨(launchOk_phase (en_launch hen)).2.2.2.2, ?_⟩
  intro hr
  have := (launchOk_facts (en_launch hen)).1
  simp [hr, Role.isJob] at this

/-- `exactly_once_at_complete`: for EVERY accepted failure-free history and every
fork `f` of a stage node `n` (at any point of the history, in particular at the end):
* if the fork is complete then every chunk object the split defined was submitted
  exactly once and no other chunk index ever; for a splitting stage the split and
  the join were submitted exactly once each; for a non-splitting stage (split and
  join are mrp's stubs) never;
* if the fork is disabled, no job of it was ever submitted.
(`launchCount s o` = number of entries of object `o` in the submission history.) -/
theorem exactly_once_at_complete {g : List NodeInfo} {evs : List Ev} {s : State}
    (hrep : replay (init g) evs = .ok s) (hff : FailureFree evs) (n f : Nat)
    (hk : s.kind n ≠ .pipeline) :
    (s.st ⟨n, f, .fork⟩ = some .complete →
      (∀ i, i < s.nch n f → launchCount s ⟨n, f, .chunk i⟩ = 1) ∧
      (∀ i, s.nch n f ≤ i → launchCount s ⟨n, f, .chunk i⟩ = 0) ∧
      (s.kind n = .splitstage →
        launchCount s ⟨n, f, .split⟩ = 1 ∧ launchCount s ⟨n, f, .join⟩ = 1) ∧
      (s.kind n = .stage →
        launchCount s ⟨n, f, .split⟩ = 0 ∧ launchCount s ⟨n, f, .join⟩ = 0)) ∧
    (s.st ⟨n, f, .fork⟩ = some .disabled → ∀ r, launchCount s ⟨n, f, r⟩ = 0) :=
  exactly_once_of_inv (reach_objsInv (replay_reach hrep)) (reach_launchInv (replay_reach hrep))
    (ff_replayFrom Reach.init (ffInv_init g) hff hrep) n f hk

/-- … and when the pipestance is finished (every node Complete or Disabled) the two
cases above cover every fork of every node: each is complete or disabled. -/
theorem finished_pipestance_forks {s : State}
    (hdone : ∀ n, n < s.nodes.length → nodeState s n = .complete ∨ nodeState s n = .disabled)
    (n f : Nat) (hn : n < s.nodes.length) (hf : f ∈ s.forksOf n) :
    s.st ⟨n, f, .fork⟩ = some .complete ∨ s.st ⟨n, f, .fork⟩ = some .disabled := by
  have hd : nodeDone s n = true := by
    have h := hdone n hn
    unfold nodeState nodeStateOf at h
    unfold nodeDone
    cases hs : scanForks (forkStates s n) true
    · simp [hs] at h
    · rfl
    · rw [hs] at h
      by_cases hp : (s.pre n).all (nodeDone s) = true <;> simp [hp] at h
  have := nodeDone_iff.mp hd f hf
  simpa [fmDone] using this

/-- the completion chain behind it (failure-free): fork complete ⇒ join complete ⇒
every chunk complete ⇒ (with chunks: a chunk was submitted ⇒) split complete -/
theorem completion_chain {g : List NodeInfo} {evs : List Ev} {s : State}
    (hrep : replay (init g) evs = .ok s) (hff : FailureFree evs) (n f : Nat)
    (hk : s.kind n ≠ .pipeline) (hc : (s.m ⟨n, f, .fork⟩).disk.has .complete = true) :
    (s.m ⟨n, f, .join⟩).disk.has .complete = true ∧
    (∀ i, i < s.nch n f → (s.m ⟨n, f, .chunk i⟩).disk.has .complete = true) ∧
    (s.m ⟨n, f, .split⟩).disk.has .complete = true := by
  have hinv := ff_replayFrom Reach.init (ffInv_init g) hff hrep
  have hobj := reach_objsInv (replay_reach hrep)
  have hj := hinv.c1 n f hk hc
  obtain ⟨a, b⟩ := hinv.c2 n f (Or.inr hj)
  refine ⟨hj, a, ?_⟩
  by_cases hz : s.nch n f = 0
  · exact b hz
  · have h0 := (hobj ⟨n, f, .chunk 0⟩).kk rfl (Or.inr (Or.inl (a 0 (by omega))))
    exact (hobj _).sub _ (hinv.c3 n f 0 h0)

/-! ### every failure-free run completes (at-least-once) -/

/-- `deadlock_free`: after EVERY accepted failure-free history of an acyclic graph the
pipestance is finished, or some event of the scheduler/job/journal alphabet is enabled
that lowers the measure (the cached state of a node is refreshed, the first refresh ends
loading, a stub/fork `_complete` is written, chunks are defined, a job is submitted,
starts, ends, or its `_complete` is read). -/
theorem deadlock_free {g : List NodeInfo} {evs : List Ev} {s : State} (hac : Acyclic g)
    (hrep : replay (init g) evs = .ok s) (hff : FailureFree evs) :
    Finished s ∨ ∃ e, Progress s e :=
  ff_finished_or_progress (replay_reach hrep) (ff_replayFrom Reach.init (ffInv_init g) hff hrep)
    (replay_aliveInv (aliveInv_init g) hff hrep) hac

/-- `measure_never_increases`: in ANY state, a quiet enabled event lowers the measure or
leaves it unchanged (the latter are the stuttering events) … -/
theorem measure_never_increases {s : State} {e : Ev} (hen : enabled s e = true)
    (hq : e.quiet s = true) : LexLt (mu (apply s e)) (mu s) ∨ mu (apply s e) = mu s :=
  mu_quiet hen hq

/-- … and the order is well founded: no infinite descent. -/
theorem measure_well_founded : WellFounded LexLt := lexLt_wf

/-- `failure_free_run_terminates`: an infinite run that is quiet from some point on
lowers the measure only finitely often — from some point on it only stutters.
(Hence every maximal failure-free run with finitely many fork-structure events
contains finitely many non-stuttering events.) -/
theorem failure_free_run_terminates {s0 : State} {σ : Nat → State} {es : Nat → Ev}
    (hrun : Run s0 σ es) {K : Nat} (hq : ∀ i, K ≤ i → (es i).quiet (σ i) = true) :
    ∃ M, K ≤ M ∧ ∀ j, M ≤ j → mu (σ (j + 1)) = mu (σ j) := by
  obtain ⟨M, hM, hrest⟩ := eventually_stutters hrun _ K rfl hq
  refine ⟨M, hM, fun j hj => ?_⟩
  have := mu_quiet (hrun.en j) (hq j (by omega))
  rw [← hrun.next] at this
  rcases this with h | h
  · exact absurd h (hrest j hj)
  · exact h

/-- `maximal_run_complete`: a finite accepted failure-free history after which no
progress event is enabled (a maximal run) has finished the pipestance, every fork is
complete or disabled, and every stage fork ran exactly its jobs. -/
theorem maximal_run_complete {g : List NodeInfo} {evs : List Ev} {s : State} (hac : Acyclic g)
    (hrep : replay (init g) evs = .ok s) (hff : FailureFree evs)
    (hmax : ∀ e, ¬ Progress s e) :
    Finished s ∧
    (∀ n f, n < g.length → f ∈ s.forksOf n →
      s.st ⟨n, f, .fork⟩ = some .complete ∨ s.st ⟨n, f, .fork⟩ = some .disabled) ∧
    (∀ n f, s.kind n ≠ .pipeline → ExactlyOnce s n f) := by
  have hfin : Finished s := by
    rcases deadlock_free hac hrep hff with h | ⟨e, he⟩
    · exact h
    · exact absurd he (hmax e)
  refine ⟨hfin, fun n f hn hf => ?_, fun n f hk => ?_⟩
  · exact finished_forks hfin n f (by rw [reach_nodes (replay_reach hrep)]; exact hn) hf
  · exact exactly_once_at_complete hrep hff n f hk

/-- `failure_free_run_completes_exactly_once` (C03, both halves): every infinite run
from the initial state of an acyclic graph that
* contains no failure event and no crash/restart/reset (`failureFree`),
* contains finitely many fork-structure events (`structural`: fork expansion is
  bounded by the data; the model does not bound it), and
* is fair (does not stutter for ever while unfinished and able to progress)
reaches a finished state and stays finished; there every fork of every node is
complete or disabled, every complete stage fork has submitted its split (if it
splits), each chunk the split defined and its join exactly once and nothing else,
and no job of a disabled fork was ever submitted. -/
theorem failure_free_run_completes_exactly_once {g : List NodeInfo} {σ : Nat → State}
    {es : Nat → Ev} (hac : Acyclic g) (hrun : Run (init g) σ es)
    (hff : ∀ i, (es i).failureFree = true)
    (hfin : ∃ K, ∀ i, K ≤ i → (es i).structural (σ i) = false) (hfair : Fair σ) :
    ∃ M, ∀ j, M ≤ j →
      Finished (σ j) ∧
      (∀ n f, n < g.length → f ∈ (σ j).forksOf n →
        (σ j).st ⟨n, f, .fork⟩ = some .complete ∨ (σ j).st ⟨n, f, .fork⟩ = some .disabled) ∧
      (∀ n f, (σ j).kind n ≠ .pipeline → ExactlyOnce (σ j) n f) := by
  obtain ⟨K, hK⟩ := hfin
  have hreach := run_reach hrun
  have hinv := run_ffInv hrun hff
  obtain ⟨M, _, hM⟩ := fair_run_finishes hrun hfair (K := K)
    (fun i hi => ff_quiet (hff i) (hK i hi))
    (fun i _ => ff_finished_or_progress (hreach i) (hinv i) (run_aliveInv hrun hff i) hac)
  refine ⟨M, fun j hj => ⟨hM j hj, fun n f hn hf => ?_, fun n f hk => ?_⟩⟩
  · exact finished_forks (hM j hj) n f (by rw [reach_nodes (hreach j)]; exact hn) hf
  · exact exactly_once_of_inv (reach_objsInv (hreach j)) (reach_launchInv (hreach j)) (hinv j) n f hk

/-! ### non-vacuity -/

/-- a complete failure-free run of one splitting stage with two chunks -/
def hfull : List Ev :=
  [.fork 0 0, .nodestate 0 .running, .refresh, .launch ⟨0, 0, .split⟩,
   .joblog ⟨0, 0, .split⟩, .jobend ⟨0, 0, .split⟩ .complete, .R ⟨0, 0, .split⟩ .complete,
   .mkchunks 0 0 2, .launch ⟨0, 0, .chunk 0⟩, .launch ⟨0, 0, .chunk 1⟩,
   .joblog ⟨0, 0, .chunk 1⟩, .jobend ⟨0, 0, .chunk 1⟩ .complete,
   .joblog ⟨0, 0, .chunk 0⟩, .jobend ⟨0, 0, .chunk 0⟩ .complete,
   .R ⟨0, 0, .chunk 1⟩ .complete, .R ⟨0, 0, .chunk 0⟩ .complete, .launch ⟨0, 0, .join⟩,
   .joblog ⟨0, 0, .join⟩, .jobend ⟨0, 0, .join⟩ .complete, .R ⟨0, 0, .join⟩ .complete,
   .W ⟨0, 0, .fork⟩ .complete, .nodestate 0 .complete]

example : FailureFree hfull := by unfold FailureFree; decide

example : (match replay (init [{ kind := .splitstage, pre := [] }]) hfull with
    | .ok s => s.st ⟨0, 0, .fork⟩ == some .complete && nodeState s 0 == .complete &&
        launchCount s ⟨0, 0, .split⟩ == 1 && launchCount s ⟨0, 0, .chunk 1⟩ == 1 &&
        launchCount s ⟨0, 0, .join⟩ == 1 && launchCount s ⟨0, 0, .chunk 2⟩ == 0
    | .error _ => false) = true := by decide

/-- the same history followed by `stepend` for ever is a run satisfying every hypothesis of
`failure_free_run_completes_exactly_once`: accepted, failure-free, no structural event from
index 1 on, fair (its last event lowers the measure, afterwards it is finished) — and the
graph is acyclic -/
def gfull : List NodeInfo := [{ kind := .splitstage, pre := [] }]
def σfull : Nat → State := prefixState (init gfull) hfull
def esfull : Nat → Ev := fun i => hfull.getD i .stepend

example : Acyclic gfull := topoSorted_acyclic (by decide)

example : Run (init gfull) σfull esfull := run_of_list _ _ (by decide)

example : ∀ i, (esfull i).failureFree = true := by
  intro i
  by_cases h : i < hfull.length
  · revert i; decide
  · have : hfull[i]? = none := by simp; omega
    simp [esfull, List.getD, this, Ev.failureFree]

example : ∀ i, 1 ≤ i → (esfull i).structural (σfull i) = false := by
  intro i h1
  by_cases h : i < hfull.length
  · have : ∀ i, i < hfull.length → 1 ≤ i → (esfull i).structural (σfull i) = false := by decide
    exact this i h h1
  · have : hfull[i]? = none := by simp; omega
    simp [esfull, List.getD, this, Ev.structural]

theorem σfull_finished (i : Nat) (h : hfull.length ≤ i) : Finished (σfull i) := by
  have : σfull i = σfull hfull.length := by
    simp [σfull, prefixState, List.take_of_length_le h]
  rw [this]
  refine ⟨by decide, fun n hn => ?_⟩
  have hn' : n < 1 := hn
  have : n = 0 := by omega
  subst this
  decide

example : Fair σfull := by
  intro i hnf _
  have hi : i < hfull.length := by
    apply Classical.byContradiction
    intro h
    exact hnf (σfull_finished i (by omega))
  exact ⟨21, by have : hfull.length = 22 := rfl; omega, by decide⟩

/-- the measure at work on this run: after the fork exists (1 fork without chunks, 92); the
definition of two chunks trades the first component for potential: (1, 78) → (0, 138);
at the end (0, 98) -/
example : mu (σfull 1) = (1, 92) ∧ mu (σfull 7) = (1, 78) ∧ mu (σfull 8) = (0, 138) ∧
    mu (σfull 22) = (0, 98) := by decide

/-- a state in which nothing has been done is not finished, and a progress event exists -/
example : ¬ Finished (init gfull) := by intro h; exact absurd h.1 (by decide)
example : Progress (init gfull) (.nodestate 0 .disabled) := by
  refine ⟨by decide, by decide, by decide⟩

/-- maximality is satisfiable: at the end of that run NO event of the scheduler/job/journal
alphabet is enabled and lowers the measure (hypothesis `hmax` of `maximal_run_complete`) -/
example : ∀ e, ¬ Progress (σfull 22) e :=
  no_progress_of_quiescent (reach_objsInv (run_reach (run_of_list _ _ (by decide)) 22)) (by decide)

/-- Negative witness for the hypothesis `Acyclic`: a stage that is its own prenode can never run.
After `fork 0 0; refresh` the pipestance is not finished and NO progress event exists —
`deadlock_free` is false for this graph. -/
def gcyc : List NodeInfo := [{ kind := .stage, pre := [0] }]
def scyc : State := prefixState (init gcyc) [.fork 0 0, .refresh] 2

theorem cyclic_graph_deadlocks : ¬ Finished scyc ∧ ∀ e, ¬ Progress scyc e := by
  refine ⟨fun h => ?_, no_progress_of_quiescent ?_ (by decide)⟩
  · have := (h.2 0 (by decide)).1
    exact absurd this (by decide)
  · exact reach_objsInv (run_reach (run_of_list (init gcyc) [.fork 0 0, .refresh] (by decide)) 2)

/-! A larger run: producer stage 0, a splitting consumer 1 mapped over it (a placeholder fork, a
second fork added AT RUN TIME when node 0 has finished, one of the two forks disabled, the other
split returns 0 chunks), and the enclosing pipeline 2. -/
def g3n : List NodeInfo :=
  [{ kind := .stage, pre := [] }, { kind := .splitstage, pre := [0] }, { kind := .pipeline, pre := [0, 1] }]

def h3n : List Ev :=
  [.fork 0 0, .fork 1 0, .fork 2 0, .nodestate 0 .running, .refresh,
   .W ⟨0, 0, .split⟩ .complete, .mkchunks 0 0 1, .launch ⟨0, 0, .chunk 0⟩,
   .joblog ⟨0, 0, .chunk 0⟩, .jobend ⟨0, 0, .chunk 0⟩ .complete, .R ⟨0, 0, .chunk 0⟩ .complete,
   .W ⟨0, 0, .join⟩ .complete, .W ⟨0, 0, .fork⟩ .complete, .nodestate 0 .complete,
   .fork 1 1, .nodestate 1 .running, .W ⟨1, 1, .fork⟩ .disabled,
   .launch ⟨1, 0, .split⟩, .joblog ⟨1, 0, .split⟩, .jobend ⟨1, 0, .split⟩ .complete,
   .R ⟨1, 0, .split⟩ .complete, .launch ⟨1, 0, .join⟩, .joblog ⟨1, 0, .join⟩,
   .jobend ⟨1, 0, .join⟩ .complete, .R ⟨1, 0, .join⟩ .complete, .W ⟨1, 0, .fork⟩ .complete,
   .nodestate 1 .complete, .nodestate 2 .running, .W ⟨2, 0, .fork⟩ .complete, .nodestate 2 .complete]

def σ3n : Nat → State := prefixState (init g3n) h3n
def es3n : Nat → Ev := fun i => h3n.getD i .stepend

example : Acyclic g3n := topoSorted_acyclic (by decide)
example : Run (init g3n) σ3n es3n := run_of_list _ _ (by decide)
example : ∀ i, (es3n i).failureFree = true := by
  intro i
  by_cases h : i < h3n.length
  · revert i; decide
  · have : h3n[i]? = none := by simp; omega
    simp [es3n, List.getD, this, Ev.failureFree]
/-- the last structural event is the run-time `fork 1 1` (index 14) -/
example : ∀ i, 15 ≤ i → (es3n i).structural (σ3n i) = false := by
  intro i h1
  by_cases h : i < h3n.length
  · have : ∀ i, i < h3n.length → 15 ≤ i → (es3n i).structural (σ3n i) = false := by decide
    exact this i h h1
  · have : h3n[i]? = none := by simp; omega
    simp [es3n, List.getD, this, Ev.structural]
theorem σ3n_finished (i : Nat) (h : h3n.length ≤ i) : Finished (σ3n i) := by
  have : σ3n i = σ3n h3n.length := by simp [σ3n, prefixState, List.take_of_length_le h]
  rw [this]
  refine ⟨by decide, fun n hn => ?_⟩
  have hn' : n < 3 := hn
  have : n = 0 ∨ n = 1 ∨ n = 2 := by omega
  rcases this with rfl | rfl | rfl <;> decide
example : Fair σ3n := by
  intro i hnf _
  have hi : i < h3n.length := by
    apply Classical.byContradiction
    intro h
    exact hnf (σ3n_finished i (by omega))
  exact ⟨29, by have : h3n.length = 30 := rfl; omega, by decide⟩
/-- … and what the theorem says about its end: the run fork of node 1 ran split and join once and no
chunk, the disabled fork nothing, the producer its one chunk once -/
example : launchCount (σ3n 30) ⟨1, 0, .split⟩ = 1 ∧ launchCount (σ3n 30) ⟨1, 0, .join⟩ = 1 ∧
    launchCount (σ3n 30) ⟨1, 0, .chunk 0⟩ = 0 ∧ launchCount (σ3n 30) ⟨1, 1, .split⟩ = 0 ∧
    launchCount (σ3n 30) ⟨0, 0, .chunk 0⟩ = 1 ∧ (σ3n 30).st ⟨1, 1, .fork⟩ = some .disabled := by decide


def g1 : List NodeInfo := [{ kind := .splitstage, pre := [] }]

/-- split submitted, mrp killed while it is queued, restart resets it, it is submitted again -/
def h1 : List Ev :=
  [.fork 0 0, .nodestate 0 .running, .refresh, .launch ⟨0, 0, .split⟩,
   .crash, .restart, .reset ⟨0, 0, .split⟩, .refresh, .launch ⟨0, 0, .split⟩]

example : (match replay (init g1) h1 with
    | .ok s => s.launches == [(⟨0, 0, .split⟩, 1), (⟨0, 0, .split⟩, 0)] &&
               s.resets == [(⟨0, 0, .split⟩, 1)] && !enabled s (.launch ⟨0, 0, .split⟩)
    | .error _ => false) = true := by decide

/-- without the reset the second submission is rejected -/
example : (match replay (init g1)
      [.fork 0 0, .nodestate 0 .running, .refresh, .launch ⟨0, 0, .split⟩,
       .crash, .restart, .refresh, .launch ⟨0, 0, .split⟩] with
    | .ok _ => true
    | .error _ => false) = false := by decide

/-- a disabled fork: accepted history, after which nothing of the fork can be launched -/
example : (match replay (init g1)
      [.fork 0 0, .nodestate 0 .running, .refresh, .W ⟨0, 0, .fork⟩ .disabled] with
    | .ok s => fmDone s 0 0 && !enabled s (.launch ⟨0, 0, .split⟩) && nodeState s 0 == .disabled
    | .error _ => false) = true := by decide

end Props.C03
