/-
C03 — every enabled job runs exactly once; disabled calls never run.
PROPERTY THEOREMS ONLY (model: Martian/Sched.lean, lemmas: Proofs/Sched.lean).
`s.launches` is the ghost history of every submission `(object, incarnation)`,
`s.resets` of every restart-time reset.  All theorems hold for every state
reachable by any accepted history of any graph.

NOT PROVED (stated here, see report): `exactly_once_at_complete` — "if the
final state has every node complete|disabled and no crash happened, every
non-disabled stage fork has exactly one launch per chunk, one join (+ one split
for splitting stages)".  The *at most once* half is `at_most_once` below; the
*at least once* half needs the invariant `fork complete ⇒ its join / chunks /
split objects are complete on disk ⇒ each was submitted`, which the model
cannot establish as stated because mrp may write `_errors` into any job object
at any time (kill, heartbeat) — it is monitored on the real histories instead
(the runner counts `launch` lines per object at completion).
-/
import Martian.Sched
import Proofs.Sched

namespace Props.C03
open Martian.Sched

/-- `at_most_once` (one incarnation): the submission history never contains the
same (object, incarnation) twice — no job is submitted twice by one mrp process. -/
theorem at_most_once {g : List NodeInfo} {s : State} (hr : Reach g s) : s.launches.Nodup :=
  (reach_launchInv hr).nodup

/-- the same as a guard: a job already submitted in this incarnation cannot be submitted again -/
theorem no_double_submission {s : State} {o : Obj} (h : (o, s.inc) ∈ s.launches) :
    enabled s (.launch o) = false := by
  cases he : enabled s (.launch o)
  · rfl
  · exact absurd h (launchOk_phase (en_launch he)).2.2.2.1

/-- `at_most_once` (across incarnations): a job submitted in incarnation `i` is
submitted again in a later incarnation `j` only if the object was reset
(`Pipestance.Reset` / `RestartLocalJobs`) at some restart in between. -/
theorem relaunch_only_after_reset {g : List NodeInfo} {s : State} (hr : Reach g s)
    {o : Obj} {i j : Nat} (hi : (o, i) ∈ s.launches) (hj : (o, j) ∈ s.launches) (hlt : i < j) :
    ∃ k, i < k ∧ k ≤ j ∧ (o, k) ∈ s.resets :=
  (reach_launchInv hr).relaunch o i j hi hj hlt

/-- a submission leaves `_jobinfo` behind until the object is reset: a job that
is believed submitted is not submitted a second time even by a later incarnation -/
theorem submitted_stays_submitted {g : List NodeInfo} {s : State} (hr : Reach g s)
    {o : Obj} {i : Nat} (hi : (o, i) ∈ s.launches) :
    (s.m o).disk.has .jobinfo = true ∨ ∃ k, i < k ∧ k ≤ s.inc ∧ (o, k) ∈ s.resets :=
  (reach_launchInv hr).alive o i hi

/-- `disabled calls never run` / finished forks are left alone: no job of a fork
whose own metadata says disabled or complete can be submitted … -/
theorem finished_fork_never_launches {s : State} {n f : Nat} {r : Role}
    (h : fmDone s n f = true) : enabled s (.launch ⟨n, f, r⟩) = false := by
  cases he : enabled s (.launch ⟨n, f, r⟩)
  · rfl
  · have := (launchOk_phase (en_launch he)).2.2.1
    simp [h] at this

/-- … and a disabled/complete fork stays so under every event (also crash,
restart and restart-time resets). -/
theorem finished_fork_stays_finished {g : List NodeInfo} {s : State} {e : Ev} {n f : Nat}
    (hr : Reach g s) (hen : enabled s e = true) (h : fmDone s n f = true) :
    fmDone (apply s e) n f = true :=
  fmDone_stable (reach_objsInv hr) hen h

/-- only objects that exist are run: the fork is in the node's fork list and a
chunk index is below the number of chunks the split defined -/
theorem launched_object_exists {s : State} {o : Obj} (hen : enabled s (.launch o) = true) :
    s.hasObj o = true ∧ o.r ≠ .fork := by
  refine ⟨(launchOk_phase (en_launch hen)).2.2.2.2, ?_⟩
  intro hr
  have := (launchOk_facts (en_launch hen)).1
  simp [hr, Role.isJob] at this

/-! ### non-vacuity -/

def g1 : List NodeInfo := [{ kind := .splitstage, pre := [] }]

/-- split submitted, mrp killed while it is queued, restart resets it, it is submitted again -/
def h1 : List Ev :=
  [.fork 0 0, .nodestate 0 .running, .refresh, .launch ⟨0, 0, .split⟩,
   .crash, .restart, .reset ⟨0, 0, .split⟩, .refresh, .launch ⟨0, 0, .split⟩]

example : (match replay (init g1) h1 with
    | .ok s => s.launches == [(⟨0, 0, .split⟩, 1), (⟨0, 0, .split⟩, 0)] &&
               s.resets == [(⟨0, 0, .split⟩, 1)] && !enabled s (.launch ⟨0, 0, .split⟩)
    | .error _ => false) = true := by decide

/-- without the reset the second submission is rejected -/
example : (match replay (init g1)
      [.fork 0 0, .nodestate 0 .running, .refresh, .launch ⟨0, 0, .split⟩,
       .crash, .restart, .refresh, .launch ⟨0, 0, .split⟩] with
    | .ok _ => true
    | .error _ => false) = false := by decide

/-- a disabled fork: accepted history, after which nothing of the fork can be launched -/
example : (match replay (init g1)
      [.fork 0 0, .nodestate 0 .running, .refresh, .W ⟨0, 0, .fork⟩ .disabled] with
    | .ok s => fmDone s 0 0 && !enabled s (.launch ⟨0, 0, .split⟩) && nodeState s 0 == .disabled
    | .error _ => false) = true := by decide

end Props.C03
