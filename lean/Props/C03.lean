/-
C03 — every enabled job runs exactly once; disabled calls never run.
PROPERTY THEOREMS ONLY (model: Martian/Sched.lean, lemmas: Proofs/Sched.lean).
`s.launches` is the ghost history of every submission `(object, incarnation)`,
`s.resets` of every restart-time reset.  All theorems hold for every state
reachable by any accepted history of any graph.

`exactly_once_at_complete` is proved for FAILURE-FREE histories (the property
says "in a run without failures"): `FailureFree h` = no `jobend … errors|assert`,
no `silentfail`, no `W … errors|assert`, no `crash`/`restart`/`reset`.
-/
import Martian.Sched
import Proofs.Sched
import Proofs.SchedOnce

namespace Props.C03
open Martian.Sched

/-- `at_most_once` (one incarnation): the submission history never contains the
same (object, incarnation) twice — no job is submitted twice by one mrp process. -/
theorem at_most_once {g : List NodeInfo} {s : State} (hr : Reach g s) : s.launches.Nodup :=
  (reach_launchInv hr).nodup

/-- the same as a guard: a job already submitted in this incarnation cannot be submitted again -/
theorem no_double_submission {s : State} {o : Obj} (h : (o, s.inc) ∈ s.launches) :
    enabled s (.launch o) = false := by
  cases he : enabled s (.launch o)
  · rfl
  · exact absurd h (launchOk_phase (en_launch he)).2.2.2.1

/-- `at_most_once` (across incarnations): a job submitted in incarnation `i` is
submitted again in a later incarnation `j` only if the object was reset
(`Pipestance.Reset` / `RestartLocalJobs`) at some restart in between. -/
theorem relaunch_only_after_reset {g : List NodeInfo} {s : State} (hr : Reach g s)
    {o : Obj} {i j : Nat} (hi : (o, i) ∈ s.launches) (hj : (o, j) ∈ s.launches) (hlt : i < j) :
    ∃ k, i < k ∧ k ≤ j ∧ (o, k) ∈ s.resets :=
  (reach_launchInv hr).relaunch o i j hi hj hlt

/-- a submission leaves `_jobinfo` behind until the object is reset: a job that
is believed submitted is not submitted a second time even by a later incarnation -/
theorem submitted_stays_submitted {g : List NodeInfo} {s : State} (hr : Reach g s)
    {o : Obj} {i : Nat} (hi : (o, i) ∈ s.launches) :
    (s.m o).disk.has .jobinfo = true ∨ ∃ k, i < k ∧ k ≤ s.inc ∧ (o, k) ∈ s.resets :=
  (reach_launchInv hr).alive o i hi

/-- `disabled calls never run` / finished forks are left alone: no job of a fork
whose own metadata says disabled or complete can be submitted … -/
theorem finished_fork_never_launches {s : State} {n f : Nat} {r : Role}
    (h : fmDone s n f = true) : enabled s (.launch ⟨n, f, r⟩) = false := by
  cases he : enabled s (.launch ⟨n, f, r⟩)
  · rfl
  · have := (launchOk_phase (en_launch he)).2.2.1
    simp [h] at this

/-- … and a disabled/complete fork stays so under every event (also crash,
restart and restart-time resets). -/
theorem finished_fork_stays_finished {g : List NodeInfo} {s : State} {e : Ev} {n f : Nat}
    (hr : Reach g s) (hen : enabled s e = true) (h : fmDone s n f = true) :
    fmDone (apply s e) n f = true :=
  fmDone_stable (reach_objsInv hr) (reach_full hr) hen h

/-- only objects that exist are run: the fork is in the node's fork list and a
chunk index is below the number of chunks the split defined -/
theorem launched_object_exists {s : State} {o : Obj} (hen : enabled s (.launch o) = true) :
    s.hasObj o = true ∧ o.r ≠ .fork := by
  refine ⟨(launchOk_phase (en_launch hen)).2.2.2.2, ?_⟩
  intro hr
  have := (launchOk_facts (en_launch hen)).1
  simp [hr, Role.isJob] at this

/-- `exactly_once_at_complete`: for EVERY accepted failure-free history and every
fork `f` of a stage node `n` (at any point of the history, in particular at the end):
* if the fork is complete then every chunk object the split defined was submitted
  exactly once and no other chunk index ever; for a splitting stage the split and
  the join were submitted exactly once each; for a non-splitting stage (split and
  join are mrp's stubs) never;
* if the fork is disabled, no job of it was ever submitted.
(`launchCount s o` = number of entries of object `o` in the submission history.) -/
theorem exactly_once_at_complete {g : List NodeInfo} {evs : List Ev} {s : State}
    (hrep : replay (init g) evs = .ok s) (hff : FailureFree evs) (n f : Nat)
    (hk : s.kind n ≠ .pipeline) :
    (s.st ⟨n, f, .fork⟩ = some .complete →
      (∀ i, i < s.nch n f → launchCount s ⟨n, f, .chunk i⟩ = 1) ∧
      (∀ i, s.nch n f ≤ i → launchCount s ⟨n, f, .chunk i⟩ = 0) ∧
      (s.kind n = .splitstage →
        launchCount s ⟨n, f, .split⟩ = 1 ∧ launchCount s ⟨n, f, .join⟩ = 1) ∧
      (s.kind n = .stage →
        launchCount s ⟨n, f, .split⟩ = 0 ∧ launchCount s ⟨n, f, .join⟩ = 0)) ∧
    (s.st ⟨n, f, .fork⟩ = some .disabled → ∀ r, launchCount s ⟨n, f, r⟩ = 0) :=
  exactly_once_of_inv (reach_objsInv (replay_reach hrep)) (reach_launchInv (replay_reach hrep))
    (ff_replayFrom Reach.init (ffInv_init g) hff hrep) n f hk

/-- … and when the pipestance is finished (every node Complete or Disabled) the two
cases above cover every fork of every node: each is complete or disabled. -/
theorem finished_pipestance_forks {s : State}
    (hdone : ∀ n, n < s.nodes.length → nodeState s n = .complete ∨ nodeState s n = .disabled)
    (n f : Nat) (hn : n < s.nodes.length) (hf : f ∈ s.forksOf n) :
    s.st ⟨n, f, .fork⟩ = some .complete ∨ s.st ⟨n, f, .fork⟩ = some .disabled := by
  have hd : nodeDone s n = true := by
    have h := hdone n hn
    unfold nodeState nodeStateOf at h
    unfold nodeDone
    cases hs : scanForks (forkStates s n) true
    · simp [hs] at h
    · rfl
    · rw [hs] at h
      by_cases hp : (s.pre n).all (nodeDone s) = true <;> simp [hp] at h
  have := nodeDone_iff.mp hd f hf
  simpa [fmDone] using this

/-- the completion chain behind it (failure-free): fork complete ⇒ join complete ⇒
every chunk complete ⇒ (with chunks: a chunk was submitted ⇒) split complete -/
theorem completion_chain {g : List NodeInfo} {evs : List Ev} {s : State}
    (hrep : replay (init g) evs = .ok s) (hff : FailureFree evs) (n f : Nat)
    (hk : s.kind n ≠ .pipeline) (hc : (s.m ⟨n, f, .fork⟩).disk.has .complete = true) :
    (s.m ⟨n, f, .join⟩).disk.has .complete = true ∧
    (∀ i, i < s.nch n f → (s.m ⟨n, f, .chunk i⟩).disk.has .complete = true) ∧
    (s.m ⟨n, f, .split⟩).disk.has .complete = true := by
  have hinv := ff_replayFrom Reach.init (ffInv_init g) hff hrep
  have hobj := reach_objsInv (replay_reach hrep)
  have hj := hinv.c1 n f hk hc
  obtain ⟨a, b⟩ := hinv.c2 n f (Or.inr hj)
  refine ⟨hj, a, ?_⟩
  by_cases hz : s.nch n f = 0
  · exact b hz
  · have h0 := (hobj ⟨n, f, .chunk 0⟩).kk rfl (Or.inr (Or.inl (a 0 (by omega))))
    exact (hobj _).sub _ (hinv.c3 n f 0 h0)

/-! ### non-vacuity -/

/-- a complete failure-free run of one splitting stage with two chunks -/
def hfull : List Ev :=
  [.fork 0 0, .nodestate 0 .running, .refresh, .launch ⟨0, 0, .split⟩,
   .joblog ⟨0, 0, .split⟩, .jobend ⟨0, 0, .split⟩ .complete, .R ⟨0, 0, .split⟩ .complete,
   .mkchunks 0 0 2, .launch ⟨0, 0, .chunk 0⟩, .launch ⟨0, 0, .chunk 1⟩,
   .joblog ⟨0, 0, .chunk 1⟩, .jobend ⟨0, 0, .chunk 1⟩ .complete,
   .joblog ⟨0, 0, .chunk 0⟩, .jobend ⟨0, 0, .chunk 0⟩ .complete,
   .R ⟨0, 0, .chunk 1⟩ .complete, .R ⟨0, 0, .chunk 0⟩ .complete, .launch ⟨0, 0, .join⟩,
   .joblog ⟨0, 0, .join⟩, .jobend ⟨0, 0, .join⟩ .complete, .R ⟨0, 0, .join⟩ .complete,
   .W ⟨0, 0, .fork⟩ .complete, .nodestate 0 .complete]

example : FailureFree hfull := by unfold FailureFree; decide

example : (match replay (init [{ kind := .splitstage, pre := [] }]) hfull with
    | .ok s => s.st ⟨0, 0, .fork⟩ == some .complete && nodeState s 0 == .complete &&
        launchCount s ⟨0, 0, .split⟩ == 1 && launchCount s ⟨0, 0, .chunk 1⟩ == 1 &&
        launchCount s ⟨0, 0, .join⟩ == 1 && launchCount s ⟨0, 0, .chunk 2⟩ == 0
    | .error _ => false) = true := by decide


def g1 : List NodeInfo := [{ kind := .splitstage, pre := [] }]

/-- split submitted, mrp killed while it is queued, restart resets it, it is submitted again -/
def h1 : List Ev :=
  [.fork 0 0, .nodestate 0 .running, .refresh, .launch ⟨0, 0, .split⟩,
   .crash, .restart, .reset ⟨0, 0, .split⟩, .refresh, .launch ⟨0, 0, .split⟩]

example : (match replay (init g1) h1 with
    | .ok s => s.launches == [(⟨0, 0, .split⟩, 1), (⟨0, 0, .split⟩, 0)] &&
               s.resets == [(⟨0, 0, .split⟩, 1)] && !enabled s (.launch ⟨0, 0, .split⟩)
    | .error _ => false) = true := by decide

/-- without the reset the second submission is rejected -/
example : (match replay (init g1)
      [.fork 0 0, .nodestate 0 .running, .refresh, .launch ⟨0, 0, .split⟩,
       .crash, .restart, .refresh, .launch ⟨0, 0, .split⟩] with
    | .ok _ => true
    | .error _ => false) = false := by decide

/-- a disabled fork: accepted history, after which nothing of the fork can be launched -/
example : (match replay (init g1)
      [.fork 0 0, .nodestate 0 .running, .refresh, .W ⟨0, 0, .fork⟩ .disabled] with
    | .ok s => fmDone s 0 0 && !enabled s (.launch ⟨0, 0, .split⟩) && nodeState s 0 == .disabled
    | .error _ => false) = true := by decide

end Props.C03
