/-
C10 — compilation, formatting and call-graph resolution are deterministic.
PROPERTY THEOREMS ONLY (lemmas: Proofs/SortKeys.lean, Proofs/Determinism.lean).

Go maps are association lists with distinct keys in ARBITRARY order; the
theorems say that each modelled emitter gives the same bytes for every order
(`l₁.Perm l₂`, i.e. whatever order the Go runtime iterates in).  The tie to the
source is the regenerated list of every `range` over a map-typed expression in
martian/syntax and martian/core (go/types) compared with the committed reviewed
classification corpus/C10/map_range_sites.json.
-/
import Martian.Determinism
import Martian.DeterminismAccum
import Proofs.Determinism
import Proofs.DeterminismAccum
import Gen.Facts

namespace Props.C10
open Martian.Determinism Martian.SortKeys List

/-- Regenerated obligation: every `range` over a map in martian/syntax and
martian/core is a site whose statement was reviewed (a new site, or a site whose
statement changed since the review, breaks this). -/
theorem all_map_range_sites_reviewed : Gen.c10Unreviewed = [] := by decide

/-- Regenerated obligation: no reviewed site lets the iteration order reach
compiler / formatter / call-graph output. -/
theorem no_order_dependent_output_site : Gen.c10OrderDependent = [] := by decide

/-- The site list is not vacuous (the type-checker found the maps). -/
theorem map_range_sites_found : 100 ≤ Gen.c10MapRangeCount := by decide

/-- The basic fact, proved once: sorting a Go map's entries by key does not
depend on the order they were collected in. -/
theorem sort_entries_order_independent {V : Type} (l₁ l₂ : List (Key × V)) (h : l₁.Perm l₂)
    (hn : nodupKeys l₁ = true) : sortK l₁ = sortK l₂ :=
  sortK_eq_of_perm h ((nodupKeys_iff l₁).mp hn)

theorem sort_keys_order_independent (l₁ l₂ : List Key) (h : l₁.Perm l₂) : sortKeys l₁ = sortKeys l₂ :=
  sortKeys_eq_of_perm h

/-- `MapExp.format` -/
theorem mapFormat_order_independent (isStruct : Bool) (pre vind : Bytes) (l₁ l₂ : List (Key × Rendered))
    (h : l₁.Perm l₂) (hn : nodupKeys l₁ = true) :
    mapFormat isStruct pre vind l₁ = mapFormat isStruct pre vind l₂ := by
  unfold mapFormat
  rw [isEmpty_perm h, maxKeyLen_perm isStruct h, sort_entries_order_independent l₁ l₂ h hn]

/-- `encodeJSON` of `MapExp`, `marshallerMap`, `ResolvedBindingMap`,
`LazyArgumentMap`, `MarshalerMap` -/
theorem jsonObject_order_independent (l₁ l₂ : List (Key × Bytes × Bytes)) (h : l₁.Perm l₂)
    (hn : nodupKeys l₁ = true) : jsonObject l₁ = jsonObject l₂ := by
  unfold jsonObject
  rw [sort_entries_order_independent l₁ l₂ h hn]

/-- `makeForkIdParts` / `expandForkFromObj`: fork identifiers of a map call -/
theorem forkKeyParts_order_independent (k₁ k₂ : List Key) (h : k₁.Perm k₂) :
    forkKeyParts k₁ = forkKeyParts k₂ := sort_keys_order_independent k₁ k₂ h

/-- `unifyMapSources` (sortedSplitList), `findMergeForkNode`: collect, sort, fold -/
theorem foldSorted_order_independent {V β : Type} (f : β → Key × V → β) (init : β)
    (l₁ l₂ : List (Key × V)) (h : l₁.Perm l₂) (hn : nodupKeys l₁ = true) :
    foldSorted f init l₁ = foldSorted f init l₂ := by
  unfold foldSorted
  rw [sort_entries_order_independent l₁ l₂ h hn]

/-- "iterate the sorted keys, collect one error per failing entry" (the shape of
`TypedMapType.IsValidExpression`, `StructType.IsValidExpression`, `isValidSplit`
since the F15 fixes): the reported error list does not depend on the map order. -/
theorem collectErrors_order_independent {V E : Type} (check : Key → V → Option E)
    (l₁ l₂ : List (Key × V)) (h : l₁.Perm l₂) (hn : nodupKeys l₁ = true) :
    collectErrors check l₁ = collectErrors check l₂ := by
  unfold collectErrors
  rw [sort_entries_order_independent l₁ l₂ h hn]

/-- "collect the offending keys, sort, report the first" (`MergeMapCallSources`):
the key named in `map key missing "k"` depends on neither map's order. -/
theorem firstMissing_order_independent (ka ka' kb kb' : List Key) (ha : ka.Perm ka') (hb : kb.Perm kb') :
    firstMissing ka kb = firstMissing ka' kb' := by
  unfold firstMissing
  have hf : (fun k => !kb.contains k) = (fun k => !kb'.contains k) := by
    funext k; rw [contains_perm hb k]
  rw [hf, sort_keys_order_independent _ _ (ha.filter _)]

/-- Nested maps (a `MapExp` inside a `MapExp`, map-valued entries of
`marshallerMap` / `ResolvedBindingMap` …): if every level is emitted in sorted
key order, the bytes do not depend on the order in which ANY object at ANY depth
was handed over. -/
theorem nested_emit_order_independent (a b : JTree) (h : JTree.Reorder a b) (hw : a.wf = true) :
    a.emit = b.emit := (reorder_aux h hw).2.2.1

/-! ## Loops that accumulate one contribution per entry (extension round)

Model: `Martian/DeterminismAccum.lean`.  Three general theorems about loops that
walk the Go map ITSELF (no sort), then the loop shape of the eight sites repaired
in this round (now over sorted keys), then one short theorem per site. -/

/-- GENERAL (map insert per entry): `res[k] = g(k, v)` for every entry of a Go map,
walked in any order, builds the same map - the same lookup result for every key and
the same sorted presentation.  (No sort in the loop.) -/
theorem mapInsert_order_independent {V W : Type} (g : Key → V → W) (l₁ l₂ : List (Key × V))
    (h : l₁.Perm l₂) (hn : nodupKeys l₁ = true) :
    (∀ k, lookupL k (buildMap g l₁) = lookupL k (buildMap g l₂)) ∧
      sortK (buildMap g l₁) = sortK (buildMap g l₂) := by
  have hn' := (nodupKeys_iff l₁).mp hn
  have hp := buildMap_perm g h hn'
  have hk := buildMap_keys_nodup g l₁ hn'
  exact ⟨fun k => lookupL_perm hp hk k, sortK_eq_of_perm hp hk⟩

/-- GENERAL (commutative fold): a fold whose step commutes (`&&`, `||`, `max`, counting,
inserting into a set) gives the same result for every iteration order. -/
theorem commFold_order_independent {α β : Type} (f : β → α → β)
    (hc : ∀ b x y, f (f b x) y = f (f b y) x) (l₁ l₂ : List α) (h : l₁.Perm l₂) (b : β) :
    l₁.foldl f b = l₂.foldl f b := foldl_perm_of_comm f hc h b

/-- GENERAL (all / any): "every entry satisfies p" and "some entry satisfies p"
(`done = done && d`, `change = change || c`, the boolean `equal` loops). -/
theorem allAny_order_independent {α : Type} (p : α → Bool) (l₁ l₂ : List α) (h : l₁.Perm l₂) :
    l₁.all p = l₂.all p ∧ l₁.any p = l₂.any p := ⟨all_perm p h, any_perm p h⟩

/-- GENERAL (append per entry, consumer builds a set or sorts): a loop that appends
`f(entry)` to a slice in map order yields the same elements with the same
multiplicities whatever the order, hence the same set (`getBoundParamIds`, whose only
consumers insert every id into a set) and the same sorted list (append-then-sort). -/
theorem appendPerEntry_order_independent {α : Type} (f : α → List Key) (l₁ l₂ : List α)
    (h : l₁.Perm l₂) :
    (l₁.flatMap f).Perm (l₂.flatMap f) ∧ (∀ x, x ∈ l₁.flatMap f ↔ x ∈ l₂.flatMap f) ∧
      sortKeys (l₁.flatMap f) = sortKeys (l₂.flatMap f) :=
  ⟨h.flatMap_right f, fun _ => (h.flatMap_right f).mem_iff, sort_keys_order_independent _ _ (h.flatMap_right f)⟩

/-- The accumulating loop over the map ITSELF (the code before this round's fixes):
the two flags and the result map do not depend on the iteration order, and the error
list is the same up to order ... -/
theorem accumulateIn_order_independent_up_to_error_order (l₁ l₂ : List (Key × EntryRes))
    (h : l₁.Perm l₂) (hn : nodupKeys l₁ = true) :
    (accumulateIn l₁).done = (accumulateIn l₂).done ∧
    (accumulateIn l₁).changed = (accumulateIn l₂).changed ∧
    (∀ k, lookupL k (accumulateIn l₁).vals = lookupL k (accumulateIn l₂).vals) ∧
    sortK (accumulateIn l₁).vals = sortK (accumulateIn l₂).vals ∧
    (accumulateIn l₁).errs.Perm (accumulateIn l₂).errs := by
  simp only [accumulateIn_done, accumulateIn_changed, accumulateIn_vals, accumulateIn_errs]
  have hm := mapInsert_order_independent (fun _ (e : EntryRes) => e.val) l₁ l₂ h hn
  exact ⟨all_perm _ h, any_perm _ h, hm.1, hm.2, h.filterMap _⟩

/-- ... but the ORDER of the error list (= the reported text) does depend on it:
negative witness, two entries that both fail.  The harness replays this on the real
functions (provocations `invertSplit`, `wrapDisabled`, … : with a fix reverted the
text differs between repetitions). -/
theorem accumulateIn_error_order_dependent :
    ∃ l₁ l₂ : List (Key × EntryRes), l₁.Perm l₂ ∧ nodupKeys l₁ = true ∧
      errorListText (accumulateIn l₁).errs ≠ errorListText (accumulateIn l₂).errs :=
  ⟨[([97], ⟨true, false, some [49], []⟩), ([98], ⟨true, false, some [50], []⟩)],
   [([98], ⟨true, false, some [50], []⟩), ([97], ⟨true, false, some [49], []⟩)],
   by decide, by decide, by decide⟩

/-- The loop as the code is now (over the sorted keys): flags, result map, error list
and hence the error text are the same for EVERY order in which the runtime hands the
map over. -/
theorem accumulate_order_independent (l₁ l₂ : List (Key × EntryRes)) (h : l₁.Perm l₂)
    (hn : nodupKeys l₁ = true) : accumulate l₁ = accumulate l₂ :=
  foldSorted_order_independent Accum.step Accum.init l₁ l₂ h hn

/-- what the sorted loop reports is "one error per failing entry, in key order" -/
theorem accumulate_errs_eq_collectErrors (l : List (Key × EntryRes)) :
    (accumulate l).errs = collectErrors (fun _ e => e.err) l := by
  rw [accumulate_eq, accumulateIn_errs]; rfl

/-- the sort changed nothing but the order of the errors: flags and result map of the
sorted loop are those of the loop over the map in any order -/
theorem accumulate_agrees_with_unsorted (l : List (Key × EntryRes)) (hn : nodupKeys l = true) :
    (accumulate l).done = (accumulateIn l).done ∧ (accumulate l).changed = (accumulateIn l).changed ∧
    (∀ k, lookupL k (accumulate l).vals = lookupL k (accumulateIn l).vals) := by
  have hp : (sortK l).Perm l := sortK_perm l
  have hn' : nodupKeys (sortK l) = true :=
    (nodupKeys_iff _).mpr ((hp.map Prod.fst).nodup_iff.mpr ((nodupKeys_iff l).mp hn))
  have := accumulateIn_order_independent_up_to_error_order (sortK l) l hp hn'
  exact ⟨this.1, this.2.1, this.2.2.1⟩

/-- `invertSplit` (split_expression.go, MapExp branch; fix 3cfd1e8) -/
theorem invertSplit_order_independent (l₁ l₂ : List (Key × EntryRes)) (h : l₁.Perm l₂)
    (hn : nodupKeys l₁ = true) :
    accumulate l₁ = accumulate l₂ ∧
      errorListText (accumulate l₁).errs = errorListText (accumulate l₂).errs := by
  rw [accumulate_order_independent l₁ l₂ h hn]; exact ⟨rfl, rfl⟩

/-- `wrapDisabled` (resolve_stage.go, MapExp branch; fix 3614e32) -/
theorem wrapDisabled_order_independent (l₁ l₂ : List (Key × EntryRes)) (h : l₁.Perm l₂)
    (hn : nodupKeys l₁ = true) : accumulate l₁ = accumulate l₂ :=
  accumulate_order_independent l₁ l₂ h hn

/-- `MergeExp.BindingPath`, static merge over a map (merge_exp.go; fix 4931c7d) -/
theorem mergeBindingPath_order_independent (l₁ l₂ : List (Key × EntryRes)) (h : l₁.Perm l₂)
    (hn : nodupKeys l₁ = true) : accumulate l₁ = accumulate l₂ :=
  accumulate_order_independent l₁ l₂ h hn

/-- `CallGraphStage.unsplit` / `CallGraphPipeline.unsplit`, the loop over the inputs
(resolve_stage.go, resolve_pipeline.go; fixes 7ae87c8, 922daa0) -/
theorem unsplit_order_independent (l₁ l₂ : List (Key × EntryRes)) (h : l₁.Perm l₂)
    (hn : nodupKeys l₁ = true) : accumulate l₁ = accumulate l₂ :=
  accumulate_order_independent l₁ l₂ h hn

/-- `Node.resolveInputs` and `TopNode.resolveMap` (core/resolve.go; fixes 7218313,
d4fb478): `allReady` is `done`, the MarshalerMap is `vals` -/
theorem resolveInputs_order_independent (l₁ l₂ : List (Key × EntryRes)) (h : l₁.Perm l₂)
    (hn : nodupKeys l₁ = true) : accumulate l₁ = accumulate l₂ :=
  accumulate_order_independent l₁ l₂ h hn

/-- `convertToExp` on a LazyArgumentMap / MarshalerMap (core/runtime.go; fix 218731a):
the entry named in the returned error, and the partial result, are those of the
smallest failing key whatever the iteration order. -/
theorem convertToExp_order_independent {W E : Type} (conv : Key → W → Except E Bytes)
    (l₁ l₂ : List (Key × W)) (h : l₁.Perm l₂) (hn : nodupKeys l₁ = true) :
    firstFailure conv l₁ = firstFailure conv l₂ := by
  unfold firstFailure
  rw [sort_entries_order_independent l₁ l₂ h hn]

/-! Non-vacuity of the extension round. -/
private def er (k : Nat) (bad : Bool) : Key × EntryRes :=
  ([107, k], { done := !bad, changed := bad, err := if bad then some [101, k] else none, val := [118, k] })
example : nodupKeys [er 51 true, er 49 false, er 50 true] = true := by decide
example : [er 51 true, er 49 false, er 50 true].Perm [er 49 false, er 50 true, er 51 true] := by decide
example : accumulate [er 51 true, er 49 false, er 50 true] = accumulate [er 49 false, er 50 true, er 51 true] :=
  accumulate_order_independent _ _ (by decide) (by decide)
/-- the loop over an already sorted map: two errors, in key order, rendered as `ErrorList.Error()` does -/
example : (accumulateIn [er 49 false, er 50 true, er 51 true]).errs = [[101, 50], [101, 51]] := by decide
example : errorListText (accumulateIn [er 49 false, er 50 true, er 51 true]).errs = [10, 9, 101, 50, 10, 9, 101, 51] := by decide
example : (accumulateIn [er 49 false, er 50 true, er 51 true]).done = false
    ∧ (accumulateIn [er 49 false, er 50 true, er 51 true]).vals = [([107, 49], [118, 49]), ([107, 50], [118, 50]), ([107, 51], [118, 51])] := by decide
example : (accumulateIn [er 51 true, er 49 false, er 50 true]).errs ≠ (accumulateIn [er 49 false, er 50 true, er 51 true]).errs := by decide
example : buildMap (fun k (v : Nat) => k.length + v) [([1], 5), ([2, 3], 7)] = [([1], 6), ([2, 3], 9)] := by decide
example : ([([1], [[5], [6]]), ([2], [[7]])] : List (Key × List Key)).flatMap (·.2) ≠ [([2], [[7]]), ([1], [[5], [6]])].flatMap (·.2) := by decide
/-- a step that does not commute is excluded by the hypothesis of `commFold_order_independent` -/
example : ¬ ∀ (b : List Nat) x y, (b ++ [x]) ++ [y] = (b ++ [y]) ++ [x] := fun h => by
  have := h [] 1 2; simp at this
example : ∀ (b : Nat) x y, max (max b x) y = max (max b y) x := fun b x y => by omega
private def cv (k : Key) (w : Nat) : Except Key Bytes := if w % 2 = 0 then .ok [w] else .error k
example : firstFailureIn cv [([97], 2), ([98], 3), ([99], 1)] = ([([97], [2])], some [98]) := by decide
example : firstFailure cv [([99], 1), ([97], 2), ([98], 3)] = firstFailure cv [([98], 3), ([99], 1), ([97], 2)] :=
  convertToExp_order_independent cv _ _ (by decide) (by decide)
/-- returning at the first failure in the order GIVEN would depend on the order -/
example : firstFailureIn cv [([99], 1), ([97], 2), ([98], 3)] ≠ firstFailureIn cv [([98], 3), ([99], 1), ([97], 2)] := by decide

/-! Non-vacuity: a three-entry map, two orders, one output. -/
private def e (k : Nat) (s : Bool) : Key × Rendered := ([k, 49], { keyText := [k, 49], single := s, text := [48 + k % 10] })
example : nodupKeys [e 99 true, e 97 false, e 98 true] = true := by decide
example : [e 99 true, e 97 false, e 98 true].Perm [e 97 false, e 98 true, e 99 true] := by decide
example : mapFormat true [] [32] [e 99 true, e 97 false, e 98 true]
    = mapFormat true [] [32] [e 97 false, e 98 true, e 99 true] :=
  mapFormat_order_independent true [] [32] _ _ (by decide) (by decide)
/-- Without the sort the output would depend on the order (the theorem is not trivial). -/
example : ([e 99 true, e 97 false].map (·.1)) ≠ ([e 97 false, e 99 true].map (·.1)) := by decide

private def inner (x y : Nat) : JTree :=
  .ocons [x] [34, x, 34] (.leaf [x]) (.ocons [y] [34, y, 34] (.leaf [y]) .onil)
example : (JTree.ocons [97] [34, 97, 34] (inner 120 121) (.ocons [98] [34, 98, 34] (.leaf [51]) .onil)).wf = true := by decide
/-- the inner object's entries swapped and the outer entries swapped: still a reordering -/
example : JTree.Reorder
    (.ocons [97] [34, 97, 34] (inner 120 121) (.ocons [98] [34, 98, 34] (.leaf [51]) .onil))
    (.ocons [98] [34, 98, 34] (.leaf [51]) (.ocons [97] [34, 97, 34] (inner 121 120) .onil)) :=
  .trans (.congr _ _ (.swap ..) (.refl _)) (.swap ..)
example : ([[99], [97], [98]] : List Key).Perm [[97], [98], [99]] := by decide

end Props.C10
