/-
C10 — compilation, formatting and call-graph resolution are deterministic.
PROPERTY THEOREMS ONLY (lemmas: Proofs/SortKeys.lean, Proofs/Determinism.lean).

Go maps are association lists with distinct keys in ARBITRARY order; the
theorems say that each modelled emitter gives the same bytes for every order
(`l₁.Perm l₂`, i.e. whatever order the Go runtime iterates in).  The tie to the
source is the regenerated list of every `range` over a map-typed expression in
martian/syntax and martian/core (go/types) compared with the committed reviewed
classification corpus/C10/map_range_sites.json.
-/
import Martian.Determinism
import Proofs.Determinism
import Gen.Facts

namespace Props.C10
open Martian.Determinism Martian.SortKeys List

/-- Regenerated obligation: every `range` over a map in martian/syntax and
martian/core is a site whose statement was reviewed (a new site, or a site whose
statement changed since the review, breaks this). -/
theorem all_map_range_sites_reviewed : Gen.c10Unreviewed = [] := by decide

/-- Regenerated obligation: no reviewed site lets the iteration order reach
compiler / formatter / call-graph output. -/
theorem no_order_dependent_output_site : Gen.c10OrderDependent = [] := by decide

/-- The site list is not vacuous (the type-checker found the maps). -/
theorem map_range_sites_found : 100 ≤ Gen.c10MapRangeCount := by decide

/-- The basic fact, proved once: sorting a Go map's entries by key does not
depend on the order they were collected in. -/
theorem sort_entries_order_independent {V : Type} (l₁ l₂ : List (Key × V)) (h : l₁.Perm l₂)
    (hn : nodupKeys l₁ = true) : sortK l₁ = sortK l₂ :=
  sortK_eq_of_perm h ((nodupKeys_iff l₁).mp hn)

theorem sort_keys_order_independent (l₁ l₂ : List Key) (h : l₁.Perm l₂) : sortKeys l₁ = sortKeys l₂ :=
  sortKeys_eq_of_perm h

/-- `MapExp.format` -/
theorem mapFormat_order_independent (isStruct : Bool) (pre vind : Bytes) (l₁ l₂ : List (Key × Rendered))
    (h : l₁.Perm l₂) (hn : nodupKeys l₁ = true) :
    mapFormat isStruct pre vind l₁ = mapFormat isStruct pre vind l₂ := by
  unfold mapFormat
  rw [isEmpty_perm h, maxKeyLen_perm isStruct h, sort_entries_order_independent l₁ l₂ h hn]

/-- `encodeJSON` of `MapExp`, `marshallerMap`, `ResolvedBindingMap`,
`LazyArgumentMap`, `MarshalerMap` -/
theorem jsonObject_order_independent (l₁ l₂ : List (Key × Bytes × Bytes)) (h : l₁.Perm l₂)
    (hn : nodupKeys l₁ = true) : jsonObject l₁ = jsonObject l₂ := by
  unfold jsonObject
  rw [sort_entries_order_independent l₁ l₂ h hn]

/-- `makeForkIdParts` / `expandForkFromObj`: fork identifiers of a map call -/
theorem forkKeyParts_order_independent (k₁ k₂ : List Key) (h : k₁.Perm k₂) :
    forkKeyParts k₁ = forkKeyParts k₂ := sort_keys_order_independent k₁ k₂ h

/-- `unifyMapSources` (sortedSplitList), `findMergeForkNode`: collect, sort, fold -/
theorem foldSorted_order_independent {V β : Type} (f : β → Key × V → β) (init : β)
    (l₁ l₂ : List (Key × V)) (h : l₁.Perm l₂) (hn : nodupKeys l₁ = true) :
    foldSorted f init l₁ = foldSorted f init l₂ := by
  unfold foldSorted
  rw [sort_entries_order_independent l₁ l₂ h hn]

/-- "iterate the sorted keys, collect one error per failing entry" (the shape of
`TypedMapType.IsValidExpression`, `StructType.IsValidExpression`, `isValidSplit`
since the F15 fixes): the reported error list does not depend on the map order. -/
theorem collectErrors_order_independent {V E : Type} (check : Key → V → Option E)
    (l₁ l₂ : List (Key × V)) (h : l₁.Perm l₂) (hn : nodupKeys l₁ = true) :
    collectErrors check l₁ = collectErrors check l₂ := by
  unfold collectErrors
  rw [sort_entries_order_independent l₁ l₂ h hn]

/-- "collect the offending keys, sort, report the first" (`MergeMapCallSources`):
the key named in `map key missing "k"` depends on neither map's order. -/
theorem firstMissing_order_independent (ka ka' kb kb' : List Key) (ha : ka.Perm ka') (hb : kb.Perm kb') :
    firstMissing ka kb = firstMissing ka' kb' := by
  unfold firstMissing
  have hf : (fun k => !kb.contains k) = (fun k => !kb'.contains k) := by
    funext k; rw [contains_perm hb k]
  rw [hf, sort_keys_order_independent _ _ (ha.filter _)]

/-- Nested maps (a `MapExp` inside a `MapExp`, map-valued entries of
`marshallerMap` / `ResolvedBindingMap` …): if every level is emitted in sorted
key order, the bytes do not depend on the order in which ANY object at ANY depth
was handed over. -/
theorem nested_emit_order_independent (a b : JTree) (h : JTree.Reorder a b) (hw : a.wf = true) :
    a.emit = b.emit := (reorder_aux h hw).2.2.1

/-! Non-vacuity: a three-entry map, two orders, one output. -/
private def e (k : Nat) (s : Bool) : Key × Rendered := ([k, 49], { keyText := [k, 49], single := s, text := [48 + k % 10] })
example : nodupKeys [e 99 true, e 97 false, e 98 true] = true := by decide
example : [e 99 true, e 97 false, e 98 true].Perm [e 97 false, e 98 true, e 99 true] := by decide
example : mapFormat true [] [32] [e 99 true, e 97 false, e 98 true]
    = mapFormat true [] [32] [e 97 false, e 98 true, e 99 true] :=
  mapFormat_order_independent true [] [32] _ _ (by decide) (by decide)
/-- Without the sort the output would depend on the order (the theorem is not trivial). -/
example : ([e 99 true, e 97 false].map (·.1)) ≠ ([e 97 false, e 99 true].map (·.1)) := by decide

private def inner (x y : Nat) : JTree :=
  .ocons [x] [34, x, 34] (.leaf [x]) (.ocons [y] [34, y, 34] (.leaf [y]) .onil)
example : (JTree.ocons [97] [34, 97, 34] (inner 120 121) (.ocons [98] [34, 98, 34] (.leaf [51]) .onil)).wf = true := by decide
/-- the inner object's entries swapped and the outer entries swapped: still a reordering -/
example : JTree.Reorder
    (.ocons [97] [34, 97, 34] (inner 120 121) (.ocons [98] [34, 98, 34] (.leaf [51]) .onil))
    (.ocons [98] [34, 98, 34] (.leaf [51]) (.ocons [97] [34, 97, 34] (inner 121 120) .onil)) :=
  .trans (.congr _ _ (.swap ..) (.refl _)) (.swap ..)
example : ([[99], [97], [98]] : List Key).Perm [[97], [98], [99]] := by decide

end Props.C10
