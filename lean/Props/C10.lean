/-
C10 — compilation, formatting and call-graph resolution are deterministic.
PROPERTY THEOREMS ONLY (lemmas: Proofs/SortKeys.lean, Proofs/Determinism.lean).

Go maps are association lists with distinct keys in ARBITRARY order; the
theorems say that each modelled emitter gives the same bytes for every order
(`l₁.Perm l₂`, i.e. whatever order the Go runtime iterates in).  The tie to the
source is the regenerated list of every `range` over a map-typed expression in
martian/syntax and martian/core (go/types) compared with the committed reviewed
classification corpus/C10/map_range_sites.json.
-/
import Martian.ForkOrder
import Proofs.ForkOrder
import Proofs.ForkOrderBij
import Proofs.ForkOrderOn
import Martian.Determinism
import Martian.DeterminismAccum
import Proofs.Determinism
import Proofs.DeterminismAccum
import Martian.DeterminismAccum2
import Proofs.DeterminismAccum2
import Gen.Facts

namespace Props.C10
open Martian.Determinism Martian.SortKeys List

/-- Regenerated obligation: every `range` over a map in martian/syntax and
martian/core is a site whose statement was reviewed (a new site, or a site whose
statement changed since the review, breaks this). -/
theorem all_map_range_sites_reviewed :
    Gen.c10Unreviewed_extracted = true ∧ Gen.c10Unreviewed = [] := by decide

/-- Regenerated obligation: no reviewed site lets the iteration order reach
compiler / formatter / call-graph output. -/
theorem no_order_dependent_output_site :
    Gen.c10OrderDependent_extracted = true ∧ Gen.c10OrderDependent = [] := by decide

/-- The site list is not vacuous (the type-checker found the maps). -/
theorem map_range_sites_found : 100 ≤ Gen.c10MapRangeCount := by decide

/-- The basic fact, proved once: sorting a Go map's entries by key does not
depend on the order they were collected in. -/
theorem sort_entries_order_independent {V : Type} (l₁ l₂ : List (Key × V)) (h : l₁.Perm l₂)
    (hn : nodupKeys l₁ = true) : sortK l₁ = sortK l₂ :=
  sortK_eq_of_perm h ((nodupKeys_iff l₁).mp hn)

theorem sort_keys_order_independent (l₁ l₂ : List Key) (h : l₁.Perm l₂) : sortKeys l₁ = sortKeys l₂ :=
  sortKeys_eq_of_perm h

/-- `MapExp.format` -/
theorem mapFormat_order_independent (isStruct : Bool) (pre vind : Bytes) (l₁ l₂ : List (Key × Rendered))
    (h : l₁.Perm l₂) (hn : nodupKeys l₁ = true) :
    mapFormat isStruct pre vind l₁ = mapFormat isStruct pre vind l₂ := by
  unfold mapFormat
  rw [isEmpty_perm h, maxKeyLen_perm isStruct h, sort_entries_order_independent l₁ l₂ h hn]

/-- `encodeJSON` of `MapExp`, `marshallerMap`, `ResolvedBindingMap`,
`LazyArgumentMap`, `MarshalerMap` -/
theorem jsonObject_order_independent (l₁ l₂ : List (Key × Bytes × Bytes)) (h : l₁.Perm l₂)
    (hn : nodupKeys l₁ = true) : jsonObject l₁ = jsonObject l₂ := by
  unfold jsonObject
  rw [sort_entries_order_independent l₁ l₂ h hn]

/-- `makeForkIdParts` / `expandForkFromObj`: fork identifiers of a map call -/
theorem forkKeyParts_order_independent (k₁ k₂ : List Key) (h : k₁.Perm k₂) :
    forkKeyParts k₁ = forkKeyParts k₂ := sort_keys_order_independent k₁ k₂ h

/-- `unifyMapSources` (sortedSplitList), `findMergeForkNode`: collect, sort, fold -/
theorem foldSorted_order_independent {V β : Type} (f : β → Key × V → β) (init : β)
    (l₁ l₂ : List (Key × V)) (h : l₁.Perm l₂) (hn : nodupKeys l₁ = true) :
    foldSorted f init l₁ = foldSorted f init l₂ := by
  unfold foldSorted
  rw [sort_entries_order_independent l₁ l₂ h hn]

/-- "iterate the sorted keys, collect one error per failing entry" (the shape of
`TypedMapType.IsValidExpression`, `StructType.IsValidExpression`, `isValidSplit`
since the F15 fixes): the reported error list does not depend on the map order. -/
theorem collectErrors_order_independent {V E : Type} (check : Key → V → Option E)
    (l₁ l₂ : List (Key × V)) (h : l₁.Perm l₂) (hn : nodupKeys l₁ = true) :
    collectErrors check l₁ = collectErrors check l₂ := by
  unfold collectErrors
  rw [sort_entries_order_independent l₁ l₂ h hn]

/-- "collect the offending keys, sort, report the first" (`MergeMapCallSources`):
the key named in `map key missing "k"` depends on neither map's order. -/
theorem firstMissing_order_independent (ka ka' kb kb' : List Key) (ha : ka.Perm ka') (hb : kb.Perm kb') :
    firstMissing ka kb = firstMissing ka' kb' := by
  unfold firstMissing
  have hf : (fun k => !kb.contains k) = (fun k => !kb'.contains k) := by
    funext k; rw [contains_perm hb k]
  rw [hf, sort_keys_order_independent _ _ (ha.filter _)]

/-- Nested maps (a `MapExp` inside a `MapExp`, map-valued entries of
`marshallerMap` / `ResolvedBindingMap` …): if every level is emitted in sorted
key order, the bytes do not depend on the order in which ANY object at ANY depth
was handed over. -/
theorem nested_emit_order_independent (a b : JTree) (h : JTree.Reorder a b) (hw : a.wf = true) :
    a.emit = b.emit := (reorder_aux h hw).2.2.1

/-! ## Loops that accumulate one contribution per entry (extension round)

Model: `Martian/DeterminismAccum.lean`.  Three general theorems about loops that
walk the Go map ITSELF (no sort), then the loop shape of the eight sites repaired
in this round (now over sorted keys), then one short theorem per site. -/

/-- GENERAL (map insert per entry): `res[k] = g(k, v)` for every entry of a Go map,
walked in any order, builds the same map - the same lookup result for every key and
the same sorted presentation.  (No sort in the loop.) -/
theorem mapInsert_order_independent {V W : Type} (g : Key → V → W) (l₁ l₂ : List (Key × V))
    (h : l₁.Perm l₂) (hn : nodupKeys l₁ = true) :
    (∀ k, lookupL k (buildMap g l₁) = lookupL k (buildMap g l₂)) ∧
      sortK (buildMap g l₁) = sortK (buildMap g l₂) := by
  have hn' := (nodupKeys_iff l₁).mp hn
  have hp := buildMap_perm g h hn'
  have hk := buildMap_keys_nodup g l₁ hn'
  exact ⟨fun k => lookupL_perm hp hk k, sortK_eq_of_perm hp hk⟩

/-- GENERAL (commutative fold): a fold whose step commutes (`&&`, `||`, `max`, counting,
inserting into a set) gives the same result for every iteration order. -/
theorem commFold_order_independent {α β : Type} (f : β → α → β)
    (hc : ∀ b x y, f (f b x) y = f (f b y) x) (l₁ l₂ : List α) (h : l₁.Perm l₂) (b : β) :
    l₁.foldl f b = l₂.foldl f b := foldl_perm_of_comm f hc h b

/-- GENERAL (all / any): "every entry satisfies p" and "some entry satisfies p"
(`done = done && d`, `change = change || c`, the boolean `equal` loops). -/
theorem allAny_order_independent {α : Type} (p : α → Bool) (l₁ l₂ : List α) (h : l₁.Perm l₂) :
    l₁.all p = l₂.all p ∧ l₁.any p = l₂.any p := ⟨all_perm p h, any_perm p h⟩

/-- GENERAL (append per entry, consumer builds a set or sorts): a loop that appends
`f(entry)` to a slice in map order yields the same elements with the same
multiplicities whatever the order, hence the same set (`getBoundParamIds`, whose only
consumers insert every id into a set) and the same sorted list (append-then-sort). -/
theorem appendPerEntry_order_independent {α : Type} (f : α → List Key) (l₁ l₂ : List α)
    (h : l₁.Perm l₂) :
    (l₁.flatMap f).Perm (l₂.flatMap f) ∧ (∀ x, x ∈ l₁.flatMap f ↔ x ∈ l₂.flatMap f) ∧
      sortKeys (l₁.flatMap f) = sortKeys (l₂.flatMap f) :=
  ⟨h.flatMap_right f, fun _ => (h.flatMap_right f).mem_iff, sort_keys_order_independent _ _ (h.flatMap_right f)⟩

/-- The accumulating loop over the map ITSELF (the code before this round's fixes):
the two flags and the result map do not depend on the iteration order, and the error
list is the same up to order ... -/
theorem accumulateIn_order_independent_up_to_error_order (l₁ l₂ : List (Key × EntryRes))
    (h : l₁.Perm l₂) (hn : nodupKeys l₁ = true) :
    (accumulateIn l₁).done = (accumulateIn l₂).done ∧
    (accumulateIn l₁).changed = (accumulateIn l₂).changed ∧
    (∀ k, lookupL k (accumulateIn l₁).vals = lookupL k (accumulateIn l₂).vals) ∧
    sortK (accumulateIn l₁).vals = sortK (accumulateIn l₂).vals ∧
    (accumulateIn l₁).errs.Perm (accumulateIn l₂).errs := by
  simp only [accumulateIn_done, accumulateIn_changed, accumulateIn_vals, accumulateIn_errs]
  have hm := mapInsert_order_independent (fun _ (e : EntryRes) => e.val) l₁ l₂ h hn
  exact ⟨all_perm _ h, any_perm _ h, hm.1, hm.2, h.filterMap _⟩

/-- ... but the ORDER of the error list (= the reported text) does depend on it:
negative witness, two entries that both fail.  The harness replays this on the real
functions (provocations `invertSplit`, `wrapDisabled`, … : with a fix reverted the
text differs between repetitions). -/
theorem accumulateIn_error_order_dependent :
    ∃ l₁ l₂ : List (Key × EntryRes), l₁.Perm l₂ ∧ nodupKeys l₁ = true ∧
      errorListText (accumulateIn l₁).errs ≠ errorListText (accumulateIn l₂).errs :=
  ⟨[([97], ⟨true, false, some [49], []⟩), ([98], ⟨true, false, some [50], []⟩)],
   [([98], ⟨true, false, some [50], []⟩), ([97], ⟨true, false, some [49], []⟩)],
   by decide, by decide, by decide⟩

/-- The loop as the code is now (over the sorted keys): flags, result map, error list
and hence the error text are the same for EVERY order in which the runtime hands the
map over. -/
theorem accumulate_order_independent (l₁ l₂ : List (Key × EntryRes)) (h : l₁.Perm l₂)
    (hn : nodupKeys l₁ = true) : accumulate l₁ = accumulate l₂ :=
  foldSorted_order_independent Accum.step Accum.init l₁ l₂ h hn

/-- what the sorted loop reports is "one error per failing entry, in key order" -/
theorem accumulate_errs_eq_collectErrors (l : List (Key × EntryRes)) :
    (accumulate l).errs = collectErrors (fun _ e => e.err) l := by
  rw [accumulate_eq, accumulateIn_errs]; rfl

/-- the sort changed nothing but the order of the errors: flags and result map of the
sorted loop are those of the loop over the map in any order -/
theorem accumulate_agrees_with_unsorted (l : List (Key × EntryRes)) (hn : nodupKeys l = true) :
    (accumulate l).done = (accumulateIn l).done ∧ (accumulate l).changed = (accumulateIn l).changed ∧
    (∀ k, lookupL k (accumulate l).vals = lookupL k (accumulateIn l).vals) := by
  have hp : (sortK l).Perm l := sortK_perm l
  have hn' : nodupKeys (sortK l) = true :=
    (nodupKeys_iff _).mpr ((hp.map Prod.fst).nodup_iff.mpr ((nodupKeys_iff l).mp hn))
  have := accumulateIn_order_independent_up_to_error_order (sortK l) l hp hn'
  exact ⟨this.1, this.2.1, this.2.2.1⟩


/-- `convertToExp` on a LazyArgumentMap / MarshalerMap (core/runtime.go; fix 218731a):
the entry named in the returned error, and the partial result, are those of the
smallest failing key whatever the iteration order. -/
theorem convertToExp_order_independent {W E : Type} (conv : Key → W → Except E Bytes)
    (l₁ l₂ : List (Key × W)) (h : l₁.Perm l₂) (hn : nodupKeys l₁ = true) :
    firstFailure conv l₁ = firstFailure conv l₂ := by
  unfold firstFailure
  rw [sort_entries_order_independent l₁ l₂ h hn]

/-! Non-vacuity of the extension round. -/
private def er (k : Nat) (bad : Bool) : Key × EntryRes :=
  ([107, k], { done := !bad, changed := bad, err := if bad then some [101, k] else none, val := [118, k] })
example : nodupKeys [er 51 true, er 49 false, er 50 true] = true := by decide
example : [er 51 true, er 49 false, er 50 true].Perm [er 49 false, er 50 true, er 51 true] := by decide
example : accumulate [er 51 true, er 49 false, er 50 true] = accumulate [er 49 false, er 50 true, er 51 true] :=
  accumulate_order_independent _ _ (by decide) (by decide)
/-- the loop over an already sorted map: two errors, in key order, rendered as `ErrorList.Error()` does -/
example : (accumulateIn [er 49 false, er 50 true, er 51 true]).errs = [[101, 50], [101, 51]] := by decide
example : errorListText (accumulateIn [er 49 false, er 50 true, er 51 true]).errs = [10, 9, 101, 50, 10, 9, 101, 51] := by decide
example : (accumulateIn [er 49 false, er 50 true, er 51 true]).done = false
    ∧ (accumulateIn [er 49 false, er 50 true, er 51 true]).vals = [([107, 49], [118, 49]), ([107, 50], [118, 50]), ([107, 51], [118, 51])] := by decide
example : (accumulateIn [er 51 true, er 49 false, er 50 true]).errs ≠ (accumulateIn [er 49 false, er 50 true, er 51 true]).errs := by decide
example : buildMap (fun k (v : Nat) => k.length + v) [([1], 5), ([2, 3], 7)] = [([1], 6), ([2, 3], 9)] := by decide
example : ([([1], [[5], [6]]), ([2], [[7]])] : List (Key × List Key)).flatMap (·.2) ≠ [([2], [[7]]), ([1], [[5], [6]])].flatMap (·.2) := by decide
/-- a step that does not commute is excluded by the hypothesis of `commFold_order_independent` -/
example : ¬ ∀ (b : List Nat) x y, (b ++ [x]) ++ [y] = (b ++ [y]) ++ [x] := fun h => by
  have := h [] 1 2; simp at this
example : ∀ (b : Nat) x y, max (max b x) y = max (max b y) x := fun b x y => by omega
private def cv (k : Key) (w : Nat) : Except Key Bytes := if w % 2 = 0 then .ok [w] else .error k
example : firstFailureIn cv [([97], 2), ([98], 3), ([99], 1)] = ([([97], [2])], some [98]) := by decide
example : firstFailure cv [([99], 1), ([97], 2), ([98], 3)] = firstFailure cv [([98], 3), ([99], 1), ([97], 2)] :=
  convertToExp_order_independent cv _ _ (by decide) (by decide)
/-- returning at the first failure in the order GIVEN would depend on the order -/
example : firstFailureIn cv [([99], 1), ([97], 2), ([98], 3)] ≠ firstFailureIn cv [([98], 3), ([99], 1), ([97], 2)] := by decide

/-! Non-vacuity: a three-entry map, two orders, one output. -/
private def e (k : Nat) (s : Bool) : Key × Rendered := ([k, 49], { keyText := [k, 49], single := s, text := [48 + k % 10] })
example : nodupKeys [e 99 true, e 97 false, e 98 true] = true := by decide
example : [e 99 true, e 97 false, e 98 true].Perm [e 97 false, e 98 true, e 99 true] := by decide
example : mapFormat true [] [32] [e 99 true, e 97 false, e 98 true]
    = mapFormat true [] [32] [e 97 false, e 98 true, e 99 true] :=
  mapFormat_order_independent true [] [32] _ _ (by decide) (by decide)
/-- Without the sort the output would depend on the order (the theorem is not trivial). -/
example : ([e 99 true, e 97 false].map (·.1)) ≠ ([e 97 false, e 99 true].map (·.1)) := by decide

private def inner (x y : Nat) : JTree :=
  .ocons [x] [34, x, 34] (.leaf [x]) (.ocons [y] [34, y, 34] (.leaf [y]) .onil)
example : (JTree.ocons [97] [34, 97, 34] (inner 120 121) (.ocons [98] [34, 98, 34] (.leaf [51]) .onil)).wf = true := by decide
/-- the inner object's entries swapped and the outer entries swapped: still a reordering -/
example : JTree.Reorder
    (.ocons [97] [34, 97, 34] (inner 120 121) (.ocons [98] [34, 98, 34] (.leaf [51]) .onil))
    (.ocons [98] [34, 98, 34] (.leaf [51]) (.ocons [97] [34, 97, 34] (inner 121 120) .onil)) :=
  .trans (.congr _ _ (.swap ..) (.refl _)) (.swap ..)
example : ([[99], [97], [98]] : List Key).Perm [[97], [98], [99]] := by decide

/-! ## Iterator forms of map iteration (extractor round)

The site list is no longer limited to `range` statements: `maps.Keys/Values/All/…`,
`slices.Collect(maps.…)`, `slices.Sorted(maps.Keys(..))`, `reflect` `MapKeys`/`MapRange`,
`sync.Map.Range` and `range` over a function / over an expression of unknown type are
sites too (extract/maprange.go).  A new such site is `c10Unreviewed` (above). -/

/-- Regenerated obligation: every reviewed site of corpus/C10/map_range_sites.json is still
found.  A reviewed loop that DISAPPEARS (deleted, or rewritten in another form such as
`slices.Collect(maps.Keys(m))`) breaks this until a reviewer moves the entry to
`resolved_sites` with the outcome. -/
theorem no_reviewed_site_vanished : Gen.c10Vanished = [] := by decide

/-- The recognisers are not vacuous: on the extractor's embedded sample package every form
is found, both with full type information (`typed`) and when no import resolves at all
(`untyped`: syntactic recognition through the import table; only `sync.Map.Range` needs the
receiver type).  Entry = `mode function:form expression [auto class]`. -/
theorem iterator_forms_recognised : Gen.c10IterFormsRecognised = [
    "typed T.Keys:maps.Keys maps.Keys(t.m) [other]",
    "typed var pkgLevel:maps.Keys slices.Collect(maps.Keys(m)) [other]",
    "typed generic:range m [other]",
    "typed anyParam:sync.Map.Range w.Range [other]",
    "typed f:maps.Keys slices.Collect(maps.Keys(m)) [other]",
    "typed f:maps.Keys slices.Sorted(maps.Keys(m)) [keys-collected-then-sorted]",
    "typed f:maps.Keys slices.SortedFunc(maps.Keys(m), strings.Compare) [keys-collected-then-sorted]",
    "typed f:maps.Values slices.Collect(maps.Values(m)) [keys-collected-then-sorted]",
    "typed f:maps.All maps.All(m) [other]",
    "typed f:maps.All maps.Collect(maps.All(m)) [map-or-set-insert]",
    "typed f:maps.All maps.Insert(e, maps.All(m)) [map-or-set-insert]",
    "typed f:reflect.MapKeys v.MapKeys() [other]",
    "typed f:reflect.MapRange v.MapRange() [other]",
    "typed f:range-func t.Keys() [other]",
    "typed f:maps.Clone maps.Clone(m) [map-or-set-insert]",
    "typed f:sync.Map.Range sm.Range [other]",
    "typed f:range m [other]",
    "typed f:maps.Keys maps.Keys [other]",
    "typed f:maps.Keys slices.Sorted(maps.Keys(m)) [keys-collected-then-sorted]",
    "untyped T.Keys:maps.Keys maps.Keys(t.m) [other]",
    "untyped var pkgLevel:maps.Keys slices.Collect(maps.Keys(m)) [other]",
    "untyped generic:range m [other]",
    "untyped f:maps.Keys slices.Collect(maps.Keys(m)) [other]",
    "untyped f:maps.Keys slices.Sorted(maps.Keys(m)) [keys-collected-then-sorted]",
    "untyped f:maps.Keys slices.SortedFunc(maps.Keys(m), strings.Compare) [keys-collected-then-sorted]",
    "untyped f:maps.Values slices.Collect(maps.Values(m)) [keys-collected-then-sorted]",
    "untyped f:maps.All maps.All(m) [other]",
    "untyped f:maps.All maps.Collect(maps.All(m)) [map-or-set-insert]",
    "untyped f:maps.All maps.Insert(e, maps.All(m)) [map-or-set-insert]",
    "untyped f:reflect.MapKeys v.MapKeys() [other]",
    "untyped f:reflect.MapRange v.MapRange() [other]",
    "untyped f:range-untyped t.Keys() [other]",
    "untyped f:maps.Clone maps.Clone(m) [map-or-set-insert]",
    "untyped f:range m [other]",
    "untyped f:maps.Keys maps.Keys [other]",
    "untyped f:maps.Keys slices.Sorted(maps.Keys(m)) [keys-collected-then-sorted]"] := by rfl

/-- Regenerated obligation (audit pass 2, MEDIUM-2): no file of martian/syntax or martian/core
uses a form of map iteration the site scanner does not follow — a DOT-import of `maps`, `slices`,
`reflect`, `sync`, `iter` or the x/exp versions (calls would be bare identifiers).  A `range`
over a TYPE PARAMETER with a map core type and `sync.Map.Range` promoted from an embedded
`sync.Map` are followed (see the `generic` / `anyParam` entries above); a type parameter whose
constraint does not pin a map is listed as `range-untyped`. -/
theorem no_unsupported_iteration_form :
    Gen.c10UnsupportedForms_extracted = true ∧ Gen.c10UnsupportedForms = [] := by decide

/-- the vanished-site obligation is about a non-empty reviewed list -/
example : ["core/fork.go:ForkId.expandStaticForkPart:range keyMap#2"] ≠ ([] : List String) := by decide

/-! ## Site programme, round 2 (x-c18/c10): loops whose effect is not an error list

Model: `Martian/DeterminismAccum2.lean`.  General shape theorems first (each states
EXACTLY the condition under which the unsorted loop is order-independent), then the
sites. -/

/-- GENERAL (at most one entry): a map with at most one entry has one iteration order
(`Parser.FixIncludes` / `fixIncludes` over `source.Files` of a freshly parsed file). -/
theorem singleton_order_independent {α : Type} (l₁ l₂ : List α) (h : l₁.Perm l₂)
    (h1 : l₁.length ≤ 1) : l₁ = l₂ := by
  match l₁, l₂, h1, h with
  | [], l₂, _, h => exact (h.symm.eq_nil).symm
  | [a], l₂, _, h => exact (perm_singleton.mp h.symm).symm
  | _ :: _ :: _, _, h1, _ => simp at h1

/-- GENERAL (every entry contributes the SAME message): a list of identical messages
appended in map order is the same list in every order (`Modifiers.compile`: the message
names the call, not the binding). -/
theorem identicalMessages_order_independent {α : Type} (c : α) (l₁ l₂ : List α) (h : l₁.Perm l₂)
    (hc : ∀ x ∈ l₁, x = c) : l₁ = l₂ := by
  have h1 : l₁ = List.replicate l₁.length c := List.eq_replicate_iff.mpr ⟨rfl, hc⟩
  have h2 : l₂ = List.replicate l₂.length c :=
    List.eq_replicate_iff.mpr ⟨rfl, fun x hx => hc x (h.mem_iff.mpr hx)⟩
  rw [h1, h2, h.length_eq]

/-- GENERAL (take the first entry met, all entries agree on what is used of them):
`for _, e := range m { return g(e) }` does not depend on the order when `g` is the
same for every entry (`Ast.format`: every file leads to the same top-level file). -/
theorem firstOfEquals_order_independent {α β : Type} (g : α → β) (c : β) (l₁ l₂ : List α)
    (h : l₁.Perm l₂) (hc : ∀ x ∈ l₁, g x = c) : l₁.head?.map g = l₂.head?.map g := by
  cases l₁ with
  | nil => rw [h.symm.eq_nil]
  | cons a r =>
    cases l₂ with
    | nil => exact absurd h.eq_nil (by simp)
    | cons b r' =>
      have hb : b ∈ a :: r := h.mem_iff.mpr (by simp)
      simp [hc a (by simp), hc b hb]

/-- GENERAL (insert under a COMPUTED key): `res[kf(p)] = vf(p)` for every entry builds
the same map in every order EXACTLY WHEN entries that compute the same key carry the
same value (then no overwrite can change anything). -/
theorem insertKeyed_order_independent {α V : Type} (kf : α → Key) (vf : α → V) (l₁ l₂ : List α)
    (h : l₁.Perm l₂) (hc : ∀ p ∈ l₁, ∀ q ∈ l₁, kf p = kf q → vf p = vf q) (k : Key) :
    lookupL k (insertKeyed kf vf l₁) = lookupL k (insertKeyed kf vf l₂) := by
  unfold insertKeyed
  rw [lookupL_foldl_insertKeyed, lookupL_foldl_insertKeyed]
  apply h.foldl_eq'
  intro x hx y hy z
  by_cases h1 : (k == kf x) = true <;> by_cases h2 : (k == kf y) = true <;> simp [h1, h2]
  have e1 : k = kf x := by simpa using h1
  have e2 : k = kf y := by simpa using h2
  exact (hc x hx y hy (e1.symm.trans e2)).symm

/-- ... and when two entries compute the same key with different values, the map built
does depend on the order (the condition above is necessary). -/
theorem insertKeyed_collision_order_dependent :
    ∃ l₁ l₂ : List (Key × Nat), l₁.Perm l₂ ∧
      lookupL [1] (insertKeyed (fun _ => [1]) (·.2) l₁) ≠ lookupL [1] (insertKeyed (fun _ => [1]) (·.2) l₂) :=
  ⟨[([7], 1), ([8], 2)], [([8], 2), ([7], 1)], by decide, by decide⟩

/-- GENERAL (delete every collected key): deletes commute, so removing a set of keys
collected in map order leaves the same map (`getRequiredIncludes`: the `excess` types). -/
theorem eraseAll_order_independent {V : Type} (m : List (Key × V)) (ks₁ ks₂ : List Key)
    (h : ks₁.Perm ks₂) : eraseAll m ks₁ = eraseAll m ks₂ :=
  foldl_perm_of_comm eraseKey (fun b x y => eraseKey_comm b x y) h m

/-- `findSplitCalls` in closed form: after the walk the set holds what it held before
plus the calls the expression is split over OUTSIDE every merge over them.  (The
conditional delete after a merge removes exactly what the merge's own subtree added.) -/
theorem findSplitCalls_closed_form (t : STree) (S : List Key) (x : Key) :
    x ∈ t.walk S ↔ x ∈ S ∨ x ∈ t.free := walk_mem t S x

/-- `findSplitCalls` over a map literal, and `CallGraphStage.resolveForks` over the
inputs of a call: although the walk inserts AND deletes, the final set is the same
whatever the order in which the entries of ANY collection at ANY depth are visited. -/
theorem findSplitCalls_order_independent {a b : STree} (h : STree.Reorder a b) (S : List Key)
    (x : Key) : x ∈ a.walk S ↔ x ∈ b.walk S := by
  rw [walk_mem, walk_mem, free_reorder h x]

/-- Inserts and deletes do NOT commute in general (why `commFold_order_independent` does
not apply to `findSplitCalls` and the closed form was needed). -/
theorem insert_delete_do_not_commute :
    (setInsert ([] : List Key) [1]).filter (· != [1]) ≠ setInsert (([] : List Key).filter (· != [1])) [1] := by
  decide

/-- `SplitExp.CallMode` as the code is now (fold of the element modes over the sorted keys) -/
theorem callMode_order_independent (l₁ l₂ : List (Key × Option Mode)) (h : l₁.Perm l₂)
    (hn : nodupKeys l₁ = true) : callMode l₁ = callMode l₂ := by
  rw [callMode_eq_foldSorted, callMode_eq_foldSorted, isEmpty_perm h,
    foldSorted_order_independent _ _ l₁ l₂ h hn]

/-- The fold itself is NOT symmetric: over the map in the order given the mode of
`{"a": null, "b": REF}` is null or unknown, that of `{"a": null, "b": 1}` simple or
unknown (replayed on the real code by the provocations `SplitExp.CallMode(...)`; this
was the defect repaired by iterating the sorted keys). -/
theorem callModeIn_order_dependent :
    (callModeIn [(1, some Mode.null), (2, some Mode.unknown)] ≠ callModeIn [(2, some Mode.unknown), (1, some Mode.null)]) ∧
    (callModeIn [(1, some Mode.null), (2, none)] ≠ callModeIn [(2, (none : Option Mode)), (1, some Mode.null)]) := by
  decide

/-- GENERAL (return the first match; matches agree): `for _, e := range m { if r := f(e); r != nil { return r } }`
gives the same result in every order EXACTLY WHEN any two entries that match agree on the
result - in particular when at most one entry matches (`Node.find`: fully qualified names
are unique, so at most one subtree holds the node). -/
theorem uniqueMatch_order_independent {α β : Type} (f : α → Option β) (l₁ l₂ : List α) (h : l₁.Perm l₂)
    (hu : ∀ x ∈ l₁, ∀ y ∈ l₁, (f x).isSome → (f y).isSome → f x = f y) :
    l₁.findSome? f = l₂.findSome? f := by
  cases h1 : l₁.findSome? f with
  | none =>
    have hn := List.findSome?_eq_none_iff.mp h1
    exact (List.findSome?_eq_none_iff.mpr fun x hx => hn x (h.mem_iff.mpr hx)).symm
  | some v =>
    obtain ⟨x, hx, hfx⟩ := List.exists_of_findSome?_eq_some h1
    cases h2 : l₂.findSome? f with
    | none =>
      have := List.findSome?_eq_none_iff.mp h2 x (h.mem_iff.mp hx)
      rw [hfx] at this; cases this
    | some w =>
      obtain ⟨y, hy, hfy⟩ := List.exists_of_findSome?_eq_some h2
      have := hu x hx y (h.mem_iff.mpr hy) (by simp [hfx]) (by simp [hfy])
      rw [hfx, hfy] at this; exact this

/-- `getUnknownKeys` (core/fork.go, 4 loops): the keys of a run-time map collected in map
order; every consumer sorts them (`expandForkFromObj`, `TopNode.getParts`) or uses only
their number and membership (`checkSplitLength`, `mapKeyRange.Allow` / `Length`). -/
theorem unknownKeys_order_independent (k₁ k₂ : List Key) (h : k₁.Perm k₂) :
    sortKeys k₁ = sortKeys k₂ ∧ k₁.length = k₂.length ∧ ∀ x, k₁.contains x = k₂.contains x :=
  ⟨sort_keys_order_independent k₁ k₂ h, h.length_eq, fun x => contains_perm h x⟩

/-! Non-vacuity of round 2. -/
example : [1, 2, 3].findSome? (fun n => if n = 2 then some (n * 10) else none) = some 20 := by decide
/-- two matching entries that disagree: the first match does depend on the order -/
example : [1, 2].findSome? (fun n => some n) ≠ [2, 1].findSome? (fun n => some n) := by decide
private def tA : STree := .split [1] true (.leaf [[3]])
private def tB : STree := .merge [1] (.split [1] true (.split [2] true .nil))
example : STree.Reorder (.cons tA (.cons tB .nil)) (.cons tB (.cons tA .nil)) := .swap ..
example : (STree.cons tA (.cons tB .nil)).walk [] = [[2], [3], [1]] := by decide
example : (STree.cons tB (.cons tA .nil)).walk [] = [[3], [1], [2]] := by decide
example : (STree.cons tA (.cons tB .nil)).free = [[1], [3], [2]] := by decide
/-- nested: the entries of a map inside a merge swapped -/
example : STree.Reorder (.merge [5] (.cons tA (.cons tB .nil))) (.merge [5] (.cons tB (.cons tA .nil))) :=
  .merge _ (.swap ..)
example : callModeIn [(1, some Mode.array), (2, some Mode.null), (3, some Mode.array)] = Mode.array := by decide
example : callModeIn ([] : List (Nat × Option Mode)) = Mode.null := by decide
example : ∀ p ∈ [([7], 1), ([8], 1)], ∀ q ∈ [([7], 1), ([8], 1)], (fun _ => [1]) p = (fun _ : Key × Nat => [1]) q → p.2 = q.2 := by decide
example : eraseAll [([1], 1), ([2], 2), ([3], 3)] [[3], [1]] = [([2], 2)] := by decide
example : ([5] : List Nat).length ≤ 1 := by decide


/-! ## Fork enumeration: which forks a node has, and in which ORDER they are listed

Model `Martian/ForkOrder.lean`: `MakeForkIds` (product of the fork roots, first root fastest;
static map keys sorted), `expandStaticForks` and the run-time `Node.expandForks` (breadth-first
processing of the growing list: first element in place, the others appended).  Tied to the real
`MakeForkIds` / `Node.forks` by the differential `C10.forkorder`. -/

open Martian.ForkOrder in
/-- C10: the list of forks does not depend on the order in which Go hands over the keys of any
map involved — neither those of the static roots nor those of any nested / run-time source. -/
theorem forkOrder_map_order_independent (r₁ r₂ : List Root) (i₁ i₂ : Inner)
    (hr : RootsEquiv r₁ r₂) (hi : ∀ j pre, Elems.Equiv (i₁ j pre) (i₂ j pre)) :
    forkOrder r₁ i₁ = forkOrder r₂ i₂ := forkOrder_congr hr hi

open Martian.ForkOrder in
example : RootsEquiv [Root.static (.keys [[98], [97]]), Root.dyn] [Root.static (.keys [[97], [98]]), Root.dyn] :=
  .cons (.static (.keys (by decide))) (.cons .dyn .nil)

open Martian.ForkOrder in
/-- the same for the run-time expansion of a list of forks -/
theorem expandRuntime_map_order_independent (n : Nat) (i₁ i₂ : Inner) (forks : List Fork)
    (hi : ∀ j pre, Elems.Equiv (i₁ j pre) (i₂ j pre)) :
    expandRuntime n i₁ forks = expandRuntime n i₂ forks :=
  bfsRt_congr (fun j pre => (hi j pre).parts_eq) n forks

open Martian.ForkOrder in
/-- Closed form, all roots statically known: the cartesian product with the FIRST root varying
fastest (`product (l :: rest) = for every tail of the rest, for every p of l: p :: tail`). -/
theorem forkOrder_static_closed_form (roots : List Root) (inner : Inner)
    (h : ∀ r ∈ roots, ∃ e l, r = Root.static e ∧ e.parts = some l) :
    forkOrder roots inner = product (roots.map Root.initParts) := forkOrder_static roots inner h

open Martian.ForkOrder in
/-- two roots: `[a₀b₀, a₁b₀, …, a₀b₁, a₁b₁, …]` -/
theorem product_first_root_fastest (a b : List Part) :
    product [a, b] = b.flatMap fun y => a.map fun x => [x, y] := product_two a b

open Martian.ForkOrder in
example : forkOrder [Root.static (.arr 2), Root.static (.arr 3)] (fun _ _ => .unknown)
    = [[.idx 0, .idx 0], [.idx 1, .idx 0], [.idx 0, .idx 1], [.idx 1, .idx 1], [.idx 0, .idx 2],
       [.idx 1, .idx 2]] := by decide

open Martian.ForkOrder in
/-- Closed form, a map call nested in a map call with RAGGED inner sets: every outer element
with its first inner element (in outer order), then outer element by outer element the
remaining inner elements.  (This is what the fork-order provocations expect.) -/
theorem forkOrder_ragged_closed_form (e₀ : Elems) (outer : List Part) (inner : Inner)
    (fst : Part → Part) (more : Part → List Part) (h₀ : e₀.parts = some outer)
    (h₁ : ∀ o ∈ outer, (inner 1 [o]).parts = some (fst o :: more o)) :
    forkOrder [Root.static e₀, Root.dyn] inner
      = outer.map (fun o => [o, fst o]) ++ outer.flatMap (fun o => (more o).map fun y => [o, y]) :=
  forkOrder_ragged e₀ outer inner fst more h₀ h₁

open Martian.ForkOrder in
example : forkOrder [Root.static (.arr 2), Root.dyn]
      (fun _ pre => if pre == [.idx 0] then .arr 3 else .arr 2)
    = [[.idx 0, .idx 0], [.idx 1, .idx 0], [.idx 0, .idx 1], [.idx 0, .idx 2], [.idx 1, .idx 1]] := by
  decide

open Martian.ForkOrder in
/-- forks_bijection (also the C03 clause "one fork per element / key combination"): when every
static root is known and every nested source is known and not empty, the list of forks has NO
DUPLICATES and contains EXACTLY the combinations the sources define — `Valid`: at every root
one of the elements / keys its source has, given the picks at the earlier roots (ragged sets
included).  Any number of roots, any nesting depth. -/
theorem forks_bijection (roots : List Root) (inner : Inner) (hs : StaticKnown roots)
    (hI : InnerKnown inner)
    (hSN : ∀ r ∈ roots, ∀ e, r = Root.static e → e.KeysNodup)
    (hIN : ∀ j pre, (inner j pre).KeysNodup) :
    (forkOrder roots inner).Nodup ∧
      ∀ t, t ∈ forkOrder roots inner ↔ Valid inner 0 [] roots t := by
  have hp := forkOrder_perm_allForks roots inner hs hI
  refine ⟨hp.nodup_iff.mpr (allForks_nodup inner hIN roots 0 [] hSN), ?_⟩
  intro t
  rw [hp.mem_iff]
  exact mem_allForks inner roots 0 [] t

open Martian.ForkOrder in
/-- forks_bijection with a hypothesis a FINITE table satisfies (audit pass 3, A7): the nested
sources need to be known and non-empty only WHERE NEEDED — at the prefixes the enumeration
really consults (`bfsQ`) and at the prefixes valid pick sequences reach (`validKnown`);
`knownWhereNeeded` is one executable check, which the driver evaluates on every real case
(op `forkbij`).  Same conclusion: no duplicates, exactly the combinations the sources define. -/
theorem forks_bijection_where_known (roots : List Root) (inner : Inner) (hs : StaticKnown roots)
    (hK : knownWhereNeeded roots inner = true)
    (hSN : ∀ r ∈ roots, ∀ e, r = Root.static e → e.KeysNodup)
    (hIN : ∀ j pre, (inner j pre).KeysNodup) :
    (forkOrder roots inner).Nodup ∧
      ∀ t, t ∈ forkOrder roots inner ↔ Valid inner 0 [] roots t :=
  forks_bijection_on roots inner hs hK hSN hIN

open Martian.ForkOrder in
/-- Non-vacuity with a RAGGED finite table (unknown everywhere else, as every table the driver
builds): a static array of 2, the inner source has 3 elements under the first and 2 under the
second outer element. -/
example : knownWhereNeeded [Root.static (.arr 2), Root.dyn]
    (fun j pre => if j == 1 && pre == [.idx 0] then .arr 3
      else if j == 1 && pre == [.idx 1] then .arr 2 else .unknown) = true := by decide

open Martian.ForkOrder in
/-- … and the global hypothesis of `forks_bijection` fails for such a table -/
example : ¬ InnerKnown (fun j pre => if j == 1 && pre == [.idx 0] then .arr 3
      else if j == 1 && pre == [.idx 1] then .arr 2 else .unknown) := by
  intro h
  obtain ⟨x, xs, hx⟩ := h 0 []
  simp [Elems.parts] at hx

open Martian.ForkOrder in
/-- … and it is a permutation of the ragged product enumerated root by root -/
theorem forks_perm_product (roots : List Root) (inner : Inner) (hs : StaticKnown roots)
    (hI : InnerKnown inner) : (forkOrder roots inner).Perm (allForks inner 0 [] roots) :=
  forkOrder_perm_allForks roots inner hs hI

open Martian.ForkOrder in
/-- non-vacuity of the hypotheses: a static array, a ragged nested map and a third level -/
example : StaticKnown [Root.static (.arr 2), Root.dyn, Root.dyn] ∧
    InnerKnown (fun j pre => if j == 1 then (if pre == [.idx 0] then .arr 3 else .arr 1)
      else .arr 2) := by
  refine ⟨?_, ?_⟩
  · intro r hr
    simp only [List.mem_cons, List.not_mem_nil, or_false] at hr
    rcases hr with rfl | rfl | rfl
    · exact Or.inr ⟨_, _, rfl, rfl⟩
    · exact Or.inl rfl
    · exact Or.inl rfl
  · intro j pre
    by_cases h1 : (j == 1) = true
    · by_cases h2 : (pre == [Part.idx 0]) = true
      · exact ⟨.idx 0, [.idx 1, .idx 2], by simp [h1, h2, Elems.parts]; decide⟩
      · exact ⟨.idx 0, [], by simp [h1, h2, Elems.parts]⟩
    · exact ⟨.idx 0, [.idx 1], by simp [h1, Elems.parts]; decide⟩


/-! ### per-site NAMES of the general theorems (documentation of the model, not guarantees)

Audit MEDIUM-1 (both passes): the theorems of this section are ALIASES.  Each is the statement
`g (sortK l₁) = g (sortK l₂)` for some function `g` — true for EVERY `g` by
`function_of_sorted_order_independent` below, because the model loops over the SORTED keys —
written once more under the name of a Go loop that has this shape after its fix:
`invertSplit`, `wrapDisabled`, `MergeExp.BindingPath`, `CallGraphStage/Pipeline.unsplit`,
`Node.resolveInputs` / `TopNode.resolveMap` (= `accumulate_order_independent`);
`SplitExp.InnerMapSource` (= `foldSorted_order_independent`); `RefExp.FindRefs` over the fork
indices and `Fork.getStages` (the same statement twice); `resolveDisableMap` all-true;
`Fork.verifyPipelineOutput` (= the second half of `convertToExp_order_independent`).  Nothing
in Lean mentions the Go function: what ties a site to its shape is the reviewer's reading of the
loop, the differentials (`C10.accum` for the first four, `C10.firstfail`) and the provocations.
They document which site was read as which shape and do not count as guarantees. -/

/-- the one fact behind every alias: whatever is computed from the SORTED entries does not
depend on the order in which the map handed them over -/
theorem function_of_sorted_order_independent {V β : Type} (g : List (Key × V) → β)
    (l₁ l₂ : List (Key × V)) (h : l₁.Perm l₂) (hn : nodupKeys l₁ = true) :
    g (sortK l₁) = g (sortK l₂) := by
  rw [sort_entries_order_independent l₁ l₂ h hn]

/-- `invertSplit` (split_expression.go, MapExp branch; fix 3cfd1e8) -/
theorem invertSplit_order_independent (l₁ l₂ : List (Key × EntryRes)) (h : l₁.Perm l₂)
    (hn : nodupKeys l₁ = true) :
    accumulate l₁ = accumulate l₂ ∧
      errorListText (accumulate l₁).errs = errorListText (accumulate l₂).errs := by
  rw [accumulate_order_independent l₁ l₂ h hn]; exact ⟨rfl, rfl⟩

/-- `wrapDisabled` (resolve_stage.go, MapExp branch; fix 3614e32) -/
theorem wrapDisabled_order_independent (l₁ l₂ : List (Key × EntryRes)) (h : l₁.Perm l₂)
    (hn : nodupKeys l₁ = true) : accumulate l₁ = accumulate l₂ :=
  accumulate_order_independent l₁ l₂ h hn

/-- `MergeExp.BindingPath`, static merge over a map (merge_exp.go; fix 4931c7d) -/
theorem mergeBindingPath_order_independent (l₁ l₂ : List (Key × EntryRes)) (h : l₁.Perm l₂)
    (hn : nodupKeys l₁ = true) : accumulate l₁ = accumulate l₂ :=
  accumulate_order_independent l₁ l₂ h hn

/-- `CallGraphStage.unsplit` / `CallGraphPipeline.unsplit`, the loop over the inputs
(resolve_stage.go, resolve_pipeline.go; fixes 7ae87c8, 922daa0) -/
theorem unsplit_order_independent (l₁ l₂ : List (Key × EntryRes)) (h : l₁.Perm l₂)
    (hn : nodupKeys l₁ = true) : accumulate l₁ = accumulate l₂ :=
  accumulate_order_independent l₁ l₂ h hn

/-- `Node.resolveInputs` and `TopNode.resolveMap` (core/resolve.go; fixes 7218313,
d4fb478): `allReady` is `done`, the MarshalerMap is `vals` -/
theorem resolveInputs_order_independent (l₁ l₂ : List (Key × EntryRes)) (h : l₁.Perm l₂)
    (hn : nodupKeys l₁ = true) : accumulate l₁ = accumulate l₂ :=
  accumulate_order_independent l₁ l₂ h hn

/-- `SplitExp.InnerMapSource` over a map literal as the code is now: a fold (keep the
first source, replace it by a placeholder on a mismatch) over the sorted keys -/
theorem innerMapSource_order_independent {V β : Type} (f : β → Key × V → β) (init : β)
    (l₁ l₂ : List (Key × V)) (h : l₁.Perm l₂) (hn : nodupKeys l₁ = true) :
    foldSorted f init l₁ = foldSorted f init l₂ := foldSorted_order_independent f init l₁ l₂ h hn

/-- `RefExp.FindRefs` over the fork indices as the code is now: the references of each
index source appended in the order of the sorted calls (key = call id, declaration id;
assumed distinct) -/
theorem refFindRefs_order_independent {V R : Type} (f : Key × V → List R) (l₁ l₂ : List (Key × V))
    (h : l₁.Perm l₂) (hn : nodupKeys l₁ = true) : (sortK l₁).flatMap f = (sortK l₂).flatMap f := by
  rw [sort_entries_order_independent l₁ l₂ h hn]

/-- `resolveDisableMap`, all entries true, as the code is now: the entry with the
smallest key stands for all -/
theorem disableAllTrue_order_independent {V : Type} (l₁ l₂ : List (Key × V)) (h : l₁.Perm l₂)
    (hn : nodupKeys l₁ = true) : (sortK l₁).head? = (sortK l₂).head? := by
  rw [sort_entries_order_independent l₁ l₂ h hn]

/-- `Fork.getStages` as the code is now (core/stage.go): the stages of the subnodes
appended in sorted order of the subnode names (the `stages` list of `_perf`) -/
theorem getStages_order_independent {V R : Type} (f : Key × V → List R) (l₁ l₂ : List (Key × V))
    (h : l₁.Perm l₂) (hn : nodupKeys l₁ = true) : (sortK l₁).flatMap f = (sortK l₂).flatMap f :=
  refFindRefs_order_independent f l₁ l₂ h hn

/-- `Fork.verifyPipelineOutput` as the code is now: the message of the first invalid
entry in sorted key order (the `_errors` text of a pipeline fork) -/
theorem verifyPipelineOutput_order_independent {W E : Type} (conv : Key → W → Except E Bytes)
    (l₁ l₂ : List (Key × W)) (h : l₁.Perm l₂) (hn : nodupKeys l₁ = true) :
    (firstFailure conv l₁).2 = (firstFailure conv l₂).2 := by
  rw [convertToExp_order_independent conv l₁ l₂ h hn]

end Props.C10
