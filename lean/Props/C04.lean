/-
C04 — volatile data removal never deletes a file that is still needed.
PROPERTY THEOREMS ONLY (lemmas: Proofs/VdrPath.lean, Proofs/VdrInv.lean,
Proofs/VdrNonVol.lean; model: Martian/Vdr.lean).

The theorems quantify over ALL event lists (`run c s0 evs`): every
interleaving of consumer completions (`nodeDone`), `removeEmptyFileArgs`,
`cacheParamFileMap`, early temp cleaning and `partialVdrKill` in state
complete (the rolling trigger and the final `Pipestance.VDRKill` alike), from
any fresh fork state `s0`.
-/
import Martian.Vdr
import Proofs.VdrPath
import Proofs.VdrInv
import Proofs.VdrNonVol
import Proofs.VdrExample
import Martian.VdrFs
import Proofs.VdrFs
import Martian.VdrBuild
import Proofs.VdrBuild
import Martian.VdrVal
import Proofs.VdrVal
import Martian.VdrAll
import Proofs.VdrAll
import Proofs.VdrDone
import Proofs.VdrHyp
import Martian.VdrEval
import Proofs.VdrEval

namespace Props.C04
open Martian.Vdr

/-- `anyOverlap` detects exactly "equal, ancestor or descendant" (paths
without a trailing separator, which is what `filepath.Clean` produces). -/
theorem anyOverlap_iff (ns fs : List Path)
    (hn : ∀ n ∈ ns, NoTrailingSlash n) (hf : ∀ f ∈ fs, NoTrailingSlash f) :
    anyOverlap ns fs = true ↔ ∃ n ∈ ns, ∃ f ∈ fs, Related n f :=
  anyOverlap_iff' ns fs hn hf

/-- `pathIsInside` is "equal or below". -/
theorem pathIsInside_spec (d k : Path) : pathIsInside d k = true ↔ (d = k ∨ (k ++ ['/']) <+: d) :=
  pathIsInside_iff d k

/-- Collapsing kill paths is sound: whatever names something below a
directory names the directory, so a directory whose own entry is kept alive
by no argument has nothing below it that is kept alive. -/
theorem overlap_mono {d k f : Path} (hin : pathIsInside d k = true) (hr : Related d f) : Related k f :=
  related_mono hin hr

/-- **kill_safe.**  For a volatile fork, under every interleaving: an entry
below a files/ directory that has been removed is referenced by no argument
that has a holder other than a consumer node that is already complete — in
particular by no argument held by the top level or a retain (`none`). -/
theorem kill_safe (c : Cfg) (s0 : St) (evs : List Ev) (ok : CfgOK c s0) (fr : Fresh s0)
    (hv : c.volatile = true) :
    ∀ d ∈ (run c s0 evs).removed, isTmp d.kind = false →
      ∀ a h, Holds s0 a h → refs c a d.path = true →
        ∃ n, h = some n ∧ n ∈ (run c s0 evs).doneNodes :=
  fun d hd ht a h hh hr => ((Inv.init c s0 fr).run ok hv evs).safe d hd ht a h hh hr

/-- Files named by a top-level output or a retain declaration are never removed. -/
theorem top_level_and_retained_never_removed (c : Cfg) (s0 : St) (evs : List Ev) (ok : CfgOK c s0)
    (fr : Fresh s0) (hv : c.volatile = true) (a : Arg) (hh : Holds s0 a none) :
    ∀ d ∈ (run c s0 evs).removed, isTmp d.kind = false → refs c a d.path = false := by
  intro d hd ht
  cases hr : refs c a d.path with
  | false => rfl
  | true =>
    obtain ⟨n, e, _⟩ := kill_safe c s0 evs ok fr hv d hd ht a none hh hr
    cases e

/-- **args_present_at_start.**  As long as consumer `n` has not completed,
everything its argument `a` names is still on disk: it finds its files when
it starts, however long after the producer finished. -/
theorem args_present_at_start (c : Cfg) (s0 : St) (evs : List Ev) (ok : CfgOK c s0) (fr : Fresh s0)
    (hv : c.volatile = true) (a : Arg) (n : Node) (hh : Holds s0 a (some n))
    (hn : n ∉ (run c s0 evs).doneNodes) :
    ∀ d ∈ s0.disk, isTmp d.kind = false → refs c a d.path = true → d ∈ (run c s0 evs).disk := by
  intro d hd ht hr
  have i := (Inv.init c s0 fr).run ok hv evs
  rcases i.split d hd with h | h
  · exact h
  · obtain ⟨m, e, hm⟩ := i.safe d h ht a (some n) hh hr
    cases e
    exact absurd hm hn

/-- A non-volatile fork loses nothing but temp entries and — when the stage
splits — chunk-level files (removed by `vdrKill`, which runs only in state
complete, i.e. after the join). -/
theorem nonvolatile_loses_only_tmp_and_chunk_files (c : Cfg) (s0 : St) (evs : List Ev)
    (fr : Fresh s0) (hv : c.volatile = false) (hs : c.strict = false) :
    ∀ d ∈ (run c s0 evs).removed, isTmp d.kind = true ∨ (c.splits = true ∧ d.kind = .chunk) := by
  intro d hd
  rcases run_removed_nonvol c s0 hv hs evs d hd with h | h
  · rw [fr.removed] at h; cases h
  · exact h

/-- … and a non-volatile stage that does not split loses only temp entries. -/
theorem nonvolatile_nonsplitting_loses_nothing (c : Cfg) (s0 : St) (evs : List Ev)
    (fr : Fresh s0) (hv : c.volatile = false) (hs : c.strict = false) (hsp : c.splits = false) :
    ∀ d ∈ (run c s0 evs).removed, isTmp d.kind = true := by
  intro d hd
  rcases nonvolatile_loses_only_tmp_and_chunk_files c s0 evs fr hv hs d hd with h | ⟨h, _⟩
  · exact h
  · rw [hsp] at h; cases h

/-! ### uncleaned paths and symbolic links -/

/-- `filepath.Clean` (rooted paths) delivers what `anyOverlap_iff` assumes:
the result is the root or has no trailing separator. -/
theorem cleanAbs_clean (p : Path) : cleanAbs p = ['/'] ∨ NoTrailingSlash (cleanAbs p) :=
  cleanAbs_clean' p

/-- `pathIsInside` on arbitrary spellings (`//`, `/./`, `/../`, trailing `/`)
decides "equal or below" on the cleaned forms. -/
theorem pathIsInsideRaw_spec (t p : Path) :
    pathIsInsideRaw t p = true ↔ (t = p ∨ pathIsInside (cleanAbs t) (cleanAbs p) = true) := by
  unfold pathIsInsideRaw pathIsInside
  simp

/-- `anyOverlap` fed with cleaned names (as `getLogicalFileNames` does) detects
exactly equal / ancestor / descendant, whatever the spelling was. -/
theorem anyOverlap_cleaned_iff (ns fs : List Path)
    (hn : ∀ n ∈ ns, cleanAbs n ≠ ['/']) (hf : ∀ f ∈ fs, cleanAbs f ≠ ['/']) :
    anyOverlap (ns.map cleanAbs) (fs.map cleanAbs) = true ↔
      ∃ n ∈ ns, ∃ f ∈ fs, Related (cleanAbs n) (cleanAbs f) := by
  rw [anyOverlap_iff]
  · constructor
    · rintro ⟨n, hn', f, hf', r⟩
      obtain ⟨n0, h0, rfl⟩ := List.mem_map.mp hn'
      obtain ⟨f0, h1, rfl⟩ := List.mem_map.mp hf'
      exact ⟨n0, h0, f0, h1, r⟩
    · rintro ⟨n, hn', f, hf', r⟩
      exact ⟨_, List.mem_map.mpr ⟨n, hn', rfl⟩, _, List.mem_map.mpr ⟨f, hf', rfl⟩, r⟩
  · intro n hn'
    obtain ⟨n0, h0, rfl⟩ := List.mem_map.mp hn'
    exact (cleanAbs_clean n0).resolve_left (hn n0 h0)
  · intro f hf'
    obtain ⟨f0, h1, rfl⟩ := List.mem_map.mp hf'
    exact (cleanAbs_clean f0).resolve_left (hf f0 h1)

/-- An output that names a symbolic link also names the link's target:
`getLogicalFileNames` contains it … -/
theorem logicalNames_target (fs : List FsEnt) (name t : Path) (e : FsEnt)
    (hclean : cleanAbs name = name) (hf : lfind fs name = some e) (hl : e.link = some t)
    (habs : isAbs t = true) : t ∈ logicalNames fs name :=
  logicalNames_target' fs name t e hclean hf hl habs

/-- … so the argument references the target, and by `kill_safe` the target is
not removed while the argument is held (a stage that writes its data under
files/real/ and hands out a link to it keeps the data). -/
theorem link_target_referenced (c : Cfg) (a : Arg) (fs : List FsEnt) (name t : Path) (e : FsEnt)
    (hfiles : ∀ x ∈ logicalNames fs name, x ∈ c.filesOf a)
    (hclean : cleanAbs name = name) (hf : lfind fs name = some e) (hl : e.link = some t)
    (habs : isAbs t = true) : refs c a t = true := by
  have hm : t ∈ c.filesOf a := hfiles t (logicalNames_target fs name t e hclean hf hl habs)
  unfold refs anyOverlap
  have hne : (c.filesOf a).isEmpty = false := by
    rw [List.isEmpty_eq_false_iff_exists_mem]; exact ⟨t, hm⟩
  simp [hne, hm]

/-- A name that leads through linked PARENT components (a stage that returns
`files/current/part.txt` with `files/current -> data`, or the canonical path
of a pipestance reached through a symlinked directory) also names the fully
resolved location: `getLogicalFileNames` contains it … -/
theorem logicalNames_resolved (fs : List FsEnt) (name r : Path) (e : FsEnt)
    (hf : lfind fs (cleanAbs name) = some e) (hr : evalSymlinks fs (cleanAbs name) = some r) :
    r ∈ logicalNames fs name :=
  logicalNames_resolved' fs name r e hf hr

/-- … so the argument references the real file and its real directories, and
by `kill_safe` they are not removed while the argument is held. -/
theorem resolved_location_referenced (c : Cfg) (a : Arg) (fs : List FsEnt) (name r : Path) (e : FsEnt)
    (hfiles : ∀ x ∈ logicalNames fs name, x ∈ c.filesOf a)
    (hf : lfind fs (cleanAbs name) = some e) (hr : evalSymlinks fs (cleanAbs name) = some r) :
    refs c a r = true := by
  have hm : r ∈ c.filesOf a := hfiles r (logicalNames_resolved fs name r e hf hr)
  unfold refs anyOverlap
  have hne : (c.filesOf a).isEmpty = false := by
    rw [List.isEmpty_eq_false_iff_exists_mem]; exact ⟨r, hm⟩
  simp [hne, hm]

/-! ### the holder sets are those the construction builds

`kill_safe` and its corollaries take the holder sets (`Holds s0 a h`) as given.
The theorems below derive them from the construction of the pipestance:
`opsOf tr` is the sequence of `attachToFileParents` / `buildForks` / retain
steps `NewPipestance` performs for the node tree `tr` with its resolved
bindings, `build` executes them, `typedRefs` is the typed reference walk
(`ResolvedBinding.FindRefs`).  `wfOps [] [] (opsOf tr)` — forks are built
once and before they are referred to, a stage attaches once — is decided by
the driver for every pipestance the harness builds, and the tables `build`
yields are compared with the real ones on every run. -/

/-- **consumer_registered** (soundness of the holder sets).  Every stage `n`
of the tree one of whose resolved inputs contains, at a type that may name
files, a reference to output `a` of node `p`, is a holder of `a` in THE table
every fork of `p` starts with — and a post node of `p` listing `a`. -/
theorem consumer_registered (tr : PTree) (w : wfOps [] [] (opsOf tr) = true) (n : Node) (ins : List Binding)
    (hs : HasStage tr n ins) (b : Binding) (hb : b ∈ ins) (p : Node) (a : Arg)
    (hr : (p, a, true) ∈ typedRefs b.1 b.2) :
    ∃ t, (p, t) ∈ build (opsOf tr) ∧ (∀ t', (p, t') ∈ build (opsOf tr) → t' = t) ∧
      (∀ disk, Holds (t.st disk) a (some n)) ∧
      ∃ as, t.postNodes.lookup n = some as ∧ a ∈ as := by
  obtain ⟨t, ht, hh⟩ := build_holds_mem w hs.mem (mem_fileRefs hb hr)
  refine ⟨t, ht, fun t' h' => build_unique w h' ht, fun d => hh.st d, ?_⟩
  obtain ⟨hs', hm, hin⟩ := hh
  exact (build_bk w ht).cons a hs' hm n hin

/-- … the outputs the top-level pipeline returns carry the nil holder … -/
theorem top_level_registered (tr : PTree) (w : wfOps [] [] (opsOf tr) = true) (ret : List Binding)
    (hs : HasTop tr ret) (b : Binding) (hb : b ∈ ret) (p : Node) (a : Arg)
    (hr : (p, a, true) ∈ typedRefs b.1 b.2) :
    ∃ t, (p, t) ∈ build (opsOf tr) ∧ ∀ disk, Holds (t.st disk) a none := by
  obtain ⟨t, ht, hh⟩ := build_holds_mem w hs.mem (mem_fileRefs hb hr)
  exact ⟨t, ht, fun d => hh.st d⟩

/-- … and so does every output named by a `retain` of a stage or a pipeline. -/
theorem retained_registered (tr : PTree) (w : wfOps [] [] (opsOf tr) = true) (p : Node) (a : Arg)
    (hs : HasRetain tr p a) : ∃ t, (p, t) ∈ build (opsOf tr) ∧ ∀ disk, Holds (t.st disk) a none := by
  obtain ⟨t, ht, hh⟩ := build_retained_mem w hs.mem
  exact ⟨t, ht, fun d => hh.st d⟩

/-- **args_present_at_start_built.**  End to end, without assuming the holder
sets: a producer fork that starts with the tables the construction gives it
keeps, under every interleaving, everything output `a` references for as long
as a consuming stage bound to `a` (at a type that may name files) has not
completed. -/
theorem args_present_at_start_built (tr : PTree) (w : wfOps [] [] (opsOf tr) = true) (n : Node)
    (ins : List Binding) (hs : HasStage tr n ins) (b : Binding) (hb : b ∈ ins) (p : Node) (a : Arg)
    (hr : (p, a, true) ∈ typedRefs b.1 b.2) :
    ∃ t, (p, t) ∈ build (opsOf tr) ∧
      ∀ (c : Cfg) (disk : List DiskEnt) (evs : List Ev), CfgOK c (t.st disk) → c.volatile = true →
        n ∉ (run c (t.st disk) evs).doneNodes →
        ∀ d ∈ disk, isTmp d.kind = false → refs c a d.path = true → d ∈ (run c (t.st disk) evs).disk := by
  obtain ⟨t, ht, _, hh, _⟩ := consumer_registered tr w n ins hs b hb p a hr
  refine ⟨t, ht, ?_⟩
  intro c disk evs ok hv hn d hd
  exact args_present_at_start c (t.st disk) evs ok ⟨rfl, rfl⟩ hv a n (hh disk) hn d hd

/-- **top_level_and_retained_never_removed_built.**  Likewise for what the
top-level pipeline returns and for retained outputs: nothing they reference
is ever removed from a fork that starts with the constructed tables. -/
theorem top_level_and_retained_never_removed_built (tr : PTree) (w : wfOps [] [] (opsOf tr) = true)
    (p : Node) (a : Arg)
    (h : (∃ ret b, HasTop tr ret ∧ b ∈ ret ∧ (p, a, true) ∈ typedRefs b.1 b.2) ∨ HasRetain tr p a) :
    ∃ t, (p, t) ∈ build (opsOf tr) ∧
      ∀ (c : Cfg) (disk : List DiskEnt) (evs : List Ev), CfgOK c (t.st disk) → c.volatile = true →
        ∀ d ∈ (run c (t.st disk) evs).removed, isTmp d.kind = false → refs c a d.path = false := by
  have key : ∃ t, (p, t) ∈ build (opsOf tr) ∧ ∀ disk, Holds (t.st disk) a none := by
    rcases h with ⟨ret, b, ht, hb, hr⟩ | hrt
    · exact top_level_registered tr w ret ht b hb p a hr
    · exact retained_registered tr w p a hrt
  obtain ⟨t, ht, hh⟩ := key
  refine ⟨t, ht, ?_⟩
  intro c disk evs ok hv
  exact top_level_and_retained_never_removed c (t.st disk) evs ok ⟨rfl, rfl⟩ hv a (hh disk)

/-- **holders_sound.**  No reference through which a value reaches a consuming
stage is overlooked: for every reference `p.a` in a value position of a
resolved input of stage `n` (a binding the typed walk accepts: `wellTyped`,
decided by the driver for every binding of every pipestance built), either
`n` is registered as a holder of `a` in the table of `p`, or the walk binds
the reference at a type that cannot name files — and a value of such a type
names no file (`notfile_value_names_nothing`). -/
theorem holders_sound (tr : PTree) (w : wfOps [] [] (opsOf tr) = true) (n : Node) (ins : List Binding)
    (hs : HasStage tr n ins) (b : Binding) (hb : b ∈ ins) (hw : wellTyped b.1 b.2 = true) (p : Node) (a : Arg)
    (hr : (p, a) ∈ b.1.valueRefs) :
    (∃ t, (p, t) ∈ build (opsOf tr) ∧ ∀ disk, Holds (t.st disk) a (some n)) ∨
    (p, a, false) ∈ typedRefs b.1 b.2 := by
  obtain ⟨f, hf⟩ := (walk_covers b.1).1 b.2 hw (p, a) hr
  cases f with
  | false => exact Or.inr hf
  | true =>
    obtain ⟨t, ht, _, hh, _⟩ := consumer_registered tr w n ins hs b hb p a hf
    exact Or.inl ⟨t, ht, hh⟩

/-- A value that conforms to a type that cannot name files (`IsFile() ==
KindIsNotFile`: int, float, bool and arrays, typed maps and structs of such;
typed-map keys of such maps not being paths) contains nothing
`getMaybeFileNames` would report. -/
theorem notfile_value_names_nothing (v : Val) (t : Ty) (hc : conforms v t = true) (hf : t.isFile = false) :
    v.names = [] :=
  (notFile_names v).1 t hc hf

/-- **delivered_files_are_held.**  With an evaluation semantics of the binding
expressions (`Delivers`: a reference delivers what any fork of the producer
produced, a split any element of its source, a merge a collection of values
of its body, a disabled binding null or its value; literals name nothing):
every file name in ANY value a resolved input of stage `n` can deliver is a
file name of what some fork of a node `p` produced for an output `a`, such
that `n` is registered as a holder of `a` on `p` — or the walk binds `p.a` at
a type that cannot name files. -/
theorem delivered_files_are_held (tr : PTree) (w : wfOps [] [] (opsOf tr) = true) (n : Node) (ins : List Binding)
    (hs : HasStage tr n ins) (b : Binding) (hb : b ∈ ins) (hw : wellTyped b.1 b.2 = true)
    (env : Env) (v : Val) (hd : Delivers env false b.1 v) (s : String) (hn : s ∈ v.names) :
    ∃ p a, (∃ x ∈ env p a, s ∈ x.names) ∧
      ((∃ t, (p, t) ∈ build (opsOf tr) ∧ ∀ disk, Holds (t.st disk) a (some n)) ∨
       (p, a, false) ∈ typedRefs b.1 b.2) := by
  obtain ⟨r, hr, x, hx, hsx⟩ := delivers_names hd s hn
  exact ⟨r.1, r.2, ⟨x, hx, hsx⟩, holders_sound tr w n ins hs b hb hw r.1 r.2 hr⟩

/-- **expanded_fork_safe.**  The moment of dynamic fork expansion: whenever
in the life of a fork (`evs`) `cloneFork` makes a new fork of it, the new
fork — with its own files, under every interleaving of its own later events
`evs'` — never loses an entry referenced by an argument that a holder of the
clone holds and that is not a completed consumer; and every holder the clone
has was registered for the original at construction. -/
theorem expanded_fork_safe (c c' : Cfg) (s0 : St) (evs evs' : List Ev) (disk : List DiskEnt)
    (ok' : CfgOK c' (cloneFork (run c s0 evs) disk)) (hv' : c'.volatile = true)
    (ok : CfgOK c s0) (wf : DiskWF s0.disk) (fr : Fresh s0) (h0 : s0.report.count = 0 ∧ s0.report.size = 0)
    (hv : c.volatile = true) (bk : BK s0) (hf : s0.final = false) :
    (∀ a h, Holds (cloneFork (run c s0 evs) disk) a h → Holds s0 a h) ∧
    ∀ d ∈ (run c' (cloneFork (run c s0 evs) disk) evs').removed, isTmp d.kind = false →
      ∀ a h, Holds (cloneFork (run c s0 evs) disk) a h → refs c' a d.path = true →
        ∃ n, h = some n ∧ n ∈ (run c' (cloneFork (run c s0 evs) disk) evs').doneNodes := by
  obtain ⟨_, r⟩ := joint_run ok wf hv bk (XInv.init s0 fr h0) (RInv.init c s0 fr bk hf) evs
  refine ⟨?_, ?_⟩
  · intro a h hh
    exact r.sh.holds a h ((cloneFork_holds _ disk a h).mp hh)
  · exact kill_safe c' (cloneFork (run c s0 evs) disk) evs' ok' ⟨rfl, rfl⟩ hv'

/-- **construction_well_ordered.**  The hypothesis `wfOps` of the construction
theorems follows from the shape of the call graph (`Scoped`: node ids are
new when the node is constructed; the file references of inputs, the
top-level return and the retains point to nodes constructed before). -/
theorem construction_well_ordered (tr : PTree) (a : List Node) (sc : Scoped [] tr a) :
    wfOps [] [] (opsOf tr) = true :=
  wfOps_of_scoped sc

/-- `Scoped` is decided by `scopedB` (evaluated by the driver for every pipestance built). -/
theorem scoped_decided (tr : PTree) (a : List Node) (h : scopedB [] tr = some a) : Scoped [] tr a :=
  scopedB_sound tr [] a h

/-- `args_present_at_start_built` from the shape of the call graph alone. -/
theorem args_present_at_start_scoped (tr : PTree) (known : List Node) (sc : Scoped [] tr known) (n : Node)
    (ins : List Binding) (hs : HasStage tr n ins) (b : Binding) (hb : b ∈ ins) (p : Node) (a : Arg)
    (hr : (p, a, true) ∈ typedRefs b.1 b.2) :
    ∃ t, (p, t) ∈ build (opsOf tr) ∧
      ∀ (c : Cfg) (disk : List DiskEnt) (evs : List Ev), CfgOK c (t.st disk) → c.volatile = true →
        n ∉ (run c (t.st disk) evs).doneNodes →
        ∀ d ∈ disk, isTmp d.kind = false → refs c a d.path = true → d ∈ (run c (t.st disk) evs).disk :=
  args_present_at_start_built tr (wfOps_of_scoped sc) n ins hs b hb p a hr

/-- Whatever a binding delivers names only files among `reach env e` — the
names in the recorded values of the outputs it references; the driver
evaluates `reach` against the `_args` of real jobs (every file name in a
delivered argument must be in it). -/
theorem delivered_names_reachable (env : Env) (e : BExp) (v : Val) (h : Delivers env false e v) :
    ∀ s ∈ v.names, s ∈ reach env e :=
  delivers_reach h

/-! ### consumers that fail and are retried -/

/-- A consumer counts as done only through its completion (`nodeDone`: the
post node is found Complete or Disabled): no pass of the producer, no failure
of the consumer (`nodeFailed`) and no reset for a retry (`nodeReset`) adds it
to the done set `partialVdrKill` consults. -/
theorem done_only_by_completion (c : Cfg) (s0 : St) (evs : List Ev) :
    ∀ n ∈ (run c s0 evs).doneNodes, n ∈ s0.doneNodes ∨ Ev.nodeDone n ∈ evs :=
  run_done c s0 evs

/-- **failed_consumer_keeps_inputs.**  Under every interleaving in which
consumer `n` has not completed — however often it has failed and been reset
for a retry in between, and whatever else completed meanwhile — everything
its argument `a` references is still on disk: the retried job finds its
files at every launch. -/
theorem failed_consumer_keeps_inputs (c : Cfg) (s0 : St) (evs : List Ev) (ok : CfgOK c s0) (fr : Fresh s0)
    (hv : c.volatile = true) (a : Arg) (n : Node) (hh : Holds s0 a (some n))
    (h0 : n ∉ s0.doneNodes) (hnot : Ev.nodeDone n ∉ evs) :
    ∀ d ∈ s0.disk, isTmp d.kind = false → refs c a d.path = true → d ∈ (run c s0 evs).disk := by
  apply args_present_at_start c s0 evs ok fr hv a n hh
  intro hn
  rcases run_done c s0 evs n hn with h | h
  · exact h0 h
  · exact hnot h

/-- Counting a failed post node as done (the shape of a seeded change) is
unsafe: had the failure of `C` released its arguments the way a completion
does, `b`'s file would be gone when `C` is retried; in the model it stays. -/
theorem failure_is_not_completion :
    ((run exCfg exSt [.removeEmpty, .cacheMap, .nodeFailed "C", .kill, .nodeReset "C", .kill]).disk.map (·.path) =
      ["/p/files/a.txt".toList, "/p/files/sub".toList, "/p/files/sub/b.txt".toList]) ∧
    ((run exCfg exSt [.removeEmpty, .cacheMap, .nodeDone "C", .kill]).disk.map (·.path) =
      ["/p/files/a.txt".toList]) := by
  constructor <;> decide

/-! ### content -/

/-- **content_preserved_until_done.**  The model's entries carry the content of
the file (`DiskEnt.hash`), and no event of the language writes: as long as
consumer `n` has not completed, every entry its argument references is still
there WITH ITS CONTENT (the very same entry); likewise for what the top level
or a retain holds (`h = none`), for ever.  (A stage job writing into its files
after the fork completed is outside the event language — Martian's contract;
at run time the content of the survivors is compared through the replay's
`kepthash` and by the monitors.) -/
theorem content_preserved_until_done (c : Cfg) (s0 : St) (evs : List Ev) (ok : CfgOK c s0) (fr : Fresh s0)
    (hv : c.volatile = true) (a : Arg) (h : Holder) (hh : Holds s0 a h)
    (hn : ∀ n, h = some n → n ∉ (run c s0 evs).doneNodes) :
    (∀ d ∈ s0.disk, isTmp d.kind = false → refs c a d.path = true →
      ∃ d' ∈ (run c s0 evs).disk, d'.path = d.path ∧ d'.hash = d.hash ∧ d'.size = d.size) ∧
    (∀ d' ∈ (run c s0 evs).disk, ∃ d ∈ s0.disk, d' = d) := by
  refine ⟨?_, fun d' hd' => ⟨d', (shr_run c s0 evs).disk d' hd', rfl⟩⟩
  intro d hd ht hr
  have i := (Inv.init c s0 fr).run ok hv evs
  rcases i.split d hd with h1 | h1
  · exact ⟨d, h1, rfl, rfl, rfl⟩
  · obtain ⟨m, e, hm⟩ := i.safe d h1 ht a h hh hr
    exact absurd hm (hn m e)

/-! ### the whole pipestance -/

/-- **kill_safe_pipestance.**  All producer forks of a pipestance side by
side, their events interleaved in any way, consumer completions seen by all
of them (`grun`): after every global history every fork is exactly where its
own projection of the history takes it, and for every volatile fork whatever
it has removed below its files/ directories is referenced only by arguments
whose every holder is a consumer that has completed. -/
theorem kill_safe_pipestance (fs : List PFork) (evs : List GEv) :
    grun fs evs = fs.map (fun f => { f with st := run f.cfg f.st (proj f.id evs) }) ∧
    ∀ f ∈ fs, CfgOK f.cfg f.st → Fresh f.st → f.cfg.volatile = true →
      ∀ d ∈ (run f.cfg f.st (proj f.id evs)).removed, isTmp d.kind = false →
        ∀ a h, Holds f.st a h → refs f.cfg a d.path = true →
          ∃ n, h = some n ∧ n ∈ (run f.cfg f.st (proj f.id evs)).doneNodes :=
  ⟨grun_eq fs evs, fun f _ ok fr hv => kill_safe f.cfg f.st (proj f.id evs) ok fr hv⟩

/-- … in particular every fork of the product keeps what an unfinished
consumer's argument references, and what the top level or a retain holds. -/
theorem args_present_at_start_pipestance (fs : List PFork) (evs : List GEv) (f : PFork) (hf : f ∈ fs)
    (ok : CfgOK f.cfg f.st) (fr : Fresh f.st) (hv : f.cfg.volatile = true) (a : Arg) (h : Holder)
    (hh : Holds f.st a h) (hn : ∀ n, h = some n → n ∉ (run f.cfg f.st (proj f.id evs)).doneNodes) :
    ∃ f' ∈ grun fs evs, f'.id = f.id ∧
      ∀ d ∈ f.st.disk, isTmp d.kind = false → refs f.cfg a d.path = true → d ∈ f'.st.disk := by
  refine ⟨{ f with st := run f.cfg f.st (proj f.id evs) }, ?_, rfl, ?_⟩
  · rw [grun_eq]; exact List.mem_map.mpr ⟨f, hf, rfl⟩
  · intro d hd ht hr
    have i := (Inv.init f.cfg f.st fr).run ok hv (proj f.id evs)
    rcases i.split d hd with h1 | h1
    · exact h1
    · obtain ⟨m, e, hm⟩ := i.safe d h1 ht a h hh hr
      exact absurd hm (hn m e)

/-- **args_present_at_start_tree.**  The product system instantiated with what
the construction builds: for a scoped node tree `tr`, the forks
`build (opsOf tr)` of ALL its nodes side by side (each with its own
configuration and files), under every global history: as long as the
consuming stage `n` — a node of the same tree — has not completed (no global
`nodeDone n`), everything a file-typed reference `p.a` of one of its resolved
inputs references is still among the files of `p`'s fork in the product.
(The forks' disks are separate entry lists by construction of the model — a
fork's passes filter its own list; a shared file system is not modelled.) -/
theorem args_present_at_start_tree (tr : PTree) (known : List Node) (sc : Scoped [] tr known)
    (cfg : Node → Cfg) (disk : Node → List DiskEnt) (evs : List GEv) (n : Node) (ins : List Binding)
    (hs : HasStage tr n ins) (b : Binding) (hb : b ∈ ins) (p : Node) (a : Arg)
    (hr : (p, a, true) ∈ typedRefs b.1 b.2) :
    ∃ t, (p, t) ∈ build (opsOf tr) ∧
      (CfgOK (cfg p) (t.st (disk p)) → (cfg p).volatile = true →
        GEv.nodeDone n ∉ evs → GEv.fork p (.nodeDone n) ∉ evs →
        ∃ f' ∈ grun ((build (opsOf tr)).map fun pt => (⟨pt.1, cfg pt.1, pt.2.st (disk pt.1)⟩ : PFork)) evs,
          f'.id = p ∧ ∀ d ∈ disk p, isTmp d.kind = false → refs (cfg p) a d.path = true → d ∈ f'.st.disk) := by
  obtain ⟨t, ht, _, hh, _⟩ := consumer_registered tr (wfOps_of_scoped sc) n ins hs b hb p a hr
  refine ⟨t, ht, ?_⟩
  intro ok hv hg hl
  have hf : (⟨p, cfg p, t.st (disk p)⟩ : PFork) ∈
      (build (opsOf tr)).map fun pt => (⟨pt.1, cfg pt.1, pt.2.st (disk pt.1)⟩ : PFork) :=
    List.mem_map.mpr ⟨(p, t), ht, rfl⟩
  apply args_present_at_start_pipestance _ evs ⟨p, cfg p, t.st (disk p)⟩ hf ok ⟨rfl, rfl⟩ hv a (some n) (hh (disk p))
  intro m e hm
  cases e
  rcases run_done (cfg p) (t.st (disk p)) (proj p evs) n hm with h | h
  · cases h
  · rcases mem_proj h with ⟨m, e1, e2⟩ | h2
    · cases e1; exact hg e2
    · exact hl h2

/-! ### definitional unfoldings (documentation of the model, not guarantees) -/

/-- `cloneFork` copies the two tables (by definition of the model: a value copy; that the
real copy does not share Go maps with the original is probed on real forks, not proved). -/
theorem clone_keeps_holders (s : St) (disk : List DiskEnt) :
    (∀ a h, Holds (cloneFork s disk) a h ↔ Holds s a h) ∧ Fresh (cloneFork s disk) :=
  ⟨fun a h => cloneFork_holds s disk a h, ⟨rfl, rfl⟩⟩

/-- **args_present_on_one_disk.**  All forks over ONE file system
(`sharedDisk`: an entry is gone as soon as it lies at or below a path ANY fork
has removed).  With the forks laid out as Martian lays them out (`Layout`:
every fork's entries inside its own directory, the directories of different
forks not inside one another, ids unique — distinctness of the fork
directories of a node is `forkDir_injective` of Props/C11.lean; that they do
not nest is assumed here), under every global history: what the argument of a
holder that is not a completed consumer references in fork `q` is still on
that one disk — no pass of `q` itself (the directory of a kept file is not
removed: `refs_mono`) and no pass of any other fork takes it.  `hsep`: the
entries below files/ are not below temp entries. -/
theorem args_present_on_one_disk (dir : ForkId → Path) (fs : List PFork) (evs : List GEv)
    (lay : Layout dir fs) (q : PFork) (hq : q ∈ fs) (ok : CfgOK q.cfg q.st) (fr : Fresh q.st)
    (hv : q.cfg.volatile = true)
    (hsep : ∀ g ∈ q.st.disk, isTmp g.kind = true → ∀ d ∈ q.st.disk, isTmp d.kind = false →
      pathIsInside d.path g.path = false)
    (a : Arg) (h : Holder) (hh : Holds q.st a h)
    (hn : ∀ n, h = some n → n ∉ (run q.cfg q.st (proj q.id evs)).doneNodes) :
    ∀ d ∈ q.st.disk, isTmp d.kind = false → refs q.cfg a d.path = true → d ∈ sharedDisk fs evs := by
  intro d hd ht hr
  unfold sharedDisk
  rw [List.mem_filter]
  refine ⟨List.mem_flatMap.mpr ⟨q, hq, hd⟩, ?_⟩
  rw [Bool.not_eq_true', List.any_eq_false]
  intro f hf
  rw [Bool.not_eq_true, List.any_eq_false]
  intro g hg
  rw [Bool.not_eq_true]
  by_cases hid : f.id = q.id
  · have e := lay.uniq f hf q hq hid
    subst e
    have i := (Inv.init f.cfg f.st fr).run ok hv (proj f.id evs)
    have hg0 : g ∈ f.st.disk := i.rsub g hg
    cases hin : pathIsInside d.path g.path with
    | false => rfl
    | true =>
      exfalso
      cases hgt : isTmp g.kind with
      | true => have := hsep g hg0 hgt d hd ht; rw [hin] at this; cases this
      | false =>
        have hrg : refs f.cfg a g.path = true :=
          refs_mono (ok.cleanD d hd) (ok.cleanD g hg0) (ok.noDbl d hd) (ok.noDbl g hg0) (ok.cleanF a) hin hr
        obtain ⟨m, e, hm⟩ := i.safe g hg hgt a h hh hrg
        exact hn m e hm
  · exact no_cross_fork_removal lay evs hf hq hid g hg d hd

/-! ### non-vacuity -/

/-- two forks on one disk in their own directories: a history in which both run their passes;
`P2` completes its consumer, `P1` does not; `P1`'s held files are on the shared disk -/
example :
    let c1 : Cfg := { volatile := true, strict := true, splits := false
                      argNames := [("a", ["/ps/P/fork1/files/a".toList])], argFiles := [("a", ["/ps/P/fork1/files/a".toList])]
                      initArgs := [("a", [some "C"])], initPost := [("C", ["a"])] }
    let c2 : Cfg := { c1 with argNames := [("a", ["/ps/P/fork2/files/a".toList])], argFiles := [("a", ["/ps/P/fork2/files/a".toList])] }
    let s1 : St := { fileArgs := [("a", [some "C"])], postNodes := [("C", ["a"])],
                     disk := [⟨"/ps/P/fork1/files/a".toList, 1, .out, [], 7⟩, ⟨"/ps/P/fork1/files/junk".toList, 2, .out, [], 8⟩] }
    let s2 : St := { s1 with disk := [⟨"/ps/P/fork2/files/a".toList, 1, .out, [], 9⟩] }
    let fs : List PFork := [⟨"P.fork1", c1, s1⟩, ⟨"P.fork2", c2, s2⟩]
    let evs : List GEv := [.fork "P.fork1" .cacheMap, .fork "P.fork2" .cacheMap, .fork "P.fork1" .kill, .fork "P.fork2" .kill]
    (sharedDisk fs evs).map (·.path) = ["/ps/P/fork1/files/a".toList, "/ps/P/fork2/files/a".toList] ∧
    (sharedDisk fs (evs ++ [.nodeDone "C", .fork "P.fork2" .kill])).map (·.path) = ["/ps/P/fork1/files/a".toList] := by
  decide

/-- a nested tree: `TOP` calls `P`, the sub-pipeline `SUB` (not top-level, retaining `P.keep`)
with the consumers `C1` (bound to a split of `P.xs`) and `C2` (bound to the struct field
`P.bag.f` inside a struct literal, and to the integer `P.bag.n`), and returns `SUB.C2.o` -/
def bigTree : PTree :=
  .pipe "TOP" true []
    (.stage "P" [] []
      (.pipe "SUB" false []
        (.stage "C1" [(.split false (.ref "P" "xs"), .prim true)] []
          (.stage "C2" [(.map (.cons "f" (.ref "P" "bag.f") (.cons "n" (.ref "P" "bag.n") .nil)),
                          .struct (.mcons "f" (.prim true) (.mcons "n" (.prim false) .mnil)))] [] .nil))
        [] [("P", "keep")] .nil))
    [(.map (.cons "o" (.ref "C2" "o") .nil), .struct (.mcons "o" (.prim true) .mnil))] [] .nil

/-- the nested tree is scoped; `P` gets both consumers, the pipeline-level retain and not the
integer projection; and a run on the BUILT table of `P`: `bag.f`'s file stays while `C2` has
not completed — through a restart — and goes afterwards, `keep`'s file stays -/
example :
    (scopedB [] bigTree).isSome = true ∧
    HasStage bigTree "C2" [(.map (.cons "f" (.ref "P" "bag.f") (.cons "n" (.ref "P" "bag.n") .nil)),
                          .struct (.mcons "f" (.prim true) (.mcons "n" (.prim false) .mnil)))] ∧
    HasRetain bigTree "P" "keep" ∧
    ((build (opsOf bigTree)).lookup "P").map (·.fileArgs) =
      some [("xs", [some "C1"]), ("bag.f", [some "C2"]), ("keep", [none])] ∧
    (let t := ((build (opsOf bigTree)).lookup "P").getD {}
     let c : Cfg := { volatile := true, strict := true, splits := false
                      argNames := [("xs", ["/p/f/x0".toList]), ("bag.f", ["/p/f/b".toList]), ("keep", ["/p/f/k".toList])]
                      argFiles := [("xs", ["/p/f/x0".toList]), ("bag.f", ["/p/f/b".toList]), ("keep", ["/p/f/k".toList])]
                      initArgs := t.fileArgs, initPost := t.postNodes }
     let s := t.st [⟨"/p/f/x0".toList, 1, .out, [], 0⟩, ⟨"/p/f/b".toList, 2, .out, [], 0⟩, ⟨"/p/f/k".toList, 3, .out, [], 0⟩,
                    ⟨"/p/f/junk".toList, 4, .out, [], 0⟩]
     (run c s [.removeEmpty, .cacheMap, .kill, .nodeDone "C1", .restart, .kill]).disk.map (·.path) =
       ["/p/f/b".toList, "/p/f/k".toList] ∧
     (run c s [.removeEmpty, .cacheMap, .kill, .nodeDone "C1", .restart, .kill, .nodeDone "C2", .kill]).disk.map (·.path) =
       ["/p/f/k".toList]) := by
  refine ⟨by decide, .child (.next (.child (.next .here))), .child (.next (.pipe (by simp))), by decide, by decide⟩

/-- two forks, interleaved: the completion of `C` is seen by both -/
example :
    let fs : List PFork := [⟨"P1", exCfg, exSt⟩, ⟨"P2", exCfg, exSt⟩]
    let evs : List GEv := [.fork "P1" .removeEmpty, .fork "P2" .cacheMap, .fork "P1" .cacheMap, .fork "P1" .kill,
                           .nodeDone "C", .fork "P2" .kill]
    proj "P1" evs = [.removeEmpty, .cacheMap, .kill, .nodeDone "C"] ∧
    proj "P2" evs = [.cacheMap, .nodeDone "C", .kill] ∧
    (grun fs evs).map (fun f => f.st.disk.length) = [3, 1] := by
  refine ⟨rfl, rfl, by decide⟩


/-- the construction hypotheses are satisfiable and the conclusions are not
vacuous: `B` is registered for `A.o` (a file) but not for `A.n` (an int), the
top level holds `B.o`, the retain holds `A.r` -/
example :
    wfOps [] [] (opsOf exTree) = true ∧
    HasStage exTree "B" [(.ref "A" "o", .prim true), (.ref "A" "n", .prim false)] ∧
    HasRetain exTree "A" "r" ∧
    ((build (opsOf exTree)).lookup "A").map (·.fileArgs) = some [("r", [none]), ("o", [some "B"])] ∧
    ((build (opsOf exTree)).lookup "A").map (·.postNodes) = some [("B", ["o"])] ∧
    ((build (opsOf exTree)).lookup "B").map (·.fileArgs) = some [("o", [none])] := by
  refine ⟨by decide, .child (.next .here), .child (.stage (by simp)), by decide, by decide, by decide⟩

/-- the example tree is scoped -/
example : scopedB [] exTree = some ["TOP", "B", "A"] := by decide

/-- delivery: a split of a reference delivers an element of what a fork produced, a merge collects -/
example :
    let env : Env := fun n o => if n = "P" ∧ o = "xs" then [.arr (.vcons "" (.str "/p/f1") (.vcons "" (.str "/p/f2") .vnil))] else []
    Delivers env false (.split false (.ref "P" "xs")) (.str "/p/f2") ∧
    Delivers env false (.merge (.split false (.ref "P" "xs"))) (.arr (.vcons "" (.str "/p/f1") .vnil)) := by
  intro env
  have h : Delivers env false (.ref "P" "xs") (.arr (.vcons "" (.str "/p/f1") (.vcons "" (.str "/p/f2") .vnil))) :=
    .ref (by simp [env])
  exact ⟨.splitArr h (.there .here), .mergeArr (.allCons (by decide) (.splitArr h .here) .allNil)⟩

/-- values: names are found in strings and keys at any depth; an `int[]` value names nothing -/
example :
    (Val.obj (.vcons "/p/k" (.arr (.vcons "" (.str "/p/f") (.vcons "" (.str "rel") .vnil))) .vnil)).names
      = ["/p/k", "/p/f"] ∧
    conforms (.arr (.vcons "" .atom (.vcons "" .null .vnil))) (.arr (.prim false)) = true ∧
    wellTyped (.map (.cons "f" (.ref "P" "x") .nil)) (.struct (.mcons "f" (.prim true) .mnil)) = true := by decide

/-- the typed walk: a struct literal bound at a struct type, a split, a merge -/
example :
    typedRefs (.map (.cons "f" (.ref "P" "x") (.cons "n" (.ref "P" "y") .nil)))
      (.struct (.mcons "f" (.prim true) (.mcons "n" (.prim false) .mnil))) = [("P", "x", true), ("P", "y", false)] ∧
    typedRefs (.split false (.ref "P" "xs")) (.prim true) = [("P", "xs", true)] ∧
    typedRefs (.merge (.ref "P" "x")) (.arr (.prim true)) = [("P", "x", true)] := by decide


/-- the hypotheses of `kill_safe` are satisfiable -/
example : CfgOK exCfg exSt ∧ Fresh exSt ∧ exCfg.volatile = true :=
  ⟨cfgOKB_sound (by decide), ⟨rfl, rfl⟩, rfl⟩

/-- a raw spelling with a trailing separator next to its cleaned form is admitted by `CfgOK`
(what `getLogicalFileNames` returns for an output spelled `…/outdir/`), and the directory is
kept while the consumer has not completed -/
example :
    let c : Cfg := { volatile := true, strict := true, splits := false
                     argNames := [("d", ["/p/files/outdir/".toList])]
                     argFiles := [("d", ["/p/files/outdir/".toList, "/p/files/outdir".toList])]
                     initArgs := [("d", [some "C"])], initPost := [("C", ["d"])] }
    let s : St := { fileArgs := [("d", [some "C"])], postNodes := [("C", ["d"])],
                    disk := [⟨"/p/files/outdir".toList, 4096, .out, [], 0⟩, ⟨"/p/files/outdir/x".toList, 1, .out, [], 0⟩,
                             ⟨"/p/files/junk".toList, 2, .out, [], 0⟩] }
    cfgOKB c s = true ∧
    (run c s [.removeEmpty, .cacheMap, .kill]).disk.map (·.path) = ["/p/files/outdir".toList, "/p/files/outdir/x".toList] := by
  decide

/-- … and the conclusion is not vacuous: while `C` runs a kill removes the
scratch file only; once `C` is done, `b`'s file and directory go as well and
`a`'s file (top level) stays. -/
example :
    ((run exCfg exSt [.removeEmpty, .cacheMap, .kill]).removed.map (·.path) =
        ["/p/tmp/t".toList, "/p/files/scratch".toList]) ∧
    ((run exCfg exSt [.removeEmpty, .cacheMap, .kill, .nodeDone "C", .kill]).disk.map (·.path) =
        ["/p/files/a.txt".toList]) := by
  constructor <;> decide

/-- links, chains, unclean link texts, and a linked parent directory: the model
computes what the code computes -/
example :
    let fs : List FsEnt :=
      [⟨"/p".toList, none⟩, ⟨"/p/f".toList, none⟩, ⟨"/p/f/real".toList, none⟩,
       ⟨"/p/f/lnk".toList, some "/p/f/real//x".toList⟩, ⟨"/p/f/real/x".toList, some "y".toList⟩,
       ⟨"/p/f/real/y".toList, none⟩, ⟨"/p/f/current".toList, some "real".toList⟩]
    logicalNames fs "/p/f/./lnk".toList
      = ["/p/f/./lnk".toList, "/p/f/lnk".toList, "/p/f/real/y".toList, "/p/f/real/x".toList,
         "/p/f/real//x".toList] ∧
    logicalNames fs "/p/f/current/y".toList = ["/p/f/current/y".toList, "/p/f/real/y".toList] := by decide

end Props.C04
