/-
C12 — resource limits are never exceeded and never stall the pipestance.
PROPERTY THEOREMS ONLY (helper lemmas live in Proofs/Semaphore*.lean).

Model: Martian/Semaphore.lean — `step` is one call of the exported
ResourceSemaphore API exactly as resource_semaphore.go does it; `run` is an
arbitrary op sequence (every prefix of it is again an op sequence, so a theorem
about the state after `run` is a theorem about every instant).  `grun` is the
same under the client protocol "a caller releases what it was granted"
(`Enqueue`'s deferred releases), with the ghost list `held` of current holders.
-/
import Martian.Semaphore
import Proofs.Semaphore
import Proofs.SemaphoreRun
import Proofs.SemaphoreMJ
import Proofs.SemaphoreNest
import Gen.Facts

namespace Props.C12
open Martian.Semaphore

/-! ## ResourceSemaphore: every sequence of API calls -/

/-- **A grant is only made when it fits the then-current availability.**  Any
call (Acquire fast path, Release, UpdateActual/Size/FreeUsed) that grants at
least one request leaves `reserved ≤ curSize`; all amounts, any state. -/
theorem grant_fits (s : Sem) (op : SemOp) (h : grantsOf (step s op).2 ≠ []) :
    (step s op).1.reserved ≤ (step s op).1.cur :=
  step_fits s op h

/-- **Grants are made in request order (FIFO).**  For every op sequence on a
fresh semaphore: the requests granted so far, in the order they were granted,
followed by the queue, are exactly the accepted (not rejected) requests in the
order they were made.  Nobody overtakes, nobody is dropped or duplicated. -/
theorem fifo_grants (size : Int) (ops : List SemOp) :
    grantsOf (run (Sem.init size) ops).2 ++ (run (Sem.init size) ops).1.waiters
      = acceptedRun (Sem.init size) ops := by
  simpa [Sem.init] using run_fifo (Sem.init size) ops

/-- **No lost wake-up.**  After every op sequence in which `Release` did not
panic: the queue is empty or its head does not fit the free capacity. -/
theorem no_lost_wakeup (size : Int) (ops : List SemOp)
    (hp : hasPanic (run (Sem.init size) ops).2 = false) :
    match (run (Sem.init size) ops).1.waiters with
    | [] => True
    | w :: _ => (run (Sem.init size) ops).1.cur - (run (Sem.init size) ops).1.reserved < w.2 :=
  run_noLost (Sem.init size) ops (by simp [NoLost, Sem.init]) hp

/-- **The oldest waiter is granted whenever it fits.**  For any call made while
`w` is the oldest waiter: either `w` is the first request granted by this call,
or `w` is still the oldest waiter and does not fit the capacity left after the
call. -/
theorem head_granted_when_fits (s : Sem) (op : SemOp) (w : Waiter) (ws : List Waiter)
    (hw : s.waiters = w :: ws) (hs : NoLost s) (hp : hasPanic (step s op).2 = false) :
    (∃ g, grantsOf (step s op).2 = w :: g) ∨
    (∃ ws', (step s op).1.waiters = w :: ws' ∧ (step s op).1.cur - (step s op).1.reserved < w.2) := by
  have hf := step_fifo s op
  have hn := step_noLost s op hs hp
  rw [hw] at hf
  cases hg : grantsOf (step s op).2 with
  | nil =>
    right
    rw [hg] at hf; simp only [List.nil_append, List.cons_append] at hf
    refine ⟨_, hf, ?_⟩
    unfold NoLost at hn; rw [hf] at hn; exact hn
  | cons g gs =>
    left
    rw [hg] at hf; simp only [List.cons_append, List.cons.injEq] at hf
    exact ⟨gs, by rw [hf.1]⟩

/-- **Upper bound, as the code guarantees it.**  `reserved ≤ maxSize` and
`curSize ≤ maxSize` after every op sequence whose releases hand back
non-negative amounts and whose `UpdateSize` calls do not exceed the maximum
(the only call site passes `rlimCur ≤ rlimMax`).  Acquire amounts, UpdateActual
and UpdateFreeUsed arguments are arbitrary.

Full statement (false): the same without the `updSize n ≤ max` restriction —
see `updSize_above_max_breaks_bound`. -/
theorem reserved_le_max_partial (size : Int) (hs : 0 ≤ size) (ops : List SemOp)
    (hop : ∀ op ∈ ops, OpOK size op) :
    (run (Sem.init size) ops).1.reserved ≤ size ∧ (run (Sem.init size) ops).1.cur ≤ size := by
  have := run_bounded (Sem.init size) ops ⟨by simp [Sem.init], by simpa [Sem.init] using hs⟩
    (by simpa [Sem.init] using hop)
  rw [Bounded, run_max] at this
  exact ⟨this.2, this.1⟩

/-- Negative witness: `UpdateSize(n)` with `n > maxSize` is not clamped (unlike
UpdateActual / UpdateFreeUsed), after which more than `maxSize` can be reserved. -/
theorem updSize_above_max_breaks_bound :
    (run (Sem.init 10) [.updSize 20, .acquire 1 15]).1.reserved > 10 := by decide

/-- Negative witness for "reserved never exceeds what is currently available":
availability may be lowered under what is already reserved (this is intended:
the reservation is kept, further grants wait). -/
theorem update_may_lower_cur_below_reserved :
    (run (Sem.init 10) [.acquire 1 8, .updFreeUsed 0 0]).1.cur
      < (run (Sem.init 10) [.acquire 1 8, .updFreeUsed 0 0]).1.reserved := by decide

/-! ## The client protocol (callers release exactly what they were granted) -/

/-- **Bookkeeping identity.**  After every sequence of client ops (any amounts,
any updates): `reserved` is the sum of what the current holders hold. -/
theorem reserved_eq_sum_held (size : Int) (ops : List COp) :
    (grun (G.init size) ops).1.sem.reserved = sumAmt (grun (G.init size) ops).1.held := by
  suffices h : ∀ g : G, g.sem.reserved = sumAmt g.held →
      (grun g ops).1.sem.reserved = sumAmt (grun g ops).1.held from h _ rfl
  induction ops with
  | nil => intro g h; exact h
  | cons op ops ih =>
    intro g h
    rw [grun_cons]
    apply ih
    simp only [gstep]
    cases ht : toSemOp g op with
    | none => simpa using h
    | some oh =>
      obtain ⟨o, hd⟩ := oh
      simp only [sumAmt_append]
      rw [step_reserved, h]
      cases op with
      | acquire id n => simp only [toSemOp, Option.some.injEq, Prod.mk.injEq] at ht; rw [← ht.1, ← ht.2]; simp [releasedBy]
      | release id =>
        simp only [toSemOp] at ht
        cases hf : findHeld id g.held with
        | none => rw [hf] at ht; simp at ht
        | some w =>
          rw [hf] at ht
          simp only [Option.some.injEq, Prod.mk.injEq] at ht
          rw [← ht.1, ← ht.2, sumAmt_eraseHeld id g.held w hf]; simp [releasedBy]
      | updActual n => simp only [toSemOp, Option.some.injEq, Prod.mk.injEq] at ht; rw [← ht.1, ← ht.2]; simp [releasedBy]
      | updSize n => simp only [toSemOp, Option.some.injEq, Prod.mk.injEq] at ht; rw [← ht.1, ← ht.2]; simp [releasedBy]
      | updFreeUsed f u => simp only [toSemOp, Option.some.injEq, Prod.mk.injEq] at ht; rw [← ht.1, ← ht.2]; simp [releasedBy]

/-- Clients that request non-negative amounts never trigger the
"semaphore: bad release" panic, and the no-lost-wake-up invariant holds after
every op sequence. -/
theorem client_never_panics_and_no_lost_wakeup (size : Int) (ops : List COp)
    (hop : ∀ op ∈ ops, op.reqNonneg) :
    hasPanic (grun (G.init size) ops).2 = false ∧ NoLost (grun (G.init size) ops).1.sem := by
  obtain ⟨g, p, _⟩ := grun_inv (G.init size) ops (good_init size) hop
  exact ⟨p, g.noLost⟩

/-- **Limits are never exceeded**: under the client protocol with non-negative
requests (and `UpdateSize ≤ max`), the sum of what the current holders hold is
at most `maxSize` at every instant. -/
theorem held_le_max_partial (size : Int) (hs : 0 ≤ size) (ops : List COp)
    (hop : ∀ op ∈ ops, op.reqNonneg) (hsz : ∀ op ∈ ops, op.sizeOK size) :
    sumAmt (grun (G.init size) ops).1.held ≤ size := by
  have hb := grun_bounded (G.init size) ops (good_init size)
    ⟨by simp [G.init, Sem.init], by simpa [G.init, Sem.init] using hs⟩ hop
    (by simpa [G.init, Sem.init] using hsz)
  obtain ⟨_, _, hm⟩ := grun_inv (G.init size) ops (good_init size) hop
  rw [← reserved_eq_sum_held]
  have := hb.2
  rw [hm] at this
  simpa [G.init, Sem.init] using this

/-- **No stall.**  In any state reachable by clients with non-negative
requests: if every holder has released (`held = []`) and availability is back
at the maximum, nobody is left waiting. -/
theorem no_stall (size : Int) (ops : List COp) (hop : ∀ op ∈ ops, op.reqNonneg)
    (hidle : (grun (G.init size) ops).1.held = [])
    (hfull : (grun (G.init size) ops).1.sem.cur = (grun (G.init size) ops).1.sem.max) :
    (grun (G.init size) ops).1.sem.waiters = [] := by
  obtain ⟨g, _, _⟩ := grun_inv (G.init size) ops (good_init size) hop
  have hb := g.book
  simp only at hb
  rw [hidle] at hb; simp only [sumAmt] at hb
  have hn := g.noLost
  unfold NoLost at hn
  cases hw : (grun (G.init size) ops).1.sem.waiters with
  | nil => rfl
  | cons w ws =>
    exfalso
    simp only [hw] at hn
    have hl := g.waitLe w (by simp only; rw [hw]; simp)
    simp only at hl
    omega

/-- **Progress.**  From any state reachable by clients with non-negative
requests, `k ≥ queue length` "drain rounds" (availability restored to the
maximum, all current holders release; no new requests) empty the queue: every
waiter — all of which asked for at most `maxSize` — is eventually granted. -/
theorem progress (size : Int) (ops : List COp) (hop : ∀ op ∈ ops, op.reqNonneg) (k : Nat)
    (hk : (grun (G.init size) ops).1.sem.waiters.length ≤ k) :
    (drain k ((grun (G.init size) ops).1.sem, (grun (G.init size) ops).1.held)).1.waiters = [] :=
  drain_empty k _ (grun_inv (G.init size) ops (good_init size) hop).1 hk

/-- In each drain round nobody is dropped and, unless the queue is already
empty, at least the oldest waiter is granted. -/
theorem progress_round (size : Int) (ops : List COp) (hop : ∀ op ∈ ops, op.reqNonneg) :
    let p := ((grun (G.init size) ops).1.sem, (grun (G.init size) ops).1.held)
    (round p).2 ++ (round p).1.waiters = p.1.waiters ∧
    ((round p).1.waiters = [] ∨ (round p).2 ≠ []) := by
  have := round_facts _ (grun_inv (G.init size) ops (good_init size) hop).1
  exact ⟨this.2.2.1, this.2.2.2⟩

/-! ## Nested acquisition of a local job (cores → memory → vmem → processes) -/

/-- **No deadlock among the nested semaphores.**  Take any list of semaphores
acquired in list order, each in a state reachable by well-behaved clients
(`Good`) with availability at the maximum, whose holders have the shape that
hold-and-wait in one global order produces (`Disciplined`: a holder of one
semaphore holds all later ones or is queued on a later one; holders of later
semaphores hold the earlier ones).  If no job runs (nobody holds them all),
then nobody waits on any of them: "all jobs blocked, none running" is
impossible.

Partial: that every instant of `LocalJobManager.Enqueue` with no job between
two `Acquire` calls is `Disciplined` is not proved here; it rests on the shape
of `Enqueue` (one acquisition order — regenerated obligation
`acquire_order_ok` —, releases deferred until the job has run) and is
monitored on real jobs by the harness (`C12:local:stall`). -/
theorem ordered_acquisition_no_deadlock_partial (ps : List (Sem × List Waiter))
    (hg : ∀ p ∈ ps, Good p ∧ p.1.cur = p.1.max) (hd : Disciplined ps)
    (hnorun : ∀ id, ¬ ∀ p ∈ ps, id ∈ hid p) : ∀ p ∈ ps, p.1.waiters = [] :=
  nested_queues_empty ps hg hd hnorun

/-! ## MaxJobsSemaphore -/

/-- **In cluster mode at most `limit` jobs hold the semaphore**, and each job
at most once, after every sequence of Acquire attempts (blocking or not, any
metadata state), Release, FindDone and Clear. -/
theorem maxjobs_le_limit (L : Int) (hL : 0 ≤ L) (ops : List MJOp) :
    (((MJ.init L).run ops).running.length : Int) ≤ L ∧ ((MJ.init L).run ops).running.Nodup := by
  have := MJ.run_inv L ops (MJ.init L) (MJ.init_inv L hL) hL
  exact ⟨this.le, this.nodup⟩

/-- A job that is still queued/waiting is admitted as soon as there is room. -/
theorem maxjobs_admits_when_room (s : MJ) (id : Nat) (st : MdState) (nb : Bool)
    (hst : st.cancelled = false) (hroom : (s.running.length : Int) < s.limit) :
    (s.attempt id st nb).2 = some true ∧ id ∈ (s.attempt id st nb).1.running := by
  unfold MJ.attempt
  have hn : ¬ (s.limit ≤ (s.running.length : Int)) := by omega
  rw [if_neg (by simp [hst]), if_neg hn]
  refine ⟨rfl, ?_⟩
  by_cases hc : s.running.contains id = true
  · rw [if_pos hc]; simpa using hc
  · rw [if_neg hc]; simp

/-! ## GetSystemReqs / Enqueue (after float → integer conversion) -/

/-- **Requests are clamped to the limits** — zero, negative ("adaptive") and
oversized requests alike; the normalised amounts are positive.  For vmem the
code guarantees `≤ maxVmemMB` or `= mem` only (see the witness below). -/
theorem clamp_le_limits (c : LocalCfg) (hc : Sane c) (memCur vmemCur : Int) (r : Req) :
    let n := normalize c memCur vmemCur r
    0 < n.centi ∧ n.centi ≤ c.maxCores * 100 ∧
    0 < n.memMb ∧ n.memMb ≤ c.maxMemGB * 1024 ∧
    (0 < c.maxVmemMB → 0 < n.vmemMb ∧ (n.vmemMb ≤ c.maxVmemMB ∨ n.vmemMb = n.memMb)) := by
  have hcen := normCenti_bounds c hc r.centi
  have hm0 := reqMem0_pos c hc memCur r.memMb
  have hm := capTo_bounds (c.maxMemGB * 1024) _ (by have := hc.2.1; omega) hm0
  simp only [normalize]
  refine ⟨hcen.1, hcen.2, hm.1, hm.2.1, ?_⟩
  intro hv
  have := reqV_bounds c hc hv vmemCur _ _ r.vmemMb hm0 hm.1
  exact ⟨this.1, this.2.1⟩

/-- **A clamped job is never refused by the core and memory semaphores**: the
amounts `Enqueue` acquires are within `maxSize` of the semaphores
`setupSemaphores` creates (`maxCores*100`, `maxMemGB*1024`), so `Acquire`
cannot return its "Tried to acquire …" error, whatever the queue state. -/
theorem cores_mem_never_rejected (c : LocalCfg) (hc : Sane c) (memCur vmemCur : Int) (r : Req)
    (sc sm : Sem) (hsc : sc.max = c.maxCores * 100) (hsm : sm.max = c.maxMemGB * 1024) (id : Nat) :
    let a := acquireAmounts (normalize c memCur vmemCur r)
    Ev.reject id a.1 ∉ (step sc (.acquire id a.1)).2 ∧
    Ev.reject id a.2.1 ∉ (step sm (.acquire id a.2.1)).2 := by
  have h := clamp_le_limits c hc memCur vmemCur r
  simp only at h
  obtain ⟨_, h2, _, h4, _⟩ := h
  have key : ∀ (s : Sem) (n : Int), n ≤ s.max → Ev.reject id n ∉ (step s (.acquire id n)).2 := by
    intro s n hn
    simp only [step]
    by_cases hf : n ≤ s.cur - s.reserved ∧ s.waiters.isEmpty = true
    · rw [if_pos hf]; simp
    · rw [if_neg hf, if_neg (by omega)]; simp
  simp only [acquireAmounts]
  exact ⟨key sc _ (by omega), key sm _ (by omega)⟩

/-- vmem: never refused when the vmem limit is not below the memory limit.
Full statement (false): without `hvm` — see `vmem_floor_exceeds_limit`. -/
theorem vmem_never_rejected_partial (c : LocalCfg) (hc : Sane c) (memCur vmemCur : Int) (r : Req)
    (hv : 0 < c.maxVmemMB) (hvm : c.maxMemGB * 1024 ≤ c.maxVmemMB) :
    (acquireAmounts (normalize c memCur vmemCur r)).2.2.1 ≤ c.maxVmemMB := by
  have h := clamp_le_limits c hc memCur vmemCur r
  simp only at h
  obtain ⟨_, _, _, h4, h5⟩ := h
  obtain ⟨hp, hle⟩ := h5 hv
  simp only [acquireAmounts]
  rw [Int.tdiv_eq_ediv_of_nonneg (by omega)]
  omega

/-- Negative witness (`--localmem 4 --localvmem 2`, a 3 GB job): after clamping
vmem to the 2048 MB limit the code raises it back to the memory request
(`if vmemMb > 0 && vmemMb < memMb { vmemMb = memMb }`), and `Acquire(3072)` on
the 2048 MB vmem semaphore returns the error — the job fails instead of being
clamped. -/
theorem vmem_floor_exceeds_limit :
    let c : LocalCfg := ⟨4, 4, 2048, 1, 1, 0⟩
    let a := acquireAmounts (normalize c 4096 2048 ⟨100, 3072, 0⟩)
    a.2.2.1 = 3072 ∧ (step (Sem.init 2048) (.acquire 1 a.2.2.1)).2 = [Ev.reject 1 3072] := by decide

/-- `GetSystemReqs` is applied twice on the way to `Acquire` (`getJobReqs`, then
`Enqueue`): the second application changes nothing. -/
theorem normalize_idempotent (c : LocalCfg) (hc : Sane c) (m1 v1 m2 v2 : Int) (r : Req) :
    normalize c m2 v2 (normalize c m1 v1 r) = normalize c m1 v1 r := by
  have hcen := normCenti_bounds c hc r.centi
  have hm0 := reqMem0_pos c hc m1 r.memMb
  have hm := capTo_bounds (c.maxMemGB * 1024) _ (by have := hc.2.1; omega) hm0
  simp only [normalize, Req.mk.injEq]
  have e1 : reqMem0 c m2 (capTo (c.maxMemGB * 1024) (reqMem0 c m1 r.memMb))
      = capTo (c.maxMemGB * 1024) (reqMem0 c m1 r.memMb) := reqMem0_fix c m2 _ hm.1
  have e2 : capTo (c.maxMemGB * 1024) (capTo (c.maxMemGB * 1024) (reqMem0 c m1 r.memMb))
      = capTo (c.maxMemGB * 1024) (reqMem0 c m1 r.memMb) := capTo_fix _ _ hm.2.1
  refine ⟨normCenti_fix c _ hcen.1 hcen.2, ?_, ?_⟩
  · rw [e1, e2]
  · rw [e1, e2]
    by_cases hv : 0 < c.maxVmemMB
    · have hb := reqV_bounds c hc hv v1 _ _ r.vmemMb hm0 hm.1
      simp only at hb
      exact reqV_fix c v2 _ _ _ (by omega) (fun _ => hb) (fun h => absurd hv h)
    · have hb := reqV_nolimit c hv v1 (reqMem0 c m1 r.memMb)
        (capTo (c.maxMemGB * 1024) (reqMem0 c m1 r.memMb)) r.vmemMb
      simp only at hb
      by_cases hz : reqV3 (capTo (c.maxMemGB * 1024) (reqMem0 c m1 r.memMb))
          (reqV2 c (reqV1 c v1 (reqV0 c (reqMem0 c m1 r.memMb) r.vmemMb))) = 0
      · -- vmem normalised to 0 (only without a vmem semaphore): not a fixed point in general
        exfalso
        have hne : reqV0 c (reqMem0 c m1 r.memMb) r.vmemMb ≠ 0 := by
          unfold reqV0; have := hc.2.2.2.2; split <;> omega
        generalize reqV0 c (reqMem0 c m1 r.memMb) r.vmemMb = a at hne hz
        have h1 : reqV1 c v1 a = a := by
          unfold reqV1
          by_cases hn : a < 0
          · rw [if_pos hn, if_neg (by omega)]
          · rw [if_neg hn]
        have h2 : reqV2 c a = a := by unfold reqV2; split <;> omega
        rw [h1, h2] at hz
        unfold reqV3 at hz
        split at hz <;> omega
      · exact reqV_fix c v2 _ _ _ hz (fun h => absurd h hv) (fun _ => hb)

/-! ## Regenerated obligations (jobmanager_local.go as it is now) -/

/-- Every local job takes the semaphores in one and the same order
(cores → memory → vmem → processes), the order `acquireAmounts` lists them in;
fails on a tree whose `Enqueue` acquires in another order. -/
theorem acquire_order_ok :
    Gen.localAcquireOrder = ["centcoreSem", "memMBSem", "vmemMBSem", "procsSem"] := by decide

/-- the per-job process estimate constant used by the model is the one in the source -/
theorem procs_per_job_ok : Gen.localProcsPerJob = procsPerJob := by decide

/-! ## Non-vacuity -/

/-- a run with blocking, FIFO hand-over, an availability drop and a restore:
no panic, three requests accepted, all granted in order -/
example :
    let ops : List SemOp := [.acquire 1 6, .acquire 2 5, .acquire 3 4, .updActual 0,
                             .release 6, .updSize 10, .release 5]
    hasPanic (run (Sem.init 10) ops).2 = false ∧
    grantsOf (run (Sem.init 10) ops).2 = [(1, 6), (2, 5), (3, 4)] ∧
    (∀ op ∈ ops, OpOK 10 op) := by dsimp only; decide

/-- client ops with non-negative requests reaching a state with holders and waiters -/
example :
    let ops : List COp := [.acquire 1 6, .acquire 2 5, .acquire 3 4]
    (∀ op ∈ ops, op.reqNonneg) ∧ (∀ op ∈ ops, op.sizeOK 10) ∧
    (grun (G.init 10) ops).1.held = [(1, 6)] ∧
    (grun (G.init 10) ops).1.sem.waiters = [(2, 5), (3, 4)] ∧
    (drain 2 ((grun (G.init 10) ops).1.sem, (grun (G.init 10) ops).1.held)).1.waiters = [] := by
  dsimp only; decide

/-- `head_granted_when_fits` hypotheses are satisfiable, both outcomes occur -/
example : NoLost ⟨10, 10, 6, [(2, 5)]⟩ ∧
    grantsOf (step ⟨10, 10, 6, [(2, 5)]⟩ (.release 6)).2 = [(2, 5)] ∧
    (step ⟨10, 10, 6, [(2, 5)]⟩ (.release 0)).1.waiters = [(2, 5)] := by decide

/-- `no_stall` hypotheses are satisfiable -/
example :
    let ops : List COp := [.acquire 1 6, .acquire 2 5, .release 1, .release 2]
    (∀ op ∈ ops, op.reqNonneg) ∧ (grun (G.init 10) ops).1.held = [] ∧
    (grun (G.init 10) ops).1.sem.cur = (grun (G.init 10) ops).1.sem.max := by dsimp only; decide

/-- `ordered_acquisition_no_deadlock_partial`: the hypotheses hold for an idle
system, and `Disciplined` also admits busy states (job 1 runs holding both
semaphores, job 2 holds the first and is queued on the second). -/
example :
    (∀ p ∈ [(Sem.init 4, ([] : List Waiter)), (Sem.init 8, [])], Good p ∧ p.1.cur = p.1.max) ∧
    Disciplined [(Sem.init 4, []), (Sem.init 8, [])] ∧
    (∀ id, ¬ ∀ p ∈ [(Sem.init 4, ([] : List Waiter)), (Sem.init 8, [])], id ∈ hid p) ∧
    Disciplined [(⟨4, 4, 4, []⟩, [(1, 2), (2, 2)]), (⟨8, 8, 6, [(2, 5)]⟩, [(1, 6)])] := by
  refine ⟨?_, ?_, ?_, ?_⟩
  · intro p hp
    simp only [List.mem_cons, List.not_mem_nil, or_false] at hp
    rcases hp with h | h <;> subst h <;> exact ⟨good_fresh _, rfl⟩
  · simp [Disciplined, hid]
  · intro id h; have := h (Sem.init 4, []) (by simp); simp [hid] at this
  · simp [Disciplined, hid, wid]

/-- a sane configuration; zero, adaptive and oversized requests -/
example : Sane ⟨4, 8, 16384, 1, 1, 3⟩ ∧
    normalize ⟨4, 8, 16384, 1, 1, 3⟩ 8192 16384 ⟨0, 0, 0⟩ = ⟨100, 1024, 4096⟩ ∧
    normalize ⟨4, 8, 16384, 1, 1, 3⟩ 6000 16384 ⟨-100, -2048, 0⟩ = ⟨400, 6000, 9072⟩ ∧
    normalize ⟨4, 8, 16384, 1, 1, 3⟩ 8192 16384 ⟨900, 99999, 99999⟩ = ⟨400, 8192, 16384⟩ := by decide

/-- MaxJobs: the limit is reached and a further blocking attempt waits -/
example :
    ((MJ.init 2).run [.attempt 1 .waiting false, .attempt 2 .queued false]).running = [1, 2] ∧
    (((MJ.init 2).run [.attempt 1 .waiting false, .attempt 2 .queued false]).attempt 3 .waiting false).2 = none := by
  decide

end Props.C12
