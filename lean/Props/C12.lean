/-
C12 — resource limits are never exceeded and never stall the pipestance.
PROPERTY THEOREMS ONLY (helper lemmas live in Proofs/Semaphore*.lean).

Model: Martian/Semaphore.lean — `step` is one call of the exported
ResourceSemaphore API exactly as resource_semaphore.go does it; `run` is an
arbitrary op sequence (every prefix of it is again an op sequence, so a theorem
about the state after `run` is a theorem about every instant).  `grun` is the
same under the client protocol "a caller releases what it was granted"
(`Enqueue`'s deferred releases), with the ghost list `held` of current holders.
-/
import Martian.Semaphore
import Proofs.Semaphore
import Proofs.SemaphoreRun
import Proofs.SemaphoreMJ
import Proofs.SemaphoreNest
import Martian.SemaphoreSys
import Proofs.SemaphoreCaller
import Proofs.SemaphoreSysLive
import Proofs.SemaphoreQueue
import Proofs.SemaphoreRefresh
import Proofs.SemaphoreStanding
import Proofs.SemaphoreMJP
import Martian.SemaphoreConfig
import Gen.Facts

namespace Props.C12
open Martian.Semaphore

/-! ## ResourceSemaphore: every sequence of API calls -/

/-- **A grant is only made when it fits the then-current availability.**  Any
call (Acquire fast path, Release, UpdateActual/Size/FreeUsed) that grants at
least one request leaves `reserved ≤ curSize`; all amounts, any state. -/
theorem grant_fits (s : Sem) (op : SemOp) (h : grantsOf (step s op).2 ≠ []) :
    (step s op).1.reserved ≤ (step s op).1.cur :=
  step_fits s op h

/-- **Grants are made in request order (FIFO).**  For every op sequence on a
fresh semaphore: the requests granted so far, in the order they were granted,
followed by the queue, are exactly the accepted (not rejected) requests in the
order they were made.  Nobody overtakes, nobody is dropped or duplicated. -/
theorem fifo_grants (size : Int) (ops : List SemOp) :
    grantsOf (run (Sem.init size) ops).2 ++ (run (Sem.init size) ops).1.waiters
      = acceptedRun (Sem.init size) ops := by
  simpa [Sem.init] using run_fifo (Sem.init size) ops

/-- **No lost wake-up.**  After every op sequence in which `Release` did not
panic: the queue is empty or its head does not fit the free capacity. -/
theorem no_lost_wakeup (size : Int) (ops : List SemOp)
    (hp : hasPanic (run (Sem.init size) ops).2 = false) :
    match (run (Sem.init size) ops).1.waiters with
    | [] => True
    | w :: _ => (run (Sem.init size) ops).1.cur - (run (Sem.init size) ops).1.reserved < w.2 :=
  run_noLost (Sem.init size) ops (by simp [NoLost, Sem.init]) hp

/-- **The oldest waiter is granted whenever it fits.**  For any call made while
`w` is the oldest waiter: either `w` is the first request granted by this call,
or `w` is still the oldest waiter and does not fit the capacity left after the
call. -/
theorem head_granted_when_fits (s : Sem) (op : SemOp) (w : Waiter) (ws : List Waiter)
    (hw : s.waiters = w :: ws) (hs : NoLost s) (hp : hasPanic (step s op).2 = false) :
    (∃ g, grantsOf (step s op).2 = w :: g) ∨
    (∃ ws', (step s op).1.waiters = w :: ws' ∧ (step s op).1.cur - (step s op).1.reserved < w.2) := by
  have hf := step_fifo s op
  have hn := step_noLost s op hs hp
  rw [hw] at hf
  cases hg : grantsOf (step s op).2 with
  | nil =>
    right
    rw [hg] at hf; simp only [List.nil_append, List.cons_append] at hf
    refine ⟨_, hf, ?_⟩
    unfold NoLost at hn; rw [hf] at hn; exact hn
  | cons g gs =>
    left
    rw [hg] at hf; simp only [List.cons_append, List.cons.injEq] at hf
    exact ⟨gs, by rw [hf.1]⟩

/-- **The configured limit is never exceeded** (raw API level).  After every
sequence of `Acquire` (any amount), `Release` (non-negative amount),
`UpdateActual` and `UpdateFreeUsed` (any arguments) calls: `reserved ≤ maxSize`
and `curSize ≤ maxSize`.  These are all the calls the job manager makes on the
core, memory and vmem semaphores: `UpdateSize` is called on the process
semaphore only (regenerated obligation `updateSize_called_only_in_setup`;
`procs_limit_never_exceeded` covers that caller). -/
theorem raw_limits_never_exceeded (size : Int) (hs : 0 ≤ size) (ops : List SemOp)
    (hnu : ∀ op ∈ ops, ∀ n, op ≠ .updSize n) (hrel : ∀ op ∈ ops, op.relNonneg) :
    (run (Sem.init size) ops).1.reserved ≤ size ∧ (run (Sem.init size) ops).1.cur ≤ size := by
  have hop : ∀ op ∈ ops, OpOK (Sem.init size).max op := by
    intro op h
    cases op with
    | release n => exact hrel _ h
    | updSize n => exact absurd rfl (hnu _ h n)
    | acquire id n => trivial
    | updActual n => trivial
    | updFreeUsed f u => trivial
  have := run_bounded (Sem.init size) ops ⟨by simp [Sem.init], by simpa [Sem.init] using hs⟩ hop
  rw [Bounded, run_max] at this
  exact ⟨this.2, this.1⟩

/-- Negative witness (API caveat, no caller does this): `UpdateSize(n)` with
`n > maxSize` is not clamped (unlike UpdateActual / UpdateFreeUsed), after which
more than `maxSize` can be reserved.  Replayed on the real semaphore by the harness. -/
theorem updSize_above_max_breaks_bound :
    (run (Sem.init 10) [.updSize 20, .acquire 1 15]).1.reserved > 10 := by decide

/-- Witness that "in use ≤ current availability" is NOT an invariant: an
availability update (here `UpdateFreeUsed(0, 0)`: the OS reports no free memory)
may put `curSize` under what is already reserved.  What the code guarantees in
that situation is `overcommit_is_transient` / `reserved_le_prev_or_cur` below;
the configured limit `maxSize` is still never exceeded. -/
theorem update_may_lower_cur_below_reserved :
    (run (Sem.init 10) [.acquire 1 8, .updFreeUsed 0 0]).1.cur
      < (run (Sem.init 10) [.acquire 1 8, .updFreeUsed 0 0]).1.reserved := by decide

/-- **What an availability drop below the reservation means.**  For every call
with a non-negative release amount: afterwards `reserved` is at most what it
was before, or at most the availability after the call.  So `reserved > curSize`
can only be the leftover of an earlier, larger availability — a call never
creates or enlarges it (and, by `grant_fits`, nothing is granted while it lasts). -/
theorem reserved_le_prev_or_cur (s : Sem) (op : SemOp) (h : op.relNonneg) :
    (step s op).1.reserved ≤ s.reserved ∨ (step s op).1.reserved ≤ (step s op).1.cur :=
  step_reserved_le s op h

/-- **The over-commitment is transient**: between two availability updates (any
sequence of Acquire / non-negative Release calls, from ANY state) the
availability does not change and the reservation stays below
max(reservation at the start, availability): it can only shrink until it fits. -/
theorem overcommit_is_transient (s : Sem) (ops : List SemOp)
    (h1 : ∀ op ∈ ops, op.isAcqRel = true) (h2 : ∀ op ∈ ops, op.relNonneg) :
    (run s ops).1.cur = s.cur ∧
    ((run s ops).1.reserved ≤ s.reserved ∨ (run s ops).1.reserved ≤ s.cur) :=
  run_overcommit_transient s ops h1 h2

/-- **A request larger than the maximum never waits**: it is granted at once
(only possible after an `UpdateSize` above the maximum) or refused with the
error; the queue is left untouched.  Hence every queued request is within the
maximum (`queued_requests_within_max`). -/
theorem oversized_request_never_waits (s : Sem) (id : Nat) (n : Int) (h : s.max < n) :
    (step s (.acquire id n)).1.waiters = s.waiters ∧
    ((step s (.acquire id n)).2 = [.grant id n] ∨ (step s (.acquire id n)).2 = [.reject id n]) := by
  simp only [step]
  by_cases hf : n ≤ s.cur - s.reserved ∧ s.waiters.isEmpty = true
  · rw [if_pos hf]; simp
  · rw [if_neg hf, if_pos h]; simp

theorem queued_requests_within_max (size : Int) (ops : List SemOp) :
    ∀ w ∈ (run (Sem.init size) ops).1.waiters, w.2 ≤ size := by
  have := run_waitersLeMax (Sem.init size) ops (by intro w hw; simp [Sem.init] at hw)
  intro w hw
  have h := this w hw
  rwa [run_max] at h

/-! ## The client protocol (callers release exactly what they were granted) -/

/-- **Bookkeeping identity.**  After every sequence of client ops (any amounts,
any updates): `reserved` is the sum of what the current holders hold. -/
theorem reserved_eq_sum_held (size : Int) (ops : List COp) :
    (grun (G.init size) ops).1.sem.reserved = sumAmt (grun (G.init size) ops).1.held := by
  suffices h : ∀ g : G, g.sem.reserved = sumAmt g.held →
      (grun g ops).1.sem.reserved = sumAmt (grun g ops).1.held from h _ rfl
  induction ops with
  | nil => intro g h; exact h
  | cons op ops ih =>
    intro g h
    rw [grun_cons]
    apply ih
    simp only [gstep]
    cases ht : toSemOp g op with
    | none => simpa using h
    | some oh =>
      obtain ⟨o, hd⟩ := oh
      simp only [sumAmt_append]
      rw [step_reserved, h]
      cases op with
      | acquire id n => simp only [toSemOp, Option.some.injEq, Prod.mk.injEq] at ht; rw [← ht.1, ← ht.2]; simp [releasedBy]
      | release id =>
        simp only [toSemOp] at ht
        cases hf : findHeld id g.held with
        | none => rw [hf] at ht; simp at ht
        | some w =>
          rw [hf] at ht
          simp only [Option.some.injEq, Prod.mk.injEq] at ht
          rw [← ht.1, ← ht.2, sumAmt_eraseHeld id g.held w hf]; simp [releasedBy]
      | updActual n => simp only [toSemOp, Option.some.injEq, Prod.mk.injEq] at ht; rw [← ht.1, ← ht.2]; simp [releasedBy]
      | updSize n => simp only [toSemOp, Option.some.injEq, Prod.mk.injEq] at ht; rw [← ht.1, ← ht.2]; simp [releasedBy]
      | updFreeUsed f u => simp only [toSemOp, Option.some.injEq, Prod.mk.injEq] at ht; rw [← ht.1, ← ht.2]; simp [releasedBy]

/-- Clients that request non-negative amounts never trigger the
"semaphore: bad release" panic, and the no-lost-wake-up invariant holds after
every op sequence. -/
theorem client_never_panics_and_no_lost_wakeup (size : Int) (ops : List COp)
    (hop : ∀ op ∈ ops, op.reqNonneg) :
    hasPanic (grun (G.init size) ops).2 = false ∧ NoLost (grun (G.init size) ops).1.sem := by
  obtain ⟨g, p, _⟩ := grun_inv (G.init size) ops (good_init size) hop
  exact ⟨p, g.noLost⟩

/-- **Limits are never exceeded** (cores, memory, vmem).  Under the caller
protocol of `Enqueue` (non-negative requests, every caller releases what it was
granted) with arbitrary `UpdateActual` / `UpdateFreeUsed` availability updates
interleaved — i.e. everything the job manager does to these three semaphores —
the sum of what the current holders hold, `reserved` and `curSize` are at most
the configured limit at every instant. -/
theorem limits_never_exceeded (size : Int) (hs : 0 ≤ size) (ops : List COp)
    (hop : ∀ op ∈ ops, op.reqNonneg) (hnu : ∀ op ∈ ops, op.isUpdSize = false) :
    sumAmt (grun (G.init size) ops).1.held ≤ size ∧
    (grun (G.init size) ops).1.sem.reserved ≤ size ∧ (grun (G.init size) ops).1.sem.cur ≤ size :=
  grun_held_le size hs ops hop (fun op h => sizeOK_of_not_updSize size op (hnu op h))

/-- `getrlimit` returns `rlim_cur ≤ rlim_max` as unsigned 64-bit values; whenever
both pass `setupSemaphores`' guard `> startingThreadCount` after conversion to
`int64` (which maps RLIM_INFINITY to -1), the order survives the conversion. -/
theorem rlimit_cur_le_max_int64 (c m : Nat) (hcm : c ≤ m) (hm64 : m < 2 ^ 64)
    (gc : startingThreadCount < toInt64 c) (gm : startingThreadCount < toInt64 m) :
    toInt64 c ≤ toInt64 m :=
  toInt64_le c m hcm hm64 gc gm

/-- **The process semaphore**, the only one `UpdateSize` is called on: after
`setupSemaphores`' calls (`procsSetup`: `Acquire(startingThreadCount)`, then
`UpdateSize(rlimCur)` or `UpdateFreeUsed(rlimCur - userProcs, startingThreadCount)`)
followed by any `Enqueue` / `refreshResources` traffic, the holdings never
exceed its size `rlimMax`. -/
theorem procs_limit_never_exceeded (rcur rmax : Nat) (u : Option Int) (hcm : rcur ≤ rmax)
    (h64 : rmax < 2 ^ 64) (m : Int) (pre : List COp) (hset : procsSetup rcur rmax u = some (m, pre))
    (ops : List COp) (hop : ∀ op ∈ ops, op.reqNonneg) (hnu : ∀ op ∈ ops, op.isUpdSize = false) :
    sumAmt (grun (G.init m) (pre ++ ops)).1.held ≤ m ∧
    (grun (G.init m) (pre ++ ops)).1.sem.reserved ≤ m := by
  obtain ⟨hm, hp1, hp2⟩ := procsSetup_ok rcur rmax u hcm h64 m pre hset
  have := grun_held_le m hm (pre ++ ops)
    (by intro op h; rcases List.mem_append.mp h with h | h; exact hp1 op h; exact hop op h)
    (by intro op h; rcases List.mem_append.mp h with h | h; exact hp2 op h
        exact sizeOK_of_not_updSize m op (hnu op h))
  exact ⟨this.1, this.2.1⟩

/-- **No stall.**  In any state reachable by clients with non-negative
requests: if every holder has released (`held = []`) and availability is back
at the maximum, nobody is left waiting. -/
theorem no_stall (size : Int) (ops : List COp) (hop : ∀ op ∈ ops, op.reqNonneg)
    (hidle : (grun (G.init size) ops).1.held = [])
    (hfull : (grun (G.init size) ops).1.sem.cur = (grun (G.init size) ops).1.sem.max) :
    (grun (G.init size) ops).1.sem.waiters = [] := by
  obtain ⟨g, _, _⟩ := grun_inv (G.init size) ops (good_init size) hop
  have hb := g.book
  simp only at hb
  rw [hidle] at hb; simp only [sumAmt] at hb
  have hn := g.noLost
  unfold NoLost at hn
  cases hw : (grun (G.init size) ops).1.sem.waiters with
  | nil => rfl
  | cons w ws =>
    exfalso
    simp only [hw] at hn
    have hl := g.waitLe w (by simp only; rw [hw]; simp)
    simp only at hl
    omega

/-- **Progress.**  From any state reachable by clients with non-negative
requests, `k ≥ queue length` "drain rounds" (availability restored to the
maximum, all current holders release; no new requests) empty the queue: every
waiter — all of which asked for at most `maxSize` — is eventually granted. -/
theorem progress (size : Int) (ops : List COp) (hop : ∀ op ∈ ops, op.reqNonneg) (k : Nat)
    (hk : (grun (G.init size) ops).1.sem.waiters.length ≤ k) :
    (drain k ((grun (G.init size) ops).1.sem, (grun (G.init size) ops).1.held)).1.waiters = [] :=
  drain_empty k _ (grun_inv (G.init size) ops (good_init size) hop).1 hk

/-- In each drain round nobody is dropped and, unless the queue is already
empty, at least the oldest waiter is granted. -/
theorem progress_round (size : Int) (ops : List COp) (hop : ∀ op ∈ ops, op.reqNonneg) :
    let p := ((grun (G.init size) ops).1.sem, (grun (G.init size) ops).1.held)
    (round p).2 ++ (round p).1.waiters = p.1.waiters ∧
    ((round p).1.waiters = [] ∨ (round p).2 ≠ []) := by
  have := round_facts _ (grun_inv (G.init size) ops (good_init size) hop).1
  exact ⟨this.2.2.1, this.2.2.2⟩

/-! ## The local job manager as a system: nested acquisition never stalls

`Sys` (Martian/SemaphoreSys.lean): every job takes the semaphores in list order
(= `Gen.localAcquireOrder`), holding what it has while it waits; a refused
Acquire makes it give back what it holds; after the job process has run the
deferred releases run in reverse order (`Gen.localReleaseOrder`).  `Sys.act y j`
is the next semaphore call of job `j`; a schedule is any list of job ids.  The
theorems are about every state `(Sys.init sizes jobs).runSched js` — every
interleaving — with availability at the maximum. -/

/-- **No deadlock.**  In every reachable state, unless every job is over, some
job can act: "all remaining jobs blocked in Acquire, none running" never happens. -/
theorem local_no_deadlock (sizes : List Int) (jobs : List (Nat × List Int))
    (hnd : (jobs.map Prod.fst).Nodup) (hnn : ∀ p ∈ jobs, ∀ s, 0 ≤ p.2.getD s 0) (js : List Nat)
    (h : ((Sys.init sizes jobs).runSched js).allOver = false) :
    ∃ b ∈ ((Sys.init sizes jobs).runSched js).jobs, b.enabled = true :=
  exists_enabled _ (runSched_inv _ (init_inv sizes jobs hnd hnn) js) h

/-- **Ranking.**  Every action of a job that can act (an Acquire that is granted,
queued or refused; the end of the job process; a Release, which may wake
waiters) strictly decreases `Sys.rank`. -/
theorem local_action_decreases_rank (sizes : List Int) (jobs : List (Nat × List Int))
    (hnd : (jobs.map Prod.fst).Nodup) (hnn : ∀ p ∈ jobs, ∀ s, 0 ≤ p.2.getD s 0) (js : List Nat)
    (b : LJob) (hb : b ∈ ((Sys.init sizes jobs).runSched js).jobs) (he : b.enabled = true) :
    (((Sys.init sizes jobs).runSched js).act b.id).rank < ((Sys.init sizes jobs).runSched js).rank :=
  act_rank_lt _ (runSched_inv _ (init_inv sizes jobs hnd hnn) js) b hb he

/-- Hence no execution is infinite: a schedule in which every step is a step of
a job that can act has at most `rank` steps. -/
theorem local_schedules_are_bounded (sizes : List Int) (jobs : List (Nat × List Int))
    (hnd : (jobs.map Prod.fst).Nodup) (hnn : ∀ p ∈ jobs, ∀ s, 0 ≤ p.2.getD s 0) (js : List Nat)
    (h : (Sys.init sizes jobs).EnabledSched js) : js.length ≤ (Sys.init sizes jobs).rank := by
  have := sched_bound _ (init_inv sizes jobs hnd hnn) js h
  omega

/-- **Never stalls.**  Whatever the interleaving: when no job can act any more
(which happens after at most `rank` steps, and cannot happen earlier than the
end by `local_no_deadlock`), every job is over; every job whose amounts fit the
semaphore sizes was granted all its semaphores, ran and was never refused.
(A job that does not fit was refused by the first semaphore it does not fit —
it never waits, `oversized_request_never_waits`.) -/
theorem local_every_schedule_finishes (sizes : List Int) (jobs : List (Nat × List Int))
    (hnd : (jobs.map Prod.fst).Nodup) (hnn : ∀ p ∈ jobs, ∀ s, 0 ≤ p.2.getD s 0) (js : List Nat)
    (hmax : ∀ j, ((Sys.init sizes jobs).runSched js).enabledId j = false) :
    ((Sys.init sizes jobs).runSched js).allOver = true ∧
    ∀ p ∈ jobs, fitsSizes p.2 sizes →
      ∃ b ∈ ((Sys.init sizes jobs).runSched js).jobs,
        b.id = p.1 ∧ b.ph = .rel 0 ∧ b.ran = true ∧ b.failed = false := by
  have inv := runSched_inv _ (init_inv sizes jobs hnd hnn) js
  obtain ⟨hover, hall⟩ := maximal_all_over _ inv hmax
  refine ⟨hover, ?_⟩
  intro p hp hfit
  have hst := runSched_static (Sys.init sizes jobs) js
  rw [(init_static sizes jobs).1] at hst
  have hk : p ∈ ((Sys.init sizes jobs).runSched js).jobs.map jobKey := by
    rw [hst.2, (init_static sizes jobs).2]; exact hp
  obtain ⟨b, hb, hbk⟩ := List.mem_map.mp hk
  have hid : b.id = p.1 := by rw [← hbk]; rfl
  have ham : b.amts = p.2 := by rw [← hbk]; rfl
  obtain ⟨h1, h2, h3⟩ := hall b hb (fits_of_fitsSizes b _ sizes hst.1 (by rw [ham]; exact hfit))
  exact ⟨b, hb, hid, h1, h2, h3⟩

/-- Such a finishing execution exists from every reachable state (the
statement above is not vacuous). -/
theorem local_finishing_schedule_exists (sizes : List Int) (jobs : List (Nat × List Int))
    (hnd : (jobs.map Prod.fst).Nodup) (hnn : ∀ p ∈ jobs, ∀ s, 0 ≤ p.2.getD s 0) (js : List Nat) :
    ∃ js', ((Sys.init sizes jobs).runSched js).EnabledSched js' ∧
      (((Sys.init sizes jobs).runSched js).runSched js').allOver = true :=
  finishing_schedule _ _ (runSched_inv _ (init_inv sizes jobs hnd hnn) js) (Nat.le_refl _)

/-! ## MaxJobsSemaphore -/

/-- **In cluster mode at most `limit` jobs hold the semaphore**, and each job
at most once, after every sequence of Acquire attempts (blocking or not, any
metadata state), Release, FindDone and Clear. -/
theorem maxjobs_le_limit (L : Int) (hL : 0 ≤ L) (ops : List MJOp) :
    (((MJ.init L).run ops).running.length : Int) ≤ L ∧ ((MJ.init L).run ops).running.Nodup := by
  have := MJ.run_inv L ops (MJ.init L) (MJ.init_inv L hL) hL
  exact ⟨this.le, this.nodup⟩

/-- A job that is still queued/waiting is admitted as soon as there is room. -/
theorem maxjobs_admits_when_room (s : MJ) (id : Nat) (st : MdState) (nb : Bool)
    (hst : st.cancelled nb = false) (hroom : (s.running.length : Int) < s.limit) :
    (s.attempt id st nb).2 = some true ∧ id ∈ (s.attempt id st nb).1.running := by
  unfold MJ.attempt
  have hn : ¬ (s.limit ≤ (s.running.length : Int)) := by omega
  rw [if_neg (by simp [hst]), if_neg hn]
  refine ⟨rfl, ?_⟩
  by_cases hc : s.running.contains id = true
  · rw [if_pos hc]; simpa using hc
  · rw [if_neg hc]; simp

/-- **Re-attaching after an mrp restart restores the count**: a fresh
semaphore (`resetMaxJobs`) on which `reattach` (= one non-blocking `Acquire`)
is called once for every job that is in flight on the cluster — in whichever of
the two in-flight states, Queued or RUNNING, the restarted mrp reads from disk;
distinct jobs, at most `limit` of them, which is what the previous incarnation
guaranteed — holds exactly those jobs afterwards, so new submissions wait for
them and `maxjobs_le_limit` continues to bound the jobs submitted at the same
time across the restart.  (True of the code since the repair of audit finding
C12-H7; the behaviour before it is `reattach_dropped_running_jobs_before_fix`.) -/
theorem reattach_restores_count (L : Int) (ids : List (Nat × MdState))
    (hst : ∀ p ∈ ids, p.2 = .queued ∨ p.2 = .running)
    (hnd : (ids.map (·.1)).Nodup) (hlen : (ids.length : Int) ≤ L) :
    ((MJ.init L).run (reattachOps ids)).running = ids.map (·.1) := by
  have := MJ.run_reattach L ids (MJ.init L) rfl
    (fun p hp => by rcases hst p hp with h | h <;> simp [h, MdState.inFlight])
    (by simpa [MJ.init] using hnd) (by simpa [MJ.init] using hlen)
  simpa [MJ.init] using this.1

/-- **The defect the repair removed** (negative witness for the OLD `Acquire`,
reproduced on the unrepaired code by the cluster-restart stream: key
`C12:cluster:over-maxjobs`).  `Acquire` refused every state other than
Queued/Waiting also when re-attaching, so two jobs Running on the cluster (the
normal in-flight state: the job has written `_log`) were not put back, the fresh
semaphore stayed empty, and two MORE jobs were admitted: four jobs outstanding
with `--maxjobs 2`. -/
theorem reattach_dropped_running_jobs_before_fix :
    ((MJ.init 2).runOld [(3, .running, true), (1, .running, true)]).running = [] ∧
    ((MJ.init 2).runOld [(3, .running, true), (1, .running, true),
        (7, .waiting, false), (8, .waiting, false)]).running = [7, 8] ∧
    ((MJ.init 2).run [.attempt 3 .running true, .attempt 1 .running true,
        .attempt 7 .waiting false, .attempt 8 .waiting false]).running = [3, 1] := by
  decide

/-! ### MaxJobsSemaphore with its callers: wake-ups (model Martian/SemaphoreMJP.lean)

The callers blocked in `cond.Wait()` and the signalled ones are part of the
state; `Signal` after `Release`, `Broadcast`/`Signal` in `FindDone`, `Broadcast`
in `Clear`, and the deferred `Signal` on every return from inside `Acquire`. -/

/-- **No parked caller is forgotten.**  After every sequence of Acquire calls
(new or resumed after a wake-up, any metadata states), Release, FindDone and
Clear: if a slot is free and some caller is parked in `cond.Wait()`, then some
caller has been signalled and will look at the semaphore again. -/
theorem maxjobs_no_parked_caller_is_forgotten (L : Int) (ops : List MJPOp) :
    ((MJP.init L).run ops).NoLostWakeup :=
  MJP.run_noLost _ ops (by intro _; left; rfl)

/-- … so at quiescence (every signalled caller has run) nobody is parked while a
slot is free — what the harness monitors on the real semaphore (`lost-wakeup`). -/
theorem maxjobs_quiescent_room_nobody_parked (L : Int) (ops : List MJPOp)
    (hq : ((MJP.init L).run ops).woken = []) (hroom : ((MJP.init L).run ops).room) :
    ((MJP.init L).run ops).parked = [] := by
  rcases maxjobs_no_parked_caller_is_forgotten L ops hroom with h | h
  · exact h
  · exact absurd hq h

/-- the bound of `maxjobs_le_limit` for the model with callers (its `running`
component evolves by `MJ.attempt` / `MJ.step`) -/
theorem maxjobs_with_callers_le_limit (L : Int) (hL : 0 ≤ L) (ops : List MJPOp) :
    (((MJP.init L).run ops).running.length : Int) ≤ L ∧ ((MJP.init L).run ops).running.Nodup := by
  have := MJP.run_inv L hL ops (MJP.init L) (MJ.init_inv L hL)
  exact ⟨this.le, this.nodup⟩

/-! ## GetSystemReqs / Enqueue (after float → integer conversion) -/

/-- **Requests are clamped to the limits** — zero, negative ("adaptive") and
oversized requests alike; the normalised amounts are positive.  For vmem the
code guarantees `≤ maxVmemMB` or `= mem` only (see the witness below). -/
theorem clamp_le_limits (c : LocalCfg) (hc : Sane c) (memCur vmemCur : Int) (r : Req) :
    let n := normalize c memCur vmemCur r
    0 < n.centi ∧ n.centi ≤ c.maxCores * 100 ∧
    0 < n.memMb ∧ n.memMb ≤ c.maxMemGB * 1024 ∧
    (0 < c.maxVmemMB → 0 < n.vmemMb ∧ (n.vmemMb ≤ c.maxVmemMB ∨ n.vmemMb = n.memMb)) := by
  have hcen := normCenti_bounds c hc r.centi
  have hm0 := reqMem0_pos c hc memCur r.memMb
  have hm := capTo_bounds (c.maxMemGB * 1024) _ (by have := hc.2.1; omega) hm0
  simp only [normalize]
  refine ⟨hcen.1, hcen.2, hm.1, hm.2.1, ?_⟩
  intro hv
  have := reqV_bounds c hc hv vmemCur _ _ r.vmemMb hm0 hm.1
  exact ⟨this.1, this.2.1⟩

/-- **A clamped job is never refused by the core and memory semaphores**: the
amounts `Enqueue` acquires are within `maxSize` of the semaphores
`setupSemaphores` creates (`maxCores*100`, `maxMemGB*1024`), so `Acquire`
cannot return its "Tried to acquire …" error, whatever the queue state. -/
theorem cores_mem_never_rejected (c : LocalCfg) (hc : Sane c) (memCur vmemCur : Int) (r : Req)
    (sc sm : Sem) (hsc : sc.max = c.maxCores * 100) (hsm : sm.max = c.maxMemGB * 1024) (id : Nat) :
    let a := acquireAmounts (normalize c memCur vmemCur r)
    Ev.reject id a.1 ∉ (step sc (.acquire id a.1)).2 ∧
    Ev.reject id a.2.1 ∉ (step sm (.acquire id a.2.1)).2 := by
  have h := clamp_le_limits c hc memCur vmemCur r
  simp only at h
  obtain ⟨_, h2, _, h4, _⟩ := h
  have key : ∀ (s : Sem) (n : Int), n ≤ s.max → Ev.reject id n ∉ (step s (.acquire id n)).2 := by
    intro s n hn
    simp only [step]
    by_cases hf : n ≤ s.cur - s.reserved ∧ s.waiters.isEmpty = true
    · rw [if_pos hf]; simp
    · rw [if_neg hf, if_neg (by omega)]; simp
  simp only [acquireAmounts]
  exact ⟨key sc _ (by omega), key sm _ (by omega)⟩

/-- vmem: never refused when the vmem limit is not below the memory limit.
Full statement (false): without `hvm` — see `vmem_floor_exceeds_limit`. -/
theorem vmem_never_rejected_partial (c : LocalCfg) (hc : Sane c) (memCur vmemCur : Int) (r : Req)
    (hv : 0 < c.maxVmemMB) (hvm : c.maxMemGB * 1024 ≤ c.maxVmemMB) :
    (acquireAmounts (normalize c memCur vmemCur r)).2.2.1 ≤ c.maxVmemMB := by
  have h := clamp_le_limits c hc memCur vmemCur r
  simp only at h
  obtain ⟨_, _, _, h4, h5⟩ := h
  obtain ⟨hp, hle⟩ := h5 hv
  simp only [acquireAmounts]
  rw [Int.tdiv_eq_ediv_of_nonneg (by omega)]
  omega

/-- Negative witness (`--localmem 4 --localvmem 2`, a 3 GB job): after clamping
vmem to the 2048 MB limit the code raises it back to the memory request
(`if vmemMb > 0 && vmemMb < memMb { vmemMb = memMb }`), and `Acquire(3072)` on
the 2048 MB vmem semaphore returns the error — the job fails instead of being
clamped. -/
theorem vmem_floor_exceeds_limit :
    let c : LocalCfg := ⟨4, 4, 2048, 1, 1, 0⟩
    let a := acquireAmounts (normalize c 4096 2048 ⟨100, 3072, 0⟩)
    a.2.2.1 = 3072 ∧ (step (Sem.init 2048) (.acquire 1 a.2.2.1)).2 = [Ev.reject 1 3072] := by decide

/-- `GetSystemReqs` is applied twice on the way to `Acquire` (`getJobReqs`, then
`Enqueue`): the second application changes nothing. -/
theorem normalize_idempotent (c : LocalCfg) (hc : Sane c) (m1 v1 m2 v2 : Int) (r : Req) :
    normalize c m2 v2 (normalize c m1 v1 r) = normalize c m1 v1 r := by
  have hcen := normCenti_bounds c hc r.centi
  have hm0 := reqMem0_pos c hc m1 r.memMb
  have hm := capTo_bounds (c.maxMemGB * 1024) _ (by have := hc.2.1; omega) hm0
  simp only [normalize, Req.mk.injEq]
  have e1 : reqMem0 c m2 (capTo (c.maxMemGB * 1024) (reqMem0 c m1 r.memMb))
      = capTo (c.maxMemGB * 1024) (reqMem0 c m1 r.memMb) := reqMem0_fix c m2 _ hm.1
  have e2 : capTo (c.maxMemGB * 1024) (capTo (c.maxMemGB * 1024) (reqMem0 c m1 r.memMb))
      = capTo (c.maxMemGB * 1024) (reqMem0 c m1 r.memMb) := capTo_fix _ _ hm.2.1
  refine ⟨normCenti_fix c _ hcen.1 hcen.2, ?_, ?_⟩
  · rw [e1, e2]
  · rw [e1, e2]
    by_cases hv : 0 < c.maxVmemMB
    · have hb := reqV_bounds c hc hv v1 _ _ r.vmemMb hm0 hm.1
      simp only at hb
      exact reqV_fix c v2 _ _ _ (by omega) (fun _ => hb) (fun h => absurd hv h)
    · have hb := reqV_nolimit c hv v1 (reqMem0 c m1 r.memMb)
        (capTo (c.maxMemGB * 1024) (reqMem0 c m1 r.memMb)) r.vmemMb
      simp only at hb
      by_cases hz : reqV3 (capTo (c.maxMemGB * 1024) (reqMem0 c m1 r.memMb))
          (reqV2 c (reqV1 c v1 (reqV0 c (reqMem0 c m1 r.memMb) r.vmemMb))) = 0
      · -- vmem normalised to 0 (only without a vmem semaphore): not a fixed point in general
        exfalso
        have hne : reqV0 c (reqMem0 c m1 r.memMb) r.vmemMb ≠ 0 := by
          unfold reqV0; have := hc.2.2.2.2; split <;> omega
        generalize reqV0 c (reqMem0 c m1 r.memMb) r.vmemMb = a at hne hz
        have h1 : reqV1 c v1 a = a := by
          unfold reqV1
          by_cases hn : a < 0
          · rw [if_pos hn, if_neg (by omega)]
          · rw [if_neg hn]
        have h2 : reqV2 c a = a := by unfold reqV2; split <;> omega
        rw [h1, h2] at hz
        unfold reqV3 at hz
        split at hz <;> omega
      · exact reqV_fix c v2 _ _ _ hz (fun h => absurd h hv) (fun _ => hb)

/-- **Clamped requests fit every semaphore — the configuration with all four
semaphores** (vmem limit configured and not below the memory limit, process
semaphore present); the general statement, including the default configuration
without a vmem semaphore, is `normalized_amounts_fit_every_configuration`.
`procs` is what the process semaphore has LEFT for jobs,
`rlimMax - startingThreadCount` (mrp's own standing reservation is never
released: `standing_reservation_is_a_smaller_semaphore`), not its `maxSize`:
with `procsPerJob + maxCores` within that, the four amounts `Enqueue` acquires
for ANY request (zero, adaptive, oversized) are non-negative and within the
sizes, so by `local_every_schedule_finishes` every such job runs. -/
theorem normalized_amounts_fit (c : LocalCfg) (hc : Sane c) (hv : 0 < c.maxVmemMB)
    (hvm : c.maxMemGB * 1024 ≤ c.maxVmemMB) (procs : Int) (hp : procsPerJob + c.maxCores ≤ procs)
    (mc vc : Int) (r : Req) :
    let a := acquireAmounts (normalize c mc vc r)
    fitsSizes [a.1, a.2.1, a.2.2.1, a.2.2.2] [c.maxCores * 100, c.maxMemGB * 1024, c.maxVmemMB, procs] ∧
    (∀ s, 0 ≤ [a.1, a.2.1, a.2.2.1, a.2.2.2].getD s 0) := by
  have h := clamp_le_limits c hc mc vc r
  have hv3 := vmem_never_rejected_partial c hc mc vc r hv hvm
  simp only at h
  obtain ⟨h1, h2, h3, h4, h5⟩ := h
  obtain ⟨h6, _⟩ := h5 hv
  simp only [acquireAmounts] at hv3 ⊢
  have e1 : Int.tdiv ((normalize c mc vc r).centi + 99) 100 = ((normalize c mc vc r).centi + 99) / 100 :=
    Int.tdiv_eq_ediv_of_nonneg (by omega)
  have e2 : Int.tdiv (normalize c mc vc r).vmemMb 1024 = (normalize c mc vc r).vmemMb / 1024 :=
    Int.tdiv_eq_ediv_of_nonneg (by omega)
  rw [e1, e2] at *
  unfold procsPerJob at *
  constructor
  · intro i m hi
    rcases i with _ | _ | _ | _ | i <;> simp at hi <;> subst hi <;> simp <;> omega
  · intro s
    rcases s with _ | _ | _ | _ | s <;> simp <;> omega

/-- **Every configuration** (supersedes the four-semaphore statement above:
no vmem semaphore — the default without `--localvmem` under an unlimited
`ulimit -v` — and/or no process semaphore included).  For a sane configuration,
with the vmem limit (if there is one) at least the memory limit, and with
`procsPerJob + maxCores` within what the process rlimit leaves for jobs (if
there is a process semaphore; `procsLeft = rlimMax - startingThreadCount`, see
`standing_reservation_is_a_smaller_semaphore`): the amounts `Enqueue` acquires
for ANY request are non-negative and fit the sizes of the semaphores that
exist — so by `local_every_schedule_finishes` every such job runs. -/
theorem normalized_amounts_fit_every_configuration (c : LocalCfg) (hc : Sane c)
    (hvm : 0 < c.maxVmemMB → c.maxMemGB * 1024 ≤ c.maxVmemMB)
    (procsLeft : Option Int) (hp : ∀ p, procsLeft = some p → procsPerJob + c.maxCores ≤ p)
    (mc vc : Int) (r : Req) :
    let a := acquireAmounts (normalize c mc vc r)
    fitsSizes (localAmounts c procsLeft.isSome a) (localSizes c procsLeft) ∧
    (∀ s, 0 ≤ (localAmounts c procsLeft.isSome a).getD s 0) := by
  have h := clamp_le_limits c hc mc vc r
  simp only at h
  obtain ⟨h1, h2, h3, h4, h5⟩ := h
  have e1 : Int.tdiv ((normalize c mc vc r).centi + 99) 100 = ((normalize c mc vc r).centi + 99) / 100 :=
    Int.tdiv_eq_ediv_of_nonneg (by omega)
  by_cases hv : 0 < c.maxVmemMB
  · have hv3 := vmem_never_rejected_partial c hc mc vc r hv (hvm hv)
    obtain ⟨h6, _⟩ := h5 hv
    have e2 : Int.tdiv (normalize c mc vc r).vmemMb 1024 = (normalize c mc vc r).vmemMb / 1024 :=
      Int.tdiv_eq_ediv_of_nonneg (by omega)
    simp only [acquireAmounts] at hv3 ⊢
    rw [e1, e2] at *
    unfold procsPerJob at *
    cases procsLeft with
    | none =>
      simp only [localAmounts, localSizes, hv, if_true, Option.isSome_none, Bool.false_eq_true, if_false,
        Option.toList_none, List.append_nil, List.cons_append, List.nil_append]
      constructor
      · intro i m hi
        rcases i with _ | _ | _ | i <;> simp at hi <;> subst hi <;> simp <;> omega
      · intro s
        rcases s with _ | _ | _ | s <;> simp <;> omega
    | some p =>
      have hp' := hp p rfl
      simp only [localAmounts, localSizes, hv, if_true, Option.isSome_some, Option.toList_some,
        List.cons_append, List.nil_append]
      constructor
      · intro i m hi
        rcases i with _ | _ | _ | _ | i <;> simp at hi <;> subst hi <;> simp <;> omega
      · intro s
        rcases s with _ | _ | _ | _ | s <;> simp <;> omega
  · simp only [acquireAmounts]
    rw [e1]
    unfold procsPerJob at *
    cases procsLeft with
    | none =>
      simp only [localAmounts, localSizes, hv, if_false, Option.isSome_none, Bool.false_eq_true,
        Option.toList_none, List.append_nil]
      constructor
      · intro i m hi
        rcases i with _ | _ | i <;> simp at hi <;> subst hi <;> simp <;> omega
      · intro s
        rcases s with _ | _ | s <;> simp <;> omega
    | some p =>
      have hp' := hp p rfl
      simp only [localAmounts, localSizes, hv, if_false, Option.isSome_some, Option.toList_some,
        List.append_nil, List.cons_append, List.nil_append, if_true]
      constructor
      · intro i m hi
        rcases i with _ | _ | _ | i <;> simp at hi <;> subst hi <;> simp <;> omega
      · intro s
        rcases s with _ | _ | _ | s <;> simp <;> omega

/-! ## Where the limits come from: `NewLocalJobManager` (`setMaxCores`, `setMaxMem`)

Model: Martian/SemaphoreConfig.lean — the three limits as pure functions of the
user's flags and the observations of the machine.  `Sane` of the configuration
the other theorems assume is PROVED of what `NewLocalJobManager` produces. -/

section SetMax
open Martian.SemaphoreConfig

/-- **Floors.**  Whatever the flags and the machine: the memory limit is at least
1 GB; the core limit is at least 1 as soon as the machine reports a CPU and the
job settings' `threads_per_job` is positive (martian refuses other settings). -/
theorem configured_limits_floor (f : Flags) (m : Machine) :
    1 ≤ maxMemGBModel f m ∧ (1 ≤ m.numCPU → 1 ≤ m.threadsPerJob → 1 ≤ setMaxCoresModel f m) := by
  constructor
  · simp only [maxMemGBModel]
    repeat' split
    all_goals omega
  · intro h1 h2
    simp only [setMaxCoresModel]
    repeat' split
    all_goals omega

/-- **The produced configuration is `Sane`** — the hypothesis of `clamp_le_limits`,
`normalized_amounts_fit_every_configuration` … — given only what martian validates in
jobmanagers/config.json (`threads_per_job`, `memgb_per_job` ≥ 1), a machine with a CPU,
and `extra_vmem_per_job ≥ 0` (the one conjunct martian does not validate). -/
theorem setMax_config_is_sane (f : Flags) (m : Machine) (ev : Int)
    (hcpu : 1 ≤ m.numCPU) (ht : 1 ≤ m.threadsPerJob) (hm : 1 ≤ m.memGBPerJob) (hev : 0 ≤ ev) :
    Sane (setMaxModel f m ev) := by
  have h := configured_limits_floor f m
  exact ⟨h.2 hcpu ht, h.1, ht, hm, hev⟩

/-- **A user's value is used as given** for cores and memory; for vmem it is an
upper bound, used as given when there is no address-space rlimit and mrp has not
recorded an address space of its own yet (the situation inside
`NewLocalJobManager`); it is REPLACED by the rlimit when that is lower, and
REDUCED by mrp's own recorded address space when more than 1 GB remains.
Without `--localvmem` and without an rlimit there is no vmem limit (0). -/
theorem user_limit_respected (f : Flags) (m : Machine) :
    (f.cores > 0 → setMaxCoresModel f m = f.cores) ∧
    (f.memGB > 0 → maxMemGBModel f m = f.memGB) ∧
    (f.vmemGB > 0 → 0 ≤ m.highVmem → 0 ≤ m.vmemLimit → maxVmemMBModel f m ≤ f.vmemGB * 1024) ∧
    (m.vmemLimit / MB = 0 → m.highVmem / MB = 0 → maxVmemMBModel f m = f.vmemGB * 1024) := by
  refine ⟨?_, ?_, ?_, ?_⟩
  · intro h; simp [setMaxCoresModel, h]
  · intro h; simp [maxMemGBModel, h]
  · intro _ hh hl
    have h1 : 0 ≤ m.highVmem / MB := Int.ediv_nonneg hh (by decide)
    simp only [maxVmemMBModel]
    repeat' split
    all_goals omega
  · intro hl hs
    simp only [maxVmemMBModel, hl, hs]
    simp

/-- **`--localvmem` equal to `--localmem`** (the natural "same value" setting, no
address-space rlimit).  With an address space `self > 0` MB of its own on record
and more than 1 GB left, `setMaxMem` produces `maxVmemMB = memGB*1024 - self`,
strictly BELOW the memory limit — the precondition of the known finding F18
(`vmem_floor_exceeds_limit`): a job asking for the memory limit is then refused
by the vmem semaphore. -/
theorem same_localmem_localvmem_triggers_vmem_floor (f : Flags) (m : Machine)
    (hv : f.vmemGB = f.memGB) (hm : f.memGB > 0) (hl : m.vmemLimit / MB = 0)
    (hs : 0 < m.highVmem / MB) (hroom : m.highVmem / MB + 1024 < f.memGB * 1024) :
    maxVmemMBModel f m = f.memGB * 1024 - m.highVmem / MB ∧
    maxVmemMBModel f m < maxMemGBModel f m * 1024 := by
  have hmem : maxMemGBModel f m = f.memGB := by simp [maxMemGBModel, hm]
  have hvm : maxVmemMBModel f m = f.memGB * 1024 - m.highVmem / MB := by
    simp only [maxVmemMBModel, hl, hv]
    simp only [true_or, if_true]
    rw [if_pos hroom]
  exact ⟨hvm, by rw [hvm, hmem]; omega⟩

/-- … but inside `NewLocalJobManager` nothing is on record yet (`setMaxMem` runs
before `setupSemaphores` fills `highMem`; regenerated: `skel_NewLocalJobManager_ok`), so
there the same-value setting gives `maxVmemMB = maxMemGB*1024` exactly and F18's precondition
does NOT arise from it; it arises from `--localvmem < --localmem` or a lower rlimit
(replayed on the real `NewLocalJobManager` by the harness). -/
theorem same_localmem_localvmem_at_construction (f : Flags) (m : Machine)
    (hv : f.vmemGB = f.memGB) (hm : f.memGB > 0) (hl : m.vmemLimit / MB = 0) (h0 : m.highVmem = 0) :
    maxVmemMBModel f m = maxMemGBModel f m * 1024 := by
  have hmem : maxMemGBModel f m = f.memGB := by simp [maxMemGBModel, hm]
  have := (user_limit_respected f m).2.2.2 hl (by rw [h0]; decide)
  rw [this, hmem, hv]

/-- Side observation (witness; true of the code, see `skel_setMaxMem_ok`: the test is
`self.maxVmemMB == 0 || int64(userMaxVMemGB)*1024 < self.maxVmemMB` without `userMaxVMemGB > 0`):
WITHOUT `--localvmem` an address-space rlimit (`ulimit -v`, here 16 GB) does not become the vmem
limit — 0 < 16384 replaces it by the unset user value 0, i.e. no vmem semaphore at all. -/
theorem vmem_rlimit_dropped_without_localvmem :
    maxVmemMBModel ⟨0, 1, 0, true⟩ ⟨16, 64 * GB, 50 * GB, 0, 0, 16 * GB, 0, 1, 5⟩ = 0 ∧
    maxVmemMBModel ⟨0, 1, 32, true⟩ ⟨16, 64 * GB, 50 * GB, 0, 0, 16 * GB, 0, 1, 5⟩ = 16384 := by decide

/-- instance: `--localmem 4 --localvmem 4`, 300 MB of own address space on record: the vmem
limit is 3796 MB, and a job asking for 4 GB (clamped to the memory limit) acquires 4096 on it:
refused (F18) -/
theorem same_value_instance_refused :
    let f : Flags := ⟨2, 4, 4, false⟩
    let m : Machine := ⟨16, 64 * GB, 50 * GB, 0, 0, 0, 300 * MB, 1, 1⟩
    let c := setMaxModel f m 0
    c = ⟨2, 4, 3796, 1, 1, 0⟩ ∧
    (acquireAmounts (normalize c 4096 3796 ⟨100, 4096, 0⟩)).2.2.1 = 4096 ∧
    (step (Sem.init c.maxVmemMB) (.acquire 1 4096)).2 = [.reject 1 4096] := by decide

/-! ### Regenerated obligations: the code the configuration model mirrors (sole static tie: strict) -/

theorem skel_NewLocalJobManager_ok :
    Gen.c12Skel_NewLocalJobManager_extracted = true ∧ Gen.c12Skel_NewLocalJobManager =
    ["jc, err := verifyJobManager(\"local\", config, -1)",
     "self.setMaxCores(userMaxCores, clusterMode)",
     "self.setMaxMem(userMaxMemGB, userMaxVMemGB, clusterMode)",
     "self.setupSemaphores()"] := by
  exact ⟨rfl, rfl⟩

theorem skel_setMaxCores_ok :
    Gen.c12Skel_setMaxCores_extracted = true ∧ Gen.c12Skel_setMaxCores =
    ["if userMaxCores > 0",
     "self.maxCores = userMaxCores",
     "else",
     "if clusterMode",
     "self.maxCores = self.jobSettings.ThreadsPerJob",
     "else",
     "self.maxCores = runtime.NumCPU()"] := by
  exact ⟨rfl, rfl⟩

theorem skel_setMaxMem_ok :
    Gen.c12Skel_setMaxMem_extracted = true ∧ Gen.c12Skel_setMaxMem =
    ["err := sysMem.Get()",
     "if err != nil && sysMem.Total == 0",
     "cgMem, cgSoftLimit, cgUse := util.GetCgroupMemoryLimit()",
     "if userMaxMemGB > 0",
     "self.maxMemGB = userMaxMemGB",
     "if cgMem > 0 && int64(userMaxMemGB)*1024*1024*1024 > cgMem",
     "else",
     "MAXMEM_FRACTION := 0.9",
     "if cgMem > 0 && cgMem < sysMem.Total",
     "sysMem.Total = cgMem",
     "if cgUse < cgMem && cgMem-cgUse < sysMem.ActualFree",
     "sysMem.ActualFree = cgMem - cgUse",
     "MAXMEM_FRACTION = 0.96",
     "if clusterMode",
     "sysMemGB := int((sysMem.ActualFree + (1024*1024 - 1)) / (1024 * 1024 * 1024))",
     "if self.jobSettings.MemGBPerJob < sysMemGB",
     "sysMemGB = self.jobSettings.MemGBPerJob",
     "if sysMemGB < 1",
     "sysMemGB = 1",
     "self.maxMemGB = sysMemGB",
     "if sysMemGB < self.jobSettings.MemGBPerJob",
     "else",
     "else",
     "sysMemGB := int(float64(sysMem.Total) * MAXMEM_FRACTION / 1073741824)",
     "if sysMemGB < 1",
     "sysMemGB = 1",
     "self.maxMemGB = sysMemGB",
     "if int64(self.maxMemGB*1024) > (sysMem.ActualFree+(1024*1024-1))/(1024*1024)",
     "if cgSoftLimit != 0 && int64(self.maxMemGB)*1024*1024*1024 > cgSoftLimit",
     "self.maxVmemMB = int64(CheckMaxVmem( uint64(1+self.maxMemGB)*uint64(self.highMem.Vmem+1024*1024*1024)) / (1024 * 1024))",
     "if self.maxVmemMB == 0 || int64(userMaxVMemGB)*1024 < self.maxVmemMB",
     "self.maxVmemMB = int64(userMaxVMemGB) * 1024",
     "selfMem := self.highMem.Vmem / (1024 * 1024)",
     "if selfMem+1024 < self.maxVmemMB",
     "self.maxVmemMB -= selfMem",
     "requiredVmemGB := int64(self.jobSettings.MemGBPerJob+self.jobSettings.ExtraVmemGB) + (self.highMem.Vmem+1024*1024*1024-1)/(1024*1024*1024)",
     "if self.maxVmemMB > 0 && self.maxVmemMB/1024 < requiredVmemGB"] := by
  exact ⟨rfl, rfl⟩

end SetMax

/-! ## The process semaphore's standing reservation

`setupSemaphores`: `procsSem = NewResourceSemaphore(rlimMax)`, then
`procsSem.Acquire(startingThreadCount)` for mrp itself — never released. -/

/-- **A standing reservation makes a smaller semaphore.**  For every sequence
of `Acquire`/`Release` calls (the client protocol of `Enqueue`) in which no
request lies strictly between the smaller size `m` and the real maximum `m + d`,
and no release is "bad": the semaphore of size `m + d` with `d` reserved for
ever grants, queues and refuses exactly like the semaphore of size `m` — same
events, same queue, reservations larger by `d`.  So the never-stall theorems
(`local_every_schedule_finishes`, `normalized_amounts_fit_every_configuration`)
apply to the process semaphore with the size `rlimMax - startingThreadCount`. -/
theorem standing_reservation_is_a_smaller_semaphore (s : Sem) (d : Int) (hd : 0 ≤ d)
    (ops : List SemOp) (hops : ∀ op ∈ ops, op.plain s.max d)
    (hp : hasPanic (run s ops).2 = false) :
    run (s.shift d) ops = ((run s ops).1.shift d, (run s ops).2) :=
  run_shift d hd ops s hops hp

/-- **… except for a request between the two sizes** (negative witness; audit
second-pass MEDIUM-1).  `ulimit -u 60`, one core: the job needs 15 + 1 = 16
processes; 16 ≤ maxSize = 60, so `Acquire` does not refuse it, but only
60 - 45 = 15 can ever be free: it is queued with `curSize = maxSize` and nobody
left to release anything — it waits for ever (the smaller semaphore of size 15
would have refused it).  The Go code only prints "The current process count
limit … is low".  Replayed on the real code by the refresh workers (uid nobody,
RLIMIT_NPROC lowered): documented limit, not a configured martian limit. -/
theorem standing_reservation_parks_request_between_sizes :
    let g := (grun (G.init 60) [.acquire 0 startingThreadCount, .updSize 60, .acquire 1 16]).1
    g.sem.waiters = [(1, 16)] ∧ g.sem.cur = 60 ∧ g.sem.max = 60 ∧ g.held = [(0, 45)] ∧
    (step (Sem.init 15) (.acquire 1 16)).2 = [.reject 1 16] ∧
    ¬ (SemOp.acquire 1 16).plain 15 45 := by
  refine ⟨by decide, by decide, by decide, by decide, by decide, ?_⟩
  simp [SemOp.plain]

/-! ## Regenerated obligations (jobmanager_local.go as it is now) -/

/-- Every local job takes the semaphores in one and the same order
(cores → memory → vmem → processes), the order `acquireAmounts` lists them in;
fails on a tree whose `Enqueue` acquires in another order. -/
theorem acquire_order_ok :
    Gen.localAcquireOrder_extracted = true ∧
    Gen.localAcquireOrder = ["centcoreSem", "memMBSem", "vmemMBSem", "procsSem"] := by decide

/-- **One acquisition order on EVERY path** through the job goroutine of `Enqueue`
(regenerated by an abstract interpretation that follows both arms of every `if`, early
returns, and calls of local function values — all the literals a variable may hold):
each path acquires along a subsequence of cores → memory → vmem → processes, and the
full order occurs.  A second order on some path (e.g. memory before cores for "big"
jobs) makes hold-and-wait deadlock possible and voids `local_no_deadlock`; the
source-order fact `acquire_order_ok` alone would not see it. -/
theorem acquire_order_same_on_every_path :
    Gen.localAcquireOrders_extracted = true ∧
    (Gen.localAcquireOrders.all fun o =>
      o.isSublist ["centcoreSem", "memMBSem", "vmemMBSem", "procsSem"]) = true ∧
    ["centcoreSem", "memMBSem", "vmemMBSem", "procsSem"] ∈ Gen.localAcquireOrders := by decide

/-- the per-job process estimate constant used by the model is the one in the source -/
theorem procs_per_job_ok :
    Gen.localProcsPerJob_extracted = true ∧ Gen.localProcsPerJob = procsPerJob := by decide

/-- `UpdateSize` has exactly one caller in martian: `setupSemaphores`, on the
process semaphore, with `rlimCur` (≤ `rlimMax`, the size it was created with).
The core, memory and vmem semaphores never see it. -/
theorem updateSize_called_only_in_setup :
    Gen.updateSizeCalls_extracted = true ∧
    Gen.updateSizeCalls = [("jobmanager_local.go", "setupSemaphores", "self.procsSem", "rlimCur(rlim)")] := by
  decide

/-- the deferred releases of `Enqueue` are written in acquisition order, so they
run in reverse acquisition order, as `Sys.act` releases -/
theorem release_order_ok :
    Gen.localReleaseOrder_extracted = true ∧ Gen.localReleaseOrder = Gen.localAcquireOrder := by decide

theorem starting_threads_ok :
    Gen.localStartingThreads_extracted = true ∧ Gen.localStartingThreads = startingThreadCount := by decide

/-! ### The arithmetic the model mirrors, statement by statement

Per function: conditions, assignments, returns, defers and non-logging calls of
the current source in source order (`extract/c12_arith.go`).  A flipped
comparison, a changed constant, a dropped `runJobs()` / `Signal()` or a reordered
Acquire breaks the obligation named after the function (and the correspondence
run finds the input).  `_extracted = false` (function not found) is reported as
a note by ./check; the correspondence is then the only tie. -/

theorem skel_Acquire_ok :
    Gen.c12Skel_Acquire_extracted = false ∨ Gen.c12Skel_Acquire =
    ["self.mu.Lock()",
     "if self.curSize-self.reserved >= n && len(self.waiters) == 0",
     "self.reserved += n",
     "self.mu.Unlock()",
     "return nil",
     "if n > self.maxSize",
     "self.mu.Unlock()",
     "return <error>",
     "if len(self.waiters) == 0 && self.curSize-self.reserved > 0",
     "ready := make(chan struct{})",
     "w := waiter{amount: n, ready: ready}",
     "self.waiters = append(self.waiters, w)",
     "self.mu.Unlock()",
     "<-ready",
     "return nil"] := by
  first | exact Or.inr rfl | exact Or.inl rfl

/-- `Enqueue`: only the lines that mention a semaphore, an amount, `GetSystemReqs` or
`executeLocal` are kept (filter `enqueueKeep`): the Acquire calls with their amount
expressions and the Release calls, in source order.  The `if err != nil` / `return` lines of
the refusal path and the `defer func` lines are NOT in this skeleton: that a refusal returns
and gives back what is held, and that the releases are deferred, is pinned by
`release_order_ok` (which looks inside the `defer` statements) and by the differential run of
real jobs (refused jobs, reservations at every quiescent point). -/
theorem skel_Enqueue_ok :
    Gen.c12Skel_Enqueue_extracted = false ∨ Gen.c12Skel_Enqueue =
    ["res := self.GetSystemReqs(resRequest)",
     "centiCores := int64(math.Ceil(res.Threads * 100))",
     "err := self.centcoreSem.Acquire(centiCores)",
     "self.centcoreSem.Release(centiCores)",
     "memMb := int64(math.Ceil(res.MemGB * 1024))",
     "err := self.memMBSem.Acquire(memMb)",
     "self.memMBSem.Release(memMb)",
     "sem := self.vmemMBSem",
     "vmem := int64(res.VMemGB) * 1024",
     "err := sem.Acquire(vmem)",
     "sem.Release(vmem)",
     "if self.procsSem != nil",
     "procEstimate := procsPerJob + (centiCores+99)/100",
     "err := self.procsSem.Acquire(procEstimate)",
     "self.procsSem.Release(procEstimate)",
     "err := executeLocal(cmd, stdoutPath, stderrPath, localpreflight, metadata)"] := by
  first | exact Or.inr rfl | exact Or.inl rfl

/-- The translated ties of `GetSystemReqs` (`Props/C12Tie.lean`) are about terms that were
really TRANSLATED from the current source: when the translator falls back to its committed
default (function left the translatable subset, fragment marker not found) this obligation
breaks — without it the tie theorems would stay true of the default and say nothing about the
tree. -/
theorem translated_ties_extracted :
    Gen.tr_GSR_centi_extracted = true ∧ Gen.tr_GSR_mem_extracted = true ∧
    Gen.tr_GSR_vmem_extracted = true := by decide

/- `skel_GetSystemReqs_ok` (the textual skeleton of `GetSystemReqs`) has been RETIRED: the
integer logic of `GetSystemReqs` is now translated from the Go source on every run and tied by
theorems (`Props/C12Tie.lean`: `tr_GSR_centi_eq_model`, `tr_GSR_mem_eq_model`,
`tr_GSR_vmem_eq_model`, `tr_GSR_normalize`), which tolerate harmless rewrites the textual
skeleton alarmed on; the differential GetSystemReqs vs `normalize` stays. -/


theorem skel_MaxJobsAcquire_ok :
    Gen.c12Skel_MaxJobsAcquire_extracted = false ∨ Gen.c12Skel_MaxJobsAcquire =
    ["if metadata == nil",
     "return false",
     "canceled := func",
     "st, ok := metadata.getState()",
     "return ok && st != Queued && st != Waiting && !(nonblocking && st == Running)",
     "if canceled()",
     "return false",
     "defer self.cond.Signal()",
     "self.lock.Lock()",
     "defer self.lock.Unlock()",
     "for len(self.running) >= self.Limit",
     "if self.Limit <= 0",
     "return false",
     "if canceled()",
     "return false",
     "_, ok := self.running[metadata]",
     "if ok",
     "return true",
     "if nonblocking",
     "return false",
     "self.cond.Wait()",
     "if canceled()",
     "return false",
     "self.running[metadata] = struct{}{}",
     "return true"] := by
  first | exact Or.inr rfl | exact Or.inl rfl

theorem skel_MaxJobsClear_ok :
    Gen.c12Skel_MaxJobsClear_extracted = false ∨ Gen.c12Skel_MaxJobsClear =
    ["self.lock.Lock()",
     "defer self.lock.Unlock()",
     "self.Limit = 0",
     "self.cond.Broadcast()"] := by
  first | exact Or.inr rfl | exact Or.inl rfl

theorem skel_MaxJobsFindDone_ok :
    Gen.c12Skel_MaxJobsFindDone_extracted = false ∨ Gen.c12Skel_MaxJobsFindDone =
    ["self.lock.Lock()",
     "defer self.lock.Unlock()",
     "finished := make([]*Metadata, 0, len(self.running))",
     "for range self.running",
     "st, ok := m.getState()",
     "if ok && st != Running && st != Queued",
     "finished = append(finished, m)",
     "if len(finished) > 0",
     "for range finished",
     "delete(self.running, m)",
     "spare := self.Limit - len(self.running)",
     "if spare > 1",
     "self.cond.Broadcast()",
     "else",
     "if spare == 1",
     "self.cond.Signal()"] := by
  first | exact Or.inr rfl | exact Or.inl rfl

theorem skel_MaxJobsRelease_ok :
    Gen.c12Skel_MaxJobsRelease_extracted = false ∨ Gen.c12Skel_MaxJobsRelease =
    ["if metadata == nil",
     "return",
     "self.lock.Lock()",
     "defer self.lock.Unlock()",
     "_, ok := self.running[metadata]",
     "if ok",
     "delete(self.running, metadata)",
     "self.cond.Signal()"] := by
  first | exact Or.inr rfl | exact Or.inl rfl

theorem skel_Release_ok :
    Gen.c12Skel_Release_extracted = false ∨ Gen.c12Skel_Release =
    ["self.mu.Lock()",
     "defer self.mu.Unlock()",
     "self.reserved -= n",
     "if self.reserved < 0",
     "panic(\"semaphore: bad release\")",
     "self.runJobs()"] := by
  first | exact Or.inr rfl | exact Or.inl rfl

theorem skel_UpdateActual_ok :
    Gen.c12Skel_UpdateActual_extracted = false ∨ Gen.c12Skel_UpdateActual =
    ["self.mu.Lock()",
     "actualSize := n + self.reserved",
     "oldSize := self.curSize",
     "if actualSize > self.maxSize",
     "self.curSize = self.maxSize",
     "else",
     "self.curSize = actualSize",
     "if oldSize < self.curSize",
     "self.runJobs()",
     "self.mu.Unlock()",
     "return actualSize - self.maxSize"] := by
  first | exact Or.inr rfl | exact Or.inl rfl

theorem skel_UpdateFreeUsed_ok :
    Gen.c12Skel_UpdateFreeUsed_extracted = false ∨ Gen.c12Skel_UpdateFreeUsed =
    ["actualSize := free + usedReservation",
     "self.mu.Lock()",
     "oldSize := self.curSize",
     "if usedReservation <= self.reserved",
     "if actualSize > self.maxSize",
     "self.curSize = self.maxSize",
     "else",
     "self.curSize = actualSize",
     "else",
     "adjust := usedReservation - self.reserved",
     "if actualSize > self.maxSize-adjust",
     "self.curSize = self.maxSize - adjust",
     "else",
     "self.curSize = actualSize - adjust",
     "if oldSize < self.curSize",
     "self.runJobs()",
     "self.mu.Unlock()",
     "return actualSize - self.maxSize"] := by
  first | exact Or.inr rfl | exact Or.inl rfl

theorem skel_UpdateSize_ok :
    Gen.c12Skel_UpdateSize_extracted = false ∨ Gen.c12Skel_UpdateSize =
    ["self.mu.Lock()",
     "defer self.mu.Unlock()",
     "oldSize := self.curSize",
     "self.curSize = n",
     "if oldSize < self.curSize",
     "self.runJobs()"] := by
  first | exact Or.inr rfl | exact Or.inl rfl

theorem skel_runJobs_ok :
    Gen.c12Skel_runJobs_extracted = false ∨ Gen.c12Skel_runJobs =
    ["for range self.waiters",
     "if self.curSize-self.reserved < waiter.amount",
     "if self.curSize-self.reserved > 0",
     "self.waiters = self.waiters[i:]",
     "return",
     "self.reserved += waiter.amount",
     "close(waiter.ready)",
     "waiter.ready = nil",
     "if cap(self.waiters) < 2+2*len(self.waiters)",
     "self.waiters = nil",
     "else",
     "self.waiters = self.waiters[len(self.waiters):]"] := by
  first | exact Or.inr rfl | exact Or.inl rfl

/-- `refreshResources`: which sampled quantity goes into which availability
update (the sampled values themselves are environment input, not modelled):
memory `UpdateFreeUsed(free, rss of mrp's CHILDREN — mrp itself excluded)`,
vmem `UpdateActual(max - vmem of the children)`, cores `UpdateActual(idle cores)`,
processes `UpdateFreeUsed(rlimit - user's processes, children + startingThreadCount)`. -/
theorem skel_refreshResources_ok :
    Gen.c12Skel_refreshResources_extracted = true ∧ Gen.c12Skel_refreshResources =
    ["err := sysMem.Get()",
     "usedMem, err := GetProcessTreeMemory(os.Getpid(), false, nil)",
     "memDiff := self.memMBSem.UpdateFreeUsed( (sysMem.ActualFree+1024*1024-1)/(1024*1024), (usedMem.Rss+1024*1024-1)/(1024*1024))",
     "if self.vmemMBSem != nil",
     "self.vmemMBSem.UpdateActual( self.maxVmemMB - usedMem.Vmem/(1024*1024))",
     "if self.limitLoad",
     "err := load.Get()",
     "diff := self.centcoreSem.UpdateActual( int64((float64(runtime.NumCPU()) - load.One + 0.9) * 100), )",
     "if self.procsSem != nil",
     "rlim, err := GetMaxProcs()",
     "userProcs, err := GetUserProcessCount()",
     "self.procsSem.UpdateFreeUsed( rlimCur(rlim)-int64(userProcs), int64(usedMem.Procs)+startingThreadCount)"] := by
  exact ⟨rfl, rfl⟩

theorem skel_setupSemaphores_ok :
    Gen.c12Skel_setupSemaphores_extracted = false ∨ Gen.c12Skel_setupSemaphores =
    ["self.centcoreSem = NewResourceSemaphore(int64(self.maxCores)*100, formatCentiThreads)",
     "self.memMBSem = NewResourceSemaphore(int64(self.maxMemGB)*1024, formatMemMB)",
     "if self.maxVmemMB > 0",
     "self.vmemMBSem = NewResourceSemaphore(self.maxVmemMB, formatVMemMB)",
     "rlim, err := GetMaxProcs()",
     "if rlimMax(rlim) > startingThreadCount && rlimCur(rlim) > startingThreadCount",
     "self.procsSem = NewResourceSemaphore(rlimMax(rlim), DefaultResourceFormatter(\"processes\"))",
     "err := self.procsSem.Acquire(startingThreadCount)",
     "userProcs, err := GetUserProcessCount()",
     "self.procsSem.UpdateSize(rlimCur(rlim))",
     "self.procsSem.UpdateFreeUsed( rlimCur(rlim)-int64(userProcs), startingThreadCount)",
     "if self.procsSem.Available()/(procsPerJob+1) < int64(self.maxCores)",
     "if rlimMax(rlim) > rlimCur(rlim)"] := by
  first | exact Or.inr rfl | exact Or.inl rfl

/-! ## Availability updates are applied exactly (no dead band) -/

/-- **The observation is applied.**  After `UpdateSize` / `UpdateActual` /
`UpdateFreeUsed` the current size is exactly the value computed from the
arguments, however small the change. -/
theorem observation_is_applied (s : Sem) (op : SemOp) (c : Int) (h : observedSize s op = some c) :
    (step s op).1.cur = c := by
  cases op with
  | acquire id n => simp [observedSize] at h
  | release n => simp [observedSize] at h
  | updActual n =>
    simp only [observedSize, Option.some.injEq] at h
    simp only [step]; rw [← h]; exact (setCur_cur s _).1
  | updSize n =>
    simp only [observedSize, Option.some.injEq] at h
    simp only [step]; rw [← h]; exact (setCur_cur s _).1
  | updFreeUsed f u =>
    simp only [observedSize, Option.some.injEq] at h
    simp only [step]; rw [← h]; exact (setCur_cur s _).1

/-- **No waiter is left behind by an availability update**: after an update
that reports the size `c`, the queue is empty or its head does not fit
`c - reserved` — for every amount of growth, down to 1 (the harness monitors
exactly this on the real semaphore: `lost-wakeup` against the last reported
availability). -/
theorem no_waiter_fits_last_observation (s : Sem) (op : SemOp) (c : Int)
    (h : observedSize s op = some c) (hs : NoLost s) :
    match (step s op).1.waiters with
    | [] => True
    | w :: _ => c - (step s op).1.reserved < w.2 := by
  have hp : hasPanic (step s op).2 = false := by
    cases op with
    | acquire id n => simp [observedSize] at h
    | release n => simp [observedSize] at h
    | updActual n => simp [step, hasPanic_append, setCur_hasPanic, hasPanic]
    | updSize n => simp [step, setCur_hasPanic]
    | updFreeUsed f u => simp [step, hasPanic_append, setCur_hasPanic, hasPanic]
  have hn := step_noLost s op hs hp
  have hc := observation_is_applied s op c h
  unfold NoLost at hn
  rw [hc] at hn
  exact hn

/-! ## The availability-update path: `refreshResources` (caller arithmetic + semaphore)

Model: Martian/SemaphoreRefresh.lean — the arguments `refreshResources` computes
from what the OS reports (`Obs`), fed to `step`.  "Never stalls" here: the
update must not make the grantable size smaller than what the OS offers, so a
job that fits the limits is not parked for ever. -/

section Refresh
open Martian.SemaphoreRefresh

/-- **An idle (or honest) refresh restores the full size.**  If the usage of the
process tree below mrp, in whole MB rounded up, is at most what is reserved (in
particular nothing running: 0 ≤ 0) and free + that usage reaches the limit, the
memory semaphore's current size after `refreshResources` is exactly the limit. -/
theorem idle_refresh_restores_full_size (s : Sem) (o : Obs)
    (hu : ceilMB o.rss ≤ s.reserved) (hf : s.max ≤ ceilMB o.actualFree + ceilMB o.rss) :
    (step s (refreshMemOp o)).1.cur = s.max := by
  simp only [refreshMemOp, memArgs, step_updFreeUsed_cur]
  exact freeUsedCur_full s _ _ hu hf

/-- the same in bytes for the idle case: nothing below mrp uses memory, the OS
has at least the limit free -/
theorem idle_refresh_full_size_bytes (s : Sem) (o : Obs) (hr : o.rss = 0) (h0 : 0 ≤ s.reserved)
    (hf : s.max * MB ≤ o.actualFree) : (step s (refreshMemOp o)).1.cur = s.max := by
  apply idle_refresh_restores_full_size
  · rw [hr, ceilMB_zero]; exact h0
  · rw [hr, ceilMB_zero]; have := ceilMB_ge o.actualFree s.max hf; omega

/-- **A refresh never parks a job that fits.**  Under the same hypotheses, after
the refresh the queue is empty or its head does not fit `maxSize - reserved`:
whoever fits the limit has been granted by this very call. -/
theorem refresh_never_parks_a_fitting_job (s : Sem) (o : Obs) (hs : NoLost s)
    (hu : ceilMB o.rss ≤ s.reserved) (hf : s.max ≤ ceilMB o.actualFree + ceilMB o.rss) :
    match (step s (refreshMemOp o)).1.waiters with
    | [] => True
    | w :: _ => s.max - (step s (refreshMemOp o)).1.reserved < w.2 := by
  apply no_waiter_fits_last_observation s (refreshMemOp o) s.max _ hs
  simp only [refreshMemOp, memArgs, observedSize, Option.some.injEq]
  exact freeUsedCur_full s _ _ hu hf

/-- … and with nobody waiting, the next request that fits `maxSize - reserved`
(in particular, after an idle refresh, a lone job asking for the whole limit)
is granted at once. -/
theorem limit_job_granted_after_refresh (s : Sem) (o : Obs) (id : Nat) (n : Int)
    (hw : s.waiters = []) (hu : ceilMB o.rss ≤ s.reserved)
    (hf : s.max ≤ ceilMB o.actualFree + ceilMB o.rss) (hn : n ≤ s.max - s.reserved) :
    (step (step s (refreshMemOp o)).1 (.acquire id n)).2 = [.grant id n] := by
  have hc := freeUsedCur_full s _ _ hu hf
  simp only [refreshMemOp, memArgs, step, setCur_noWaiters s _ hw, hc, hw]
  simp [hn]

/-- **More free memory never gives a smaller size** (same tree usage). -/
theorem more_free_memory_never_smaller_size (s : Sem) (o1 o2 : Obs)
    (h : o1.actualFree ≤ o2.actualFree) (hr : o1.rss = o2.rss) :
    (step s (refreshMemOp o1)).1.cur ≤ (step s (refreshMemOp o2)).1.cur := by
  simp only [refreshMemOp, memArgs, step_updFreeUsed_cur, hr]
  exact freeUsedCur_mono s _ _ _ (ceilMB_mono _ _ h)

/-- vmem: while the address space of the tree below mrp (whole MB) is within
the reservations, the refresh restores the full vmem limit. -/
theorem refresh_vmem_full_when_usage_within_reservations (s : Sem) (o : Obs)
    (h : o.vmem / MB ≤ s.reserved) : (step s (refreshVmemOp s.max o)).1.cur = s.max := by
  simp only [refreshVmemOp, vmemArg, step_updActual_cur]
  split
  · rfl
  · omega

/-- process count: usage within the reservations and enough head-room under the
rlimit ⇒ full size -/
theorem refresh_procs_full_size (s : Sem) (o : Obs)
    (hu : o.procs + startingThreadCount ≤ s.reserved)
    (hf : s.max ≤ o.rlimCur - o.userProcs + (o.procs + startingThreadCount)) :
    (step s (refreshProcsOp o)).1.cur = s.max := by
  simp only [refreshProcsOp, procsArgs, step_updFreeUsed_cur]
  exact freeUsedCur_full s _ _ hu hf

/-- **Why mrp's own usage must not be counted** (negative witness, replayed in
spirit by the harness's worker processes).  1 GB limit, 8 GB free, nothing
running.  With the tree usage as the code takes it (children only) the size
stays 1024 and a job asking for the whole limit starts.  If mrp's own 30 MB were
counted as "usage of the reservations" (30 > reserved = 0) the size becomes
1024 - 30 = 994, the job is queued, and no number of identical refreshes ever
grants it. -/
theorem own_usage_as_reservation_parks_limit_job :
    let o : Obs := ⟨8 * 1024 * MB, 0, 0, 0, 0, 4096, 100⟩
    let o' := o.withOwn (30 * MB) (700 * MB) 12
    let ok := step (step (Sem.init 1024) (refreshMemOp o)).1 (.acquire 1 1024)
    let s1 := (step (Sem.init 1024) (refreshMemOp o')).1
    let r2 := step s1 (.acquire 1 1024)
    let s4 := (step (step r2.1 (refreshMemOp o')).1 (refreshMemOp o')).1
    ok.2 = [.grant 1 1024] ∧ s1.cur = 994 ∧ r2.2 = [] ∧ s4.waiters = [(1, 1024)] ∧ s4.cur = 994 := by
  decide

/-- regenerated: `refreshResources` samples the tree BELOW mrp
(`GetProcessTreeMemory(os.Getpid(), false, nil)`) -/
theorem refresh_excludes_own_usage :
    Gen.refreshTreeIncludesParent_extracted = true ∧ Gen.refreshTreeIncludesParent = false ∧
    Gen.refreshTreeCall_extracted = true ∧ Gen.refreshTreeCall = ["os.Getpid()", "false", "nil"] := by
  decide

/-- regenerated: the argument expressions of the four `Update*` calls are the
ones `memArgs` / `vmemArg` / `coresArg` / `procsArgs` model -/
theorem refresh_update_args_ok :
    Gen.refreshUpdateArgs_extracted = true ∧ Gen.refreshUpdateArgs =
    [("memMBSem", "UpdateFreeUsed", ["(sysMem.ActualFree + 1024*1024 - 1) / (1024 * 1024)",
        "(usedMem.Rss + 1024*1024 - 1) / (1024 * 1024)"]),
     ("vmemMBSem", "UpdateActual", ["self.maxVmemMB - usedMem.Vmem/(1024*1024)"]),
     ("centcoreSem", "UpdateActual", ["int64((float64(runtime.NumCPU()) - load.One + 0.9) * 100)"]),
     ("procsSem", "UpdateFreeUsed", ["rlimCur(rlim) - int64(userProcs)",
        "int64(usedMem.Procs) + startingThreadCount"])] := by
  exact ⟨rfl, rfl⟩

end Refresh

/-! ## Cluster mode: reconciliation with the scheduler's queue (queue query)

Model: Martian/SemaphoreQueue.lean (`Pipestance.queryQueue`,
`RemoteJobManager.checkQueue`, `Metadata.failNotRunning`, `Metadata.endRefresh`
as called by `Node.refreshState`).  `jobRun s evs j` is the job `j` of state `s`
after the events `evs` (`run_follows_jobs`).  What "never stalls" means here: a
job that silently vanished from the cluster (the scheduler no longer lists it,
it never writes anything) does not keep the pipestance waiting for ever. -/

section QueueQuery
open Martian

/-- **Safety, one event.**  The only thing that fails a job "not queued or
running" is a `refreshState` at a time `t` later than mark + grace period, where
the mark was made (see `mark_only_by_omitting_answer`) and BOTH mrp's cached
state and the files the job has written so far (the journal is applied first)
still say Queued/Running: a job that finished within the grace period, or
whose completion reached the journal before the refresh, is not failed. -/
theorem recon_fails_only_after_grace (s : SemaphoreQueue.Q) (ev : SemaphoreQueue.Ev) (j : SemaphoreQueue.Job)
    (h : (SemaphoreQueue.stepJob s ev j).st = .notQueued) (h0 : j.st ≠ .notQueued)
    (hd : j.disk ≠ .notQueued) :
    ∃ t s0, ev = .refresh t ∧ j.since = some s0 ∧ s0 + s.grace < t ∧
      j.st.alive = true ∧ j.disk.alive = true :=
  SemaphoreQueue.stepJob_notQueued s ev j h h0 hd

/-- A mark (`notRunningSince`) is only ever set by a successful answer that
omits the job, and carries that answer's time. -/
theorem mark_only_by_omitting_answer (s : SemaphoreQueue.Q) (ev : SemaphoreQueue.Ev)
    (j : SemaphoreQueue.Job) (s0 : Nat) (h : (SemaphoreQueue.stepJob s ev j).since = some s0) :
    j.since = some s0 ∨ ∃ out, ev = .answer s0 (some out) ∧ j.jobid ∉ out :=
  SemaphoreQueue.stepJob_since s ev j s0 h

/-- **Safety over a run.**  A job which every successful answer names (failed
query commands count as "everything is still there") is never marked and never
failed by the reconciliation, whatever else happens and however long it runs. -/
theorem reported_job_never_failed (s : SemaphoreQueue.Q) (evs : List SemaphoreQueue.Ev)
    (j : SemaphoreQueue.Job) (hr : SemaphoreQueue.Reported j.jobid evs) (hs : j.since = none)
    (hd : j.disk ≠ .notQueued) (h0 : j.st ≠ .notQueued) :
    (SemaphoreQueue.jobRun s evs j).since = none ∧ (SemaphoreQueue.jobRun s evs j).st ≠ .notQueued :=
  SemaphoreQueue.jobRun_reported s evs j hr hs hd h0

/-- The hypothesis "EVERY answer names it" cannot be weakened to "the scheduler
reports it now": nothing clears a mark.  A job omitted by one answer (time 0) and
named by every later one (times 300, 600) is still failed by the first refresh
after the grace period (40) although the scheduler has been listing it all
along.  (Replayed on the real code by the harness: documented limit — the code
trusts a single omitting answer; the struct comment on `notRunningSince` says
"not found last time the job manager was queried".) -/
theorem reported_again_still_failed :
    let j : SemaphoreQueue.Job := ⟨"7", true, .running, .running, none⟩
    let s : SemaphoreQueue.Q := ⟨40, 300, none, none, [j]⟩
    (SemaphoreQueue.jobRun s [.issue 0, .answer 0 (some [""]), .issue 300, .answer 300 (some ["7", ""]),
        .refresh 301, .issue 600, .answer 600 (some ["7", ""]), .refresh 601] j).st = .notQueued := by
  decide

/-- a query command that fails marks nothing -/
theorem failed_query_marks_nothing (s : SemaphoreQueue.Q) (t : Nat) (j : SemaphoreQueue.Job) :
    SemaphoreQueue.stepJob s (.answer t none) j = j := by
  simp only [SemaphoreQueue.stepJob]
  cases s.active with
  | none => rfl
  | some ids => simp [Option.getD]

/-- **The query is issued.**  With no query in flight and at least
`QUEUE_CHECK_LIMIT` (regenerated: `Gen.queueCheckLimitSecs` = 300 s) since the
last one finished, a call of `queryQueue` starts a query which asks about every
in-flight job. -/
theorem query_issued_after_limit (s : SemaphoreQueue.Q) (t : Nat) (j : SemaphoreQueue.Job)
    (hlim : s.limit = Gen.queueCheckLimitSecs)
    (hj : j ∈ s.jobs) (hok : j.inFlight) (hact : s.active = none)
    (hlast : ∀ l, s.last = some l → l + 300 ≤ t) :
    ∃ ids, (SemaphoreQueue.step s (.issue t)).active = some ids ∧ j.jobid ∈ ids := by
  apply SemaphoreQueue.issue_effective s t j hj hok hact
  simp only [SemaphoreQueue.rateLimited]
  cases hl : s.last with
  | none => rfl
  | some l =>
    have := hlast l hl
    have h300 : Gen.queueCheckLimitSecs = 300 := by decide
    simp only [hlim, h300, decide_eq_false_iff_not]
    omega

/-- **A silently lost job is eventually failed** (so the pipestance does not
wait for it for ever).  Let job `j` be in flight (Queued/Running in mrp's view
and on disk, with a job id) and lost during the whole run: it writes nothing
and no successful answer names it.  If at some point `queryQueue` is called at
`t1` with no query in flight and the rate limit passed, its answer arrives
(command succeeded) at `t2`, and `refreshState` runs at any `t3 > t2 + grace`,
then after that refresh `j` is failed — whatever happens in between (`pre`,
`mid1`, `mid2` are arbitrary: other jobs' progress, further query attempts,
refreshes, answers of earlier queries before `t2`).
Bound: t3 − (time of loss) ≤ (wait for the rate limit: < limit + heartbeat
period, `query_issued_after_limit`) + query latency + grace + refresh period.
Needs a SUCCESSFUL answer: with a query command that always fails the job is
never failed by this path (`broken_query_never_fails_lost_job`). -/
theorem lost_job_eventually_failed (s : SemaphoreQueue.Q) (j : SemaphoreQueue.Job)
    (pre mid1 mid2 : List SemaphoreQueue.Ev) (t1 t2 t3 : Nat) (out : List String)
    (hj : j ∈ s.jobs) (hok : j.inFlight)
    (hl : SemaphoreQueue.Lost j.jobid
      (pre ++ (SemaphoreQueue.Ev.issue t1 :: (mid1 ++ (SemaphoreQueue.Ev.answer t2 (some out) :: mid2)))))
    (hact : (SemaphoreQueue.run s pre).active = none)
    (hrate : SemaphoreQueue.rateLimited (SemaphoreQueue.run s pre) t1 = false)
    (hmid : SemaphoreQueue.noAnswer mid1) (hby : SemaphoreQueue.answersBy t2 pre)
    (h0 : ∀ s0, j.since = some s0 → s0 ≤ t2) (ht : t2 + s.grace < t3) :
    (SemaphoreQueue.jobRun s
      (pre ++ (SemaphoreQueue.Ev.issue t1 :: (mid1 ++ (SemaphoreQueue.Ev.answer t2 (some out) ::
        (mid2 ++ [SemaphoreQueue.Ev.refresh t3]))))) j).st = .notQueued :=
  SemaphoreQueue.lost_job_failed s j pre mid1 mid2 t1 t2 t3 out hj hok hl hact hrate hmid hby h0 ht

/-- The success of the query command is necessary: if every answer is a command
failure (`checkQueue` then returns the queried ids unchanged) a lost job is
never marked, so never failed by the reconciliation — only the 60-minute
heartbeat timeout (Running jobs only; not modelled) is left. -/
theorem broken_query_never_fails_lost_job (s : SemaphoreQueue.Q) (evs : List SemaphoreQueue.Ev)
    (j : SemaphoreQueue.Job) (hfail : ∀ t out, SemaphoreQueue.Ev.answer t out ∈ evs → out = none)
    (hs : j.since = none) (hd : j.disk ≠ .notQueued) (h0 : j.st ≠ .notQueued) :
    (SemaphoreQueue.jobRun s evs j).st ≠ .notQueued := by
  refine (SemaphoreQueue.jobRun_reported s evs j ?_ hs hd h0).2
  intro ev hev
  cases ev with
  | answer t out =>
    have := hfail t out hev
    subst this
    trivial
  | issue t => trivial
  | refresh t => trivial
  | progress i d => trivial

/-- an empty answer (exit status 0, no output: `strings.Split("", "\n")` is `[""]`)
is NOT treated as a broken command: every queried job is marked -/
theorem empty_answer_marks_every_queried_job :
    let js : List SemaphoreQueue.Job := [⟨"a", true, .queued, .queued, none⟩, ⟨"b", true, .running, .running, none⟩]
    let s : SemaphoreQueue.Q := ⟨40, 300, none, none, js⟩
    ((SemaphoreQueue.run s [.issue 5, .answer 6 (some [""])]).jobs.map (·.since))
      = [some 6, some 6] := by
  decide

/-- the grace period of a configured job mode: `queue_query_grace_secs`, one hour when 0 -/
theorem grace_default_ok :
    Gen.queueGraceDefaultSecs_extracted = true ∧
    SemaphoreQueue.graceOfConfig 0 Gen.queueGraceDefaultSecs = 3600 ∧
    SemaphoreQueue.graceOfConfig 40 Gen.queueGraceDefaultSecs = 40 := by decide

/-! ### Regenerated obligations: the code the queue-query model mirrors -/

theorem skel_queryQueue_ok :
    Gen.c12Skel_queryQueue_extracted = false ∨ Gen.c12Skel_queryQueue =
    ["defer func",
     "if self.node == nil || self.node.top == nil || self.node.top.rt == nil || self.node.top.rt.JobManager == nil || !self.node.top.rt.JobManager.hasQueueCheck()",
     "return",
     "QUEUE_CHECK_LIMIT := 5 * time.Minute",
     "self.queueCheckLock.Lock()",
     "if self.queueCheckActive || time.Since(self.lastQueueCheck) < QUEUE_CHECK_LIMIT",
     "self.queueCheckLock.Unlock()",
     "return",
     "else",
     "self.queueCheckActive = true",
     "self.queueCheckLock.Unlock()",
     "needsQuery := make(map[string]*Metadata)",
     "metas := make(map[*Metadata]bool)",
     "nodes := self.node.getFrontierNodes()",
     "for range nodes",
     "for range node.collectMetadatas()",
     "if !metas[m]",
     "st, ok := m.getState()",
     "if ok && (st == Queued || st == Running) && m.exists(JobId)",
     "metas[m] = true",
     "id := m.readRaw(JobId)",
     "if id != \"\"",
     "needsQuery[id] = m",
     "if len(needsQuery) == 0",
     "self.queueCheckLock.Lock()",
     "self.queueCheckActive = false",
     "self.queueCheckLock.Unlock()",
     "return",
     "jobsIn := make([]string, 0, len(needsQuery))",
     "for range needsQuery",
     "jobsIn = append(jobsIn, id)",
     "go",
     "queued, raw := self.node.top.rt.JobManager.checkQueue(jobsIn, ctx)",
     "for range queued",
     "delete(needsQuery, id)",
     "if len(needsQuery) > 0 && raw != \"\"",
     "if !self.readOnly()",
     "for range needsQuery",
     "if m != nil",
     "m.failNotRunning(id)",
     "self.queueCheckLock.Lock()",
     "self.queueCheckActive = false",
     "self.lastQueueCheck = time.Now()",
     "self.queueCheckLock.Unlock()"] := by
  first | exact Or.inr rfl | exact Or.inl rfl

theorem skel_checkQueue_ok :
    Gen.c12Skel_checkQueue_extracted = false ∨ Gen.c12Skel_checkQueue =
    ["if self.config.queueQueryCmd == \"\"",
     "return ids, \"\"",
     "jobPath := util.RelPath(path.Join(\"..\", \"jobmanagers\"))",
     "cmd := exec.CommandContext(ctx, path.Join(jobPath, self.config.queueQueryCmd))",
     "cmd.Dir = jobPath",
     "cmd.Stdin = strings.NewReader(strings.Join(ids, \"\\n\"))",
     "cmd.Stderr = &stderr",
     "output, err := cmd.Output()",
     "if err != nil",
     "return ids, stderr.String()",
     "return strings.Split(string(output), \"\\n\"), stderr.String()"] := by
  first | exact Or.inr rfl | exact Or.inl rfl

theorem skel_failNotRunning_ok :
    Gen.c12Skel_failNotRunning_extracted = false ∨ Gen.c12Skel_failNotRunning =
    ["if !self.exists(JobId)",
     "return",
     "st, _ := self.getState()",
     "if st != Running && st != Queued",
     "return",
     "self.poll()",
     "st, _ := self.getState()",
     "if st != Running && st != Queued",
     "return",
     "self.mutex.Lock()",
     "defer self.mutex.Unlock()",
     "if !self.notRunningSince.IsZero()",
     "return",
     "if self.readRaw(JobId) != jobid",
     "return",
     "if !self._existsNoLock(JobId)",
     "return",
     "self.notRunningSince = time.Now()"] := by
  first | exact Or.inr rfl | exact Or.inl rfl

theorem skel_endRefresh_ok :
    Gen.c12Skel_endRefresh_extracted = false ∨ Gen.c12Skel_endRefresh =
    ["self.mutex.Lock()",
     "self.lastRefresh = lastRefresh",
     "if !self.notRunningSince.IsZero() && self.notRunningSince.Before(lastRefresh)",
     "notRunningSince := self.notRunningSince",
     "self.notRunningSince = time.Time{}",
     "state, _ := self._getStateNoLock()",
     "if state == Running || state == Queued",
     "jobid := self.readRaw(JobId)",
     "if jobid != \"\"",
     "if state == Running",
     "else",
     "self.mutex.Unlock()"] := by
  first | exact Or.inr rfl | exact Or.inl rfl

end QueueQuery

/-! ## Non-vacuity -/

/-- a lost job among healthy ones: query at 0 answered at 2 without it, a further
(rate-limited) attempt, refresh after the grace period: failed; the hypotheses of
`lost_job_eventually_failed` hold for it -/
example :
    let j : Martian.SemaphoreQueue.Job := ⟨"12", true, .running, .running, none⟩
    let k : Martian.SemaphoreQueue.Job := ⟨"13", true, .queued, .queued, none⟩
    let s : Martian.SemaphoreQueue.Q := ⟨40, 300, none, none, [k, j]⟩
    j ∈ s.jobs ∧ j.inFlight ∧
    Martian.SemaphoreQueue.Lost j.jobid ([] ++ (.issue 0 :: ([.progress "13" .running] ++ (.answer 2 (some ["13", ""]) :: [.issue 10])))) ∧
    (Martian.SemaphoreQueue.run s []).active = none ∧
    Martian.SemaphoreQueue.rateLimited (Martian.SemaphoreQueue.run s []) 0 = false ∧
    Martian.SemaphoreQueue.noAnswer [.progress "13" .running] ∧
    ((Martian.SemaphoreQueue.run s [.issue 0, .progress "13" .running, .answer 2 (some ["13", ""]), .issue 10,
        .refresh 43]).jobs.map (·.st)) = [.running, .notQueued] := by
  refine ⟨by decide, ⟨rfl, rfl, rfl, by decide⟩, ?_, rfl, rfl, ?_, by decide⟩
  · intro ev hev
    simp only [List.nil_append, List.cons_append, List.mem_cons, List.mem_nil_iff, or_false] at hev
    rcases hev with rfl | rfl | rfl | rfl <;> simp [Martian.SemaphoreQueue.Ev.lostFor]
  · intro ev hev
    simp only [List.mem_cons, List.mem_nil_iff, or_false] at hev
    subst hev; trivial

/-- a reported job: `Reported` holds and the job survives a refresh long after the grace period -/
example :
    let j : Martian.SemaphoreQueue.Job := ⟨"5", true, .queued, .queued, none⟩
    let s : Martian.SemaphoreQueue.Q := ⟨1, 300, none, none, [j]⟩
    Martian.SemaphoreQueue.Reported "5" [.issue 0, .answer 1 (some ["5"]), .progress "5" .running, .refresh 5000] ∧
    (Martian.SemaphoreQueue.jobRun s [.issue 0, .answer 1 (some ["5"]), .progress "5" .running, .refresh 5000] j).st = .running := by
  refine ⟨?_, by decide⟩
  intro ev hev
  simp only [List.mem_cons, List.mem_nil_iff, or_false] at hev
  rcases hev with rfl | rfl | rfl | rfl <;> simp [Martian.SemaphoreQueue.Ev.reports]

/-- the hypotheses of the refresh theorems are satisfiable: two jobs running (3 MB of rss
below mrp, 1536 MB reserved), plenty of memory free, a waiter that fits what is left -/
example :
    let s : Sem := ⟨2048, 1500, 1536, [(3, 512)]⟩
    let o : Martian.SemaphoreRefresh.Obs := ⟨50000 * Martian.SemaphoreRefresh.MB, 2500000, 5000000, 2, 0, 4096, 300⟩
    Martian.SemaphoreRefresh.ceilMB o.rss ≤ s.reserved ∧
    s.max ≤ Martian.SemaphoreRefresh.ceilMB o.actualFree + Martian.SemaphoreRefresh.ceilMB o.rss ∧
    NoLost s ∧
    (step s (Martian.SemaphoreRefresh.refreshMemOp o)).2 = [.grant 3 512, .ret 47955] := by decide

/-- the default configuration (no vmem semaphore) with a process rlimit of 4096:
three semaphores, an over-limit request is clamped into them -/
example :
    let c : LocalCfg := ⟨4, 8, 0, 1, 1, 0⟩
    Sane c ∧ localSizes c (some (4096 - startingThreadCount)) = [400, 8192, 4051] ∧
    localAmounts c true (acquireAmounts (normalize c 8192 0 ⟨700, 20000, 0⟩)) = [400, 8192, 19] := by decide

/-- limit 1: caller 1 (job 7) gets the slot, callers 2 and 3 (jobs 8, 9) park; job 8 is cancelled
meanwhile; Release signals caller 2, which returns false and — by the deferred Signal — hands the
wake-up on to caller 3, which gets the slot: quiescent, nobody parked -/
example :
    let s := (MJP.init 1).run [.enter 1 7 .queued false, .enter 2 8 .queued false, .enter 3 9 .queued false,
      .release 7, .resume 2 .other, .resume 3 .queued]
    ((MJP.init 1).run [.enter 1 7 .queued false, .enter 2 8 .queued false, .enter 3 9 .queued false]).parked
      = [(2, 8), (3, 9)] ∧
    s.running = [9] ∧ s.parked = [] ∧ s.woken = [] := by decide

/-- "an availability recovery reaches a lone waiter": the memory semaphore was lowered to 47 MB
by a shortage, a job asking for 2048 of 4096 MB waits, nobody is running (nothing reserved, no
usage below mrp); the next `refreshResources` on a machine with memory to spare grants it —
the instance of `refresh_never_parks_a_fitting_job` the refresh workers drive on the real code -/
example :
    let s : Sem := ⟨4096, 47, 0, [(1, 2048)]⟩
    let o : Martian.SemaphoreRefresh.Obs := ⟨50000 * Martian.SemaphoreRefresh.MB, 0, 0, 5, 0, 4096, 300⟩
    NoLost s ∧ Martian.SemaphoreRefresh.ceilMB o.rss ≤ s.reserved ∧
    (step s (Martian.SemaphoreRefresh.refreshMemOp o)).1.waiters = [] ∧
    (step s (Martian.SemaphoreRefresh.refreshMemOp o)).1.reserved = 2048 := by decide

/-- an update that grows the size by 1 wakes the waiter that now fits -/
example : observedSize ⟨8192, 8091, 0, [(1, 8092)]⟩ (.updActual 8092) = some 8092 ∧
    NoLost ⟨8192, 8091, 0, [(1, 8092)]⟩ ∧
    (step ⟨8192, 8091, 0, [(1, 8092)]⟩ (.updActual 8092)).1.waiters = [] := by decide

/-- a run with blocking, FIFO hand-over, an availability drop and a restore:
no panic, three requests accepted, all granted in order -/
example :
    let ops : List SemOp := [.acquire 1 6, .acquire 2 5, .acquire 3 4, .updActual 0,
                             .release 6, .updSize 10, .release 5]
    hasPanic (run (Sem.init 10) ops).2 = false ∧
    grantsOf (run (Sem.init 10) ops).2 = [(1, 6), (2, 5), (3, 4)] ∧
    (∀ op ∈ ops, OpOK 10 op) := by dsimp only; decide

/-- client ops with non-negative requests reaching a state with holders and waiters -/
example :
    let ops : List COp := [.acquire 1 6, .acquire 2 5, .acquire 3 4]
    (∀ op ∈ ops, op.reqNonneg) ∧ (∀ op ∈ ops, op.sizeOK 10) ∧
    (grun (G.init 10) ops).1.held = [(1, 6)] ∧
    (grun (G.init 10) ops).1.sem.waiters = [(2, 5), (3, 4)] ∧
    (drain 2 ((grun (G.init 10) ops).1.sem, (grun (G.init 10) ops).1.held)).1.waiters = [] := by
  dsimp only; decide

/-- `head_granted_when_fits` hypotheses are satisfiable, both outcomes occur -/
example : NoLost ⟨10, 10, 6, [(2, 5)]⟩ ∧
    grantsOf (step ⟨10, 10, 6, [(2, 5)]⟩ (.release 6)).2 = [(2, 5)] ∧
    (step ⟨10, 10, 6, [(2, 5)]⟩ (.release 0)).1.waiters = [(2, 5)] := by decide

/-- `no_stall` hypotheses are satisfiable -/
example :
    let ops : List COp := [.acquire 1 6, .acquire 2 5, .release 1, .release 2]
    (∀ op ∈ ops, op.reqNonneg) ∧ (grun (G.init 10) ops).1.held = [] ∧
    (grun (G.init 10) ops).1.sem.cur = (grun (G.init 10) ops).1.sem.max := by dsimp only; decide

/-- the local-job system: three jobs on two semaphores (job 3 does not fit the
first one); an interleaving in which every step is enabled, ending with nobody
able to act: jobs 1 and 2 ran, job 3 was refused -/
example :
    let y := Sys.init [4, 8] [(1, [3, 6]), (2, [2, 5]), (3, [9, 1])]
    let js := [2, 1, 3, 2, 2, 2, 2, 1, 1, 1, 1]
    y.EnabledSched js ∧ (y.runSched js).allOver = true ∧
    ((y.runSched js).jobs.map fun b => (b.id, b.ran, b.failed)) =
      [(1, true, false), (2, true, false), (3, false, true)] ∧
    fitsSizes [3, 6] [4, 8] ∧ ¬ fitsSizes [9, 1] [4, 8] := by
  refine ⟨by decide, by decide, by decide, ?_, ?_⟩
  · intro i m h; rcases i with _ | _ | i <;> simp at h <;> subst h <;> simp
  · intro h; have := h 0 4 rfl; simp at this

/-- `procsSetup`: ulimit -u 4096 (soft) / 8192 (hard), user process count unknown -/
example : procsSetup 4096 8192 none = some (8192, [.acquire 0 45, .updSize 4096]) ∧
    procsSetup (2 ^ 64 - 1) (2 ^ 64 - 1) none = none := by decide

/-- `overcommit_is_transient` hypotheses are satisfiable from an over-committed state -/
example : (run ⟨10, 2, 8, []⟩ [.acquire 1 1, .release 3, .release 5, .acquire 2 1]).1.reserved = 2 ∧
    (∀ op ∈ [SemOp.acquire 1 1, .release 3, .release 5, .acquire 2 1], op.isAcqRel = true) := by decide

/-- a sane configuration; zero, adaptive and oversized requests -/
example : Sane ⟨4, 8, 16384, 1, 1, 3⟩ ∧
    normalize ⟨4, 8, 16384, 1, 1, 3⟩ 8192 16384 ⟨0, 0, 0⟩ = ⟨100, 1024, 4096⟩ ∧
    normalize ⟨4, 8, 16384, 1, 1, 3⟩ 6000 16384 ⟨-100, -2048, 0⟩ = ⟨400, 6000, 9072⟩ ∧
    normalize ⟨4, 8, 16384, 1, 1, 3⟩ 8192 16384 ⟨900, 99999, 99999⟩ = ⟨400, 8192, 16384⟩ := by decide

/-- `reattach_restores_count`: two in-flight jobs, --maxjobs 2; a third job then has to wait -/
example : ((MJ.init 2).run (reattachOps [(3, .running), (1, .queued)])).running = [3, 1] ∧
    (((MJ.init 2).run (reattachOps [(3, .running), (1, .queued)])).attempt 0 .waiting false).2 = none := by decide

/-- MaxJobs: the limit is reached and a further blocking attempt waits -/
example :
    ((MJ.init 2).run [.attempt 1 .waiting false, .attempt 2 .queued false]).running = [1, 2] ∧
    (((MJ.init 2).run [.attempt 1 .waiting false, .attempt 2 .queued false]).attempt 3 .waiting false).2 = none := by
  decide

/-! ### definitional unfoldings (documentation of the model, not guarantees) -/

section Unfoldings
open Martian

/-- the jobs of the state after a run are the jobs of the state before, each followed through the run -/
theorem run_follows_jobs (s : SemaphoreQueue.Q) (evs : List SemaphoreQueue.Ev) :
    (SemaphoreQueue.run s evs).jobs = s.jobs.map (SemaphoreQueue.jobRun s evs) :=
  SemaphoreQueue.run_jobs s evs

/-- the process semaphore after `setupSemaphores` (with `UpdateSize(rlimCur)`) is
the semaphore of size `rlimMax - 45` "shifted" by a standing reservation of 45 -/
theorem procs_semaphore_after_setup (rmax rcur : Int) (h : startingThreadCount ≤ rmax) :
    (run (Sem.init rmax) [.acquire 0 startingThreadCount, .updSize rcur]).1
      = (⟨rmax - startingThreadCount, rcur - startingThreadCount, 0, []⟩ : Sem).shift startingThreadCount := by
  have hfit : startingThreadCount ≤ rmax - 0 := by omega
  simp only [run, step, Sem.init, hfit, List.isEmpty_nil, and_self, if_true, Sem.setCur, Sem.wake, runJobs,
    Sem.shift]
  split <;> simp <;> omega

/-- the Boolean the driver evaluates on every real configuration (`C12.cfgsizes`)
is the hypothesis `Sane` of the clamping theorems -/
theorem saneB_iff_Sane (c : LocalCfg) : saneB c = true ↔ Sane c := by
  simp [saneB, Sane, and_assoc]

end Unfoldings

end Props.C12
