/-
C06 — a failing job fails the pipestance, blocks only its dependents, is reported.
PROPERTY THEOREMS ONLY (model: Martian/Sched.lean, lemmas: Proofs/Sched.lean).

What is NOT true of the code (negative witness `failed_fork_can_be_masked`):
"a node is Failed as soon as one of its forks is Failed".  `Node.getState`
leaves its fork loop (`break`) at the first fork that is neither complete nor
disabled, so a failed fork *behind* an unfinished one is not reported until the
earlier forks finish.  The node can however never be reported Complete
(`complete_needs_no_failure`), and nothing depending on it is started
(`dependents_blocked`).
-/
import Martian.Sched
import Proofs.Sched
import Proofs.SchedTrans
import Martian.SchedProgress
import Proofs.SchedProgress
import Proofs.SchedFail
import Proofs.SchedFailReach

/-! ### definitional unfoldings (documentation of the model, not guarantees)
The theorems whose docstring starts with DEFINITIONAL UNFOLDING (failed_fork_meta_fails_fork, complete_needs_no_failure, failed_first_fork_reported, independent_unaffected) restate a guard
or a definition of the model; they stay where later theorems use them and are not cited as guarantees. -/
namespace Props.C06
open Martian.Sched

/-- `fail_sticks` (object level): once mrp has seen `_errors`/`_assert` in an
object, that object's state is failed after every further event except the
restart-time reset of this very object (also across crash/restart). -/
theorem fail_sticks {g : List NodeInfo} {s : State} {e : Ev} {o : Obj} (hr : Reach g s)
    (hne : e ≠ .reset o) (hf : s.st o = some .failed) : (apply s e).st o = some .failed := by
  unfold State.st at hf ⊢
  rw [metaState_failed] at hf ⊢
  rcases hf with h | h
  · exact Or.inl (seen_mono (reach_objsInv hr) hne (by simp) h)
  · exact Or.inr (seen_mono (reach_objsInv hr) hne (by simp) h)

/-- DEFINITIONAL UNFOLDING (documentation of the model / of a guard, not a guarantee). a failure marker in the fork's own metadata makes the fork failed … -/
theorem failed_fork_meta_fails_fork {s : State} {n f : Nat}
    (h : s.st ⟨n, f, .fork⟩ = some .failed) : forkState s n f = .failed := by
  simp [forkState, forkStateOf, h]

/-- … for ever: the fork's own metadata is never reset (only job objects are). -/
theorem failed_fork_sticks {g : List NodeInfo} {s : State} {e : Ev} {n f : Nat} (hr : Reach g s)
    (hen : enabled s e = true) (h : s.st ⟨n, f, .fork⟩ = some .failed) :
    forkState (apply s e) n f = .failed := by
  apply failed_fork_meta_fails_fork
  apply fail_sticks hr _ h
  intro he; subst he
  have := resetOk_isJob (reach_full hr) (en_reset hen); simp [Role.isJob] at this

/-- a failed job object fails its fork unless the fork's own metadata already
says complete/disabled or a later phase object hides it: precisely, a failed
join always does, failed chunks do when no join state exists, a failed split
does when no join/chunk summary exists.  Stated for the most common case: -/
theorem failed_chunk_fails_fork {s : State} {n f i : Nat} (hi : i < s.nch n f)
    (hc : s.st ⟨n, f, .chunk i⟩ = some .failed) (hfm : fmDone s n f = false)
    (hj : s.st ⟨n, f, .join⟩ = none) : forkState s n f = .failed := by
  have hany : (chunkStates s n f).any (· == some .failed) = true := by
    simp only [chunkStates, List.any_map, List.any_eq_true, List.mem_range]
    exact ⟨i, hi, by simp [chunkState, hc]⟩
  have hne : (chunkStates s n f).isEmpty = false := by
    cases hcs : chunkStates s n f
    · rw [hcs] at hany; simp at hany
    · rfl
  have hsum : chunkSum (chunkStates s n f) = .failed := by simp [chunkSum, hne, hany]
  unfold fmDone at hfm
  simp only [Bool.or_eq_false_iff, beq_eq_false_iff_ne] at hfm
  unfold forkState forkStateOf
  rw [hj, hsum]
  split <;> simp_all

/-- DEFINITIONAL UNFOLDING (documentation of the model / of a guard, not a guarantee). `complete_needs_no_failure`: a node whose state is Complete (or Disabled)
has no failed fork — all its forks are complete or disabled. -/
theorem complete_needs_no_failure {s : State} {n : Nat}
    (h : nodeState s n = .complete ∨ nodeState s n = .disabled) :
    ∀ f ∈ s.forksOf n, forkState s n f = .complete ∨ forkState s n f = .disabled := by
  have hd : nodeDone s n = true := by
    unfold nodeState nodeStateOf at h
    unfold nodeDone
    cases hs : scanForks (forkStates s n) true
    · simp [hs] at h
    · rfl
    · rw [hs] at h
      by_cases hp : (s.pre n).all (nodeDone s) = true <;> simp [hp] at h
  intro f hf
  exact forkState_done.mpr (nodeDone_iff.mp hd f hf)

/-- `dependents_blocked`: a job of a node is submitted only while none of its
prenodes is failed — every prenode is finished (all forks complete/disabled). -/
theorem dependents_blocked {g : List NodeInfo} {s : State} {o : Obj} (hr : Reach g s)
    (hen : enabled s (.launch o) = true) :
    ∀ p ∈ s.pre o.n, nodeDone s p = true ∧ nodeState s p ≠ .failed := by
  intro p hp
  obtain ⟨hph, hc, _⟩ := launchOk_phase (en_launch hen)
  have hd := reach_preInv hr hph o.n hc p hp
  refine ⟨hd, ?_⟩
  unfold nodeDone at hd
  unfold nodeState nodeStateOf
  cases hs : scanForks (forkStates s p) true
  · simp [hs] at hd
  · rename_i d; cases d <;> simp
  · simp [hs] at hd

/-- PARTIAL (hypothesis `reopened = false`, which fails on real histories after a restart that
re-opens a finished node; negative witness `reopened_breaks_blocking`).
"a node with an unfinished prenode is never complete": while some prenode `p`
of `q` is not finished, no fork of `q` has a `_complete` and `q` is not Complete.
Hypothesis `reopened = false`: no restart so far gave an already finished node
new forks (`RestoreForks` does that to a Disabled mapped call whose placeholder
fork had been disabled before its forks were known — seen on real histories; the
node is then unfinished again for a moment although its consumers may be
complete).  The flag is sticky, so the theorem covers every history up to the
first such restart, in particular every uninterrupted run. -/
theorem unfinished_prenode_blocks_completion_partial {g : List NodeInfo} {s : State} {q p : Nat}
    (hr : Reach g s) (hro : s.reopened = false) (hp : p ∈ s.pre q) (hnd : nodeDone s p = false) :
    (∀ f, (s.m ⟨q, f, .fork⟩).disk.has .complete = false) ∧ nodeState s q ≠ .complete := by
  have hall : ∀ f, (s.m ⟨q, f, .fork⟩).disk.has .complete = false := by
    intro f
    cases hc : (s.m ⟨q, f, .fork⟩).disk.has .complete
    · rfl
    · have := reach_completeInv hr hro q f hc p hp
      rw [hnd] at this; cases this
  refine ⟨hall, fun hc => ?_⟩
  obtain ⟨f, hf⟩ := nodeState_complete_fork (reach_objsInv hr) hc
  rw [hall f] at hf; cases hf

/-- when a job of a node is submitted, EVERY upstream node (transitively through
prenode edges; see `Upstream`: intermediate nodes that are Disabled do not
propagate, exactly as in `Node.getState`) is finished -/
theorem launch_after_upstream_partial {g : List NodeInfo} {s : State} {o : Obj} {p : Nat}
    (hr : Reach g s) (hro : s.reopened = false) (hen : enabled s (.launch o) = true)
    (hu : Upstream s o.n p) : nodeDone s p = true := by
  apply upstream_done (reach_objsInv hr) (reach_completeInv hr) hro hu
  intro q hq
  exact (dependents_blocked hr hen q hq).1

/-- `dependents_blocked_transitive_partial`: while an upstream node `p` of `n` has a failed
fork, no job of `n` can be submitted. -/
theorem dependents_blocked_transitive_partial {g : List NodeInfo} {s : State} {o : Obj} {p f : Nat}
    (hr : Reach g s) (hro : s.reopened = false) (hu : Upstream s o.n p) (hf : f ∈ s.forksOf p)
    (hfail : forkState s p f = .failed) : enabled s (.launch o) = false := by
  cases hen : enabled s (.launch o)
  · rfl
  · have hd := launch_after_upstream_partial hr hro hen hu
    have := forkState_done.mpr (nodeDone_iff.mp hd f hf)
    rw [hfail] at this
    rcases this with h | h <;> cases h

/-- `dependents_never_complete_transitive_partial`: while an upstream node `p` of `n` (transitively,
`Upstream`) is unfinished — in particular while it has a failed fork — no fork of `n` has a
`_complete` and `n` is not Complete: the failure cannot be overtaken, the pipestance cannot
report success for anything that consumes the failed call. -/
theorem dependents_never_complete_transitive_partial {g : List NodeInfo} {s : State} {n p : Nat}
    (hr : Reach g s) (hro : s.reopened = false) (hu : Upstream s n p)
    (hnd : nodeDone s p = false) :
    (∀ f, (s.m ⟨n, f, .fork⟩).disk.has .complete = false) ∧ nodeState s n ≠ .complete :=
  upstream_blocks_completion (reach_objsInv hr) (reach_completeInv hr) hro hu hnd

/-- a node with a failed fork is unfinished (so the two theorems above apply to it) -/
theorem failed_fork_unfinished {s : State} {p f : Nat} (hf : f ∈ s.forksOf p)
    (hfail : forkState s p f = .failed) : nodeDone s p = false := by
  cases hd : nodeDone s p
  · rfl
  · have := forkState_done.mpr (nodeDone_iff.mp hd f hf)
    rw [hfail] at this
    rcases this with h | h <;> cases h

/-- `independent_unaffected` (progress half; the guard half is below): in ANY reachable
state — whatever has failed elsewhere in the pipestance — a node whose own objects carry
no failure marker and whose own submitted jobs are alive, whose prenodes are finished and
whose cached state is current is either finished or can take a step OF ITS OWN: some event `e`
of the scheduler/job/journal alphabet with `e.node = some n` (stub/fork `_complete`, chunk
definition, job submission, start, end, journal read of an object of `n`) is enabled and
lowers the progress measure.  (One state, one step: that the node then runs to completion
next to the failure needs fairness towards that node and is not stated.) -/
theorem independent_node_can_progress {g : List NodeInfo} {s : State} {n : Nat} (hr : Reach g s)
    (hn : n < s.nodes.length) (hph : s.phase = .normal)
    (hfresh : s.cachedOf n = nodeState s n) (hpre : ∀ p ∈ s.pre n, nodeDone s p = true)
    (hclean : ∀ f r, (s.m ⟨n, f, r⟩).disk.has .errors = false ∧
      (s.m ⟨n, f, r⟩).disk.has .assert = false)
    (halive : AliveNode s n) :
    nodeDone s n = true ∨ ∃ e, Progress s e ∧ e.node = some n := by
  cases hd : nodeDone s n
  · exact Or.inr (node_progress (reach_objsInv hr) (reach_roleInv hr) (reach_launchInv hr) hn hph
      hfresh hpre hclean halive hd)
  · exact Or.inl rfl

/-- `failed_block_never_reports_success` (formerly `failed_job_never_reports_success_partial`; the
invariant form of the headline theorem `failed_job_never_reports_success` below): let job object
`o` of stage fork (n, f) be SEEN failed while the fork is unfinished, where `o` is the join; or a
chunk the split defined, the join not having been submitted; or the split, no chunk and no join
having been submitted (`FailedBlock`).  Then along EVERY continuation (any events: interruptions,
other failures, restarts, resets of other objects, fork-structure events) in which `o` itself is
not reset, the fork never becomes complete or disabled and stays in its node's fork list
(re-attaching drops a fork from the list only when its job directories are empty:
`unlist_failed_fork_rejected`) — so its node is never Complete/Disabled and the pipestance is
never `Finished`.  The side conditions of `FailedBlock` are consequences of reachability
(`failedBlock_of_reach`, Proofs/SchedFailReach.lean): that is the headline theorem.
The histories by which earlier models reached `Finished` with a failed object (a `silentfail`
after completion, `_errors` then `_complete` of one job, a failed chunk forgotten by redefining
the chunk count at re-attach, the failed fork unlisted by `forkorder` at re-attach) are rejected:
`late_silentfail_rejected`, `errors_then_complete_rejected`, `forget_failed_chunk_rejected`,
`unlist_failed_fork_rejected`. -/
theorem failed_block_never_reports_success {g : List NodeInfo} {s0 : State}
    {σ : Nat → State} {es : Nat → Ev} {n f : Nat} {o : Obj} (hr : Reach g s0)
    (hrun : Run s0 σ es) (hnr : ∀ i, es i ≠ .reset o) (h0 : FailedBlock s0 n f o)
    (hn : n < s0.nodes.length) (hf : f ∈ s0.forksOf n) :
    ∀ j, (σ j).st o = some .failed ∧ fmDone (σ j) n f = false ∧ f ∈ (σ j).forksOf n ∧
      nodeDone (σ j) n = false ∧ ¬ Finished (σ j) := by
  have key : ∀ j, Reach g (σ j) ∧ FailedBlock (σ j) n f o ∧ f ∈ (σ j).forksOf n ∧
      (σ j).nodes = s0.nodes := by
    intro j
    induction j with
    | zero => rw [hrun.start]; exact ⟨hr, h0, hf, rfl⟩
    | succ j ih =>
      rw [hrun.next]
      exact ⟨Reach.step ih.1 (hrun.en j), failedBlock_step ih.1 (hrun.en j) (hnr j) ih.2.1,
        failedBlock_listed ih.1 (hrun.en j) ih.2.1 ih.2.2.1, by rw [apply_nodes]; exact ih.2.2.2⟩
  intro j
  obtain ⟨_, hb, hfj, hnodes⟩ := key j
  have hnd : nodeDone (σ j) n = false := by
    cases hd : nodeDone (σ j) n
    · rfl
    · have := nodeDone_iff.mp hd f hfj
      rw [hb.unfinished] at this; cases this
  exact ⟨hb.failed, hb.unfinished, hfj, hnd,
    fun hfin => by rw [(hfin.2 n (by rw [hnodes]; exact hn)).1] at hnd; cases hnd⟩

/-- `failed_job_never_reports_success` (the headline "a pipestance with a failed, un-reset job never
reports success", for EVERY reachable state, no side condition assumed): in a state reached by
any accepted history (default reset mode) let a job object `⟨n, f, r⟩` — split, chunk or join —
of a listed, unfinished fork of a stage node be seen failed by mrp.  Then along EVERY
continuation (any events: interruptions, other failures, restarts, resets of other objects,
fork-structure events) in which this object is not reset, it stays failed, the fork never becomes
complete or disabled and stays listed, its node is never Complete/Disabled and the pipestance is
never `Finished`.  The premises are what is observed (the object's state in mrp's cache, the fork
being listed and unfinished, the node being a stage); that a failed chunk lies in the defined
range with the join directory still empty, and that a failed split means no chunk and no join
submitted, is PROVED for reachable states (`failedBlock_of_reach`: the completion chain under
failures, invariants `EndInv` and `ChainF`).
What this does not say: liveness (mrp eventually reports Failed: `failed_fork_can_be_masked`);
a failure that is only on disk and not yet read by mrp; FullStageReset mode; fork-level failure
markers are covered by `failed_fork_sticks`; pipelines have no job objects. -/
theorem failed_job_never_reports_success {g : List NodeInfo} {s0 : State}
    {σ : Nat → State} {es : Nat → Ev} {n f : Nat} {r : Role} (hr : Reach g s0)
    (hrun : Run s0 σ es) (hnr : ∀ i, es i ≠ .reset ⟨n, f, r⟩)
    (hk : s0.kind n ≠ .pipeline) (hrole : r ≠ .fork)
    (hfail : s0.st ⟨n, f, r⟩ = some .failed) (hopen : fmDone s0 n f = false)
    (hn : n < s0.nodes.length) (hf : f ∈ s0.forksOf n) :
    ∀ j, (σ j).st ⟨n, f, r⟩ = some .failed ∧ fmDone (σ j) n f = false ∧
      f ∈ (σ j).forksOf n ∧ nodeDone (σ j) n = false ∧ ¬ Finished (σ j) :=
  failed_block_never_reports_success hr hrun hnr
    (failedBlock_of_reach hr hk hrole hfail hopen) hn hf

/-- its instance for the join (proved before the general derivation; `FailSite.join` has no side
condition) -/
theorem failed_join_never_reports_success {g : List NodeInfo} {s0 : State}
    {σ : Nat → State} {es : Nat → Ev} {n f : Nat} (hr : Reach g s0)
    (hrun : Run s0 σ es) (hnr : ∀ i, es i ≠ .reset ⟨n, f, .join⟩)
    (hk : s0.kind n ≠ .pipeline) (hfail : s0.st ⟨n, f, .join⟩ = some .failed)
    (hopen : fmDone s0 n f = false) (hn : n < s0.nodes.length) (hf : f ∈ s0.forksOf n) :
    ∀ j, (σ j).st ⟨n, f, .join⟩ = some .failed ∧ fmDone (σ j) n f = false ∧
      f ∈ (σ j).forksOf n ∧ nodeDone (σ j) n = false ∧ ¬ Finished (σ j) :=
  failed_block_never_reports_success hr hrun hnr ⟨hk, hfail, hopen, .join⟩ hn hf

/-- one step of it, in any reachable state -/
theorem failed_blocks_fork {g : List NodeInfo} {s : State} {e : Ev} {n f : Nat} {o : Obj}
    (hr : Reach g s) (hen : enabled s e = true) (hne : e ≠ .reset o) (h : FailedBlock s n f o) :
    FailedBlock (apply s e) n f o :=
  failedBlock_step hr hen hne h

/-- `error_names_stage`: what `Node.getFatalError` (model `fatalError`: the first metadata in
`collectMetadatas` order whose state is failed; `_errors` before `_assert`) reports is a
metadata object OF THE FAILED NODE — one of its forks' own metadata, split, join or a chunk
the split defined — whose state is failed and which does contain the reported file. -/
theorem error_names_stage {s : State} {n : Nat} {o : Obj} {x : Sentinel}
    (h : fatalError s n = some (o, x)) :
    o.n = n ∧ o.f ∈ s.forksOf n ∧ (∀ i, o.r = .chunk i → i < s.nch n o.f) ∧
    s.st o = some .failed ∧ (s.m o).seen.has x = true ∧
    (x = .errors ∨ (x = .assert ∧ (s.m o).seen.has .errors = false)) := by
  obtain ⟨hm, hst, hx, hk⟩ := fatalErrorIn_spec h
  obtain ⟨a, b, c⟩ := collect_mem hm
  exact ⟨a, b, c, hst, hx, hk⟩

/-- … and it is complete: a node whose state is Failed always has something to report -/
theorem failed_node_reports {s : State} {n : Nat} (h : nodeState s n = .failed) :
    ∃ o x, fatalError s n = some (o, x) := by
  obtain ⟨o, hm, hf⟩ := failed_node_has_failed_obj h
  obtain ⟨⟨o', x⟩, hr⟩ := fatalErrorIn_some hm hf
  exact ⟨o', x, hr⟩

/-- two states that agree on everything belonging to node `n` -/
structure SameNode (n : Nat) (s s' : State) : Prop where
  phase : s.phase = s'.phase
  inc : s.inc = s'.inc
  launches : s.launches = s'.launches
  nodes : s.nodes = s'.nodes
  forks : s.forksOf n = s'.forksOf n
  cached : s.cachedOf n = s'.cachedOf n
  nch : ∀ f, s.nch n f = s'.nch n f
  metas : ∀ f r, s.m ⟨n, f, r⟩ = s'.m ⟨n, f, r⟩

/-- DEFINITIONAL UNFOLDING (documentation of the model / of a guard, not a guarantee). `independent_unaffected`: whether a job of node `n` may be submitted depends
only on node `n`'s own forks/objects and on its cached state (which itself was
computed from `n` and its prenodes): failures elsewhere do not block it. -/
theorem independent_unaffected {s s' : State} {o : Obj} (h : SameNode o.n s s') :
    launchOk s o = launchOk s' o := by
  obtain ⟨h1, h2, h3, h4, h5, h6, h7, h8⟩ := h
  have hst : ∀ f r, s.st ⟨o.n, f, r⟩ = s'.st ⟨o.n, f, r⟩ := fun f r => by simp [State.st, h8]
  have hk : s.kind o.n = s'.kind o.n := by simp [State.kind, h4]
  have hcs : chunkStates s o.n o.f = chunkStates s' o.n o.f := by
    simp [chunkStates, chunkState, h7, hst]
  simp only [launchOk, State.hasObj, fmDone, forkState, allChunksComplete, h1, h2, h3, h4, h5, h6,
    h7, hst, hk, hcs]


/-- Negative witness (the `break` in `Node.getState`): forks [chunks running, failed]
with finished prenodes give Running, not Failed. -/
theorem failed_fork_can_be_masked : nodeStateOf [.chunksRunning, .failed] true = .running := by
  decide

/-- DEFINITIONAL UNFOLDING (documentation of the model / of a guard, not a guarantee). … whereas a failed fork in front is reported at once -/
theorem failed_first_fork_reported (r : List FState) (b : Bool) :
    nodeStateOf (.failed :: r) b = .failed := rfl

/-! ### non-vacuity -/

def g2 : List NodeInfo := [{ kind := .stage, pre := [] }, { kind := .stage, pre := [0] }]

/-- the chunk of node 0 fails: node 0 becomes failed, node 1 can never be told to run -/
def h2 : List Ev :=
  [.fork 0 0, .nodestate 0 .running, .fork 1 0, .refresh,
   .W ⟨0, 0, .split⟩ .complete, .mkchunks 0 0 1, .launch ⟨0, 0, .chunk 0⟩,
   .joblog ⟨0, 0, .chunk 0⟩, .jobend ⟨0, 0, .chunk 0⟩ .errors, .refresh,
   .R ⟨0, 0, .chunk 0⟩ .errors, .nodestate 0 .failed]

example : (match replay (init g2) h2 with
    | .ok s => forkState s 0 0 == .failed && nodeState s 0 == .failed &&
               !enabled s (.nodestate 1 .running) && !enabled s (.launch ⟨1, 0, .chunk 0⟩) &&
               s.st ⟨0, 0, .chunk 0⟩ == some .failed
    | .error _ => false) = true := by decide

/-- a chain 0 → 1 → 2 of stages; the chunk of node 0 fails -/
def g3 : List NodeInfo :=
  [{ kind := .stage, pre := [] }, { kind := .stage, pre := [0] }, { kind := .stage, pre := [1] }]

def h3 : List Ev :=
  [.fork 0 0, .nodestate 0 .running, .fork 1 0, .fork 2 0, .refresh,
   .W ⟨0, 0, .split⟩ .complete, .mkchunks 0 0 1, .launch ⟨0, 0, .chunk 0⟩,
   .joblog ⟨0, 0, .chunk 0⟩, .jobend ⟨0, 0, .chunk 0⟩ .errors, .refresh,
   .R ⟨0, 0, .chunk 0⟩ .errors, .nodestate 0 .failed]

def s3 : State := match replay (init g3) h3 with
  | .ok s => s
  | .error _ => init g3

example : (match replay (init g3) h3 with | .ok _ => true | .error _ => false) = true := by decide

/-- node 0 is upstream of node 2 (through node 1, which is waiting, not disabled),
node 0 has a failed fork, and indeed nothing of node 2 can be launched -/
example : s3.reopened = false := by decide
example : Upstream s3 2 0 := .step (q := 1) (by decide) (by decide) (.direct (by decide))
example : 0 ∈ s3.forksOf 0 ∧ forkState s3 0 0 = .failed ∧
    enabled s3 (.launch ⟨2, 0, .chunk 0⟩) = false := by decide

/-- in the chain 0 → 1 → 2 with node 0 failed: node 2 has no complete fork and is not
Complete (transitively), node 0 is Failed and `getFatalError` names its chunk and `_errors` -/
example : (∀ f, (s3.m ⟨2, f, .fork⟩).disk.has .complete = false) ∧ nodeState s3 2 ≠ .complete :=
  dependents_never_complete_transitive_partial (g := g3) (p := 0) (reach_of_match g3 h3) (by decide)
    (.step (q := 1) (by decide) (by decide) (.direct (by decide))) (by decide)

example : nodeState s3 0 = .failed ∧ fatalError s3 0 = some (⟨0, 0, .chunk 0⟩, .errors) := by decide

/-- an independent node goes on: two stages without a dependency between them, the chunk of
node 0 has failed; node 1 satisfies the hypotheses of `independent_node_can_progress` and
its stub `_complete` can be written -/
def g4 : List NodeInfo := [{ kind := .stage, pre := [] }, { kind := .stage, pre := [] }]

def h4 : List Ev :=
  [.fork 0 0, .nodestate 0 .running, .fork 1 0, .nodestate 1 .running, .refresh,
   .W ⟨0, 0, .split⟩ .complete, .mkchunks 0 0 1, .launch ⟨0, 0, .chunk 0⟩,
   .joblog ⟨0, 0, .chunk 0⟩, .jobend ⟨0, 0, .chunk 0⟩ .errors, .refresh,
   .R ⟨0, 0, .chunk 0⟩ .errors, .nodestate 0 .failed]

def s4 : State := match replay (init g4) h4 with
  | .ok s => s
  | .error _ => init g4

example : (match replay (init g4) h4 with | .ok _ => true | .error _ => false) = true := by decide
example : nodeState s4 0 = .failed ∧ s4.phase = .normal ∧ s4.cachedOf 1 = nodeState s4 1 ∧
    nodeDone s4 1 = false ∧ s4.pre 1 = [] := by decide
example : Progress s4 (.W ⟨1, 0, .split⟩ .complete) ∧
    (Ev.W ⟨1, 0, .split⟩ .complete).node = some 1 := ⟨⟨by decide, by decide, by decide⟩, rfl⟩

/-! ### the three histories by which the previous model reached `Finished` with a failed,
never reset job object are rejected by the guards of the real system -/

def gS : List NodeInfo := [{ kind := .splitstage, pre := [] }]

def rejectedAt (g : List NodeInfo) (evs : List Ev) : Option (Nat × String) :=
  match replay (init g) evs with
  | .ok _ => none
  | .error r => some r

/-- a job that has ended cannot die silently afterwards (`silentfail` needs a live job) -/
theorem late_silentfail_rejected :
    rejectedAt gS
      [.fork 0 0, .nodestate 0 .running, .refresh, .launch ⟨0, 0, .split⟩,
       .joblog ⟨0, 0, .split⟩, .jobend ⟨0, 0, .split⟩ .complete, .R ⟨0, 0, .split⟩ .complete,
       .launch ⟨0, 0, .join⟩, .joblog ⟨0, 0, .join⟩, .jobend ⟨0, 0, .join⟩ .complete,
       .R ⟨0, 0, .join⟩ .complete, .W ⟨0, 0, .fork⟩ .complete, .nodestate 0 .complete,
       .silentfail ⟨0, 0, .split⟩] = some (13, "job-dead") := by decide

/-- a job ends once: `_errors` and then `_complete` from the same job is not a history -/
theorem errors_then_complete_rejected :
    rejectedAt gS
      [.fork 0 0, .nodestate 0 .running, .refresh, .launch ⟨0, 0, .split⟩,
       .joblog ⟨0, 0, .split⟩, .jobend ⟨0, 0, .split⟩ .errors, .jobend ⟨0, 0, .split⟩ .complete]
      = some (6, "job-dead") := by decide

/-- re-attaching cannot forget a failed chunk by redefining the chunk count: a chunk object is
only dropped when its directory is empty -/
theorem forget_failed_chunk_rejected :
    rejectedAt gS
      [.fork 0 0, .nodestate 0 .running, .refresh, .launch ⟨0, 0, .split⟩,
       .joblog ⟨0, 0, .split⟩, .jobend ⟨0, 0, .split⟩ .complete, .R ⟨0, 0, .split⟩ .complete,
       .mkchunks 0 0 1, .launch ⟨0, 0, .chunk 0⟩, .joblog ⟨0, 0, .chunk 0⟩,
       .jobend ⟨0, 0, .chunk 0⟩ .errors, .R ⟨0, 0, .chunk 0⟩ .errors, .nodestate 0 .failed,
       .crash, .restart, .mkchunks 0 0 0] = some (15, "chunks-redefined-at-reattach") := by decide

/-- re-attaching cannot unlist the fork of a failed chunk either -/
theorem unlist_failed_fork_rejected :
    rejectedAt gS
      [.fork 0 0, .nodestate 0 .running, .refresh, .launch ⟨0, 0, .split⟩,
       .joblog ⟨0, 0, .split⟩, .jobend ⟨0, 0, .split⟩ .complete, .R ⟨0, 0, .split⟩ .complete,
       .mkchunks 0 0 1, .launch ⟨0, 0, .chunk 0⟩, .joblog ⟨0, 0, .chunk 0⟩,
       .jobend ⟨0, 0, .chunk 0⟩ .errors, .R ⟨0, 0, .chunk 0⟩ .errors, .nodestate 0 .failed,
       .crash, .restart, .forkorder 0 []] = some (15, "dropped-fork-not-empty") := by decide

/-- … and that state satisfies `FailedBlock`: the chunk is seen failed, in range, the join has
not been submitted — as `failedBlock_of_reach` proves for every reachable state -/
def hFailedChunk : List Ev :=
  [.fork 0 0, .nodestate 0 .running, .refresh, .launch ⟨0, 0, .split⟩,
   .joblog ⟨0, 0, .split⟩, .jobend ⟨0, 0, .split⟩ .complete, .R ⟨0, 0, .split⟩ .complete,
   .mkchunks 0 0 1, .launch ⟨0, 0, .chunk 0⟩, .joblog ⟨0, 0, .chunk 0⟩,
   .jobend ⟨0, 0, .chunk 0⟩ .errors, .R ⟨0, 0, .chunk 0⟩ .errors]
def sFailedChunk : State := prefixState (init gS) hFailedChunk 12

example : FailedBlock sFailedChunk 0 0 ⟨0, 0, .chunk 0⟩ :=
  ⟨by decide, by decide, by decide, .chunk 0 (by decide) ⟨by decide, by decide⟩⟩

/-- the premises of `failed_job_never_reports_success` for a failed CHUNK in a reachable state -/
example : Reach gS sFailedChunk := run_reach (run_of_list _ hFailedChunk (by decide)) 12
example : sFailedChunk.kind 0 ≠ .pipeline ∧ sFailedChunk.st ⟨0, 0, .chunk 0⟩ = some .failed ∧
    fmDone sFailedChunk 0 0 = false ∧ 0 < sFailedChunk.nodes.length ∧
    0 ∈ sFailedChunk.forksOf 0 := by decide

/-- … and for a failed SPLIT (its job reports `_errors`, mrp reads it) -/
def hFailedSplit : List Ev :=
  [.fork 0 0, .nodestate 0 .running, .refresh, .launch ⟨0, 0, .split⟩,
   .joblog ⟨0, 0, .split⟩, .jobend ⟨0, 0, .split⟩ .errors, .R ⟨0, 0, .split⟩ .errors]
def sFailedSplit : State := prefixState (init gS) hFailedSplit hFailedSplit.length

example : Reach gS sFailedSplit := run_reach (run_of_list _ hFailedSplit (by decide)) _
example : sFailedSplit.kind 0 ≠ .pipeline ∧ sFailedSplit.st ⟨0, 0, .split⟩ = some .failed ∧
    fmDone sFailedSplit 0 0 = false ∧ 0 < sFailedSplit.nodes.length ∧
    0 ∈ sFailedSplit.forksOf 0 := by decide

/-- the fifth history by which a pipestance could have finished past a failed job: mrp fails the
SPLIT after its chunks have been submitted (`Fork.getState` looks at the chunks before the split:
complete chunks would carry the fork past the failed split).  The real mrp writes a split's
`_errors` only while the split runs or when `_stage_defs` cannot be read, i.e. before any chunk
exists; the model's guard says so, and `failedBlock_of_reach` rests on it. -/
theorem split_failed_after_chunks_rejected :
    rejectedAt gS
      [.fork 0 0, .nodestate 0 .running, .refresh, .launch ⟨0, 0, .split⟩,
       .joblog ⟨0, 0, .split⟩, .jobend ⟨0, 0, .split⟩ .complete, .R ⟨0, 0, .split⟩ .complete,
       .mkchunks 0 0 1, .launch ⟨0, 0, .chunk 0⟩, .W ⟨0, 0, .split⟩ .errors]
      = some (9, "write-not-enabled") := by decide

/-- the premises of `failed_join_never_reports_success` in a reachable state: the chunk completes,
the join is submitted and fails -/
def hFailedJoin : List Ev :=
  [.fork 0 0, .nodestate 0 .running, .refresh, .launch ⟨0, 0, .split⟩,
   .joblog ⟨0, 0, .split⟩, .jobend ⟨0, 0, .split⟩ .complete, .R ⟨0, 0, .split⟩ .complete,
   .mkchunks 0 0 1, .launch ⟨0, 0, .chunk 0⟩, .joblog ⟨0, 0, .chunk 0⟩,
   .jobend ⟨0, 0, .chunk 0⟩ .complete, .R ⟨0, 0, .chunk 0⟩ .complete, .launch ⟨0, 0, .join⟩,
   .joblog ⟨0, 0, .join⟩, .jobend ⟨0, 0, .join⟩ .errors, .R ⟨0, 0, .join⟩ .errors]
def sFailedJoin : State := prefixState (init gS) hFailedJoin hFailedJoin.length

example : Reach gS sFailedJoin := run_reach (run_of_list _ hFailedJoin (by decide)) _
example : sFailedJoin.kind 0 ≠ .pipeline ∧ sFailedJoin.st ⟨0, 0, .join⟩ = some .failed ∧
    fmDone sFailedJoin 0 0 = false ∧ 0 < sFailedJoin.nodes.length ∧ 0 ∈ sFailedJoin.forksOf 0 := by
  decide

/-- Negative witness for the hypothesis `reopened = false` of the `…_partial` theorems above:
node 0 has no fork at first (it counts as Disabled), its consumer node 1 runs and completes;
mrp is restarted and `RestoreForks` gives node 0 a fork: now the prenode is unfinished while the
consumer is complete. -/
def g2r : List NodeInfo := [{ kind := .stage, pre := [] }, { kind := .stage, pre := [0] }]
def sReopened : State :=
  prefixState (init g2r)
    [.nodestate 0 .disabled, .fork 1 0, .nodestate 1 .running, .refresh,
     .W ⟨1, 0, .split⟩ .complete, .mkchunks 1 0 1, .launch ⟨1, 0, .chunk 0⟩,
     .joblog ⟨1, 0, .chunk 0⟩, .jobend ⟨1, 0, .chunk 0⟩ .complete, .R ⟨1, 0, .chunk 0⟩ .complete,
     .W ⟨1, 0, .join⟩ .complete, .W ⟨1, 0, .fork⟩ .complete, .nodestate 1 .complete,
     .crash, .restart, .fork 0 0] 16

theorem reopened_breaks_blocking :
    sReopened.reopened = true ∧ 0 ∈ sReopened.pre 1 ∧ nodeDone sReopened 0 = false ∧
    (sReopened.m ⟨1, 0, .fork⟩).disk.has .complete = true ∧ nodeState sReopened 1 = .complete := by
  decide

example : (match replay (init g2r)
    [.nodestate 0 .disabled, .fork 1 0, .nodestate 1 .running, .refresh,
     .W ⟨1, 0, .split⟩ .complete, .mkchunks 1 0 1, .launch ⟨1, 0, .chunk 0⟩,
     .joblog ⟨1, 0, .chunk 0⟩, .jobend ⟨1, 0, .chunk 0⟩ .complete, .R ⟨1, 0, .chunk 0⟩ .complete,
     .W ⟨1, 0, .join⟩ .complete, .W ⟨1, 0, .fork⟩ .complete, .nodestate 1 .complete,
     .crash, .restart, .fork 0 0] with | .ok _ => true | .error _ => false) = true := by decide

end Props.C06
