/-
C15 tie: `Pipestance.Lock` TRANSLATED from martian/core/pipestance.go on every
run (`Gen.tr_Lock`, extract/translate*.go, "effects" extension).  The term is a
function of the outcome of the exclusive create of `_lock`
(`created` = Go `err == nil`; `exists_` = Go `os.IsExist(err)`) to the pair
(trace of the modelled effects in program order, verdict of `Lock()`:
`none` = nil, `some "PipestanceLockedError"`).  The tie theorems relate it to the
lock protocol LTS of `Martian.LockLTS` (`step`, actions `acquire` / `register` /
`acquireFail` / `acquireErr` through `createErr`) and to the regenerated facts `Gen.c15RegisterFirst`.
-/
import Martian.EquivLockLTS
import Gen.Facts

namespace Props.C15
open Martian.LockLTS

/-- the three outcomes of the create, as the code treats them -/
theorem tr_Lock_table :
    Gen.tr_Lock true false = (["loadCache", "create", "close", "RegisterSignalHandler", "WriteTime"], none) ∧
    Gen.tr_Lock true true = (["loadCache", "create", "close", "RegisterSignalHandler", "WriteTime"], none) ∧
    Gen.tr_Lock false true = (["loadCache", "create"], some "PipestanceLockedError") ∧
    Gen.tr_Lock false false = (["loadCache", "create"], some "error of create") := by
  decide

/-- the LTS parameter "a create error other than 'exists' is IGNORED" (the old code
logged it and went on: `acquireErr`; since x-c19's repair it is returned:
`acquireFail`), read off the translated code: is `Lock()`'s result nil then? -/
def createErrIgnoredOf (tr : Bool → Bool → List String × Option String) : Bool :=
  (tr false false).2.isNone

/-- the LTS actions one call of `Lock()` by process `p` performs -/
def lockActs (p : Nat) (created exists_ : Bool) : List Act :=
  if created then [.acquire p, .register p] else if exists_ then [.acquire p]
  else [createErr (createErrIgnoredOf Gen.tr_Lock) p]

/-- run the actions, collecting the verdict of the first one (the create) -/
def runActs (regFirst : Bool) (s : St) : List Act → St × Bool
  | [] => (s, true)
  | a :: r => ((runActs regFirst (step regFirst false s a).1 r).1, (step regFirst false s a).2)

/-- the LTS parameter `regFirst` ("the signal handler is registered before the
lock is owned"), read off the translated code: does a REFUSED call register it? -/
def regFirstOf (tr : Bool → Bool → List String × Option String) : Bool :=
  (tr false true).1.contains "RegisterSignalHandler"

/-- THE TIE: what the translated `Lock()` does is what the LTS says, for every
state and every outcome of the create that the OS can produce in that state
(`O_EXCL`: the create succeeds only if `_lock` does not exist, and fails with
"exists" only if it does): after the LTS actions of the call
 * `p` has the signal handler registered iff the code called
   `util.RegisterSignalHandler` (`p` was not registered before),
 * `p` owns the lock iff the create succeeded (`p` did not own it before),
 * the lock file exists iff it existed or was created,
 * the verdict of the LTS's `acquire` is `Lock()`'s result being nil –
with the LTS parameter `regFirst` instantiated by what the translated code does on
a refusal (`regFirstOf`). -/
theorem tr_Lock_refines_lts (s : St) (p : Nat) (created exists_ : Bool)
    (hh : s.holders.contains p = false) (hr : s.registered.contains p = false)
    (hc : created = true → s.lockFile = false) (he : created = false → exists_ = true → s.lockFile = true) :
    let r := runActs (regFirstOf Gen.tr_Lock) s (lockActs p created exists_)
    r.1.registered.contains p = (Gen.tr_Lock created exists_).1.contains "RegisterSignalHandler" ∧
    r.1.holders.contains p = created ∧
    r.1.lockFile = (s.lockFile || created) ∧
    r.2 = (Gen.tr_Lock created exists_).2.isNone := by
  have hrf : regFirstOf Gen.tr_Lock = false := by decide
  have hci : createErrIgnoredOf Gen.tr_Lock = false := by decide
  have hh' : ¬ p ∈ s.holders := by simpa using hh
  have hr' : ¬ p ∈ s.registered := by simpa using hr
  cases created <;> cases exists_
  · -- any other error: returned, nothing happens (acquireFail)
    simp [lockActs, createErr, hci, runActs, step, Gen.tr_Lock, hh', hr']
  · -- refused
    have hl := he rfl rfl
    simp [lockActs, runActs, step, hrf, Gen.tr_Lock, hh', hr', hl]
  · have hl := hc rfl
    simp [lockActs, runActs, step, hrf, Gen.tr_Lock, hl]
  · have hl := hc rfl
    simp [lockActs, runActs, step, hrf, Gen.tr_Lock, hl]

/-- the regenerated fact of C15 "a create error other than 'exists' is ignored"
(`Gen.c15LockCreateErrorIgnored`, false since the repair) agrees with the translated
code, and such a call is inert: it neither registers the handler nor writes the
lock file (the later, non-exclusive `WriteTime` could take over a lock another
instance created in the meantime) -/
theorem tr_Lock_create_error_is_returned :
    Gen.c15LockCreateErrorIgnored = createErrIgnoredOf Gen.tr_Lock ∧
    Gen.tr_Lock false false = (["loadCache", "create"], some "error of create") := by
  decide

/-- the textual order fact of C15 (`Gen.c15RegisterFirst`: "RegisterSignalHandler is
called before the lock is owned") agrees with the translated code: an instance
that is refused never registers the handler, and whenever the handler is
registered the create came first -/
theorem tr_Lock_register_after_create :
    Gen.c15RegisterFirst = regFirstOf Gen.tr_Lock ∧
    ∀ created exists_, (Gen.tr_Lock created exists_).1.contains "RegisterSignalHandler" = true →
      ((Gen.tr_Lock created exists_).1.takeWhile (· != "RegisterSignalHandler")).contains "create" = true ∧
      (Gen.tr_Lock created exists_).2 = none := by
  refine ⟨by decide, ?_⟩
  intro c e
  cases c <;> cases e <;> decide

/-- a refused instance has no effect besides the attempt itself: it neither
registers the handler nor writes the lock file's time stamp (it must never be in
a position to remove or overwrite the owner's lock) -/
theorem tr_Lock_refused_is_inert :
    (Gen.tr_Lock false true).1 = ["loadCache", "create"] ∧ (Gen.tr_Lock false true).2.isSome = true := by
  decide

/-- non-vacuity: a second process on a locked pipestance, and a first one on a free one -/
example :
    let s1 : St := { lockFile := true, holders := [1], registered := [1] }
    (runActs (regFirstOf Gen.tr_Lock) s1 (lockActs 2 false true)) = (s1, false) ∧
    (runActs (regFirstOf Gen.tr_Lock) init (lockActs 1 true false)) = (s1, true) := by decide

/-- FAIL CLOSED (second audit pass, X2/X3): the tie theorems of this file are about the
definition(s) TRANSLATED FROM THE TREE UNDER TEST, not about the committed default the
extractor falls back to when the source leaves the translated subset – in that
case this obligation breaks and `./check` reports it (besides the note). -/
theorem translated_from_tree_under_test : Gen.tr_Lock_extracted = true := by decide

end Props.C15
