/-
C07 — accepted programs are type-safe at run time; ill-typed bindings are
rejected.  PROPERTY THEOREMS ONLY (model: Martian/Typing.lean on top of the C17
type algebra Martian/Types.lean; helper lemmas: Proofs/Typing.lean, Proofs/Types.lean).

Quantification: ALL types `Ty` (builtins, user file types, arrays of any
dimension, typed maps, structs of structs …), ALL expressions `Exp` (scalar /
array / map / struct literals nested arbitrarily, references `self.x.path` and
`CALL.out.path` with paths of any length), ALL type environments `Env` and
stores `Store`.  Side conditions, each guaranteed by the parser / compiler:
`Ty.wf` (distinct field names), `Exp.wf` (integer literals are int64, literal
keys are distinct).

`valid t v` is C17's clean validation (`IsValidJson`: no error, no alarm),
`filter t v` C17's `FilterJson`.

TWO run-time models (audit round 4, H1).  §3 is about the VALUE-LEVEL model
`eval` / `project` followed by ONE `filter t` of the result: that is not the
order in which the run time works, and its theorems are corollaries about
values only.  §3b is about `evalT` / `pathVal` / `wholeRT`
(Martian/TypingRun.lean), a transcription of `LazyArgumentMap.Path` /
`resolvePath` / `LazyArgumentMap.filter` (martian/core/resolve.go): the
destination type is peeled while the value is projected, `FilterJson` is applied
leaf-wise, and a filter error IS the resolution error (`none`).  `pathVal` is
compared with the real `Path` on every run (harness/c07_path.go).  The soundness
statements the manifest cites are those of §3b.
-/
import Martian.Typing
import Martian.TypingPipeline
import Martian.TypingStrict
import Proofs.Typing
import Proofs.TypingPipeline
import Proofs.TypingStrict
import Martian.TypingRun
import Proofs.TypingRun
import Martian.TypingProgram
import Proofs.TypingProgram

namespace Props.C07
open Martian.Json Martian.Types Martian.Typing

/-! ### sample data for the non-vacuity examples and the witnesses -/

private abbrev ka : Bytes := [0x61]
private abbrev kb : Bytes := [0x62]
private abbrev kx : Bytes := [0x78]
private abbrev km : Bytes := [0x6D]
private abbrev ko : Bytes := [0x6F]
private abbrev kslash : Bytes := [0x61, 0x2F, 0x62]
private abbrev cP : Bytes := [0x50]

/-- `struct A(int a)` -/
private abbrev tA : Ty := .struct [0x41] (.cons ka (.base .int) .nil)
/-- `struct W(int a, file[] b)` -/
private abbrev tW : Ty := .struct [0x57] (.cons ka (.base .int) (.cons kb (.arr (.base .file)) .nil))
/-- `struct F(float a)` -/
private abbrev tF : Ty := .struct [0x46] (.cons ka (.base .float) .nil)

/-- pipeline input `self.x : W[]`, `self.m : map<W>`; a call `P` of a stage with
outputs `(W o, map<int> m)`, made singly -/
private abbrev sigP (mode : Mode) : CallSig :=
  { name := cP, mode := mode, src := none, outs := .cons ko tW (.cons km (.tmap (.base .int)) .nil) }
private abbrev Γ0 (mode : Mode) : Env :=
  { self := [(kx, .arr tW), (km, .tmap tW)], calls := [(cP, sigP mode)] }

private abbrev vW : J := .obj [(ka, .num (.int 1)), (kb, .arr [.str kx])]
private abbrev ρ0 : Store :=
  { self := [(kx, .arr [vW, .null]), (km, .obj [(ka, vW)])],
    calls := [(cP, .obj [(ko, vW), (km, .obj [(ka, .num (.int 2))])])] }

/-! ### 1. projection: `fieldType` is sound for `project` -/

/-- If `v` is a valid value of type `t` and the compiler computes `t'` as the
type of the projection `.p` (through arrays, typed maps and struct members, any
depth), then the run-time projection of `v` is defined (no resolution error)
and is a valid value of `t'` – including the legal-file-name rule for the keys
of directory-like typed maps. -/
theorem fieldType_sound (t : Ty) (v : J) (p : List Bytes) (t' : Ty)
    (hv : valid t v = true) (ht : fieldType t p = some t') :
    ∃ w, project t v p = some w ∧ valid t' w = true := by
  obtain ⟨w, hw, hs⟩ := fieldType_shape t v p t' (shape_of_valid t v hv) ht
  exact ⟨w, hw, valid_of_shape _ _ hs⟩

/-- non-vacuity: `(map<W>).b : map<file[]>`, projected from a valid value -/
example :
    fieldType (.tmap tW) [kb] = some (.tmap (.arr (.base .file))) ∧
    valid (.tmap tW) (.obj [(ka, vW)]) = true ∧
    project (.tmap tW) (.obj [(ka, vW)]) [kb] = some (.obj [(ka, .arr [.str kx])]) :=
  ⟨rfl, by decide, rfl⟩

/-- projecting through a typed map onto a member that is itself a map is
rejected ("invalid projection through nested maps"); through arrays the
dimensions add up -/
example :
    fieldType (.tmap (.struct cP (.cons km (.tmap (.base .int)) .nil))) [km] = none ∧
    fieldType (.arr (.arr tW)) [kb] = some (.arr (.arr (.arr (.base .file)))) := ⟨rfl, rfl⟩

/-! ### 2. the map-call dimension rule -/

/-! ### definitional unfoldings (documentation of the model – "the model accepts iff the model's condition holds" –, not guarantees about the code; their weight is the per-run differential against the real compiler) -/

/-- An output `o : t` of a call is seen by later bindings as `t` (plain call),
`t[]` (call mapped over arrays) or `map<t>` (call mapped over a typed map); in
the last case the reference is rejected when `t` already contains a typed map
(no map of map). -/
theorem mapcall_dim (Γ : Env) (id o : Bytes) (sig : CallSig) (t : Ty)
    (hc : Γ.calls.lookup id = some sig) (ho : sig.outs.get o = some t) :
    refType Γ (.call id [o]) =
      match sig.mode with
      | .single => some t
      | .arr => some (.arr t)
      | .map => if (dims t).2 = 0 then some (.tmap t) else none := by
  simp only [refType, hc, ho, fieldType_nil, liftMode]
  cases sig.mode <;> rfl

/-! ### 2. the map-call dimension rule (continued) -/

/-- The same rule for projections of any depth: the type of `ID.o.path` is the
type of the projection out of the *lifted* struct of all outputs. -/
theorem mapcall_dim_path (Γ : Env) (id o : Bytes) (p : List Bytes) (sig : CallSig)
    (hc : Γ.calls.lookup id = some sig) :
    refType Γ (.call id (o :: p)) = fieldType sig.whole (o :: p) :=
  refType_call_eq Γ id o p sig hc

example :
    refType (Γ0 .arr) (.call cP [ko, kb]) = some (.arr (.arr (.base .file))) ∧
    refType (Γ0 .map) (.call cP [ko, ka]) = some (.tmap (.base .int)) ∧
    refType (Γ0 .map) (.call cP [km]) = none := ⟨rfl, rfl, rfl⟩

/-! ### 3. soundness: accepted bindings deliver conforming values -/

/-- Reference-free expressions (full strength, no filtering needed): a literal
the compiler accepts for a parameter of type `t` denotes – as the JSON that
`EncodeJSON` writes – a value that validates cleanly against `t`.
(Before the repair of `FloatExp.EncodeJSON` this failed for `x = 1000000.0`
bound to an `int`: the value was written `1e+06`.) -/
theorem validExp_literal_sound (Γ : Env) (ρ : Store) (t : Ty) (e : Exp)
    (ht : t.wf = true) (he : e.wf = true) (hr : e.hasRef = false)
    (hv : validExp Γ t e = true) :
    ∃ v, eval Γ ρ e = some v ∧ valid t v = true :=
  validExp_literal Γ ρ t ht e he hr hv

example :
    let e : Exp := .map true (.cons ka (.float 1 6) (.cons kb (.arr (.cons (.str kx) (.cons .null .nil))) .nil))
    tW.wf = true ∧ e.wf = true ∧ e.hasRef = false ∧ validExp (Γ0 .single) tW e = true ∧
      eval (Γ0 .single) ρ0 e = some (.obj [(ka, .num (.int 1000000)), (kb, .arr [.str kx, .null])]) :=
  ⟨by decide, by decide, by decide, by decide, rfl⟩

/-- VALUE-LEVEL corollary (NOT the run time's order of operations – see §3b,
`validExp_sound_rt_partial`; and `filter_no_error_partial` for the error flag).
PARTIAL.  Full statement (false, see the two witnesses below):
  `StoreOk Γ ρ → validExp Γ t e → ∃ v, eval Γ ρ e = some v ∧ valid t (filter t v).1`.
Proved under `holeFree Γ t e`: no reference inside `e` is bound across one of
the two assignability holes of C17 (`noHole`: a directory-like typed map from a
typed map that is not directory-like, F9; a typed map from a struct, F10).

Statement: if the compiler accepts `e` for a parameter of type `t`, and every
pipeline input / every output of the calls made so far conforms to its declared
type (`StoreOk`), then evaluating `e` succeeds (no binding-resolution error) and
the delivered value – after the filter the run time applies – validates cleanly
against `t`. -/
theorem validExp_sound_partial (Γ : Env) (ρ : Store) (t : Ty) (e : Exp)
    (hρ : StoreOk Γ ρ) (ht : t.wf = true) (he : e.wf = true)
    (hv : validExp Γ t e = true) (hh : holeFree Γ t e = true) :
    ∃ v, eval Γ ρ e = some v ∧ valid t (filter t v).1 = true :=
  validExp_sound Γ ρ hρ t ht e he hv hh

/-- expressions without references never touch a hole -/
theorem holeFree_of_noRef (Γ : Env) (t : Ty) (e : Exp) (hr : e.hasRef = false) :
    refHoleFree Γ t e = true := by
  simp [refHoleFree, refType_of_noRef Γ e hr]

/-- the sample store conforms to the sample environment -/
theorem sample_store_ok : StoreOk (Γ0 .single) ρ0 := by
  constructor
  · intro id t h
    simp only [List.lookup] at h
    split at h
    · cases h
      exact ⟨.arr [vW, .null], by simp [List.lookup, *], by decide⟩
    · split at h
      · cases h
        exact ⟨.obj [(ka, vW)], by simp [List.lookup, *], by decide⟩
      · cases h
  · intro id sig h
    simp only [List.lookup] at h
    split at h
    · cases h
      exact ⟨.obj [(ko, vW), (km, .obj [(ka, .num (.int 2))])], by simp [List.lookup, *], by decide⟩
    · cases h

/-- non-vacuity: a struct literal with a coercion (`float ← int`), a projection
through an array and a reference into a call, all hypotheses satisfied -/
example :
    let t : Ty := .struct [0x54] (.cons ka (.base .float) (.cons kb (.arr (.arr (.base .file))) (.cons kx tA .nil)))
    let e : Exp := .map true (.cons ka (.int 3) (.cons kb (.self kx [kb]) (.cons kx (.call cP [ko]) .nil)))
    StoreOk (Γ0 .single) ρ0 ∧ t.wf = true ∧ e.wf = true ∧
      validExp (Γ0 .single) t e = true ∧ holeFree (Γ0 .single) t e = true :=
  ⟨sample_store_ok, by decide, by decide, by decide, by decide⟩

/-- F9 at binding level (negative witness for the full soundness statement):
`x = self.m` with `self.m : map<string>` is accepted for `map<file> x`; the
conforming input `{"a/b": "x"}` is delivered unchanged and does not validate
(key is not a legal file name). -/
theorem f9_binding_witness :
    let Γ : Env := { self := [(km, .tmap (.base .string))], calls := [] }
    let ρ : Store := { self := [(km, .obj [(kslash, .str kx)])], calls := [] }
    let t : Ty := .tmap (.base .file)
    validExp Γ t (.self km []) = true ∧
    valid (.tmap (.base .string)) (.obj [(kslash, .str kx)]) = true ∧
    eval Γ ρ (.self km []) = some (.obj [(kslash, .str kx)]) ∧
    valid t (filter t (.obj [(kslash, .str kx)])).1 = false ∧
    holeFree Γ t (.self km []) = false :=
  ⟨by decide, by decide, rfl, by decide, by decide⟩

/-- F10 (`map<T> ← struct`) cannot be hit by a plain reference at top level:
every type class pre-checks the `(ArrayDim, MapDim)` shape of a reference, and
`TypedMapType.IsValidExpression` demands `MapDim ≠ 0` … -/
theorem f10_unreachable_at_top (Γ : Env) (d : Ty) (e : Exp) (n : Bytes) (fs : Fields)
    (hr : refType Γ e = some (.struct n fs)) : refOk Γ (.tmap d) e = false := by
  simp [refOk, hr, shapeOk, dims]

/-- … but it IS reachable one array level down (`ArrayType.IsAssignableFrom`
only compares the array dimension and the element types) and through `split`
(`isValidSplit` makes no shape check): `map<int>[] x = self.s` with
`self.s : A[]`, `struct A(int a)`, is accepted; the conforming input
`[{"a": 1, "x": "s"}]` (undeclared members are tolerated) is delivered with the
extra member and does not validate as `map<int>[]`.  (negative witness for the
full soundness statement) -/
theorem f10_binding_witness :
    let Γ : Env := { self := [(kx, .arr tA)], calls := [] }
    let v : J := .arr [.obj [(ka, .num (.int 1)), (kx, .str kx)]]
    let ρ : Store := { self := [(kx, v)], calls := [] }
    let t : Ty := .arr (.tmap (.base .int))
    validExp Γ t (.self kx []) = true ∧
    validBind Γ (.tmap (.base .int)) (.split (.self kx [])) = true ∧
    valid (.arr tA) v = true ∧
    valid t (filter t v).1 = false ∧
    holeFree Γ t (.self kx []) = false := by decide

/-- `x = CALL` standing for `x = CALL.default` (`rewriteToDefaultOutput`) is
sound in the same sense. -/
theorem defaultRewrite_sound_partial (Γ : Env) (ρ : Store) (t : Ty) (id : Bytes)
    (hρ : StoreOk Γ ρ) (ht : t.wf = true)
    (hv : defaultRewrite Γ t (.call id []) = true)
    (hh : refHoleFree Γ t (.call id [defaultName]) = true) :
    ∃ v, eval Γ ρ (.call id [defaultName]) = some v ∧ valid t (filter t v).1 = true := by
  simp only [defaultRewrite, Bool.and_eq_true] at hv
  simp only [refHoleFree] at hh
  cases hr : refType Γ (.call id [defaultName]) with
  | none => simp [hr] at hv
  | some s =>
    simp only [hr, Bool.and_eq_true] at hv hh
    obtain ⟨v, hev, hs⟩ := ref_shape Γ ρ hρ _ s hr
    exact ⟨v, hev, valid_of_shape _ _ (shape_filter_of_assignable t ht s v hs hv.2.2 hh)⟩

/-- `x = split REF`: every element handed to a fork conforms to the parameter
type (PARTIAL for the same reason: `noHole` between the parameter type and the
element type of the collection). -/
theorem split_ref_sound_partial (Γ : Env) (ρ : Store) (t s s' : Ty) (e : Exp)
    (hρ : StoreOk Γ ρ) (ht : t.wf = true)
    (hr : refType Γ e = some s) (hp : peel s = some s')
    (ha : assignable t s' = true) (hn : noHole t s' = true) :
    ∃ v xs, eval Γ ρ e = some v ∧ elems v = some xs ∧
      ∀ x ∈ xs, valid t (filter t x).1 = true := by
  obtain ⟨v, hev, hs⟩ := ref_shape Γ ρ hρ e s hr
  cases s with
  | arr s0 =>
    simp only [peel, Option.some.injEq] at hp
    subst hp
    cases hs with
    | null => exact ⟨.null, [], hev, rfl, by simp⟩
    | arr _ xs hx =>
      exact ⟨_, xs, hev, rfl, fun x hxm =>
        valid_of_shape _ _ (shape_filter_of_assignable t ht s0 x (hx x hxm) ha hn)⟩
  | tmap s0 =>
    simp only [peel, Option.some.injEq] at hp
    subst hp
    cases hs with
    | null => exact ⟨.null, [], hev, rfl, by simp⟩
    | tmap _ kvs h1 _ =>
      refine ⟨_, kvs.map Prod.snd, hev, rfl, ?_⟩
      intro x hxm
      obtain ⟨kv, hkv, rfl⟩ := List.mem_map.mp hxm
      exact valid_of_shape _ _ (shape_filter_of_assignable t ht s0 kv.2 (h1 kv hkv) ha hn)
  | _ => simp [peel] at hp

example :
    refType (Γ0 .single) (.self kx []) = some (.arr tW) ∧ peel (.arr tW) = some tW ∧
    assignable tA tW = true ∧ noHole tA tW = true ∧
    validBind (Γ0 .single) tA (.split (.self kx [])) = true :=
  ⟨rfl, rfl, by decide, by decide, by decide⟩

/-- An accepted call supplies every declared parameter with exactly the
binding found for it, and that binding is valid for the parameter's type (no
"missing input parameter" at run time); conversely every binding names a
declared parameter. -/
theorem validCall_complete_args (Γ : Env) (params : List (Bytes × Ty)) (binds : List (Bytes × Bind))
    (h : validCall Γ params binds = true) :
    (∀ x t, params.lookup x = some t → ∃ b, binds.lookup x = some b ∧ validBind Γ t b = true) ∧
    (∀ x b, (x, b) ∈ binds → ∃ t, params.lookup x = some t ∧ validBind Γ t b = true) :=
  ⟨fun x t hx => checkCall_bound Γ params binds h x t hx,
   fun x b hx => checkCall_known Γ params binds h x b hx⟩

example :
    validCall (Γ0 .single) [(ka, .base .float), (kb, tA)]
      [(kb, .plain (.call cP [ko])), (ka, .plain (.int 1))] = true := by decide

/-! ### 3b. soundness against the run time AS THE CODE DOES IT (`evalT`, `pathVal`) -/

/-- the auditor's program (H1): `struct A(int a)`, `stage PROD(out map<A>[] xs)`,
`stage CONS(in map[] ms)`, `call CONS(ms = PROD.xs.a)` -/
private abbrev h1Γ : Env :=
  { self := [], calls := [(cP, { name := cP, mode := .single, src := none, outs := .cons kx (.arr (.tmap tA)) .nil })] }
private abbrev h1ρ : Store :=
  { self := [], calls := [(cP, .obj [(kx, .arr [.obj [(km, .obj [(ka, .num (.int 1))])]])])] }

/-- NEGATIVE WITNESS for the code BEFORE repair 85e056c (`peelMapDOld`: an
untyped `map` destination stays in place below a typed map of the source): the
binding is accepted and `holeFree`, the store conforms, and `Path` fails (every
projected int is filtered as a map: "cannot filter int to map").  Reproduced on
the real run time (Tier A, corpus/C07/projection_through_typed_map_into_untyped_map_array.mro,
and the `C07.path` differential) before the repair; with the repaired code the
same binding delivers `[{"m": 1}]`. -/
theorem h1_untyped_map_dest_old_code :
    let t : Ty := .arr (.base .map)
    let e : Exp := .call cP [kx, ka]
    validExp h1Γ t e = true ∧ holeFree h1Γ t e = true ∧
    refType h1Γ e = some (.arr (.tmap (.base .int))) ∧
    valid (.struct cP (.cons kx (.arr (.tmap tA)) .nil)) (.obj [(kx, .arr [.obj [(km, .obj [(ka, .num (.int 1))])]])]) = true ∧
    pathValG peelMapDOld (some t) (.struct cP (.cons kx (.arr (.tmap tA)) .nil))
      (.obj [(kx, .arr [.obj [(km, .obj [(ka, .num (.int 1))])]])]) [kx, ka] = none ∧
    evalT h1Γ h1ρ t e = some (.arr [.obj [(km, .num (.int 1))]]) :=
  ⟨by decide, by decide, rfl, by decide, rfl, rfl⟩

/-- `LazyArgumentMap.Path` is sound for the binding checker (PARTIAL: `noHole`,
the two C17 holes): for a conforming value of the source type, a non-empty path
whose compile-time type `s` is assignable to the destination type `t`, the walk
with the destination peeled in lock-step SUCCEEDS (no "cannot filter", no
missing key) and delivers a valid value of `t`. -/
theorem path_sound_partial (src : Ty) (v : J) (p : List Bytes) (s t : Ty) (hp : p ≠ [])
    (hv : valid src v = true) (hf : fieldType src p = some s) (ht : t.wf = true)
    (ha : assignable t s = true) (hn : noHole t s = true) :
    ∃ w, pathVal (some t) src v p = some w ∧ valid t w = true := by
  obtain ⟨w, hw, hs⟩ := pathVal_sound src v p s t hp (shape_of_valid src v hv) hf ht ha hn
  exact ⟨w, hw, valid_of_shape _ _ hs⟩

/-- M1: filtering a conforming value to an assignable type reports NO error –
neither fatal nor soft (PARTIAL: `noHole`) -/
theorem filter_no_error_partial (t s : Ty) (v : J) (ht : t.wf = true) (hv : valid s v = true)
    (ha : assignable t s = true) (hn : noHole t s = true) :
    (filter t v).2 = .ok ∧ valid t (filter t v).1 = true :=
  ⟨filter_ok_of_assignable t ht s v (shape_of_valid s v hv) ha hn,
   valid_of_shape _ _ (shape_filter_of_assignable t ht s v (shape_of_valid s v hv) ha hn)⟩

/-- PARTIAL (hypothesis `holeFree`; the full statement is false: `f9_binding_witness`,
`f10_binding_witness`).  If the compiler accepts `e` for a parameter of type `t`
and every pipeline input / every output of the calls made so far conforms to
its declared type, then the run time – literals element-wise, references through
`Path` with the destination peeled, leaf-wise `FilterJson` – resolves `e` WITHOUT
ERROR to a value that validates cleanly against `t`. -/
theorem validExp_sound_rt_partial (Γ : Env) (ρ : Store) (t : Ty) (e : Exp)
    (hρ : StoreOk Γ ρ) (ht : t.wf = true) (he : e.wf = true)
    (hv : validExp Γ t e = true) (hh : holeFree Γ t e = true) :
    ∃ v, evalT Γ ρ t e = some v ∧ valid t v = true :=
  validExp_sound_rt Γ ρ hρ t ht e he hv hh

/-- non-vacuity: the struct literal with a coercion, a projection through an
array and a reference into a call of the §3 example; and the H1 binding -/
example :
    let t : Ty := .struct [0x54] (.cons ka (.base .float) (.cons kb (.arr (.arr (.base .file))) (.cons kx tA .nil)))
    let e : Exp := .map true (.cons ka (.int 3) (.cons kb (.self kx [kb]) (.cons kx (.call cP [ko]) .nil)))
    validExp (Γ0 .single) t e = true ∧ holeFree (Γ0 .single) t e = true ∧
    evalT (Γ0 .single) ρ0 t e = some (.obj [(ka, .num (.int 3)), (kb, .arr [.arr [.str kx], .null]),
      (kx, .obj [(ka, .num (.int 1))])]) := ⟨by decide, by decide, rfl⟩

/-- `x = split REF` (PARTIAL: `noHole` between the ELEMENT type of the collection
and `t` – weaker than `noHole` between the whole collection and `t[]` / `map<t>`,
which for a typed map would also ask for legal keys although the keys are not
delivered; `Proofs.TypingRun.refRT_tmap_elems`): the collection is resolved
without error and every element handed to a fork conforms to the parameter type. -/
theorem split_ref_sound_rt_partial (Γ : Env) (ρ : Store) (t : Ty) (e : Exp)
    (hρ : StoreOk Γ ρ) (ht : t.wf = true) (he : ∃ id p, e = .self id p ∨ e = .call id p)
    (hv : validBind Γ t (.split e) = true) (hh : bindHoleFreeT Γ t (.split e) = true) :
    ∃ vs, deliveredT Γ ρ t (.split e) = some vs ∧ ∀ v ∈ vs, valid t v = true :=
  split_ref_sound_rt Γ ρ hρ t ht e he hv hh

example :
    validBind (Γ0 .single) tA (.split (.self kx [])) = true ∧ bindHoleFreeT (Γ0 .single) tA (.split (.self kx [])) = true ∧
    deliveredT (Γ0 .single) ρ0 tA (.split (.self kx [])) = some [.obj [(ka, .num (.int 1))], .null] ∧
    validBind h1Γ (.base .map) (.split (.call cP [kx, ka])) = true ∧
    deliveredT h1Γ h1ρ (.base .map) (.split (.call cP [kx, ka])) = some [.obj [(km, .num (.int 1))]] :=
  ⟨by decide, by decide, rfl, by decide, rfl⟩

/-! ### 3c. what `StoreOk` demands of MAPPED calls (M3) -/

/-- stores for an array-called and a map-called producer conform (non-vacuity of
`StoreOk` beyond single calls) -/
theorem sample_store_ok_mapped :
    StoreOk (Γ0 .arr) { self := ρ0.self, calls := [(cP, .arr [.obj [(ko, vW), (km, .obj [])], .null])] } ∧
    StoreOk (Γ0 .map) { self := ρ0.self, calls := [(cP, .obj [(ka, .obj [(ko, vW), (km, .null)])])] } := by
  refine ⟨⟨?_, ?_⟩, ⟨?_, ?_⟩⟩
  · intro id t h
    simp only [List.lookup] at h
    split at h
    · cases h
      exact ⟨.arr [vW, .null], by simp [List.lookup, *], by decide⟩
    · split at h
      · cases h
        exact ⟨.obj [(ka, vW)], by simp [List.lookup, *], by decide⟩
      · cases h
  · intro id sig h
    simp only [List.lookup] at h
    split at h
    · cases h
      exact ⟨.arr [.obj [(ko, vW), (km, .obj [])], .null], by simp [List.lookup, *], by decide⟩
    · cases h
  · intro id t h
    simp only [List.lookup] at h
    split at h
    · cases h
      exact ⟨.arr [vW, .null], by simp [List.lookup, *], by decide⟩
    · split at h
      · cases h
        exact ⟨.obj [(ka, vW)], by simp [List.lookup, *], by decide⟩
      · cases h
  · intro id sig h
    simp only [List.lookup] at h
    split at h
    · cases h
      exact ⟨.obj [(ka, .obj [(ko, vW), (km, .null)])], by simp [List.lookup, *], by decide⟩
    · cases h

/-- NEGATIVE WITNESS for "stage outputs conform ⇒ StoreOk" on a MAP-called stage
with a file-typed output: the keys of the merged value come from the split
source (here `"a/b"`, legal in a `map<int>`), every fork's outputs conform to the
stage's declared output struct, and still the merged `map<struct>` is not a
valid value (the key is not a legal file name) – `StoreOk` is strictly more than
the property's premise there; nothing in the compiler enforces it. -/
theorem storeOk_map_call_key_witness :
    let outs : Fields := .cons ko (.base .file) .nil
    let sig : CallSig := { name := cP, mode := .map, src := some (.map none), outs := outs }
    valid sig.struct (.obj [(ko, .str kx)]) = true ∧
    valid (.tmap (.base .int)) (.obj [(kslash, .num (.int 1))]) = true ∧
    valid sig.whole (.obj [(kslash, .obj [(ko, .str kx)])]) = false := by decide

/-! ### definitional unfoldings (documentation of the model – "the model accepts iff the model's condition holds" –, not guarantees about the code; their weight is the per-run differential against the real compiler) -/

/-- `ref_iff` for references into calls -/
theorem ref_iff_call (Γ : Env) (t : Ty) (id : Bytes) (p : List Bytes) (s : Ty)
    (hr : refType Γ (.call id p) = some s) :
    validExp Γ t (.call id p) = (shapeOk t s && assignable t s) := by
  cases t with
  | base b => simp [validExp, validBase, refOk, hr]
  | _ => simp [validExp, refOk, hr]

/-! ### 3c. what `StoreOk` demands of MAPPED calls (M3) (continued) -/

/-! ### 4. the rejection direction: what an accepted literal / reference must look like -/

/-! (Most of §4, and `mapcall_dim`, `checkCalls_cons_iff`, `validPipeline_iff`, `validPipelineU_iff`,
`unused_input_iff`, `validTop_iff`, `modsOk_iff`, `stageRetain_iff`, `pipeRetain_iff`,
`wildcard_expansion_iff`, `wildcard_members_ref_iff` are DEFINITIONAL UNFOLDINGS: documentation of the
model – "the model accepts iff the model's condition holds" –, not guarantees about the code.  Their
weight is the per-run differential of the model against the real compiler.) -/

/-! ### definitional unfoldings (documentation of the model – "the model accepts iff the model's condition holds" –, not guarantees about the code; their weight is the per-run differential against the real compiler) -/

/-- string literals are accepted exactly for `string`, `file`, `path` and user file types -/
theorem str_literal_iff (Γ : Env) (t : Ty) (s : Bytes) :
    validExp Γ t (.str s) = true ↔
      t = .base .string ∨ t = .base .file ∨ t = .base .path ∨ ∃ n, t = .user n := by
  cases t with
  | base b => cases b <;> simp [validExp, validBase]
  | _ => simp [validExp]

/-- integer literals exactly for `int` and `float` -/
theorem int_literal_iff (Γ : Env) (t : Ty) (v : Int) :
    validExp Γ t (.int v) = true ↔ t = .base .int ∨ t = .base .float := by
  cases t with
  | base b => cases b <;> simp [validExp, validBase]
  | _ => simp [validExp]

/-- float literals exactly for `float`, and for `int` when the value is integral and fits int64 -/
theorem float_literal_iff (Γ : Env) (t : Ty) (m e : Int) :
    validExp Γ t (.float m e) = true ↔
      t = .base .float ∨ (t = .base .int ∧ floatIsInt64 m e = true) := by
  cases t with
  | base b => cases b <;> simp [validExp, validBase]
  | _ => simp [validExp]

/-- boolean literals exactly for `bool` -/
theorem bool_literal_iff (Γ : Env) (t : Ty) (b : Bool) :
    validExp Γ t (.bool b) = true ↔ t = .base .bool := by
  cases t with
  | base b' => cases b' <;> simp [validExp, validBase]
  | _ => simp [validExp]

/-- `null` is accepted for every type -/
theorem null_literal (Γ : Env) (t : Ty) : validExp Γ t .null = true := by
  cases t <;> simp [validExp, validBase]

/-- an array literal is accepted exactly for array types, element-wise against
the element type (so one dimension too many or too few is rejected, as is an
array literal for a map / struct / scalar) -/
theorem array_literal_iff (Γ : Env) (t : Ty) (xs : Exps) :
    validExp Γ t (.arr xs) = true ↔
      ∃ t', t = .arr t' ∧ ∀ x ∈ xs.toList, validExp Γ t' x = true := by
  cases t with
  | base b => simp [validExp, validBase]
  | arr t' => simp [validExp, List.all_eq_true]
  | _ => simp [validExp]

/-- a map literal `{"k": e, …}` is accepted exactly for: the untyped `map`
(when it contains no reference), a typed map (element-wise, with legal file
names as keys if the map is directory-like), or a struct whose declared
members are all present and valid and which has no other member -/
theorem map_literal_iff (Γ : Env) (t : Ty) (kvs : KVs) :
    validExp Γ t (.map false kvs) = true ↔
      (t = .base .map ∧ kvs.hasRef = false) ∨
      (∃ t', t = .tmap t' ∧ ∀ kv ∈ kvs.toList,
          validExp Γ t' kv.2 = true ∧ (isDirMap t' = true → legalName kv.1 = true)) ∨
      (∃ n fs, t = .struct n fs ∧ validFields Γ fs kvs = true ∧
          (decide (kvs.toList.length > fs.toList.length) &&
            kvs.toList.any (fun kv => (fs.get kv.1).isNone)) = false) := by
  cases t with
  | base b => cases b <;> simp [validExp, validBase]
  | tmap t' =>
    simp only [validExp, List.all_eq_true, Bool.and_eq_true, Bool.or_eq_true, Bool.not_eq_true',
      reduceCtorEq, false_and, Ty.tmap.injEq, exists_eq_left', false_or, or_false]
    cases isDirMap t' <;> simp
  | struct n fs =>
    simp only [validExp, Bool.and_eq_true, Bool.not_eq_true', reduceCtorEq, false_and, false_or,
      exists_const, Ty.struct.injEq]
    constructor
    · intro h; exact ⟨n, fs, ⟨rfl, rfl⟩, h⟩
    · rintro ⟨_, _, ⟨rfl, rfl⟩, h⟩; exact h
  | _ => simp [validExp]

/-- a struct literal `{k: e, …}` is accepted for struct types only -/
theorem struct_literal_iff (Γ : Env) (t : Ty) (kvs : KVs) :
    validExp Γ t (.map true kvs) = true ↔
      ∃ n fs, t = .struct n fs ∧ validFields Γ fs kvs = true ∧
          (decide (kvs.toList.length > fs.toList.length) &&
            kvs.toList.any (fun kv => (fs.get kv.1).isNone)) = false := by
  cases t with
  | base b => cases b <;> simp [validExp, validBase]
  | struct n fs =>
    simp only [validExp, Bool.and_eq_true, Bool.not_eq_true', Ty.struct.injEq]
    constructor
    · intro h; exact ⟨n, fs, ⟨rfl, rfl⟩, h⟩
    · rintro ⟨_, _, ⟨rfl, rfl⟩, h⟩; exact h
  | _ => simp [validExp]

/-! ### 4. the rejection direction: what an accepted literal / reference must look like (continued) -/

/-- a literal for a struct type that lacks a declared member is rejected -/
theorem struct_missing_field_rejected (Γ : Env) (n : Bytes) (fs : Fields) (b : Bool) (kvs : KVs)
    (k : Bytes) (t : Ty) (hk : (k, t) ∈ fs.toList) (hm : kvs.get k = none) :
    validExp Γ (.struct n fs) (.map b kvs) = false := by
  cases h : validExp Γ (.struct n fs) (.map b kvs) with
  | false => rfl
  | true =>
    simp only [validExp, Bool.and_eq_true] at h
    obtain ⟨e, he, _⟩ := (validFields_iff Γ fs kvs).mp h.1 k t hk
    rw [hm] at he
    cases he

/-- a literal for a struct type with a member that is not declared is rejected -/
theorem struct_extra_field_rejected (Γ : Env) (n : Bytes) (fs : Fields) (b : Bool) (kvs : KVs)
    (hfs : (Ty.struct n fs).wf = true) (kv : Bytes × Exp) (hkv : kv ∈ kvs.toList)
    (hx : fs.get kv.1 = none) :
    validExp Γ (.struct n fs) (.map b kvs) = false := by
  cases h : validExp Γ (.struct n fs) (.map b kvs) with
  | false => rfl
  | true =>
    simp only [validExp, Bool.and_eq_true, Bool.not_eq_true'] at h
    have hwf' := Fields.wf_iff.mp (by simpa [Ty.wf] using hfs)
    obtain ⟨t, ht⟩ := struct_literal_no_extra Γ fs kvs hwf'.1 h.1 h.2 kv hkv
    rw [Fields.get_of_mem hwf'.1 ht] at hx
    cases hx

example :
    validExp (Γ0 .single) tA (.map true (.cons ka (.int 1) (.cons kb (.int 2) .nil))) = false ∧
    validExp (Γ0 .single) tW (.map true (.cons ka (.int 1) .nil)) = false ∧
    validExp (Γ0 .single) tA (.map true (.cons ka (.int 1) .nil)) = true := by decide

/-! ### definitional unfoldings (documentation of the model – "the model accepts iff the model's condition holds" –, not guarantees about the code; their weight is the per-run differential against the real compiler) -/

/-- A reference that does not resolve – unknown pipeline input, call that is
not made, non-existent output, non-existent or impossible field projection,
map of map – is rejected for every parameter type, plain or split. -/
theorem unresolved_ref_rejected (Γ : Env) (t : Ty) (e : Exp)
    (he : ∃ id p, e = .self id p ∨ e = .call id p) (hr : refType Γ e = none) :
    validExp Γ t e = false ∧ validBind Γ t (.split e) = false := by
  obtain ⟨id, p, rfl | rfl⟩ := he
  · refine ⟨?_, by simp [validBind, hr]⟩
    cases t with
    | base b => simp [validExp, validBase, refOk, hr]
    | _ => simp [validExp, refOk, hr]
  · refine ⟨?_, by simp [validBind, hr]⟩
    cases t with
    | base b => simp [validExp, validBase, refOk, hr]
    | _ => simp [validExp, refOk, hr]

/-! ### 4. the rejection direction: what an accepted literal / reference must look like (continued) -/

/-- the instances of the catalogue: unknown input, call not made, no such
output, no such field, projection out of a non-struct, nested map -/
example :
    refType (Γ0 .single) (.self ka []) = none ∧
    refType (Γ0 .single) (.call ka [ko]) = none ∧
    refType (Γ0 .single) (.call cP [kx]) = none ∧
    refType (Γ0 .single) (.call cP [ko, kx]) = none ∧
    refType (Γ0 .single) (.call cP [ko, ka, ka]) = none ∧
    refType (Γ0 .map) (.call cP [km]) = none := ⟨rfl, rfl, rfl, rfl, rfl, rfl⟩

/-! ### definitional unfoldings (documentation of the model – "the model accepts iff the model's condition holds" –, not guarantees about the code; their weight is the per-run differential against the real compiler) -/

/-- a reference that resolves is accepted exactly when its type has the shape
the parameter's type class asks for and is assignable (C17's `assignable`) -/
theorem ref_iff (Γ : Env) (t : Ty) (id : Bytes) (p : List Bytes) (s : Ty)
    (hr : refType Γ (.self id p) = some s) :
    validExp Γ t (.self id p) = (shapeOk t s && assignable t s) := by
  cases t with
  | base b => simp [validExp, validBase, refOk, hr]
  | _ => simp [validExp, refOk, hr]

/-- a call with a binding for a name that is not a declared parameter, or
without a binding for a declared parameter, is rejected -/
theorem call_unknown_or_missing_rejected (Γ : Env) (params : List (Bytes × Ty))
    (binds : List (Bytes × Bind)) :
    ((∃ x b, (x, b) ∈ binds ∧ params.lookup x = none) → validCall Γ params binds = false) ∧
    ((∃ x t, params.lookup x = some t ∧ binds.lookup x = none) → validCall Γ params binds = false) := by
  constructor
  · rintro ⟨x, b, hb, hp⟩
    cases h : validCall Γ params binds with
    | false => rfl
    | true =>
      obtain ⟨t, ht, _⟩ := checkCall_known Γ params binds h x b hb
      rw [hp] at ht; cases ht
  · rintro ⟨x, t, hp, hb⟩
    cases h : validCall Γ params binds with
    | false => rfl
    | true =>
      obtain ⟨b, hb', _⟩ := checkCall_bound Γ params binds h x t hp
      rw [hb] at hb'; cases hb'

/-! ### 4. the rejection direction: what an accepted literal / reference must look like (continued) -/

/-- split sources of one call: arrays with arrays, maps with maps; statically
known lengths must be equal, statically known key sets must be the same -/
theorem split_sources_consistent (a b : SplitShape) :
    (mergeShape a b).isSome = true ↔
      (∃ x y, a = .arr x ∧ b = .arr y ∧ (∀ n m, x = some n → y = some m → n = m)) ∨
      (∃ x y, a = .map x ∧ b = .map y ∧ (∀ k l, x = some k → y = some l → sameKeys k l = true)) := by
  cases a with
  | arr x =>
    cases b with
    | arr y =>
      cases x <;> cases y <;> simp [mergeShape]
    | map y => cases x <;> simp [mergeShape]
  | map x =>
    cases b with
    | arr y => cases x <;> simp [mergeShape]
    | map y =>
      cases x <;> cases y <;> simp [mergeShape]

example :
    validCall (Γ0 .single) [(ka, .base .int), (kb, .base .int)]
      [(ka, .split (.arr (.cons (.int 1) (.cons (.int 2) .nil)))),
       (kb, .split (.arr (.cons (.int 1) (.cons (.int 2) (.cons (.int 3) .nil)))))] = false ∧
    validCall (Γ0 .single) [(ka, .base .int), (kb, .base .int)]
      [(ka, .split (.arr (.cons (.int 1) (.cons (.int 2) .nil)))),
       (kb, .split (.map false (.cons ka (.int 1) (.cons kb (.int 2) .nil))))] = false ∧
    validCall (Γ0 .single) [(ka, .base .int), (kb, .base .int)]
      [(ka, .split (.arr (.cons (.int 1) (.cons (.int 2) .nil)))),
       (kb, .split (.arr (.cons (.int 3) (.cons .null .nil))))] = true := by decide

/-! ### 5. the rejection direction, summarised: over-strictness is bounded -/

/-- If the compiler rejects `e` for a parameter of type `t`, then EITHER the
expression falls into one of the enumerated over-strict classes (`overStrict`,
a decidable predicate: (R) a rejected reference, (S) a struct-syntax literal
bound to a typed map / the untyped map, (U) a reference inside a literal for
the untyped map, (X) a struct literal with an undeclared extra member – each
met somewhere along the type-directed descent), OR the JSON value `e` denotes
is invalid for `t`, in every store in which `e` evaluates at all. -/
theorem rejected_invalid_or_overstrict (Γ : Env) (ρ : Store) (t : Ty) (e : Exp)
    (hr : validExp Γ t e = false) :
    overStrict Γ t e = true ∨ ∀ v, eval Γ ρ e = some v → valid t v = false := by
  cases ho : overStrict Γ t e with
  | true => exact Or.inl rfl
  | false =>
    refine Or.inr (fun v hev => ?_)
    cases hv : valid t v with
    | false => rfl
    | true =>
      have := validExp_complete Γ ρ t e v ho hev hv
      rw [hr] at this
      cases this

/-- the same as a completeness statement: outside the over-strict classes every
expression whose value validates cleanly is accepted -/
theorem validExp_complete_outside_overstrict (Γ : Env) (ρ : Store) (t : Ty) (e : Exp) (v : J)
    (ho : overStrict Γ t e = false) (hev : eval Γ ρ e = some v) (hv : valid t v = true) :
    validExp Γ t e = true :=
  validExp_complete Γ ρ t e v ho hev hv

/-- non-vacuity of both alternatives, and the classes ARE over-strict: each of
the four is inhabited by a rejected expression whose value validates -/
example :
    -- invalid value: a string for an int
    (validExp (Γ0 .single) (.base .int) (.str kx) = false ∧
      overStrict (Γ0 .single) (.base .int) (.str kx) = false ∧
      valid (.base .int) (.str kx) = false) ∧
    -- (X) extra member: `{a: 1, b: 2}` for `struct A(int a)`; the JSON validates
    (validExp (Γ0 .single) tA (.map true (.cons ka (.int 1) (.cons kb (.int 2) .nil))) = false ∧
      overStrict (Γ0 .single) tA (.map true (.cons ka (.int 1) (.cons kb (.int 2) .nil))) = true ∧
      valid tA (.obj [(ka, .num (.int 1)), (kb, .num (.int 2))]) = true) ∧
    -- (S) struct syntax for a typed map
    (validExp (Γ0 .single) (.tmap (.base .int)) (.map true (.cons ka (.int 1) .nil)) = false ∧
      overStrict (Γ0 .single) (.tmap (.base .int)) (.map true (.cons ka (.int 1) .nil)) = true ∧
      valid (.tmap (.base .int)) (.obj [(ka, .num (.int 1))]) = true) ∧
    -- (U) a reference inside a literal for the untyped map
    (validExp (Γ0 .single) (.base .map) (.map false (.cons ka (.call cP [ko]) .nil)) = false ∧
      overStrict (Γ0 .single) (.base .map) (.map false (.cons ka (.call cP [ko]) .nil)) = true) ∧
    -- (R) a rejected reference: `self.x : W[]` for an int
    (validExp (Γ0 .single) (.base .int) (.self kx []) = false ∧
      overStrict (Γ0 .single) (.base .int) (.self kx []) = true) := by decide

/-! ### 6. wildcard bindings -/

/-! ### definitional unfoldings (documentation of the model – "the model accepts iff the model's condition holds" –, not guarantees about the code; their weight is the per-run differential against the real compiler) -/

/-- What `* = self` / `* = REF` stands for: exactly the bindings `m = REF.m`
for the members `m` (pipeline inputs, resp. members of the struct type under
all array / map dimensions of the reference's type) that are parameters of the
callee. -/
theorem wildcard_expansion_iff (Γ : Env) (params : List (Bytes × Ty)) (w : Wild)
    (ex : List (Bytes × Bind)) (h : expandWild Γ params w = some ex) (x : Bytes) (b : Bind) :
    (x, b) ∈ ex ↔ ∃ ms e, wildMembers Γ w = some ms ∧ (x, e) ∈ ms ∧
      (params.lookup x).isSome = true ∧ b = .plain e :=
  mem_expandWild Γ params w ex h x b

/-- the members of `* = REF`: the reference must resolve and the type under
its dimensions must be a struct -/
theorem wildcard_members_ref_iff (Γ : Env) (e : Exp) (ms : List (Bytes × Exp)) :
    wildMembers Γ (.ref e) = some ms ↔
      ∃ t n fs, refType Γ e = some t ∧ stripDims t = .struct n fs ∧
        ms = fs.toList.map (fun m => (m.1, refAppend e m.1)) := by
  simp only [wildMembers]
  cases hr : refType Γ e with
  | none => simp
  | some t =>
    constructor
    · intro h
      simp only at h
      cases hs : stripDims t with
      | struct n fs =>
        rw [hs] at h
        simp only [Option.some.injEq] at h
        exact ⟨t, n, fs, rfl, hs, h.symm⟩
      | base b => rw [hs] at h; cases h
      | user n => rw [hs] at h; cases h
      | arr t' => rw [hs] at h; cases h
      | tmap t' => rw [hs] at h; cases h
    · rintro ⟨t', n, fs, ht, hs, rfl⟩
      cases ht
      simp [hs]

/-! ### 6. wildcard bindings (continued) -/

/-- a wildcard over something that is not a struct (or does not resolve) is rejected -/
theorem wildcard_not_struct_rejected (Γ : Env) (params : List (Bytes × Ty))
    (binds : List (Bytes × Bind)) (w : Wild) (h : wildMembers Γ w = none) :
    validCallW Γ params binds (some w) = false := by
  simp [validCallW, checkCallW, allBinds, expandWild, h]

/-- An accepted call with a wildcard: the written bindings together with the
expansion bind every declared parameter EXACTLY ONCE (names pairwise distinct),
each with a binding valid for the parameter's type, and bind nothing else. -/
theorem validCallW_complete_args (Γ : Env) (params : List (Bytes × Ty)) (binds : List (Bytes × Bind))
    (w : Option Wild) (h : validCallW Γ params binds w = true) :
    ∃ bs, allBinds Γ params binds w = some bs ∧ (bs.map Prod.fst).Nodup ∧
      (∀ x t, params.lookup x = some t → ∃ b, bs.lookup x = some b ∧ validBind Γ t b = true) ∧
      (∀ x b, (x, b) ∈ bs → ∃ t, params.lookup x = some t ∧ validBind Γ t b = true) := by
  simp only [validCallW, checkCallW] at h
  cases ha : allBinds Γ params binds w with
  | none => simp [ha] at h
  | some bs =>
    simp only [ha] at h
    have hv : validCall Γ params bs = true := by simpa [validCall] using h
    exact ⟨bs, rfl, checkCall_nodup Γ params bs hv,
      fun x t hx => checkCall_bound Γ params bs hv x t hx,
      fun x b hx => checkCall_known Γ params bs hv x b hx⟩

/-- a parameter bound explicitly AND by the wildcard is rejected (`DuplicateBinding`) -/
theorem wildcard_duplicate_rejected (Γ : Env) (params : List (Bytes × Ty)) (binds : List (Bytes × Bind))
    (w : Wild) (ex : List (Bytes × Bind)) (hex : expandWild Γ params w = some ex)
    (x : Bytes) (b b' : Bind) (h1 : (x, b) ∈ binds) (h2 : (x, b') ∈ ex) :
    validCallW Γ params binds (some w) = false := by
  cases hv : validCallW Γ params binds (some w) with
  | false => rfl
  | true =>
    obtain ⟨bs, hbs, hnd, _, _⟩ := validCallW_complete_args Γ params binds (some w) hv
    simp only [allBinds, hex, Option.some.injEq] at hbs
    subst hbs
    rw [List.map_append, List.nodup_append] at hnd
    exact absurd rfl (hnd.2.2 x (List.mem_map.mpr ⟨(x, b), h1, rfl⟩) x (List.mem_map.mpr ⟨(x, b'), h2, rfl⟩))

/-- a declared parameter that is neither bound explicitly nor a member of the
wildcard's struct is reported missing (`ArgumentNotSuppliedError`) -/
theorem wildcard_missing_member_rejected (Γ : Env) (params : List (Bytes × Ty))
    (binds : List (Bytes × Bind)) (w : Wild) (ms : List (Bytes × Exp))
    (hms : wildMembers Γ w = some ms) (x : Bytes) (t : Ty) (hp : params.lookup x = some t)
    (hb : binds.lookup x = none) (hm : ∀ m ∈ ms, m.1 ≠ x) :
    validCallW Γ params binds (some w) = false := by
  cases hv : validCallW Γ params binds (some w) with
  | false => rfl
  | true =>
    obtain ⟨bs, hbs, _, hall, _⟩ := validCallW_complete_args Γ params binds (some w) hv
    simp only [allBinds, expandWild, hms, Option.some.injEq] at hbs
    subst hbs
    obtain ⟨b, hl, _⟩ := hall x t hp
    rw [List.lookup_append, hb, Option.none_or] at hl
    have : List.lookup x ((ms.filter fun m => (params.lookup m.1).isSome).map fun m => (m.1, Bind.plain m.2)) = none := by
      rw [List.lookup_eq_none_iff]
      intro p hpm
      obtain ⟨m, hmm, rfl⟩ := List.mem_map.mp hpm
      have := hm m (List.mem_filter.mp hmm).1
      simpa using fun h => this h.symm
    rw [this] at hl
    cases hl

/-- `* = self` for a callee whose parameters are the pipeline's inputs, and a
wildcard over a call made in array mode (the members are seen one array
dimension up, and are type-checked as such) -/
example :
    validCallW (Γ0 .single) [(kx, .arr tW), (km, .tmap tW)] [] (some .self) = true ∧
    validCallW (Γ0 .arr) [(ko, .arr tW)] [] (some (.ref (.call cP []))) = true ∧
    validCallW (Γ0 .arr) [(ko, tW)] [] (some (.ref (.call cP []))) = false ∧
    validCallW (Γ0 .single) [(ka, .base .int), (kb, .arr (.base .file))] [] (some (.ref (.call cP [ko]))) = true ∧
    validCallW (Γ0 .single) [(ka, .base .int), (kb, .arr (.base .file))] [(ka, .plain (.int 1))]
      (some (.ref (.call cP [ko]))) = false ∧
    validCallW (Γ0 .single) [(ka, .base .int), (kx, .base .int)] [] (some (.ref (.call cP [ko]))) = false ∧
    wildMembers (Γ0 .single) (.ref (.self kx [kb])) = none := by decide

/-- SOUNDNESS of a whole call (wildcard included), PARTIAL for the same reason
as `validExp_sound_partial` (`bindHoleFree`: C17's `noHole` at every reference
of every binding): in a conforming store every declared parameter receives –
through its one binding, plain, rewritten to `.default`, expanded from the
wildcard, or split – only values that, after the run time's filter, validate
cleanly against the parameter's type. -/
theorem call_sound_partial (Γ : Env) (ρ : Store) (params : List (Bytes × Ty))
    (binds : List (Bytes × Bind)) (w : Option Wild)
    (hρ : StoreOk Γ ρ) (hp : ∀ x t, params.lookup x = some t → t.wf = true)
    (h : validCallW Γ params binds w = true) :
    ∃ bs, allBinds Γ params binds w = some bs ∧
      ∀ x t, params.lookup x = some t → ∃ b, bs.lookup x = some b ∧
        (b.wf = true → bindHoleFree Γ t b = true →
          ∃ vs, delivered Γ ρ t b = some vs ∧ ∀ v ∈ vs, valid t (filter t v).1 = true) := by
  obtain ⟨bs, hbs, _, hall, _⟩ := validCallW_complete_args Γ params binds w h
  refine ⟨bs, hbs, fun x t hx => ?_⟩
  obtain ⟨b, hl, hv⟩ := hall x t hx
  exact ⟨b, hl, fun hw hh => bind_sound Γ ρ hρ t (hp x t hx) b hw hv hh⟩

example :
    let ps : List (Bytes × Ty) := [(ka, .base .float), (kb, .arr (.base .file))]
    validCallW (Γ0 .single) ps [] (some (.ref (.call cP [ko]))) = true ∧
    allBinds (Γ0 .single) ps [] (some (.ref (.call cP [ko]))) =
      some [(ka, .plain (.call cP [ko, ka])), (kb, .plain (.call cP [ko, kb]))] ∧
    bindHoleFree (Γ0 .single) (.base .float) (.plain (.call cP [ko, ka])) = true ∧
    delivered (Γ0 .single) ρ0 (.base .float) (.plain (.call cP [ko, ka])) = some [.num (.int 1)] := by
  refine ⟨by decide, rfl, by decide, rfl⟩

/-! ### 7. modifiers -/

/-! ### definitional unfoldings (documentation of the model – "the model accepts iff the model's condition holds" –, not guarantees about the code; their weight is the per-run differential against the real compiler) -/

/-- The exact acceptance condition of `Modifiers.compile`: no modifier twice in
`using`; `disabled` is a valid binding for a `bool` (a reference to a `bool`,
possibly through the `.default` rewrite); a keyword modifier is not repeated in
`using`; `local` / `preflight` / `volatile` (after `using` is folded in) only
on stages; a preflight call has no binding that IS a reference to a call (nor
its wildcard, nor `disabled`) and its callee has no outputs. -/
theorem modsOk_iff (Γ : Env) (callee : Callee) (binds : List (Bytes × Bind)) (w : Option Wild)
    (m : Mods) :
    modsOk Γ callee binds w m = true ↔
      ((m.usings.map ModItem.tag).eraseDups.length = (m.usings.map ModItem.tag).length ∧
       (∀ e, usingDisabled m.usings = some e → validBind Γ (.base .bool) (.plain e) = true) ∧
       (m.kwVolatile && (usingVal 2 m.usings).isSome) = false ∧
       (m.kwLocal && (usingVal 0 m.usings).isSome) = false ∧
       (m.kwPreflight && (usingVal 1 m.usings).isSome) = false ∧
       (!callee.isStage && (effective m.kwLocal (usingVal 0 m.usings) ||
          effective m.kwPreflight (usingVal 1 m.usings) ||
          effective m.kwVolatile (usingVal 2 m.usings))) = false ∧
       (effective m.kwPreflight (usingVal 1 m.usings) &&
          (binds.any (fun ib => bindIsCallRef ib.2) || wildIsCallRef w ||
            (match usingDisabled m.usings with | some e => isCallRef e | none => false))) = false ∧
       (effective m.kwPreflight (usingVal 1 m.usings) && !callee.outs.toList.isEmpty) = false) := by
  simp only [modsOk, List.isEmpty_iff]
  exact modErrs_nil_iff Γ callee binds w m

/-! ### 7. modifiers (continued) -/

/-- SOUNDNESS of `disabled` (FULL strength – `bool` has no assignability hole):
in a conforming store the modifier of an accepted call evaluates, and to a
valid `bool`. -/
theorem disabled_sound (Γ : Env) (ρ : Store) (callee : Callee) (binds : List (Bytes × Bind))
    (w : Option Wild) (m : Mods) (e : Exp) (hρ : StoreOk Γ ρ) (he : e.wf = true)
    (hm : modsOk Γ callee binds w m = true) (hd : usingDisabled m.usings = some e) :
    ∃ v, eval Γ ρ (bindExp Γ (.base .bool) e) = some v ∧
      valid (.base .bool) (filter (.base .bool) v).1 = true := by
  have hv := ((modsOk_iff Γ callee binds w m).mp hm).2.1 e hd
  exact plain_sound Γ ρ hρ (.base .bool) (by simp [Ty.wf]) e he hv (by simp [holeFree, refHoleFree]; split <;> simp [noHole])

/-- PARTIAL.  Intended compile-time statement: "no binding of an accepted
preflight call contains a reference to another call".  FALSE of the compiler –
see `preflight_nested_ref_witness` – and it cannot be made true: the pinned
suite contains such a call.  Proved: what `Modifiers.compile` does enforce – no
binding IS such a reference, and the callee has no outputs.  The run time no
longer relies on the intended statement (repair 937256c: the stages a preflight
stage depends on do not wait for it; checked in Tier A every run). -/
theorem preflight_isolated_partial (Γ : Env) (callee : Callee) (binds : List (Bytes × Bind))
    (w : Option Wild) (m : Mods) (hm : modsOk Γ callee binds w m = true)
    (hp : effective m.kwPreflight (usingVal 1 m.usings) = true) :
    callee.isStage = true ∧ callee.outs = .nil ∧
      (∀ x id p, (x, Bind.plain (.call id p)) ∉ binds) ∧
      (∀ id p, w ≠ some (.ref (.call id p))) := by
  obtain ⟨_, _, _, _, _, h6, h7, h8⟩ := (modsOk_iff Γ callee binds w m).mp hm
  simp only [hp, Bool.true_and, Bool.or_true, Bool.true_or, Bool.and_true, Bool.not_eq_eq_eq_not,
    Bool.not_false, Bool.or_eq_false_iff, List.any_eq_false] at h6 h7 h8
  refine ⟨by simpa using h6, ?_, ?_, ?_⟩
  · cases ho : callee.outs with
    | nil => rfl
    | cons k t r => simp [ho, Fields.toList] at h8
  · intro x id p hmem
    have := h7.1.1 (x, .plain (.call id p)) hmem
    simp [bindIsCallRef, isCallRef] at this
  · intro id p hw
    have := h7.1.2
    simp [hw, wildIsCallRef, isCallRef] at this

/-- negative witness of the intended compile-time preflight statement: `call
preflight PRE(xs = [PROD.a])` is accepted (the reference sits inside an array
literal).  Replayed on the real code every run: accepted by the compiler, and
the pipestance runs PROD, then PRE, then everything else, to completion (before
repair 937256c mrp died with a stack overflow in the prenode cycle). -/
theorem preflight_nested_ref_witness :
    let prod : CallSig := { name := cP, mode := .single, src := none, outs := .cons ka (.base .int) .nil }
    let Γ : Env := { self := [(ka, .base .int)], calls := [(cP, prod)] }
    let pre : Callee := { name := kx, isStage := true, params := [(kx, .arr (.base .int))], outs := .nil }
    let binds : List (Bytes × Bind) := [(kx, .plain (.arr (.cons (.call cP [ka]) .nil)))]
    let m : Mods := { kwLocal := false, kwPreflight := true, kwVolatile := false, usings := [] }
    modsOk Γ pre binds none m = true ∧ validCallW Γ pre.params binds none = true ∧
      (Exp.arr (.cons (.call cP [ka]) .nil)).hasRef = true := by decide

example :
    let st : Callee := { name := kx, isStage := true, params := [], outs := .nil }
    let pl : Callee := { name := kx, isStage := false, params := [], outs := .nil }
    modsOk (Γ0 .single) st [] none { kwLocal := true, kwPreflight := false, kwVolatile := false, usings := [.vol true] } = true ∧
    modErrs (Γ0 .single) st [] none { kwLocal := true, kwPreflight := false, kwVolatile := false, usings := [.loc false] } = [.conflict] ∧
    modErrs (Γ0 .single) pl [] none { kwLocal := false, kwPreflight := false, kwVolatile := true, usings := [] } = [.unsupported] ∧
    modErrs (Γ0 .single) st [(ka, .plain (.call cP [ko]))] none { kwLocal := false, kwPreflight := false, kwVolatile := false, usings := [.pre true] } = [.preBinding] ∧
    modErrs (Γ0 .single) st [] none { kwLocal := false, kwPreflight := false, kwVolatile := false, usings := [.dis (.call cP [ko])] } = [.type] := by decide

/-! ### 8. retain lists -/

/-! ### definitional unfoldings (documentation of the model – "the model accepts iff the model's condition holds" –, not guarantees about the code; their weight is the per-run differential against the real compiler) -/

/-- a stage's `retain (…)`: every name is an out parameter whose type is not `KindIsNotFile` -/
theorem stageRetain_iff (outs : Fields) (ids : List Bytes) :
    stageRetainOk outs ids = true ↔ ∀ id ∈ ids, ∃ t, outs.get id = some t ∧ fileKind t ≠ .notFile := by
  simp only [stageRetainOk, List.all_eq_true]
  constructor
  · intro h id hid
    have := h id hid
    cases hg : outs.get id with
    | none => simp [hg] at this
    | some t => exact ⟨t, rfl, by simpa [hg, retainable] using this⟩
  · intro h id hid
    obtain ⟨t, hg, hk⟩ := h id hid
    simpa [hg, retainable] using hk

/-- a pipeline's `retain (…)`: every reference resolves, to a type that is not `KindIsNotFile` -/
theorem pipeRetain_iff (Γ : Env) (refs : List Exp) :
    pipeRetainOk Γ refs = true ↔ ∀ e ∈ refs, ∃ t, refType Γ e = some t ∧ fileKind t ≠ .notFile := by
  simp only [pipeRetainOk, List.all_eq_true]
  constructor
  · intro h e he
    have := h e he
    cases hg : refType Γ e with
    | none => simp [hg] at this
    | some t => exact ⟨t, rfl, by simpa [hg, retainable] using this⟩
  · intro h e he
    obtain ⟨t, hg, hk⟩ := h e he
    simpa [hg, retainable] using hk

/-! ### 8. retain lists (continued) -/

example :
    pipeRetainOk (Γ0 .single) [.call cP [ko, kb], .call cP [ko], .self kx []] = true ∧
    pipeRetainOk (Γ0 .single) [.call cP [ko, ka]] = false ∧
    pipeRetainOk (Γ0 .single) [.call cP [kx]] = false ∧
    stageRetainOk (.cons ko tW (.cons km (.tmap (.base .int)) .nil)) [ko, ko] = true ∧
    stageRetainOk (.cons ko tW (.cons km (.tmap (.base .int)) .nil)) [km] = false := by decide

/-! ### 9. pipelines: calls in dependency order, return bindings, nesting -/

/-! ### definitional unfoldings (documentation of the model – "the model accepts iff the model's condition holds" –, not guarantees about the code; their weight is the per-run differential against the real compiler) -/

/-- one step of `Pipeline.compile`: the call's name is new, its modifiers and
bindings are accepted in the environment of the calls before it, and the rest is
checked with the call added under the mode its split bindings give it -/
theorem checkCalls_cons_iff (Γ Γ' : Env) (c : CallStm) (r : List CallStm) :
    checkCalls Γ (c :: r) = some Γ' ↔
      Γ.calls.lookup c.id = none ∧ ∃ sh, modsOk Γ c.callee c.binds c.wild c.mods = true ∧
        checkCallW Γ c.callee.params c.binds c.wild = some sh ∧
        checkCalls { Γ with calls := Γ.calls ++ [(c.id, c.sig sh)] } r = some Γ' := by
  simp only [checkCalls, checkStm]
  cases hl : Γ.calls.lookup c.id with
  | some s => simp
  | none =>
    simp only [Option.isSome_none, Bool.false_eq_true, if_false, true_and]
    cases hm : modsOk Γ c.callee c.binds c.wild c.mods with
    | false => simp
    | true =>
      simp only [if_true, true_and]
      cases hc : checkCallW Γ c.callee.params c.binds c.wild with
      | none => simp
      | some sh => simp

/-- MAP-CALL DIMENSIONS THROUGH NESTING: once a call `c` (of a stage or of a
nested pipeline – only its declared outputs matter) has been accepted with
split shape `sh`, every later binding, return binding and retain entry sees its
output `o : t` as `t` / `t[]` / `map<t>` according to the shape (`map<…>` only
when `t` contains no map). -/
theorem nested_call_output_type (Γ : Env) (c : CallStm) (sh : Option SplitShape) (o : Bytes) (t : Ty)
    (hnew : Γ.calls.lookup c.id = none) (ho : c.callee.outs.get o = some t) :
    refType { Γ with calls := Γ.calls ++ [(c.id, c.sig sh)] } (.call c.id [o]) =
      match sh with
      | none => some t
      | some (.arr _) => some (.arr t)
      | some (.map _) => if (dims t).2 = 0 then some (.tmap t) else none := by
  have hl : List.lookup c.id (Γ.calls ++ [(c.id, c.sig sh)]) = some (c.sig sh) := by
    rw [List.lookup_append, hnew]; simp [List.lookup]
  rw [mapcall_dim _ c.id o (c.sig sh) t hl (by simpa [CallStm.sig] using ho)]
  cases sh with
  | none => rfl
  | some s => cases s <;> rfl

/-- exact acceptance condition of a pipeline -/
theorem validPipeline_iff (p : Pipeline) :
    validPipeline p = true ↔
      ∃ Γ, checkCalls { self := p.ins, calls := [] } p.calls = some Γ ∧
        validCallW Γ p.outs.toList p.ret p.retWild = true ∧ pipeRetainOk Γ p.retain = true := by
  simp only [validPipeline, checkPipeline, checkReturn]
  cases hc : checkCalls { self := p.ins, calls := [] } p.calls with
  | none => simp
  | some Γ =>
    cases hr : validCallW Γ p.outs.toList p.ret p.retWild with
    | false => simp [hr]
    | true =>
      cases ht : pipeRetainOk Γ p.retain with
      | false => simp [hr, ht]
      | true => simp [hr, ht]

/-! ### 9. pipelines: calls in dependency order, return bindings, nesting (continued) -/

/-- RETURN BINDINGS: each declared output of an accepted pipeline is bound
exactly once, by a binding valid for its type, and nothing else is bound. -/
theorem return_complete (Γ : Env) (outs : Fields) (ret : List (Bytes × Bind)) (w : Option Wild)
    (h : checkReturn Γ outs ret w = true) :
    ∃ bs, allBinds Γ outs.toList ret w = some bs ∧ (bs.map Prod.fst).Nodup ∧
      (∀ x t, outs.toList.lookup x = some t → ∃ b, bs.lookup x = some b ∧ validBind Γ t b = true) ∧
      (∀ x b, (x, b) ∈ bs → ∃ t, outs.toList.lookup x = some t ∧ validBind Γ t b = true) :=
  validCallW_complete_args Γ outs.toList ret w h

/-- SOUNDNESS ACROSS NESTING (PARTIAL: `holeFree` at every return binding, as
in `validExp_sound_partial`).  If the values of the pipeline's inputs and of
the calls inside it conform (`StoreOk`), then the struct of outputs an accepted
pipeline delivers – every declared output with the filtered value of its return
binding – is a valid value of the pipeline's output struct type: the hypothesis
`StoreOk` made about a call in the enclosing pipeline is DISCHARGED for calls of
pipelines.  (Return bindings are plain: the grammar has no `split` there.) -/
theorem return_sound_partial (Γ : Env) (ρ : Store) (name : Bytes) (outs : Fields)
    (ret : List (Bytes × Bind)) (w : Option Wild)
    (hρ : StoreOk Γ ρ) (hwf : (Ty.struct name outs).wf = true)
    (h : checkReturn Γ outs ret w = true) :
    ∃ bs, allBinds Γ outs.toList ret w = some bs ∧
      ((∀ x e, (x, Bind.plain e) ∈ bs → e.wf = true) →
       (∀ x b, (x, b) ∈ bs → ∃ e, b = .plain e) →
       (∀ x t e, (x, t) ∈ outs.toList → bs.lookup x = some (.plain e) → holeFree Γ t (bindExp Γ t e) = true) →
        ∃ vs, retValue Γ ρ bs outs = some vs ∧ valid (.struct name outs) (.obj vs) = true) := by
  obtain ⟨bs, hbs, _, hall, _⟩ := return_complete Γ outs ret w h
  refine ⟨bs, hbs, fun hew hplain hhf => ?_⟩
  have hwf' := Fields.wf_iff.mp (by simpa [Ty.wf] using hwf)
  obtain ⟨vs, hvs, hkeys, hvals⟩ := retValue_sound Γ ρ hρ bs outs (by
    intro k t hkt
    obtain ⟨b, hl, hv⟩ := hall k t (lookup_of_mem_nodup hwf'.1 hkt)
    obtain ⟨e, rfl⟩ := hplain k b (lookup_mem hl)
    exact ⟨hwf'.2 k t hkt, e, hl, hew k e (lookup_mem hl), hv, hhf k t e hkt hl⟩)
  refine ⟨vs, hvs, ?_⟩
  simp only [valid, check, beq_iff_eq, checkFields_ok_iff]
  intro k t hkt
  obtain ⟨v, hmem, hv⟩ := hvals k t hkt
  exact ⟨v, getKey_of_mem_nodup (by rw [hkeys]; exact hwf'.1) hmem, by simpa [valid] using hv⟩

/-- a conforming store stays conforming when an accepted call is added with a
value that is valid for the (lifted) struct of its outputs – the induction step
over the calls of a pipeline -/
theorem storeOk_extend (Γ : Env) (ρ : Store) (id : Bytes) (sig : CallSig) (v : J)
    (hρ : StoreOk Γ ρ) (hnew : Γ.calls.lookup id = none) (hnew' : ρ.calls.lookup id = none)
    (hv : valid sig.whole v = true) :
    StoreOk { Γ with calls := Γ.calls ++ [(id, sig)] } { ρ with calls := ρ.calls ++ [(id, v)] } := by
  refine ⟨hρ.1, ?_⟩
  intro id' sig' hl
  simp only [List.lookup_append] at hl ⊢
  cases hg : Γ.calls.lookup id' with
  | some s =>
    simp only [hg, Option.some_or, Option.some.injEq] at hl
    subst hl
    obtain ⟨v', hv', hval⟩ := hρ.2 id' s hg
    exact ⟨v', by simp [hv'], hval⟩
  | none =>
    simp only [hg, Option.none_or] at hl
    have hid : id' = id := by
      by_cases hq : id' = id
      · exact hq
      · have : (id' == id) = false := by simpa using hq
        simp [List.lookup, this] at hl
    subst hid
    have : sig' = sig := by simpa [List.lookup] using hl.symm
    subst this
    exact ⟨v, by simp [hnew', List.lookup], hv⟩

/-- a nested pipeline, map-called over a literal array: the inner pipeline
returns `o = P.o` (`W`), the outer one sees `INNER.o : W[]` and can return
`INNER.o.b : file[][]` -/
example :
    let stP : Callee := { name := cP, isStage := true, params := [], outs := .cons ko tW .nil }
    let inner : Pipeline := { name := kx, ins := [(ka, .base .int)], outs := .cons ko tW .nil, calls := [{ id := cP, callee := stP, binds := [], wild := none, mods := noMods }], ret := [(ko, .plain (.call cP [ko]))], retWild := none, retain := [.call cP [ko, kb]] }
    let outer : Pipeline := { name := km, ins := [], outs := .cons kb (.arr (.arr (.base .file))) .nil, calls := [{ id := kx, callee := inner.callee, binds := [(ka, .split (.arr (.cons (.int 1) (.cons (.int 2) .nil))))], wild := none, mods := noMods }], ret := [(kb, .plain (.call kx [ko, kb]))], retWild := none, retain := [] }
    validPipeline inner = true ∧ validPipeline outer = true := by decide

/-! ### 10. unused inputs and the top-level call statement -/

/-! ### definitional unfoldings (documentation of the model – "the model accepts iff the model's condition holds" –, not guarantees about the code; their weight is the per-run differential against the real compiler) -/

/-- with the `UnusedInputError` check: accepted exactly when accepted without
it and every input is used by some call binding, modifier or return binding -/
theorem validPipelineU_iff (p : Pipeline) :
    validPipelineU p = true ↔ validPipeline p = true ∧ unusedInputs p = [] := by
  simp only [validPipelineU, checkPipelineU, validPipeline, checkPipeline]
  cases hc : checkCalls { self := p.ins, calls := [] } p.calls with
  | none => simp
  | some Γ =>
    cases hu : unusedInputs p with
    | nil =>
      cases hr : checkReturn Γ p.outs p.ret p.retWild with
      | false => simp [hr]
      | true =>
        cases ht : pipeRetainOk Γ p.retain with
        | false => simp [hr, ht]
        | true => simp [hr, ht]
    | cons a r =>
      cases hr : checkReturn Γ p.outs p.ret p.retWild <;> simp [hr]

/-- an input is reported unused exactly when it is declared and no binding of a
call, no `disabled` modifier and no return binding refers to it (at any depth of
a literal, under `split`, or through the expansion of a wildcard) -/
theorem unused_input_iff (p : Pipeline) (x : Bytes) :
    x ∈ unusedInputs p ↔ x ∈ p.ins.map Prod.fst ∧ x ∉ usedInputs p := by
  simp [unusedInputs, List.mem_filter]

/-! ### 10. unused inputs and the top-level call statement (continued) -/

/-- a reference `self.x…` anywhere inside a written binding of a call uses `x`
(with or without a wildcard after the written bindings) -/
theorem binding_uses_input (p : Pipeline) (c : CallStm) (k : Bytes) (b : Bind) (x : Bytes)
    (hc : c ∈ p.calls) (hb : (k, b) ∈ c.binds) (hx : x ∈ b.selfIds) :
    x ∈ usedInputs p := by
  simp only [usedInputs, List.mem_append, List.mem_flatMap]
  refine Or.inl ⟨c, hc, Or.inl ?_⟩
  simp only [usedByBinds, List.mem_append, List.mem_flatMap]
  refine Or.inl ⟨(k, b), ?_, hx⟩
  cases hw : c.wild with
  | none => simpa [allBinds] using hb
  | some w =>
    simp only [allBinds]
    cases expandWild { self := p.ins, calls := [] } c.callee.params w with
    | none => simpa using hb
    | some ex => simpa using Or.inl hb

example :
    let st : Callee := { name := cP, isStage := true, params := [(ka, .base .int)], outs := .nil }
    let mk (e : Exp) : Pipeline := { name := kx, ins := [(ka, .base .int), (kb, .base .int)], outs := .nil, calls := [{ id := cP, callee := st, binds := [(ka, .plain e)], wild := none, mods := noMods }], ret := [], retWild := none, retain := [] }
    unusedInputs (mk (.self ka [])) = [kb] ∧ validPipeline (mk (.self ka [])) = true ∧
      validPipelineU (mk (.self ka [])) = false := by decide

/-! ### definitional unfoldings (documentation of the model – "the model accepts iff the model's condition holds" –, not guarantees about the code; their weight is the per-run differential against the real compiler) -/

/-- exact acceptance condition of a top-level `call` statement -/
theorem validTop_iff (c : CallStm) :
    validTop c = true ↔
      c.wild = none ∧ modsOk emptyEnv c.callee c.binds none c.mods = true ∧
      (c.mods.usings ≠ [] → usingDisabled c.mods.usings = none ∧
        effective c.mods.kwPreflight (usingVal 1 c.mods.usings) = false) ∧
      validCall emptyEnv c.callee.params c.binds = true := by
  simp only [validTop, checkTop, validCall]
  cases hw : c.wild <;> cases hm : modsOk emptyEnv c.callee c.binds none c.mods <;>
    cases hu : c.mods.usings <;>
    cases hd : usingDisabled c.mods.usings <;>
    cases hp : effective c.mods.kwPreflight (usingVal 1 c.mods.usings) <;> simp_all

/-! ### 10. unused inputs and the top-level call statement (continued) -/

/-- outside a pipeline nothing resolves: a top-level call with a binding that is
a reference (plain or split) is rejected -/
theorem top_reference_rejected (c : CallStm) (x : Bytes) (e : Exp)
    (he : ∃ id p, e = .self id p ∨ e = .call id p)
    (hb : (x, Bind.plain e) ∈ c.binds ∨ (x, Bind.split e) ∈ c.binds) : validTop c = false := by
  cases hv : validTop c with
  | false => rfl
  | true =>
    have hc := ((validTop_iff c).mp hv).2.2.2
    have hnone : ∀ e', refType emptyEnv e' = none := by
      intro e'; cases e' <;> simp [refType, emptyEnv]
    have hrej := unresolved_ref_rejected emptyEnv
    rcases hb with hb | hb
    · obtain ⟨t, _, hvb⟩ := checkCall_known emptyEnv c.callee.params c.binds hc x _ hb
      simp only [validBind, Bool.or_eq_true] at hvb
      rcases hvb with h | h
      · rw [(hrej t e he (hnone e)).1] at h; cases h
      · obtain ⟨id, p, rfl | rfl⟩ := he
        · simp [defaultRewrite] at h
        · cases p with
          | nil => simp [defaultRewrite, hnone] at h
          | cons o p => simp [defaultRewrite] at h
    · obtain ⟨t, _, hvb⟩ := checkCall_known emptyEnv c.callee.params c.binds hc x _ hb
      rw [(hrej t e he (hnone e)).2] at hvb; cases hvb

/-- SOUNDNESS of the top-level call, FULL strength: no store and no hole
hypothesis – every parameter of the called pipeline receives, through its one
binding, only values that validate against its declared type. -/
theorem top_call_sound (c : CallStm) (ρ : Store)
    (hp : ∀ x t, c.callee.params.lookup x = some t → t.wf = true) (h : validTop c = true) :
    ∀ x t, c.callee.params.lookup x = some t → ∃ b, c.binds.lookup x = some b ∧
      (b.wf = true → ∃ vs, delivered emptyEnv ρ t b = some vs ∧ ∀ v ∈ vs, valid t (filter t v).1 = true) := by
  have hc := ((validTop_iff c).mp h).2.2.2
  have hρ : StoreOk emptyEnv ρ := ⟨by intro id t h; simp [emptyEnv] at h, by intro id s h; simp [emptyEnv] at h⟩
  obtain ⟨bs, hbs, hall⟩ := call_sound_partial emptyEnv ρ c.callee.params c.binds none hρ hp
    (by simpa [validCallW, checkCallW, allBinds, validCall] using hc)
  simp only [allBinds, Option.some.injEq] at hbs
  subst hbs
  intro x t hx
  obtain ⟨b, hl, hd⟩ := hall x t hx
  exact ⟨b, hl, fun hw => hd hw (bindHoleFree_emptyEnv t b)⟩

example :
    let pl : Callee := { name := cP, isStage := false, params := [(ka, .base .float), (kb, tA)], outs := .nil }
    let c (e : Exp) : CallStm := { id := cP, callee := pl, binds := [(ka, .plain (.int 1)), (kb, .plain e)], wild := none, mods := noMods }
    validTop (c (.map false (.cons ka (.int 2) .nil))) = true ∧ validTop (c (.self kx [])) = false ∧
      validTop { c .null with mods := { noMods with usings := [.pre true] } } = false ∧
      validTop { c .null with wild := some .self } = false := by decide

/-! ### 11. calls and return statements against the run time as the code does it -/

/-- SOUNDNESS of a whole call against the run time (wildcard included; PARTIAL:
`bindHoleFreeT`): every declared parameter receives, through its one binding,
only values that the run time resolves without error and that validate cleanly
against the parameter's type. -/
theorem call_sound_rt_partial (Γ : Env) (ρ : Store) (params : List (Bytes × Ty))
    (binds : List (Bytes × Bind)) (w : Option Wild)
    (hρ : StoreOk Γ ρ) (hp : ∀ x t, params.lookup x = some t → t.wf = true)
    (h : validCallW Γ params binds w = true) :
    ∃ bs, allBinds Γ params binds w = some bs ∧
      ∀ x t, params.lookup x = some t → ∃ b, bs.lookup x = some b ∧
        (b.wf = true → bindHoleFreeT Γ t b = true →
          ∃ vs, deliveredT Γ ρ t b = some vs ∧ ∀ v ∈ vs, valid t v = true) := by
  obtain ⟨bs, hbs, _, hall, _⟩ := validCallW_complete_args Γ params binds w h
  refine ⟨bs, hbs, fun x t hx => ?_⟩
  obtain ⟨b, hl, hv⟩ := hall x t hx
  exact ⟨b, hl, fun hw hh => bind_sound_rt Γ ρ hρ t (hp x t hx) b hw hv hh⟩

example :
    let ps : List (Bytes × Ty) := [(ka, .base .float), (kb, .arr (.base .file))]
    validCallW (Γ0 .single) ps [] (some (.ref (.call cP [ko]))) = true ∧
    bindHoleFreeT (Γ0 .single) (.base .float) (.plain (.call cP [ko, ka])) = true ∧
    deliveredT (Γ0 .single) ρ0 (.base .float) (.plain (.call cP [ko, ka])) = some [.num (.int 1)] := by
  refine ⟨by decide, by decide, rfl⟩

/-- RETURN BINDINGS against the run time (PARTIAL: `holeFree` at every return
binding).  If the values of the pipeline's inputs and of the calls inside it
conform, the struct of outputs an accepted pipeline delivers – every declared
output resolved at its declared type – is produced without error and is a valid
value of the pipeline's output struct type.  This is ONE invocation of the
pipeline; that the environments `checkCalls` builds are conforming stores for
every call of every nesting level is the content of `program_sound_partial` (§12),
not of this theorem. -/
theorem return_sound_rt_partial (Γ : Env) (ρ : Store) (name : Bytes) (outs : Fields)
    (ret : List (Bytes × Bind)) (w : Option Wild)
    (hρ : StoreOk Γ ρ) (hwf : (Ty.struct name outs).wf = true)
    (h : checkReturn Γ outs ret w = true) :
    ∃ bs, allBinds Γ outs.toList ret w = some bs ∧
      ((∀ x e, (x, Bind.plain e) ∈ bs → e.wf = true) →
       (∀ x b, (x, b) ∈ bs → ∃ e, b = .plain e) →
       (∀ x t e, (x, t) ∈ outs.toList → bs.lookup x = some (.plain e) → holeFree Γ t (bindExp Γ t e) = true) →
        ∃ vs, retValueT Γ ρ bs outs = some vs ∧ valid (.struct name outs) (.obj vs) = true) := by
  obtain ⟨bs, hbs, _, hall, _⟩ := return_complete Γ outs ret w h
  refine ⟨bs, hbs, fun hew hplain hhf => ?_⟩
  have hwf' := Fields.wf_iff.mp (by simpa [Ty.wf] using hwf)
  obtain ⟨vs, hvs, hkeys, hvals⟩ := retValueT_sound Γ ρ hρ bs outs (by
    intro k t hkt
    obtain ⟨b, hl, hv⟩ := hall k t (lookup_of_mem_nodup hwf'.1 hkt)
    obtain ⟨e, rfl⟩ := hplain k b (lookup_mem hl)
    exact ⟨hwf'.2 k t hkt, e, hl, hew k e (lookup_mem hl), hv, hhf k t e hkt hl⟩)
  refine ⟨vs, hvs, ?_⟩
  simp only [valid, check, beq_iff_eq, checkFields_ok_iff]
  intro k t hkt
  obtain ⟨v, hmem, hv⟩ := hvals k t hkt
  exact ⟨v, getKey_of_mem_nodup (by rw [hkeys]; exact hwf'.1) hmem, by simpa [valid] using hv⟩

/-- non-vacuity of `return_sound_rt_partial`: a pipeline returning `r = P.o.b`
(`file[]`) and `a = P.o` narrowed to `struct A(int a)` from the sample store -/
example :
    let outs : Fields := .cons kb (.arr (.base .file)) (.cons ka tA .nil)
    let ret : List (Bytes × Bind) := [(kb, .plain (.call cP [ko, kb])), (ka, .plain (.call cP [ko]))]
    checkReturn (Γ0 .single) outs ret none = true ∧ (Ty.struct kx outs).wf = true ∧
    retValueT (Γ0 .single) ρ0 ret outs = some [(kb, .arr [.str kx]), (ka, .obj [(ka, .num (.int 1))])] ∧
    valid (.struct kx outs) (.obj [(kb, .arr [.str kx]), (ka, .obj [(ka, .num (.int 1))])]) = true :=
  ⟨by decide, by decide, rfl, by decide⟩

/-! ### 12. THE HEADLINE AS ONE THEOREM: whole programs -/

/-- PARTIAL (hypotheses inside `progOk`, all decidable and evaluated on every
accepted generated program by driver op `C07.prog`:
  * `noHole` at every reference – the C17 holes F9 / F10; for a `split`
    reference only between the ELEMENT types (`bindHoleFreeT`: the keys of a typed
    map that is split over are not delivered, their legality is not needed);
  * a MAP call of a callable with file-typed outputs (the fork keys become keys of
    a `map<struct with files>` and must be legal file names, audit M3) has
    STATICALLY KNOWN LEGAL KEYS: every split argument is a map literal with
    legal keys (`staticLegalKeys`; lemma `fork_keys_static`). Map calls over
    run-time maps of callables without file-typed outputs carry no condition;
  * NO REFERENCE IS COMPOSED INTO AN UNTYPED MAP (`umapPipe`, §13): at every
    position of type untyped `map` of a destination the bound expression is
    reference-free, or a bare reference whose COMPOSED form is still a reference
    or a run-time merge: an output of a stage, an output of a nested pipeline
    whose return binding is one (recursively), an input of the top pipeline, an
    input of a nested pipeline that every call binds that way; map-mode calls only
    with keys that are run-time values in every call.  This stands in for what
    the model does NOT model: `MakePipelineCallGraph` composes bindings across
    pipeline boundaries and refuses references inside untyped maps (N1,
    F-C07-UMAP); its adequacy is tied per run (every real refusal of a generated
    program must have `progOk = false`).)

For every program `P` (pipeline definitions) with top-level call `top` that the
compiler's rules accept – `validTop`, `validPipelineU` of every definition,
every call of every body accepted in the environment of the calls before it
(`progOk`) – and whose call graph below `top` is at most `n` deep (`fits`):

IF every invocation of every STAGE the program calls returns outputs that
conform to the stage's declared output types (`OracleOk` – the only assumption
about the outside world),

THEN the CHECKED run of the whole program DOES NOT FAIL (`Res.fail`): `run`
evaluates the `disabled` modifier of every call (`disabledRT`; a disabled call is
NOT invoked and delivers null outputs – `disabled_call_delivers_null`), resolves
every binding of every enabled call of every pipeline, in every fork of every
mapped call, at every nesting level, with the faithful run-time model
(`deliveredT` = `Path` with the destination peeled, leaf-wise `FilterJson`;
literals element-wise), FAILS if a resolution fails or if a delivered value
does not validate against the declared type of the parameter it is bound to
(`argLists`), resolves every pipeline's return bindings at the declared output
types – and EITHER the top-level outputs are a valid value of the declared
output struct (`t`, `t[]` or `map<t>` for a mapped top-level call), OR the run
stopped where the real run time stops BY DESIGN: at a call whose `disabled`
modifier resolved to NULL (`Res.nullDisabled`; `Fork.disabled`: "disabled is
bound to a null value, which is not permitted").  The theorem is WEAKER than
"no run-time error" by exactly this disjunct.  A null control has three sources:
(a) a stage returns null for the `bool` output that feeds the control, or a
top-level input is null – null conforms to `bool` as to every type, so no static
check and no assumption on the stages excludes it (`disabled_null_witness`); (b)
the control is fed by a call of the same body that is itself disabled (its outputs
are null although NO stage returned null) – excluded by the hypothesis `ctlPipe`
of `progOk` (third audit pass, A4; the real code refuses such a program when it
is invoked: `disabled_fed_by_disabled_witness`); (c) the control is fed by an
output of a nested pipeline whose producing call is disabled – NOT excluded.
Programs without `disabled` modifiers never stop
(`program_sound_no_disabled_partial`).

Proof: induction over the calls of a body in dependency order
(`stepCall_sound`, `runCalls_sound`: the store invariant `StoreOk` is
established call by call, not assumed) inside an induction over the nesting
depth (`run_sound`). -/
theorem program_sound_partial (P : Prog) (O : Oracle) (top : CallStm) (n : Nat)
    (hO : OracleOk P top O) (hP : progOk P top = true) (hn : fits P n top.callee = true) :
    ∃ sh, checkStm emptyEnv top = some sh ∧
      (runProgram P O n top = .nullDisabled ∨
       ∃ out, runProgram P O n top =
          .ok ({ self := [], calls := [(top.id, top.sig sh)] }, { self := [], calls := [(top.id, out)] }) ∧
        valid (top.sig sh).whole out = true) :=
  runProgram_sound P O top n hO hP hn

/-- THE SAME WITH THE REFUSAL AS AN OUTCOME (bonus round): for every program that
satisfies the hypotheses WITHOUT the one about composed bindings (`progOkCore`),
handing it to the run time has exactly three possible outcomes – it is refused
when it is invoked (by design: a reference inside an untyped map), or the run
stops at a null `disabled` value (by design), or it runs to the end and the
top-level outputs are valid.  It never fails otherwise.  (`refusedAtInvoke` is
decided by `umapPipe`, see `Outcome`.) -/
theorem program_outcomes_partial (P : Prog) (O : Oracle) (top : CallStm) (n : Nat)
    (hO : OracleOk P top O) (hP : progOkCore P top = true) (hn : fits P n top.callee = true) :
    invokeAndRun P O n top = .refusedAtInvoke ∨
    invokeAndRun P O n top = .ran .nullDisabled ∨
    ∃ sh out, checkStm emptyEnv top = some sh ∧
      invokeAndRun P O n top =
        .ran (.ok ({ self := [], calls := [(top.id, top.sig sh)] }, { self := [], calls := [(top.id, out)] })) ∧
      valid (top.sig sh).whole out = true := by
  by_cases hu : (P.pipes.all fun p => umapPipe P top.callee.name p) = true
  · have hfull : progOk P top = true := by
      simp only [progOk, progOkCore, Bool.and_eq_true] at hP ⊢
      exact ⟨⟨hP.1, hu⟩, hP.2⟩
    obtain ⟨sh, hchk, h⟩ := runProgram_sound P O top n hO hfull hn
    rcases h with hnd | ⟨out, hr, hv⟩
    · exact Or.inr (Or.inl (by simp [invokeAndRun, hu, hnd]))
    · exact Or.inr (Or.inr ⟨sh, out, hchk, by simp [invokeAndRun, hu, hr], hv⟩)
  · exact Or.inl (by simp [invokeAndRun, hu])

/-- the statement of rounds 5–6, for programs without `disabled` modifiers
(`noDisabled`, decidable): the checked run SUCCEEDS and the top-level outputs
conform (same PARTIAL hypotheses as `program_sound_partial`) -/
theorem program_sound_no_disabled_partial (P : Prog) (O : Oracle) (top : CallStm) (n : Nat)
    (hO : OracleOk P top O) (hP : progOk P top = true) (hn : fits P n top.callee = true)
    (hd : noDisabled P top = true) :
    ∃ sh out, checkStm emptyEnv top = some sh ∧
      runProgram P O n top =
        .ok ({ self := [], calls := [(top.id, top.sig sh)] }, { self := [], calls := [(top.id, out)] }) ∧
      valid (top.sig sh).whole out = true := by
  obtain ⟨sh, hchk, h⟩ := runProgram_sound P O top n hO hP hn
  rcases h with hnd | ⟨out, hr, hv⟩
  · exact absurd hnd (runProgram_nd P O top n hd)
  · exact ⟨sh, out, hchk, hr, hv⟩

/-- the `disabled` modifier of an accepted call never FAILS to evaluate at run
time: it resolves to a boolean – or to null, where the run time stops by design.
Part of `program_sound_partial`. -/
theorem disabled_evaluates (Γ : Env) (ρ : Store) (hρ : StoreOk Γ ρ) (c : CallStm) (sh : Option SplitShape)
    (hchk : checkStm Γ c = some sh)
    (hw : ∀ e, usingDisabled c.mods.usings = some e → e.wf = true) :
    disabledRT Γ ρ c.mods = .nullDisabled ∨ ∃ b, disabledRT Γ ρ c.mods = .ok b := by
  have hm : modsOk Γ c.callee c.binds c.wild c.mods = true := by
    by_cases hm : modsOk Γ c.callee c.binds c.wild c.mods = true
    · exact hm
    · simp [checkStm, hm] at hchk
  exact disabledRT_sound Γ ρ hρ c.callee c.binds c.wild c.mods hm hw

/-! ### definitional unfoldings (documentation of the model – "the model accepts iff the model's condition holds" –, not guarantees about the code; their weight is the per-run differential against the real compiler) -/

/-- a disabled call is not invoked (the runner `rc` does not occur on the right)
and its outputs are null – whatever the bindings of the call are -/
theorem disabled_call_delivers_null (rc : Runner) (Γ : Env) (ρ : Store) (c : CallStm) (sh : Option SplitShape)
    (bs : List (Bytes × Bind)) (hchk : checkStm Γ c = some sh)
    (hab : allBinds Γ c.callee.params c.binds c.wild = some bs) (hd : disabledRT Γ ρ c.mods = .ok true) :
    stepCall rc Γ ρ c =
      .ok ({ Γ with calls := Γ.calls ++ [(c.id, c.sig sh)] }, { ρ with calls := ρ.calls ++ [(c.id, .null)] }) := by
  simp [stepCall, hchk, hab, hd]

/-! ### 12. THE HEADLINE AS ONE THEOREM: whole programs (continued) -/

/-- the static shape of a map call and its run-time fork keys (audit M3): if every
split argument of the call is a map literal with `n` legal keys
(`staticLegalKeys`), then the key of every fork the run creates (`splitKeys`,
`nforks` of the evaluated argument lists) is a legal file name -/
theorem fork_keys_static (Γ : Env) (ρ : Store) (bs : List (Bytes × Bind)) (n : Nat)
    (params : List (Bytes × Ty)) (args : List (Bytes × Bool × List J))
    (hk : staticLegalKeys n params bs = true) (ha : argLists Γ ρ bs params = some args) :
    ∀ i, i < nforks args → legalName ((splitKeys Γ ρ params bs).getD i []) = true :=
  fork_keys_legal Γ ρ bs n params args hk ha

/-! ### definitional unfoldings (documentation of the model – "the model accepts iff the model's condition holds" –, not guarantees about the code; their weight is the per-run differential against the real compiler) -/

/-- what "the checked run succeeds" means for one call: every value in the
argument lists has been validated against its parameter's declared type
(documentation of `argLists`) -/
theorem argLists_checked (Γ : Env) (ρ : Store) (bs : List (Bytes × Bind)) :
    ∀ (params : List (Bytes × Ty)) (args : List (Bytes × Bool × List J)),
      argLists Γ ρ bs params = some args →
      ∀ a ∈ args, ∃ t, (a.1, t) ∈ params ∧ ∀ v ∈ a.2.2, valid t v = true
  | [], args, h => by simp [argLists] at h; subst h; simp
  | (x, t) :: r, args, h => by
    simp only [argLists] at h
    cases hb : bs.lookup x with
    | none => simp [hb] at h
    | some b =>
      simp only [hb] at h
      cases hd : deliveredT Γ ρ t b with
      | none => simp [hd] at h
      | some vs =>
        simp only [hd] at h
        by_cases hc : (vs.all fun v => valid t v) = true
        · simp only [hc, if_true] at h
          cases hr : argLists Γ ρ bs r with
          | none => simp [hr] at h
          | some as =>
            simp only [hr, Option.some.injEq] at h
            subst h
            intro a ha
            rcases List.mem_cons.mp ha with rfl | ha
            · exact ⟨t, List.mem_cons_self, fun v hv => List.all_eq_true.mp hc v hv⟩
            · obtain ⟨t', hm, hv⟩ := argLists_checked Γ ρ bs r as hr a ha
              exact ⟨t', List.mem_cons_of_mem _ hm, hv⟩
        · simp [hc] at h

/-! ### 12. THE HEADLINE AS ONE THEOREM: whole programs (continued) -/

/-! a three-level program: `TOP` calls `L1`, which MAP-calls `L2` over an array
(one element is the pipeline's input), which calls the stage `P` with a WILDCARD
binding (`* = self`), returns a NARROWING (`x = P.o`: struct W → struct A) and a
PROJECTION THROUGH A TYPED MAP (`b = P.m.a`: `map<A>` → `map<int>`); `L1` hands
`L2.b` on as `map<int>[]`. -/
private abbrev nL2 : Bytes := [0x4C, 0x32]
private abbrev nL1 : Bytes := [0x4C, 0x31]
private abbrev nTop : Bytes := [0x54]
private abbrev stP : Callee :=
  { name := cP, isStage := true, params := [(ka, .base .int)], outs := .cons ko tW (.cons km (.tmap tA) .nil) }
private abbrev pL2 : Pipeline :=
  { name := nL2, ins := [(ka, .base .int)], outs := .cons kx tA (.cons kb (.tmap (.base .int)) .nil),
    calls := [{ id := cP, callee := stP, binds := [], wild := some .self, mods := noMods }],
    ret := [(kx, .plain (.call cP [ko])), (kb, .plain (.call cP [km, ka]))], retWild := none, retain := [] }
private abbrev pL1 : Pipeline :=
  { name := nL1, ins := [(ka, .base .int)], outs := .cons kb (.arr (.tmap (.base .int))) .nil,
    calls := [{ id := nL2, callee := pL2.callee, binds := [(ka, .split (.arr (.cons (.self ka []) (.cons (.int 2) .nil))))],
                wild := none, mods := noMods }],
    ret := [(kb, .plain (.call nL2 [kb]))], retWild := none, retain := [] }
private abbrev pTop : Pipeline :=
  { name := nTop, ins := [], outs := .cons kb (.arr (.tmap (.base .int))) .nil,
    calls := [{ id := nL1, callee := pL1.callee, binds := [(ka, .plain (.int 1))], wild := none, mods := noMods }],
    ret := [(kb, .plain (.call nL1 [kb]))], retWild := none, retain := [] }
private abbrev prog3 : Prog := { pipes := [pL2, pL1, pTop] }
private abbrev top3 : CallStm := { id := nTop, callee := pTop.callee, binds := [], wild := none, mods := noMods }
/-- the outside world: the stage returns `o = {a: 1, b: ["x"]}`, `m = {"x": {a: 5}}` -/
private abbrev oracle3 : Oracle := fun _ _ => .obj [(ko, vW), (km, .obj [(kx, .obj [(ka, .num (.int 5))])])]

/-- non-vacuity of `program_sound_partial`: all hypotheses hold for the
three-level program, and the checked run delivers `b = [{"x": 5}, {"x": 5}]` -/
example :
    progOk prog3 top3 = true ∧ fits prog3 4 top3.callee = true ∧ fits prog3 3 top3.callee = false ∧
    valid (.struct cP stP.outs) (oracle3 cP []) = true ∧
    (runProgram prog3 oracle3 4 top3).map (fun s => s.2.calls) =
      .ok [(nTop, .obj [(kb, .arr [.obj [(kx, .num (.int 5))], .obj [(kx, .num (.int 5))]])])] ∧
    noDisabled prog3 top3 = true :=
  ⟨by decide, by decide, by decide, by decide, rfl, by decide⟩

/-! a program with a `disabled` modifier and a map call with statically known
keys of a stage with a FILE output:
`pipeline Q(in bool d, out map<file> r) { map call F(a = split {"a": 1, "b": 2}) using (disabled = self.d)  return (r = F.f) }` -/
private abbrev nQ : Bytes := [0x51]
private abbrev nF : Bytes := [0x46]
private abbrev kd : Bytes := [0x64]
private abbrev kf : Bytes := [0x66]
private abbrev kr : Bytes := [0x72]
private abbrev stF : Callee := { name := nF, isStage := true, params := [(ka, .base .int)], outs := .cons kf (.base .file) .nil }
private abbrev litKeys (k2 : Bytes) : Exp := .map false (.cons ka (.int 1) (.cons k2 (.int 2) .nil))
private abbrev pQ (k2 : Bytes) : Pipeline :=
  { name := nQ, ins := [(kd, .base .bool)], outs := .cons kr (.tmap (.base .file)) .nil,
    calls := [{ id := nF, callee := stF, binds := [(ka, .split (litKeys k2))], wild := none, mods := { kwLocal := false, kwPreflight := false, kwVolatile := false, usings := [.dis (.self kd [])] } }],
    ret := [(kr, .plain (.call nF [kf]))], retWild := none, retain := [] }
private abbrev topQ (k2 : Bytes) (d : Exp) : CallStm := { id := nQ, callee := (pQ k2).callee, binds := [(kd, .plain d)], wild := none, mods := noMods }
private abbrev oracleF : Oracle := fun _ _ => .obj [(kf, .str kx)]
/-- the key `a/b` -/
private abbrev kSlash : Bytes := [0x61, 0x2F, 0x62]

/-- non-vacuity of the round-7 extensions of `program_sound_partial`: with
`d = false` the two forks run (`r = {"a": "x", "b": "x"}`, a valid `map<file>`
because the literal keys are legal names); with `d = true` the stage is not
invoked and `r = null`; and the same program
with the literal key `a/b` is accepted by the compiler's rules but is NOT `progOk`
(the hypothesis that remains of M3) – its run delivers an invalid `map<file>`. -/
example :
    progOk { pipes := [pQ kb] } (topQ kb (.bool false)) = true ∧
    progOk { pipes := [pQ kb] } (topQ kb (.bool true)) = true ∧
    (runProgram { pipes := [pQ kb] } oracleF 2 (topQ kb (.bool false))).map (fun s => s.2.calls) =
      .ok [(nQ, .obj [(kr, .obj [(ka, .str kx), (kb, .str kx)])])] ∧
    (runProgram { pipes := [pQ kb] } oracleF 2 (topQ kb (.bool true))).map (fun s => s.2.calls) =
      .ok [(nQ, .obj [(kr, .null)])] ∧
    validPipelineU (pQ kSlash) = true ∧ validTop (topQ kSlash (.bool false)) = true ∧
    progOk { pipes := [pQ kSlash] } (topQ kSlash (.bool false)) = false ∧
    (runProgram { pipes := [pQ kSlash] } oracleF 2 (topQ kSlash (.bool false))).map (fun s => s.2.calls) =
      .ok [(nQ, .obj [(kr, .obj [(ka, .str kx), (kSlash, .str kx)])])] ∧
    valid (.struct nQ (pQ kSlash).outs) (.obj [(kr, .obj [(ka, .str kx), (kSlash, .str kx)])]) = false :=
  ⟨by decide, by decide, rfl, rfl, by decide, by decide, by decide, rfl, by decide⟩

/-- the `nullDisabled` alternative of `program_sound_partial` is real: the
program satisfies every hypothesis, `d = null` conforms to `bool`, and the
run stops at the call `F` (the real run time: "disabled is bound to a null
value, which is not permitted"; a null known at invocation is refused by
`resolveDisableExp` – replayed by the harness, `c07DisabledRuntime`) -/
theorem disabled_null_witness :
    progOk { pipes := [pQ kb] } (topQ kb .null) = true ∧ fits { pipes := [pQ kb] } 2 (topQ kb .null).callee = true ∧
    valid (.base .bool) .null = true ∧
    (runProgram { pipes := [pQ kb] } oracleF 2 (topQ kb .null)).map (fun s => s.2.calls) = .nullDisabled :=
  ⟨by decide, by decide, by decide, rfl⟩

/-- THIRD AUDIT PASS, A4: the stop at a null `disabled` value is reachable without
any stage returning null –
`call G(what = true) using (disabled = self.d)`, `call E(what = 1) using (disabled = G.result)`,
`d = true`: `G` is disabled, `G.result` is null, the control of `E` is null.  Every
hypothesis of rounds 5–7 holds, the stages echo their inputs, the model's run is
`nullDisabled`; the real `InvokePipeline` refuses the program ("disabled cannot be
bound to a null value"; with a run-time `d`: "disabled modifier cannot be bound to a
value that may be null").  `ctlPipe` now keeps it out of `progOk`. -/
theorem disabled_fed_by_disabled_witness :
    let stG : Callee := { name := [0x47], isStage := true, params := [(ka, .base .bool)], outs := .cons kr (.base .bool) .nil }
    let stE : Callee := { name := [0x45], isStage := true, params := [(ka, .base .int)], outs := .cons kr (.base .int) .nil }
    let dis (e : Exp) : Mods := { kwLocal := false, kwPreflight := false, kwVolatile := false, usings := [.dis e] }
    let pP : Pipeline :=
      { name := cP, ins := [(kd, .base .bool)], outs := .cons kr (.base .int) .nil,
        calls := [
          { id := [0x47], callee := stG, binds := [(ka, .plain (.bool true))], wild := none, mods := dis (.self kd []) },
          { id := [0x45], callee := stE, binds := [(ka, .plain (.int 1))], wild := none, mods := dis (.call [0x47] [kr]) }],
        ret := [(kr, .plain (.call [0x45] [kr]))], retWild := none, retain := [] }
    let top : CallStm := { id := cP, callee := pP.callee, binds := [(kd, .plain (.bool true))], wild := none, mods := noMods }
    let echo : Oracle := fun _ ins => .obj [(kr, (ins.lookup ka).getD (.bool true))]
    [pP].all (okPipe { pipes := [pP] }) = true ∧ validTop top = true ∧ fits { pipes := [pP] } 2 top.callee = true ∧
    (runProgram { pipes := [pP] } echo 2 top).map (fun s => s.2.calls) = .nullDisabled ∧
    ctlPipe pP = false ∧ progOk { pipes := [pP] } top = false :=
  ⟨by decide, by decide, by decide, rfl, by decide, by decide⟩

/-- the weakened split hypothesis: splitting over a `map<string>` INPUT into a
`file` parameter needs no legal keys (the keys are not delivered) – the hypothesis
`bindHoleFreeT` holds, although `noHole (map<file>) (map<string>)` (what rounds
5–6 required) does not -/
example :
    let Γ : Env := { self := [(km, .tmap (.base .string))], calls := [] }
    validBind Γ (.base .file) (.split (.self km [])) = true ∧
    bindHoleFreeT Γ (.base .file) (.split (.self km [])) = true ∧
    noHole (.tmap (.base .file)) (.tmap (.base .string)) = false ∧
    deliveredT Γ { self := [(km, .obj [(kSlash, .str kx)])], calls := [] } (.base .file) (.split (.self km [])) =
      some [.str kx] :=
  ⟨by decide, by decide, by decide, rfl⟩

/-! ### 13. what the whole-program theorem does NOT model: composed bindings (audit pass 2, N1)

The program of the second audit pass (TestAud2SplitNestedMergeUntypedMap):

    pipeline INNER(in map<int> xs, out map<int> r) { map call ECHO(what = split self.xs)  return (r = ECHO.r) }
    pipeline P(out map[] r) { call GEN()  map call INNER(xs = split GEN.r)
                              map call CONS(what = split INNER.r)  return (r = CONS.r) }      -- CONS(in map what)

is accepted by the compile-time rules, satisfied EVERY hypothesis of
`program_sound_partial` as of round 7, and the model's checked run delivers
`[{"k":1},{"l":2}]` – while the real mrp PANICKED in `TopNode.resolveMerge`
("invalid type for merge …: map"), and its variant `map[] what = INNER.r` could
not be invoked.  Cause: the run time never materialises `INNER.r`; the bindings
are composed across the pipeline boundary into a merge expression which a
second, type-directed resolver resolves.  Repaired in the code (db7ffe5,
5969c07: with forks known at run time both programs now run, replayed by
harness/c07_merge.go in Tier A); with STATICALLY known forks the merge is
expanded to a map literal of references, which the resolver refuses inside an
untyped map by design (known finding F-C07-UMAP).  The model does not model the
composition; `progOk` EXCLUDES (`umapPipe`) every binding into a position of
type untyped `map` whose composed form can be such a literal.  Since the bonus
round `umapPipe` follows the composition as far as it can be decided per
program: position by position (`umapT`), inputs of nested pipelines through ALL
their call sites (`selfSafeIn`), outputs of nested pipelines through their return
bindings (`pipeOutSafe`), and a map-mode call is admitted when its keys are
run-time values in every call of its pipeline (`runtimeKeys`) – so the audit's
program is inside the theorem again (`n1_program_inside_after_repair`), and its
variant with literal forks is the refusal (`n1_static_forks_refused_witness`). -/
private abbrev n1Kwhat : Bytes := [0x77]
private abbrev n1Kres : Bytes := [0x72]
private abbrev n1Kxs : Bytes := [0x78]
private abbrev n1NGEN : Bytes := [0x47]
private abbrev n1NECHO : Bytes := [0x45]
private abbrev n1NCONS : Bytes := [0x43]
private abbrev n1NINNER : Bytes := [0x49]
private abbrev n1NP : Bytes := [0x50]
private abbrev n1TMI : Ty := .tmap (.base .int)
private abbrev n1StGEN : Callee := { name := n1NGEN, isStage := true, params := [], outs := .cons n1Kres (.arr n1TMI) .nil }
private abbrev n1StECHO : Callee := { name := n1NECHO, isStage := true, params := [(n1Kwhat, .base .int)], outs := .cons n1Kres (.base .int) .nil }
private abbrev n1StCONS : Callee := { name := n1NCONS, isStage := true, params := [(n1Kwhat, .base .map)], outs := .cons n1Kres (.base .map) .nil }
private abbrev n1PINNER : Pipeline :=
  { name := n1NINNER, ins := [(n1Kxs, n1TMI)], outs := .cons n1Kres n1TMI .nil,
    calls := [{ id := n1NECHO, callee := n1StECHO, binds := [(n1Kwhat, .split (.self n1Kxs []))], wild := none, mods := noMods }],
    ret := [(n1Kres, .plain (.call n1NECHO [n1Kres]))], retWild := none, retain := [] }
private abbrev n1PP : Pipeline :=
  { name := n1NP, ins := [], outs := .cons n1Kres (.arr (.base .map)) .nil,
    calls := [
      { id := n1NGEN, callee := n1StGEN, binds := [], wild := none, mods := noMods },
      { id := n1NINNER, callee := n1PINNER.callee, binds := [(n1Kxs, .split (.call n1NGEN [n1Kres]))], wild := none, mods := noMods },
      { id := n1NCONS, callee := n1StCONS, binds := [(n1Kwhat, .split (.call n1NINNER [n1Kres]))], wild := none, mods := noMods }],
    ret := [(n1Kres, .plain (.call n1NCONS [n1Kres]))], retWild := none, retain := [] }
private abbrev n1Prog : Prog := { pipes := [n1PINNER, n1PP] }
private abbrev n1Top : CallStm := { id := n1NP, callee := n1PP.callee, binds := [], wild := none, mods := noMods }
/-- GEN returns `[{"k":1},{"l":2}]`, ECHO and CONS return their input -/
private abbrev n1Oracle : Oracle := fun name ins =>
  if name == n1NGEN then .obj [(n1Kres, .arr [.obj [([0x6B], .num (.int 1))], .obj [([0x6C], .num (.int 2))]])]
  else .obj [(n1Kres, (ins.lookup n1Kwhat).getD .null)]

/-- BONUS ROUND: the audit's program is INSIDE `program_sound_partial` again.  Its
inner map call forks over `self.xs`, which every call of `INNER` binds to (a split
of) an output of a singly-called stage: the keys are only known at run time
(`runtimeKeys`), the composed binding is a MERGE, which `TopNode.resolveMerge`
resolves for an untyped-map destination since 2cc08f5 (harness/c07_merge.go: the
run-time-fork shapes complete in Tier A, and the model's `progOk` must agree). -/
theorem n1_program_inside_after_repair :
    progOk n1Prog n1Top = true ∧ fits n1Prog 3 n1Top.callee = true ∧
    (runProgram n1Prog n1Oracle 3 n1Top).map (fun s => s.2.calls) =
      .ok [(n1NP, .obj [(n1Kres, .arr [.obj [([0x6B], .num (.int 1))], .obj [([0x6C], .num (.int 2))]])])] :=
  ⟨by decide, by decide, rfl⟩

/-- the same program with the forks of `INNER` given as a LITERAL
(`xs = split [{"k": 1}, {"l": 2}]`): the keys of the inner map call are known
when the program is invoked, the composed binding is a map literal of references,
and the real resolver REFUSES it by design ("reference … cannot be bound inside an
untyped map", known finding F-C07-UMAP; replayed by harness/c07_merge.go).
NEGATIVE WITNESS for the model: every compile-time rule and every other
hypothesis holds and the model's checked run succeeds – only `umapPipe` keeps the
program out of the theorem; it is the model's (conservative) stand-in for that
refusal. -/
theorem n1_static_forks_refused_witness :
    let pP' : Pipeline := { n1PP with calls := [
      { id := n1NGEN, callee := n1StGEN, binds := [], wild := none, mods := noMods },
      { id := n1NINNER, callee := n1PINNER.callee,
        binds := [(n1Kxs, .split (.arr (.cons (.map false (.cons [0x6B] (.int 1) .nil))
          (.cons (.map false (.cons [0x6C] (.int 2) .nil)) .nil))))], wild := none, mods := noMods },
      { id := n1NCONS, callee := n1StCONS, binds := [(n1Kwhat, .split (.call n1NINNER [n1Kres]))], wild := none, mods := noMods }] }
    let prog' : Prog := { pipes := [n1PINNER, pP'] }
    let top' : CallStm := { n1Top with callee := pP'.callee }
    prog'.pipes.all (okPipe prog') = true ∧ validTop top' = true ∧
    (match checkStm emptyEnv top' with | some sh => okStm prog' emptyEnv top' sh | none => false) = true ∧
    fits prog' 3 top'.callee = true ∧
    (runProgram prog' n1Oracle 3 top').map (fun s => s.2.calls) =
      .ok [(n1NP, .obj [(n1Kres, .arr [.obj [([0x6B], .num (.int 1))], .obj [([0x6C], .num (.int 2))]])])] ∧
    umapPipe prog' n1NP pP' = false ∧ progOk prog' top' = false :=
  ⟨by decide, by decide, by decide, by decide, rfl, by decide, by decide⟩

/-- non-vacuity of `program_outcomes_partial`: the three outcomes occur – the audit's
program runs to the end, its variant with literal forks is refused at invocation,
and the program of `disabled_null_witness` stops at the null `disabled` value -/
example :
    let pP' : Pipeline := { n1PP with calls := [
      { id := n1NGEN, callee := n1StGEN, binds := [], wild := none, mods := noMods },
      { id := n1NINNER, callee := n1PINNER.callee,
        binds := [(n1Kxs, .split (.arr (.cons (.map false (.cons [0x6B] (.int 1) .nil))
          (.cons (.map false (.cons [0x6C] (.int 2) .nil)) .nil))))], wild := none, mods := noMods },
      { id := n1NCONS, callee := n1StCONS, binds := [(n1Kwhat, .split (.call n1NINNER [n1Kres]))], wild := none, mods := noMods }] }
    progOkCore { pipes := [n1PINNER, pP'] } { n1Top with callee := pP'.callee } = true ∧
    (match invokeAndRun { pipes := [n1PINNER, pP'] } n1Oracle 3 { n1Top with callee := pP'.callee } with
      | .refusedAtInvoke => true | _ => false) = true ∧
    progOkCore n1Prog n1Top = true ∧
    (match invokeAndRun n1Prog n1Oracle 3 n1Top with | .ran (.ok _) => true | _ => false) = true ∧
    progOkCore { pipes := [pQ kb] } (topQ kb .null) = true ∧
    (match invokeAndRun { pipes := [pQ kb] } oracleF 2 (topQ kb .null) with | .ran .nullDisabled => true | _ => false) = true :=
  ⟨by decide, by decide, by decide, by decide, by decide, by decide⟩

/-- OPEN GAP between the model and the code (known finding F-C07-SPLITMERGE, a
genuine defect): the same program with a TYPED consumer, `in map<int> what`,
`map call CONS(what = split INNER.r)`, satisfies EVERY hypothesis and the model's
run succeeds – the real `InvokePipeline` fails with "map call generates a nested
map of map<int>".  Analysis: `SplitExp.FindTypedRefs` rebuilds the type of the
split collection from the parameter type with `AddDim(t, exp.CallMode())`, but
`SplitExp.CallMode()` is the mode of what lies BELOW the split (here: the map-mode
merge inside `INNER`), not the array mode of the split itself; with an untyped
`map` parameter the same call builds `map<map>` and goes on.  A one-line repair
(use the split's own mode) broke the untyped shape and was withdrawn; no
hypothesis of `program_sound_partial` excludes the program. -/
theorem splitmerge_gap_witness :
    let cons' : Callee := { n1StCONS with params := [(n1Kwhat, n1TMI)], outs := .cons n1Kres n1TMI .nil }
    let pP' : Pipeline := { n1PP with outs := .cons n1Kres (.arr n1TMI) .nil, calls := [
      { id := n1NGEN, callee := n1StGEN, binds := [], wild := none, mods := noMods },
      { id := n1NINNER, callee := n1PINNER.callee, binds := [(n1Kxs, .split (.call n1NGEN [n1Kres]))], wild := none, mods := noMods },
      { id := n1NCONS, callee := cons', binds := [(n1Kwhat, .split (.call n1NINNER [n1Kres]))], wild := none, mods := noMods }] }
    let prog' : Prog := { pipes := [n1PINNER, pP'] }
    let top' : CallStm := { n1Top with callee := pP'.callee }
    progOk prog' top' = true ∧ fits prog' 3 top'.callee = true ∧
    (runProgram prog' n1Oracle 3 top').map (fun s => s.2.calls) =
      .ok [(n1NP, .obj [(n1Kres, .arr [.obj [([0x6B], .num (.int 1))], .obj [([0x6C], .num (.int 2))]])])] :=
  ⟨by decide, by decide, rfl⟩

/-- the same consumer bound to an output of a STAGE (`what = split GEN.r`, which the
real `Path` resolves since ffee4be) stays inside the theorem -/
example :
    let pP' : Pipeline := { n1PP with calls := [
      { id := n1NGEN, callee := n1StGEN, binds := [], wild := none, mods := noMods },
      { id := n1NCONS, callee := n1StCONS, binds := [(n1Kwhat, .split (.call n1NGEN [n1Kres]))], wild := none, mods := noMods }] }
    progOk { pipes := [pP'] } { n1Top with callee := pP'.callee } = true := by decide

end Props.C07
