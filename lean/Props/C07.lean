/-
C07 — accepted programs are type-safe at run time; ill-typed bindings are
rejected.  PROPERTY THEOREMS ONLY (model: Martian/Typing.lean on top of the C17
type algebra Martian/Types.lean; helper lemmas: Proofs/Typing.lean, Proofs/Types.lean).

Quantification: ALL types `Ty` (builtins, user file types, arrays of any
dimension, typed maps, structs of structs …), ALL expressions `Exp` (scalar /
array / map / struct literals nested arbitrarily, references `self.x.path` and
`CALL.out.path` with paths of any length), ALL type environments `Env` and
stores `Store`.  Side conditions, each guaranteed by the parser / compiler:
`Ty.wf` (distinct field names), `Exp.wf` (integer literals are int64, literal
keys are distinct).

`valid t v` is C17's clean validation (`IsValidJson`: no error, no alarm),
`filter t v` C17's `FilterJson` – what the run time applies to every resolved
reference (`resolvePath` / `LazyArgumentMap.Path` in martian/core/resolve.go).
-/
import Martian.Typing
import Proofs.Typing

namespace Props.C07
open Martian.Json Martian.Types Martian.Typing

/-! ### sample data for the non-vacuity examples and the witnesses -/

private abbrev ka : Bytes := [0x61]
private abbrev kb : Bytes := [0x62]
private abbrev kx : Bytes := [0x78]
private abbrev km : Bytes := [0x6D]
private abbrev ko : Bytes := [0x6F]
private abbrev kslash : Bytes := [0x61, 0x2F, 0x62]
private abbrev cP : Bytes := [0x50]

/-- `struct A(int a)` -/
private abbrev tA : Ty := .struct [0x41] (.cons ka (.base .int) .nil)
/-- `struct W(int a, file[] b)` -/
private abbrev tW : Ty := .struct [0x57] (.cons ka (.base .int) (.cons kb (.arr (.base .file)) .nil))
/-- `struct F(float a)` -/
private abbrev tF : Ty := .struct [0x46] (.cons ka (.base .float) .nil)

/-- pipeline input `self.x : W[]`, `self.m : map<W>`; a call `P` of a stage with
outputs `(W o, map<int> m)`, made singly -/
private abbrev sigP (mode : Mode) : CallSig :=
  { name := cP, mode := mode, src := none, outs := .cons ko tW (.cons km (.tmap (.base .int)) .nil) }
private abbrev Γ0 (mode : Mode) : Env :=
  { self := [(kx, .arr tW), (km, .tmap tW)], calls := [(cP, sigP mode)] }

private abbrev vW : J := .obj [(ka, .num (.int 1)), (kb, .arr [.str kx])]
private abbrev ρ0 : Store :=
  { self := [(kx, .arr [vW, .null]), (km, .obj [(ka, vW)])],
    calls := [(cP, .obj [(ko, vW), (km, .obj [(ka, .num (.int 2))])])] }

/-! ### 1. projection: `fieldType` is sound for `project` -/

/-- If `v` is a valid value of type `t` and the compiler computes `t'` as the
type of the projection `.p` (through arrays, typed maps and struct members, any
depth), then the run-time projection of `v` is defined (no resolution error)
and is a valid value of `t'` – including the legal-file-name rule for the keys
of directory-like typed maps. -/
theorem fieldType_sound (t : Ty) (v : J) (p : List Bytes) (t' : Ty)
    (hv : valid t v = true) (ht : fieldType t p = some t') :
    ∃ w, project t v p = some w ∧ valid t' w = true := by
  obtain ⟨w, hw, hs⟩ := fieldType_shape t v p t' (shape_of_valid t v hv) ht
  exact ⟨w, hw, valid_of_shape _ _ hs⟩

/-- non-vacuity: `(map<W>).b : map<file[]>`, projected from a valid value -/
example :
    fieldType (.tmap tW) [kb] = some (.tmap (.arr (.base .file))) ∧
    valid (.tmap tW) (.obj [(ka, vW)]) = true ∧
    project (.tmap tW) (.obj [(ka, vW)]) [kb] = some (.obj [(ka, .arr [.str kx])]) :=
  ⟨rfl, by decide, rfl⟩

/-- projecting through a typed map onto a member that is itself a map is
rejected ("invalid projection through nested maps"); through arrays the
dimensions add up -/
example :
    fieldType (.tmap (.struct cP (.cons km (.tmap (.base .int)) .nil))) [km] = none ∧
    fieldType (.arr (.arr tW)) [kb] = some (.arr (.arr (.arr (.base .file)))) := ⟨rfl, rfl⟩

/-! ### 2. the map-call dimension rule -/

/-- An output `o : t` of a call is seen by later bindings as `t` (plain call),
`t[]` (call mapped over arrays) or `map<t>` (call mapped over a typed map); in
the last case the reference is rejected when `t` already contains a typed map
(no map of map). -/
theorem mapcall_dim (Γ : Env) (id o : Bytes) (sig : CallSig) (t : Ty)
    (hc : Γ.calls.lookup id = some sig) (ho : sig.outs.get o = some t) :
    refType Γ (.call id [o]) =
      match sig.mode with
      | .single => some t
      | .arr => some (.arr t)
      | .map => if (dims t).2 = 0 then some (.tmap t) else none := by
  simp only [refType, hc, ho, fieldType_nil, liftMode]
  cases sig.mode <;> rfl

/-- The same rule for projections of any depth: the type of `ID.o.path` is the
type of the projection out of the *lifted* struct of all outputs. -/
theorem mapcall_dim_path (Γ : Env) (id o : Bytes) (p : List Bytes) (sig : CallSig)
    (hc : Γ.calls.lookup id = some sig) :
    refType Γ (.call id (o :: p)) = fieldType sig.whole (o :: p) :=
  refType_call_eq Γ id o p sig hc

example :
    refType (Γ0 .arr) (.call cP [ko, kb]) = some (.arr (.arr (.base .file))) ∧
    refType (Γ0 .map) (.call cP [ko, ka]) = some (.tmap (.base .int)) ∧
    refType (Γ0 .map) (.call cP [km]) = none := ⟨rfl, rfl, rfl⟩

/-! ### 3. soundness: accepted bindings deliver conforming values -/

/-- Reference-free expressions (full strength, no filtering needed): a literal
the compiler accepts for a parameter of type `t` denotes – as the JSON that
`EncodeJSON` writes – a value that validates cleanly against `t`.
(Before the repair of `FloatExp.EncodeJSON` this failed for `x = 1000000.0`
bound to an `int`: the value was written `1e+06`.) -/
theorem validExp_literal_sound (Γ : Env) (ρ : Store) (t : Ty) (e : Exp)
    (ht : t.wf = true) (he : e.wf = true) (hr : e.hasRef = false)
    (hv : validExp Γ t e = true) :
    ∃ v, eval Γ ρ e = some v ∧ valid t v = true :=
  validExp_literal Γ ρ t ht e he hr hv

example :
    let e : Exp := .map true (.cons ka (.float 1 6) (.cons kb (.arr (.cons (.str kx) (.cons .null .nil))) .nil))
    tW.wf = true ∧ e.wf = true ∧ e.hasRef = false ∧ validExp (Γ0 .single) tW e = true ∧
      eval (Γ0 .single) ρ0 e = some (.obj [(ka, .num (.int 1000000)), (kb, .arr [.str kx, .null])]) :=
  ⟨by decide, by decide, by decide, by decide, rfl⟩

/-- PARTIAL.  Full statement (false, see the two witnesses below):
  `StoreOk Γ ρ → validExp Γ t e → ∃ v, eval Γ ρ e = some v ∧ valid t (filter t v).1`.
Proved under `holeFree Γ t e`: no reference inside `e` is bound across one of
the two assignability holes of C17 (`noHole`: a directory-like typed map from a
typed map that is not directory-like, F9; a typed map from a struct, F10).

Statement: if the compiler accepts `e` for a parameter of type `t`, and every
pipeline input / every output of the calls made so far conforms to its declared
type (`StoreOk`), then evaluating `e` succeeds (no binding-resolution error) and
the delivered value – after the filter the run time applies – validates cleanly
against `t`. -/
theorem validExp_sound_partial (Γ : Env) (ρ : Store) (t : Ty) (e : Exp)
    (hρ : StoreOk Γ ρ) (ht : t.wf = true) (he : e.wf = true)
    (hv : validExp Γ t e = true) (hh : holeFree Γ t e = true) :
    ∃ v, eval Γ ρ e = some v ∧ valid t (filter t v).1 = true :=
  validExp_sound Γ ρ hρ t ht e he hv hh

/-- expressions without references never touch a hole -/
theorem holeFree_of_noRef (Γ : Env) (t : Ty) (e : Exp) (hr : e.hasRef = false) :
    refHoleFree Γ t e = true := by
  simp [refHoleFree, refType_of_noRef Γ e hr]

/-- the sample store conforms to the sample environment -/
theorem sample_store_ok : StoreOk (Γ0 .single) ρ0 := by
  constructor
  · intro id t h
    simp only [List.lookup] at h
    split at h
    · cases h
      exact ⟨.arr [vW, .null], by simp [List.lookup, *], by decide⟩
    · split at h
      · cases h
        exact ⟨.obj [(ka, vW)], by simp [List.lookup, *], by decide⟩
      · cases h
  · intro id sig h
    simp only [List.lookup] at h
    split at h
    · cases h
      exact ⟨.obj [(ko, vW), (km, .obj [(ka, .num (.int 2))])], by simp [List.lookup, *], by decide⟩
    · cases h

/-- non-vacuity: a struct literal with a coercion (`float ← int`), a projection
through an array and a reference into a call, all hypotheses satisfied -/
example :
    let t : Ty := .struct [0x54] (.cons ka (.base .float) (.cons kb (.arr (.arr (.base .file))) (.cons kx tA .nil)))
    let e : Exp := .map true (.cons ka (.int 3) (.cons kb (.self kx [kb]) (.cons kx (.call cP [ko]) .nil)))
    StoreOk (Γ0 .single) ρ0 ∧ t.wf = true ∧ e.wf = true ∧
      validExp (Γ0 .single) t e = true ∧ holeFree (Γ0 .single) t e = true :=
  ⟨sample_store_ok, by decide, by decide, by decide, by decide⟩

/-- F9 at binding level (negative witness for the full soundness statement):
`x = self.m` with `self.m : map<string>` is accepted for `map<file> x`; the
conforming input `{"a/b": "x"}` is delivered unchanged and does not validate
(key is not a legal file name). -/
theorem f9_binding_witness :
    let Γ : Env := { self := [(km, .tmap (.base .string))], calls := [] }
    let ρ : Store := { self := [(km, .obj [(kslash, .str kx)])], calls := [] }
    let t : Ty := .tmap (.base .file)
    validExp Γ t (.self km []) = true ∧
    valid (.tmap (.base .string)) (.obj [(kslash, .str kx)]) = true ∧
    eval Γ ρ (.self km []) = some (.obj [(kslash, .str kx)]) ∧
    valid t (filter t (.obj [(kslash, .str kx)])).1 = false ∧
    holeFree Γ t (.self km []) = false :=
  ⟨by decide, by decide, rfl, by decide, by decide⟩

/-- F10 (`map<T> ← struct`) cannot be hit by a plain reference at top level:
every type class pre-checks the `(ArrayDim, MapDim)` shape of a reference, and
`TypedMapType.IsValidExpression` demands `MapDim ≠ 0` … -/
theorem f10_unreachable_at_top (Γ : Env) (d : Ty) (e : Exp) (n : Bytes) (fs : Fields)
    (hr : refType Γ e = some (.struct n fs)) : refOk Γ (.tmap d) e = false := by
  simp [refOk, hr, shapeOk, dims]

/-- … but it IS reachable one array level down (`ArrayType.IsAssignableFrom`
only compares the array dimension and the element types) and through `split`
(`isValidSplit` makes no shape check): `map<int>[] x = self.s` with
`self.s : A[]`, `struct A(int a)`, is accepted; the conforming input
`[{"a": 1, "x": "s"}]` (undeclared members are tolerated) is delivered with the
extra member and does not validate as `map<int>[]`.  (negative witness for the
full soundness statement) -/
theorem f10_binding_witness :
    let Γ : Env := { self := [(kx, .arr tA)], calls := [] }
    let v : J := .arr [.obj [(ka, .num (.int 1)), (kx, .str kx)]]
    let ρ : Store := { self := [(kx, v)], calls := [] }
    let t : Ty := .arr (.tmap (.base .int))
    validExp Γ t (.self kx []) = true ∧
    validBind Γ (.tmap (.base .int)) (.split (.self kx [])) = true ∧
    valid (.arr tA) v = true ∧
    valid t (filter t v).1 = false ∧
    holeFree Γ t (.self kx []) = false := by decide

/-- `x = CALL` standing for `x = CALL.default` (`rewriteToDefaultOutput`) is
sound in the same sense. -/
theorem defaultRewrite_sound_partial (Γ : Env) (ρ : Store) (t : Ty) (id : Bytes)
    (hρ : StoreOk Γ ρ) (ht : t.wf = true)
    (hv : defaultRewrite Γ t (.call id []) = true)
    (hh : refHoleFree Γ t (.call id [defaultName]) = true) :
    ∃ v, eval Γ ρ (.call id [defaultName]) = some v ∧ valid t (filter t v).1 = true := by
  simp only [defaultRewrite, Bool.and_eq_true] at hv
  simp only [refHoleFree] at hh
  cases hr : refType Γ (.call id [defaultName]) with
  | none => simp [hr] at hv
  | some s =>
    simp only [hr, Bool.and_eq_true] at hv hh
    obtain ⟨v, hev, hs⟩ := ref_shape Γ ρ hρ _ s hr
    exact ⟨v, hev, valid_of_shape _ _ (shape_filter_of_assignable t ht s v hs hv.2.2 hh)⟩

/-- `x = split REF`: every element handed to a fork conforms to the parameter
type (PARTIAL for the same reason: `noHole` between the parameter type and the
element type of the collection). -/
theorem split_ref_sound_partial (Γ : Env) (ρ : Store) (t s s' : Ty) (e : Exp)
    (hρ : StoreOk Γ ρ) (ht : t.wf = true)
    (hr : refType Γ e = some s) (hp : peel s = some s')
    (ha : assignable t s' = true) (hn : noHole t s' = true) :
    ∃ v xs, eval Γ ρ e = some v ∧ elems v = some xs ∧
      ∀ x ∈ xs, valid t (filter t x).1 = true := by
  obtain ⟨v, hev, hs⟩ := ref_shape Γ ρ hρ e s hr
  cases s with
  | arr s0 =>
    simp only [peel, Option.some.injEq] at hp
    subst hp
    cases hs with
    | null => exact ⟨.null, [], hev, rfl, by simp⟩
    | arr _ xs hx =>
      exact ⟨_, xs, hev, rfl, fun x hxm =>
        valid_of_shape _ _ (shape_filter_of_assignable t ht s0 x (hx x hxm) ha hn)⟩
  | tmap s0 =>
    simp only [peel, Option.some.injEq] at hp
    subst hp
    cases hs with
    | null => exact ⟨.null, [], hev, rfl, by simp⟩
    | tmap _ kvs h1 _ =>
      refine ⟨_, kvs.map Prod.snd, hev, rfl, ?_⟩
      intro x hxm
      obtain ⟨kv, hkv, rfl⟩ := List.mem_map.mp hxm
      exact valid_of_shape _ _ (shape_filter_of_assignable t ht s0 kv.2 (h1 kv hkv) ha hn)
  | _ => simp [peel] at hp

example :
    refType (Γ0 .single) (.self kx []) = some (.arr tW) ∧ peel (.arr tW) = some tW ∧
    assignable tA tW = true ∧ noHole tA tW = true ∧
    validBind (Γ0 .single) tA (.split (.self kx [])) = true :=
  ⟨rfl, rfl, by decide, by decide, by decide⟩

/-- An accepted call supplies every declared parameter with exactly the
binding found for it, and that binding is valid for the parameter's type (no
"missing input parameter" at run time); conversely every binding names a
declared parameter. -/
theorem validCall_complete_args (Γ : Env) (params : List (Bytes × Ty)) (binds : List (Bytes × Bind))
    (h : validCall Γ params binds = true) :
    (∀ x t, params.lookup x = some t → ∃ b, binds.lookup x = some b ∧ validBind Γ t b = true) ∧
    (∀ x b, (x, b) ∈ binds → ∃ t, params.lookup x = some t ∧ validBind Γ t b = true) :=
  ⟨fun x t hx => checkCall_bound Γ params binds h x t hx,
   fun x b hx => checkCall_known Γ params binds h x b hx⟩

example :
    validCall (Γ0 .single) [(ka, .base .float), (kb, tA)]
      [(kb, .plain (.call cP [ko])), (ka, .plain (.int 1))] = true := by decide

/-! ### 4. the rejection direction: what an accepted literal / reference must look like -/

/-- string literals are accepted exactly for `string`, `file`, `path` and user file types -/
theorem str_literal_iff (Γ : Env) (t : Ty) (s : Bytes) :
    validExp Γ t (.str s) = true ↔
      t = .base .string ∨ t = .base .file ∨ t = .base .path ∨ ∃ n, t = .user n := by
  cases t with
  | base b => cases b <;> simp [validExp, validBase]
  | _ => simp [validExp]

/-- integer literals exactly for `int` and `float` -/
theorem int_literal_iff (Γ : Env) (t : Ty) (v : Int) :
    validExp Γ t (.int v) = true ↔ t = .base .int ∨ t = .base .float := by
  cases t with
  | base b => cases b <;> simp [validExp, validBase]
  | _ => simp [validExp]

/-- float literals exactly for `float`, and for `int` when the value is integral and fits int64 -/
theorem float_literal_iff (Γ : Env) (t : Ty) (m e : Int) :
    validExp Γ t (.float m e) = true ↔
      t = .base .float ∨ (t = .base .int ∧ floatIsInt64 m e = true) := by
  cases t with
  | base b => cases b <;> simp [validExp, validBase]
  | _ => simp [validExp]

/-- boolean literals exactly for `bool` -/
theorem bool_literal_iff (Γ : Env) (t : Ty) (b : Bool) :
    validExp Γ t (.bool b) = true ↔ t = .base .bool := by
  cases t with
  | base b' => cases b' <;> simp [validExp, validBase]
  | _ => simp [validExp]

/-- `null` is accepted for every type -/
theorem null_literal (Γ : Env) (t : Ty) : validExp Γ t .null = true := by
  cases t <;> simp [validExp, validBase]

/-- an array literal is accepted exactly for array types, element-wise against
the element type (so one dimension too many or too few is rejected, as is an
array literal for a map / struct / scalar) -/
theorem array_literal_iff (Γ : Env) (t : Ty) (xs : Exps) :
    validExp Γ t (.arr xs) = true ↔
      ∃ t', t = .arr t' ∧ ∀ x ∈ xs.toList, validExp Γ t' x = true := by
  cases t with
  | base b => simp [validExp, validBase]
  | arr t' => simp [validExp, List.all_eq_true]
  | _ => simp [validExp]

/-- a map literal `{"k": e, …}` is accepted exactly for: the untyped `map`
(when it contains no reference), a typed map (element-wise, with legal file
names as keys if the map is directory-like), or a struct whose declared
members are all present and valid and which has no other member -/
theorem map_literal_iff (Γ : Env) (t : Ty) (kvs : KVs) :
    validExp Γ t (.map false kvs) = true ↔
      (t = .base .map ∧ kvs.hasRef = false) ∨
      (∃ t', t = .tmap t' ∧ ∀ kv ∈ kvs.toList,
          validExp Γ t' kv.2 = true ∧ (isDirMap t' = true → legalName kv.1 = true)) ∨
      (∃ n fs, t = .struct n fs ∧ validFields Γ fs kvs = true ∧
          (decide (kvs.toList.length > fs.toList.length) &&
            kvs.toList.any (fun kv => (fs.get kv.1).isNone)) = false) := by
  cases t with
  | base b => cases b <;> simp [validExp, validBase]
  | tmap t' =>
    simp only [validExp, List.all_eq_true, Bool.and_eq_true, Bool.or_eq_true, Bool.not_eq_true',
      reduceCtorEq, false_and, Ty.tmap.injEq, exists_eq_left', false_or, or_false]
    cases isDirMap t' <;> simp
  | struct n fs =>
    simp only [validExp, Bool.and_eq_true, Bool.not_eq_true', reduceCtorEq, false_and, false_or,
      exists_const, Ty.struct.injEq]
    constructor
    · intro h; exact ⟨n, fs, ⟨rfl, rfl⟩, h⟩
    · rintro ⟨_, _, ⟨rfl, rfl⟩, h⟩; exact h
  | _ => simp [validExp]

/-- a struct literal `{k: e, …}` is accepted for struct types only -/
theorem struct_literal_iff (Γ : Env) (t : Ty) (kvs : KVs) :
    validExp Γ t (.map true kvs) = true ↔
      ∃ n fs, t = .struct n fs ∧ validFields Γ fs kvs = true ∧
          (decide (kvs.toList.length > fs.toList.length) &&
            kvs.toList.any (fun kv => (fs.get kv.1).isNone)) = false := by
  cases t with
  | base b => cases b <;> simp [validExp, validBase]
  | struct n fs =>
    simp only [validExp, Bool.and_eq_true, Bool.not_eq_true', Ty.struct.injEq]
    constructor
    · intro h; exact ⟨n, fs, ⟨rfl, rfl⟩, h⟩
    · rintro ⟨_, _, ⟨rfl, rfl⟩, h⟩; exact h
  | _ => simp [validExp]

/-- a literal for a struct type that lacks a declared member is rejected -/
theorem struct_missing_field_rejected (Γ : Env) (n : Bytes) (fs : Fields) (b : Bool) (kvs : KVs)
    (k : Bytes) (t : Ty) (hk : (k, t) ∈ fs.toList) (hm : kvs.get k = none) :
    validExp Γ (.struct n fs) (.map b kvs) = false := by
  cases h : validExp Γ (.struct n fs) (.map b kvs) with
  | false => rfl
  | true =>
    simp only [validExp, Bool.and_eq_true] at h
    obtain ⟨e, he, _⟩ := (validFields_iff Γ fs kvs).mp h.1 k t hk
    rw [hm] at he
    cases he

/-- a literal for a struct type with a member that is not declared is rejected -/
theorem struct_extra_field_rejected (Γ : Env) (n : Bytes) (fs : Fields) (b : Bool) (kvs : KVs)
    (hfs : (Ty.struct n fs).wf = true) (kv : Bytes × Exp) (hkv : kv ∈ kvs.toList)
    (hx : fs.get kv.1 = none) :
    validExp Γ (.struct n fs) (.map b kvs) = false := by
  cases h : validExp Γ (.struct n fs) (.map b kvs) with
  | false => rfl
  | true =>
    simp only [validExp, Bool.and_eq_true, Bool.not_eq_true'] at h
    have hwf' := Fields.wf_iff.mp (by simpa [Ty.wf] using hfs)
    obtain ⟨t, ht⟩ := struct_literal_no_extra Γ fs kvs hwf'.1 h.1 h.2 kv hkv
    rw [Fields.get_of_mem hwf'.1 ht] at hx
    cases hx

example :
    validExp (Γ0 .single) tA (.map true (.cons ka (.int 1) (.cons kb (.int 2) .nil))) = false ∧
    validExp (Γ0 .single) tW (.map true (.cons ka (.int 1) .nil)) = false ∧
    validExp (Γ0 .single) tA (.map true (.cons ka (.int 1) .nil)) = true := by decide

/-- A reference that does not resolve – unknown pipeline input, call that is
not made, non-existent output, non-existent or impossible field projection,
map of map – is rejected for every parameter type, plain or split. -/
theorem unresolved_ref_rejected (Γ : Env) (t : Ty) (e : Exp)
    (he : ∃ id p, e = .self id p ∨ e = .call id p) (hr : refType Γ e = none) :
    validExp Γ t e = false ∧ validBind Γ t (.split e) = false := by
  obtain ⟨id, p, rfl | rfl⟩ := he
  · refine ⟨?_, by simp [validBind, hr]⟩
    cases t with
    | base b => simp [validExp, validBase, refOk, hr]
    | _ => simp [validExp, refOk, hr]
  · refine ⟨?_, by simp [validBind, hr]⟩
    cases t with
    | base b => simp [validExp, validBase, refOk, hr]
    | _ => simp [validExp, refOk, hr]

/-- the instances of the catalogue: unknown input, call not made, no such
output, no such field, projection out of a non-struct, nested map -/
example :
    refType (Γ0 .single) (.self ka []) = none ∧
    refType (Γ0 .single) (.call ka [ko]) = none ∧
    refType (Γ0 .single) (.call cP [kx]) = none ∧
    refType (Γ0 .single) (.call cP [ko, kx]) = none ∧
    refType (Γ0 .single) (.call cP [ko, ka, ka]) = none ∧
    refType (Γ0 .map) (.call cP [km]) = none := ⟨rfl, rfl, rfl, rfl, rfl, rfl⟩

/-- a reference that resolves is accepted exactly when its type has the shape
the parameter's type class asks for and is assignable (C17's `assignable`) -/
theorem ref_iff (Γ : Env) (t : Ty) (id : Bytes) (p : List Bytes) (s : Ty)
    (hr : refType Γ (.self id p) = some s) :
    validExp Γ t (.self id p) = (shapeOk t s && assignable t s) := by
  cases t with
  | base b => simp [validExp, validBase, refOk, hr]
  | _ => simp [validExp, refOk, hr]

/-- a call with a binding for a name that is not a declared parameter, or
without a binding for a declared parameter, is rejected -/
theorem call_unknown_or_missing_rejected (Γ : Env) (params : List (Bytes × Ty))
    (binds : List (Bytes × Bind)) :
    ((∃ x b, (x, b) ∈ binds ∧ params.lookup x = none) → validCall Γ params binds = false) ∧
    ((∃ x t, params.lookup x = some t ∧ binds.lookup x = none) → validCall Γ params binds = false) := by
  constructor
  · rintro ⟨x, b, hb, hp⟩
    cases h : validCall Γ params binds with
    | false => rfl
    | true =>
      obtain ⟨t, ht, _⟩ := checkCall_known Γ params binds h x b hb
      rw [hp] at ht; cases ht
  · rintro ⟨x, t, hp, hb⟩
    cases h : validCall Γ params binds with
    | false => rfl
    | true =>
      obtain ⟨b, hb', _⟩ := checkCall_bound Γ params binds h x t hp
      rw [hb] at hb'; cases hb'

/-- split sources of one call: arrays with arrays, maps with maps; statically
known lengths must be equal, statically known key sets must be the same -/
theorem split_sources_consistent (a b : SplitShape) :
    (mergeShape a b).isSome = true ↔
      (∃ x y, a = .arr x ∧ b = .arr y ∧ (∀ n m, x = some n → y = some m → n = m)) ∨
      (∃ x y, a = .map x ∧ b = .map y ∧ (∀ k l, x = some k → y = some l → sameKeys k l = true)) := by
  cases a with
  | arr x =>
    cases b with
    | arr y =>
      cases x <;> cases y <;> simp [mergeShape]
    | map y => cases x <;> simp [mergeShape]
  | map x =>
    cases b with
    | arr y => cases x <;> simp [mergeShape]
    | map y =>
      cases x <;> cases y <;> simp [mergeShape]

example :
    validCall (Γ0 .single) [(ka, .base .int), (kb, .base .int)]
      [(ka, .split (.arr (.cons (.int 1) (.cons (.int 2) .nil)))),
       (kb, .split (.arr (.cons (.int 1) (.cons (.int 2) (.cons (.int 3) .nil)))))] = false ∧
    validCall (Γ0 .single) [(ka, .base .int), (kb, .base .int)]
      [(ka, .split (.arr (.cons (.int 1) (.cons (.int 2) .nil)))),
       (kb, .split (.map false (.cons ka (.int 1) (.cons kb (.int 2) .nil))))] = false ∧
    validCall (Γ0 .single) [(ka, .base .int), (kb, .base .int)]
      [(ka, .split (.arr (.cons (.int 1) (.cons (.int 2) .nil)))),
       (kb, .split (.arr (.cons (.int 3) (.cons .null .nil))))] = true := by decide

end Props.C07
