/-
C07 — compile-time typing (property theorems; model: Martian/Typing.lean).
-/
import Martian.Typing
import Proofs.Types

namespace Props.C07
open Martian.Json Martian.Types Martian.Typing

example : validExp { self := [], calls := [] } (.arr (.base .int)) (.arr (.cons (.int 1) .nil)) = true := by decide

end Props.C07
