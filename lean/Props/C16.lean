/-
C16 — MRO call text and invocation JSON convert into each other without loss.
PROPERTY THEOREMS ONLY (helper lemmas: Proofs/Invocation.lean; model:
Martian/Invocation.lean, which says what is abstracted: string escape syntax,
float printing by strconv, Go map order).

Equivalences used in the statements (the documented "≈"):
* `normJ` / `normE` / `encLit`: a float whose shortest form prints without `.`
  or exponent (`1.0`, `-0.0`, `1e5`) is re-read as the integer of the same
  value; nothing else changes (`normalisation_changes_only_integral_floats`).
* struct-vs-map flags of map literals are dictated by the parameter type
  (`wt`); `erase` forgets them.
-/
import Martian.Invocation
import Proofs.Invocation
import Gen.Facts

namespace Props.C16
open Martian.Invocation

/-- Regenerated obligation: the JSON key `convertToExp` reads a split operand
from (struct tag) and `SplitExp.encodeJSON` writes it under are the model's
`splitKey`. -/
theorem facts_split_key : Gen.invocationSplitKey = splitKey := by decide

/-- Regenerated obligation: `FloatExp.format` and `FloatExp.EncodeJSON` print
with `strconv.AppendFloat(_, v, 'g', -1, 64)` — the rule `Flt.printsAsInt`
models (shortest digits, `%e` iff exponent < -4 or ≥ 6). -/
theorem facts_float_format : Gen.floatExpFormat = [(0x67, -1, 64), (0x67, -1, 64)] := by decide

/-- The only thing normalisation does to a scalar: a float that prints in
integer syntax becomes the integer with the same value `± mant·10^exp`. -/
theorem normalisation_changes_only_integral_floats (l : Lit) :
    encLit l = l ∨ ∃ f, l = .flt f ∧ f.printsAsInt = true ∧ encLit l = .int f.intVal := by
  cases l with
  | flt f =>
    by_cases h : f.printsAsInt = true
    · exact Or.inr ⟨f, rfl, h, by simp [encLit, h]⟩
    · exact Or.inl (by simp [encLit, h])
  | _ => exact Or.inl rfl

/-- JSON → expression → JSON (any parameter type, any JSON value): whenever
`convertToExp` yields an expression, marshalling it gives back the JSON value
up to float normalisation — in particular the result does not depend on the
type used for the struct-vs-map decision. -/
theorem encode_convert (t : TypeId) (j : J) (e : Exp) (h : convert t j = some e) :
    encode e = normJ j := by
  simp only [convert, Option.map_eq_some_iff] at h
  obtain ⟨e0, h0, rfl⟩ := h
  rw [encode_fix, encode_ofJ j e0 h0]

/-- … and `convertToExp` does yield an expression whenever every integer
literal fits int64; for JSON already in normal form the round trip is the
identity. -/
theorem encode_convert_exact (t : TypeId) (j : J) (hi : jIntsOk j = true) :
    ∃ e, convert t j = some e ∧ encode e = normJ j ∧ (normJ j = j → encode e = j) := by
  obtain ⟨e0, h0⟩ := ofJ_isSome j hi
  refine ⟨fix t.base t.arrayDim t.mapDim e0, by simp [convert, h0], ?_, ?_⟩
  · rw [encode_fix, encode_ofJ j e0 h0]
  · intro hn; rw [encode_fix, encode_ofJ j e0 h0, hn]

/-- The hypothesis on integers is necessary (F1'): `9223372036854775808`
(2^63, 19 digits: accepted by the int token rule) has no expression. -/
theorem int_2_63_not_convertible (t : TypeId) :
    convert t (.lit (.int 9223372036854775808)) = none := by
  simp [convert, ofJ, litOk, inInt64]

/-- Expression → JSON → expression: a literal that is well-typed at the
parameter's type `t` (shape and struct-vs-map flags as the type dictates)
comes back unchanged up to float normalisation. -/
theorem convert_encode (t : TypeId) (e : Exp)
    (hw : wt t.base t.arrayDim t.mapDim e = true) (hi : intsOk e = true) :
    convert t (encode e) = some (normE e) := by
  simp only [convert, ofJ_encode e hi, Option.map_some, erase_normE, fix_normE,
    fix_erase_wt e _ _ _ hw]

/-- Without any typing hypothesis the values still survive: the result differs
from the original at most in struct-vs-map flags (and float normalisation). -/
theorem convert_encode_values (t : TypeId) (e : Exp) (hi : intsOk e = true) :
    ∃ e', convert t (encode e) = some e' ∧ erase e' = erase (normE e) := by
  refine ⟨_, by simp only [convert, ofJ_encode e hi, Option.map_some]; rfl, ?_⟩
  rw [erase_fix, erase_erase]

/-- One round trip reaches a fixed point of the JSON side (second conversion
changes nothing): the analogue of "formatting the regenerated source again
gives the same text". -/
theorem roundtrip_stable (t : TypeId) (e e' : Exp) (h' : convert t (encode e) = some e') :
    encode e' = encode e := by
  rw [encode_convert t (encode e) e' h', normJ_encode]

/-- Split status survives JSON → call → JSON: an argument is listed in the
regenerated `splitargs` iff it was listed in the input, and its value comes
back as exactly `{"split": v}` with `v` preserved (`canonArg`). -/
theorem split_status_roundtrip (s : Bool) (t : TypeId) (j : J) (a : Arg)
    (h : buildBinding s t j = some a) :
    dataOfBinding a = (s, canonArg s j) := by
  unfold buildBinding at h
  cases s with
  | false =>
    simp only [Bool.false_eq_true, if_false, Option.map_eq_some_iff] at h
    obtain ⟨e, he, rfl⟩ := h
    simp [dataOfBinding, Arg.isSplit, encodeArg, canonArg, encode_convert t j e he]
  | true =>
    simp only [if_true] at h
    cases j with
    | lit _ => cases h
    | arr _ => cases h
    | obj kvs =>
      simp only at h
      cases hf : kvs.find splitKey with
      | none => simp [hf] at h
      | some v =>
        simp only [hf, Option.map_eq_some_iff] at h
        obtain ⟨e, he, rfl⟩ := h
        simp [dataOfBinding, Arg.isSplit, encodeArg, canonArg, hf, encode_convert _ v e he]

/-- Split status survives call → JSON → call: a plain binding well-typed at the
parameter's type `t`, or a split binding whose operand is well-typed at the
collection type over `t` (`T[]` for an array operand, `map<T>` for a map
operand), is rebuilt with the same split status and the same value (up to
float normalisation). -/
theorem binding_roundtrip (t : TypeId) (a : Arg)
    (hw : match a with
      | .plain e => wt t.base t.arrayDim t.mapDim e = true
      | .split e => wt (collectionType t e).base (collectionType t e).arrayDim
          (collectionType t e).mapDim e = true)
    (hi : intsOk a.value = true) :
    buildBinding (dataOfBinding a).1 t (dataOfBinding a).2 =
      some (match a with | .plain e => .plain (normE e) | .split e => .split (normE e)) := by
  cases a with
  | plain e =>
    simp [dataOfBinding, Arg.isSplit, encodeArg, buildBinding, convert_encode t e hw hi]
  | split e =>
    simp only [Arg.value] at hi
    cases e with
    | lit l =>
      dsimp only [collectionType] at hw
      have := convert_encode t (.lit l) hw hi
      simp only [dataOfBinding, Arg.isSplit, encodeArg, buildBinding, if_true, JKvs.find]
      simp only [encode] at this ⊢
      simp [splitSourceType, this]
    | arr xs =>
      dsimp only [collectionType] at hw
      have : convert t (encode (.arr xs)) = some (normE (.arr xs)) := by
        simp only [convert, ofJ_encode _ hi, Option.map_some, erase_normE, fix_normE,
          fix_erase_wt_succ _ _ _ _ hw]
      simp only [dataOfBinding, Arg.isSplit, encodeArg, buildBinding, if_true, JKvs.find]
      simp only [encode] at this ⊢
      simp [splitSourceType, this]
    | map k kvs =>
      dsimp only at hw
      have := convert_encode (collectionType t (.map k kvs)) (.map k kvs) hw hi
      simp only [dataOfBinding, Arg.isSplit, encodeArg, buildBinding, if_true, JKvs.find]
      simp only [encode] at this ⊢
      simp only [collectionType] at this
      simp [splitSourceType, this]

/-- A parameter of struct type split over a map (`x = split {"k": {a: 1}}`)
is converted at `map<STRUCT>`: the outer literal stays a map literal and every
value becomes a struct literal (before the repair of finding C16-N1 the outer
literal was marked as a struct and printed with bare keys). -/
theorem split_map_over_struct (fs : Fields) (kvs : JKvs) (a : Arg)
    (h : buildBinding true ⟨.struct fs, 0, 0⟩ (.obj (.cons splitKey (.obj kvs) .nil)) = some a) :
    ∃ es, ofJKvs kvs = some es ∧ a = .split (.map false (fixVals (.struct fs) 0 0 es)) := by
  simp only [buildBinding, if_true, JKvs.find, splitSourceType, convert, ofJ] at h
  cases hk : ofJKvs kvs with
  | none => simp [hk] at h
  | some es =>
    simp only [hk, Option.map_some, fix, mapAction, Option.some.injEq] at h
    exact ⟨es, rfl, by simpa using h.symm⟩

/-- Whole call, JSON → bindings → JSON (`BuildCallAst` then `BuildDataForAst`):
the regenerated invocation data is the canonical form of the input — every
declared parameter present (absent ones `null`), values preserved, and
`splitargs` = the split parameters that were given, in declaration order. -/
theorem call_roundtrip (sig : Sig) (d : Data) (bs : List (Str × Arg))
    (h : buildCall sig d = some bs) : dataOf bs = canonData sig d := by
  induction sig generalizing bs with
  | nil =>
    simp only [buildCall] at h; cases h
    simp [dataOf, canonData]
  | cons pt ps ih =>
    obtain ⟨p, t⟩ := pt
    simp only [buildCall] at h
    split at h
    · rename_i a bs' ha hbs
      cases h
      rw [dataOf_cons, canonData_cons, ih bs' hbs]
      by_cases hp : d.args.any (fun q => q.1 = p) = true
      · simp only [hp, if_true] at ha
        have hb := split_status_roundtrip _ t _ a ha
        simp only [dataOfBinding, Prod.mk.injEq] at hb
        simp only [hp, if_true, hb.1, hb.2, Bool.true_and]
      · simp only [hp, Bool.false_eq_true, if_false, Option.some.injEq] at ha
        subst ha
        simp [hp, encodeArg, encode, encLit, Arg.isSplit]
    · cases h

/-- What the grammar can print: a split binding built from a non-empty JSON
array is always expressible as `x = split [...]`. -/
theorem split_array_printable (t : TypeId) (v : J) (r : JList) (a : Arg)
    (h : buildBinding true t (.obj (.cons splitKey (.arr (.cons v r)) .nil)) = some a) :
    a.printable = true := by
  simp only [buildBinding, if_true, JKvs.find, splitSourceType, convert, ofJ, ofJList] at h
  split at h
  · simp only [Option.map_some, fix, fixList, Option.some.injEq] at h
    subst h; rfl
  · simp at h

/-! ### non-vacuity and negative witnesses -/

private def kA : Str := [0x61]          -- "a"
private def kK : Str := [0x6B]          -- "k"
private def kX : Str := [0x78]          -- "x"
private def kY : Str := [0x79]          -- "y"
private def kName : Str := [0x6E, 0x61, 0x6D, 0x65]         -- "name"
private def kInner : Str := [0x69, 0x6E, 0x6E, 0x65, 0x72]  -- "inner"
private def kM : Str := [0x6D]          -- "m"
private def kGrid : Str := [0x67, 0x72, 0x69, 0x64]         -- "grid"
private def kAB : Str := [0x61, 0x20, 0x62]                 -- "a b"

/-- struct INNER(int a), struct S(string name, INNER inner, map<INNER> m, int[][] grid) -/
private def innerT : Fields := .cons kA .scalar 0 0 .nil
private def sT : Fields :=
  .cons kName .scalar 0 0 (.cons kInner (.struct innerT) 0 0
    (.cons kM (.struct innerT) 0 1 (.cons kGrid .scalar 2 0 .nil)))

/-- `{name: "n", inner: {a: 1}, m: {"k": {a: 2.5}}, grid: [[1, null], []]}` -/
private def sV : Exp :=
  .map true (.cons kName (.lit (.str kA))
    (.cons kInner (.map true (.cons kA (.lit (.int 1)) .nil))
    (.cons kM (.map false (.cons kK
        (.map true (.cons kA (.lit (.flt ⟨false, 25, -1⟩)) .nil)) .nil))
    (.cons kGrid (.arr (.cons (.arr (.cons (.lit (.int 1)) (.cons (.lit .null) .nil)))
        (.cons (.arr .nil) .nil))) .nil))))

/-- `convert_encode`'s hypotheses hold for a nested struct with a typed map of
structs and a two-dimensional array (also inside an array of such structs). -/
example : wt (.struct sT) 0 0 sV = true ∧ intsOk sV = true := by decide
example : wt (.struct sT) 1 0 (.arr (.cons sV (.cons (.lit .null) .nil))) = true := by decide
/-- typed map of arrays of structs: `map<S[]>` -/
example : wt (.struct sT) 0 2 (.map false (.cons kK (.arr (.cons sV .nil)) .nil)) = true := by
  decide
/-- untyped map holding arbitrary JSON-like content -/
example : wt .umap 0 0 (.map false (.cons kAB (.map false (.cons kX
    (.arr (.cons (.lit (.flt ⟨true, 1, 300⟩)) .nil)) .nil)) .nil)) = true := by decide
/-- the conversion really decides struct-vs-map by type on this value -/
example : convert ⟨.struct sT, 0, 0⟩ (encode sV) = some sV := by rfl
/-- `1.0` comes back as `1`, `2.5` stays a float -/
example : encode (.arr (.cons (.lit (.flt ⟨false, 1, 0⟩)) (.cons (.lit (.flt ⟨false, 25, -1⟩)) .nil)))
    = .arr (.cons (.lit (.int 1)) (.cons (.lit (.flt ⟨false, 25, -1⟩)) .nil)) := by rfl
/-- `split_status_roundtrip` / `call_roundtrip` hypotheses are satisfiable with a split argument -/
example : ∃ bs, buildCall [(kX, ⟨.scalar, 0, 0⟩), (kY, ⟨.struct innerT, 0, 0⟩)]
    { args := [(kX, .obj (.cons splitKey (.arr (.cons (.lit (.int 1)) .nil)) .nil))],
      splitargs := [kX] } = some bs ∧ (dataOf bs).splitargs = [kX] :=
  ⟨[(kX, .split (.arr (.cons (.lit (.int 1)) .nil))), (kY, .plain (.lit .null))], by rfl, by rfl⟩

/-- `split_map_over_struct`'s hypothesis is satisfiable: `x = split {"k": {a: 1}}` for `INNER x` -/
example : buildBinding true ⟨.struct innerT, 0, 0⟩
    (.obj (.cons splitKey (.obj (.cons kK (.obj (.cons kA (.lit (.int 1)) .nil)) .nil)) .nil))
    = some (.split (.map false (.cons kK (.map true (.cons kA (.lit (.int 1)) .nil)) .nil))) := by rfl
/-- `binding_roundtrip`'s hypothesis for a split operand: `int x` split over `[1, 2]` and over `{"k": 1}` -/
example : wt (collectionType ⟨.scalar, 0, 0⟩ (.arr (.cons (.lit (.int 1)) .nil))).base
    (collectionType ⟨.scalar, 0, 0⟩ (.arr (.cons (.lit (.int 1)) .nil))).arrayDim
    (collectionType ⟨.scalar, 0, 0⟩ (.arr (.cons (.lit (.int 1)) .nil))).mapDim
    (.arr (.cons (.lit (.int 1)) .nil)) = true := by decide

/-- Negative witness (finding C16-N3): `{"split": []}` is a legal split
argument for `BuildCallAst`, but `split []` is not expressible in MRO text. -/
theorem split_empty_not_printable :
    (buildBinding true ⟨.scalar, 0, 0⟩ (.obj (.cons splitKey (.arr .nil) .nil))).map Arg.printable
      = some false := by rfl

/-- … and so is `{"split": null}` (`split null`). -/
theorem split_null_not_printable :
    (buildBinding true ⟨.scalar, 0, 0⟩ (.obj (.cons splitKey (.lit .null) .nil))).map Arg.printable
      = some false := by rfl

end Props.C16
