/-
C16 — MRO call text and invocation JSON convert into each other without loss.
PROPERTY THEOREMS ONLY (helper lemmas: Proofs/Invocation.lean; model:
Martian/Invocation.lean, which says what is abstracted: string escape syntax,
float printing by strconv, Go map order).

What "survives unchanged" means for numbers (the documented "≈"):
* the numeric value (as a real number) of every number survives EXACTLY, in
  both directions and through the text leg (`float_value_preserved`,
  `format_parse_preserves_json`);
* the int-vs-float SYNTAX of an integral value is not preserved: JSON has one
  number type, `FloatExp.appendJSON` writes a float that is integral and within
  int64 as a JSON integer (`1234567.0`, `1e6` ↦ `1234567`, `1000000`) and the
  MRO printer writes integral floats below 10^6 without `.`; read back they are
  integers (`float_syntax_not_preserved`).  Integer → float is an implicit
  conversion of the language, so the call is equivalent for float / untyped
  parameters.  `normJ` / `normE` / `encLit` are this normalisation;
* the sign of a floating-point zero is lost (`negative_zero_sign_lost`):
  recorded as known finding C16:negative-zero.
Struct-vs-map flags of map literals are dictated by the parameter type (`wt`);
`erase` forgets them.
-/
import Martian.Invocation
import Proofs.Invocation
import Martian.InvocationStr
import Proofs.InvocationStr
import Martian.InvocationText
import Proofs.InvocationText
import Martian.JsonBytes
import Proofs.JsonBytes
import Proofs.JsonBytesFilter
import Martian.InvocationSort
import Proofs.InvocationSort
import Martian.InvocationFork
import Proofs.InvocationFork
import Proofs.InvocationForkTyped
import Gen.Facts

namespace Props.C16
open Martian.Invocation

/-- Regenerated obligation: the JSON key `convertToExp` reads a split operand
from (struct tag) and `SplitExp.encodeJSON` writes it under are the model's
`splitKey`. -/
theorem facts_split_key : Gen.invocationSplitKey = splitKey := by decide

/-- Regenerated obligation: `FloatExp.format` (MRO text) and
`FloatExp.appendJSON` (JSON) fall back to `strconv.AppendFloat(_, v, 'g', -1, 64)`
— the rule `Flt.textAsInt` models (shortest digits, `%e` iff exponent < -4 or ≥ 6). -/
theorem facts_float_format : Gen.floatExpFormat = [(0x67, -1, 64), (0x67, -1, 64)] := by decide

/-- Regenerated obligation: the shape of `FloatExp.appendJSON` that
`Flt.jsonAsInt` models — range check `-2^63 ≤ v < 2^63` (8cf2e68: the conversion
of an out-of-range float is implementation-defined, so it is never performed),
guard `i := int64(e.Value); float64(i) == e.Value`,
then `strconv.AppendInt(buf, i, 10)` — and both `MarshalJSON` and `EncodeJSON`
of `FloatExp` go through it.  The ORDER "range check before the conversion" is observable by no run on
amd64 (the out-of-range conversion is implementation-defined, not wrong here), so this fact is its only
tie: the obligation includes `_extracted = true`, i.e. a defeated extraction pattern breaks it instead of
falling back to the committed default (audit: facts fail open).  `facts_split_key` and
`facts_float_format` may fall back: the binding correspondence on split arguments and the float
token-class stream detect a semantic change of either. -/
theorem facts_float_json_shape : Gen.floatJsonShape_extracted = true ∧ Gen.floatJsonShape =
    ["range e.Value >= -9223372036854775808.0 && e.Value < 9223372036854775808.0",
     "init i := int64(e.Value)", "cond float64(i) == e.Value", "then strconv.AppendInt(buf, i, 10)",
     "caller EncodeJSON", "caller MarshalJSON"] := by decide

/-- The numeric value of a scalar survives the JSON printer exactly: the only
thing that changes is that a float whose value is integral and within int64
becomes the integer `± m·2^e`, which IS its value (for `0 ≤ e` or `m = 0`). -/
theorem float_value_preserved (l : Lit) :
    encLit l = l ∨ ∃ f, l = .flt f ∧ f.isIntegral = true ∧ inInt64 f.intVal = true
      ∧ encLit l = .int f.intVal := by
  cases l with
  | flt f =>
    by_cases h : f.jsonAsInt = true
    · refine Or.inr ⟨f, rfl, ?_, jsonAsInt_inInt64 f h, by simp [encLit, h]⟩
      simp only [Flt.jsonAsInt, Bool.or_eq_true, beq_iff_eq, Bool.and_eq_true,
        decide_eq_true_eq] at h
      simp only [Flt.isIntegral, Bool.or_eq_true, beq_iff_eq, decide_eq_true_eq]
      rcases h with h | h
      · exact Or.inl h
      · exact Or.inr h.1
    · exact Or.inl (by simp [encLit, h])
  | _ => exact Or.inl rfl

/-- … and likewise for the MRO text printer followed by the lexer. -/
theorem float_value_preserved_text (l : Lit) :
    textLit l = l ∨ ∃ f, l = .flt f ∧ f.isIntegral = true ∧ textLit l = .int f.intVal := by
  cases l with
  | flt f =>
    by_cases h : f.textAsInt = true
    · refine Or.inr ⟨f, rfl, ?_, by simp [textLit, h]⟩
      simp only [Flt.textAsInt, Bool.or_eq_true, beq_iff_eq, Bool.and_eq_true,
        decide_eq_true_eq] at h
      simp only [Flt.isIntegral, Bool.or_eq_true, beq_iff_eq, decide_eq_true_eq]
      rcases h with h | h
      · exact Or.inl h
      · exact Or.inr h.1
    · exact Or.inl (by simp [textLit, h])
  | _ => exact Or.inl rfl

/-- THE NUMERIC VALUE SURVIVES (audit C16-M1): with `Lit.val` = the exact dyadic value `n·2^e` of a
number literal (`Flt.val`: an exact rational, zero of either sign is `(0,0)`), neither printer
changes the value of any number – only, for integral values, its int-vs-float syntax class. -/
theorem number_value_preserved_json (l : Lit) : (encLit l).val = l.val := val_encLit l

/-- … and the same for the MRO text printer followed by the lexer -/
theorem number_value_preserved_text (l : Lit) : (textLit l).val = l.val := val_textLit l

/-- `Lit.val` really computes values: 2.5 = 5·2^-1, 1234567.0 = 1234567, -0.0 = 0, -2^63 -/
example : Lit.val (.flt ⟨false, 5, -1⟩) = some (5, -1) ∧ Lit.val (.flt ⟨false, 1234567, 0⟩) = some (1234567, 0)
    ∧ Lit.val (.flt ⟨true, 0, 0⟩) = some (0, 0) ∧ Lit.val (.flt ⟨true, 1, 63⟩) = some (-9223372036854775808, 0)
    ∧ Lit.val (.int 7) = some (7, 0) ∧ Lit.val (.str []) = none := by decide

/-- the ∀-statements range over every representative; the float64 decomposition is the canonical
one (`m` odd): `4·2^-2` is a non-canonical spelling of `1.0` which `isIntegral` does not recognise -/
example : Flt.canonical ⟨false, 4, -2⟩ = false ∧ Flt.canonical ⟨false, 5, -1⟩ = true
    ∧ Flt.isIntegral ⟨false, 4, -2⟩ = false := by decide

/-- What is really lost, 1: the float syntax of an integral value.  The MRO
literal `1234567.0` (a `FloatExp`) is marshalled as `1234567` and read back as
an integer; `2.5` stays a float; 2^63 (outside int64) stays a float. -/
theorem float_syntax_not_preserved :
    encLit (.flt ⟨false, 1234567, 0⟩) = .int 1234567
    ∧ encLit (.flt ⟨false, 5, -1⟩) = .flt ⟨false, 5, -1⟩
    ∧ encLit (.flt ⟨false, 1, 63⟩) = .flt ⟨false, 1, 63⟩
    ∧ encLit (.flt ⟨true, 1, 63⟩) = .int (-9223372036854775808) := by decide

/-- What is really lost, 2 (known finding C16:negative-zero): `-0.0` comes
back as the integer `0` from either printer — the sign of zero is gone. -/
theorem negative_zero_sign_lost :
    encLit (.flt ⟨true, 0, 0⟩) = .int 0 ∧ textLit (.flt ⟨true, 0, 0⟩) = .int 0 := by decide

/-- The tree function `reparse` (what the text leg returns: `text_leg_is_format_parse_partial` below proves
that it IS formatter ∘ lexer ∘ parser) does not change the JSON a call marshals to — although the
two printers use different rules for integer syntax (10^6 vs int64).  On its own this is a
statement about the tree function only. -/
theorem format_parse_preserves_json (e : Exp) : encode (reparse e) = encode e :=
  encode_reparse e

/-- JSON → expression → JSON (any parameter type, any JSON value): whenever
`convertToExp` yields an expression, marshalling it gives back the JSON value
up to float normalisation — in particular the result does not depend on the
type used for the struct-vs-map decision. -/
theorem encode_convert (t : TypeId) (j : J) (e : Exp) (h : convert t j = some e) :
    encode e = normJ j := by
  simp only [convert, Option.map_eq_some_iff] at h
  obtain ⟨e0, h0, rfl⟩ := h
  rw [encode_fix, encode_ofJ j e0 h0]

/-- … and `convertToExp` does yield an expression whenever every integer
literal fits int64; for JSON already in normal form the round trip is the
identity. 
`_partial`: the hypothesis `jIntsOk` (integer-syntax numbers fit int64) restricts the domain; without it
the statement is false: `int_2_63_not_convertible` (2^63 has no expression: `parseInt` cannot hold it). -/
theorem encode_convert_exact_partial (t : TypeId) (j : J) (hi : jIntsOk j = true) :
    ∃ e, convert t j = some e ∧ encode e = normJ j ∧ (normJ j = j → encode e = j) := by
  obtain ⟨e0, h0⟩ := ofJ_isSome j hi
  refine ⟨fix t.base t.arrayDim t.mapDim e0, by simp [convert, h0], ?_, ?_⟩
  · rw [encode_fix, encode_ofJ j e0 h0]
  · intro hn; rw [encode_fix, encode_ofJ j e0 h0, hn]

/-- The first direction on one argument at TREE level: invocation JSON → `convertToExp` → the tree
function `reparse` → `MarshalJSON` gives the JSON value back (up to the normalisation above).  The
statement with the real text in the middle – print the call, lex, parse – is
`source_roundtrip_text_partial` below. -/
theorem source_roundtrip (t : TypeId) (j : J) (e : Exp) (h : convert t j = some e) :
    encode (reparse e) = normJ j := by
  rw [encode_reparse, encode_convert t j e h]

/-- The hypothesis on integers is necessary (F1'): `9223372036854775808`
(2^63, 19 digits: accepted by the int token rule) has no expression. -/
theorem int_2_63_not_convertible (t : TypeId) :
    convert t (.lit (.int 9223372036854775808)) = none := by
  simp [convert, ofJ, litOk, inInt64]

/-- Expression → JSON → expression: a literal that is well-typed at the
parameter's type `t` (shape and struct-vs-map flags as the type dictates)
comes back unchanged up to float normalisation. 
`_partial`: `intsOk` (integer literals fit int64 – true of anything the MRO parser built) restricts the
domain of "all values"; `wt` is the property's own quantifier (values of the declared type). -/
theorem convert_encode_partial (t : TypeId) (e : Exp)
    (hw : wt t.base t.arrayDim t.mapDim e = true) (hi : intsOk e = true) :
    convert t (encode e) = some (normE e) := by
  simp only [convert, ofJ_encode e hi, Option.map_some, erase_normE, fix_normE,
    fix_erase_wt e _ _ _ hw]

/-- JSON OF THE DECLARED TYPE CONVERTS TO A WELL-TYPED LITERAL (audit C16-M2): if the JSON value has
the shape of the parameter's type (`jWt`: arrays under array dims, objects under typed maps, objects
with declared members only under struct types, any object under the untyped `map`, scalars or `null`
elsewhere) and its integers fit int64, then `convertToExp` yields an expression that is well-typed at
that type – it carries exactly the struct-vs-map flags the compiler demands, so the printed call
type-checks as far as literal shapes go – and that marshals back to the value.  (This is the direction
in which the type-directed decision matters; `encode_convert` alone does not exercise it.) -/
theorem convert_wt (t : TypeId) (j : J) (hi : jIntsOk j = true)
    (hw : jWt t.base t.arrayDim t.mapDim j = true) :
    ∃ e, convert t j = some e ∧ wt t.base t.arrayDim t.mapDim e = true ∧ encode e = normJ j := by
  obtain ⟨e0, h0⟩ := ofJ_isSome j hi
  refine ⟨fix t.base t.arrayDim t.mapDim e0, by simp [convert, h0], wt_fix_ofJ j e0 _ _ _ h0 hw, ?_⟩
  rw [encode_fix, encode_ofJ j e0 h0]

/-- the typing hypothesis is necessary: a struct value with an undeclared key converts to an
expression the compiler rejects (`wt` false) -/
theorem convert_undeclared_member_not_wt :
    jWt (.struct (.cons [0x61] .scalar 0 0 .nil)) 0 0 (.obj (.cons [0x78] (.lit (.int 1)) .nil)) = false
    ∧ (convert ⟨.struct (.cons [0x61] .scalar 0 0 .nil), 0, 0⟩ (.obj (.cons [0x78] (.lit (.int 1)) .nil))).map
        (wt (.struct (.cons [0x61] .scalar 0 0 .nil)) 0 0) = some false := by
  constructor <;> rfl

/-- Without any typing hypothesis the values still survive: the result differs
from the original at most in struct-vs-map flags (and float normalisation). -/
theorem convert_encode_values (t : TypeId) (e : Exp) (hi : intsOk e = true) :
    ∃ e', convert t (encode e) = some e' ∧ erase e' = erase (normE e) := by
  refine ⟨_, by simp only [convert, ofJ_encode e hi, Option.map_some]; rfl, ?_⟩
  rw [erase_fix, erase_erase]

/-- One round trip reaches a fixed point of the JSON side (second conversion
changes nothing): the analogue of "formatting the regenerated source again
gives the same text". -/
theorem roundtrip_stable (t : TypeId) (e e' : Exp) (h' : convert t (encode e) = some e') :
    encode e' = encode e := by
  rw [encode_convert t (encode e) e' h', normJ_encode]

/-- Split status survives JSON → call → JSON: an argument is listed in the
regenerated `splitargs` iff it was listed in the input, and its value comes
back as exactly `{"split": v}` with `v` preserved (`canonArg`). -/
theorem split_status_roundtrip (s : Bool) (t : TypeId) (j : J) (a : Arg)
    (h : buildBinding s t j = some a) :
    dataOfBinding a = (s, canonArg s j) := by
  unfold buildBinding at h
  cases s with
  | false =>
    simp only [Bool.false_eq_true, if_false, Option.map_eq_some_iff] at h
    obtain ⟨e, he, rfl⟩ := h
    simp [dataOfBinding, Arg.isSplit, encodeArg, canonArg, encode_convert t j e he]
  | true =>
    simp only [if_true] at h
    cases j with
    | lit _ => cases h
    | arr _ => cases h
    | obj kvs =>
      simp only at h
      cases hf : kvs.findSplit with
      | none => simp [hf] at h
      | some v =>
        simp only [hf, Option.map_eq_some_iff] at h
        obtain ⟨e, he, rfl⟩ := h
        simp [dataOfBinding, Arg.isSplit, encodeArg, canonArg, hf, encode_convertSplit _ v e he]

/-- Split status survives call → JSON → call: a plain binding well-typed at the
parameter's type `t`, or a split binding whose operand is what the compiler
accepts for a split over `t` (`splitOperandOk`: an array of `t`-values or a map
literal of `t`-values – also when `t` is itself a typed map, the case repaired
as finding C16-N7 – or `null`), is rebuilt with the same split status and the
same value (up to float normalisation). 
`_partial`: as `convert_encode_partial` (`intsOk`). -/
theorem binding_roundtrip_partial (t : TypeId) (a : Arg)
    (hw : match a with
      | .plain e => wt t.base t.arrayDim t.mapDim e = true
      | .split e => splitOperandOk t e = true)
    (hi : intsOk a.value = true) :
    buildBinding (dataOfBinding a).1 t (dataOfBinding a).2 =
      some (match a with | .plain e => .plain (normE e) | .split e => .split (normE e)) := by
  cases a with
  | plain e =>
    simp [dataOfBinding, Arg.isSplit, encodeArg, buildBinding, convert_encode_partial t e hw hi]
  | split e =>
    simp only [Arg.value] at hi
    cases e with
    | lit l =>
      dsimp only [splitOperandOk] at hw
      have := convert_encode_partial t (.lit l) hw hi
      simp only [dataOfBinding, Arg.isSplit, encodeArg, buildBinding, if_true, JKvs.findSplit, isSplitKey_splitKey]
      simp only [encode] at this ⊢
      simp [convertSplit, splitSourceType, this]
    | arr xs =>
      dsimp only [splitOperandOk] at hw
      have hw' : wt t.base (t.arrayDim + 1) t.mapDim (.arr xs) = true := by simp [wt, hw]
      have : convert t (encode (.arr xs)) = some (normE (.arr xs)) := by
        simp only [convert, ofJ_encode _ hi, Option.map_some, erase_normE, fix_normE,
          fix_erase_wt_succ _ _ _ _ hw']
      simp only [dataOfBinding, Arg.isSplit, encodeArg, buildBinding, if_true, JKvs.findSplit, isSplitKey_splitKey]
      simp only [encode] at this ⊢
      simp [convertSplit, splitSourceType, this]
    | map k kvs =>
      simp only [splitOperandOk, Bool.and_eq_true, Bool.not_eq_true'] at hw
      obtain ⟨hk, hv⟩ := hw
      subst hk
      simp only [intsOk] at hi
      simp only [dataOfBinding, Arg.isSplit, encodeArg, buildBinding, if_true, JKvs.findSplit, isSplitKey_splitKey, encode,
        convertSplit_obj, ofJKvs_encodeKvs kvs hi, Option.map_some, eraseKvs_normEKvs,
        fixVals_normEKvs, fixVals_erase_wt kvs _ _ _ hv, normE]

/-- The earlier formulation of the split hypothesis – the operand is well-typed
at `collectionType t e` (`T[]` for an array operand, `map<T>` for a map operand)
– is the same condition wherever `collectionType` can express the type, i.e.
for every operand unless it is a map and the parameter is itself a typed map. -/
theorem splitOperandOk_eq_collectionType (t : TypeId) (e : Exp)
    (h : t.mapDim = 0 ∨ ∀ k kvs, e ≠ .map k kvs) :
    splitOperandOk t e = wt (collectionType t e).base (collectionType t e).arrayDim
      (collectionType t e).mapDim e := by
  cases e with
  | lit l => rfl
  | arr xs => simp [splitOperandOk, collectionType, wt]
  | map k kvs =>
    rcases h with h | h
    · simp [splitOperandOk, collectionType, wt, h, mapAction]
    · exact absurd rfl (h k kvs)

/-- Finding C16-N7, the repaired rule: for `map<STRUCT> m` the argument
`m = split {"k": {"a": {a: 1}}}` (accepted by the compiler) comes back as
itself: outer literal and per-key values stay maps, the innermost literal is a
struct.  Under the rule before the repair (operand converted at `map<STRUCT>`
itself) the per-key value `{"a": …}` became a struct literal `{a: {"a": 1}}`,
which the compiler rejects ("cannot assign struct literal to map"). -/
theorem split_typed_map_over_map :
    buildBinding true ⟨.struct (.cons [0x61] .scalar 0 0 .nil), 0, 1⟩
      (.obj (.cons splitKey (.obj (.cons [0x6B] (.obj (.cons [0x61]
        (.obj (.cons [0x61] (.lit (.int 1)) .nil)) .nil)) .nil)) .nil))
    = some (.split (.map false (.cons [0x6B] (.map false (.cons [0x61]
        (.map true (.cons [0x61] (.lit (.int 1)) .nil)) .nil)) .nil)))
    ∧ convert ⟨.struct (.cons [0x61] .scalar 0 0 .nil), 0, 1⟩
        (.obj (.cons [0x6B] (.obj (.cons [0x61] (.obj (.cons [0x61] (.lit (.int 1)) .nil)) .nil)) .nil))
      = some (.map false (.cons [0x6B] (.map true (.cons [0x61]
          (.map false (.cons [0x61] (.lit (.int 1)) .nil)) .nil)) .nil)) := by
  constructor <;> rfl

/-- In general: the operand of a split over a JSON object is a map literal
whose values are converted at the parameter's type, whatever that type is. -/
theorem split_over_map_values_at_param_type (t : TypeId) (kvs : JKvs) (a : Arg)
    (h : buildBinding true t (.obj (.cons splitKey (.obj kvs) .nil)) = some a) :
    ∃ es, ofJKvs kvs = some es ∧ a = .split (.map false (fixVals t.base t.arrayDim t.mapDim es)) := by
  simp only [buildBinding, if_true, JKvs.findSplit, isSplitKey_splitKey, convertSplit_obj] at h
  cases hk : ofJKvs kvs with
  | none => simp [hk] at h
  | some es =>
    simp only [hk, Option.map_some, Option.some.injEq] at h
    exact ⟨es, rfl, h.symm⟩

/-- The split operand is found the way `json.Unmarshal` into `struct{Split … `json:"split"`}` finds
it (audit C16-M4): keys are matched case-folded, and of several matching members the LAST wins:
`{"split": [1], "SPLIT": [2], "x": 0}` splits over `[2]`; `{"Split": [1]}` is a split argument;
`{"splat": [1]}` is not. -/
theorem split_key_fold_last_wins :
    (buildBinding true ⟨.scalar, 0, 0⟩ (.obj (.cons splitKey (.arr (.cons (.lit (.int 1)) .nil))
      (.cons [0x53, 0x50, 0x4C, 0x49, 0x54] (.arr (.cons (.lit (.int 2)) .nil)) (.cons [0x78] (.lit (.int 0)) .nil))))).map Arg.printable
      = some true
    ∧ (JKvs.cons splitKey (J.arr (.cons (.lit (.int 1)) .nil))
        (.cons [0x53, 0x50, 0x4C, 0x49, 0x54] (J.arr (.cons (.lit (.int 2)) .nil))
          (.cons [0x78] (.lit (.int 0)) .nil))).findSplit = some (J.arr (.cons (.lit (.int 2)) .nil))
    ∧ (buildBinding true ⟨.scalar, 0, 0⟩ (.obj (.cons splitKey (.arr (.cons (.lit (.int 1)) .nil))
      (.cons [0x53, 0x50, 0x4C, 0x49, 0x54] (.arr (.cons (.lit (.int 2)) .nil)) (.cons [0x78] (.lit (.int 0)) .nil))))).map encodeArg
      = some (.obj (.cons splitKey (.arr (.cons (.lit (.int 2)) .nil)) .nil))
    ∧ isSplitKey [0x53, 0x70, 0x6C, 0x69, 0x74] = true ∧ isSplitKey [0xC5, 0xBF, 0x70, 0x6C, 0x69, 0x74] = true
    ∧ isSplitKey [0x73, 0x70, 0x6C, 0x61, 0x74] = false := by
  refine ⟨by rfl, by rfl, by rfl, by decide, by decide, by decide⟩

/-- A parameter of struct type split over a map (`x = split {"k": {a: 1}}`)
is converted at `map<STRUCT>`: the outer literal stays a map literal and every
value becomes a struct literal (before the repair of finding C16-N1 the outer
literal was marked as a struct and printed with bare keys). -/
theorem split_map_over_struct (fs : Fields) (kvs : JKvs) (a : Arg)
    (h : buildBinding true ⟨.struct fs, 0, 0⟩ (.obj (.cons splitKey (.obj kvs) .nil)) = some a) :
    ∃ es, ofJKvs kvs = some es ∧ a = .split (.map false (fixVals (.struct fs) 0 0 es)) := by
  exact split_over_map_values_at_param_type ⟨.struct fs, 0, 0⟩ kvs a h

/-- Whole call, JSON → bindings → JSON (`BuildCallAst` then `BuildDataForAst`):
the regenerated invocation data is the canonical form of the input — every
declared parameter present (absent ones `null`), values preserved, and
`splitargs` = the split parameters that were given, in declaration order. -/
theorem call_roundtrip (sig : Sig) (d : Data) (bs : List (Str × Arg))
    (h : buildCall sig d = some bs) : dataOf bs = canonData sig d := by
  induction sig generalizing bs with
  | nil =>
    simp only [buildCall] at h; cases h
    simp [dataOf, canonData]
  | cons pt ps ih =>
    obtain ⟨p, t⟩ := pt
    simp only [buildCall] at h
    split at h
    · rename_i a bs' ha hbs
      cases h
      rw [dataOf_cons, canonData_cons, ih bs' hbs]
      by_cases hp : d.args.any (fun q => q.1 = p) = true
      · simp only [hp, if_true] at ha
        have hb := split_status_roundtrip _ t _ a ha
        simp only [dataOfBinding, Prod.mk.injEq] at hb
        simp only [hp, if_true, hb.1, hb.2, Bool.true_and]
      · simp only [hp, Bool.false_eq_true, if_false, Option.some.injEq] at ha
        subst ha
        simp [hp, encodeArg, encode, encLit, Arg.isSplit]
    · cases h

/-- What the grammar can print: a split binding built from a non-empty JSON
array is always expressible as `x = split [...]`. -/
theorem split_array_printable (t : TypeId) (v : J) (r : JList) (a : Arg)
    (h : buildBinding true t (.obj (.cons splitKey (.arr (.cons v r)) .nil)) = some a) :
    a.printable = true := by
  simp only [buildBinding, if_true, JKvs.findSplit, isSplitKey_splitKey, convertSplit, splitSourceType, convert, ofJ, ofJList] at h
  split at h
  · simp only [Option.map_some, fix, fixList, Option.some.injEq] at h
    subst h; rfl
  · simp at h

/-! ### non-vacuity and negative witnesses -/

private def kA : Str := [0x61]          -- "a"
private def kK : Str := [0x6B]          -- "k"
private def kX : Str := [0x78]          -- "x"
private def kY : Str := [0x79]          -- "y"
private def kName : Str := [0x6E, 0x61, 0x6D, 0x65]         -- "name"
private def kInner : Str := [0x69, 0x6E, 0x6E, 0x65, 0x72]  -- "inner"
private def kM : Str := [0x6D]          -- "m"
private def kGrid : Str := [0x67, 0x72, 0x69, 0x64]         -- "grid"
private def kAB : Str := [0x61, 0x20, 0x62]                 -- "a b"

/-- struct INNER(int a), struct S(string name, INNER inner, map<INNER> m, int[][] grid) -/
private def innerT : Fields := .cons kA .scalar 0 0 .nil
private def sT : Fields :=
  .cons kName .scalar 0 0 (.cons kInner (.struct innerT) 0 0
    (.cons kM (.struct innerT) 0 1 (.cons kGrid .scalar 2 0 .nil)))

/-- `{name: "n", inner: {a: 1}, m: {"k": {a: 2.5}}, grid: [[1, null], []]}` -/
private def sV : Exp :=
  .map true (.cons kName (.lit (.str kA))
    (.cons kInner (.map true (.cons kA (.lit (.int 1)) .nil))
    (.cons kM (.map false (.cons kK
        (.map true (.cons kA (.lit (.flt ⟨false, 5, -1⟩)) .nil)) .nil))
    (.cons kGrid (.arr (.cons (.arr (.cons (.lit (.int 1)) (.cons (.lit .null) .nil)))
        (.cons (.arr .nil) .nil))) .nil))))

/-- `convert_encode_partial`'s hypotheses hold for a nested struct with a typed map of
structs and a two-dimensional array (also inside an array of such structs). -/
example : wt (.struct sT) 0 0 sV = true ∧ intsOk sV = true := by decide
example : wt (.struct sT) 1 0 (.arr (.cons sV (.cons (.lit .null) .nil))) = true := by decide
/-- typed map of arrays of structs: `map<S[]>` -/
example : wt (.struct sT) 0 2 (.map false (.cons kK (.arr (.cons sV .nil)) .nil)) = true := by
  decide
/-- untyped map holding arbitrary JSON-like content -/
example : wt .umap 0 0 (.map false (.cons kAB (.map false (.cons kX
    (.arr (.cons (.lit (.flt ⟨true, 1, 300⟩)) .nil)) .nil)) .nil)) = true := by decide
/-- the conversion really decides struct-vs-map by type on this value -/
example : convert ⟨.struct sT, 0, 0⟩ (encode sV) = some sV := by rfl
/-- `1.0` comes back as `1`, `2.5` stays a float -/
example : encode (.arr (.cons (.lit (.flt ⟨false, 1, 0⟩)) (.cons (.lit (.flt ⟨false, 5, -1⟩)) .nil)))
    = .arr (.cons (.lit (.int 1)) (.cons (.lit (.flt ⟨false, 5, -1⟩)) .nil)) := by rfl
/-- `split_status_roundtrip` / `call_roundtrip` hypotheses are satisfiable with a split argument -/
example : ∃ bs, buildCall [(kX, ⟨.scalar, 0, 0⟩), (kY, ⟨.struct innerT, 0, 0⟩)]
    { args := [(kX, .obj (.cons splitKey (.arr (.cons (.lit (.int 1)) .nil)) .nil))],
      splitargs := [kX] } = some bs ∧ (dataOf bs).splitargs = [kX] :=
  ⟨[(kX, .split (.arr (.cons (.lit (.int 1)) .nil))), (kY, .plain (.lit .null))], by rfl, by rfl⟩

/-- `split_map_over_struct`'s hypothesis is satisfiable: `x = split {"k": {a: 1}}` for `INNER x` -/
example : buildBinding true ⟨.struct innerT, 0, 0⟩
    (.obj (.cons splitKey (.obj (.cons kK (.obj (.cons kA (.lit (.int 1)) .nil)) .nil)) .nil))
    = some (.split (.map false (.cons kK (.map true (.cons kA (.lit (.int 1)) .nil)) .nil))) := by rfl
/-- `binding_roundtrip_partial`'s hypothesis for a split operand: `int x` split over `[1, 2]` and over `{"k": 1}` -/
example : wt (collectionType ⟨.scalar, 0, 0⟩ (.arr (.cons (.lit (.int 1)) .nil))).base
    (collectionType ⟨.scalar, 0, 0⟩ (.arr (.cons (.lit (.int 1)) .nil))).arrayDim
    (collectionType ⟨.scalar, 0, 0⟩ (.arr (.cons (.lit (.int 1)) .nil))).mapDim
    (.arr (.cons (.lit (.int 1)) .nil)) = true := by decide

/-- Negative witness (finding C16-N3): `{"split": []}` is a legal split
argument for `BuildCallAst`, but `split []` is not expressible in MRO text. -/
theorem split_empty_not_printable :
    (buildBinding true ⟨.scalar, 0, 0⟩ (.obj (.cons splitKey (.arr .nil) .nil))).map Arg.printable
      = some false := by rfl

/-- … and so is `{"split": null}` (`split null`). -/
theorem split_null_not_printable :
    (buildBinding true ⟨.scalar, 0, 0⟩ (.obj (.cons splitKey (.lit .null) .nil))).map Arg.printable
      = some false := by rfl


/-! ## references and aliased calls: outside the round trip, and why

* A reference in an argument of a top-level call does not compile ("this
  binding cannot be resolved outside of a stage or pipeline": checked on the
  real compiler every run for a reference at top level, inside an array, inside
  a map and under `split`), so "the call compiles" – a decidable hypothesis on
  the text – excludes it.  What the conversions do with one anyway is a
  theorem: the text → JSON leg writes `{"__reference__": "ID.out"}` and the
  JSON → text leg has no reader for it, so a map (or struct) literal comes back,
  never a reference (`reference_not_restored`).  The JSON side is still a fixed
  point (`encode_convert`).
* `call X as Y(...)`: invocation data records the callable (`DecId`), not the
  alias; text → data → text' gives `call X(...)` and the data is unchanged
  (`alias_not_in_data`, `alias_roundtrip_data`). -/

/-- whatever `convertToExp` makes of a marshalled reference is a map literal
with the single key `__reference__` holding the reference text as a string -/
theorem reference_not_restored (t : TypeId) (id : Str) (e : Exp)
    (h : convert t (encodeRef id) = some e) :
    ∃ k v, e = .map k (.cons refKey v .nil) ∧ erase v = .lit (.str id) := by
  simp only [convert, encodeRef, ofJ, ofJKvs, litOk, if_true, Option.map_some,
    Option.some.injEq] at h
  subst h
  simp only [fix]
  split
  · exact ⟨false, .lit (.str id), by simp [fixVals, fix], rfl⟩
  · exact ⟨true, .lit (.str id), by simp [fixFields, fix], rfl⟩
  · exact ⟨true, _, rfl, rfl⟩
  · exact ⟨false, _, rfl, rfl⟩

/-- … while its JSON is unchanged by the round trip -/
theorem reference_json_fixed_point (t : TypeId) (id : Str) (e : Exp)
    (h : convert t (encodeRef id) = some e) : encode e = encodeRef id := by
  rw [encode_convert t _ e h]; rfl

/-- the alias of a call is not part of the invocation data -/
theorem alias_not_in_data (alias name : Str) (bs : List (Str × Arg)) :
    dataOfCall ⟨alias, name, bs⟩ = dataOfCall ⟨name, name, bs⟩ := rfl

/-- text (aliased or not) → data → call: the callable and the data survive, the
regenerated call carries the callable's own name as its id -/
theorem alias_roundtrip_data (alias name : Str) (bs : List (Str × Arg)) :
    (callOfData (dataOfCall ⟨alias, name, bs⟩).1 bs).id = name
    ∧ dataOfCall (callOfData (dataOfCall ⟨alias, name, bs⟩).1 bs) = dataOfCall ⟨alias, name, bs⟩ :=
  ⟨rfl, rfl⟩

/-- `reference_not_restored`'s hypothesis holds at every type: e.g. at a struct
type the result is the (unparseable) struct literal `{__reference__: "A.b"}` -/
example : convert ⟨.struct innerT, 0, 0⟩ (encodeRef [0x41, 0x2E, 0x62])
    = some (.map true (.cons refKey (.lit (.str [0x41, 0x2E, 0x62])) .nil)) := by rfl

/-- `binding_roundtrip_partial` for the repaired case: `map<INNER> m = split {"k": {"a": {a: 1}}}` -/
example : splitOperandOk ⟨.struct innerT, 0, 1⟩
    (.map false (.cons kK (.map false (.cons kA (.map true (.cons kA (.lit (.int 1)) .nil)) .nil)) .nil))
    = true := by decide

/-! ## the text leg is the real formatter ∘ lexer ∘ parser (audit C16-H1 / H6)

`Martian.FormatExp` / `Martian.FormatCall` (C09) are byte-exact models of `Exp.format` /
`CallStm.format`, of the MRO tokenizer and of the `val_exp` / `call_stm` grammar, tied to the real
FormatExp / ParseValExp / UncheckedParse / FormatSrcBytes on every run, with
`parse_format_exp` / `parse_format_call` proved for them.  `InvocationText.toF` / `ofF` translate
between the invocation expressions and C09's expression type; `textLeg g e` =
`(parseValExp (fmt [] (toF g e))).map (ofF g)` is print → lex → parse on BYTES.  The only thing not
computed is strconv: the 'g' text of a float enters as the oracle `g`, and `floatsOk g e` states
per float of `e` (decidably; evaluated by the driver on the real strconv output of every case) the
two facts used – integer-syntax text exactly when `Flt.textAsInt`, else a NUM_FLOAT token that reads
back as the same float64.  `wfText` / `wfCallText` = C09's well-formedness of what is printed
(strings and keys valid UTF-8, keys ascending, struct keys and binding ids identifiers, integers in
int64, a split operand a non-empty collection): what the formatter can print and the grammar
accept back; for `-0.0` the real strconv text `-0` fails `wfText` (it is neither a NUM_FLOAT token nor a
canonical integer; `floatsOk` holds) – known finding C16-N5; the theorems are silent there.
MEMBER ORDER (audit pass 2, C16-M1): `wfText` demands the keys of every map in strictly ascending
order (C09's `sortedKeys`), i.e. the theorems are about expressions as a Go map is PRINTED; `convert`
keeps the JSON's source order.  Section MemberOrder below closes the gap: `sortE` (sort by key, last
duplicate wins = the Go map read out through `sort.Strings`) always satisfies the order component. -/
section TextLeg
open Martian.InvocationText

/-- `_partial`: restricted to `wfText g e` (keys of every map strictly ascending – see MemberOrder –,
struct keys identifiers, strings valid UTF-8, integers in int64) and `floatsOk`; for an unsorted or
duplicated key the model parser returns the members sorted, so the statement without `wfText` is
false (`sortE_changes_unsorted` below).
EXPRESSION: printing with the formatter, lexing and parsing with `ParseValExp` returns exactly
the tree `reparse e` – for every printable expression (nested structs, typed maps, arrays, strings
with any escapes, big integers, floats) -/
theorem text_leg_is_format_parse_partial (g : G) (e : Exp) (hw : wfText g e = true) (hf : floatsOk g e = true) :
    textLeg g e = some (reparse e) :=
  text_leg_exp g e hw hf

/-- `_partial`: as above, plus: a split operand must be a non-empty collection
(`split_empty_not_printable`, `split_null_not_printable`: findings C16-N3a/b).
CALL: `Ast.Format()` of the call `BuildCallAst` built, lexed and parsed as a `call_stm`, gives
the same callable and the same bindings with every value `reparse`d and every split status kept -/
theorem text_leg_call_is_format_parse_partial (g : G) (name : Str) (bs : List (Str × Arg))
    (hw : wfCallText g name bs = true) (hf : floatsOkBinds g bs = true) :
    callTextLeg g name bs = some (name, bs.map fun b => (b.1, b.2.reparse)) :=
  text_leg_call g name bs hw hf

/-- marshalling the re-read bindings gives the data of the original bindings -/
theorem dataOf_reparse (bs : List (Str × Arg)) :
    dataOf (bs.map fun b => (b.1, b.2.reparse)) = dataOf bs := by
  have harg : ∀ a : Arg, encodeArg a.reparse = encodeArg a ∧ a.reparse.isSplit = a.isSplit := by
    intro a; cases a <;> simp [Arg.reparse, encodeArg, Arg.isSplit, encode_reparse]
  induction bs with
  | nil => rfl
  | cons b r ih =>
    have hb := harg b.2
    simp only [List.map_cons]
    rw [dataOf_cons, dataOf_cons, ih, hb.1, hb.2]

/-- `_partial`: hypothesis `wfCallText` (sorted keys at every depth – for invocation JSON in ANY member
order use `source_roundtrip_text_any_order` below –, printable split operands: C16-N3a/b).
SOURCE ROUND TRIP OVER THE REAL TEXT (replaces the postulated text leg): invocation data →
`BuildCallAst` (`buildCall`) → `Ast.Format()` BYTES (`printCall`) → tokenizer → `call_stm` parser →
`BuildDataForAst` (`dataOf`) returns the callable and the canonical form of the data – every
declared parameter present, values preserved up to float normalisation, `splitargs` preserved –
for every signature and all data whose call is printable (`wfCallText`, e.g. no split over an empty
collection: findings C16-N3a/b) with strconv behaving as `floatsOkBinds` says. -/
theorem source_roundtrip_text_partial (g : G) (name : Str) (sig : Sig) (d : Data) (bs : List (Str × Arg))
    (h : buildCall sig d = some bs) (hw : wfCallText g name bs = true) (hf : floatsOkBinds g bs = true) :
    (callTextLeg g name bs).map (fun p => (p.1, dataOf p.2)) = some (name, canonData sig d) := by
  rw [text_leg_call g name bs hw hf]
  simp only [Option.map_some, dataOf_reparse, call_roundtrip sig d bs h]

/-- second round: the regenerated text is a fixed point (printing what was read back prints the
same bytes) -/
theorem text_fixed_point (g : G) (name : Str) (bs : List (Str × Arg)) (hw : wfCallText g name bs = true) :
    Martian.FormatCall.fmtCall (Martian.FormatCall.normCall (toFCall g name bs)) = printCall g name bs :=
  Martian.FormatCall.fmtCall_norm (toFCall g name bs) hw

/-! non-vacuity: a struct of a struct, a typed map of structs, a two-dimensional array, a float, a
string needing escapes, keys in sorted order; strconv oracle for the one float: `2.5` -/
private def gEx : G :=
  { text := fun f => if f = ⟨false, 5, -1⟩ then [0x32, 0x2E, 0x35] else [0x30],
    val := fun _ => ⟨false, 5, -1⟩ }
private def tV : Exp :=
  .map true (.cons kGrid (.arr (.cons (.arr (.cons (.lit (.int 1)) (.cons (.lit .null) .nil)))
        (.cons (.arr .nil) .nil)))
    (.cons kInner (.map true (.cons kA (.lit (.int 1)) .nil))
    (.cons kM (.map false (.cons kAB
        (.map true (.cons kA (.lit (.flt ⟨false, 5, -1⟩)) .nil)) .nil))
    (.cons kName (.lit (.str [0x6E, 0x22, 0xC3, 0xA9])) .nil))))
example : wfText gEx tV = true ∧ floatsOk gEx tV = true := by decide +kernel
/-- … and on it the bytes are really printed and read back -/
example : textLeg gEx tV = some (reparse tV) ∧ (textLeg gEx tV).isSome = true :=
  ⟨text_leg_is_format_parse_partial gEx tV (by decide +kernel) (by decide +kernel), by decide +kernel⟩
/-- a split call over that value and a scalar: `map call ST(x = split [1], y = {…},)` -/
example : wfCallText gEx [0x53, 0x54] [(kX, .split (.arr (.cons (.lit (.int 1)) .nil))), (kY, .plain tV)] = true
    ∧ floatsOkBinds gEx [(kX, .split (.arr (.cons (.lit (.int 1)) .nil))), (kY, .plain tV)] = true := by
  decide +kernel
/-- the empty struct literal is where the old definition of `reparse` was wrong: `{}` reads back as a map -/
example : textLeg gEx (.map true .nil) = some (.map false .nil) :=
  text_leg_is_format_parse_partial gEx (.map true .nil) (by decide +kernel) (by decide +kernel)
/-- `-0.0`: with the real strconv text `-0` the hypothesis `wfText` fails, `floatsOk` holds (finding C16-N5) -/
example : floatsOk { text := fun _ => [0x2D, 0x30], val := fun _ => ⟨true, 0, 0⟩ } (.lit (.flt ⟨true, 0, 0⟩)) = true
    ∧ wfText { text := fun _ => [0x2D, 0x30], val := fun _ => ⟨true, 0, 0⟩ } (.lit (.flt ⟨true, 0, 0⟩)) = false := by
  decide +kernel

end TextLeg

/-! ## member order (audit pass 2, C16-M1)

`ParseValExp` builds a Go map of a JSON object's members (a later duplicate replaces an earlier one)
and every printer writes the keys through `sort.Strings`; the model's `convert` keeps source order.
`Martian.InvocationSort.sortE` / `sortJ` = the Go map read out in printing order.  What Go prints for
the call `buildCall` built is `printCall g name (sortBinds bs)`. -/
section MemberOrder
open Martian.InvocationText Martian.InvocationSort

/-- THE SORTEDNESS LEMMA: whatever the member order and duplicates of `e`, in `sortE e` the keys of
every map at every depth are strictly ascending – the order component (`sortedKeys`) of the text-leg
hypothesis `wfText` always holds for what Go prints -/
theorem printed_keys_sorted (g : G) (e : Exp) :
    sortedE (sortE e) = true ∧
    ∀ s kvs, sortE e = .map s kvs → Martian.FormatExp.sortedKeys (toFKvs g kvs) = true := by
  refine ⟨sortedE_sortE e, fun s kvs h => ?_⟩
  have hs := sortedE_sortE e
  rw [h] at hs
  simp only [sortedE, Bool.and_eq_true] at hs
  rw [sortedKeys_toFKvs]; exact hs.1

/-- on an expression already in printing order (what the harness reads off a real `MapExp`, a Go map,
through sorted keys) `sortE` changes nothing -/
theorem sortE_of_sorted_id (e : Exp) (h : sortedE e = true) : sortE e = e := sortE_of_sorted e h

/-- the marshalled JSON of the sorted expression is the sorted JSON: values, nesting and which
duplicate survives are those of the input -/
theorem sort_commutes_with_marshal (e : Exp) : encode (sortE e) = sortJ (encode e) := encode_sortE e

/-- SOURCE ROUND TRIP FOR INVOCATION JSON IN ANY MEMBER ORDER: data → `BuildCallAst` (`buildCall`, members
in source order) → the text Go prints (keys sorted, last duplicate kept: `sortBinds`) → tokenizer →
`call_stm` parser → `BuildDataForAst` returns the callable and the canonical data with every object
read as a Go map (`sortData`).  The remaining hypotheses are about strings, identifiers, integers
and split operands of the PRINTED call, not about member order. -/
theorem source_roundtrip_text_any_order (g : G) (name : Str) (sig : Sig) (d : Data) (bs : List (Str × Arg))
    (h : buildCall sig d = some bs) (hw : wfCallText g name (sortBinds bs) = true)
    (hf : floatsOkBinds g (sortBinds bs) = true) :
    (callTextLeg g name (sortBinds bs)).map (fun p => (p.1, dataOf p.2))
      = some (name, sortData (canonData sig d)) := by
  rw [text_leg_call g name (sortBinds bs) hw hf]
  simp only [Option.map_some, dataOf_reparse, dataOf_sortBinds, call_roundtrip sig d bs h]

/-- witness for the `_partial` text-leg theorems: `{"b": 1, "a": 2}` is not in printing order
(`wfText` false), Go prints and reads back `{"a": 2, "b": 1}`; `{"a": 1, "a": 2}` is the map `{"a": 2}` -/
theorem sortE_changes_unsorted :
    wfText gEx (.map false (.cons [0x62] (.lit (.int 1)) (.cons [0x61] (.lit (.int 2)) .nil))) = false
    ∧ wfText gEx (sortE (.map false (.cons [0x62] (.lit (.int 1)) (.cons [0x61] (.lit (.int 2)) .nil)))) = true
    ∧ textLeg gEx (sortE (.map false (.cons [0x62] (.lit (.int 1)) (.cons [0x61] (.lit (.int 2)) .nil))))
        = some (.map false (.cons [0x61] (.lit (.int 2)) (.cons [0x62] (.lit (.int 1)) .nil)))
    ∧ encode (sortE (.map false (.cons [0x61] (.lit (.int 1)) (.cons [0x61] (.lit (.int 2)) .nil))))
        = .obj (.cons [0x61] (.lit (.int 2)) .nil) := by
  refine ⟨by decide +kernel, by decide +kernel, ?_, by rfl⟩
  exact text_leg_is_format_parse_partial gEx _ (by decide +kernel) (by decide +kernel)

end MemberOrder

/-! ## every fork's `_invocation` (audit C16-H2): `Fork.writeInvocation`

`writeInvocation` = `BuildCallSource(call.Id, resolveInputs(forkId, keepSplit = true), callable, …)`.
`Martian.InvocationFork`: `MV` are the values `resolveInputs` returns in their dynamic types (`nil`,
a `ValExp` of the compiled source – possibly a `SplitExp` no fork index resolves –, `RawMessage`,
`LazyArgumentMap`, `MarshalerMap`, `marshallerArray`), `marshal` their `MarshalJSON` (what `_args`
receives), `convertMV` the cases of `convertToExp`, `invocationOf sig mapped args` the loop of
`BuildCallAst` (`none` = the error after which an EMPTY `_invocation` is written), `printFork` /
`forkTextLeg` the real formatter / lexer / parser models of C09 on the call (`Id ≠ DecId` for
`call X as Y`), `forkData` the invocation data the call stands for.  WHICH value a fork gets is C01's
model (`ResolverStatic.evalRT` / `runtimeArgs`, tied to the real `_args` per run);
`argsOfNode` reads it.  Tie per run (harness/c16_fork.go, Tier A): for every fork of every node
the model's text = the call statement of the real `_invocation` bytes, `forkCompiles` = "the real
`_invocation` compiles", and for stage forks the data of the re-read text = the delivered `_args`. -/
section ForkInvocation
open Martian.InvocationText Martian.InvocationFork Martian.InvocationSort

/-- THE STRUCTURED CASES OF `convertToExp` ARE THE RAW CASE: a run-time value (no source literal
inside) that is well-typed at `t` converts – member by member through `LazyArgumentMap` /
`MarshalerMap` / `marshallerArray` / `nil`, with `possibleStructType` and `structMemberType` – to
exactly the expression `convertToExp` makes of its marshalled JSON (`ParseValExp` +
`fixExpressionTypes`).  (Ill-typed values differ: an undeclared key of a struct is converted at the
struct's own type by the structured cases and left alone by `fixExpressionTypes`.) -/
theorem fork_values_convert_as_json (v : MV) (t : TypeId) (hn : noVal v = true)
    (hw : jWt t.base t.arrayDim t.mapDim (marshal v) = true) :
    convertMV t.base t.arrayDim t.mapDim v = (convert t (marshal v)).map ofExp :=
  convertMV_eq_convert v t.base t.arrayDim t.mapDim hn hw

/-- … and the binding of such a value (integers in range) is a plain binding of a WELL-TYPED
expression: shape and struct-vs-map flags as the compiler demands for the parameter -/
theorem stage_fork_binding_well_typed (v : MV) (t : TypeId) (hn : noVal v = true)
    (hw : jWt t.base t.arrayDim t.mapDim (marshal v) = true) (hi : mvIntsOk v = true) :
    ∃ e, bindingOf false t v = some (.plain (ofExp e)) ∧ wt t.base t.arrayDim t.mapDim e = true := by
  obtain ⟨e, he, hc, hwt, _⟩ := convertMV_wt v t.base t.arrayDim t.mapDim hn hw hi
  have hwrap : wrapBinding false (ofExp e) = .plain (ofExp e) := by cases e <;> rfl
  cases v with
  | nil =>
    refine ⟨.lit .null, rfl, by simp [wt, Lit.isNull]⟩
  | raw j => exact ⟨e, by simp [bindingOf, buildBinding, marshal] at hc ⊢; simp [hc, ofArg], hwt⟩
  | val x => simp [noVal] at hn
  | lazy kvs => exact ⟨e, by simp [bindingOf, he, hwrap], hwt⟩
  | mmap kvs => exact ⟨e, by simp [bindingOf, he, hwrap], hwt⟩
  | marr xs => exact ⟨e, by simp [bindingOf, he, hwrap], hwt⟩

/-- the data of the call built from a fork's resolved inputs: every declared parameter, the
marshalled value (floats normalised), `{"split": collection}` and a `splitargs` entry for a
parameter left split -/
theorem fork_invocation_data (sig : Sig) (mapped : List Str) (args : List (Str × MV))
    (ibs : List (Str × IArg)) (bs : List (Str × Arg))
    (h : invocationOf sig mapped args = some ibs) (hp : plainBinds ibs = some bs) :
    dataOf bs = forkData sig mapped args :=
  dataOf_invocationOf sig mapped args ibs bs h hp

/-- ANY FORK (stage, top-level pipeline, sub-pipeline) whose invocation has one of the shapes that
compile (`forkCompiles`: not the placeholder `map call` without a split binding, no `split` inside a
value, every split operand a non-empty array / map literal, all of one length / key set): the
`_invocation` text – members of every map printed through the Go map, `sortBinds`: raw / lazy
values keep SOURCE order in `bs`, the printers sort (audit pass 3, A6) –, lexed and parsed, is a call
of the node's callable under the node's call id whose data is exactly the fork's resolved inputs,
every object read as a Go map (`sortData`). -/
theorem fork_invocation_roundtrip (g : G) (decId id : Str) (sig : Sig) (mapped : List Str)
    (args : List (Str × MV)) (ibs : List (Str × IArg))
    (h : invocationOf sig mapped args = some ibs) (hc : forkCompiles g decId id mapped ibs = true) :
    ∃ bs, plainBinds ibs = some bs ∧ (floatsOkBinds g (sortBinds bs) = true →
      (forkTextLeg g decId id (sortBinds bs)).map (fun c => (c.1, c.2.1, dataOf c.2.2))
        = some (decId, id, sortData (forkData sig mapped args))) := by
  unfold forkCompiles at hc
  cases hp : plainBinds ibs with
  | none => simp [hp] at hc
  | some bs =>
    simp only [hp, Bool.and_eq_true] at hc
    refine ⟨bs, rfl, fun hf => ?_⟩
    rw [fork_text_leg g decId id (sortBinds bs) hc.2.1 hf]
    simp only [Option.map_some, dataOf_reparse, dataOf_sortBinds, dataOf_invocationOf sig mapped args ibs bs h hp]

/-- STAGE FORKS whose split arguments agree.  The fork id of a stage fork has an index for every
enclosing map call, so every split is resolved (`splitFree`) and no parameter is left split
(`mapped = []` – when the split sources of the call DISAGREE, `resolveInputs` fails for one of them
and `mapped ≠ []`: see `disagreeing_splits_do_not_compile`, known finding C16-N8).  With the
integers of the resolved values in range `BuildCallAst` succeeds, nothing of the call has a split
inside, and – the text as Go prints it (`sortBinds`) being printable (`wfForkText`: identifiers,
valid UTF-8; the key order is taken care of by `sortBinds`, `printed_keys_sorted`) and strconv
behaving (`floatsOkBinds`) – `_invocation`, lexed and parsed with the real grammar, is
`call <callable> [as <id>](…)` whose data is `canonData` of the fork's marshalled arguments (every
object read as a Go map): every declared parameter, the value `_args` has (integral floats as
integers), no split argument. -/
theorem stage_fork_invocation_roundtrip (g : G) (decId id : Str) (sig : Sig) (args : List (Str × MV))
    (hs : ∀ p v, lookupMV args p = some v → splitFree v = true)
    (hi : ∀ p v, lookupMV args p = some v → mvIntsOk v = true) :
    ∃ ibs bs, invocationOf sig [] args = some ibs ∧ plainBinds ibs = some bs ∧
      (wfForkText g decId id (sortBinds bs) = true → floatsOkBinds g (sortBinds bs) = true →
        (forkTextLeg g decId id (sortBinds bs)).map (fun c => (c.1, c.2.1, dataOf c.2.2))
          = some (decId, id, sortData (canonData sig ⟨marshalArgs args, []⟩))) := by
  obtain ⟨ibs, h⟩ := invocationOf_isSome args hi sig
  obtain ⟨bs, hp⟩ := plainBinds_of_splitFree args hs sig ibs h
  refine ⟨ibs, bs, h, hp, fun hw hf => ?_⟩
  rw [fork_text_leg g decId id (sortBinds bs) hw hf]
  simp only [Option.map_some, dataOf_reparse, dataOf_sortBinds, dataOf_invocationOf sig [] args ibs bs h hp,
    forkData_stage args hs sig]

/-- THE TOP-LEVEL PIPELINE'S FORK.  Its fork id is empty; its inputs are the literals of the
invocation source, a `split` argument of a top-level `map call` arriving as the `SplitExp` itself
(`topOk`).  The `_invocation` is then a `map call` again, and read back it is the callable with
`forkData`: the plain arguments as they are and `{"split": collection}` + a `splitargs` entry for
each split one (objects read as Go maps: `sortBinds` / `sortData`). -/
theorem top_fork_invocation_roundtrip (g : G) (decId id : Str) (sig : Sig) (args : List (Str × MV))
    (hs : ∀ p v, lookupMV args p = some v → topOk v = true)
    (ibs : List (Str × IArg)) (h : invocationOf sig [] args = some ibs) :
    ∃ bs, plainBinds ibs = some bs ∧
      (wfForkText g decId id (sortBinds bs) = true → floatsOkBinds g (sortBinds bs) = true →
        (forkTextLeg g decId id (sortBinds bs)).map (fun c => (c.1, c.2.1, dataOf c.2.2))
          = some (decId, id, sortData (forkData sig [] args))) := by
  obtain ⟨bs, hp⟩ := plainBinds_of_topOk args hs sig ibs h
  refine ⟨bs, hp, fun hw hf => ?_⟩
  rw [fork_text_leg g decId id (sortBinds bs) hw hf]
  simp only [Option.map_some, dataOf_reparse, dataOf_sortBinds, dataOf_invocationOf sig [] args ibs bs h hp]

/-- ON TOP OF C01's RESOLVER: for fork `f` of stage node `n` of the static phase, the arguments
`argsOfNode` reads off `evalRT` marshal to exactly the argument record `runtimeArgs` (the model of
the fork's `_args`), and the `_invocation` built from them round-trips to `canonData` of them. -/
theorem resolver_fork_invocation_roundtrip (st : Martian.Dataflow.StructTable) (nf fuel : Nat)
    (ρ : Martian.ResolverForks.Store) (f : Martian.ResolverForks.ForkAssign)
    (n : Martian.ResolverStatic.SNode) (g : G) (decId id : Str) (args : List (Str × MV))
    (ha : argsOfNode st nf ρ f n = some args)
    (hi : ∀ p v, lookupMV args p = some v → mvIntsOk v = true) :
    ofDJ (Martian.ResolverStatic.runtimeArgs st nf ρ f n) = some (.obj (kvsOfList (marshalArgs args))) ∧
    ∃ ibs bs, invocationOf (sigOfNode st fuel n) [] args = some ibs ∧ plainBinds ibs = some bs ∧
      (wfForkText g decId id (sortBinds bs) = true → floatsOkBinds g (sortBinds bs) = true →
        (forkTextLeg g decId id (sortBinds bs)).map (fun c => (c.1, c.2.1, dataOf c.2.2))
          = some (decId, id, sortData (canonData (sigOfNode st fuel n) ⟨marshalArgs args, []⟩))) := by
  refine ⟨?_, stage_fork_invocation_roundtrip g decId id _ args (fun p v hv => ?_) hi⟩
  · simp only [Martian.ResolverStatic.runtimeArgs, ofDJ, marshalArgs_argsOfInputs st nf ρ f n.inputs args ha,
      Option.map_some]
  · obtain ⟨j, rfl⟩ := argsOfInputs_raw st nf ρ f n.inputs args ha p v hv
    rfl

/-- SUB-PIPELINE FORKS (known finding C16-N6), the shapes that do NOT compile.  A sub-pipeline's
fork id is empty ("pipelines only sort-of fork"), so the splits of enclosing map calls in its
bindings are unresolved and stay in place.  (1) A split INSIDE a value has no syntax: whatever the
rest, `forkCompiles` is false. -/
theorem nested_split_does_not_compile (g : G) (decId id : Str) (mapped : List Str) (ibs : List (Str × IArg))
    (h : plainBinds ibs = none) : forkCompiles g decId id mapped ibs = false := by
  simp [forkCompiles, h]

/-- STAGE FORKS WHOSE SPLIT ARGUMENTS DISAGREE (audit pass 3, A13; known finding C16-N8).  When one split
source of a map call disagrees with the fork (a disabled / null producer, another length or key set)
`resolveInputs(fork, keepSplit)` fails for that parameter and lists it in `mapped` – with the value
`nil` when its source turned out null.  `nil` gives a plain `null` binding, no binding is split, and
`BuildCallAst` sets the placeholder mapping: the text is `map call X(…)` without any `split`, which
the grammar rejects – whatever the rest of the call. -/
theorem disagreeing_splits_do_not_compile (g : G) (decId id : Str) (mapped : List Str) (ibs : List (Str × IArg))
    (h : mapPlaceholder mapped ibs = true) : forkCompiles g decId id mapped ibs = false := by
  simp [forkCompiles, h]

private def nST : Str := [0x53, 0x54]   -- "ST"
/-- witness (1), Tier A `call PL9(items = [13, split [null, null]])`: the resolver returns the array
with the enclosing call's `SplitExp` as an element; `BuildCallAst` succeeds, the call does not compile -/
example : (invocationOf [(kX, ⟨.scalar, 1, 0⟩)] []
      [(kX, .marr (.cons (.val (.lit (.int 13)))
        (.cons (.val (.split (.arr (.cons (.lit .null) (.cons (.lit .null) .nil))))) .nil)))]).map
      (forkCompiles gEx nST nST []) = some false := by decide +kernel
/-- witness (2), `map call PL8(enable = split [])`: a map call over a run-time EMPTY collection -/
example : (invocationOf [(kX, ⟨.scalar, 0, 0⟩)] [] [(kX, .val (.split (.arr .nil)))]).map
      (forkCompiles gEx nST nST []) = some false := by decide +kernel
/-- witness (3), `map call PL8(x = split [true], y = split [[16, 0], [16, 0]])`: the split of the
enclosing call (one element in this fork) next to the pipeline's own split of another length –
each alone compiles, together "inconsistent split inputs" -/
example :
    (invocationOf [(kX, ⟨.scalar, 0, 0⟩), (kY, ⟨.scalar, 1, 0⟩)] []
      [(kX, .val (.split (.arr (.cons (.lit (.bool true)) .nil)))),
       (kY, .val (.split (.arr (.cons (.arr (.cons (.lit (.int 16)) .nil))
          (.cons (.arr (.cons (.lit (.int 16)) .nil)) .nil)))))]).map (forkCompiles gEx nST nST []) = some false
    ∧ (invocationOf [(kX, ⟨.scalar, 0, 0⟩), (kY, ⟨.scalar, 1, 0⟩)] []
      [(kX, .val (.split (.arr (.cons (.lit (.bool true)) .nil))))]).map (forkCompiles gEx nST nST []) = some true := by
  decide +kernel
/-- witness of C16-N8, the real fork `ID.P.ADD fork0` of `map call ADD(what = split [1, 2], other = split
GEN2.result, konst = 7)` with GEN2 disabled: inputs `what ↦ 1`, `other ↦ nil` listed as left split,
`konst ↦ 7`; `BuildCallAst` succeeds, the text starts `map call` and does not compile – and with
`other` not listed (the splits agree) the same bindings compile -/
example :
    (invocationOf [(kX, ⟨.scalar, 0, 0⟩), (kY, ⟨.scalar, 0, 0⟩), (kK, ⟨.scalar, 0, 0⟩)] [kY]
      [(kX, .val (.lit (.int 1))), (kY, .nil), (kK, .val (.lit (.int 7)))]).map
        (fun ibs => (mapPlaceholder [kY] ibs, forkCompiles gEx nST nST [kY] ibs, forkCompiles gEx nST nST [] ibs))
      = some (true, false, true) := by decide +kernel
/-- … and a raw value with members in source order `{"b": 1, "a": 2}` at an untyped map compiles: Go
prints the keys sorted (A6) -/
example : (invocationOf [(kX, ⟨.umap, 0, 0⟩)] []
      [(kX, .raw (.obj (.cons [0x62] (.lit (.int 1)) (.cons [0x61] (.lit (.int 2)) .nil))))]).map
      (forkCompiles gEx nST nST []) = some true := by decide +kernel
/-- non-vacuity, the top-level fork of `map call ST(x = split ["a", "b"], y = {…})` (a `SplitExp`
argument, a struct from run-time data): compiles, and the theorem's hypotheses hold -/
example :
    (invocationOf [(kX, ⟨.scalar, 0, 0⟩), (kY, ⟨.struct innerT, 0, 0⟩)] []
      [(kX, .val (.split (.arr (.cons (.lit (.str kA)) (.cons (.lit (.str kK)) .nil))))),
       (kY, .lazy (.cons kA (.lit (.int 1)) .nil))]).map (forkCompiles gEx nST nST []) = some true
    ∧ topOk (.val (.split (.arr (.cons (.lit (.str kA)) (.cons (.lit (.str kK)) .nil))))) = true
    ∧ topOk (.lazy (.cons kA (.lit (.int 1)) .nil)) = true := by decide +kernel
/-- non-vacuity, a stage fork: a struct assembled member by member (`MarshalerMap` with a
`LazyArgumentMap`, a `marshallerArray` and a source literal inside) is converted with the struct
flags of `S` and marshals to the JSON `_args` has -/
example :
    (convertMV (.struct sT) 0 0 (.mmap (.cons kGrid (.marr (.cons (.raw (.arr (.cons (.lit (.int 1)) .nil))) .nil))
        (.cons kInner (.lazy (.cons kA (.lit (.int 1)) .nil))
        (.cons kName (.val (.lit (.str kA))) .nil))))).bind plainE
      = some (.map true (.cons kGrid (.arr (.cons (.arr (.cons (.lit (.int 1)) .nil)) .nil))
          (.cons kInner (.map true (.cons kA (.lit (.int 1)) .nil))
          (.cons kName (.lit (.str kA)) .nil)))) := by rfl
/-- non-vacuity of the resolver reading: an int and a string atom of C01's value type -/
example : ofDJ (.obj [("x", .atom "1"), ("s", .arr [.atom "\"a\"", .dnull])])
    = some (.obj (.cons kX (.lit (.int 1))
        (.cons [0x73] (.arr (.cons (.lit (.str kA)) (.cons (.lit .null) .nil))) .nil))) := by rfl

end ForkInvocation

/-! ## the string leaf at byte level

`Lit.str s` above is the decoded byte string; the theorems below are about the
TEXT that carries it in either direction (models: Martian/InvocationStr.lean
for `encoding/json`'s encoder/decoder and Python's `json.dumps`,
Martian/Lexer.lean `unquoteBytes`, Martian/Format.lean `quoteString`; each is
compared with the real function on every run). -/
section StringLeaf
open Martian.InvocationStr
open Martian.Lexer (unquoteBytes)
open Martian.Format (quoteString)
open Martian.ShellQuote (validUtf8)

/-- JSON → MRO, (a): `convertToExp` hands the JSON text to the MRO parser; what
`encoding/json` writes for a valid UTF-8 string – with HTML escaping
(`json.Marshal`, also when it re-compacts a `RawMessage`) or without
(`SetEscapeHTML(false)`) – is read back exactly by `unquoteBytes`.  For ALL
valid UTF-8 strings. 
`_partial`: for valid UTF-8 only; for other byte strings the statement is false (`invalid_utf8_not_preserved`:
each offending byte becomes U+FFFD). -/
theorem string_leaf_json_to_mro_partial (html : Bool) (s : Str) (h : validUtf8 s = true) :
    unquoteBytes (jsonEncodeString html s) = some s :=
  unquote_jsonEncode html s h

/-- Any other writer: whatever produced the token, if it is valid UTF-8 and
`encoding/json` decodes it to `s`, the MRO path reads the same `s` – every JSON
escape form (`\/`, upper/lower-case hex, surrogate pairs for non-BMP runes as
Python's `ensure_ascii` writes them); lone or mis-paired surrogate escapes are
U+FFFD on both paths. -/
theorem string_leaf_any_json_writer (body s : Str) (hv : validUtf8 body = true)
    (h : jsonDecodeString (0x22 :: (body ++ [0x22])) = some s) :
    unquoteBytes (0x22 :: (body ++ [0x22])) = some s :=
  unquote_of_jsonDecode body s hv h

/-- … and in particular Python's `json.dumps` (what a Python stage writes into
`_outs`, whose string tokens reach the MRO lexer unchanged through
`Fork.writeInvocation`): `\\uXXXX` for everything outside `' '..'~'`, a
surrogate pair of escapes for every non-BMP rune.  For ALL valid UTF-8
strings. 
`_partial`: for valid UTF-8 only; for other byte strings the statement is false (`invalid_utf8_not_preserved`:
each offending byte becomes U+FFFD). -/
theorem string_leaf_python_writer_partial (s : Str) (h : validUtf8 s = true) :
    unquoteBytes (pyEncodeString s) = some s :=
  unquote_pyEncode s h

/-- Python → Go: `encoding/json` reads what Python's `json.dumps` writes (a stage's
`_outs` read by mrp) as the string, for ALL valid UTF-8 strings. 
`_partial`: for valid UTF-8 only; for other byte strings the statement is false (`invalid_utf8_not_preserved`:
each offending byte becomes U+FFFD). -/
theorem string_leaf_python_to_go_partial (s : Str) (h : validUtf8 s = true) :
    jsonDecodeString (pyEncodeString s) = some s :=
  jsonDecode_pyEncode s h

/-- MRO → JSON, (b): `MarshalJSON`/`EncodeJSON` print every string and map key
with `quoteString`; a JSON reader decodes that text to the string. 
`_partial`: for valid UTF-8 only; for other byte strings the statement is false (`invalid_utf8_not_preserved`:
each offending byte becomes U+FFFD). -/
theorem string_leaf_mro_to_json_partial (s : Str) (h : validUtf8 s = true) :
    jsonDecodeString (quoteString s) = some s :=
  jsonDecode_quoteString s h

/-- `quoteString` IS `encoding/json`'s string encoder without HTML escaping,
byte for byte, for every byte string (invalid UTF-8 included: `\ufffd`). -/
theorem quoteString_is_json_encoder (s : Str) : jsonEncodeString false s = quoteString s :=
  jsonEncode_false_eq s

/-- `encoding/json` reads its own output back. 
`_partial`: for valid UTF-8 only; for other byte strings the statement is false (`invalid_utf8_not_preserved`:
each offending byte becomes U+FFFD). -/
theorem json_encode_decode_partial (html : Bool) (s : Str) (h : validUtf8 s = true) :
    jsonDecodeString (jsonEncodeString html s) = some s :=
  jsonDecode_jsonEncode html s h

/-- (c): the string leaf of `source_roundtrip` / `encode_convert` at byte level.
JSON text (either Go writer) → MRO lexer → `quoteString` (the formatter's and
`MarshalJSON`'s printer) → MRO lexer again and → JSON decoder: every leg
returns the same string, and the text reaches a fixed point (`quoteString s`)
after one leg. 
`_partial`: for valid UTF-8 only; for other byte strings the statement is false (`invalid_utf8_not_preserved`:
each offending byte becomes U+FFFD). -/
theorem string_leaf_roundtrip_partial (html : Bool) (s : Str) (h : validUtf8 s = true) :
    ∃ s1, unquoteBytes (jsonEncodeString html s) = some s1
      ∧ unquoteBytes (quoteString s1) = some s
      ∧ jsonDecodeString (quoteString s1) = some s
      ∧ quoteString s1 = jsonEncodeString false s :=
  ⟨s, unquote_jsonEncode html s h, Martian.Format.unquote_quoteString s h,
    jsonDecode_quoteString s h, (jsonEncode_false_eq s).symm⟩

/-- Not preserved, stated: a string that is NOT valid UTF-8 does not survive –
the writers replace each offending byte by U+FFFD (`"\xff"` ↦ `"\ufffd"`). -/
theorem invalid_utf8_not_preserved :
    unquoteBytes (jsonEncodeString true [0x61, 0xFF]) = some [0x61, 0xEF, 0xBF, 0xBD]
    ∧ jsonDecodeString (quoteString [0xFF]) = some [0xEF, 0xBF, 0xBD] := by decide

/-! non-vacuity / witnesses: `<é😀\u2028\x7f"` -/
private def sample : Str :=
  [0x3C, 0xC3, 0xA9, 0xF0, 0x9F, 0x98, 0x80, 0xE2, 0x80, 0xA8, 0x7F, 0x22]
example : validUtf8 sample = true := by decide
/-- HTML mode writes `\u003c`, U+2028 is always escaped, DEL and runes are literal -/
example : jsonEncodeString true sample =
    [0x22, 0x5C, 0x75, 0x30, 0x30, 0x33, 0x63, 0xC3, 0xA9, 0xF0, 0x9F, 0x98, 0x80,
     0x5C, 0x75, 0x32, 0x30, 0x32, 0x38, 0x7F, 0x5C, 0x22, 0x22] := by decide
/-- Python writes the non-BMP rune as a surrogate pair `\ud83d\ude00`, DEL as `\u007f` -/
example : pyEncodeString [0xF0, 0x9F, 0x98, 0x80, 0x7F] =
    [0x22, 0x5C, 0x75, 0x64, 0x38, 0x33, 0x64, 0x5C, 0x75, 0x64, 0x65, 0x30, 0x30,
     0x5C, 0x75, 0x30, 0x30, 0x37, 0x66, 0x22] := by decide
/-- … which both decoders read as the rune (hypothesis of `string_leaf_any_json_writer`) -/
example : jsonDecodeString (pyEncodeString sample) = some sample
    ∧ unquoteBytes (pyEncodeString sample) = some sample := by decide
/-- upper-case hex surrogate pair, `\/`, and a lone surrogate (U+FFFD on both paths) -/
example : jsonDecodeString [0x22, 0x5C, 0x75, 0x44, 0x38, 0x33, 0x44, 0x5C, 0x75, 0x44, 0x45, 0x30, 0x30, 0x5C, 0x2F, 0x22]
      = some [0xF0, 0x9F, 0x98, 0x80, 0x2F]
    ∧ unquoteBytes [0x22, 0x5C, 0x75, 0x44, 0x38, 0x33, 0x44, 0x5C, 0x75, 0x44, 0x45, 0x30, 0x30, 0x5C, 0x2F, 0x22]
      = some [0xF0, 0x9F, 0x98, 0x80, 0x2F]
    ∧ jsonDecodeString [0x22, 0x5C, 0x75, 0x64, 0x38, 0x30, 0x30, 0x41, 0x22] = some [0xEF, 0xBF, 0xBD, 0x41]
    ∧ unquoteBytes [0x22, 0x5C, 0x75, 0x64, 0x38, 0x30, 0x30, 0x41, 0x22] = some [0xEF, 0xBF, 0xBD, 0x41] := by
  decide
/-- the agreement is one-directional: `\x41` and a raw control byte are MRO-only -/
example : jsonDecodeString [0x22, 0x5C, 0x78, 0x34, 0x31, 0x22] = none
    ∧ unquoteBytes [0x22, 0x5C, 0x78, 0x34, 0x31, 0x22] = some [0x41]
    ∧ jsonDecodeString [0x22, 0x01, 0x22] = none := by decide

end StringLeaf


/-! ## invocation bytes: the raw-message writers

Arguments travel between stages as `json.RawMessage` and are written into `_args`, `_outs`,
`_invocation` data by concatenation: `LazyArgumentMap.encodeJSON` / `MarshalerMap.encodeJSON`
(`{`, keys in `sort.Strings` order written by `json.Marshal`, `:`, the raw value, `,`, `}`),
`marshallerArray.encodeJSON`, and `MapExp` / `ResolvedBindingMap` `encodeJSON` (keys by
`quoteString`).  Models: `JsonBytes.encodeRawMap html`, `encodeRawArr`; `Den p j` = the bytes `p`
are read (by the byte-level model of `encoding/json`'s value grammar, `JsonBytes.parseV`) as the
tree `j`. -/
section InvocationBytes
open Martian.JsonBytes
open Martian.ShellQuote (validUtf8)

/-- a map of raw messages, each of which denotes a tree, written with sorted keys – by either key
writer – denotes the object of those trees under the same keys in sorted order: nothing is lost
or altered by the splicing -/
theorem invocation_map_bytes (html : Bool) (m : List (Martian.Lexer.Bytes × Martian.Lexer.Bytes))
    (tree : Martian.Lexer.Bytes × Martian.Lexer.Bytes → Martian.Json.J)
    (h : ∀ kv, kv ∈ m → validUtf8 kv.1 = true ∧ Den kv.2 (tree kv)) :
    Den (encodeRawMap html m) (.obj ((sortByKey m).map fun kv => (kv.1, tree kv))) :=
  den_encodeRawMap html m tree h

/-- … and a slice of raw messages denotes the array of their trees -/
theorem invocation_array_bytes (xs : List Martian.Lexer.Bytes) (tree : Martian.Lexer.Bytes → Martian.Json.J)
    (h : ∀ p, p ∈ xs → Den p (tree p)) : Den (encodeRawArr xs) (.arr (xs.map tree)) :=
  den_encodeRawArr xs tree h

/-- the written bytes are a whole JSON document for that tree (`json.Unmarshal` succeeds on them) -/
theorem invocation_map_parses (html : Bool) (m : List (Martian.Lexer.Bytes × Martian.Lexer.Bytes))
    (tree : Martian.Lexer.Bytes × Martian.Lexer.Bytes → Martian.Json.J)
    (h : ∀ kv, kv ∈ m → validUtf8 kv.1 = true ∧ Den kv.2 (tree kv)) :
    parseTop (encodeRawMap html m) = some (.obj ((sortByKey m).map fun kv => (kv.1, tree kv))) :=
  parseTop_of_den (den_encodeRawMap html m tree h)

/-- non-vacuity: `{"b":[1, 2],"a<":null}` as `LazyArgumentMap` writes it: keys sorted, `<` escaped
by `json.Marshal`, the raw value `[1, 2]` spliced with its white space -/
example : encodeRawMap true [([0x62], [0x5B, 0x31, 0x2C, 0x20, 0x32, 0x5D]), ([0x61, 0x3C], [0x6E, 0x75, 0x6C, 0x6C])]
    = [0x7B, 0x22, 0x61, 0x5C, 0x75, 0x30, 0x30, 0x33, 0x63, 0x22, 0x3A, 0x6E, 0x75, 0x6C, 0x6C, 0x2C,
       0x22, 0x62, 0x22, 0x3A, 0x5B, 0x31, 0x2C, 0x20, 0x32, 0x5D, 0x7D] := by decide +kernel
example : (parseTop (encodeRawMap true [([0x62], [0x5B, 0x31, 0x2C, 0x20, 0x32, 0x5D]), ([0x61, 0x3C], [0x6E, 0x75, 0x6C, 0x6C])])).map printJ
    = some (printJ (.obj [([0x61, 0x3C], .null), ([0x62], .arr [.num (.int 1), .num (.int 2)])])) := by
  decide +kernel

end InvocationBytes

end Props.C16
