/-
C02 tie: `Metadata._getStateNoLock` TRANSLATED from martian/core/metadata.go on
every run (`Gen.tr_getStateNoLock`, extract/translate*.go) is the model's
`metaState`.  The translated term is a function of the predicate "this sentinel
file exists" (Go: `self._existsNoLock(Name)`, names as strings) to the pair
`(MetadataState name, found)`.
-/
import Martian.Sched
import Gen.Facts
import Proofs.TieDefs

namespace Props.C02
open Martian.Sched Proofs.Tie

/-- For EVERY existence predicate: the translated Go function returns the state
the model computes from the set of sentinels the predicate makes present
(`ssetOf`), in the Go spelling (`goState`; `none` ↦ `(Waiting, false)`). -/
theorem tr_getStateNoLock_eq_model (present : String → Bool) :
    Gen.tr_getStateNoLock present = goState (metaState (ssetOf present)) := by
  simp only [Gen.tr_getStateNoLock, metaState, ssetOf]
  repeat' split
  all_goals first | rfl | simp_all [goState]

/-- … and every set of sentinels arises that way (`presentIn`), so the equality
covers all 2^7 subsets -/
theorem tr_getStateNoLock_all_sets (x : SSet) :
    Gen.tr_getStateNoLock (presentIn x) = goState (metaState x) := by
  rw [tr_getStateNoLock_eq_model, ssetOf_presentIn]

example : Gen.tr_getStateNoLock (presentIn { complete := true, log := true, jobinfo := true }) = ("Complete", true) ∧
    Gen.tr_getStateNoLock (presentIn {}) = ("Waiting", false) := by decide

/-- FAIL CLOSED (second audit pass, X2/X3): the tie theorems of this file are about the
definition(s) TRANSLATED FROM THE TREE UNDER TEST, not about the committed default the
extractor falls back to when the source leaves the translated subset – in that
case this obligation breaks and `./check` reports it (besides the note). -/
theorem translated_from_tree_under_test : Gen.tr_getStateNoLock_extracted = true := by decide

end Props.C02
