/-
C02 — jobs start only after everything they depend on has finished; within a
fork: split before chunks before join.
PROPERTY THEOREMS ONLY (model: Martian/Sched.lean, lemmas: Proofs/Sched.lean).
All theorems quantify over every state reachable by ANY accepted history
(`Reach g s`: any graph `g`, any event list accepted by `replay`).
-/
import Martian.Sched
import Proofs.Sched
import Martian.SchedTables
import Proofs.SchedTables
import Gen.Facts

/-! ### definitional unfoldings (documentation of the model, not guarantees)
The theorems whose docstring starts with DEFINITIONAL UNFOLDING (launch_chunk_after_split, launch_join_after_chunks, complete_only_by_jobend_or_mrp) restate a guard
or a definition of the model; they stay where later theorems use them and are not cited as guarantees. -/
namespace Props.C02
open Martian.Sched

/-- Regenerated obligation: the sentinel precedence found in the current
`Metadata._getStateNoLock` is the one the model's `metaState` implements. -/
theorem precedence_matches_source : Gen.metaStatePrecedence_extracted = true ∧ Gen.metaStatePrecedence = precedenceNames := by decide

/-- Regenerated obligation: `Fork.getState` consults own metadata, join, chunks,
split in this order (the order `forkStateOf` implements). -/
theorem fork_state_order_matches_source : Gen.forkStateOrder_extracted = true ∧ Gen.forkStateOrder = forkStateOrderNames := by decide

/-! ### the transition structure of the Go state functions, regenerated

Each `…_matches_source` theorem compares a table regenerated from the Go source on every
run (extract/sched_steps.go: which condition is tested in which order and what each arm
does) with the model's table; the theorem next to it proves that the model's function IS
the interpretation of that table.  A re-ordered test, a changed condition or a changed
return value in `Fork.getState` / `Node.getState` / `Fork.stepStage` breaks the first
kind at once.  Each obligation also demands `Gen.<fact>_extracted = true`: if the extractor no
longer recognises the Go pattern (and would fall back to the committed default) the obligation
is BROKEN, not silently true. -/

/-- `Fork.getState`: its statements (own metadata: return if failed/complete/disabled;
join metadata: failed or `join_`+state; chunk loop; split metadata: failed or
`split_`+state; `Ready`), in this order -/
theorem fork_getState_steps_match_source : Gen.forkGetStateSteps_extracted = true ∧ Gen.forkGetStateSteps = forkStepsNames := by decide

/-- … the `switch` over a chunk's state inside the chunk loop … -/
theorem fork_chunk_switch_matches_source : Gen.forkChunkSwitch_extracted = true ∧ Gen.forkChunkSwitch = chunkSwitchNames := by decide

/-- … and the flags tested after the loop (`complete` before `running`). -/
theorem fork_chunk_after_matches_source : Gen.forkChunkAfter_extracted = true ∧ Gen.forkChunkAfter = chunkAfterNames := by decide

/-- the model's `forkStateOf` (= `Fork.getState`) is the interpretation of these tables:
`runSteps` walks `forkSteps`, the chunk part is `chunkSumTable` (the loop `chunkLoop`
driven by `chunkSwitch`) -/
theorem forkStateOf_is_table (fm jm sm : Option MState) (cs : List (Option MState)) :
    forkStateOf fm jm cs sm = runSteps fm jm sm (chunkSumTable cs) forkSteps :=
  forkStateOf_eq_table fm jm sm cs

/-- `Node.getState`: the `if / else if / else if` chain of its fork loop (failed → return
Failed; neither complete nor disabled → break; not disabled → disabled = false) … -/
theorem node_getState_loop_matches_source : Gen.nodeGetStateLoop_extracted = true ∧ Gen.nodeGetStateLoop = nodeLoopNames := by decide

/-- … and what follows the loop (complete&&disabled → Disabled, complete → Complete, an
unfinished prenode → Waiting, else Running); the right-hand side is computed from the
model's `nodeStateOf` on witnesses. -/
theorem node_getState_tail_matches_source : Gen.nodeGetStateTail_extracted = true ∧ Gen.nodeGetStateTail = nodeTailNames := by decide

/-- the model's fork loop `scanForks` is the interpretation of that chain
(`scanTable`: first arm of `nodeLoopTable` whose condition holds) -/
theorem scanForks_is_table (l : List FState) (d : Bool) : scanForks l d = scanTable l d :=
  scanForks_eq_table l d

/-- `Fork.stepStage`: the chain `if state == X { state = self.doY() }` in source order -/
theorem stepStage_chain_matches_source : Gen.stepStageChain_extracted = true ∧ Gen.stepStageChain = stageChainNames := by decide

/-- every scheduler action the model allows happens in a fork state to which that chain
assigns this very action (`stageAction` = first arm of the chain for the state):
a split is submitted / a split stub is written / a stage fork is disabled in `doSplit`
(state `ready`); chunks are submitted in `doChunks` (state `split_complete`); the join
is submitted in `doJoin` (state `chunks_complete`; or, no chunks defined, in the same
pass from `split_complete`); the fork's `_complete` is written in `doComplete` (state
`join_complete`) — in the last three cases unless the fork has meanwhile failed. -/
theorem scheduler_actions_follow_stepStage {s : State} {n f : Nat} :
    (launchOk s ⟨n, f, .split⟩ = true → stageAction (forkState s n f) = some .doSplit) ∧
    (mrpWriteOk s ⟨n, f, .split⟩ .complete = true →
      stageAction (forkState s n f) = some .doSplit) ∧
    (s.kind n ≠ .pipeline → mrpWriteOk s ⟨n, f, .fork⟩ .disabled = true →
      stageAction (forkState s n f) = some .doSplit) ∧
    (∀ i, launchOk s ⟨n, f, .chunk i⟩ = true →
      stageAction (forkState s n f) = some .doChunks ∨ forkState s n f = .failed) ∧
    (launchOk s ⟨n, f, .join⟩ = true →
      stageAction (forkState s n f) = some .doJoin ∨
      (s.nch n f = 0 ∧ stageAction (forkState s n f) = some .doChunks) ∨
      forkState s n f = .failed) ∧
    (s.kind n ≠ .pipeline → mrpWriteOk s ⟨n, f, .fork⟩ .complete = true →
      stageAction (forkState s n f) = some .doComplete ∨ forkState s n f = .failed) :=
  ⟨launch_split_is_doSplit, stub_split_is_doSplit, disable_is_doSplit,
   fun _ => launch_chunk_is_doChunks, launch_join_is_doJoin, fork_complete_is_doComplete⟩

/-- non-vacuity: the table-driven functions on concrete inputs -/
example : runSteps none none (some .complete) (chunkSumTable [some .complete, some .running]) forkSteps
    = .chunksRunning := by decide
example : scanTable [.complete, .chunksRunning, .failed] true = .incomplete := by decide
example : stageAction (.split .complete) = some .doChunks ∧ stageAction .chunksRunning = none := by
  decide

/-- `metaState` is "first sentinel of the precedence list that is present". -/
theorem metaState_follows_precedence (x : SSet) : metaState x = metaStateWith precedence x := by
  obtain ⟨a, b, c, d, e, f, g⟩ := x
  cases a <;> cases b <;> cases c <;> cases d <;> cases e <;> cases f <;> rfl

/-- `launch_after_prenodes`: whenever a job of node `o.n` is submitted, every
prenode `p` of that node is finished: each of its forks is complete or
disabled (so its live `Node.getState` is Complete/Disabled, not Failed). -/
theorem launch_after_prenodes {g : List NodeInfo} {s : State} {o : Obj} (hr : Reach g s)
    (hen : enabled s (.launch o) = true) :
    ∀ p ∈ s.pre o.n, nodeDone s p = true ∧
      ∀ f ∈ s.forksOf p, forkState s p f = .complete ∨ forkState s p f = .disabled := by
  intro p hp
  obtain ⟨hph, hc, _⟩ := launchOk_phase (en_launch hen)
  have hd := reach_preInv hr hph o.n hc p hp
  exact ⟨hd, fun f hf => forkState_done.mpr (nodeDone_iff.mp hd f hf)⟩

/-- DEFINITIONAL UNFOLDING (documentation of the model / of a guard, not a guarantee). `phase_order` (chunks after split): a chunk job is submitted only when the
split object of its fork is complete — in mrp's view AND on disk, with no
error/assert marker. -/
theorem launch_chunk_after_split {g : List NodeInfo} {s : State} {n f i : Nat} (hr : Reach g s)
    (hen : enabled s (.launch ⟨n, f, .chunk i⟩) = true) :
    s.st ⟨n, f, .split⟩ = some .complete ∧ (s.m ⟨n, f, .split⟩).disk.has .complete = true := by
  have hl := en_launch hen
  unfold launchOk at hl
  simp only [Bool.and_eq_true, beq_iff_eq] at hl
  have h := hl.2.1.2
  exact ⟨h, (reach_objsInv hr _).sub _ (metaState_complete h).2.2⟩

/-- DEFINITIONAL UNFOLDING (documentation of the model / of a guard, not a guarantee). `phase_order` (join after chunks): the join job is submitted only when
every chunk object of the fork is complete (in mrp's view and on disk); with
zero chunks, only when the split is complete. -/
theorem launch_join_after_chunks {g : List NodeInfo} {s : State} {n f : Nat} (hr : Reach g s)
    (hen : enabled s (.launch ⟨n, f, .join⟩) = true) :
    (∀ i, i < s.nch n f → s.st ⟨n, f, .chunk i⟩ = some .complete ∧
        (s.m ⟨n, f, .chunk i⟩).disk.has .complete = true) ∧
    (s.nch n f = 0 → s.st ⟨n, f, .split⟩ = some .complete) := by
  have hl := en_launch hen
  unfold launchOk at hl
  simp only [Bool.and_eq_true, beq_iff_eq] at hl
  have h := hl.2.2
  constructor
  · intro i hi
    have hz : ¬ s.nch n f = 0 := by omega
    simp only [hz, if_false] at h
    have := allChunksComplete_iff.mp h i hi
    exact ⟨this, (reach_objsInv hr _).sub _ (metaState_complete this).2.2⟩
  · intro hz; simpa [hz] using h

/-- DEFINITIONAL UNFOLDING (documentation of the model / of a guard, not a guarantee). `_complete` files come into existence only through a job that ended
`complete`, or through mrp's own stubs/`doComplete` under their guards: for a
split object only in a non-splitting stage whose fork was `ready`; for a join
object only in a non-splitting stage whose chunks are all complete; for the
fork itself only when its join is complete (stage) or it is a pipeline. -/
theorem complete_only_by_jobend_or_mrp {s : State} {e : Ev} {o : Obj}
    (hen : enabled s e = true) (h0 : (s.m o).disk.has .complete = false)
    (h1 : ((apply s e).m o).disk.has .complete = true) :
    e = .jobend o .complete ∨
    (e = .W o .complete ∧ s.cachedOf o.n = .running ∧
      match o.r with
      | .split => s.kind o.n = .stage ∧ forkState s o.n o.f = .ready
      | .join => s.kind o.n = .stage ∧ 0 < s.nch o.n o.f ∧
          ∀ i, i < s.nch o.n o.f → s.st ⟨o.n, o.f, .chunk i⟩ = some .complete
      | .fork => s.kind o.n = .pipeline ∨ s.st ⟨o.n, o.f, .join⟩ = some .complete
      | .chunk _ => False) := by
  rcases complete_origin hen h0 h1 with h | ⟨h, hw⟩
  · exact Or.inl h
  · refine Or.inr ⟨h, ?_⟩
    unfold mrpWriteOk at hw
    cases hr : o.r <;> simp only [hr, Bool.and_eq_true, beq_iff_eq, Bool.or_eq_true,
      decide_eq_true_eq] at hw ⊢
    · exact ⟨hw.1.2, hw.1.1.2, hw.2⟩
    · simp at hw
    · exact ⟨hw.1.1.1.1.2, hw.1.1.1.1.1.2, hw.1.2, allChunksComplete_iff.mp hw.2⟩
    · exact ⟨hw.1.1.2, hw.2⟩

/-- `done_stable`: once every fork of a node is complete/disabled it stays so
under every event of normal operation (nothing un-completes a fork; forks are
only added to unfinished nodes).  The only exception is the `fork` event while
the graph is (re)built in the loading phase: initially nodes have no forks at
all, and at a restart `RestoreForks` can give a Disabled mapped call whose
placeholder fork was disabled before its forks were known fresh forks (observed
on real histories; recorded in the ghost flag `State.reopened`). -/
theorem done_stable {g : List NodeInfo} {s : State} {e : Ev} {p : Nat} (hr : Reach g s)
    (hen : enabled s e = true) (hc : s.phase = .loading → ∀ f, e ≠ .fork p f)
    (hd : nodeDone s p = true) : nodeDone (apply s e) p = true :=
  Martian.Sched.done_stable (reach_objsInv hr) (reach_full hr) hen hc hd

/-! ### non-vacuity -/

/-- two non-splitting stages, the second consuming the first -/
def g2 : List NodeInfo := [{ kind := .stage, pre := [] }, { kind := .stage, pre := [0] }]

def h2 : List Ev :=
  [.fork 0 0, .nodestate 0 .running, .fork 1 0, .refresh,
   .W ⟨0, 0, .split⟩ .complete, .mkchunks 0 0 1, .launch ⟨0, 0, .chunk 0⟩,
   .joblog ⟨0, 0, .chunk 0⟩, .jobend ⟨0, 0, .chunk 0⟩ .complete, .refresh,
   .R ⟨0, 0, .chunk 0⟩ .complete, .W ⟨0, 0, .join⟩ .complete, .W ⟨0, 0, .fork⟩ .complete,
   .nodestate 0 .complete, .nodestate 1 .running,
   .W ⟨1, 0, .split⟩ .complete, .mkchunks 1 0 1]

/-- the history is accepted and ends in a state where the dependent's chunk can be launched -/
example : (match replay (init g2) h2 with
    | .ok s => enabled s (.launch ⟨1, 0, .chunk 0⟩) && nodeDone s 0
    | .error _ => false) = true := by decide

/-- a launch is NOT enabled before the prenode finished (same history, cut before node 0 completes) -/
example : (match replay (init g2) (h2.take 10 ++ [.nodestate 1 .running]) with
    | .ok _ => true
    | .error _ => false) = false := by decide

/-- a splitting stage: split, two chunks, join -/
def g1 : List NodeInfo := [{ kind := .splitstage, pre := [] }]

def h1 : List Ev :=
  [.fork 0 0, .nodestate 0 .running, .refresh, .launch ⟨0, 0, .split⟩,
   .joblog ⟨0, 0, .split⟩, .jobend ⟨0, 0, .split⟩ .complete, .R ⟨0, 0, .split⟩ .complete,
   .mkchunks 0 0 2, .launch ⟨0, 0, .chunk 0⟩, .launch ⟨0, 0, .chunk 1⟩,
   .joblog ⟨0, 0, .chunk 1⟩, .jobend ⟨0, 0, .chunk 1⟩ .complete,
   .joblog ⟨0, 0, .chunk 0⟩, .jobend ⟨0, 0, .chunk 0⟩ .complete,
   .R ⟨0, 0, .chunk 1⟩ .complete]

/-- with one chunk still not seen complete the join is not enabled; after it is, it is -/
example : (match replay (init g1) h1 with
    | .ok s => !enabled s (.launch ⟨0, 0, .join⟩) &&
        enabled (apply s (.R ⟨0, 0, .chunk 0⟩ .complete)) (.launch ⟨0, 0, .join⟩)
    | .error _ => false) = true := by decide

/-! A larger example: producer stage 0, a PIPELINE node 1 that returns it, and a splitting consumer 2
of the pipeline's output whose second fork is added at RUN TIME (after its map source is known).
While the pipeline is unfinished the consumer cannot be told to run and nothing of it can be
submitted; afterwards both forks can submit their split. -/
def g3p : List NodeInfo :=
  [{ kind := .stage, pre := [] }, { kind := .pipeline, pre := [0] }, { kind := .splitstage, pre := [1] }]

def h3p : List Ev :=
  [.fork 0 0, .fork 1 0, .fork 2 0, .nodestate 0 .running, .refresh,
   .W ⟨0, 0, .split⟩ .complete, .mkchunks 0 0 1, .launch ⟨0, 0, .chunk 0⟩,
   .joblog ⟨0, 0, .chunk 0⟩, .jobend ⟨0, 0, .chunk 0⟩ .complete, .R ⟨0, 0, .chunk 0⟩ .complete,
   .W ⟨0, 0, .join⟩ .complete, .W ⟨0, 0, .fork⟩ .complete, .nodestate 0 .complete,
   .nodestate 1 .running]

example : (match replay (init g3p) h3p with
    | .ok s => nodeDone s 0 && !nodeDone s 1 && !enabled s (.nodestate 2 .running) &&
               !enabled s (.launch ⟨2, 0, .split⟩)
    | .error _ => false) = true := by decide

example : (match replay (init g3p)
      (h3p ++ [.W ⟨1, 0, .fork⟩ .complete, .nodestate 1 .complete, .fork 2 1, .nodestate 2 .running]) with
    | .ok s => nodeDone s 1 && s.forksOf 2 == [0, 1] && enabled s (.launch ⟨2, 0, .split⟩) &&
               enabled s (.launch ⟨2, 1, .split⟩) && !enabled s (.fork 2 2)
    | .error _ => false) = true := by decide

end Props.C02
