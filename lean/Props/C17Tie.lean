/-
C17 tie (re-export of Props/C07Tie.lean for C17's own check):
`syntax.IsLegalUnixFilename`, TRANSLATED from martian/syntax/compile_params.go on
every run (`Gen.tr_IsLegalUnixFilename`), accepts exactly the keys the type
model's `legalName` accepts – the rule `TypedMapType.IsValidJson` applies to the
keys of directory-like typed maps (`check (.tmap t)` with `isDirMap t`).
-/
import Martian.Types
import Gen.Facts
import Props.C07Tie

namespace Props.C17
open Martian.Types

/-- for ALL byte strings: the translated Go function returns `nil` exactly when
the model's `legalName` holds -/
theorem tr_IsLegalUnixFilename_eq_legalName (name : List UInt8) :
    (Gen.tr_IsLegalUnixFilename name).isNone = legalName name :=
  Props.C07.tr_IsLegalUnixFilename_eq_model name

/-- hence: a key of a directory-like typed map is an error of validation exactly
when the translated Go function returns an error for it -/
theorem dirmap_key_error_iff (t : Ty) (k : List UInt8) (hd : isDirMap t = true) :
    (if isDirMap t && !legalName k then Verdict.error else Verdict.ok) = Verdict.error ↔
      (Gen.tr_IsLegalUnixFilename k).isSome = true := by
  rw [← tr_IsLegalUnixFilename_eq_legalName, hd]
  cases h : Gen.tr_IsLegalUnixFilename k <;> simp

example : Gen.tr_IsLegalUnixFilename [0x2E] = some "reserved name" ∧ legalName [0x2E] = false ∧
    (Gen.tr_IsLegalUnixFilename [0x61]).isNone = true ∧ legalName [0x61] = true := by decide

/-- FAIL CLOSED (second audit pass, X2/X3): the tie theorems of this file are about the
definition(s) TRANSLATED FROM THE TREE UNDER TEST, not about the committed default the
extractor falls back to when the source leaves the translated subset – in that
case this obligation breaks and `./check` reports it (besides the note). -/
theorem translated_from_tree_under_test : Gen.tr_IsLegalUnixFilename_extracted = true := by decide

end Props.C17
