/-
C01 — renaming (swapping) call ids inside one pipeline body: machinery for `den_alias`.
-/
import Martian.Dataflow

namespace Proofs.DataflowAlias
open Martian.Dataflow

/-- the transposition of two call ids (a bijection, so no freshness side conditions) -/
def swapId (a b x : String) : String :=
  if x = a then b else if x = b then a else x

theorem swapId_inj (a b x y : String) (h : swapId a b x = swapId a b y) : x = y := by
  unfold swapId at h
  by_cases hxa : x = a <;> by_cases hxb : x = b <;> by_cases hya : y = a <;> by_cases hyb : y = b <;>
    simp_all

theorem swapId_invol (a b x : String) : swapId a b (swapId a b x) = x := by
  unfold swapId
  by_cases hxa : x = a <;> by_cases hxb : x = b <;> simp_all

theorem swapId_beq (a b x y : String) : (swapId a b x == swapId a b y) = (x == y) := by
  by_cases h : x = y
  · subst h
    rw [beq_self_eq_true, beq_self_eq_true]
  · have : swapId a b x ≠ swapId a b y := fun e => h (swapId_inj a b x y e)
    rw [beq_eq_false_iff_ne.mpr this, beq_eq_false_iff_ne.mpr h]

theorem lookup_swap {β : Type} (a b c : String) (l : List (String × β)) :
    (l.map fun e => (swapId a b e.1, e.2)).lookup (swapId a b c) = l.lookup c := by
  induction l with
  | nil => rfl
  | cons x xs ih =>
    obtain ⟨k, v⟩ := x
    simp only [List.map_cons, List.lookup_cons, swapId_beq, ih]

mutual
def swapExp (a b : String) : Exp → Exp
  | .lit j => .lit j
  | .arr xs => .arr (swapList a b xs)
  | .map kvs => .map (swapFields a b kvs)
  | .struct kvs => .struct (swapFields a b kvs)
  | .self p path => .self p path
  | .ref c path => .ref (swapId a b c) path
def swapList (a b : String) : List Exp → List Exp
  | [] => []
  | e :: es => swapExp a b e :: swapList a b es
def swapFields (a b : String) : List (String × Exp) → List (String × Exp)
  | [] => []
  | (k, e) :: es => (k, swapExp a b e) :: swapFields a b es
end

def swapEnv (a b : String) (env : Env) : Env :=
  { env with calls := env.calls.map fun e => (swapId a b e.1, e.2) }

def swapCall (a b : String) (c : Call) : Call :=
  { id := swapId a b c.id
    callee := c.callee
    mapped := c.mapped
    binds := c.binds.map fun bd => ⟨bd.param, bd.split, swapExp a b bd.exp⟩
    disabled := c.disabled.map fun d => (d.1, swapExp a b d.2) }

theorem callTy_swap (a b c : String) (env : Env) :
    (swapEnv a b env).callTy (swapId a b c) = env.callTy c := by
  simp [Env.callTy, swapEnv, lookup_swap]

theorem callVal_swap (a b c : String) (env : Env) :
    (swapEnv a b env).callVal (swapId a b c) = env.callVal c := by
  simp [Env.callVal, swapEnv, lookup_swap]

theorem selfTy_swap (a b p : String) (env : Env) : (swapEnv a b env).selfTy p = env.selfTy p := rfl

mutual
theorem eval_swap (st : StructTable) (a b : String) (env : Env) :
    ∀ e : Exp, eval st (swapEnv a b env) (swapExp a b e) = eval st env e
  | .lit j => by simp [swapExp, eval]
  | .arr xs => by simp [swapExp, eval, evalList_swap st a b env xs]
  | .map kvs => by simp [swapExp, eval, evalFields_swap st a b env kvs]
  | .struct kvs => by simp [swapExp, eval, evalFields_swap st a b env kvs]
  | .self p path => by simp [swapExp, eval, selfTy_swap]; rfl
  | .ref c path => by simp [swapExp, eval, callTy_swap, callVal_swap]
theorem evalList_swap (st : StructTable) (a b : String) (env : Env) :
    ∀ es : List Exp, evalList st (swapEnv a b env) (swapList a b es) = evalList st env es
  | [] => by simp [swapList, evalList]
  | e :: es => by simp [swapList, evalList, eval_swap st a b env e, evalList_swap st a b env es]
theorem evalFields_swap (st : StructTable) (a b : String) (env : Env) :
    ∀ kvs : List (String × Exp),
      evalFields st (swapEnv a b env) (swapFields a b kvs) = evalFields st env kvs
  | [] => by simp [swapFields, evalFields]
  | (k, e) :: es => by
    simp [swapFields, evalFields, eval_swap st a b env e, evalFields_swap st a b env es]
end

theorem splitMode_swap (st : StructTable) (a b : String) (env : Env) (e : Exp) :
    splitMode st (swapEnv a b env) (swapExp a b e) = splitMode st env e := by
  cases e <;> simp [swapExp, splitMode, callTy_swap, selfTy_swap]

theorem find_split_swap (a b : String) (binds : List Bind) :
    (binds.map fun bd => (⟨bd.param, bd.split, swapExp a b bd.exp⟩ : Bind)).find? (·.split)
      = (binds.find? (·.split)).map fun bd => ⟨bd.param, bd.split, swapExp a b bd.exp⟩ := by
  induction binds with
  | nil => rfl
  | cons x xs ih =>
    simp only [List.map_cons, List.find?_cons]
    cases hx : x.split <;> simp [ih, hx]

theorem firstSplit_swap (a b : String) (c : Call) :
    firstSplit (swapCall a b c) = (firstSplit c).map (swapExp a b) := by
  unfold firstSplit
  simp only [swapCall, find_split_swap]
  cases c.binds.find? (·.split) with
  | some bd => simp
  | none =>
    simp only [Option.map_none]
    cases c.disabled with
    | none => simp
    | some d =>
      obtain ⟨s, e⟩ := d
      cases s <;> simp

theorem callMode_swap (st : StructTable) (a b : String) (env : Env) (c : Call) :
    callMode st (swapEnv a b env) (swapCall a b c) = callMode st env c := by
  unfold callMode
  rw [firstSplit_swap]
  have : (swapCall a b c).mapped = c.mapped := rfl
  rw [this]
  cases firstSplit c <;> simp [splitMode_swap]

theorem find_param_swap (a b : String) (binds : List Bind) (p : String) :
    (binds.map fun bd => (⟨bd.param, bd.split, swapExp a b bd.exp⟩ : Bind)).find? (fun bd => bd.param == p)
      = (binds.find? (fun bd => bd.param == p)).map fun bd => ⟨bd.param, bd.split, swapExp a b bd.exp⟩ := by
  induction binds with
  | nil => rfl
  | cons x xs ih =>
    simp only [List.map_cons, List.find?_cons]
    cases hx : (x.param == p) <;> simp [ih]

theorem argVals_swap (st : StructTable) (a b : String) (env : Env) (ins : List Param) (c : Call) :
    argVals st (swapEnv a b env) ins (swapCall a b c) = argVals st env ins c := by
  unfold argVals
  apply List.map_congr_left
  intro p _
  simp only [swapCall, find_param_swap]
  cases c.binds.find? (fun bd => bd.param == p.name) with
  | none => simp
  | some bd => simp [eval_swap]

theorem filter_split_vals (st : StructTable) (a b : String) (env : Env) (binds : List Bind) :
    ((binds.map fun bd => (⟨bd.param, bd.split, swapExp a b bd.exp⟩ : Bind)).filter (·.split)).map
        (fun bd => eval st (swapEnv a b env) bd.exp)
      = (binds.filter (·.split)).map (fun bd => eval st env bd.exp) := by
  induction binds with
  | nil => rfl
  | cons x xs ih =>
    cases hx : x.split <;> simp [hx, ih, eval_swap]

theorem splitVals_swap (st : StructTable) (a b : String) (env : Env) (c : Call) :
    splitVals st (swapEnv a b env) (swapCall a b c) = splitVals st env c := by
  unfold splitVals
  have h1 := filter_split_vals st a b env c.binds
  simp only [swapCall] at h1 ⊢
  rw [h1]
  cases c.disabled with
  | none => rfl
  | some d =>
    obtain ⟨s, e⟩ := d
    cases s <;> simp [eval_swap]

theorem callIndices_swap (st : StructTable) (a b : String) (env : Env) (c : Call) :
    callIndices st (swapEnv a b env) (swapCall a b c) = callIndices st env c := by
  unfold callIndices
  rw [splitVals_swap]

theorem splitsAgree_swap (st : StructTable) (a b : String) (env : Env) (c : Call) :
    splitsAgree st (swapEnv a b env) (swapCall a b c) = splitsAgree st env c := by
  unfold splitsAgree
  rw [splitVals_swap]

/-! ## example objects for the non-vacuity examples of Props/C01.lean -/

def tInt : Ty := ⟨"int", 0, 0⟩
def tInts : Ty := ⟨"int", 0, 1⟩

/-- GEN / ECHO stages, INNER maps ECHO statically over [10,20,30], TOP maps INNER
over GEN's run-time output. -/
def exProg : Program :=
  { structs := []
    callables :=
      [ ("GEN", .stage [⟨"what", tInts⟩] [⟨"result", tInts⟩]),
        ("ECHO", .stage [⟨"what", tInt⟩, ⟨"k", tInt⟩] [⟨"result", tInt⟩]),
        ("INNER", .pipeline [⟨"v", tInt⟩] [⟨"r", tInts⟩]
          [ { id := "ECHO", callee := "ECHO", mapped := true,
              binds := [⟨"what", false, .self "v" []⟩,
                        ⟨"k", true, .arr [.lit (.atom "10"), .lit (.atom "20"), .lit (.atom "30")]⟩],
              disabled := none } ]
          [("r", .ref "ECHO" ["result"])]),
        ("TOP", .pipeline [⟨"xs", tInts⟩] [⟨"r", ⟨"int", 0, 2⟩⟩]
          [ { id := "GEN", callee := "GEN", mapped := false,
              binds := [⟨"what", false, .self "xs" []⟩], disabled := none },
            { id := "INNER", callee := "INNER", mapped := true,
              binds := [⟨"v", true, .ref "GEN" ["result"]⟩], disabled := none } ]
          [("r", .ref "INNER" ["r"])]) ]
    top := { id := "TOP", callee := "TOP", mapped := false,
             binds := [⟨"xs", false, .arr [.lit (.atom "1"), .lit (.atom "2")]⟩], disabled := none } }

/-- echo oracle: GEN returns its input (here [1,2]); ECHO returns `what` -/
def exOracle : Oracle := fun k =>
  match k.path, k.forks with
  | ["TOP", "GEN"], [] => some (.obj [("result", .arr [.atom "1", .atom "2"])])
  | ["TOP", "INNER", "ECHO"], [("INNER", .i 0), _] => some (.obj [("result", .atom "1")])
  | ["TOP", "INNER", "ECHO"], [("INNER", .i 1), _] => some (.obj [("result", .atom "2")])
  | _, _ => none

def exAliasCall (id x : String) : Call :=
  { id := id, callee := "S", mapped := false,
    binds := [⟨"x", false, .ref x ["o"]⟩, ⟨"y", false, .ref "C" []⟩], disabled := none }

end Proofs.DataflowAlias
