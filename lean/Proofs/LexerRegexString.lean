import Proofs.LexerRegex
import Proofs.RegexOrder

/-!
The string rule.  Proved here: every prefix the regex of `tokStringRule`
matches is returned by the hand-written `matchString` (so the totality theorem
for `unquoteBytes` applies to what Go's regexp returns).  The converse
inclusion is not proved (see Props/C08.lean `string_rule_regex_sound_partial`).
-/
namespace Martian.LexerRegex
open Martian.Regex

def hexR : Ranges := [(0x30, 0x39), (0x41, 0x46), (0x61, 0x66)]

def simpleEscR : Ranges :=
  [(97, 97), (98, 98), (102, 102), (110, 110), (114, 114), (116, 116), (118, 118), (92, 92), (34, 34), (47, 47)]

def escRe : Re :=
  .alt (.cls simpleEscR)
  (.alt (.rep (.cls [(48, 55)]) 3 (some 3))
  (.alt (.cat (.cls [(120, 120)]) (.rep (.cls hexR) 2 (some 2)))
  (.alt (.cat (.cls [(117, 117)]) (.rep (.cls hexR) 4 (some 4)))
        (.cat (.cls [(85, 85)]) (.rep (.cls hexR) 8 (some 8))))))

def itemRe : Re := .alt (.ncls [(92, 92), (34, 34)]) (.cat (.cls [(92, 92)]) escRe)

def stringRe : Re := .cat .bot (.cat (.cls [(34, 34)]) (.cat (.rep itemRe 0 none) (.cls [(34, 34)])))

/-- a byte the string body loop copies: not `"` and not `\` -/
def plain (b : UInt8) : Bool := !(b == 0x22) && !(b == 0x5C)

/-! ### `scanBody`, one item at a time -/

theorem scanBody_quote (f : Nat) (r : Bytes) : Lexer.scanBody (f + 1) (0x22 :: r) = some [] := by
  simp [Lexer.scanBody]

theorem scanBody_plain (f : Nat) (c : UInt8) (r : Bytes) (hc : plain c = true) :
    Lexer.scanBody (f + 1) (c :: r) = (Lexer.scanBody f r).map (c :: ·) := by
  simp only [plain, Bool.and_eq_true, Bool.not_eq_true'] at hc
  simp [Lexer.scanBody, hc.1, hc.2]

theorem scanBody_run : ∀ (l : Bytes) (f : Nat) (tl : Bytes), (∀ c ∈ l, plain c = true) →
    Lexer.scanBody (f + l.length) (l ++ tl) = (Lexer.scanBody f tl).map (l ++ ·) := by
  intro l
  induction l with
  | nil => intro f tl _; simp
  | cons c r ih =>
    intro f tl h
    have e : f + (c :: r).length = (f + r.length) + 1 := by simp; omega
    rw [e, List.cons_append, scanBody_plain _ c _ (h c (by simp)), ih f tl (fun x hx => h x (by simp [hx]))]
    cases Lexer.scanBody f tl <;> simp

theorem scanBody_esc (f : Nat) (c2 : UInt8) (k : Nat) (hex : Bool) (args tl : Bytes)
    (hr : Lexer.ruleEsc c2 = some (k, hex)) (hl : args.length = k) (hd : Lexer.digitsOK hex args = true) :
    Lexer.scanBody (f + 1) (0x5C :: c2 :: (args ++ tl)) =
      (Lexer.scanBody f tl).map (fun body => 0x5C :: c2 :: (args ++ body)) := by
  have ht : (args ++ tl).take k = args := by rw [← hl]; simp
  have hdr : (args ++ tl).drop k = tl := by rw [← hl]; simp
  simp [Lexer.scanBody, hr, ht, hdr, hl, hd]

theorem scanBody_mono : ∀ (f g : Nat) (s b : Bytes), f ≤ g → Lexer.scanBody f s = some b →
    Lexer.scanBody g s = some b := by
  intro f
  induction f with
  | zero => intro g s b _ h; simp [Lexer.scanBody] at h
  | succ f ih =>
    intro g s b hg h
    cases g with
    | zero => omega
    | succ g =>
      cases s with
      | nil => simp [Lexer.scanBody] at h
      | cons c r =>
        unfold Lexer.scanBody at h ⊢
        by_cases hq : (c == 0x22) = true
        · simp only [hq, if_true] at h ⊢; exact h
        · simp only [hq, Bool.false_eq_true, if_false] at h ⊢
          by_cases hb : (c == 0x5C) = true
          · simp only [hb, if_true] at h ⊢
            cases r with
            | nil => simp at h
            | cons c2 r2 =>
              simp only at h ⊢
              cases hr : Lexer.ruleEsc c2 with
              | none => simp [hr] at h
              | some kh =>
                obtain ⟨k, hex⟩ := kh
                simp only [hr] at h ⊢
                split at h
                · rename_i hcond
                  rw [if_pos hcond]
                  cases hs : Lexer.scanBody f (r2.drop k) with
                  | none => simp [hs] at h
                  | some b' =>
                    rw [ih g _ _ (by omega) hs]
                    simpa [hs] using h
                · cases h
          · simp only [hb, Bool.false_eq_true, if_false] at h ⊢
            cases hs : Lexer.scanBody f r with
            | none => simp [hs] at h
            | some b' =>
              rw [ih g _ _ (by omega) hs]
              simpa [hs] using h

theorem scanBody_mono' {f g : Nat} {s b : Bytes} (hg : f ≤ g) (h : Lexer.scanBody f s = some b) :
    Lexer.scanBody g s = some b := scanBody_mono f g s b hg h

/-- one item of a string body -/
inductive Item : Bytes → Prop
  | run (l : Bytes) : l ≠ [] → (∀ c ∈ l, plain c = true) → Item l
  | esc (c2 : UInt8) (k : Nat) (hex : Bool) (args : Bytes) : Lexer.ruleEsc c2 = some (k, hex) →
      args.length = k → Lexer.digitsOK hex args = true → Item (0x5C :: c2 :: args)

theorem scanBody_item {w1 : Bytes} (hi : Item w1) (f : Nat) (tl body : Bytes)
    (h : Lexer.scanBody f tl = some body) :
    Lexer.scanBody (f + w1.length) (w1 ++ tl) = some (w1 ++ body) := by
  cases hi with
  | run _ _ hp => rw [scanBody_run w1 f tl hp, h]; rfl
  | esc c2 k hex args hr hl hd =>
    have e : f + (0x5C :: c2 :: args).length = (f + (args.length + 1)) + 1 := by simp; omega
    have hm := scanBody_mono' (f := f) (g := f + (args.length + 1)) (by omega) h
    rw [e]
    simp only [List.cons_append]
    rw [scanBody_esc _ c2 k hex args tl hr hl hd, hm]
    rfl

set_option maxRecDepth 100000 in
theorem ge80_plain : ∀ b : UInt8, (0x80 ≤ b) → plain b = true := by
  apply forall_byte; decide

set_option maxRecDepth 100000 in
theorem cont_plain : ∀ b : UInt8, isCont b = true → plain b = true := by
  apply forall_byte; decide

/-- the bytes of a non-ASCII rune as `utf8.DecodeRune` delimits it (an invalid
byte alone, or a lead byte with its continuation bytes) are all ≥ 0x80 -/
theorem rune_plain (c : UInt8) (r : Bytes) (hc : ¬ c < 0x80) :
    (c :: r).take (runeLen (c :: r)) ≠ [] ∧ ∀ b ∈ (c :: r).take (runeLen (c :: r)), plain b = true := by
  have hcp : plain c = true := ge80_plain c (by
    rw [UInt8.le_iff_toNat_le]; rw [UInt8.lt_iff_toNat_lt] at hc; simp at hc ⊢; omega)
  have one : ∀ n, n = 1 → (c :: r).take n ≠ [] ∧ ∀ b ∈ (c :: r).take n, plain b = true := by
    intro n hn; subst hn; simp [hcp]
  simp only [runeLen, decodeRune]
  repeat' split
  all_goals first
    | exact one _ rfl
    | (rename_i hb; simp [hcp, cont_plain _ hb]; done)
    | (rename_i hb; simp only [Bool.and_eq_true, decide_eq_true_eq] at hb
       simp [hcp, cont_plain _ hb.2]
       exact ge80_plain _ (UInt8.le_trans (by decide) hb.1.1))
    | (rename_i hb; simp only [Bool.and_eq_true, decide_eq_true_eq] at hb
       simp [hcp, cont_plain _ hb.2, cont_plain _ hb.1.2]
       exact ge80_plain _ (UInt8.le_trans (by decide) hb.1.1.1))

/-! ### from the regex to items -/

set_option maxRecDepth 100000 in
theorem ncls_plain : ∀ c : UInt8, inR [(92, 92), (34, 34)] c = false → plain c = true := by
  apply forall_byte; decide

set_option maxRecDepth 100000 in
theorem cok_bs : ∀ c : UInt8, cok [(92, 92)] c = true → c = 0x5C := by
  apply forall_byte; decide

set_option maxRecDepth 100000 in
theorem cok_quote : ∀ c : UInt8, cok [(34, 34)] c = true → c = 0x22 := by
  apply forall_byte; decide

set_option maxRecDepth 100000 in
theorem esc_simple : ∀ c : UInt8, cok simpleEscR c = true → Lexer.ruleEsc c = some (0, true) := by
  apply forall_byte; decide

set_option maxRecDepth 100000 in
theorem esc_oct : ∀ c : UInt8, cok [(48, 55)] c = true → Lexer.ruleEsc c = some (2, false) ∧ Lexer.isOct c = true := by
  apply forall_byte; decide

set_option maxRecDepth 100000 in
theorem esc_x : ∀ c : UInt8, cok [(120, 120)] c = true → Lexer.ruleEsc c = some (2, true) := by
  apply forall_byte; decide

set_option maxRecDepth 100000 in
theorem esc_u : ∀ c : UInt8, cok [(117, 117)] c = true → Lexer.ruleEsc c = some (4, true) := by
  apply forall_byte; decide

set_option maxRecDepth 100000 in
theorem esc_U : ∀ c : UInt8, cok [(85, 85)] c = true → Lexer.ruleEsc c = some (8, true) := by
  apply forall_byte; decide

set_option maxRecDepth 100000 in
theorem cok_hex : ∀ c : UInt8, cok hexR c = true → Lexer.isHex c = true := by
  apply forall_byte; decide

theorem digitsOK_hex (args : Bytes) (h : ∀ c ∈ args, cok hexR c = true) : Lexer.digitsOK true args = true := by
  simp only [Lexer.digitsOK, if_true, List.all_eq_true]
  intro c hc; exact cok_hex c (h c hc)

/-- `c hex{n}` with `ruleEsc c = (n, hex)` is an escape item -/
theorem hexEsc_item {pre w post : Bytes} {lr : Ranges} {n : Nat}
    (hlr : ∀ c, cok lr c = true → Lexer.ruleEsc c = some (n, true))
    (h : Matches (.cat (.cls lr) (.rep (.cls hexR) n (some n))) pre w post) : Item (0x5C :: w) := by
  obtain ⟨l, args, rfl, hl, hargs⟩ := h
  obtain ⟨c, rfl, hc⟩ := (Matches_cls_iff _ _ _ _).mp hl
  obtain ⟨h1, h2, h3⟩ := (Matches_rep_cls _ _ _ _ _ _).mp hargs
  have h2 := h2 n rfl
  exact Item.esc c n true args (hlr c hc) (by omega) (digitsOK_hex args h3)

theorem item_of_matches {pre w post : Bytes} (h : Matches itemRe pre w post) : Item w := by
  rcases h with h | h
  · obtain ⟨c, r, hwp, h | h⟩ := h
    · obtain ⟨_, hin, rfl⟩ := h
      exact Item.run [c] (by simp) (by intro x hx; simp only [List.mem_singleton] at hx; rw [hx]; exact ncls_plain c hin)
    · obtain ⟨hge, rfl⟩ := h
      exact Item.run _ (rune_plain c r hge).1 (rune_plain c r hge).2
  · obtain ⟨bs, e, rfl, hbs, he⟩ := h
    obtain ⟨b, rfl, hb⟩ := (Matches_cls_iff _ _ _ _).mp hbs
    have := cok_bs b hb
    subst this
    rcases he with he | he | he | he | he
    · obtain ⟨c2, rfl, hc2⟩ := (Matches_cls_iff _ _ _ _).mp he
      exact Item.esc c2 0 true [] (esc_simple c2 hc2) rfl rfl
    · obtain ⟨h1, h2, h3⟩ := (Matches_rep_cls _ _ _ _ _ _).mp he
      have h2 := h2 3 rfl
      match e, h1, h2, h3 with
      | [o0, o1, o2], _, _, h3 =>
        refine Item.esc o0 2 false [o1, o2] (esc_oct o0 (h3 o0 (by simp))).1 rfl ?_
        simp [Lexer.digitsOK, (esc_oct o1 (h3 o1 (by simp))).2, (esc_oct o2 (h3 o2 (by simp))).2]
    · exact hexEsc_item esc_x he
    · exact hexEsc_item esc_u he
    · exact hexEsc_item esc_U he

theorem scanBody_items : ∀ (k : Nat) (pre body rest : Bytes), IterN (Matches itemRe) k pre body rest →
    ∀ tail, ∃ f, f ≤ body.length + 1 ∧ Lexer.scanBody f (body ++ 0x22 :: tail) = some body := by
  intro k
  induction k with
  | zero =>
    intro pre body rest h tail
    simp only [IterN] at h
    subst h
    exact ⟨1, by simp, by simp [Lexer.scanBody]⟩
  | succ k ih =>
    intro pre body rest h tail
    obtain ⟨w1, w2, rfl, hm, hit⟩ := h
    obtain ⟨f2, hf2, hs2⟩ := ih _ _ _ hit tail
    refine ⟨f2 + w1.length, by simp only [List.length_append]; omega, ?_⟩
    rw [List.append_assoc]
    exact scanBody_item (item_of_matches hm) f2 _ _ hs2

/-- Every prefix the string rule's regex matches is what `matchString` returns. -/
theorem string_matches_sound (w post : Bytes) (h : Matches stringRe [] w post) :
    Lexer.matchString (w ++ post) = some w := by
  unfold stringRe at h
  obtain ⟨w0, w1, rfl, ⟨rfl, _⟩, q1, w2, rfl, hq1, body, q2, rfl, hbody, hq2⟩ := h
  obtain ⟨c1, rfl, hc1⟩ := (Matches_cls_iff _ _ _ _).mp hq1
  obtain ⟨c2, rfl, hc2⟩ := (Matches_cls_iff _ _ _ _).mp hq2
  have := cok_quote c1 hc1; subst this
  have := cok_quote c2 hc2; subst this
  obtain ⟨k, _, _, hit⟩ := hbody
  obtain ⟨f, hf, hs⟩ := scanBody_items k _ _ _ hit post
  have hs' : Lexer.scanBody ((body ++ 0x22 :: post).length + 1) (body ++ 0x22 :: post) = some body :=
    scanBody_mono' (by simp only [List.length_append, List.length_cons]; omega) hs
  simp only [List.nil_append, List.cons_append, List.append_assoc, Lexer.matchString, hs']
  rfl

theorem pmatch_stringRe_sound (s w : Bytes) (h : pmatch stringRe s = some w) :
    Lexer.matchString s = some w := by
  obtain ⟨post, rfl, hm⟩ := pmatch_sound h
  exact string_matches_sound w post hm

/-! ### the converse: what `matchString` returns is matched by the regex -/

set_option maxRecDepth 100000 in
theorem ruleEsc_cases : ∀ c : UInt8, ∀ kh, Lexer.ruleEsc c = some kh →
    (kh = (0, true) ∧ cok simpleEscR c = true) ∨ (kh = (2, false) ∧ cok [(48, 55)] c = true) ∨
    (kh = (2, true) ∧ cok [(120, 120)] c = true) ∨ (kh = (4, true) ∧ cok [(117, 117)] c = true) ∨
    (kh = (8, true) ∧ cok [(85, 85)] c = true) := by
  apply forall_byte
  intro n kh h
  revert kh
  revert n
  decide

set_option maxRecDepth 100000 in
theorem hex_cok : ∀ c : UInt8, Lexer.isHex c = true → cok hexR c = true := by
  apply forall_byte; decide

set_option maxRecDepth 100000 in
theorem oct_cok : ∀ c : UInt8, Lexer.isOct c = true → cok [(48, 55)] c = true := by
  apply forall_byte; decide

set_option maxRecDepth 100000 in
theorem plain_ascii : ∀ c : UInt8, plain c = true → inR [(92, 92), (34, 34)] c = false := by
  apply forall_byte; decide

theorem digitsOK_cok_hex (args : Bytes) (h : Lexer.digitsOK true args = true) : ∀ c ∈ args, cok hexR c = true := by
  simp only [Lexer.digitsOK, if_true, List.all_eq_true] at h
  intro c hc; exact hex_cok c (h c hc)

theorem digitsOK_cok_oct (args : Bytes) (h : Lexer.digitsOK false args = true) :
    ∀ c ∈ args, cok [(48, 55)] c = true := by
  simp only [Lexer.digitsOK, Bool.false_eq_true, if_false, List.all_eq_true] at h
  intro c hc; exact oct_cok c (h c hc)

theorem rep_cls_exact {rs : Ranges} {n : Nat} {pre w post : Bytes} (hl : w.length = n)
    (h : ∀ c ∈ w, cok rs c = true) : Matches (.rep (.cls rs) n (some n)) pre w post :=
  (Matches_rep_cls _ _ _ _ _ _).mpr ⟨by omega, (by intro M hM; injection hM with hM; omega), h⟩

/-- an escape `\c2 args` that `scanBody` accepts is matched by the escape
alternatives of the regex -/
theorem esc_matches (c2 : UInt8) (k : Nat) (hex : Bool) (args pre post : Bytes)
    (hr : Lexer.ruleEsc c2 = some (k, hex)) (hl : args.length = k) (hd : Lexer.digitsOK hex args = true) :
    Matches itemRe pre (0x5C :: c2 :: args) post := by
  have hbs : Matches (.cls [(92, 92)]) pre [0x5C] ((c2 :: args) ++ post) :=
    (Matches_cls_iff _ _ _ _).mpr ⟨0x5C, rfl, by decide⟩
  refine Or.inr ⟨[0x5C], c2 :: args, rfl, hbs, ?_⟩
  have hcls : ∀ (rs : Ranges) (p q : Bytes), cok rs c2 = true → Matches (.cls rs) p [c2] q :=
    fun rs p q h => (Matches_cls_iff _ _ _ _).mpr ⟨c2, rfl, h⟩
  rcases ruleEsc_cases c2 (k, hex) hr with ⟨e, hc⟩ | ⟨e, hc⟩ | ⟨e, hc⟩ | ⟨e, hc⟩ | ⟨e, hc⟩ <;>
    (injection e with e1 e2; subst e1; subst e2)
  · have : args = [] := List.length_eq_zero_iff.mp hl
    subst this
    exact Or.inl (hcls _ _ _ hc)
  · refine Or.inr (Or.inl ?_)
    refine (Matches_rep_cls _ _ _ _ _ _).mpr ⟨by simp [hl], (by intro M hM; injection hM with hM; simp [hl]; omega), ?_⟩
    intro c hcm
    simp only [List.mem_cons] at hcm
    rcases hcm with rfl | hcm
    · exact hc
    · exact digitsOK_cok_oct args hd c hcm
  · exact Or.inr (Or.inr (Or.inl ⟨[c2], args, rfl, hcls _ _ _ hc, rep_cls_exact hl (digitsOK_cok_hex args hd)⟩))
  · exact Or.inr (Or.inr (Or.inr (Or.inl ⟨[c2], args, rfl, hcls _ _ _ hc, rep_cls_exact hl (digitsOK_cok_hex args hd)⟩)))
  · exact Or.inr (Or.inr (Or.inr (Or.inr ⟨[c2], args, rfl, hcls _ _ _ hc, rep_cls_exact hl (digitsOK_cok_hex args hd)⟩)))

theorem scanBody_run_inv (l : Bytes) (f : Nat) (tl body : Bytes) (hp : ∀ c ∈ l, plain c = true)
    (h : Lexer.scanBody (f + l.length) (l ++ tl) = some body) :
    ∃ b, Lexer.scanBody f tl = some b ∧ body = l ++ b := by
  rw [scanBody_run l f tl hp] at h
  cases hs : Lexer.scanBody f tl with
  | none => rw [hs] at h; cases h
  | some b =>
    rw [hs] at h
    simp only [Option.map_some, Option.some.injEq] at h
    exact ⟨b, rfl, h.symm⟩

/-- the body `scanBody` returns is a sequence of items of the regex (a rune of
several bytes is ONE item: its bytes are all plain, so the byte-wise scan steps
over them one by one), followed by the closing quote -/
theorem scanBody_items_conv : ∀ (f : Nat) (s body : Bytes), Lexer.scanBody f s = some body →
    ∃ rest, s = body ++ 0x22 :: rest ∧
      ∀ pre, ∃ k, IterN (Matches itemRe) k pre body (0x22 :: rest) := by
  intro f
  induction f with
  | zero => intro s body h; simp [Lexer.scanBody] at h
  | succ f ih =>
    intro s body h
    cases s with
    | nil => simp [Lexer.scanBody] at h
    | cons c r =>
      by_cases hq : (c == 0x22) = true
      · have hc : c = 0x22 := eq_of_beq hq
        subst hc
        rw [scanBody_quote] at h
        injection h with h
        subst h
        exact ⟨r, rfl, fun pre => ⟨0, rfl⟩⟩
      · by_cases hb : (c == 0x5C) = true
        · have hc : c = 0x5C := eq_of_beq hb
          subst hc
          unfold Lexer.scanBody at h
          simp only [hq, Bool.false_eq_true, if_false, hb, if_true] at h
          cases r with
          | nil => simp at h
          | cons c2 r2 =>
            simp only at h
            cases hr : Lexer.ruleEsc c2 with
            | none => simp [hr] at h
            | some kh =>
              obtain ⟨k, hex⟩ := kh
              simp only [hr] at h
              split at h
              · rename_i hcond
                simp only [Bool.and_eq_true, beq_iff_eq] at hcond
                cases hs : Lexer.scanBody f (r2.drop k) with
                | none => simp [hs] at h
                | some b' =>
                  simp only [hs, Option.map_some, Option.some.injEq] at h
                  subst h
                  obtain ⟨rest, hrest, hit⟩ := ih _ _ hs
                  refine ⟨rest, ?_, ?_⟩
                  · have := List.take_append_drop k r2
                    rw [hrest] at this
                    simp only [List.cons_append, List.append_assoc, List.cons.injEq, true_and]
                    exact this.symm
                  · intro pre
                    obtain ⟨j, hj⟩ := hit ((0x5C :: c2 :: r2.take k).reverse ++ pre)
                    exact ⟨j + 1, 0x5C :: c2 :: r2.take k, b', by simp,
                      esc_matches c2 k hex _ _ _ hr hcond.1 hcond.2, hj⟩
              · cases h
        · have hpl : plain c = true := by simp [plain, hq, hb]
          by_cases hlt : c < 0x80
          · rw [scanBody_plain f c r hpl] at h
            cases hs : Lexer.scanBody f r with
            | none => rw [hs] at h; cases h
            | some b' =>
              rw [hs] at h
              simp only [Option.map_some, Option.some.injEq] at h
              subst h
              obtain ⟨rest, hrest, hit⟩ := ih _ _ hs
              refine ⟨rest, by rw [hrest]; rfl, ?_⟩
              intro pre
              obtain ⟨j, hj⟩ := hit ([c].reverse ++ pre)
              refine ⟨j + 1, [c], b', rfl, Or.inl ⟨c, b' ++ 0x22 :: rest, rfl, Or.inl ⟨hlt, plain_ascii c hpl, rfl⟩⟩, hj⟩
          · -- a non-ASCII rune: all its bytes are plain
            obtain ⟨hne, hall⟩ := rune_plain c r hlt
            have hsplit := (List.take_append_drop (runeLen (c :: r)) (c :: r)).symm
            have hlen : 1 ≤ ((c :: r).take (runeLen (c :: r))).length := by
              cases hx : (c :: r).take (runeLen (c :: r)) with
              | nil => exact absurd hx hne
              | cons a t => simp
            have hm := scanBody_mono' (g := f + ((c :: r).take (runeLen (c :: r))).length) (by omega) h
            obtain ⟨b', hs, hbody⟩ := scanBody_run_inv _ f ((c :: r).drop (runeLen (c :: r))) body hall
              (by rw [List.take_append_drop]; exact hm)
            obtain ⟨rest, hrest, hit⟩ := ih _ _ hs
            refine ⟨rest, ?_, ?_⟩
            · rw [hbody, List.append_assoc, ← hrest]; exact hsplit
            · intro pre
              obtain ⟨j, hj⟩ := hit (((c :: r).take (runeLen (c :: r))).reverse ++ pre)
              refine ⟨j + 1, (c :: r).take (runeLen (c :: r)), b', hbody, Or.inl ⟨c, r, ?_, Or.inr ⟨hlt, rfl⟩⟩, hj⟩
              rw [← hrest]; exact hsplit.symm

theorem string_matches_complete (w post : Bytes) (h : Lexer.matchString (w ++ post) = some w) :
    Matches stringRe [] w post := by
  unfold Lexer.matchString at h
  split at h
  · rename_i r heq
    cases hs : Lexer.scanBody (r.length + 1) r with
    | none => simp [hs] at h
    | some body =>
      simp only [hs, Option.map_some, Option.some.injEq] at h
      obtain ⟨rest, hrest, hit⟩ := scanBody_items_conv _ _ _ hs
      -- post = rest
      have hpost : post = rest := by
        rw [← h, hrest] at heq
        simp only [List.cons_append, List.append_assoc, List.cons.injEq, true_and] at heq
        have := List.append_cancel_left heq
        simpa using this
      subst hpost
      obtain ⟨k, hk⟩ := hit ([0x22].reverse ++ ([].reverse ++ []))
      rw [← h]
      unfold stringRe
      refine ⟨[], _, rfl, ⟨rfl, rfl⟩, [0x22], body ++ [0x22], rfl,
        (Matches_cls_iff _ _ _ _).mpr ⟨0x22, rfl, by decide⟩,
        body, [0x22], rfl, ⟨k, Nat.zero_le _, (by intro M hM; cases hM), by simpa using hk⟩,
        (Matches_cls_iff _ _ _ _).mpr ⟨0x22, rfl, by decide⟩⟩
  · cases h

theorem string_matches_iff (w post : Bytes) :
    Matches stringRe [] w post ↔ Lexer.matchString (w ++ post) = some w :=
  ⟨string_matches_sound w post, string_matches_complete w post⟩

theorem matchString_prefix' (s w : Bytes) (h : Lexer.matchString s = some w) : ∃ post, s = w ++ post := by
  unfold Lexer.matchString at h
  split at h
  · rename_i r
    cases hs : Lexer.scanBody (r.length + 1) r with
    | none => simp [hs] at h
    | some body =>
      simp only [hs, Option.map_some, Option.some.injEq] at h
      obtain ⟨rest, hrest, _⟩ := scanBody_items_conv _ _ _ hs
      exact ⟨rest, by rw [← h, hrest]; simp⟩
  · cases h

/-- For every input the hand-written string recogniser returns exactly what
the leftmost-first matcher returns for the AST of the string rule's regex. -/
theorem pmatch_stringRe (s : Bytes) : pmatch stringRe s = Lexer.matchString s :=
  pmatch_eq_of_unique stringRe Lexer.matchString matchString_prefix' string_matches_iff s

/-- For a regex decided by a recogniser `f` (as in `pmatch_eq_of_unique`) the
priority-ordered enumeration of matches at position 0 has at most one element:
the leftmost-first preference has nothing to choose between. -/
theorem ends_unique (r : Re) (f : Bytes → Option Bytes)
    (hiff : ∀ w post, Matches r [] w post ↔ f (w ++ post) = some w) (s : Bytes) :
    ∀ x ∈ ends r [] s, ∀ y ∈ ends r [] s, x = y := by
  intro x hx y hy
  obtain ⟨p1, r1⟩ := x
  obtain ⟨p2, r2⟩ := y
  obtain ⟨w1, hs1, hp1, hm1⟩ := (mem_ends_iff r [] s p1 r1).mp hx
  obtain ⟨w2, hs2, hp2, hm2⟩ := (mem_ends_iff r [] s p2 r2).mp hy
  have h1 := (hiff w1 r1).mp hm1
  have h2 := (hiff w2 r2).mp hm2
  rw [← hs1] at h1
  rw [← hs2, h1] at h2
  injection h2 with h2
  subst h2
  have : r1 = r2 := List.append_cancel_left (hs1.symm.trans hs2)
  subst this
  rw [hp1, hp2]

end Martian.LexerRegex
