/-
C11: fork id strings are injective in the fork-part tuple, for every nesting of
array and map parts (lemmas for `forkName_injective`).  Core Lean only.
-/
import Martian.ForkName
import Proofs.ForkName

namespace Martian.ForkName

/-! ## Validity and shape -/






/-! ## A fuel-free description of what `forkIdGo true true` appends -/

def tailStr : List Part → Bool → Nat → Nat → Bytes
  | [], _, idx, dim => forkIndexStr dim idx
  | .arr i len st :: rest, first, idx, dim =>
    if len == 0 then tailStr rest false idx dim
    else if !st && 1 < len && !first then forkIndexStr dim idx ++ cUnder :: tailStr rest false i len
    else tailStr rest false (idx + dim * i) (dim * len)
  | .key k keys _ :: rest, first, idx, dim =>
    if keys.isEmpty then tailStr rest false idx dim
    else if first then seg k ++ (if rest.isEmpty then [] else cSlash :: tailStr rest true 0 1)
    else forkIndexStr dim idx ++ cSlash :: (seg k ++ (if rest.isEmpty then [] else cSlash :: tailStr rest true 0 1))
  | _ :: rest, _, idx, dim => tailStr rest false idx dim

def defaultCase : List Part → Bool → Nat → Nat → Bool
  | [], _, idx, _ => idx == 0
  | .arr i len st :: rest, first, idx, dim =>
    if len == 0 then defaultCase rest false idx dim
    else if !st && 1 < len && !first then false else defaultCase rest false (idx + dim * i) (dim * len)
  | .key _ keys _ :: rest, _, idx, dim => if keys.isEmpty then defaultCase rest false idx dim else false
  | _ :: rest, _, idx, dim => defaultCase rest false idx dim

theorem forkIndexStr_ne_nil (dim idx : Nat) : forkIndexStr dim idx ≠ [] := by
  unfold forkIndexStr; split <;> simp [sFork0, sFork]

theorem forkIdGo_spec : ∀ (parts : List Part) (fuel : Nat) (first : Bool) (idx dim : Nat) (buf : Bytes),
    parts.all partOk = true → 2 * parts.length < fuel →
    forkIdGo true true fuel parts first idx dim buf =
      if buf.isEmpty && defaultCase parts first idx dim then ⟨true, buf, true⟩
      else ⟨false, buf ++ tailStr parts first idx dim, true⟩ := by
  intro parts
  induction parts with
  | nil =>
    intro fuel first idx dim buf _ hf
    cases fuel with
    | zero => omega
    | succ f =>
      simp only [forkIdGo, defaultCase, tailStr]
      by_cases h1 : idx = 0 <;> by_cases h2 : buf.isEmpty = true <;> simp [h1, h2]
  | cons p rest ih =>
    intro fuel first idx dim buf hv hf
    simp only [List.all_cons, Bool.and_eq_true] at hv
    obtain ⟨hp, hrest⟩ := hv
    simp only [List.length_cons] at hf
    cases fuel with
    | zero => omega
    | succ f =>
    cases p with
    | arr i len st =>
      by_cases hz : len = 0
      · subst hz
        simp only [forkIdGo, defaultCase, tailStr, beq_self_eq_true, if_true]
        exact ih f false idx dim buf hrest (by omega)
      · have hil : i < len := by
          simp only [partOk, partValid, partSkip, Bool.or_eq_true, decide_eq_true_eq, beq_iff_eq] at hp
          rcases hp with h | h
          · exact h
          · exact absurd h hz
        have h0 : (len == 0) = false := by simpa using hz
        have h1 : ¬ (len ≤ i) := by omega
        simp only [forkIdGo, h0, Bool.false_eq_true, if_false, h1, defaultCase, tailStr]
        by_cases hc : (!st && decide (1 < len) && !first) = true
        · simp only [hc, if_true]
          rw [ih f false i len _ hrest (by omega)]
          have : (buf ++ forkIndexStr dim idx ++ [cUnder]).isEmpty = false := by simp
          simp [this, List.append_assoc]
        · simp only [hc, if_false]
          exact ih f false _ _ buf hrest (by omega)
    | key k keys st =>
      by_cases hz : keys = []
      · subst hz
        simp only [forkIdGo, defaultCase, tailStr, List.length_nil, beq_self_eq_true, if_true, List.isEmpty_nil]
        exact ih f false idx dim buf hrest (by omega)
      · have hk : keys.contains k = true := by
          simp only [partOk, partValid, partSkip, Bool.or_eq_true, List.isEmpty_iff] at hp
          rcases hp with h | h
          · exact h
          · exact absurd h hz
        have hl : (keys.length == 0) = false := by
          cases keys with
          | nil => exact absurd rfl hz
          | cons _ _ => simp
        have hke : keys.isEmpty = false := by
          cases keys with
          | nil => exact absurd rfl hz
          | cons _ _ => rfl
        -- the map part as first part of an invocation
        have hfirst : ∀ (g : Nat) (b : Bytes) (x y : Nat), 2 * rest.length < g →
            forkIdGo true true (g + 1) (.key k keys st :: rest) true x y b =
              ⟨false, b ++ (seg k ++ (if rest.isEmpty then [] else cSlash :: tailStr rest true 0 1)), true⟩ := by
          intro g b x y hg
          simp only [forkIdGo, hl, hk, Bool.not_true, Bool.false_eq_true, if_false, if_true]
          cases hre : rest.isEmpty with
          | true => simp [seg, List.append_assoc]
          | false =>
            simp only [Bool.false_eq_true, if_false]
            rw [ih g true 0 1 _ hrest hg]
            have : (b ++ sForkU ++ pathEscape k ++ [cSlash]).isEmpty = false := by simp
            simp [this, seg, List.append_assoc]
        cases first with
        | true =>
          rw [hfirst f buf idx dim (by omega)]
          simp [defaultCase, tailStr, hke]
        | false =>
          cases f with
          | zero => omega
          | succ g =>
            have step : forkIdGo true true (g + 1 + 1) (.key k keys st :: rest) false idx dim buf =
                forkIdGo true true (g + 1) (.key k keys st :: rest) true 0 1 (buf ++ forkIndexStr dim idx ++ [cSlash]) := by
              simp only [forkIdGo, hl, hk, Bool.not_true, Bool.false_eq_true, if_false, if_true]
            rw [step, hfirst g _ 0 1 (by omega)]
            simp [defaultCase, tailStr, hke, List.append_assoc]
    | undet =>
      simp only [forkIdGo, defaultCase, tailStr]
      exact ih f false idx dim buf hrest (by omega)
    | empty =>
      simp only [forkIdGo, defaultCase, tailStr, if_true]
      exact ih f false idx dim buf hrest (by omega)

/-! ## Separators cannot occur inside an index string -/

theorem digitsVal_all_digits : ∀ (s : Bytes) (a v : Nat), digitsVal s a = some v → ∀ c ∈ s, isDigit c = true := by
  intro s
  induction s with
  | nil => intro _ _ _ c hc; simp at hc
  | cons x r ih =>
    intro a v h c hc
    simp only [digitsVal] at h
    by_cases hx : isDigit x = true
    · simp only [hx, if_true] at h
      rcases List.mem_cons.mp hc with e | e
      · rw [e]; exact hx
      · exact ih _ _ h c e
    · simp [hx] at h

theorem forkIndexStr_bytes (dim idx : Nat) (c : UInt8) (hc : c ∈ forkIndexStr dim idx) :
    c ∈ sFork ∨ isDigit c = true := by
  unfold forkIndexStr at hc
  split at hc
  · have : sFork0 = sFork ++ [0x30] := rfl
    rw [this] at hc
    rcases List.mem_append.mp hc with h | h
    · exact Or.inl h
    · right; have : c = 0x30 := by simpa using h
      subst this; decide
  · rcases List.mem_append.mp hc with h | h
    · exact Or.inl h
    · exact Or.inr (digitsVal_all_digits _ 0 _ (digitsVal_padded _ idx) c h)

theorem under_not_in_forkIndexStr (dim idx : Nat) : cUnder ∉ forkIndexStr dim idx := by
  intro h
  rcases forkIndexStr_bytes dim idx _ h with h | h
  · revert h; decide
  · revert h; decide

theorem slash_not_in_forkIndexStr (dim idx : Nat) : cSlash ∉ forkIndexStr dim idx := by
  intro h
  rcases forkIndexStr_bytes dim idx _ h with h | h
  · revert h; decide
  · revert h; decide

theorem forkIndexStr_val (d n : Nat) : digitsVal ((forkIndexStr d n).drop 4) 0 = some n := by
  unfold forkIndexStr
  split
  · next hc =>
    have : n = 0 := by
      simp only [Bool.and_eq_true, beq_iff_eq] at hc; exact hc.2
    subst this; rfl
  · show digitsVal (padded _ n) 0 = some n
    exact digitsVal_padded _ n

theorem forkIndexStr_inj {d d' i j : Nat} (h : forkIndexStr d i = forkIndexStr d' j) : i = j := by
  have := congrArg (fun s => digitsVal (s.drop 4) 0) h
  simpa [forkIndexStr_val] using this

/-! ## Shape lemmas -/

theorem sameShape_isEmpty : ∀ (a b : List Part), sameShape a b = true → a.isEmpty = b.isEmpty := by
  intro a b h
  cases a <;> cases b <;> simp_all [sameShape]

theorem mixed_radix {iA iB dim x y : Nat} (hA : iA < dim) (hB : iB < dim)
    (h : iA + dim * x = iB + dim * y) : iA = iB ∧ x = y := by
  have h1 := congrArg (· % dim) h
  simp only [Nat.add_mul_mod_self_left, Nat.mod_eq_of_lt hA, Nat.mod_eq_of_lt hB] at h1
  subst h1
  have h2 : dim * x = dim * y := by omega
  exact ⟨rfl, Nat.eq_of_mul_eq_mul_left (by omega) h2⟩

theorem radix_bound {idx dim i len : Nat} (h1 : idx < dim) (h2 : i < len) : idx + dim * i < dim * len := by
  have := Nat.mul_le_mul_left dim (show i + 1 ≤ len by omega)
  rw [Nat.mul_succ] at this
  omega

/-- the body written for a map part and what follows it -/
theorem keyBody_inj (kA kB : Bytes) (rA rB : List Part) (tA tB : Bytes)
    (hre : rA.isEmpty = rB.isEmpty)
    (h : seg kA ++ (if rA.isEmpty then [] else cSlash :: tA) = seg kB ++ (if rB.isEmpty then [] else cSlash :: tB)) :
    kA = kB ∧ (rA.isEmpty = false → tA = tB) := by
  rw [← hre] at h
  cases he : rA.isEmpty with
  | true =>
    simp only [he, if_true, List.append_nil] at h
    simp only [seg] at h
    exact ⟨pathEscape_inj (List.append_cancel_left h), by simp⟩
  | false =>
    simp only [he, Bool.false_eq_true, if_false] at h
    obtain ⟨e1, e2⟩ := append_sep_inj _ _ _ _ (slash_not_in_seg kA) (slash_not_in_seg kB) h
    simp only [seg] at e1
    exact ⟨pathEscape_inj (List.append_cancel_left e1), fun _ => e2⟩

theorem ok_not_skip_arr {i len : Nat} {st : Bool} (h : partOk (.arr i len st) = true) (hz : len ≠ 0) : i < len := by
  simp only [partOk, partValid, partSkip, Bool.or_eq_true, decide_eq_true_eq, beq_iff_eq] at h
  rcases h with h | h
  · exact h
  · exact absurd h hz

theorem tailStr_inj : ∀ (a b : List Part) (first : Bool) (iA iB dim : Nat),
    sameShape a b = true → a.all partOk = true → b.all partOk = true →
    iA < dim → iB < dim → (first = true → iA = iB) →
    tailStr a first iA dim = tailStr b first iB dim → iA = iB ∧ a = b := by
  intro a
  induction a with
  | nil =>
    intro b first iA iB dim hs _ _ _ _ _ h
    cases b with
    | nil => exact ⟨forkIndexStr_inj h, rfl⟩
    | cons _ _ => simp [sameShape] at hs
  | cons p ra ih =>
    intro b first iA iB dim hs hva hvb hA hB hfi h
    cases b with
    | nil => simp [sameShape] at hs
    | cons q rb =>
    simp only [sameShape, Bool.and_eq_true] at hs
    obtain ⟨hpq, hsr⟩ := hs
    simp only [List.all_cons, Bool.and_eq_true] at hva hvb
    obtain ⟨hvp, hvra⟩ := hva
    obtain ⟨hvq, hvrb⟩ := hvb
    cases p with
    | arr i len st =>
      cases q with
      | arr i' len' st' =>
        simp only [sameShapeP, Bool.and_eq_true, beq_iff_eq, Bool.or_eq_true, bne_iff_ne] at hpq
        obtain ⟨⟨hl, hst⟩, hpay⟩ := hpq
        subst hl; subst hst
        simp only [tailStr] at h
        by_cases hz : len = 0
        · subst hz
          simp only [beq_self_eq_true, if_true] at h
          have hii : i = i' := by
            rcases hpay with h' | h'
            · exact absurd rfl h'
            · exact h'
          obtain ⟨e3, e4⟩ := ih rb false iA iB dim hsr hvra hvrb hA hB (by simp) h
          exact ⟨e3, by rw [hii, e4]⟩
        · have h0 : (len == 0) = false := by simpa using hz
          simp only [h0, Bool.false_eq_true, if_false] at h
          have hi : i < len := ok_not_skip_arr hvp hz
          have hi' : i' < len := ok_not_skip_arr hvq hz
          by_cases hc : (!st && decide (1 < len) && !first) = true
          · simp only [hc, if_true] at h
            obtain ⟨e1, e2⟩ := append_sep_inj _ _ _ _ (under_not_in_forkIndexStr dim iA)
              (under_not_in_forkIndexStr dim iB) h
            obtain ⟨e3, e4⟩ := ih rb false i i' len hsr hvra hvrb hi hi' (by simp) e2
            exact ⟨forkIndexStr_inj e1, by rw [e3, e4]⟩
          · simp only [hc, if_false] at h
            obtain ⟨e3, e4⟩ := ih rb false _ _ (dim * len) hsr hvra hvrb (radix_bound hA hi) (radix_bound hB hi')
              (by simp) h
            obtain ⟨e5, e6⟩ := mixed_radix hA hB e3
            exact ⟨e5, by rw [e6, e4]⟩
      | key _ _ _ => simp [sameShapeP] at hpq
      | undet => simp [sameShapeP] at hpq
      | empty => simp [sameShapeP] at hpq
    | key k keys st =>
      cases q with
      | key k' keys' st' =>
        simp only [sameShapeP, Bool.and_eq_true, beq_iff_eq, Bool.or_eq_true, Bool.not_eq_true'] at hpq
        obtain ⟨⟨hl, hst⟩, hpay⟩ := hpq
        subst hl; subst hst
        have hre := sameShape_isEmpty ra rb hsr
        simp only [tailStr] at h
        cases hke : keys.isEmpty with
        | true =>
          simp only [hke, if_true] at h
          have hkk : k = k' := by
            rcases hpay with h' | h'
            · rw [hke] at h'; exact absurd h' (by simp)
            · exact h'
          obtain ⟨e3, e4⟩ := ih rb false iA iB dim hsr hvra hvrb hA hB (by simp) h
          exact ⟨e3, by rw [hkk, e4]⟩
        | false =>
          simp only [hke, Bool.false_eq_true, if_false] at h
          cases first with
          | true =>
            simp only [if_true] at h
            obtain ⟨ek, et⟩ := keyBody_inj k k' ra rb _ _ hre h
            refine ⟨hfi rfl, ?_⟩
            cases he : ra.isEmpty with
            | true =>
              have h1 : ra = [] := by simpa using he
              have h2 : rb = [] := by rw [hre] at he; simpa using he
              rw [ek, h1, h2]
            | false =>
              obtain ⟨_, e4⟩ := ih rb true 0 0 1 hsr hvra hvrb (by omega) (by omega) (by simp) (et he)
              rw [ek, e4]
          | false =>
            simp only [Bool.false_eq_true, if_false] at h
            obtain ⟨e1, e2⟩ := append_sep_inj _ _ _ _ (slash_not_in_forkIndexStr dim iA)
              (slash_not_in_forkIndexStr dim iB) h
            obtain ⟨ek, et⟩ := keyBody_inj k k' ra rb _ _ hre e2
            refine ⟨forkIndexStr_inj e1, ?_⟩
            cases he : ra.isEmpty with
            | true =>
              have h1 : ra = [] := by simpa using he
              have h2 : rb = [] := by rw [hre] at he; simpa using he
              rw [ek, h1, h2]
            | false =>
              obtain ⟨_, e4⟩ := ih rb true 0 0 1 hsr hvra hvrb (by omega) (by omega) (by simp) (et he)
              rw [ek, e4]
      | arr _ _ _ => simp [sameShapeP] at hpq
      | undet => simp [sameShapeP] at hpq
      | empty => simp [sameShapeP] at hpq
    | undet =>
      cases q with
      | undet =>
        simp only [tailStr] at h
        obtain ⟨e3, e4⟩ := ih rb false iA iB dim hsr hvra hvrb hA hB (by simp) h
        exact ⟨e3, by rw [e4]⟩
      | arr _ _ _ => simp [sameShapeP] at hpq
      | key _ _ _ => simp [sameShapeP] at hpq
      | empty => simp [sameShapeP] at hpq
    | empty =>
      cases q with
      | empty =>
        simp only [tailStr] at h
        obtain ⟨e3, e4⟩ := ih rb false iA iB dim hsr hvra hvrb hA hB (by simp) h
        exact ⟨e3, by rw [e4]⟩
      | arr _ _ _ => simp [sameShapeP] at hpq
      | key _ _ _ => simp [sameShapeP] at hpq
      | undet => simp [sameShapeP] at hpq

/-! ## The default (`fork0`) case at top level -/

/-- all contributing parts are array parts folded into one flat index: (total, dimension) -/
def flatIdx : List Part → Bool → Nat → Nat → Option (Nat × Nat)
  | [], _, idx, dim => some (idx, dim)
  | .arr i len st :: rest, first, idx, dim =>
    if len == 0 then flatIdx rest false idx dim
    else if !st && 1 < len && !first then none else flatIdx rest false (idx + dim * i) (dim * len)
  | .key _ keys _ :: rest, _, idx, dim => if keys.isEmpty then flatIdx rest false idx dim else none
  | _ :: rest, _, idx, dim => flatIdx rest false idx dim

theorem flatIdx_some : ∀ (a : List Part) (first : Bool) (idx dim T D : Nat),
    flatIdx a first idx dim = some (T, D) →
    tailStr a first idx dim = forkIndexStr D T ∧ defaultCase a first idx dim = (T == 0) := by
  intro a
  induction a with
  | nil => intro _ _ _ _ _ h; simp only [flatIdx, Option.some.injEq, Prod.mk.injEq] at h; simp [tailStr, defaultCase, h.1, h.2]
  | cons p r ih =>
    intro first idx dim T D h
    cases p with
    | arr i len st =>
      simp only [flatIdx] at h
      simp only [tailStr, defaultCase]
      by_cases hz : (len == 0) = true
      · simp only [hz, if_true] at h ⊢
        exact ih _ _ _ _ _ h
      · simp only [hz, Bool.false_eq_true, if_false] at h ⊢
        by_cases hc : (!st && decide (1 < len) && !first) = true
        · simp [hc] at h
        · simp only [hc, Bool.false_eq_true, if_false] at h ⊢
          exact ih _ _ _ _ _ h
    | key _ keys _ =>
      simp only [flatIdx] at h
      simp only [tailStr, defaultCase]
      by_cases hz : keys.isEmpty = true
      · simp only [hz, if_true] at h ⊢
        exact ih _ _ _ _ _ h
      · simp [hz] at h
    | undet => simp only [flatIdx] at h; simp only [tailStr, defaultCase]; exact ih _ _ _ _ _ h
    | empty => simp only [flatIdx] at h; simp only [tailStr, defaultCase]; exact ih _ _ _ _ _ h

theorem flatIdx_none : ∀ (a : List Part) (first : Bool) (idx dim : Nat),
    flatIdx a first idx dim = none → defaultCase a first idx dim = false := by
  intro a
  induction a with
  | nil => intro _ _ _ h; simp [flatIdx] at h
  | cons p r ih =>
    intro first idx dim h
    cases p with
    | arr i len st =>
      simp only [flatIdx] at h
      simp only [defaultCase]
      by_cases hz : (len == 0) = true
      · simp only [hz, if_true] at h ⊢
        exact ih _ _ _ h
      · simp only [hz, Bool.false_eq_true, if_false] at h ⊢
        by_cases hc : (!st && decide (1 < len) && !first) = true
        · simp [hc]
        · simp only [hc, Bool.false_eq_true, if_false] at h ⊢
          exact ih _ _ _ h
    | key _ keys _ =>
      simp only [flatIdx] at h
      simp only [defaultCase]
      by_cases hz : keys.isEmpty = true
      · simp only [hz, if_true] at h ⊢
        exact ih _ _ _ h
      · simp [hz]
    | undet => simp only [flatIdx] at h; simp only [defaultCase]; exact ih _ _ _ h
    | empty => simp only [flatIdx] at h; simp only [defaultCase]; exact ih _ _ _ h

theorem flatIdx_shape : ∀ (a b : List Part) (first : Bool) (iA iB dim : Nat),
    sameShape a b = true →
    (flatIdx a first iA dim = none ∧ flatIdx b first iB dim = none) ∨
    (∃ TA TB D, flatIdx a first iA dim = some (TA, D) ∧ flatIdx b first iB dim = some (TB, D)) := by
  intro a
  induction a with
  | nil =>
    intro b first iA iB dim hs
    cases b with
    | nil => exact Or.inr ⟨iA, iB, dim, rfl, rfl⟩
    | cons _ _ => simp [sameShape] at hs
  | cons p ra ih =>
    intro b first iA iB dim hs
    cases b with
    | nil => simp [sameShape] at hs
    | cons q rb =>
      simp only [sameShape, Bool.and_eq_true] at hs
      obtain ⟨hpq, hsr⟩ := hs
      cases p with
      | arr i len st =>
        cases q with
        | arr i' len' st' =>
          simp only [sameShapeP, Bool.and_eq_true, beq_iff_eq] at hpq
          obtain ⟨⟨hl, hst⟩, _⟩ := hpq
          subst hl; subst hst
          simp only [flatIdx]
          by_cases hz : (len == 0) = true
          · simp only [hz, if_true]; exact ih rb false _ _ _ hsr
          · simp only [hz, Bool.false_eq_true, if_false]
            by_cases hc : (!st && decide (1 < len) && !first) = true
            · simp [hc]
            · simp only [hc, Bool.false_eq_true, if_false]
              exact ih rb false _ _ _ hsr
        | key _ _ _ => simp [sameShapeP] at hpq
        | undet => simp [sameShapeP] at hpq
        | empty => simp [sameShapeP] at hpq
      | key k keys st =>
        cases q with
        | key k' keys' st' =>
          simp only [sameShapeP, Bool.and_eq_true, beq_iff_eq] at hpq
          obtain ⟨⟨hl, _⟩, _⟩ := hpq
          subst hl
          simp only [flatIdx]
          by_cases hz : keys.isEmpty = true
          · simp only [hz, if_true]; exact ih rb false _ _ _ hsr
          · simp [hz]
        | arr _ _ _ => simp [sameShapeP] at hpq
        | undet => simp [sameShapeP] at hpq
        | empty => simp [sameShapeP] at hpq
      | undet =>
        cases q with
        | undet => simp only [flatIdx]; exact ih rb false _ _ _ hsr
        | arr _ _ _ => simp [sameShapeP] at hpq
        | key _ _ _ => simp [sameShapeP] at hpq
        | empty => simp [sameShapeP] at hpq
      | empty =>
        cases q with
        | empty => simp only [flatIdx]; exact ih rb false _ _ _ hsr
        | arr _ _ _ => simp [sameShapeP] at hpq
        | key _ _ _ => simp [sameShapeP] at hpq
        | undet => simp [sameShapeP] at hpq

/-- the string `ForkId.forkId` produces at top level -/
def topStr (a : List Part) : Bytes := if defaultCase a true 0 1 then sFork0 else tailStr a true 0 1

theorem topStr_inj (a b : List Part) (hs : sameShape a b = true)
    (hva : a.all partOk = true) (hvb : b.all partOk = true)
    (h : topStr a = topStr b) : a = b := by
  rcases flatIdx_shape a b true 0 0 1 hs with ⟨ha, hb⟩ | ⟨TA, TB, D, ha, hb⟩
  · simp only [topStr, flatIdx_none _ _ _ _ ha, flatIdx_none _ _ _ _ hb, Bool.false_eq_true, if_false] at h
    exact (tailStr_inj a b true 0 0 1 hs hva hvb (by omega) (by omega) (by simp) h).2
  · obtain ⟨ta, da⟩ := flatIdx_some _ _ _ _ _ _ ha
    obtain ⟨tb, db⟩ := flatIdx_some _ _ _ _ _ _ hb
    have hval : ∀ T, digitsVal ((if T = 0 then sFork0 else forkIndexStr D T).drop 4) 0 = some T := by
      intro T
      by_cases hT : T = 0
      · subst hT; rfl
      · simp only [hT, if_false]; exact forkIndexStr_val D T
    simp only [topStr, ta, da, tb, db, beq_iff_eq] at h
    have hTT : TA = TB := by
      have := congrArg (fun s => digitsVal (s.drop 4) 0) h
      simpa [hval] using this
    have : tailStr a true 0 1 = tailStr b true 0 1 := by rw [ta, tb, hTT]
    exact (tailStr_inj a b true 0 0 1 hs hva hvb (by omega) (by omega) (by simp) this).2

theorem forkIdString_topStr (a : List Part) (hva : a.all partOk = true) (hlen : 2 ≤ a.length) :
    forkIdString true true a = some (topStr a) := by
  match a, hlen with
  | p :: q :: r, _ =>
    simp only [forkIdString]
    rw [forkIdGo_spec (p :: q :: r) _ true 0 1 [] hva (by simp)]
    simp only [List.isEmpty_nil, Bool.true_and, topStr, List.nil_append]
    by_cases hd : defaultCase (p :: q :: r) true 0 1 = true <;> simp [hd]

theorem sameShape_length : ∀ (a b : List Part), sameShape a b = true → a.length = b.length := by
  intro a
  induction a with
  | nil => intro b h; cases b <;> simp_all [sameShape]
  | cons p r ih =>
    intro b h
    cases b with
    | nil => simp [sameShape] at h
    | cons q s =>
      simp only [sameShape, Bool.and_eq_true] at h
      simp [ih s h.2]

/-- Fork id strings are injective in the fork-part tuple, for every nesting
of array and map parts (single parts must be resolved and in range; in longer
lists parts with an empty range or unresolved parts may occur anywhere). -/
theorem forkIdString_inj (a b : List Part) (hs : sameShape a b = true)
    (hva : a.all partOk = true) (hvb : b.all partOk = true)
    (h1 : a.length = 1 → a.all partValid = true) (h1' : b.length = 1 → b.all partValid = true)
    (h : forkIdString true true a = forkIdString true true b) : a = b := by
  have hlen := sameShape_length a b hs
  match a, b, hlen with
  | [], [], _ => rfl
  | [p], [q], _ =>
    have hva := h1 rfl
    have hvb := h1' rfl
    simp only [sameShape, Bool.and_eq_true] at hs
    simp only [List.all_cons, List.all_nil, Bool.and_true] at hva hvb
    simp only [forkIdString] at h
    cases p with
    | arr i len st =>
      cases q with
      | arr i' len' st' =>
        have hpq := hs.1
        simp only [sameShapeP, Bool.and_eq_true, beq_iff_eq] at hpq
        obtain ⟨⟨hl, hst⟩, _⟩ := hpq
        subst hl; subst hst
        have hi : i < len := by simpa [partValid] using hva
        have hi' : i' < len := by simpa [partValid] using hvb
        cases hx : singleId (.arr i len st) with
        | none =>
          exfalso
          have h1 : ¬ (len ≤ i) := by omega
          by_cases h0 : i = 0 <;> simp [singleId, h1, h0] at hx
          omega
        | some x =>
          rw [hx] at h
          have h1 := singleId_arr i len st x hx
          have h2 := singleId_arr i' len st x h.symm
          rw [h1] at h2
          rw [itoa_inj (List.append_cancel_left h2)]
      | key _ _ _ => simp [sameShapeP] at hs
      | undet => simp [sameShapeP] at hs
      | empty => simp [sameShapeP] at hs
    | key k keys st =>
      cases q with
      | key k' keys' st' =>
        have hpq := hs.1
        simp only [sameShapeP, Bool.and_eq_true, beq_iff_eq] at hpq
        obtain ⟨⟨hl, hst⟩, _⟩ := hpq
        subst hl; subst hst
        have hk : keys.contains k = true := by simpa [partValid] using hva
        cases hx : singleId (.key k keys st) with
        | none =>
          simp [singleId] at hx
          exact absurd (by simpa using hk) hx.2
        | some x =>
          rw [hx] at h
          have h1 := singleId_key k keys st x hx
          have h2 := singleId_key k' keys st x h.symm
          rw [h1] at h2
          simp only [seg] at h2
          rw [pathEscape_inj (List.append_cancel_left h2)]
      | arr _ _ _ => simp [sameShapeP] at hs
      | undet => simp [sameShapeP] at hs
      | empty => simp [sameShapeP] at hs
    | undet => simp [partValid] at hva
    | empty => simp [partValid] at hva
  | p :: p2 :: ra, q :: q2 :: rb, _ =>
    rw [forkIdString_topStr _ hva (by simp), forkIdString_topStr _ hvb (by simp)] at h
    exact topStr_inj _ _ hs hva hvb (Option.some.inj h)

end Martian.ForkName
