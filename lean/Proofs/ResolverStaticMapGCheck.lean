/-
C01 — soundness of the decidable type check `wellTypedGB` (map calls of stages in array /
typed-map mode).
-/
import Proofs.ResolverStaticMapCheck
import Proofs.ResolverStaticMapG

namespace Proofs.ResolverStatic
open Martian.Dataflow Martian.Resolver Martian.ResolverForks Martian.ResolverStatic Proofs.Dataflow

theorem mappedOkGB_sound (st : StructTable) (n : Nat) (P : Program) (sT cT : String → Ty) (c : Call)
    (isMap : Bool) (h : mappedOkGB st n P sT cT c isMap = true) : MappedOkG st P sT cT c isMap := by
  simp only [mappedOkGB, Bool.and_eq_true, Option.isNone_iff_eq_none, List.any_eq_true, List.all_eq_true,
    decide_eq_true_eq, Bool.or_eq_true, Bool.not_eq_true', beq_iff_eq] at h
  obtain ⟨⟨⟨⟨⟨⟨⟨hm, hd⟩, hst⟩, hex⟩, hnd⟩, hpar⟩, hmz⟩, hty⟩ := h
  refine ⟨hm, hd, ?_, ?_, ?_, ?_, ?_⟩
  · unfold isStageB at hst
    cases hl : P.callables.lookup c.callee with
    | none => simp [hl] at hst
    | some cb =>
      cases cb with
      | stage a b => exact ⟨a, b, rfl⟩
      | pipeline a b d e => simp [hl] at hst
  · obtain ⟨b, hb, hs⟩ := hex
    exact ⟨b, hb, hs⟩
  · intro b hb hs
    cases hpar b hb with
    | inl h0 => rw [h0] at hs; cases hs
    | inr h0 =>
      obtain ⟨p, hp, hpn⟩ := h0
      refine ⟨p, hp, ?_⟩
      rw [hpn]
      exact find_key_of_nodup c.binds (·.param) hnd b hb
  · intro him p hp b hb hs
    cases hmz with
    | inl h0 => rw [him] at h0; cases h0
    | inr h0 =>
      have := h0 p hp
      simp only [hb, hs, Bool.not_true, Bool.false_or, beq_iff_eq] at this
      exact this
  · intro p hp b hb
    have := hty p hp
    simp only [hb] at this
    exact hasTyB_sound st n sT cT b.exp _ this

theorem callOkGB_sound (st : StructTable) (n : Nat) (P : Program) (sT cT : String → Ty) (c : Call)
    (ty : Ty) (h : callOkGB st n P sT cT c = some ty) : CallOkG st P sT cT c ty := by
  unfold callOkGB at h
  split at h
  · next h1 =>
    simp only [Bool.and_eq_true, List.all_eq_true, Bool.not_eq_true'] at h1
    simp only [Option.some.injEq] at h
    exact Or.inl ⟨callOkB_sound st n P.insOf sT cT c h1.1, h1.2, h.symm⟩
  · split at h
    · next h2 =>
      simp only [Option.some.injEq] at h
      exact Or.inr ⟨false, mappedOkGB_sound st n P sT cT c false h2, by simp [← h]⟩
    · split at h
      · next h3 =>
        simp only [Option.some.injEq] at h
        exact Or.inr ⟨true, mappedOkGB_sound st n P sT cT c true h3, by simp [← h]⟩
      · cases h

theorem callsOkGB_sound (st : StructTable) (n : Nat) (P : Program) (sT : String → Ty) :
    ∀ (cs : List Call) (L L' : List (String × Ty)), callsOkGB st n P sT L cs = some L' →
      CallsOkG st P sT L cs L'
  | [], L, L', h => by
    simp only [callsOkGB, Option.some.injEq] at h
    simp only [CallsOkG]
    exact h.symm
  | c :: cs, L, L', h => by
    simp only [callsOkGB] at h
    cases hc : callOkGB st n P sT (callTyOfB L) c with
    | none => simp [hc] at h
    | some ty =>
      simp only [hc] at h
      exact ⟨ty, callOkGB_sound st n P sT _ c ty (by rw [← callTyOfB_eq]; exact hc),
        callsOkGB_sound st n P sT cs _ L' h⟩

theorem wellTypedGB_sound (P : Program) (h : wellTypedGB P = true) : WellTypedG P := by
  simp only [wellTypedGB, Bool.and_eq_true, List.all_eq_true, beq_iff_eq, Bool.not_eq_true'] at h
  obtain ⟨⟨⟨⟨h1, h2⟩, h3⟩, h4⟩, h5⟩ := h
  refine ⟨structsOkB_sound _ h1, ?_, ?_, ?_⟩
  · intro name c hl
    exact h2 (name, c) (mem_of_lookup _ _ _ hl)
  · intro name pins outs calls ret hl
    have := h3 (name, _) (mem_of_lookup _ _ _ hl)
    simp only [pipelineOkGB] at this
    cases hc : callsOkGB P.table P.table.length P (selfTyOfB pins) [] calls with
    | none => simp [hc] at this
    | some L =>
      simp only [hc, List.all_eq_true] at this
      refine ⟨L, callsOkGB_sound _ _ _ _ calls [] L (by rw [← selfTyOfB_eq]; exact hc), ?_⟩
      intro p hp e he
      have h6 := this p hp
      simp only [he] at h6
      exact hasTyB_sound _ _ _ _ e p.ty h6
  · exact ⟨callOkB_sound _ _ _ _ _ _ h4, h5⟩

end Proofs.ResolverStatic
