/-
C09 tie, translator part (by x-c07; re-exported in Props/C09Tie.lean): the column rule of the formatter's bindings, TRANSLATED from
martian/syntax/format_callable.go on every run (extract/translate*.go):

* `Gen.tr_idWidth`: the first loop of `BindStms.format` (a loop over the list of
  bindings with `break`, translated as a fold whose state carries the flag) as a
  function of the list of the bindings' ids → `FormatCall2.idWidthGo`;
* `Gen.tr_BindStmFormat`: `BindStm.format` (writes to the printer translated as
  a byte trace, the padding loop as a counted fold; comments are outside the
  model; the value is written by `Exp.format`, a parameter) →
  `FormatCall2.fmtBind`.
-/
import Martian.FormatCall2
import Gen.Facts

namespace Proofs.TieC09
open Martian.Lexer (Bytes)
open Martian.FormatExp Martian.FormatCall Martian.FormatCall2

/-! ### the width of the id column -/

/-- one round of the translated loop: (idWidth, stopped by `break`) -/
def idStep (st : Int × Bool) (x : List UInt8) : Int × Bool :=
  if st.2 then (st.1, st.2)
  else
    (if x == ([0x2A] : List UInt8)
      then ((if decide (Int.ofNat x.length < 30) then max st.1 (Int.ofNat x.length) else st.1), true)
      else ((if decide (Int.ofNat x.length < 30) then max st.1 (Int.ofNat x.length) else st.1), st.2))

/-- the translated term is that fold (definitional: only `let`s are unfolded) -/
theorem tr_idWidth_fold (ids : List (List UInt8)) :
    Gen.tr_idWidth ids = (ids.foldl idStep (0, false)).1 := rfl

theorem idStep_stopped : ∀ (ids : List (List UInt8)) (w : Int), ids.foldl idStep (w, true) = (w, true)
  | [], _ => rfl
  | x :: r, w => by simp [List.foldl, idStep, idStep_stopped r w]

theorem idStep_fold : ∀ (bs : List Bind) (w : Int), 0 ≤ w →
    ((bs.map (·.id)).foldl idStep (w, false)).1 = max w ((idWidthGo bs : Nat) : Int)
  | [], w, hw => by simp [idWidthGo]; omega
  | b :: r, w, hw => by
    simp only [List.map, List.foldl]
    by_cases hs : b.id = sStar
    · have hstep : idStep (w, false) b.id = (max w 1, true) := by
        simp [idStep, hs, sStar]
      have hm : idWidthGo (b :: r) = 1 := by simp [idWidthGo, hs, sStar]
      rw [hstep, idStep_stopped, hm]
      rfl
    · have hne : (b.id == ([0x2A] : List UInt8)) = false := by simpa [sStar] using hs
      by_cases hl : b.id.length < 30
      · have hstep : idStep (w, false) b.id = (max w (b.id.length : Int), false) := by
          have : ((b.id.length : Int) < 30) := by omega
          simp [idStep, hne, this, Int.ofNat_eq_coe]
        have hm : idWidthGo (b :: r) = max b.id.length (idWidthGo r) := by simp [idWidthGo, hs, hl]
        rw [hstep, idStep_fold r _ (by omega), hm]
        omega
      · have hstep : idStep (w, false) b.id = (w, false) := by
          have : ¬ ((b.id.length : Int) < 30) := by omega
          simp [idStep, hne, this, Int.ofNat_eq_coe]
        have hm : idWidthGo (b :: r) = idWidthGo r := by simp [idWidthGo, hs, hl]
        rw [hstep, idStep_fold r w hw, hm]

/-- THE TIE: the first loop of `BindStms.format`, on the ids of ANY list of
bindings (also with a `*` binding in the middle, where the loop stops), computes
the model's `idWidthGo` -/
theorem tr_idWidth_eq_model (bs : List Bind) :
    Gen.tr_idWidth (bs.map (·.id)) = Int.ofNat (idWidthGo bs) := by
  rw [tr_idWidth_fold, idStep_fold bs 0 (by omega), Int.ofNat_eq_coe]
  omega

/-! ### one binding -/

theorem pad_fold (n : Nat) : ∀ (t : List UInt8),
    List.foldl (fun st_ (_ : Nat) => st_ ++ [(32 : UInt8)]) t (List.range n) = t ++ List.replicate n 32 := by
  induction n with
  | zero => intro t; simp
  | succ n ih =>
    intro t
    rw [List.range_succ, List.foldl_append, ih]
    simp [List.replicate_succ', List.append_assoc]

/-- what `BindStm.format` writes, for every prefix, width, id and value printer -/
theorem tr_BindStmFormat_spec (p : List UInt8) (w : Int) (id : List UInt8) (expFormat : List UInt8 → List UInt8) :
    Gen.tr_BindStmFormat p w id expFormat =
      p ++ indent ++ id ++ spaces (Int.toNat (w - Int.ofNat id.length)) ++ [0x20, 0x3D, 0x20] ++
        expFormat (p ++ indent) ++ [0x2C, 0x0A] := by
  simp only [Gen.tr_BindStmFormat]
  rw [pad_fold]
  simp [indent, spaces, List.append_assoc]

/-- THE TIE: `BindStm.format` with the column width `w` is the model's `fmtBind`
(the `split ` of a split binding is written by `SplitExp.format`, i.e. belongs to
the value printer) -/
theorem tr_BindStmFormat_eq_model (p : Bytes) (w : Nat) (b : Bind) :
    Gen.tr_BindStmFormat p (Int.ofNat w) b.id
        (fun q => (if b.split then sSplit ++ [0x20] else []) ++ fmt q b.exp) = fmtBind p w b := by
  rw [tr_BindStmFormat_spec]
  have : Int.toNat (Int.ofNat w - Int.ofNat b.id.length) = w - b.id.length := by
    simp only [Int.ofNat_eq_coe]; omega
  simp [fmtBind, bindPre, this, List.append_assoc]

/-- non-vacuity: `ab`, a 31-byte id (does not count), `*` (stops the loop), `abcdef` (not reached) -/
example :
    Gen.tr_idWidth [[0x61, 0x62], List.replicate 31 0x61, [0x2A], [0x61, 0x62, 0x63, 0x64, 0x65, 0x66]] = 2 ∧
    Gen.tr_idWidth [[0x61, 0x62], [0x61, 0x62, 0x63]] = 3 ∧
    Gen.tr_BindStmFormat [0x3E] 4 [0x61, 0x62] (fun _ => [0x31]) =
      [0x3E, 0x20, 0x20, 0x20, 0x20, 0x61, 0x62, 0x20, 0x20, 0x20, 0x3D, 0x20, 0x31, 0x2C, 0x0A] := by decide

end Proofs.TieC09
