import Martian.FormatCall2
import Proofs.FormatCallLex

/-!
C09, part Call2: the normal form of a call statement.  The `using` block of the
printed call (`modList`: keyword modifiers converted, sorted by id) keeps
well-formedness and distinct ids, is sorted, and converting / sorting it again
changes nothing; `normCall2` / `normRet` / `normBody` are idempotent and
preserve well-formedness.

Core Lean only.
-/

namespace Martian.FormatCall2
open Martian.Lexer (Bytes)
open Martian.FormatExp Martian.FormatCall

/-! ## `insMod` / `sortMods` keep the elements -/

theorem hasId_cons (k : Bytes) (kv : Bytes × Exp) (l : List (Bytes × Exp)) :
    hasId k (kv :: l) = (kv.1 == k || hasId k l) := by
  simp [hasId]

theorem hasId_nil (k : Bytes) : hasId k [] = false := rfl

theorem hasId_insMod (k : Bytes) (kv : Bytes × Exp) : ∀ l : List (Bytes × Exp),
    hasId k (insMod kv l) = (kv.1 == k || hasId k l)
  | [] => by simp [insMod, hasId]
  | x :: r => by
    unfold insMod
    split
    · rw [hasId_cons, hasId_insMod k kv r, hasId_cons]
      cases (x.1 == k) <;> cases (kv.1 == k) <;> simp
    · rw [hasId_cons]

theorem all_insMod (P : Bytes × Exp → Bool) (kv : Bytes × Exp) : ∀ l : List (Bytes × Exp),
    (insMod kv l).all P = (P kv && l.all P)
  | [] => by simp [insMod]
  | x :: r => by
    unfold insMod
    split
    · rw [List.all_cons, all_insMod P kv r, List.all_cons]
      cases P x <;> cases P kv <;> simp
    · rw [List.all_cons]

theorem length_insMod (kv : Bytes × Exp) : ∀ l : List (Bytes × Exp),
    (insMod kv l).length = l.length + 1
  | [] => rfl
  | x :: r => by
    unfold insMod
    split
    · simp [length_insMod kv r]
    · simp

theorem beq_bytes_comm (a b : Bytes) : (a == b) = (b == a) := BEq.comm

theorem distinct_insMod (kv : Bytes × Exp) : ∀ l : List (Bytes × Exp),
    distinctIds (insMod kv l) = (!hasId kv.1 l && distinctIds l)
  | [] => by simp [insMod, distinctIds, hasId]
  | x :: r => by
    unfold insMod
    split
    · rw [distinctIds, hasId_insMod, distinct_insMod kv r, hasId_cons, distinctIds,
        beq_bytes_comm kv.1 x.1]
      cases (x.1 == kv.1) <;> cases hasId x.1 r <;> cases hasId kv.1 r <;> simp
    · rw [distinctIds]

theorem sortMods_cons (kv : Bytes × Exp) (l : List (Bytes × Exp)) :
    sortMods (kv :: l) = insMod kv (sortMods l) := rfl

theorem hasId_sortMods (k : Bytes) : ∀ l : List (Bytes × Exp), hasId k (sortMods l) = hasId k l
  | [] => rfl
  | kv :: l => by rw [sortMods_cons, hasId_insMod, hasId_sortMods k l, hasId_cons]

theorem all_sortMods (P : Bytes × Exp → Bool) : ∀ l : List (Bytes × Exp),
    (sortMods l).all P = l.all P
  | [] => rfl
  | kv :: l => by rw [sortMods_cons, all_insMod, all_sortMods P l, List.all_cons]

theorem length_sortMods : ∀ l : List (Bytes × Exp), (sortMods l).length = l.length
  | [] => rfl
  | kv :: l => by rw [sortMods_cons, length_insMod, length_sortMods l]; rfl

theorem distinct_sortMods : ∀ l : List (Bytes × Exp), distinctIds (sortMods l) = distinctIds l
  | [] => rfl
  | kv :: l => by
    rw [sortMods_cons, distinct_insMod, hasId_sortMods, distinct_sortMods l, distinctIds]

theorem isEmpty_sortMods (l : List (Bytes × Exp)) : (sortMods l).isEmpty = l.isEmpty := by
  have h := length_sortMods l
  cases l with
  | nil => rfl
  | cons kv l =>
    cases hs : sortMods (kv :: l) with
    | nil => rw [hs] at h; simp at h
    | cons a b => rfl

/-! ## the result is sorted; sorting a sorted list changes nothing -/

/-- ids in ascending order (adjacent pairs: the next is not smaller) -/
def sortedMods : List (Bytes × Exp) → Bool
  | [] => true
  | [_] => true
  | x :: y :: r => !bytesLt y.1 x.1 && sortedMods (y :: r)

theorem sortedMods_tail {x : Bytes × Exp} {l : List (Bytes × Exp)} (h : sortedMods (x :: l) = true) :
    sortedMods l = true := by
  cases l with
  | nil => rfl
  | cons y r => simp only [sortedMods, Bool.and_eq_true] at h; exact h.2

theorem insMod_sorted (kv : Bytes × Exp) : ∀ l : List (Bytes × Exp), sortedMods l = true →
    sortedMods (insMod kv l) = true
  | [], _ => rfl
  | [x], _ => by
    unfold insMod
    split
    · rename_i h
      simp [insMod, sortedMods, bytesLt_asymm _ _ h]
    · rename_i h
      simp only [Bool.not_eq_true] at h
      simp [sortedMods, h]
  | x :: y :: r, hs => by
    have ih := insMod_sorted kv (y :: r) (sortedMods_tail hs)
    simp only [sortedMods, Bool.and_eq_true, Bool.not_eq_true'] at hs
    unfold insMod
    split
    · rename_i hx
      unfold insMod at ih ⊢
      split
      · rename_i hy
        simp only [hy, ↓reduceIte] at ih
        simp only [sortedMods, Bool.and_eq_true, Bool.not_eq_true']
        exact ⟨hs.1, ih⟩
      · rename_i hy
        simp only [hy] at ih
        simp only [sortedMods, Bool.and_eq_true, Bool.not_eq_true']
        exact ⟨bytesLt_asymm _ _ hx, by simpa [sortedMods] using ih⟩
    · rename_i hx
      simp only [Bool.not_eq_true] at hx
      simp only [sortedMods, Bool.and_eq_true, Bool.not_eq_true']
      exact ⟨hx, hs.1, hs.2⟩

theorem sortMods_sorted : ∀ l : List (Bytes × Exp), sortedMods (sortMods l) = true
  | [] => rfl
  | kv :: l => by rw [sortMods_cons]; exact insMod_sorted kv _ (sortMods_sorted l)

theorem sortMods_of_sorted : ∀ l : List (Bytes × Exp), sortedMods l = true → sortMods l = l
  | [], _ => rfl
  | [x], _ => rfl
  | x :: y :: r, hs => by
    rw [sortMods_cons, sortMods_of_sorted (y :: r) (sortedMods_tail hs)]
    simp only [sortedMods, Bool.and_eq_true, Bool.not_eq_true'] at hs
    simp [insMod, hs.1]

theorem sortMods_idem (l : List (Bytes × Exp)) : sortMods (sortMods l) = sortMods l :=
  sortMods_of_sorted _ (sortMods_sorted l)

/-! ## converting the keyword modifiers -/

theorem hasId_append (k : Bytes) (l1 l2 : List (Bytes × Exp)) :
    hasId k (l1 ++ l2) = (hasId k l1 || hasId k l2) := by
  simp [hasId]

theorem distinct_snoc (kv : Bytes × Exp) : ∀ l : List (Bytes × Exp),
    distinctIds (l ++ [kv]) = (!hasId kv.1 l && distinctIds l)
  | [] => by simp [distinctIds, hasId]
  | x :: r => by
    rw [List.cons_append, distinctIds, hasId_append, distinct_snoc kv r, hasId_cons, distinctIds,
      hasId_cons, hasId_nil, beq_bytes_comm kv.1 x.1]
    cases (x.1 == kv.1) <;> cases hasId x.1 r <;> cases hasId kv.1 r <;> simp

theorem hasId_addKw_ne (k' k : Bytes) (on : Bool) (orig l : List (Bytes × Exp)) (h : (k == k') = false) :
    hasId k' (addKw on k orig l) = hasId k' l := by
  unfold addKw
  split
  · rw [hasId_append, hasId_cons, hasId_nil]; simp [h]
  · rfl

theorem distinct_addKw (on : Bool) (k : Bytes) (orig l : List (Bytes × Exp))
    (hd : distinctIds l = true) (hh : hasId k l = hasId k orig) : distinctIds (addKw on k orig l) = true := by
  unfold addKw
  split
  · rename_i h
    simp only [Bool.and_eq_true, Bool.not_eq_true'] at h
    rw [distinct_snoc, hh, h.2, hd]; rfl
  · exact hd

theorem all_addKw (P : Bytes × Exp → Bool) (on : Bool) (k : Bytes) (orig l : List (Bytes × Exp))
    (hl : l.all P = true) (hk : P (k, .bool true) = true) : (addKw on k orig l).all P = true := by
  unfold addKw
  split
  · rw [List.all_append, hl]; simp [hk]
  · exact hl

theorem distinct_convMods (m : Mods) (h : distinctIds m.binds = true) : distinctIds (convMods m) = true := by
  unfold convMods
  have h1 := distinct_addKw m.loc sLocal m.binds m.binds h rfl
  have e1 : hasId sPreflight (addKw m.loc sLocal m.binds m.binds) = hasId sPreflight m.binds :=
    hasId_addKw_ne _ _ _ _ _ (by decide)
  have h2 := distinct_addKw m.pre sPreflight m.binds _ h1 e1
  have e2 : hasId sVolatile (addKw m.pre sPreflight m.binds (addKw m.loc sLocal m.binds m.binds)) =
      hasId sVolatile m.binds := by
    rw [hasId_addKw_ne _ _ _ _ _ (by decide), hasId_addKw_ne _ _ _ _ _ (by decide)]
  exact distinct_addKw m.vol sVolatile m.binds _ h2 e2

theorem all_wfMod_convMods (m : Mods) (h : m.binds.all wfMod = true) : (convMods m).all wfMod = true := by
  unfold convMods
  exact all_addKw _ _ _ _ _ (all_addKw _ _ _ _ _ (all_addKw _ _ _ _ _ h (by decide)) (by decide)) (by decide)

theorem convMods_noflags (l : List (Bytes × Exp)) : convMods ⟨false, false, false, l⟩ = l := by
  simp [convMods, addKw]

theorem isEmpty_addKw_of_nonempty (on : Bool) (k : Bytes) (orig l : List (Bytes × Exp))
    (h : l.isEmpty = false) : (addKw on k orig l).isEmpty = false := by
  unfold addKw
  split
  · cases l with
    | nil => simp at h
    | cons a b => rfl
  · exact h

/-- the `using` block is printed iff there is something to print in it -/
theorem usingPrinted_eq (m : Mods) : usingPrinted m = !(modList m).isEmpty := by
  obtain ⟨l, p, v, b⟩ := m
  rw [modList, isEmpty_sortMods]
  cases b with
  | cons x r =>
    have h : (convMods ⟨l, p, v, x :: r⟩).isEmpty = false := by
      unfold convMods
      exact isEmpty_addKw_of_nonempty _ _ _ _ (isEmpty_addKw_of_nonempty _ _ _ _
        (isEmpty_addKw_of_nonempty _ _ _ _ rfl))
    rw [h]; simp [usingPrinted]
  | nil =>
    cases l <;> cases p <;> cases v <;> simp [usingPrinted, convMods, addKw, hasId]

/-- the ids of the printed `using` block: those of the block, and every keyword modifier -/
theorem hasId_addKw (k' : Bytes) (on : Bool) (k : Bytes) (orig l : List (Bytes × Exp)) :
    hasId k' (addKw on k orig l) = (hasId k' l || (on && !hasId k orig && k == k')) := by
  unfold addKw
  split
  · rename_i h
    simp only [Bool.and_eq_true, Bool.not_eq_true'] at h
    rw [hasId_append, hasId_cons, hasId_nil, h.1, h.2]; simp
  · rename_i h
    cases on <;> cases hh : hasId k orig <;> simp_all

theorem or_absorb (X on H e : Bool) (h : e = true → H = X) :
    (X || (on && !H && e)) = (X || (on && e)) := by
  cases e with
  | false => simp
  | true => rw [h rfl]; cases X <;> cases on <;> rfl

theorem or3_congr (X A B C A' B' C' : Bool) (ha : (X || A) = (X || A')) (hb : (X || B) = (X || B'))
    (hc : (X || C) = (X || C')) : (((X || A) || B) || C) = (((X || A') || B') || C') := by
  cases X <;> simp_all

theorem hasId_modList (m : Mods) (k : Bytes) :
    hasId k (modList m) = (hasId k m.binds || (m.loc && k == sLocal) || (m.pre && k == sPreflight) ||
      (m.vol && k == sVolatile)) := by
  rw [modList, hasId_sortMods, convMods, hasId_addKw, hasId_addKw, hasId_addKw,
    beq_bytes_comm sLocal k, beq_bytes_comm sPreflight k, beq_bytes_comm sVolatile k]
  apply or3_congr
  · exact or_absorb _ _ _ _ (fun h => by rw [beq_iff_eq] at h; rw [h])
  · exact or_absorb _ _ _ _ (fun h => by rw [beq_iff_eq] at h; rw [h])
  · exact or_absorb _ _ _ _ (fun h => by rw [beq_iff_eq] at h; rw [h])

/-! ## the normal form of the modifiers -/

theorem modList_normMods (m : Mods) : modList (normMods m) = modList m := by
  simp only [normMods, modList, convMods_noflags, sortMods_idem]

theorem normMods_idem (m : Mods) : normMods (normMods m) = normMods m := by
  simp only [normMods, modList, convMods_noflags, sortMods_idem]

theorem modList_wf (m : Mods) (h : wfMods m = true) :
    (modList m).all wfMod = true ∧ distinctIds (modList m) = true := by
  simp only [wfMods, Bool.and_eq_true] at h
  rw [modList, all_sortMods, distinct_sortMods]
  exact ⟨all_wfMod_convMods m h.1, distinct_convMods m h.2⟩

theorem wfMods_norm (m : Mods) (h : wfMods m = true) : wfMods (normMods m) = true := by
  have := modList_wf m h
  simp only [wfMods, normMods, Bool.and_eq_true]
  exact this

/-! ## statements -/

theorem all_wfBind_norm (bs : List Bind) (h : bs.all wfBind = true) :
    (bs.map normBind).all wfBind = true := by
  rw [List.all_map]
  rw [List.all_eq_true] at h ⊢
  intro b hb
  have h := h b hb
  simp only [wfBind, Bool.and_eq_true, Function.comp] at h ⊢
  exact ⟨⟨h.1.1, wf_norm _ h.1.2⟩, by simpa [normBind, isSplitVal_norm] using h.2⟩

theorem map_normBind_idem (bs : List Bind) : (bs.map normBind).map normBind = bs.map normBind := by
  rw [List.map_map]
  apply List.map_congr_left
  intro b _
  simp [normBind, norm_norm]

theorem normCall2_idem (c : Call2) : normCall2 (normCall2 c) = normCall2 c := by
  simp only [normCall2, map_normBind_idem, normMods_idem]

theorem wfCall2_norm (c : Call2) (h : wfCall2 c = true) : wfCall2 (normCall2 c) = true := by
  simp only [wfCall2, Bool.and_eq_true] at h ⊢
  obtain ⟨⟨⟨⟨hd, hi⟩, hb⟩, hw⟩, hm⟩ := h
  exact ⟨⟨⟨⟨hd, hi⟩, all_wfBind_norm _ hb⟩, hw⟩, wfMods_norm _ hm⟩

theorem normRet_idem (r : Ret) : normRet (normRet r) = normRet r := by
  simp only [normRet, map_normBind_idem]

theorem all_nosplit_norm (bs : List Bind) :
    (bs.map normBind).all (fun b => !b.split) = bs.all (fun b => !b.split) := by
  rw [List.all_map]; rfl

theorem wfRet_norm (r : Ret) (h : wfRet r = true) : wfRet (normRet r) = true := by
  simp only [wfRet, Bool.and_eq_true] at h ⊢
  exact ⟨⟨all_wfBind_norm _ h.1.1, by rw [normRet, all_nosplit_norm]; exact h.1.2⟩, h.2⟩

theorem map_normCall2_idem (cs : List Call2) : (cs.map normCall2).map normCall2 = cs.map normCall2 := by
  rw [List.map_map]
  apply List.map_congr_left
  intro c _
  exact normCall2_idem c

theorem normBody_idem (b : Body) : normBody (normBody b) = normBody b := by
  simp only [normBody, map_normCall2_idem, normRet_idem]

theorem wfBody_norm (b : Body) (h : wfBody b = true) : wfBody (normBody b) = true := by
  simp only [wfBody, Bool.and_eq_true] at h ⊢
  refine ⟨⟨?_, wfRet_norm _ h.1.2⟩, h.2⟩
  simp only [normBody, List.all_map]
  have hc := h.1.1
  rw [List.all_eq_true] at hc ⊢
  intro c hcm
  exact wfCall2_norm c (hc c hcm)

end Martian.FormatCall2
