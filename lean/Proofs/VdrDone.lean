import Martian.Vdr
import Proofs.VdrInv
import Proofs.VdrReclaim

/-! A consumer node is done only through its completion: no other event (the
producer's own passes, a failure of the consumer, its reset) adds to `doneNodes`. -/
namespace Martian.Vdr

theorem cacheMap_done (c : Cfg) (s : St) : (cacheMap c s).doneNodes = s.doneNodes := by
  unfold cacheMap
  have f1 : Frame s (dropNoFiles c s) := foldRemove_frame (fun a => (c.filesOf a).isEmpty) s.dom s
  have f2 : Frame (dropNoFiles c s) (dropUnused (cacheEntries c s) (dropNoFiles c s)) :=
    foldRemove_frame (fun a => !((cacheEntries c s).any (fun e => e.args.contains a))) _ _
  show (dropUnused (cacheEntries c s) (dropNoFiles c s)).doneNodes = s.doneNodes
  rw [f2.done, f1.done]

theorem normCache_done (c : Cfg) (s : St) : (normCache c s).doneNodes = s.doneNodes := by
  unfold normCache
  split
  · exact cacheMap_done c s
  · rfl

theorem vdrKillSome_done (c : Cfg) (s : St) (done : Bool) : (vdrKillSome c s done).doneNodes = s.doneNodes := by
  unfold vdrKillSome
  dsimp only
  have h1 := normCache_done c s
  generalize normCache c s = s1 at *
  split
  · split <;> exact h1
  · split <;> exact h1

theorem vdrKill_done (c : Cfg) (s : St) : (vdrKill c s).doneNodes = s.doneNodes := by
  unfold vdrKill
  split
  · rfl
  · split
    · exact vdrKillSome_done c s true
    · rfl

theorem kill_done (c : Cfg) (s : St) : (kill c s).doneNodes = s.doneNodes := by
  unfold kill
  split
  · rfl
  · dsimp only
    have h1 : (cleanTmp c s 3).doneNodes = s.doneNodes := (cleanTmp_fields c s 3).2.2.2.2
    generalize cleanTmp c s 3 = s1 at *
    have h2 := (removePostNodes_frame
      ((s1.postNodes.map (·.1)).filter (fun n => s1.doneNodes.contains n)) s1).done
    generalize removePostNodes s1 _ = s2 at *
    split
    · split
      · rw [vdrKillSome_done, h2, h1]
      · rw [vdrKill_done, h2, h1]
    · split
      · rw [vdrKillSome_done, h2, h1]
      · rw [h2, h1]

theorem step_done (c : Cfg) (s : St) (e : Ev) :
    ∀ n ∈ (step c s e).doneNodes, n ∈ s.doneNodes ∨ e = .nodeDone n := by
  intro n hn
  cases e with
  | nodeDone m =>
    simp only [step, List.mem_cons] at hn
    rcases hn with rfl | hn
    · exact Or.inr rfl
    · exact Or.inl hn
  | nodeFailed m => exact Or.inl hn
  | nodeReset m => exact Or.inl hn
  | restart => exact Or.inl hn
  | removeEmpty =>
    have f := foldRemove_frame (fun a => (c.namesOf a).isEmpty) s.dom s
    have : (step c s .removeEmpty).doneNodes = s.doneNodes := f.done
    rw [this] at hn; exact Or.inl hn
  | cacheMap =>
    have : (step c s .cacheMap).doneNodes = s.doneNodes := cacheMap_done c s
    rw [this] at hn; exact Or.inl hn
  | early upto =>
    have hn' : n ∈ (if s.final then s else cleanTmp c s (min upto 3)).doneNodes := hn
    split at hn'
    · exact Or.inl hn'
    · rw [(cleanTmp_fields c s _).2.2.2.2] at hn'; exact Or.inl hn'
  | kill =>
    have : (step c s .kill).doneNodes = s.doneNodes := kill_done c s
    rw [this] at hn; exact Or.inl hn

theorem run_done (c : Cfg) (s : St) (evs : List Ev) :
    ∀ n ∈ (run c s evs).doneNodes, n ∈ s.doneNodes ∨ Ev.nodeDone n ∈ evs := by
  unfold run
  induction evs generalizing s with
  | nil => intro n hn; exact Or.inl hn
  | cons e r ih =>
    intro n hn
    rcases ih (step c s e) n hn with h | h
    · rcases step_done c s e n h with h1 | h1
      · exact Or.inl h1
      · exact Or.inr (h1 ▸ List.mem_cons_self)
    · exact Or.inr (List.mem_cons_of_mem _ h)

end Martian.Vdr
