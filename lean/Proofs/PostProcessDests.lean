/-
C13 `dest_injective`, global: the destinations of all file leaves of one
traversal are pairwise incomparable (neither is a prefix of the other — in
particular pairwise distinct), for every well-formed type.
-/
import Martian.PostProcess
import Martian.PostProcessDefs
import Proofs.PostProcess
import Proofs.PostProcessNames
import Proofs.PostProcessLeaves

namespace Martian.PostProcess

/-! ## prefixes, propositionally -/

theorem isPrefix_iff {p q : Path} : isPrefix p q = true ↔ ∃ s, q = p ++ s := by
  constructor
  · intro h
    cases hq : stripPrefix p q with
    | none => simp [isPrefix, hq] at h
    | some s => exact ⟨s, stripPrefix_some hq⟩
  · rintro ⟨s, rfl⟩
    exact isPrefix_append p s

theorem Under.trans_append {b c d : Path} (h : Under (b ++ c) d) : Under b d := by
  obtain ⟨s, rfl⟩ := h
  exact ⟨c ++ s, by simp⟩

theorem Under.refl (b : Path) : Under b b := ⟨[], by simp⟩

/-- a leaf whose destination lies at or below `b/n` has its outs directory at or below `b` -/
theorem under_outs_of_dest {b a : Path} {n m : String} (h : Under (b ++ [n]) (a ++ [m])) : Under b a := by
  obtain ⟨suf, hs⟩ := h
  rcases List.eq_nil_or_concat suf with e | ⟨s', z, e⟩
  · subst e
    rw [List.append_nil] at hs
    have := (List.append_inj' hs rfl).1
    exact ⟨[], by simp [this]⟩
  · subst e
    have hs' : a ++ [m] = (b ++ [n] ++ s') ++ [z] := by rw [hs]; simp
    have := (List.append_inj' hs' rfl).1
    exact ⟨[n] ++ s', by rw [this]; simp⟩

theorem Incomp.symm {a b : Path} (h : Incomp a b) : Incomp b a := ⟨h.2, h.1⟩

theorem Incomp.ne {a b : Path} (h : Incomp a b) : a ≠ b := by
  intro e; subst e
  have := h.1
  rw [isPrefix_self] at this
  cases this

theorem not_isPrefix_of_siblings {b : Path} {n1 n2 : String} {d1 d2 : Path} (hn : n1 ≠ n2)
    (h1 : Under (b ++ [n1]) d1) (h2 : Under (b ++ [n2]) d2) : isPrefix d1 d2 = false := by
  cases h : isPrefix d1 d2 with
  | false => rfl
  | true =>
    obtain ⟨s, hs⟩ := isPrefix_iff.mp h
    obtain ⟨s1, rfl⟩ := h1
    obtain ⟨s2, rfl⟩ := h2
    have : (b ++ [n2]) ++ s2 = (b ++ [n1]) ++ (s1 ++ s) := by rw [hs]; simp
    exact absurd (sibling_subtrees_disjoint b n2 n1 s2 (s1 ++ s) this).symm hn

/-- destinations below different children of one directory are incomparable -/
theorem incomp_of_siblings {b : Path} {n1 n2 : String} {d1 d2 : Path} (hn : n1 ≠ n2)
    (h1 : Under (b ++ [n1]) d1) (h2 : Under (b ++ [n2]) d2) : Incomp d1 d2 :=
  ⟨not_isPrefix_of_siblings hn h1 h2, not_isPrefix_of_siblings (Ne.symm hn) h2 h1⟩

/-! ## flat lists of parts -/

theorem mem_leavesKeys {g : String → List Leaf} {ks : List String} {l : Leaf}
    (h : l ∈ leavesKeys g ks) : ∃ k ∈ ks, l ∈ g k := by
  induction ks with
  | nil => simp [leavesKeys] at h
  | cons k ks ih =>
    simp only [leavesKeys, List.mem_append] at h
    rcases h with h | h
    · exact ⟨k, by simp, h⟩
    · obtain ⟨k', hk', hl⟩ := ih h
      exact ⟨k', by simp [hk'], hl⟩

theorem pairwise_leavesKeys (g : String → List Leaf) (ks : List String) (hnd : ks.Nodup)
    (hself : ∀ k ∈ ks, (g k).Pairwise LeafIncomp)
    (hcross : ∀ k1 ∈ ks, ∀ k2 ∈ ks, k1 ≠ k2 → ∀ l1 ∈ g k1, ∀ l2 ∈ g k2, LeafIncomp l1 l2) :
    (leavesKeys g ks).Pairwise LeafIncomp := by
  induction ks with
  | nil => simp [leavesKeys]
  | cons k ks ih =>
    simp only [leavesKeys, List.pairwise_append]
    have hnd' := List.nodup_cons.mp hnd
    refine ⟨hself k (by simp), ih hnd'.2 (fun k' hk' => hself k' (by simp [hk']))
      (fun k1 h1 k2 h2 => hcross k1 (by simp [h1]) k2 (by simp [h2])), ?_⟩
    intro l1 hl1 l2 hl2
    obtain ⟨k', hk', hl'⟩ := mem_leavesKeys hl2
    have : k ≠ k' := fun e => hnd'.1 (e ▸ hk')
    exact hcross k (by simp) k' (by simp [hk']) this l1 hl1 l2 hl'

theorem mem_leavesIdx {g : Nat → J → List Leaf} {i : Nat} {xs : List J} {l : Leaf}
    (h : l ∈ leavesIdx g i xs) : ∃ j x, i ≤ j ∧ j < i + xs.length ∧ l ∈ g j x := by
  induction xs generalizing i with
  | nil => simp [leavesIdx] at h
  | cons x xs ih =>
    simp only [leavesIdx, List.mem_append] at h
    rcases h with h | h
    · exact ⟨i, x, Nat.le_refl _, by simp, h⟩
    · obtain ⟨j, y, h1, h2, h3⟩ := ih h
      exact ⟨j, y, by omega, by simp at h2 ⊢; omega, h3⟩

theorem pairwise_leavesIdx (g : Nat → J → List Leaf) (n : Nat)
    (hself : ∀ i x, (g i x).Pairwise LeafIncomp)
    (hcross : ∀ i j x y, i < n → j < n → i ≠ j → ∀ l1 ∈ g i x, ∀ l2 ∈ g j y, LeafIncomp l1 l2)
    (i : Nat) (xs : List J) (hn : i + xs.length ≤ n) :
    (leavesIdx g i xs).Pairwise LeafIncomp := by
  induction xs generalizing i with
  | nil => simp [leavesIdx]
  | cons x xs ih =>
    simp only [leavesIdx, List.pairwise_append]
    simp only [List.length_cons] at hn
    refine ⟨hself i x, ih (i + 1) (by omega), ?_⟩
    intro l1 hl1 l2 hl2
    obtain ⟨j, y, h1, h2, h3⟩ := mem_leavesIdx hl2
    exact hcross i j x y (by omega) (by omega) (by omega) l1 hl1 l2 h3

/-! ## sorting and de-duplication keep distinctness -/

theorem mem_insertSorted {k x : String} {l : List String} :
    x ∈ insertSorted k l ↔ x = k ∨ x ∈ l := by
  induction l with
  | nil => simp [insertSorted]
  | cons a r ih =>
    simp only [insertSorted]
    split
    · simp
    · simp only [List.mem_cons, ih]
      constructor
      · rintro (h | h | h)
        · exact Or.inr (Or.inl h)
        · exact Or.inl h
        · exact Or.inr (Or.inr h)
      · rintro (h | h | h)
        · exact Or.inr (Or.inl h)
        · exact Or.inl h
        · exact Or.inr (Or.inr h)

theorem nodup_insertSorted {k : String} {l : List String} (hk : k ∉ l) (h : l.Nodup) :
    (insertSorted k l).Nodup := by
  induction l with
  | nil => simp [insertSorted]
  | cons a r ih =>
    simp only [insertSorted]
    have hc := List.nodup_cons.mp h
    split
    · exact List.nodup_cons.mpr ⟨hk, h⟩
    · refine List.nodup_cons.mpr ⟨?_, ih (fun hh => hk (by simp [hh])) hc.2⟩
      intro hm
      rcases mem_insertSorted.mp hm with e | e
      · exact hk (by simp [e])
      · exact hc.1 e

theorem mem_sortStrings {x : String} {l : List String} : x ∈ sortStrings l ↔ x ∈ l := by
  induction l with
  | nil => simp [sortStrings]
  | cons a r ih => simp [sortStrings, mem_insertSorted, ih]

theorem nodup_sortStrings {l : List String} (h : l.Nodup) : (sortStrings l).Nodup := by
  induction l with
  | nil => simp [sortStrings]
  | cons a r ih =>
    have hc := List.nodup_cons.mp h
    exact nodup_insertSorted (fun hm => hc.1 (mem_sortStrings.mp hm)) (ih hc.2)

theorem mem_dedup {x : String} {l : List String} : x ∈ dedup l ↔ x ∈ l := by
  induction l with
  | nil => simp [dedup]
  | cons a r ih =>
    simp only [dedup]
    split
    · next hc =>
      have : a ∈ r := by simpa using hc
      simp only [ih, List.mem_cons]
      constructor
      · exact Or.inr
      · rintro (e | e)
        · exact e ▸ this
        · exact e
    · simp [ih]

theorem nodup_dedup (l : List String) : (dedup l).Nodup := by
  induction l with
  | nil => simp [dedup]
  | cons a r ih =>
    simp only [dedup]
    split
    · exact ih
    · next hc =>
      have : a ∉ r := by simpa using hc
      exact List.nodup_cons.mpr ⟨fun hm => this (mem_dedup.mp hm), ih⟩

/-! ## names -/

/-- the derived name of a map entry / array element is injective in its key / index name -/
theorem outFilename_inj (e : Ty) (a b : String) (h : outFilename e a "" = outFilename e b "") : a = b := by
  cases e with
  | file ext =>
    simp only [outFilename, ne_eq, not_true_eq_false, if_false] at h
    split at h
    · exact h
    · exact (String.append_left_inj ext).mp h |> (String.append_left_inj ".").mp
  | scalar => simpa [outFilename] using h
  | arr e k => simpa [outFilename] using h
  | tmap e => simpa [outFilename] using h
  | struct ms => simpa [outFilename] using h

theorem mem_memberNames {ms : List (String × String × Ty)} {id on : String} {t : Ty}
    (hm : (id, on, t) ∈ ms) (hf : hasFile t = true) : outFilename t id on ∈ memberNames ms := by
  induction ms with
  | nil => cases hm
  | cons m ms ih =>
    obtain ⟨id', on', t'⟩ := m
    simp only [List.mem_cons] at hm
    rcases hm with e | hm
    · cases e
      simp [memberNames, hf]
    · simp only [memberNames]
      split
      · exact List.mem_cons_of_mem _ (ih hm)
      · exact ih hm

/-- two file-typed members with different ids have different output file names -/
theorem member_names_distinct {ms : List (String × String × Ty)} (hnd : (memberNames ms).Nodup)
    {id1 on1 id2 on2 : String} {t1 t2 : Ty} (h1 : (id1, on1, t1) ∈ ms) (h2 : (id2, on2, t2) ∈ ms)
    (hne : id1 ≠ id2) (f1 : hasFile t1 = true) (f2 : hasFile t2 = true) :
    outFilename t1 id1 on1 ≠ outFilename t2 id2 on2 := by
  induction ms with
  | nil => cases h1
  | cons m ms ih =>
    obtain ⟨id', on', t'⟩ := m
    simp only [List.mem_cons] at h1 h2
    have hnd' : hasFile t' = true → outFilename t' id' on' ∉ memberNames ms ∧ (memberNames ms).Nodup := by
      intro hf
      simp only [memberNames, hf, if_true] at hnd
      exact List.nodup_cons.mp hnd
    have htail : (memberNames ms).Nodup := by
      cases hf : hasFile t' with
      | true => exact (hnd' hf).2
      | false => simpa [memberNames, hf] using hnd
    rcases h1 with e1 | h1 <;> rcases h2 with e2 | h2
    · cases e1; cases e2; exact absurd rfl hne
    · cases e1
      intro e
      exact (hnd' f1).1 (e ▸ mem_memberNames h2 f2)
    · cases e2
      intro e
      exact (hnd' f2).1 (e ▸ mem_memberNames h1 f1)
    · exact ih htail h1 h2

/-! ## well-formed types (what the compiler guarantees) -/

theorem wfMs_mem {ms : List (String × String × Ty)} (h : wfMs ms = true) {id on : String} {t : Ty}
    (hm : (id, on, t) ∈ ms) : wfTy t = true := by
  induction ms with
  | nil => cases hm
  | cons m ms ih =>
    obtain ⟨id', on', t'⟩ := m
    simp only [wfMs, Bool.and_eq_true] at h
    simp only [List.mem_cons] at hm
    rcases hm with e | hm
    · cases e; exact h.1
    · exact ih h.2 hm

theorem leaves_nofile (t : Ty) (id on : String) (v : J) (o : Path) (h : hasFile t = false) :
    leavesOf t id on v o = [] := by
  cases t with
  | scalar => simp [leavesOf]
  | file ext => simp [hasFile] at h
  | arr e k => simp [hasFile] at h; simp [leavesOf, h]
  | tmap e => simp [hasFile] at h; simp [leavesOf, h]
  | struct ms => simp [hasFile] at h; simp [leavesOf, h]

theorem pad_names_ne (e : Ty) (n i j : Nat) (hi : i < n) (hj : j < n) (hne : i ≠ j) :
    outFilename e (pad (width n) i) "" ≠ outFilename e (pad (width n) j) "" :=
  fun h => hne (array_names_distinct n i j hi hj (outFilename_inj e _ _ h))

theorem arrLeaves_good (e : Ty) (g : LeafFn) (hg : GoodFn e g) (k : Nat) (v : J) (o : Path) :
    (∀ l ∈ arrLeaves g k v o, Under o l.dest) ∧ (arrLeaves g k v o).Pairwise LeafIncomp := by
  induction k generalizing v o with
  | zero =>
    cases v with
    | arr xs =>
      simp only [arrLeaves]
      refine ⟨fun l hl => ?_, ?_⟩
      · obtain ⟨j, x, _, _, h3⟩ := mem_leavesIdx hl
        exact ((hg _ _ _ _).1 l h3).trans_append
      · apply pairwise_leavesIdx _ xs.length
        · intro i x; exact (hg _ _ _ _).2
        · intro i j x y hi hj hne l1 h1 l2 h2
          exact incomp_of_siblings (pad_names_ne e xs.length i j hi hj hne)
            ((hg _ _ _ _).1 l1 h1) ((hg _ _ _ _).1 l2 h2)
        · simp
    | null => simp [arrLeaves]
    | lit s => simp [arrLeaves]
    | str s => simp [arrLeaves]
    | obj kvs => simp [arrLeaves]
  | succ k ih =>
    cases v with
    | arr xs =>
      simp only [arrLeaves]
      have hunder : ∀ i x, ∀ l ∈ arrElemLeaves (arrLeaves g k) o (width xs.length) i x,
          Under (o ++ [pad (width xs.length) i]) l.dest := by
        intro i x l hl
        cases x with
        | null => simp [arrElemLeaves] at hl
        | arr ys => exact (ih _ _).1 l hl
        | lit s => exact (ih _ _).1 l hl
        | str s => exact (ih _ _).1 l hl
        | obj kvs => exact (ih _ _).1 l hl
      refine ⟨fun l hl => ?_, ?_⟩
      · obtain ⟨j, x, _, _, h3⟩ := mem_leavesIdx hl
        exact (hunder j x l h3).trans_append
      · apply pairwise_leavesIdx _ xs.length
        · intro i x
          cases x with
          | null => simp [arrElemLeaves]
          | arr ys => exact (ih _ _).2
          | lit s => exact (ih _ _).2
          | str s => exact (ih _ _).2
          | obj kvs => exact (ih _ _).2
        · intro i j x y hi hj hne l1 h1 l2 h2
          exact incomp_of_siblings
            (fun h => hne (array_names_distinct xs.length i j hi hj h))
            (hunder i x l1 h1) (hunder j y l2 h2)
        · simp
    | null => simp [arrLeaves]
    | lit s => simp [arrLeaves]
    | str s => simp [arrLeaves]
    | obj kvs => simp [arrLeaves]

theorem mapLeaves_good (e : Ty) (g : LeafFn) (hg : GoodFn e g) (v : J) (o : Path) :
    (∀ l ∈ mapLeaves g v o, Under o l.dest) ∧ (mapLeaves g v o).Pairwise LeafIncomp := by
  cases v with
  | obj kvs =>
    simp only [mapLeaves]
    refine ⟨fun l hl => ?_, ?_⟩
    · obtain ⟨k, _, h⟩ := mem_leavesKeys hl
      exact ((hg _ _ _ _).1 l h).trans_append
    · apply pairwise_leavesKeys
      · exact nodup_sortStrings (nodup_dedup _)
      · intro k _; exact (hg _ _ _ _).2
      · intro k1 _ k2 _ hne l1 h1 l2 h2
        exact incomp_of_siblings (fun h => hne (outFilename_inj e _ _ h))
          ((hg _ _ _ _).1 l1 h1) ((hg _ _ _ _).1 l2 h2)
  | null => simp [mapLeaves]
  | lit s => simp [mapLeaves]
  | str s => simp [mapLeaves]
  | arr xs => simp [mapLeaves]

theorem structLeaves_good (ms : List (String × String × Ty)) (gs : MemberLeaves) (hg : GoodMs ms gs)
    (hkeys : gs.map Prod.fst = ms.map (·.1)) (hids : (ms.map (·.1)).Nodup)
    (hnames : (memberNames ms).Nodup) (v : J) (o : Path) :
    (∀ l ∈ structLeaves gs v o, Under o l.dest) ∧ (structLeaves gs v o).Pairwise LeafIncomp := by
  cases v with
  | obj kvs =>
    cases kvs with
    | nil => simp [structLeaves]
    | cons kv kvs =>
      simp only [structLeaves]
      refine ⟨fun l hl => ?_, ?_⟩
      · obtain ⟨k, _, h⟩ := mem_leavesKeys hl
        obtain ⟨on, t, _, _, hu⟩ := (hg _ _ _).2 l h
        exact hu.trans_append
      · apply pairwise_leavesKeys
        · rw [hkeys]; exact nodup_sortStrings hids
        · intro k _; exact (hg _ _ _).1
        · intro k1 _ k2 _ hne l1 h1 l2 h2
          obtain ⟨on1, t1, m1, f1, u1⟩ := (hg _ _ _).2 l1 h1
          obtain ⟨on2, t2, m2, f2, u2⟩ := (hg _ _ _).2 l2 h2
          exact incomp_of_siblings (member_names_distinct hnames m1 m2 hne f1 f2) u1 u2
  | null => simp [structLeaves]
  | lit s => simp [structLeaves]
  | str s => simp [structLeaves]
  | arr xs => simp [structLeaves]

mutual
theorem leavesOf_good (ty : Ty) (h : wfTy ty = true) : GoodFn ty (leavesOf ty) := by
  intro id on v outs
  cases ty with
  | scalar => simp [leavesOf]
  | file ext =>
    cases v <;> simp [leavesOf, Leaf.dest, Under.refl]
  | arr e k =>
    cases he : hasFile e with
    | false => simp [leavesOf, he]
    | true =>
      have hg := leavesOf_good e (by simpa [wfTy] using h)
      have := fun v => arrLeaves_good e (leavesOf e) hg k v (outs ++ [outFilename (.arr e k) id on])
      cases v with
      | null => simp [leavesOf, he]
      | lit s => simpa [leavesOf, he] using this (.lit s)
      | str s => simpa [leavesOf, he] using this (.str s)
      | arr xs => simpa [leavesOf, he] using this (.arr xs)
      | obj kvs => simpa [leavesOf, he] using this (.obj kvs)
  | tmap e =>
    cases he : hasFile e with
    | false => simp [leavesOf, he]
    | true =>
      have hg := leavesOf_good e (by simpa [wfTy] using h)
      have := fun v => mapLeaves_good e (leavesOf e) hg v (outs ++ [outFilename (.tmap e) id on])
      cases v with
      | null => simp [leavesOf, he]
      | lit s => simpa [leavesOf, he] using this (.lit s)
      | str s => simpa [leavesOf, he] using this (.str s)
      | arr xs => simpa [leavesOf, he] using this (.arr xs)
      | obj kvs => simpa [leavesOf, he] using this (.obj kvs)
  | struct ms =>
    cases he : hasFileMs ms with
    | false => simp [leavesOf, he]
    | true =>
      simp only [wfTy, Bool.and_eq_true, decide_eq_true_eq] at h
      have hg := leavesMs_good ms ms h.2 (fun _ hm => hm)
      have := fun v => structLeaves_good ms (leavesMs ms) hg (leavesMs_keys ms) h.1.2
        (noDupNames_sound ms [] h.1.1).1 v (outs ++ [outFilename (.struct ms) id on])
      cases v with
      | null => simp [leavesOf, he]
      | lit s => simpa [leavesOf, he] using this (.lit s)
      | str s => simpa [leavesOf, he] using this (.str s)
      | arr xs => simpa [leavesOf, he] using this (.arr xs)
      | obj kvs => simpa [leavesOf, he] using this (.obj kvs)
theorem leavesMs_good (all ms : List (String × String × Ty)) (h : wfMs ms = true)
    (hsub : ∀ m, m ∈ ms → m ∈ all) : GoodMs all (leavesMs ms) := by
  intro k v o
  cases ms with
  | nil => simp [leavesMs, memberLeaves]
  | cons m ms =>
    obtain ⟨id, on, t⟩ := m
    simp only [wfMs, Bool.and_eq_true] at h
    simp only [leavesMs, memberLeaves]
    by_cases hk : id = k
    · simp only [hk, if_true]
      have hg := leavesOf_good t h.1 k on v o
      refine ⟨hg.2, fun l hl => ⟨on, t, hk ▸ hsub _ (by simp), ?_, hg.1 l hl⟩⟩
      cases hf : hasFile t with
      | true => rfl
      | false => rw [leaves_nofile t k on v o hf] at hl; cases hl
    · simp only [hk, if_false]
      exact leavesMs_good all ms h.2 (fun m hm => hsub m (by simp [hm])) k v o
end

/-! ## the whole record -/

theorem mem_leavesRec {params : List (String × String × Ty)} {outs : List (String × J)} {o : Path}
    {l : Leaf} (h : l ∈ leavesRec params outs o) :
    ∃ id on ty v, (id, on, ty) ∈ params ∧ l ∈ leavesOf ty id on v o := by
  induction params with
  | nil => simp [leavesRec] at h
  | cons m rest ih =>
    obtain ⟨id, on, ty⟩ := m
    simp only [leavesRec] at h
    cases hl : lookupLast outs id with
    | none =>
      rw [hl] at h
      obtain ⟨id', on', ty', v, hm, hx⟩ := ih h
      exact ⟨id', on', ty', v, by simp [hm], hx⟩
    | some v =>
      rw [hl] at h
      simp only [List.mem_append] at h
      rcases h with h | h
      · exact ⟨id, on, ty, v, by simp, h⟩
      · obtain ⟨id', on', ty', v', hm, hx⟩ := ih h
        exact ⟨id', on', ty', v', by simp [hm], hx⟩

theorem leavesRec_pairwise_aux (all params : List (String × String × Ty)) (outs : List (String × J))
    (o : Path) (hwf : wfMs all = true) (hnames : (memberNames all).Nodup)
    (hsub : ∀ m, m ∈ params → m ∈ all) (hids : (params.map (·.1)).Nodup) :
    (leavesRec params outs o).Pairwise LeafIncomp := by
  induction params with
  | nil => simp [leavesRec]
  | cons m rest ih =>
    obtain ⟨id, on, ty⟩ := m
    have hids' : id ∉ rest.map (·.1) ∧ (rest.map (·.1)).Nodup := List.nodup_cons.mp hids
    have ihr := ih (fun m hm => hsub m (by simp [hm])) hids'.2
    simp only [leavesRec]
    cases lookupLast outs id with
    | none => exact ihr
    | some v =>
      have hty : wfTy ty = true := wfMs_mem hwf (hsub (id, on, ty) (by simp))
      have hg := leavesOf_good ty hty id on v o
      simp only [List.pairwise_append]
      refine ⟨hg.2, ihr, fun l1 h1 l2 h2 => ?_⟩
      obtain ⟨id', on', ty', v', hm, hx⟩ := mem_leavesRec h2
      have hne : id ≠ id' := by
        intro e
        apply hids'.1
        rw [e]
        exact List.mem_map.mpr ⟨_, hm, rfl⟩
      have f1 : hasFile ty = true := by
        cases hf : hasFile ty with
        | true => rfl
        | false => rw [leaves_nofile ty id on v o hf] at h1; cases h1
      have f2 : hasFile ty' = true := by
        cases hf : hasFile ty' with
        | true => rfl
        | false => rw [leaves_nofile ty' id' on' v' o hf] at hx; cases hx
      have hg' := leavesOf_good ty' (wfMs_mem hwf (hsub (id', on', ty') (by simp [hm]))) id' on' v' o
      exact incomp_of_siblings
        (member_names_distinct hnames (hsub (id, on, ty) (by simp)) (hsub (id', on', ty') (by simp [hm]))
          hne f1 f2)
        (hg.1 l1 h1) (hg'.1 l2 hx)

/-- GLOBAL `dest_injective`: for a well-formed output signature, the
destinations of all file leaves of the record are pairwise incomparable. -/
theorem leavesRec_pairwise (params : List (String × String × Ty)) (outs : List (String × J)) (o : Path)
    (h : wfParams params = true) : (leavesRec params outs o).Pairwise LeafIncomp := by
  simp only [wfParams, Bool.and_eq_true, decide_eq_true_eq] at h
  exact leavesRec_pairwise_aux params params outs o h.2 (noDupNames_sound params [] h.1.1).1
    (fun _ hm => hm) h.1.2

theorem pairwise_incomp_nodup {ls : List Leaf} (h : ls.Pairwise LeafIncomp) :
    (ls.map Leaf.dest).Nodup := by
  induction ls with
  | nil => simp
  | cons l ls ih =>
    have hc := List.pairwise_cons.mp h
    simp only [List.map_cons, List.nodup_cons, List.mem_map, not_exists, not_and]
    exact ⟨fun l' hl' e => (hc.1 l' hl').ne e.symm, ih hc.2⟩

/-- all leaves of the record lie below the outs directory -/
theorem leavesRec_under (params : List (String × String × Ty)) (outs : List (String × J)) (o : Path)
    (h : wfParams params = true) : ∀ l ∈ leavesRec params outs o, Under o l.outs := by
  intro l hl
  simp only [wfParams, Bool.and_eq_true, decide_eq_true_eq] at h
  obtain ⟨id, on, ty, v, hm, hx⟩ := mem_leavesRec hl
  exact under_outs_of_dest ((leavesOf_good ty (wfMs_mem h.2 hm) id on v o).1 l hx)

end Martian.PostProcess
