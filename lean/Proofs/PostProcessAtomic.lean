/-
C13: the record file under a write that is cut short — the two steps of
`writeAtomicAt` (temp file, rename) and the in-place writer as operations on a
file system of byte files (`BFS`).
-/
import Martian.PostProcess
import Martian.PostProcessDefs

namespace Martian.PostProcess

theorem str_append_tmp_ne (n : String) : n ++ ".tmp" ≠ n := by
  intro h
  have := congrArg String.length h
  simp [String.length_append] at this

/-- the temp file is never the record itself -/
theorem tmpPath_ne (target : Path) : tmpPath target ≠ target := by
  rcases List.eq_nil_or_concat target with e | ⟨d, n, e⟩
  · subst e; simp [tmpPath]
  · subst e
    intro h
    simp [tmpPath, List.concat_eq_append] at h

/-- the state of the record path and of its `.tmp` sibling after ANY cut of `writeAtomicAt` -/
theorem writeAtomicCut_spec (fs : BFS) (target : Path) (new : List UInt8) (k : Nat) :
    (k = 0 → writeAtomicCut fs target new k = fs) ∧
    (0 < k → k ≤ new.length + 1 →
      writeAtomicCut fs target new k target = fs target ∧
      writeAtomicCut fs target new k (tmpPath target) = some (new.take (k - 1))) ∧
    (new.length + 1 < k →
      writeAtomicCut fs target new k target = some new ∧
      writeAtomicCut fs target new k (tmpPath target) = none) ∧
    (∀ q, q ≠ target → q ≠ tmpPath target → writeAtomicCut fs target new k q = fs q) := by
  have hne := tmpPath_ne target
  refine ⟨fun h => by simp [writeAtomicCut, h], fun h0 h1 => ?_, fun h => ?_, fun q h1 h2 => ?_⟩
  · have : k ≠ 0 := by omega
    simp [writeAtomicCut, this, h1, BFS.set, Ne.symm hne]
  · have h0 : k ≠ 0 := by omega
    have h1 : ¬ k ≤ new.length + 1 := by omega
    simp [writeAtomicCut, h0, h1, BFS.rename, BFS.set, hne]
  · unfold writeAtomicCut
    split
    · rfl
    · split <;> simp [BFS.rename, BFS.set, h1, h2]

/-- `record_old_or_new` on the file system: if the record path holds `old`,
then after `writeAtomicAt` has been cut at ANY point `k` it holds exactly `old`
or exactly `new`; it holds `new` exactly when the rename was reached. -/
theorem writeAtomicCut_record (fs : BFS) (target : Path) (old new : List UInt8) (k : Nat)
    (h : fs target = some old) :
    (writeAtomicCut fs target new k target = some old ∨ writeAtomicCut fs target new k target = some new) ∧
    (k ≤ new.length + 1 → writeAtomicCut fs target new k target = some old) ∧
    (new.length + 1 < k → writeAtomicCut fs target new k target = some new) := by
  obtain ⟨s0, s1, s2, _⟩ := writeAtomicCut_spec fs target new k
  have hle : k ≤ new.length + 1 → writeAtomicCut fs target new k target = some old := by
    intro hk
    by_cases h0 : k = 0
    · rw [s0 h0, h]
    · rw [(s1 (by omega) hk).1, h]
  refine ⟨?_, hle, fun hk => (s2 hk).1⟩
  by_cases hk : k ≤ new.length + 1
  · exact Or.inl (hle hk)
  · exact Or.inr (s2 (by omega)).1

/-- the in-place writer: after the open and `j` bytes the record path holds the `j`-byte prefix -/
theorem writeInplaceCut_record (fs : BFS) (target : Path) (new : List UInt8) (k : Nat) (h0 : 0 < k) :
    writeInplaceCut fs target new k target = some (new.take (k - 1)) := by
  have : k ≠ 0 := by omega
  simp [writeInplaceCut, this, BFS.set]

/-- the older byte-level summary `recordAfterFault` is what the record path holds in the file-system model -/
theorem recordAfterFault_eq (w : RecordWriter) (fs : BFS) (target : Path) (old new : List UInt8) (k : Nat)
    (h : fs target = some old) :
    writeCut w fs target new k target = some (recordAfterFault w old new k) := by
  cases w with
  | atomic =>
    obtain ⟨_, h1, h2⟩ := writeAtomicCut_record fs target old new k h
    simp only [writeCut, recordAfterFault]
    split
    · exact h2 (by omega)
    · exact h1 (by omega)
  | inplace =>
    simp only [writeCut, recordAfterFault]
    split
    · rename_i hk; simp [writeInplaceCut, hk, h]
    · rename_i hk; exact writeInplaceCut_record fs target new k (by omega)

end Martian.PostProcess
