import Martian.Vdr
import Proofs.VdrInv

/-! What a non-volatile fork can lose: temp entries, and chunk-level files when it splits. -/
namespace Martian.Vdr

def Losable (c : Cfg) (d : DiskEnt) : Prop := isTmp d.kind = true ∨ (c.splits = true ∧ d.kind = .chunk)

theorem cacheMap_removed (c : Cfg) (s : St) : (cacheMap c s).removed = s.removed := by
  unfold cacheMap
  have f1 : Frame s (dropNoFiles c s) := foldRemove_frame (fun a => (c.filesOf a).isEmpty) s.dom s
  have f2 : Frame (dropNoFiles c s) (dropUnused (cacheEntries c s) (dropNoFiles c s)) :=
    foldRemove_frame (fun a => !((cacheEntries c s).any (fun e => e.args.contains a))) _ _
  show (dropUnused (cacheEntries c s) (dropNoFiles c s)).removed = s.removed
  rw [f2.removed, f1.removed]

theorem cleanPhase_removed (c : Cfg) (s : St) (ph : Nat) :
    ∀ d ∈ (cleanPhase c s ph).removed, d ∈ s.removed ∨ isTmp d.kind = true := by
  intro d hd
  unfold cleanPhase at hd
  split at hd
  · exact Or.inl hd
  · simp only [List.mem_append, List.mem_filter] at hd
    rcases hd with hd | ⟨_, hk⟩
    · exact Or.inl hd
    · right
      have : d.kind = .tmp ph := by simpa using hk
      rw [this]; rfl

theorem cleanTmp_removed (c : Cfg) (s : St) (upto : Nat) :
    ∀ d ∈ (cleanTmp c s upto).removed, d ∈ s.removed ∨ isTmp d.kind = true := by
  rw [cleanTmp_eq]
  generalize List.range upto = l
  induction l generalizing s with
  | nil => intro d hd; exact Or.inl hd
  | cons x r ih =>
    intro d hd
    rcases ih (cleanPhase c s x) d hd with h | h
    · exact cleanPhase_removed c s x d h
    · exact Or.inr h

theorem kill_removed_nonvol (c : Cfg) (s : St) (hv : c.volatile = false) (hs : c.strict = false) :
    ∀ d ∈ (kill c s).removed, d ∈ s.removed ∨ Losable c d := by
  intro d hd
  unfold kill at hd
  split at hd
  · exact Or.inl hd
  · dsimp only at hd
    have h1 := cleanTmp_removed c s 3
    generalize cleanTmp c s 3 = s1 at *
    have f2 := removePostNodes_frame ((s1.postNodes.map (·.1)).filter (fun n => s1.doneNodes.contains n)) s1
    generalize removePostNodes s1 _ = s2 at *
    have back : d ∈ s2.removed → d ∈ s.removed ∨ Losable c d := by
      intro h
      rw [f2.removed] at h
      rcases h1 d h with h | h
      · exact Or.inl h
      · exact Or.inr (Or.inl h)
    simp only [hs] at hd
    split at hd
    · simp only [Bool.false_eq_true, if_false] at hd
      unfold vdrKill at hd
      split at hd
      · exact back hd
      · simp only [hv, Bool.false_eq_true, if_false] at hd
        simp only [List.mem_append] at hd
        rcases hd with hd | hd
        · exact back hd
        · right; right
          split at hd
          · rename_i hsp
            simp only [List.mem_filter] at hd
            exact ⟨hsp, by simpa using hd.2⟩
          · cases hd
    · simp only [Bool.false_eq_true, if_false] at hd
      exact back hd

theorem step_removed_nonvol (c : Cfg) (s : St) (hv : c.volatile = false) (hs : c.strict = false) (e : Ev) :
    ∀ d ∈ (step c s e).removed, d ∈ s.removed ∨ Losable c d := by
  intro d hd
  cases e with
  | nodeDone n => exact Or.inl hd
  | nodeFailed n => exact Or.inl hd
  | nodeReset n => exact Or.inl hd
  | restart => exact Or.inl hd
  | removeEmpty =>
    left
    have f := foldRemove_frame (fun a => (c.namesOf a).isEmpty) s.dom s
    have : (step c s .removeEmpty).removed = s.removed := f.removed
    rw [this] at hd; exact hd
  | cacheMap =>
    left
    have : (step c s .cacheMap).removed = s.removed := cacheMap_removed c s
    rw [this] at hd; exact hd
  | early upto =>
    have hd' : d ∈ (if s.final then s else cleanTmp c s (min upto 3)).removed := hd
    split at hd'
    · exact Or.inl hd'
    · rcases cleanTmp_removed c s _ d hd' with h | h
      · exact Or.inl h
      · exact Or.inr (Or.inl h)
  | kill => exact kill_removed_nonvol c s hv hs d hd

theorem run_removed_nonvol (c : Cfg) (s : St) (hv : c.volatile = false) (hs : c.strict = false) (evs : List Ev) :
    ∀ d ∈ (run c s evs).removed, d ∈ s.removed ∨ Losable c d := by
  unfold run
  induction evs generalizing s with
  | nil => intro d hd; exact Or.inl hd
  | cons e r ih =>
    intro d hd
    rcases ih (step c s e) d hd with h | h
    · exact step_removed_nonvol c s hv hs e d h
    · exact Or.inr h

end Martian.Vdr
