/-
C01 — the refinement "two-phase resolver = den" for call graphs with MAPPED PIPELINES and NESTED
map calls of statically known size (array mode), over the tree-shaped static phase of
Martian/ResolverStaticTree.lean.  Part 1: expressions — the run-time evaluation depends on a
fork assignment only through its lookups (`evalRT_congr`), `filterT` is invisible to it (L0),
specialising an expression to a fork (`pushFork`) is evaluating it in that fork.
-/
import Martian.ResolverStaticTree
import Proofs.ResolverStaticMapG

namespace Proofs.ResolverStatic
open Martian.Dataflow Martian.Resolver Martian.ResolverForks Martian.ResolverStatic Proofs.Dataflow
  Proofs.ResolverForks

/-! ## fork assignments up to lookups -/

def FEq (f g : ForkAssign) : Prop := ∀ c, f.lookup c = g.lookup c

/-- the store reads a fork assignment through its lookups only -/
def StoreExt (ρ : Store) : Prop :=
  ∀ node f g, FEq f g → ρ.outs node f = ρ.outs node g ∧ ∀ c, ρ.idx c f = ρ.idx c g

theorem lookup_filter_ne (f : ForkAssign) (c d : String) (h : (d == c) = false) :
    (f.filter fun e => e.1 != c).lookup d = f.lookup d := by
  induction f with
  | nil => rfl
  | cons x xs ih =>
    obtain ⟨k, v⟩ := x
    simp only [List.filter_cons]
    by_cases hk : k = c
    · subst hk
      have hkk : (k != k) = false := by simp
      simp only [hkk, Bool.false_eq_true, if_false, List.lookup_cons, h]
      exact ih
    · have : (k != c) = true := by simpa using hk
      simp only [this, if_true, List.lookup_cons]
      cases (d == k) <;> simp [ih]

theorem fset_lookup_ne (f : ForkAssign) (c d : String) (ix : Idx) (h : (d == c) = false) :
    (fset f c ix).lookup d = f.lookup d := by
  simp only [fset, List.lookup_cons, h]
  exact lookup_filter_ne f c d h

theorem FEq.fset {f g : ForkAssign} (h : FEq f g) (c : String) (ix : Idx) : FEq (fset f c ix) (fset g c ix) := by
  intro d
  cases hd : (d == c) with
  | true =>
    have : d = c := by simpa using hd
    subst this
    rw [fset_lookup, fset_lookup]
  | false => rw [fset_lookup_ne f c d ix hd, fset_lookup_ne g c d ix hd, h d]

theorem fset_comm (f : ForkAssign) (c c' : String) (ix ix' : Idx) (h : (c' == c) = false) :
    FEq (fset (fset f c ix) c' ix') (fset (fset f c' ix') c ix) := by
  intro d
  have h' : (c == c') = false := by
    have : c' ≠ c := by simpa using h
    simpa using fun e => this e.symm
  cases hd : (d == c') with
  | true =>
    have : d = c' := by simpa using hd
    subst this
    rw [fset_lookup, fset_lookup_ne _ c d ix h, fset_lookup]
  | false =>
    rw [fset_lookup_ne _ c' d ix' hd]
    cases hd2 : (d == c) with
    | true =>
      have : d = c := by simpa using hd2
      subst this
      rw [fset_lookup, fset_lookup]
    | false =>
      rw [fset_lookup_ne _ c d ix hd2, fset_lookup_ne _ c d ix hd2, fset_lookup_ne _ c' d ix' hd]

theorem fset_idem_FEq (f : ForkAssign) (c : String) (ix ix' : Idx) :
    FEq (fset (fset f c ix) c ix') (fset f c ix') := by
  intro d
  rw [fset_fset]

section congr
variable (st : StructTable) (F : Nat) (ρ : Store) (hρ : StoreExt ρ)
include hρ

mutual
theorem evalRT_congr : ∀ (e : RExp) (t : Ty) (f g : ForkAssign), FEq f g →
    evalRT st F ρ f t e = evalRT st F ρ g t e
  | .lit j, t, f, g, h => by simp [evalRT]
  | .arr xs, t, f, g, h => by simp only [evalRT]; rw [evalRTList_congr xs _ f g h]
  | .map kvs, t, f, g, h => by
    have hm := evalRTMembers_congr kvs f g h
    have hf := fun t' => evalRTFields_congr kvs t' f g h
    simp only [evalRT, hm, hf]
  | .struct kvs, t, f, g, h => by
    have hm := evalRTMembers_congr kvs f g h
    have hf := fun t' => evalRTFields_congr kvs t' f g h
    simp only [evalRT, hm, hf]
  | .ref n sty p, t, f, g, h => by simp only [evalRT]; rw [(hρ n f g h).1]
  | .split c false e, t, f, g, h => by simp only [evalRT]; rw [evalRT_congr e _ f g h, h c]
  | .split c true e, t, f, g, h => by simp only [evalRT]; rw [evalRT_congr e _ f g h, h c]
  | .merge c false e, t, f, g, h => by
    simp only [evalRT]
    rw [(hρ c f g h).2 c]
    congr 1
    apply List.map_congr_left
    intro ix _
    exact evalRT_congr e _ _ _ (h.fset c ix)
  | .merge c true e, t, f, g, h => by
    simp only [evalRT]
    rw [(hρ c f g h).2 c]
    congr 1
    apply List.map_congr_left
    intro ix _
    rw [evalRT_congr e _ _ _ (h.fset c ix)]
  | .disabled d v, t, f, g, h => by
    simp only [evalRT]
    rw [evalRT_congr d _ f g h, evalRT_congr v t f g h]
  | .fork c ix e, t, f, g, h => by
    simp only [evalRT]
    exact evalRT_congr e t _ _ (h.fset c ix)
theorem evalRTList_congr : ∀ (es : List RExp) (t : Ty) (f g : ForkAssign), FEq f g →
    evalRTList st F ρ f t es = evalRTList st F ρ g t es
  | [], _, _, _, _ => by simp [evalRTList]
  | e :: es, t, f, g, h => by
    simp only [evalRTList]
    rw [evalRT_congr e t f g h, evalRTList_congr es t f g h]
theorem evalRTFields_congr : ∀ (kvs : List (String × RExp)) (t : Ty) (f g : ForkAssign), FEq f g →
    evalRTFields st F ρ f t kvs = evalRTFields st F ρ g t kvs
  | [], _, _, _, _ => by simp [evalRTFields]
  | (k, e) :: es, t, f, g, h => by
    simp only [evalRTFields]
    rw [evalRT_congr e t f g h, evalRTFields_congr es t f g h]
theorem evalRTMembers_congr : ∀ (kvs : List (String × RExp)) (f g : ForkAssign), FEq f g →
    ∀ ps, evalRTMembers st F ρ f ps kvs = evalRTMembers st F ρ g ps kvs
  | [], _, _, _, _ => by simp [evalRTMembers]
  | (k, e) :: es, f, g, h, ps => by
    simp only [evalRTMembers]
    rw [evalRT_congr e _ f g h, evalRTMembers_congr es f g h ps]
end

end congr

/-! ## L0 for `filterT` -/

theorem lookup_filterTMembers (st : StructTable) (ps : List Param) :
    ∀ (kvs : List (String × RExp)) (k : String),
      (filterTMembers st ps kvs).lookup k = (kvs.lookup k).map (filterT st (memberTy ps k))
  | [], _ => by simp [filterTMembers]
  | (k', e) :: es, k => by
    simp only [filterTMembers, List.lookup_cons]
    cases hk : (k == k') with
    | true =>
      have : k = k' := by simpa using hk
      subst this
      simp
    | false => simpa using lookup_filterTMembers st ps es k

section L0T
variable (st : StructTable) (hst : StructsOk st) (nf : Nat) (ρ : Store) (f : ForkAssign)
include hst

mutual
theorem evalRT_filterT :
    ∀ (r : RExp) (t : Ty), HasTyR st t r →
      evalRT st nf ρ f t (filterT st t r) = evalRT st nf ρ f t r ∧ HasTyR st t (filterT st t r)
  | .lit j, t, h => by
    have e : filterT st t (.lit j) = .lit j := by simp [filterT]
    rw [e]; exact ⟨rfl, h⟩
  | .ref n sty path, t, h => by
    have e : filterT st t (.ref n sty path) = .ref n sty path := by simp [filterT]
    rw [e]; exact ⟨rfl, h⟩
  | .arr xs, t, h => by
    simp only [HasTyR] at h
    simp only [filterT]
    split
    · have := evalRT_filterTList xs _ h.2
      simp only [evalRT, HasTyR, this.1]
      exact ⟨trivial, h.1, this.2⟩
    · exact ⟨rfl, by simp only [HasTyR]; exact h⟩
  | .map kvs, t, h => by
    simp only [HasTyR] at h
    obtain ⟨ha, hm, hk⟩ := h
    have c1 : (t.arrDim == 0 && t.mapDim == 0) = false := by simp [ha, hm]
    simp only [filterT, c1, Bool.false_eq_true, ↓reduceIte]
    split
    · have := evalRT_filterTFields kvs _ hk
      have c2 : (t.arrDim == 0 && t.mapDim != 0) = true := by simp [ha, hm]
      simp only [evalRT, c2, if_true, this.1, HasTyR]
      exact ⟨trivial, ha, hm, this.2⟩
    · exact ⟨rfl, by simp only [HasTyR]; exact ⟨ha, hm, hk⟩⟩
  | .struct kvs, t, h => by
    simp only [HasTyR] at h
    obtain ⟨ha, hm, ps, hl, hmem, hall⟩ := h
    have hn := hst _ _ hl
    have c1 : (t.arrDim == 0 && t.mapDim == 0) = true := by simp [ha, hm]
    have c2 : (t.arrDim == 0 && t.mapDim != 0) = false := by simp [ha, hm]
    simp only [filterT, c1, if_true, hl]
    have key : ∀ p ∈ ps,
        (ps.filterMap fun q => ((filterTMembers st ps kvs).lookup q.name).map fun e => (q.name, e)).lookup p.name
          = (kvs.lookup p.name).map (filterT st p.ty) := by
      intro p hp
      rw [lookup_filterMap_members ps hn _ p hp, lookup_filterTMembers,
        memberTy_find ps p.name p (find_name_of_nodup ps hn p hp)]
    constructor
    · simp only [evalRT, c2, hl]
      simp only [Bool.false_eq_true, if_false, J.obj.injEq]
      apply List.map_congr_left
      intro p hp
      simp only [Prod.mk.injEq, true_and]
      rw [lookup_evalRTMembers, lookup_evalRTMembers, key p hp,
        memberTy_find ps p.name p (find_name_of_nodup ps hn p hp)]
      cases he : kvs.lookup p.name with
      | none => rfl
      | some e =>
        simp only [Option.map_some, Option.getD_some]
        have hty := HasTyRMembers_lookup st ps kvs p.name e p hmem he (find_name_of_nodup ps hn p hp)
        exact (evalRT_filterTMembers ps kvs hmem p.name e p he (find_name_of_nodup ps hn p hp)).1
    · simp only [HasTyR]
      refine ⟨ha, hm, ps, hl, ?_, ?_⟩
      · apply HasTyRMembers_of_mem
        intro k e' hmem' _
        obtain ⟨p, hp, hpk, hg⟩ := mem_filterMap_members ps _ k e' hmem'
        subst hpk
        rw [lookup_filterTMembers, memberTy_find ps p.name p (find_name_of_nodup ps hn p hp)] at hg
        cases he : kvs.lookup p.name with
        | none => simp [he] at hg
        | some e =>
          simp only [he, Option.map_some, Option.some.injEq] at hg
          subst hg
          rw [memberTy_find ps p.name p (find_name_of_nodup ps hn p hp)]
          exact (evalRT_filterTMembers ps kvs hmem p.name e p he (find_name_of_nodup ps hn p hp)).2
      · intro p hp
        rw [key p hp]
        have := hall p hp
        cases he : kvs.lookup p.name with
        | none => simp [he] at this
        | some e => simp
  | .split c false e, t, h => by
    simp only [HasTyR] at h
    simp only [filterT]
    split
    · have ih := evalRT_filterT e _ h
      simp only [liftSplitTy, Bool.false_eq_true, if_false] at ih ⊢
      simp only [evalRT, HasTyR, ih.1]
      exact ⟨trivial, ih.2⟩
    · exact ⟨rfl, by simp only [HasTyR]; exact h⟩
  | .split c true e, t, h => by simp [HasTyR] at h
  | .merge c m e, t, h => by
    have e' : filterT st t (.merge c m e) = .merge c m e := by simp [filterT]
    rw [e']; exact ⟨rfl, h⟩
  | .disabled d v, t, h => by
    simp only [HasTyR] at h
    have ih := evalRT_filterT v t h.2
    simp only [filterT, evalRT, HasTyR, ih.1]
    exact ⟨trivial, h.1, ih.2⟩
  | .fork c ix e, t, h => by
    have e' : filterT st t (.fork c ix e) = .fork c ix e := by simp [filterT]
    rw [e']; exact ⟨rfl, h⟩
theorem evalRT_filterTList :
    ∀ (rs : List RExp) (t : Ty), HasTyRList st t rs →
      evalRTList st nf ρ f t (filterTList st t rs) = evalRTList st nf ρ f t rs ∧
      HasTyRList st t (filterTList st t rs)
  | [], _, _ => by simp [filterTList, HasTyRList]
  | r :: rs, t, h => by
    simp only [HasTyRList] at h
    have h1 := evalRT_filterT r t h.1
    have h2 := evalRT_filterTList rs t h.2
    simp only [filterTList, evalRTList, HasTyRList, h1.1, h2.1]
    exact ⟨trivial, h1.2, h2.2⟩
theorem evalRT_filterTFields :
    ∀ (kvs : List (String × RExp)) (t : Ty), HasTyRFields st t kvs →
      evalRTFields st nf ρ f t (filterTFields st t kvs) = evalRTFields st nf ρ f t kvs ∧
      HasTyRFields st t (filterTFields st t kvs)
  | [], _, _ => by simp [filterTFields, HasTyRFields]
  | (k, r) :: rs, t, h => by
    simp only [HasTyRFields] at h
    have h1 := evalRT_filterT r t h.1
    have h2 := evalRT_filterTFields rs t h.2
    simp only [filterTFields, evalRTFields, HasTyRFields, h1.1, h2.1]
    exact ⟨trivial, h1.2, h2.2⟩
theorem evalRT_filterTMembers (ps : List Param) :
    ∀ (kvs : List (String × RExp)), HasTyRMembers st ps kvs →
      ∀ (k : String) (e : RExp) (p : Param), kvs.lookup k = some e →
        ps.find? (fun q => q.name == k) = some p →
        evalRT st nf ρ f p.ty (filterT st p.ty e) = evalRT st nf ρ f p.ty e ∧ HasTyR st p.ty (filterT st p.ty e)
  | [], _, _, _, _, h, _ => by simp at h
  | (k', e') :: es, hm, k, e, p, hl, hf => by
    simp only [HasTyRMembers] at hm
    simp only [List.lookup_cons] at hl
    cases hk : (k == k') with
    | true =>
      simp only [hk, Option.some.injEq] at hl
      have : k = k' := by simpa using hk
      subst this; subst hl
      have hty := hm.1 (by simp [hf])
      rw [memberTy_find ps k p hf] at hty
      exact evalRT_filterT e' p.ty hty
    | false =>
      simp only [hk] at hl
      exact evalRT_filterTMembers ps es hm.2 k e p hl hf
end

end L0T

/-! ## specialising to a fork = evaluating in that fork -/

theorem lookup_pushForkFields (c : String) (ix : Idx) :
    ∀ (kvs : List (String × RExp)) (k : String),
      (pushForkFields c ix kvs).lookup k = (kvs.lookup k).map (pushFork c ix)
  | [], _ => by simp [pushForkFields]
  | (k', e) :: es, k => by
    simp only [pushForkFields, List.lookup_cons]
    cases hk : (k == k') <;> simp [lookup_pushForkFields c ix es k]

theorem mem_pushForkFields (c : String) (ix : Idx) :
    ∀ (kvs : List (String × RExp)) (k : String) (e' : RExp), (k, e') ∈ pushForkFields c ix kvs →
      ∃ e, (k, e) ∈ kvs ∧ e' = pushFork c ix e
  | [], _, _, h => by simp [pushForkFields] at h
  | (k', e0) :: es, k, e', h => by
    simp only [pushForkFields, List.mem_cons, Prod.mk.injEq] at h
    cases h with
    | inl h => exact ⟨e0, by simp [h.1], h.2⟩
    | inr h =>
      obtain ⟨e, he, hr⟩ := mem_pushForkFields c ix es k e' h
      exact ⟨e, by simp [he], hr⟩

theorem evalRTList_getD (st : StructTable) (F : Nat) (ρ : Store) (f : ForkAssign) (t : Ty) :
    ∀ (xs : List RExp) (k : Nat),
      (evalRTList st F ρ f t xs).getD k .null = evalRT st F ρ f t (xs.getD k (.lit .null))
  | [], k => by simp [evalRTList, evalRT]
  | x :: xs, 0 => by simp [evalRTList]
  | x :: xs, k+1 => by simpa [evalRTList] using evalRTList_getD st F ρ f t xs k

theorem HasTyRList_getD (st : StructTable) (t : Ty) :
    ∀ (xs : List RExp) (k : Nat), HasTyRList st t xs → HasTyR st t (xs.getD k (.lit .null))
  | [], k, _ => by simp [HasTyR, LitOk]
  | x :: xs, 0, h => by simp only [HasTyRList] at h; simpa using h.1
  | x :: xs, k+1, h => by
    simp only [HasTyRList] at h
    simpa using HasTyRList_getD st t xs k h.2

theorem noMergeOf_mem (c : String) : ∀ (kvs : List (String × RExp)) (k : String) (e : RExp),
    noMergeOfFields c kvs = true → (k, e) ∈ kvs → noMergeOf c e = true
  | [], _, _, _, h => by simp at h
  | (k0, e0) :: es, k, e, hn, h => by
    simp only [noMergeOfFields, Bool.and_eq_true] at hn
    simp only [List.mem_cons, Prod.mk.injEq] at h
    cases h with
    | inl h => rw [h.2]; exact hn.1
    | inr h => exact noMergeOf_mem c es k e hn.2 h

theorem noSplitOf_getD (c : String) : ∀ (xs : List RExp) (k : Nat), noSplitOfList c xs = true →
    noSplitOf c (xs.getD k (.lit .null)) = true
  | [], _, _ => by simp [noSplitOf]
  | x :: xs, 0, h => by simp only [noSplitOfList, Bool.and_eq_true] at h; simpa using h.1
  | x :: xs, k+1, h => by
    simp only [noSplitOfList, Bool.and_eq_true] at h
    simpa using noSplitOf_getD c xs k h.2

theorem noSplitOf_selectIx (c : String) (ix : Idx) (e x : RExp) (h : noSplitOf c e = true)
    (hs : selectIx ix e = some x) : noSplitOf c x = true := by
  cases e with
  | arr xs =>
    simp only [noSplitOf] at h
    cases ix with
    | i n =>
      simp only [selectIx, Option.some.injEq] at hs
      subst hs
      exact noSplitOf_getD c xs n h
    | k s => simp only [selectIx, Option.some.injEq] at hs; subst hs; simp [noSplitOf]
    | none => simp only [selectIx, Option.some.injEq] at hs; subst hs; simp [noSplitOf]
  | map kvs =>
    simp only [noSplitOf] at h
    cases ix with
    | i n => simp only [selectIx, Option.some.injEq] at hs; subst hs; simp [noSplitOf]
    | k s =>
      simp only [selectIx, Option.some.injEq] at hs
      subst hs
      exact Proofs.ResolverForks.noSplitOf_lookup c kvs s h
    | none => simp only [selectIx, Option.some.injEq] at hs; subst hs; simp [noSplitOf]
  | lit _ => simp [selectIx] at hs
  | struct _ => simp [selectIx] at hs
  | ref _ _ _ => simp [selectIx] at hs
  | split _ _ _ => simp [selectIx] at hs
  | merge _ _ _ => simp [selectIx] at hs
  | disabled _ _ => simp [selectIx] at hs
  | fork _ _ _ => simp [selectIx] at hs

mutual
/-- specialising to a fork does not create a `split` -/
theorem noSplitOf_pushFork (c' c : String) (ix : Idx) :
    ∀ e : RExp, noSplitOf c' e = true → noSplitOf c' (pushFork c ix e) = true
  | .lit _, _ => by simp [pushFork, noSplitOf]
  | .arr xs, h => by simp only [pushFork, noSplitOf] at h ⊢; exact noSplitOf_pushForkList c' c ix xs h
  | .map kvs, h => by simp only [pushFork, noSplitOf] at h ⊢; exact noSplitOf_pushForkFields c' c ix kvs h
  | .struct kvs, h => by simp only [pushFork, noSplitOf] at h ⊢; exact noSplitOf_pushForkFields c' c ix kvs h
  | .ref _ _ _, _ => by simp [pushFork, noSplitOf]
  | .split c2 m e, h => by
    have h' := h
    simp only [noSplitOf, Bool.and_eq_true] at h
    have ih := noSplitOf_pushFork c' c ix e h.2
    simp only [pushFork]
    split
    · cases hs : selectIx ix (pushFork c ix e) with
      | some x => exact noSplitOf_selectIx c' ix _ x ih hs
      | none => simp only [noSplitOf]; exact h'
    · simp only [noSplitOf, Bool.and_eq_true]; exact ⟨h.1, ih⟩
  | .merge c2 m e, h => by
    simp only [noSplitOf] at h
    simp only [pushFork, noSplitOf]
    exact Proofs.ResolverForks.noSplitOf_mkMerge c' c2 m _ (noSplitOf_pushFork c' c ix e h)
  | .disabled d v, h => by
    simp only [noSplitOf, Bool.and_eq_true] at h
    simp only [pushFork, noSplitOf, Bool.and_eq_true]
    exact ⟨noSplitOf_pushFork c' c ix d h.1, noSplitOf_pushFork c' c ix v h.2⟩
  | .fork c2 ix2 e, h => by
    simp only [noSplitOf] at h
    simp only [pushFork]
    split
    · simp only [noSplitOf]; exact h
    · simp only [noSplitOf]; exact noSplitOf_pushFork c' c ix e h
theorem noSplitOf_pushForkList (c' c : String) (ix : Idx) :
    ∀ es : List RExp, noSplitOfList c' es = true → noSplitOfList c' (pushForkList c ix es) = true
  | [], _ => by simp [pushForkList, noSplitOfList]
  | e :: es, h => by
    simp only [noSplitOfList, Bool.and_eq_true] at h
    simp only [pushForkList, noSplitOfList, Bool.and_eq_true]
    exact ⟨noSplitOf_pushFork c' c ix e h.1, noSplitOf_pushForkList c' c ix es h.2⟩
theorem noSplitOf_pushForkFields (c' c : String) (ix : Idx) :
    ∀ es : List (String × RExp), noSplitOfFields c' es = true → noSplitOfFields c' (pushForkFields c ix es) = true
  | [], _ => by simp [pushForkFields, noSplitOfFields]
  | (k, e) :: es, h => by
    simp only [noSplitOfFields, Bool.and_eq_true] at h
    simp only [pushForkFields, noSplitOfFields, Bool.and_eq_true]
    exact ⟨noSplitOf_pushFork c' c ix e h.1, noSplitOf_pushForkFields c' c ix es h.2⟩
end

section push
variable (st : StructTable) (hst : StructsOk st) (F : Nat) (ρ : Store) (hρ : StoreExt ρ) (c : String) (k : Nat)
include hst hρ

mutual
theorem pushFork_evalRT :
    ∀ (e : RExp) (t : Ty) (f : ForkAssign), HasTyR st t e → noMergeOf c e = true →
      evalRT st F ρ f t (pushFork c (.i k) e) = evalRT st F ρ (fset f c (.i k)) t e ∧
      HasTyR st t (pushFork c (.i k) e)
  | .lit j, t, f, h, _ => by simp only [pushFork, evalRT]; exact ⟨trivial, h⟩
  | .arr xs, t, f, h, hnm => by
    simp only [HasTyR] at h
    simp only [noMergeOf] at hnm
    have ih := pushFork_evalRTList xs _ f h.2 hnm
    simp only [pushFork, evalRT, HasTyR, ih.1]
    exact ⟨trivial, h.1, ih.2⟩
  | .map kvs, t, f, h, hnm => by
    simp only [HasTyR] at h
    simp only [noMergeOf] at hnm
    obtain ⟨ha, hm, hk⟩ := h
    have ih := pushFork_evalRTFields kvs _ f hk hnm
    have c2 : (t.arrDim == 0 && t.mapDim != 0) = true := by simp [ha, hm]
    simp only [pushFork, evalRT, c2, if_true, ih.1, HasTyR]
    exact ⟨trivial, ha, hm, ih.2⟩
  | .struct kvs, t, f, h, hnm => by
    simp only [HasTyR] at h
    simp only [noMergeOf] at hnm
    obtain ⟨ha, hm, ps, hl, hmem, hall⟩ := h
    have hn := hst _ _ hl
    have c2 : (t.arrDim == 0 && t.mapDim != 0) = false := by simp [ha, hm]
    constructor
    · simp only [pushFork, evalRT, c2, Bool.false_eq_true, if_false, hl, J.obj.injEq]
      apply List.map_congr_left
      intro p hp
      simp only [Prod.mk.injEq, true_and]
      have hfind := find_name_of_nodup ps hn p hp
      rw [lookup_evalRTMembers, lookup_evalRTMembers, lookup_pushForkFields, memberTy_find ps p.name p hfind]
      cases he : kvs.lookup p.name with
      | none => rfl
      | some e =>
        simp only [Option.map_some, Option.getD_some]
        exact (pushFork_evalRTMembers ps kvs f hmem hnm p.name e (mem_of_lookup kvs _ _ he) p hfind).1
    · simp only [pushFork, HasTyR]
      refine ⟨ha, hm, ps, hl, ?_, ?_⟩
      · apply HasTyRMembers_of_mem
        intro k' e' hke hsome
        obtain ⟨e, he, hr⟩ := mem_pushForkFields c (.i k) kvs k' e' hke
        subst hr
        cases hf' : ps.find? (fun q => q.name == k') with
        | none => simp [hf'] at hsome
        | some p =>
          rw [memberTy_find ps k' p hf']
          exact (pushFork_evalRTMembers ps kvs f hmem hnm k' e he p hf').2
      · intro p hp
        rw [lookup_pushForkFields]
        have := hall p hp
        cases he : kvs.lookup p.name with
        | none => simp [he] at this
        | some e => simp
  | .ref n sty p, t, f, h, _ => by
    simp only [pushFork, evalRT, HasTyR]
    exact ⟨trivial, h⟩
  | .split c' false e, t, f, h, hnm => by
    simp only [HasTyR] at h
    simp only [noMergeOf] at hnm
    have ih := pushFork_evalRT e _ f h hnm
    simp only [pushFork]
    by_cases hc : (c' == c) = true
    · have hcc : c' = c := by simpa using hc
      subst hcc
      simp only [hc, if_true]
      cases hp : pushFork c' (.i k) e with
      | arr xs =>
        rw [hp] at ih
        simp only [selectIx]
        constructor
        · simp only [evalRT, fset_lookup, Option.getD_some]
          rw [← ih.1]
          simp only [evalRT, Nat.add_sub_cancel, elemArr, elemAt]
          exact (evalRTList_getD st F ρ f t xs k).symm
        · have := ih.2
          simp only [HasTyR, Nat.add_sub_cancel] at this
          exact HasTyRList_getD st t xs k this.2
      | map kvs =>
        rw [hp] at ih
        have := ih.2
        simp [HasTyR] at this
      | lit j => simp only [selectIx, evalRT, HasTyR]; exact ⟨trivial, h⟩
      | struct kvs => simp only [selectIx, evalRT, HasTyR]; exact ⟨trivial, h⟩
      | ref a b d => simp only [selectIx, evalRT, HasTyR]; exact ⟨trivial, h⟩
      | split a b d => simp only [selectIx, evalRT, HasTyR]; exact ⟨trivial, h⟩
      | merge a b d => simp only [selectIx, evalRT, HasTyR]; exact ⟨trivial, h⟩
      | disabled a b => simp only [selectIx, evalRT, HasTyR]; exact ⟨trivial, h⟩
      | fork a b d => simp only [selectIx, evalRT, HasTyR]; exact ⟨trivial, h⟩
    · have hc' : (c' == c) = false := by simpa using hc
      simp only [hc', Bool.false_eq_true, if_false, evalRT, HasTyR, ih.1, fset_lookup_ne f c c' (.i k) hc']
      exact ⟨trivial, ih.2⟩
  | .split _ true _, _, _, h, _ => by simp [HasTyR] at h
  | .merge c' false e, t, f, h, hnm => by
    obtain ⟨b, m, a⟩ := t
    simp only [HasTyR] at h
    simp only [noMergeOf, Bool.and_eq_true, bne_iff_ne, ne_eq] at hnm
    obtain ⟨ha, hns, hty⟩ := h
    have hns' := noSplitOf_pushFork c' c (.i k) e hns
    have hcc : (c' == c) = false := by simpa using hnm.1
    simp only [pushFork, Proofs.ResolverForks.mkMerge_noSplit c' false _ hns', evalRT, HasTyR]
    refine ⟨?_, ha, hns', (pushFork_evalRT e _ f hty hnm.2).2⟩
    congr 1
    apply List.map_congr_left
    intro ix' _
    rw [(pushFork_evalRT e _ (fset (fset f c (.i k)) c' ix') hty hnm.2).1]
    apply evalRT_congr st F ρ hρ
    intro d
    rw [← fset_comm (fset f c (.i k)) c c' (.i k) ix' hcc d, fset_fset]
  | .merge _ true _, _, _, h, _ => by simp [HasTyR] at h
  | .disabled d v, t, f, h, hnm => by
    simp only [HasTyR] at h
    simp only [noMergeOf, Bool.and_eq_true] at hnm
    have ih1 := pushFork_evalRT d _ f h.1 hnm.1
    have ih2 := pushFork_evalRT v t f h.2 hnm.2
    simp only [pushFork, evalRT, HasTyR, ih1.1, ih2.1]
    exact ⟨trivial, ih1.2, ih2.2⟩
  | .fork c' ix' e, t, f, h, hnm => by
    simp only [HasTyR] at h
    simp only [noMergeOf] at hnm
    simp only [pushFork]
    by_cases hc : (c' == c) = true
    · have hcc : c' = c := by simpa using hc
      subst hcc
      simp only [hc, if_true, evalRT, fset_fset, HasTyR]
      exact ⟨trivial, h⟩
    · have hc' : (c' == c) = false := by simpa using hc
      have ih := pushFork_evalRT e t (fset f c' ix') h hnm
      simp only [hc', Bool.false_eq_true, if_false, evalRT, HasTyR, ih.1]
      refine ⟨?_, ih.2⟩
      apply evalRT_congr st F ρ hρ
      intro d
      exact (fset_comm f c c' (.i k) ix' hc' d).symm
theorem pushFork_evalRTList :
    ∀ (es : List RExp) (t : Ty) (f : ForkAssign), HasTyRList st t es → noMergeOfList c es = true →
      evalRTList st F ρ f t (pushForkList c (.i k) es) = evalRTList st F ρ (fset f c (.i k)) t es ∧
      HasTyRList st t (pushForkList c (.i k) es)
  | [], _, _, _, _ => by simp [pushForkList, evalRTList, HasTyRList]
  | e :: es, t, f, h, hnm => by
    simp only [HasTyRList] at h
    simp only [noMergeOfList, Bool.and_eq_true] at hnm
    have h1 := pushFork_evalRT e t f h.1 hnm.1
    have h2 := pushFork_evalRTList es t f h.2 hnm.2
    simp only [pushForkList, evalRTList, HasTyRList, h1.1, h2.1]
    exact ⟨trivial, h1.2, h2.2⟩
theorem pushFork_evalRTFields :
    ∀ (kvs : List (String × RExp)) (t : Ty) (f : ForkAssign), HasTyRFields st t kvs →
      noMergeOfFields c kvs = true →
      evalRTFields st F ρ f t (pushForkFields c (.i k) kvs) = evalRTFields st F ρ (fset f c (.i k)) t kvs ∧
      HasTyRFields st t (pushForkFields c (.i k) kvs)
  | [], _, _, _, _ => by simp [pushForkFields, evalRTFields, HasTyRFields]
  | (k', e) :: es, t, f, h, hnm => by
    simp only [HasTyRFields] at h
    simp only [noMergeOfFields, Bool.and_eq_true] at hnm
    have h1 := pushFork_evalRT e t f h.1 hnm.1
    have h2 := pushFork_evalRTFields es t f h.2 hnm.2
    simp only [pushForkFields, evalRTFields, HasTyRFields, h1.1, h2.1]
    exact ⟨trivial, h1.2, h2.2⟩
theorem pushFork_evalRTMembers (ps : List Param) :
    ∀ (kvs : List (String × RExp)) (f : ForkAssign), HasTyRMembers st ps kvs → noMergeOfFields c kvs = true →
      ∀ (k' : String) (e : RExp), (k', e) ∈ kvs → ∀ (p : Param), ps.find? (fun q => q.name == k') = some p →
        evalRT st F ρ f p.ty (pushFork c (.i k) e) = evalRT st F ρ (fset f c (.i k)) p.ty e ∧
        HasTyR st p.ty (pushFork c (.i k) e)
  | [], _, _, _, _, _, h, _, _ => by simp at h
  | (k0, e0) :: es, f, hm, hnm, k', e, h, p, hf => by
    simp only [HasTyRMembers] at hm
    simp only [noMergeOfFields, Bool.and_eq_true] at hnm
    simp only [List.mem_cons, Prod.mk.injEq] at h
    cases h with
    | inl h =>
      obtain ⟨rfl, rfl⟩ := h
      have hty := hm.1 (by simp [hf])
      rw [memberTy_find ps k' p hf] at hty
      exact pushFork_evalRT e p.ty f hty hnm.1
    | inr h => exact pushFork_evalRTMembers ps es f hm.2 hnm.2 k' e h p hf
end

end push

end Proofs.ResolverStatic
