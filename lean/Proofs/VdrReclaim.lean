import Martian.Vdr
import Proofs.VdrPath
import Proofs.VdrInv
import Proofs.VdrNonVol
import Proofs.VdrShrink
import Proofs.VdrExact

/-! Completeness of the reclamation at completion: with `filePostNodes` and
`fileArgs` consistent, once every consumer is done the only holders left are
`none` (top level / retain), and the final pass leaves exactly what those
arguments reference. -/
namespace Martian.Vdr

/-! ### association-list lemmas -/

theorem lookup_none_keys {β : Type} {l : List (String × β)} {n : String} (h : l.lookup n = none) :
    ∀ p ∈ l, p.1 ≠ n := by
  induction l with
  | nil => intro p hp; cases hp
  | cons x r ih =>
    obtain ⟨k, v⟩ := x
    simp only [List.lookup] at h
    split at h
    · cases h
    · rename_i hk
      intro p hp
      rcases List.mem_cons.mp hp with rfl | hp
      · intro e; simp at e; subst e; simp at hk
      · exact ih h p hp

theorem lookup_filter_ne {β : Type} {l : List (String × β)} {n m : String} (hne : m ≠ n) :
    (l.filter (fun p => p.1 != n)).lookup m = l.lookup m := by
  induction l with
  | nil => rfl
  | cons x r ih =>
    obtain ⟨k, v⟩ := x
    by_cases hk : k = n
    · subst hk
      have : (m == k) = false := by simpa using hne
      simp [List.filter, List.lookup, this, ih]
    · have hk' : (k != n) = true := by simpa using hk
      simp only [List.filter, hk', List.lookup]
      split
      · rfl
      · exact ih

theorem lookup_filterMap {β : Type} {l : List (String × β)} {g : String × β → Option (String × β)}
    (hg : ∀ p q, g p = some q → q.1 = p.1) {n : String} {v v' : β}
    (h : l.lookup n = some v) (hn : g (n, v) = some (n, v')) :
    (l.filterMap g).lookup n = some v' := by
  induction l with
  | nil => simp [List.lookup] at h
  | cons x r ih =>
    obtain ⟨k, w⟩ := x
    simp only [List.lookup] at h
    split at h
    · rename_i hk
      have hk' : n = k := by simpa using hk
      subst hk'
      cases h
      simp [List.filterMap, hn, List.lookup]
    · rename_i hk
      simp only [List.filterMap]
      cases hgx : g (k, w) with
      | none => exact ih h
      | some q =>
        have hq := hg _ _ hgx
        obtain ⟨qk, qv⟩ := q
        simp only at hq
        subst hq
        simp only [List.lookup, hk]
        exact ih h

/-! ### consistency of the two bookkeeping maps -/

structure BK (s : St) : Prop where
  /-- a node holding an argument is a post node that lists the argument -/
  cons : ∀ a hs, (a, hs) ∈ s.fileArgs → ∀ n, some n ∈ hs → ∃ as, s.postNodes.lookup n = some as ∧ a ∈ as
  /-- no argument without holders is kept -/
  ne : ∀ a hs, (a, hs) ∈ s.fileArgs → hs ≠ []

/-- holders and post nodes only disappear -/
structure Sh (s s' : St) : Prop where
  holds : ∀ a h, Holds s' a h → Holds s a h
  keys : ∀ p ∈ s'.postNodes, ∃ q ∈ s.postNodes, q.1 = p.1

theorem Sh.refl (s : St) : Sh s s := ⟨fun _ _ h => h, fun p hp => ⟨p, hp, rfl⟩⟩
theorem Sh.trans {a b c : St} (x : Sh a b) (y : Sh b c) : Sh a c := by
  refine ⟨fun ar h hh => x.holds ar h (y.holds ar h hh), ?_⟩
  intro p hp
  obtain ⟨q, hq, e⟩ := y.keys p hp
  obtain ⟨r, hr, e'⟩ := x.keys q hq
  exact ⟨r, hr, e'.trans e⟩

theorem removeFileArg_sh (s : St) (b : Arg) : Sh s (removeFileArg s b) := by
  unfold removeFileArg
  split
  · exact Sh.refl s
  · constructor
    · rintro a h ⟨hs, hm, hh⟩
      exact ⟨hs, (List.mem_filter.mp hm).1, hh⟩
    · intro p hp
      simp only [List.mem_filterMap] at hp
      obtain ⟨q, hq, hg⟩ := hp
      refine ⟨q, hq, ?_⟩
      split at hg
      · split at hg
        · cases hg
        · cases hg; rfl
      · cases hg; rfl

theorem removeFileArg_bk (s : St) (b : Arg) (k : BK s) : BK (removeFileArg s b) := by
  unfold removeFileArg
  split
  · exact k
  · rename_i hsb _
    constructor
    · intro a hs hm n hn
      have hm' := List.mem_filter.mp hm
      have hab : a ≠ b := by simpa using hm'.2
      obtain ⟨as, hl, ha⟩ := k.cons a hs hm'.1 n hn
      by_cases hc : hsb.contains (some n) = true
      · refine ⟨as.filter (· != b), ?_, List.mem_filter.mpr ⟨ha, by simpa using hab⟩⟩
        apply lookup_filterMap (v := as) _ hl
        · have hne : (as.filter (· != b)).isEmpty = false := by
            rw [List.isEmpty_eq_false_iff_exists_mem]
            exact ⟨a, List.mem_filter.mpr ⟨ha, by simpa using hab⟩⟩
          simp only [hc, if_true, hne]
          rfl
        · intro p q hg
          split at hg
          · dsimp only at hg
            split at hg
            · cases hg
            · cases hg; rfl
          · cases hg; rfl
      · refine ⟨as, ?_, ha⟩
        apply lookup_filterMap (v := as) _ hl
        · simp only [hc]
          rfl
        · intro p q hg
          split at hg
          · dsimp only at hg
            split at hg
            · cases hg
            · cases hg; rfl
          · cases hg; rfl
    · intro a hs hm
      exact k.ne a hs (List.mem_filter.mp hm).1

theorem removePostNode_sh (s : St) (n : Node) : Sh s (removePostNode s n) := by
  unfold removePostNode
  split
  · exact Sh.refl s
  · constructor
    · rintro a h ⟨hs, hm, hh⟩
      simp only [List.mem_filterMap] at hm
      obtain ⟨p, hp, hg⟩ := hm
      split at hg
      · split at hg
        · cases hg
        · cases hg
          exact ⟨p.2, hp, (List.mem_filter.mp hh).1⟩
      · cases hg; exact ⟨hs, hp, hh⟩
    · intro p hp
      exact ⟨p, (List.mem_filter.mp hp).1, rfl⟩

theorem removePostNode_bk (s : St) (n : Node) (k : BK s) : BK (removePostNode s n) := by
  unfold removePostNode
  split
  · exact k
  · rename_i asn hln
    constructor
    · intro a hs' hm m hmm
      simp only [List.mem_filterMap] at hm
      obtain ⟨p, hp, hg⟩ := hm
      obtain ⟨pa, phs⟩ := p
      have key : ∀ (hs : List Holder), (a, hs) ∈ s.fileArgs → some m ∈ hs → m ≠ n →
          ∃ as, (s.postNodes.filter (fun p => p.1 != n)).lookup m = some as ∧ a ∈ as := by
        intro hs hmem hin hne
        obtain ⟨as, hl, ha⟩ := k.cons a hs hmem m hin
        exact ⟨as, by rw [lookup_filter_ne hne]; exact hl, ha⟩
      split at hg
      · rename_i hc
        split at hg
        · cases hg
        · cases hg
          have hmf := List.mem_filter.mp hmm
          have hne : m ≠ n := by
            intro e; subst e; simp at hmf
          exact key phs hp hmf.1 hne
      · rename_i hc
        cases hg
        have hne : m ≠ n := by
          intro e
          subst e
          obtain ⟨as, hl, ha⟩ := k.cons a hs' hp m hmm
          rw [hln] at hl
          cases hl
          apply hc
          simpa using ha
        exact key hs' hp hmm hne
    · intro a hs' hm
      simp only [List.mem_filterMap] at hm
      obtain ⟨p, hp, hg⟩ := hm
      split at hg
      · split at hg
        · cases hg
        · rename_i hne
          cases hg
          intro e
          rw [e] at hne
          simp at hne
      · cases hg
        exact k.ne _ _ hp

theorem removePostNode_keys (s : St) (n : Node) :
    ∀ p ∈ (removePostNode s n).postNodes, p ∈ s.postNodes ∧ p.1 ≠ n := by
  unfold removePostNode
  split
  · rename_i h
    intro p hp
    exact ⟨hp, lookup_none_keys h p hp⟩
  · intro p hp
    have := List.mem_filter.mp hp
    exact ⟨this.1, by simpa using this.2⟩

theorem removePostNodes_keys (ns : List Node) (s : St) :
    ∀ p ∈ (removePostNodes s ns).postNodes, p ∈ s.postNodes ∧ ∀ n ∈ ns, p.1 ≠ n := by
  unfold removePostNodes
  induction ns generalizing s with
  | nil => intro p hp; exact ⟨hp, fun n hn => by cases hn⟩
  | cons x r ih =>
    intro p hp
    obtain ⟨h1, h2⟩ := ih (removePostNode s x) p hp
    obtain ⟨h3, h4⟩ := removePostNode_keys s x p h1
    refine ⟨h3, ?_⟩
    intro n hn
    rcases List.mem_cons.mp hn with rfl | hn
    · exact h4
    · exact h2 n hn

theorem removePostNodes_sh (ns : List Node) (s : St) : Sh s (removePostNodes s ns) := by
  unfold removePostNodes
  induction ns generalizing s with
  | nil => exact Sh.refl s
  | cons x r ih => exact (removePostNode_sh s x).trans (ih _)

theorem removePostNodes_bk (ns : List Node) (s : St) (k : BK s) : BK (removePostNodes s ns) := by
  unfold removePostNodes
  induction ns generalizing s with
  | nil => exact k
  | cons x r ih => exact ih _ (removePostNode_bk s x k)

theorem foldRemove_sh (cond : Arg → Bool) (l : List Arg) (s : St) :
    Sh s (l.foldl (fun s a => if cond a then removeFileArg s a else s) s) := by
  induction l generalizing s with
  | nil => exact Sh.refl s
  | cons a r ih =>
    simp only [List.foldl_cons]
    by_cases hc : cond a = true
    · simp only [hc, if_true]; exact (removeFileArg_sh s a).trans (ih _)
    · simp only [hc]; exact ih s

theorem foldRemove_bk (cond : Arg → Bool) (l : List Arg) (s : St) (k : BK s) :
    BK (l.foldl (fun s a => if cond a then removeFileArg s a else s) s) := by
  induction l generalizing s with
  | nil => exact k
  | cons a r ih =>
    simp only [List.foldl_cons]
    by_cases hc : cond a = true
    · simp only [hc, if_true]; exact ih _ (removeFileArg_bk s a k)
    · simp only [hc]; exact ih s k

theorem removeFileArg_keepsDom (s : St) (a b : Arg) (hab : a ≠ b) (h : InDom s a) : InDom (removeFileArg s b) a := by
  unfold removeFileArg
  split
  · exact h
  · obtain ⟨hs, hm⟩ := h
    exact ⟨hs, List.mem_filter.mpr ⟨hm, by simpa using hab⟩⟩

theorem foldRemove_keepsDom (cond : Arg → Bool) (l : List Arg) (s : St) (a : Arg) (hc : cond a = false)
    (h : InDom s a) : InDom (l.foldl (fun s a => if cond a then removeFileArg s a else s) s) a := by
  induction l generalizing s with
  | nil => exact h
  | cons x r ih =>
    simp only [List.foldl_cons]
    by_cases hx : cond x = true
    · simp only [hx, if_true]
      apply ih
      apply removeFileArg_keepsDom _ _ _ _ h
      intro e; subst e; rw [hc] at hx; cases hx
    · simp only [hx]; exact ih s h


/-! ### the invariant -/

structure RInv (c : Cfg) (s0 s : St) : Prop where
  bk : BK s
  sh : Sh s0 s
  snd : ∀ es, s.cache = some es → ∀ e ∈ es, ∀ a ∈ e.args, refsN c a e.names = true
  fin : s.final = true → ∀ d ∈ s.disk, isTmp d.kind = false →
    ∃ a, Holds s0 a none ∧ refsN c a (d.path :: d.alts) = true

theorem RInv.frame {c : Cfg} {s0 s s' : St} (r : RInv c s0 s) (f : Frame s s') (h : Sh s s') (k : BK s') :
    RInv c s0 s' := by
  refine ⟨k, r.sh.trans h, ?_, ?_⟩
  · intro es he; exact r.snd es (f.cache ▸ he)
  · intro hf d hd; exact r.fin (f.final ▸ hf) d (f.disk ▸ hd)

theorem cleanTmp_fields (c : Cfg) (s : St) (upto : Nat) :
    (cleanTmp c s upto).fileArgs = s.fileArgs ∧ (cleanTmp c s upto).postNodes = s.postNodes ∧
    (cleanTmp c s upto).cache = s.cache ∧ (cleanTmp c s upto).final = s.final ∧
    (cleanTmp c s upto).doneNodes = s.doneNodes := by
  rw [cleanTmp_eq]
  generalize List.range upto = l
  induction l generalizing s with
  | nil => exact ⟨rfl, rfl, rfl, rfl, rfl⟩
  | cons y r ih =>
    simp only [List.foldl_cons]
    obtain ⟨a, b, cc, d, e⟩ := ih (cleanPhase c s y)
    have : (cleanPhase c s y).fileArgs = s.fileArgs ∧ (cleanPhase c s y).postNodes = s.postNodes ∧
        (cleanPhase c s y).cache = s.cache ∧ (cleanPhase c s y).final = s.final ∧
        (cleanPhase c s y).doneNodes = s.doneNodes := by
      unfold cleanPhase
      split <;> exact ⟨rfl, rfl, rfl, rfl, rfl⟩
    obtain ⟨a', b', c', d', e'⟩ := this
    exact ⟨a.trans a', b.trans b', cc.trans c', d.trans d', e.trans e'⟩

theorem RInv.cleanTmp {c : Cfg} {s0 s : St} (r : RInv c s0 s) (hf : s.final = false) (upto : Nat) :
    RInv c s0 (cleanTmp c s upto) := by
  obtain ⟨fa, pn, ca, fi, _⟩ := cleanTmp_fields c s upto
  refine ⟨⟨?_, ?_⟩, ⟨?_, ?_⟩, ?_, ?_⟩
  · intro a hs hm; rw [fa] at hm; rw [pn]; exact r.bk.cons a hs hm
  · intro a hs hm; rw [fa] at hm; exact r.bk.ne a hs hm
  · rintro a h ⟨hs, hm, hh⟩; rw [fa] at hm; exact r.sh.holds a h ⟨hs, hm, hh⟩
  · intro p hp; rw [pn] at hp; exact r.sh.keys p hp
  · intro es he; rw [ca] at he; exact r.snd es he
  · intro h; rw [fi, hf] at h; cases h

theorem RInv.nodeDone {c : Cfg} {s0 s : St} (r : RInv c s0 s) (n : Node) :
    RInv c s0 { s with doneNodes := n :: s.doneNodes } :=
  ⟨⟨r.bk.cons, r.bk.ne⟩, ⟨r.sh.holds, r.sh.keys⟩, r.snd, r.fin⟩

theorem cacheMap_sh (c : Cfg) (s : St) : Sh s (cacheMap c s) := by
  have h1 : Sh s (dropNoFiles c s) := foldRemove_sh (fun a => (c.filesOf a).isEmpty) s.dom s
  have h2 : Sh (dropNoFiles c s) (dropUnused (cacheEntries c s) (dropNoFiles c s)) :=
    foldRemove_sh (fun a => !((cacheEntries c s).any (fun e => e.args.contains a))) _ _
  have h := h1.trans h2
  exact ⟨h.holds, h.keys⟩

theorem cacheMap_bk (c : Cfg) (s : St) (k : BK s) : BK (cacheMap c s) := by
  have k1 : BK (dropNoFiles c s) := foldRemove_bk (fun a => (c.filesOf a).isEmpty) s.dom s k
  have k2 : BK (dropUnused (cacheEntries c s) (dropNoFiles c s)) :=
    foldRemove_bk (fun a => !((cacheEntries c s).any (fun e => e.args.contains a))) _ _ k1
  exact ⟨k2.cons, k2.ne⟩

theorem cacheEntries_sound (c : Cfg) (s : St) : ∀ e ∈ cacheEntries c s, ∀ a ∈ e.args, refsN c a e.names = true := by
  intro e he a ha
  unfold cacheEntries at he
  simp only [List.mem_map, List.mem_filter] at he
  obtain ⟨d, _, rfl⟩ := he
  exact (List.mem_filter.mp ha).2

theorem RInv.cacheMap {c : Cfg} {s0 s : St} (r : RInv c s0 s) : RInv c s0 (cacheMap c s) := by
  refine ⟨cacheMap_bk c s r.bk, r.sh.trans (cacheMap_sh c s), ?_, ?_⟩
  · intro es he
    have : (Martian.Vdr.cacheMap c s).cache = some (cacheEntries c s) := rfl
    rw [this] at he
    cases he
    exact cacheEntries_sound c s
  · intro hf d hd
    rw [cacheMap_final] at hf
    rw [cacheMap_disk] at hd
    exact r.fin hf d hd

theorem RInv.normCache {c : Cfg} {s0 s : St} (r : RInv c s0 s) : RInv c s0 (normCache c s) := by
  unfold Martian.Vdr.normCache
  split
  · exact r.cacheMap
  · rename_i es he
    refine ⟨⟨r.bk.cons, r.bk.ne⟩, ⟨r.sh.holds, r.sh.keys⟩, ?_, r.fin⟩
    intro es' he' e hm a ha
    simp only [Option.some.injEq] at he'
    subst he'
    unfold updateCache at hm
    simp only [List.mem_map] at hm
    obtain ⟨e0, h0, rfl⟩ := hm
    exact r.snd es he e0 h0 a (List.mem_filter.mp ha).1

theorem normCache_sh (c : Cfg) (s : St) : Sh s (normCache c s) := by
  unfold normCache
  split
  · exact cacheMap_sh c s
  · exact ⟨fun _ _ h => h, fun p hp => ⟨p, hp, rfl⟩⟩

/-- after `normCache` every argument listed in the cache is still an argument of the fork -/
theorem normCache_inDom (c : Cfg) (s : St) :
    ∀ es, (normCache c s).cache = some es → ∀ e ∈ es, ∀ a ∈ e.args, InDom (normCache c s) a := by
  unfold normCache
  split
  · intro es he e hm a ha
    have : (cacheMap c s).cache = some (cacheEntries c s) := rfl
    rw [this] at he
    cases he
    have hm' := hm
    unfold cacheEntries at hm
    simp only [List.mem_map, List.mem_filter] at hm
    obtain ⟨d, _, rfl⟩ := hm
    have ha' := List.mem_filter.mp ha
    have ha'' := List.mem_filter.mp ha'.1
    have hdom : InDom s a := (mem_dom_iff s a).mp ha''.1
    have h1 : InDom (dropNoFiles c s) a :=
      foldRemove_keepsDom (fun a => (c.filesOf a).isEmpty) s.dom s a (by simpa using ha''.2) hdom
    have h2 : InDom (dropUnused (cacheEntries c s) (dropNoFiles c s)) a := by
      apply foldRemove_keepsDom (fun a => !((cacheEntries c s).any (fun e => e.args.contains a))) _ _ a _ h1
      simp only [Bool.not_eq_false', List.any_eq_true]
      exact ⟨_, hm', by simpa using ha⟩
    exact h2
  · intro es he e hm a ha
    simp only [Option.some.injEq] at he
    subst he
    unfold updateCache at hm
    simp only [List.mem_map] at hm
    obtain ⟨e0, _, rfl⟩ := hm
    have := (List.mem_filter.mp ha).2
    exact (mem_dom_iff s a).mp (by simpa using this)

/-- with no post node left every remaining aligned entry with arguments is held by `none` -/
theorem fin_core {c : Cfg} {s0 s1 : St} (r : RInv c s0 s1) (es es' : List Entry) (disk' : List DiskEnt)
    (hes : s1.cache = some es) (hsub : ∀ e ∈ es', e ∈ es ∧ e.args.isEmpty = false)
    (nc : ∀ e ∈ es, ∀ a ∈ e.args, InDom s1 a) (hpn : s1.postNodes = []) (al : Aligned es' disk') :
    ∀ d ∈ disk', isTmp d.kind = false → ∃ a, Holds s0 a none ∧ refsN c a (d.path :: d.alts) = true := by
  intro d hd ht
  have hdf : d ∈ disk'.filter (fun d => !isTmp d.kind) := List.mem_filter.mpr ⟨hd, by simp [ht]⟩
  obtain ⟨e, he', rel⟩ := forall2_mem_right al d hdf
  obtain ⟨he, hne⟩ := hsub e he'
  rw [List.isEmpty_eq_false_iff_exists_mem] at hne
  obtain ⟨a, ha⟩ := hne
  have hr := r.snd es hes e he a ha
  obtain ⟨hs, hm⟩ := nc e he a ha
  refine ⟨a, ?_, rel.2.2.2 ▸ hr⟩
  apply r.sh.holds
  cases hhs : hs with
  | nil => exact absurd hhs (r.bk.ne a hs hm)
  | cons h t =>
    cases h with
    | none => exact ⟨hs, hm, by rw [hhs]; exact List.mem_cons_self⟩
    | some n =>
      exfalso
      obtain ⟨as, hl, _⟩ := r.bk.cons a hs hm n (by rw [hhs]; exact List.mem_cons_self)
      rw [hpn] at hl
      simp [List.lookup] at hl

theorem postNodes_nil_of_sh {s s' : St} (h : Sh s s') (hp : s.postNodes.isEmpty = true) : s'.postNodes = [] := by
  apply List.eq_nil_iff_forall_not_mem.mpr
  intro p hm
  obtain ⟨q, hq, _⟩ := h.keys p hm
  rw [List.isEmpty_iff] at hp
  rw [hp] at hq
  cases hq

theorem RInv.vdrKillSome {c : Cfg} {s0 s : St} (ok : CfgOK c s0) (wf : DiskWF s0.disk) (x : XInv s0 s)
    (r : RInv c s0 s) (hf : s.final = false) (done : Bool) (hd : done = true → s.postNodes.isEmpty = true) :
    RInv c s0 (vdrKillSome c s done) := by
  unfold Martian.Vdr.vdrKillSome
  dsimp only
  have x1 := x.normCache ok wf.top
  have r1 := r.normCache
  have sh1 := normCache_sh c s
  have nc := normCache_inDom c s
  have hf1 : (Martian.Vdr.normCache c s).final = false := by rw [normCache_final]; exact hf
  obtain ⟨es, hes⟩ := normCache_cache c s
  generalize Martian.Vdr.normCache c s = s1 at *
  have hget : s1.cache.getD [] = es := by rw [hes]; rfl
  rw [hget]
  have al1 := (x1.al hf1 es hes).1
  split
  · rename_i hempty
    split
    · rename_i hdone
      refine ⟨⟨r1.bk.cons, r1.bk.ne⟩, ⟨r1.sh.holds, r1.sh.keys⟩, r1.snd, ?_⟩
      intro _
      apply fin_core r1 es es s1.disk hes _ (nc es hes) (postNodes_nil_of_sh sh1 (hd hdone)) al1
      intro e he
      refine ⟨he, ?_⟩
      cases hx : e.args.isEmpty with
      | false => rfl
      | true =>
        exfalso
        have : e ∈ es.filter (fun e => e.args.isEmpty) := List.mem_filter.mpr ⟨he, hx⟩
        rw [List.isEmpty_iff] at hempty
        rw [hempty] at this
        cases this
    · exact r1
  · have x2 := x1.killCore wf es hf1 hes
    have al2 : Aligned (es.filter (fun e => !e.args.isEmpty)) (killCore s1 es).disk :=
      (x2.al hf1 _ rfl).1
    have base : RInv c s0 (killCore s1 es) := by
      refine ⟨⟨r1.bk.cons, r1.bk.ne⟩, ⟨r1.sh.holds, r1.sh.keys⟩, ?_, ?_⟩
      · intro es' he' e hm a ha
        have : (killCore s1 es).cache = some (es.filter (fun e => !e.args.isEmpty)) := rfl
        rw [this] at he'
        cases he'
        exact r1.snd es hes e (List.mem_filter.mp hm).1 a ha
      · intro h
        have : (killCore s1 es).final = s1.final := rfl
        rw [this, hf1] at h
        cases h
    split
    · rename_i hcond
      refine ⟨⟨base.bk.cons, base.bk.ne⟩, ⟨base.sh.holds, base.sh.keys⟩, base.snd, ?_⟩
      intro _
      show ∀ d ∈ (killCore s1 es).disk, _
      by_cases hrest : (es.filter (fun e => !e.args.isEmpty)).isEmpty = true
      · intro d hdd ht
        exfalso
        have hdf : d ∈ (killCore s1 es).disk.filter (fun d => !isTmp d.kind) :=
          List.mem_filter.mpr ⟨hdd, by simp [ht]⟩
        obtain ⟨e, he, _⟩ := forall2_mem_right al2 d hdf
        rw [List.isEmpty_iff] at hrest
        rw [hrest] at he
        cases he
      · have hpn : s1.postNodes = [] := by
          simp only [Bool.or_eq_true] at hcond
          rcases hcond with (h | h) | h
          · exact absurd h hrest
          · exact postNodes_nil_of_sh sh1 (hd h)
          · exact List.isEmpty_iff.mp h
        apply fin_core r1 es (es.filter (fun e => !e.args.isEmpty)) _ hes _ (nc es hes) hpn al2
        intro e he
        have := List.mem_filter.mp he
        exact ⟨this.1, by simpa using this.2⟩
    · exact base


theorem RInv.vdrKill {c : Cfg} {s0 s : St} (ok : CfgOK c s0) (wf : DiskWF s0.disk) (hv : c.volatile = true)
    (x : XInv s0 s) (r : RInv c s0 s) (hp : s.postNodes.isEmpty = true) : RInv c s0 (vdrKill c s) := by
  unfold Martian.Vdr.vdrKill
  split
  · exact r
  · rename_i hf
    exact r.vdrKillSome ok wf x (by simpa using hf) true (fun _ => hp)

theorem RInv.kill {c : Cfg} {s0 s : St} (ok : CfgOK c s0) (wf : DiskWF s0.disk) (hv : c.volatile = true)
    (x : XInv s0 s) (r : RInv c s0 s) : RInv c s0 (kill c s) := by
  unfold Martian.Vdr.kill
  split
  · exact r
  · rename_i hf
    have hf0 : s.final = false := by simpa using hf
    dsimp only
    have x1 := x.cleanTmp (c := c) 3
    have r1 := r.cleanTmp hf0 3
    have hf1 : (Martian.Vdr.cleanTmp c s 3).final = false := by rw [(cleanTmp_fields c s 3).2.2.2.1]; exact hf0
    generalize Martian.Vdr.cleanTmp c s 3 = s1 at *
    have f2 := removePostNodes_frame ((s1.postNodes.map (·.1)).filter (fun n => s1.doneNodes.contains n)) s1
    have x2 := x1.frame f2
    have r2 := r1.frame f2 (removePostNodes_sh _ s1) (removePostNodes_bk _ s1 r1.bk)
    have hf2 := f2.final.trans hf1
    generalize removePostNodes s1 _ = s2 at *
    split
    · rename_i hemp
      split
      · exact r2.vdrKillSome ok wf x2 hf2 true (fun _ => hemp)
      · exact r2.vdrKill ok wf hv x2 hemp
    · split
      · exact r2.vdrKillSome ok wf x2 hf2 false (fun h => by cases h)
      · exact r2

theorem RInv.step {c : Cfg} {s0 s : St} (ok : CfgOK c s0) (wf : DiskWF s0.disk) (hv : c.volatile = true)
    (bk0 : BK s0) (x : XInv s0 s) (r : RInv c s0 s) (e : Ev) : RInv c s0 (step c s e) := by
  cases e with
  | nodeDone n => exact r.nodeDone n
  | nodeFailed n => exact r
  | nodeReset n => exact r
  | restart =>
    refine ⟨?_, ?_, ?_, r.fin⟩
    · refine ⟨?_, ?_⟩
      · show ∀ a hs, (a, hs) ∈ c.initArgs → ∀ n, some n ∈ hs → ∃ as, c.initPost.lookup n = some as ∧ a ∈ as
        rw [ok.init.1, ok.init.2]; exact bk0.cons
      · show ∀ a hs, (a, hs) ∈ c.initArgs → hs ≠ []
        rw [ok.init.1]; exact bk0.ne
    · refine ⟨?_, ?_⟩
      · intro a h hh
        obtain ⟨hs, hm, hin⟩ := hh
        exact ⟨hs, by rw [← ok.init.1]; exact hm, hin⟩
      · intro p hp
        exact ⟨p, by rw [← ok.init.2]; exact hp, rfl⟩
    · intro es he; cases he
  | removeEmpty =>
    exact r.frame (foldRemove_frame (fun a => (c.namesOf a).isEmpty) s.dom s)
      (foldRemove_sh (fun a => (c.namesOf a).isEmpty) s.dom s)
      (foldRemove_bk (fun a => (c.namesOf a).isEmpty) s.dom s r.bk)
  | cacheMap => exact r.cacheMap
  | early upto =>
    show RInv c s0 (if s.final then s else Martian.Vdr.cleanTmp c s (min upto 3))
    split
    · exact r
    · rename_i hf
      exact r.cleanTmp (by simpa using hf) _
  | kill => exact r.kill ok wf hv x

theorem joint_run {c : Cfg} {s0 s : St} (ok : CfgOK c s0) (wf : DiskWF s0.disk) (hv : c.volatile = true)
    (bk0 : BK s0) (x : XInv s0 s) (r : RInv c s0 s) (evs : List Ev) :
    XInv s0 (run c s evs) ∧ RInv c s0 (run c s evs) := by
  unfold run
  induction evs generalizing s with
  | nil => exact ⟨x, r⟩
  | cons e rest ih => exact ih (x.step ok wf e) (r.step ok wf hv bk0 x e)

theorem RInv.init (c : Cfg) (s0 : St) (fr : Fresh s0) (k : BK s0) (hf : s0.final = false) : RInv c s0 s0 := by
  refine ⟨k, Sh.refl s0, ?_, ?_⟩
  · intro es he; rw [fr.cache] at he; cases he
  · intro h; rw [hf] at h; cases h

theorem vdrKillSome_final_done (c : Cfg) (s : St) : (vdrKillSome c s true).final = true := by
  unfold vdrKillSome
  dsimp only
  split
  · rfl
  · simp

/-- once every post node is done, a complete-state pass of a volatile fork is final -/
theorem kill_final {c : Cfg} {s : St} (hv : c.volatile = true)
    (hdone : ∀ p ∈ s.postNodes, p.1 ∈ s.doneNodes) : (kill c s).final = true := by
  unfold kill
  split
  · rename_i h; exact h
  · dsimp only
    obtain ⟨_, pn, _, _, dn⟩ := cleanTmp_fields c s 3
    have hdone1 : ∀ p ∈ (cleanTmp c s 3).postNodes, p.1 ∈ (cleanTmp c s 3).doneNodes := by
      intro p hp; rw [pn] at hp; rw [dn]; exact hdone p hp
    generalize cleanTmp c s 3 = s1 at *
    have hk := removePostNodes_keys ((s1.postNodes.map (·.1)).filter (fun n => s1.doneNodes.contains n)) s1
    have hemp : (removePostNodes s1 ((s1.postNodes.map (·.1)).filter (fun n => s1.doneNodes.contains n))).postNodes.isEmpty = true := by
      rw [List.isEmpty_iff]
      apply List.eq_nil_iff_forall_not_mem.mpr
      intro p hp
      obtain ⟨h1, h2⟩ := hk p hp
      apply h2 p.1 _ rfl
      simp only [List.mem_filter, List.mem_map, List.contains_iff_mem]
      exact ⟨⟨p, h1, rfl⟩, hdone1 p h1⟩
    generalize removePostNodes s1 _ = s2 at *
    simp only [hemp, if_true]
    split
    · exact vdrKillSome_final_done c s2
    · unfold vdrKill
      split
      · rename_i h; exact h
      · exact vdrKillSome_final_done c s2

end Martian.Vdr
