/-
C19 — renameOutput leaves the resolved call graph unchanged modulo the renamed
output (references to that output of stages of `x`; the key of the resolved
output struct of pipeline `x`).
-/
import Proofs.RefactorGraphLemmas
import Proofs.RefactorGraphCall

namespace Proofs.RefactorGraph
open Martian.Refactor

section Clean
variable (x a b : String)

theorem renOutG_append (c : String) (p q : List String) (h : c ≠ x ∨ p ≠ []) :
    renOutG x a b c (p ++ q) = ((renOutG x a b c p).1, (renOutG x a b c p).2 ++ q) := by
  cases p with
  | nil =>
    have hc : c ≠ x := by
      cases h with
      | inl h => exact h
      | inr h => exact absurd rfl h
    cases q with
    | nil => rfl
    | cons h' t' => simp [renOutG, hc]
  | cons h' t' =>
    simp only [List.cons_append, renOutG]
    split <;> rfl

theorem clean_sref_iff (fq : List String) (c : String) (p : List String) :
    cleanR x (.sref fq c p) = true ↔ (c ≠ x ∨ p ≠ []) := by
  simp [cleanR, List.isEmpty_iff]

theorem bindingPath_renOut_all (v : RExp) (hv : cleanR x v = true) :
    (∀ path, bindingPath path (renOutR x a b v) = renOutR x a b (bindingPath path v))
    ∧ (∀ path, bindingPathElems path (renOutR x a b v) = renOutR x a b (bindingPathElems path v))
    ∧ (∀ h t, projectMember h t (renOutR x a b v) = renOutR x a b (projectMember h t v)) := by
  unfold renOutR
  induction v with
  | lit s => simp [mapSref, bindingPath, bindingPathElems, projectMember, rnull]
  | sref fq c p =>
    refine ⟨?_, ?_, ?_⟩
    · intro path
      simp only [mapSref, bindingPath]
      rw [renOutG_append x a b c p path ((clean_sref_iff x fq c p).mp hv)]
    · intro path; simp [mapSref, bindingPathElems]
    · intro h t; simp [mapSref, projectMember, rnull]
  | split e _ => simp [mapSref, bindingPath, bindingPathElems, projectMember, rnull]
  | arr es ih =>
    have ih := ih (by simpa [cleanR] using hv)
    refine ⟨?_, ?_, ?_⟩
    · intro path; simp [mapSref, bindingPath, ih.2.1]
    · intro path; simp [mapSref, bindingPathElems]
    · intro h t; simp [mapSref, projectMember, rnull]
  | map st es ih =>
    have ih := ih (by simpa [cleanR] using hv)
    refine ⟨?_, ?_, ?_⟩
    · intro path
      cases st with
      | false => simp [mapSref, bindingPath, ih.2.1]
      | true =>
        cases path with
        | nil => simp [mapSref, bindingPath]
        | cons h t => simp [mapSref, bindingPath, ih.2.2]
    · intro path; simp [mapSref, bindingPathElems]
    · intro h t; simp [mapSref, projectMember, rnull]
  | nil => simp [mapSref, bindingPath, bindingPathElems, projectMember, rnull]
  | cons k hd tl ih1 ih2 =>
    have hv' : cleanR x hd = true ∧ cleanR x tl = true := by simpa [cleanR] using hv
    have ih1 := ih1 hv'.1
    have ih2 := ih2 hv'.2
    refine ⟨?_, ?_, ?_⟩
    · intro path; simp [mapSref, bindingPath]
    · intro path; simp [mapSref, bindingPathElems, ih1.1, ih2.2.1]
    · intro h t
      simp only [mapSref, projectMember]
      split
      · exact ih1.1 t
      · exact ih2.2.2 h t

theorem clean_bindingPath_all (v : RExp) (hv : cleanR x v = true) :
    (∀ path, cleanR x (bindingPath path v) = true)
    ∧ (∀ path, cleanR x (bindingPathElems path v) = true)
    ∧ (∀ h t, cleanR x (projectMember h t v) = true) := by
  induction v with
  | lit s => simp [bindingPath, bindingPathElems, projectMember, rnull, cleanR]
  | sref fq c p =>
    refine ⟨?_, ?_, ?_⟩
    · intro path
      simp only [bindingPath]
      rw [clean_sref_iff] at hv ⊢
      cases hv with
      | inl h => exact Or.inl h
      | inr h => exact Or.inr (by cases p with | nil => exact absurd rfl h | cons _ _ => simp)
    · intro path; simpa [bindingPathElems] using hv
    · intro h t; simp [projectMember, rnull, cleanR]
  | split e _ =>
    refine ⟨?_, ?_, ?_⟩
    · intro path; simpa [bindingPath] using hv
    · intro path; simpa [bindingPathElems] using hv
    · intro h t; simp [projectMember, rnull, cleanR]
  | arr es ih =>
    have ih := ih (by simpa [cleanR] using hv)
    refine ⟨?_, ?_, ?_⟩
    · intro path; simpa [bindingPath, cleanR] using ih.2.1 path
    · intro path; simpa [bindingPathElems] using hv
    · intro h t; simp [projectMember, rnull, cleanR]
  | map st es ih =>
    have hes : cleanR x es = true := by simpa [cleanR] using hv
    have ih := ih hes
    refine ⟨?_, ?_, ?_⟩
    · intro path
      cases st with
      | false => simpa [bindingPath, cleanR] using ih.2.1 path
      | true =>
        cases path with
        | nil => simpa [bindingPath, cleanR] using hes
        | cons h t => simpa [bindingPath] using ih.2.2 h t
    · intro path; simpa [bindingPathElems] using hv
    · intro h t; simp [projectMember, rnull, cleanR]
  | nil => simp [bindingPath, bindingPathElems, projectMember, rnull, cleanR]
  | cons k hd tl ih1 ih2 =>
    have hv' : cleanR x hd = true ∧ cleanR x tl = true := by simpa [cleanR] using hv
    have ih1 := ih1 hv'.1
    have ih2 := ih2 hv'.2
    refine ⟨?_, ?_, ?_⟩
    · intro path; simpa [bindingPath] using hv
    · intro path; simp [bindingPathElems, cleanR, ih1.1 path, ih2.2.1 path]
    · intro h t
      simp only [projectMember]
      split
      · exact ih1.1 t
      · exact ih2.2.2 h t

theorem clean_filter_all (mo : String → Option Members) (v : RExp) (hv : cleanR x v = true) :
    (∀ ty, cleanR x (filterExp mo ty v) = true)
    ∧ (∀ ty, cleanR x (filterElems mo ty v) = true)
    ∧ (∀ ms, cleanR x (filterMembers mo ms v) = true) := by
  induction v with
  | lit s => simp [filterExp, filterElems, filterMembers, cleanR]
  | sref fq c p =>
    refine ⟨?_, ?_, ?_⟩ <;> intro _ <;> simpa [filterExp, filterElems, filterMembers] using hv
  | split e _ =>
    refine ⟨?_, ?_, ?_⟩ <;> intro _ <;> simpa [filterExp, filterElems, filterMembers] using hv
  | arr es ih =>
    have hes : cleanR x es = true := by simpa [cleanR] using hv
    have ih := ih hes
    refine ⟨?_, ?_, ?_⟩
    · intro ty
      simp only [filterExp]
      split
      · exact hv
      · split
        · exact hv
        · simpa [cleanR] using ih.2.1 _
    · intro ty; simpa [filterElems] using hv
    · intro ms; simpa [filterMembers] using hv
  | map st es ih =>
    have hes : cleanR x es = true := by simpa [cleanR] using hv
    have ih := ih hes
    refine ⟨?_, ?_, ?_⟩
    · intro ty
      simp only [filterExp]
      split
      · exact hv
      · split
        · simpa [cleanR] using ih.2.2 _
        · split
          · simpa [cleanR] using ih.2.1 _
          · exact hv
    · intro ty; simpa [filterElems] using hv
    · intro ms; simpa [filterMembers] using hv
  | nil => simp [filterExp, filterElems, filterMembers, cleanR]
  | cons k hd tl ih1 ih2 =>
    have hv' : cleanR x hd = true ∧ cleanR x tl = true := by simpa [cleanR] using hv
    have ih1 := ih1 hv'.1
    have ih2 := ih2 hv'.2
    refine ⟨?_, ?_, ?_⟩
    · intro ty; simpa [filterExp] using hv
    · intro ty; simp [filterElems, cleanR, ih1.1 ty, ih2.2.1 ty]
    · intro ms
      simp only [filterMembers]
      split
      · simp [cleanR, ih1.1 _, ih2.2.2 ms]
      · exact ih2.2.2 ms

theorem clean_substRefs (f : Ref → RExp) (e : Exp) (h : ∀ r ∈ refs e, cleanR x (f r) = true) :
    cleanR x (substRefs f e) = true := by
  induction e with
  | lit s => rfl
  | ref r => exact h r (by simp [refs])
  | split e ih => simpa [substRefs, cleanR] using ih (fun r hr => h r (by simpa [refs] using hr))
  | arr es ih => simpa [substRefs, cleanR] using ih (fun r hr => h r (by simpa [refs] using hr))
  | map st es ih => simpa [substRefs, cleanR] using ih (fun r hr => h r (by simpa [refs] using hr))
  | nil => rfl
  | cons k hd tl ih1 ih2 =>
    simp only [substRefs, cleanR, Bool.and_eq_true]
    exact ⟨ih1 (fun r hr => h r (by simp [refs, hr])), ih2 (fun r hr => h r (by simp [refs, hr]))⟩

theorem clean_envEntries (env : Env) (h : ∀ kv ∈ env, cleanR x kv.2 = true) :
    cleanR x (envEntries env) = true := by
  induction env with
  | nil => rfl
  | cons e t ih =>
    obtain ⟨k, v⟩ := e
    simp only [envEntries, cleanR, Bool.and_eq_true]
    exact ⟨h (k, v) (List.mem_cons_self ..), ih (fun kv hkv => h kv (List.mem_cons_of_mem _ hkv))⟩

theorem clean_envGet (env : Env) (h : ∀ kv ∈ env, cleanR x kv.2 = true) (k : String) :
    cleanR x (envGet env k) = true := by
  unfold envGet
  cases hl : env.lookup k with
  | none => rfl
  | some v => exact h (k, v) (mem_of_lookup _ _ _ hl)

theorem clean_resolveBinds (ti : TypeInfo) (tys : Members) (f : Ref → RExp) (bs : List Bind)
    (h : ∀ bd ∈ bs, ∀ r ∈ refs bd.exp, cleanR x (f r) = true) :
    ∀ kv ∈ resolveBinds ti tys f bs, cleanR x kv.2 = true := by
  intro kv hkv
  unfold resolveBinds at hkv
  obtain ⟨bd, hbd, rfl⟩ := List.mem_map.mp hkv
  have hc := clean_substRefs x f bd.exp (h bd hbd)
  simp only
  split
  · exact (clean_filter_all x _ _ hc).1 _
  · exact hc

end Clean


/-! ### the reference rewriting of renameOutput -/

section RenOutAll
variable (a b : String)

def stepRef (r : Ref) : Ref :=
  match r.path with
  | h :: t => if h = a then { r with path := b :: t } else r
  | [] => r

theorem stepRef_kind (r : Ref) : (stepRef a b r).kind = r.kind ∧ (stepRef a b r).id = r.id := by
  unfold stepRef; split
  · split <;> exact ⟨rfl, rfl⟩
  · exact ⟨rfl, rfl⟩

theorem stepRef_idem (hab : a ≠ b) (r : Ref) : stepRef a b (stepRef a b r) = stepRef a b r := by
  cases hp : r.path with
  | nil => simp [stepRef, hp]
  | cons h t =>
    by_cases hh : h = a
    · have e1 : stepRef a b r = { r with path := b :: t } := by simp [stepRef, hp, hh]
      rw [e1]
      simp [stepRef, Ne.symm hab]
    · have e1 : stepRef a b r = r := by simp [stepRef, hp, hh]
      rw [e1, e1]

theorem renRefOut_eq (cid : String) (r : Ref) :
    renRefOut cid a b r = if r.kind = RefKind.call ∧ r.id = cid then stepRef a b r else r := by
  unfold renRefOut stepRef
  split
  · rfl
  · rfl

theorem renOutAll_call (hab : a ≠ b) (cids : List String) (r : Ref) (hk : r.kind = RefKind.call) :
    renOutAll cids a b r = if r.id ∈ cids then stepRef a b r else r := by
  unfold renOutAll
  induction cids generalizing r with
  | nil => simp
  | cons c t ih =>
    simp only [List.foldl_cons]
    rw [renRefOut_eq a b c r]
    by_cases hc : r.id = c
    · simp only [hk, hc, and_self, if_true, List.mem_cons, true_or]
      have hk' := (stepRef_kind a b r)
      rw [ih (stepRef a b r) (hk'.1.trans hk)]
      split
      · exact stepRef_idem a b hab r
      · rfl
    · simp only [hc, and_false, if_false, List.mem_cons, false_or]
      exact ih r hk

theorem renOutAll_self (cids : List String) (r : Ref) (hk : r.kind = RefKind.self) :
    renOutAll cids a b r = r := by
  unfold renOutAll
  induction cids generalizing r with
  | nil => rfl
  | cons c t ih =>
    simp only [List.foldl_cons]
    rw [renRefOut_eq a b c r]
    simp only [hk]
    simpa using ih r hk

end RenOutAll

theorem mem_callIdsOf (x : String) (c : Callable) (hnd : (callIds c).Nodup) (K : String) (k' : Call)
    (hk : c.calls.find? (·.id == K) = some k') : K ∈ callIdsOf x c ↔ k'.decId = x := by
  have hkm := call_mem c K k' hk
  unfold callIdsOf
  constructor
  · intro h
    obtain ⟨k'', hk'', hid⟩ := List.mem_map.mp h
    have hk''m := (List.mem_filter.mp hk'').1
    have := first_of_nodup c hnd k'' hk''m
    rw [hid, hk] at this
    cases this
    simpa using (List.mem_filter.mp hk'').2
  · intro h
    exact List.mem_map.mpr ⟨k', List.mem_filter.mpr ⟨hkm.1, by simpa using h⟩, hkm.2⟩

theorem mapRefs_noRefs (f : Ref → Ref) (e : Exp) (h : refs e = []) : mapRefs f e = e := by
  induction e with
  | lit s => rfl
  | ref r => simp [refs] at h
  | split e ih => simp [mapRefs, ih (by simpa [refs] using h)]
  | arr es ih => simp [mapRefs, ih (by simpa [refs] using h)]
  | map st es ih => simp [mapRefs, ih (by simpa [refs] using h)]
  | nil => rfl
  | cons k hd tl ih1 ih2 =>
    have h' : refs hd = [] ∧ refs tl = [] := by simpa [refs] using h
    simp [mapRefs, ih1 h'.1, ih2 h'.2]

theorem noStar_renameFirst (a b : String) (hstar : b ≠ "*") (l : List Bind) (h : noStar l = true) :
    noStar (renameFirstBind a b l) = true := by
  induction l with
  | nil => rfl
  | cons e t ih =>
    simp only [noStar, List.all_cons, Bool.and_eq_true, bne_iff_ne, ne_eq] at h
    simp only [renameFirstBind]
    split
    · simp only [noStar, List.all_cons, Bool.and_eq_true, bne_iff_ne, ne_eq]
      exact ⟨hstar, h.2⟩
    · simp only [noStar, List.all_cons, Bool.and_eq_true, bne_iff_ne, ne_eq]
      exact ⟨h.1, ih h.2⟩

theorem renameBindAll_eq_first (a b : String) (bs : List Bind) (hnd : (bs.map (·.name)).Nodup) :
    renameBindAll a b bs = renameFirstBind a b bs := by
  induction bs with
  | nil => rfl
  | cons bd t ih =>
    simp only [List.map_cons, List.nodup_cons] at hnd
    simp only [renameBindAll, List.map_cons, renameFirstBind]
    split
    · rename_i hk
      congr 1
      have : ∀ bd' ∈ t, bd'.name ≠ a := fun bd' hbd' h =>
        hnd.1 (hk ▸ List.mem_map.mpr ⟨bd', hbd', h⟩)
      clear ih hnd
      induction t with
      | nil => rfl
      | cons e t' ih' =>
        simp only [List.map_cons]
        rw [if_neg (this e (List.mem_cons_self ..)), ih' (fun bd' h => this bd' (List.mem_cons_of_mem _ h))]
    · congr 1
      have := ih hnd.2
      simpa [renameBindAll] using this

theorem envEntries_renKey (a b : String) (env : Env) :
    envEntries (renKeyEnv a b env) = renKeyR a b (envEntries env) := by
  induction env with
  | nil => rfl
  | cons e t ih =>
    obtain ⟨k, v⟩ := e
    simp only [renKeyEnv]
    split
    · simp [envEntries, renKeyR, *]
    · simp [envEntries, renKeyR, *]

theorem projectMember_renKey (a b h : String) (t : List String) (env : Env)
    (hb : b ∉ env.map (·.1)) (hh : h ≠ b) :
    projectMember (if h = a then b else h) t (renKeyR a b (envEntries env))
      = projectMember h t (envEntries env) := by
  induction env with
  | nil => simp [envEntries, renKeyR, projectMember]
  | cons e tl ih =>
    obtain ⟨k, v⟩ := e
    simp only [List.map_cons, List.mem_cons, not_or] at hb
    simp only [envEntries, renKeyR]
    by_cases hk : k = a
    · subst hk
      by_cases hhk : h = k
      · simp [projectMember, hhk]
      · have : k ≠ h := fun e => hhk e.symm
        simp only [if_true, projectMember, hhk, if_false, this]
        have hbh : ¬ b = h := fun e => hh e.symm
        simp only [hbh, if_false]
    · simp only [hk, if_false, projectMember]
      by_cases hhk : k = h
      · subst hhk
        simp [hk]
      · by_cases hha : h = a
        · have : ¬ k = b := fun e => hb.1 e.symm
          simp only [hha, if_true, this, if_false]
          have := ih hb.2
          simp only [hha, if_true] at this
          rw [this]
          simp [hk]
        · have := ih hb.2
          simp only [hha, if_false] at this ⊢
          simp only [hhk, if_false]
          exact this


/-! ### the simulation for renameOutput -/

section RenOut
variable (x a b : String)

def OOut (name : String) (isPipe : Bool) (v : RExp) : RExp :=
  if name = x ∧ isPipe = true then renTopKey a b (renOutR x a b v) else renOutR x a b v

def GOut (pipe : Callable) (k : Call) : Call :=
  if pipe.name = x then k else Call.mapRefs (renOutAll (callIdsOf x pipe) a b) k

def IOut (_ : Callable) (self : Env) : Prop := ∀ kv ∈ self, cleanR x kv.2 = true

def JOut (d : Callable) (v : RExp) : Prop :=
  if d.name = x then
    (if d.isPipe = true then
      (v = rnull ∨ ∃ env : Env, v = .map true (envEntries env) ∧ b ∉ env.map (·.1)
          ∧ ∀ kv ∈ env, cleanR x kv.2 = true)
     else (v = rnull ∨ ∃ fq, v = .sref fq x []))
  else cleanR x v = true

theorem renameOutputIn_name (c : Callable) : (renameOutputIn x a b c).name = c.name := by
  unfold renameOutputIn; split
  · split <;> rfl
  · split <;> rfl

theorem pipeOKOut_parts {p : Program} {c : Callable} (h : pipeOKOut x b p c = true) :
    (c.isPipe = true ∨ c.calls = [])
    ∧ (callIds c).Nodup
    ∧ (∀ k ∈ c.calls, noStar k.binds = true)
    ∧ noStar c.ret = true
    ∧ (∀ k ∈ c.calls, (p.find? k.decId).isSome = true)
    ∧ (∀ r ∈ graphRefs c, r.kind = RefKind.call → r.id ∈ callIds c)
    ∧ (c.name = x → (∀ k ∈ c.calls, k.decId ≠ x) ∧ b ∉ c.ret.map (·.name) ∧ (c.ret.map (·.name)).Nodup)
    ∧ (∀ r ∈ graphRefs c, r.kind = RefKind.call → r.id ∈ callIdsOf x c →
        ∃ h t, r.path = h :: t ∧ h ≠ b) := by
  simp only [pipeOKOut, Bool.and_eq_true, Bool.or_eq_true, List.all_eq_true, decide_eq_true_eq,
    bne_iff_ne, ne_eq, List.isEmpty_iff, List.contains_eq_mem, Bool.not_eq_true',
    decide_eq_false_iff_not] at h
  obtain ⟨⟨⟨⟨⟨⟨⟨h1, h2⟩, h3⟩, h4⟩, h5⟩, h6⟩, h7⟩, h8⟩ := h
  refine ⟨h1, h2, h3, h4, h5, ?_, ?_, ?_⟩
  · intro r hr hk
    cases h6 r hr with
    | inl h => exact absurd hk h
    | inr h => simpa using h
  · intro hn
    cases h7 with
    | inl h => exact absurd hn h
    | inr h => exact ⟨h.1.1, h.1.2, h.2⟩
  · intro r hr hk hid
    cases h8 r hr with
    | inl h =>
      simp [callRefTo, hk, hid] at h
    | inr h =>
      cases hp : r.path with
      | nil => simp [hp] at h
      | cons hd tl => exact ⟨hd, tl, rfl, by simpa [hp] using h⟩

theorem find_of_mem_ids (c : Callable) (K : String) (h : K ∈ callIds c) :
    ∃ k', c.calls.find? (·.id == K) = some k' := by
  unfold callIds at h
  obtain ⟨k, hk, hid⟩ := List.mem_map.mp h
  cases hf : c.calls.find? (·.id == K) with
  | some k' => exact ⟨k', rfl⟩
  | none =>
    rw [List.find?_eq_none] at hf
    have := hf k hk
    simp [hid] at this

theorem renOutR_rnull : renOutR x a b rnull = rnull := rfl

/-- the key fact: how one reference of a pipeline resolves before and after -/
theorem perRef_out (p : Program) (hab : a ≠ b) (pipe : Callable) (self : Env) (sib : String → RExp)
    (hg : pipeOKOut x b p pipe = true) (hi : IOut x pipe self) (hsib : SibOK p (JOut x b) pipe sib)
    (r : Ref) (hr : r ∈ graphRefs pipe) :
    cleanR x (lookupRef self sib r) = true
    ∧ lookupRef (mapVals (renOutR x a b) self) (Osib p (OOut x a b) pipe sib)
          (renOutAll (callIdsOf x pipe) a b r)
        = renOutR x a b (lookupRef self sib r) := by
  have hparts := pipeOKOut_parts x b hg
  cases hkind : r.kind with
  | self =>
    have hc := clean_envGet x self hi r.id
    refine ⟨?_, ?_⟩
    · simp only [lookupRef, hkind]
      exact (clean_bindingPath_all x _ hc).1 _
    · rw [renOutAll_self a b _ r hkind]
      simp only [lookupRef, hkind]
      rw [envGet_mapVals _ (renOutR_rnull x a b), (bindingPath_renOut_all x a b _ hc).1]
  | call =>
    have hid := hparts.2.2.2.2.2.1 r hr hkind
    obtain ⟨k', hk'⟩ := find_of_mem_ids pipe r.id hid
    have hk'm := (call_mem pipe r.id k' hk').1
    have hsome := hparts.2.2.2.2.1 k' hk'm
    obtain ⟨d', hd'⟩ := Option.isSome_iff_exists.mp hsome
    have hdn := find_name p _ d' hd'
    have hJ := hsib r.id k' d' hk' hd'
    have hO : Osib p (OOut x a b) pipe sib r.id = OOut x a b d'.name d'.isPipe (sib r.id) := by
      simp [Osib, calleeOf, hk', hd']
    rw [renOutAll_call a b hab _ r hkind]
    by_cases hx : d'.name = x
    · have hmem : r.id ∈ callIdsOf x pipe :=
        (mem_callIdsOf x pipe hparts.2.1 r.id k' hk').mpr (hdn ▸ hx)
      obtain ⟨h, t, hp, hhb⟩ := hparts.2.2.2.2.2.2.2 r hr hkind hmem
      simp only [hmem, if_true]
      have hstep : (stepRef a b r).path = (if h = a then b else h) :: t
          ∧ (stepRef a b r).kind = RefKind.call ∧ (stepRef a b r).id = r.id := by
        refine ⟨?_, (stepRef_kind a b r).1.trans hkind, (stepRef_kind a b r).2⟩
        unfold stepRef
        rw [hp]
        simp only
        split <;> simp [*]
      simp only [lookupRef, hkind, hstep.2.1, hstep.2.2, hstep.1, hp, hO]
      unfold JOut at hJ
      simp only [hx, if_true] at hJ
      cases hpipe : d'.isPipe with
      | true =>
        simp only [hpipe, if_true] at hJ
        simp only [OOut, hx, and_self, if_true]
        cases hJ with
        | inl h0 => rw [h0]; exact ⟨rfl, rfl⟩
        | inr h1 =>
          obtain ⟨env, hv, hbk, hcl⟩ := h1
          rw [hv]
          have hce := clean_envEntries x env hcl
          refine ⟨?_, ?_⟩
          · simpa [bindingPath] using (clean_bindingPath_all x _ hce).2.2 h t
          · have e1 : renOutR x a b (.map true (envEntries env))
                = .map true (envEntries (mapVals (renOutR x a b) env)) := by
              unfold renOutR
              simp only [mapSref]
              rw [envEntries_mapVals]
            rw [e1]
            simp only [renTopKey, bindingPath]
            have hbk' : b ∉ (mapVals (renOutR x a b) env).map (·.1) := by
              simpa [mapVals, Function.comp] using hbk
            rw [projectMember_renKey a b h t _ hbk' hhb]
            unfold renOutR at *
            rw [← envEntries_mapVals]
            exact (bindingPath_renOut_all x a b _ hce).2.2 h t
      | false =>
        simp only [hpipe, Bool.false_eq_true, if_false] at hJ
        simp only [OOut, hx, Bool.false_eq_true, and_false, if_false]
        cases hJ with
        | inl h0 => rw [h0]; exact ⟨rfl, rfl⟩
        | inr h1 =>
          obtain ⟨fq, hv⟩ := h1
          rw [hv]
          refine ⟨?_, ?_⟩
          · simp [bindingPath, cleanR]
          · simp only [renOutR, mapSref, renOutG, bindingPath, List.nil_append, true_and]
            split <;> simp [*]
    · have hnm : r.id ∉ callIdsOf x pipe := fun h =>
        hx (hdn.trans ((mem_callIdsOf x pipe hparts.2.1 r.id k' hk').mp h))
      simp only [hnm, if_false]
      unfold JOut at hJ
      simp only [hx, if_false] at hJ
      simp only [lookupRef, hkind, hO, OOut, hx, false_and, if_false]
      exact ⟨(clean_bindingPath_all x _ hJ).1 _, (bindingPath_renOut_all x a b _ hJ).1 _⟩

theorem callIdsOf_nil_of_no_call (c : Callable) (h : ∀ k ∈ c.calls, k.decId ≠ x) : callIdsOf x c = [] := by
  unfold callIdsOf
  have : c.calls.filter (·.decId == x) = [] := by
    rw [List.filter_eq_nil_iff]
    intro k hk
    simpa using h k hk
  rw [this]; rfl

theorem mem_graphRefs_bind (c : Callable) (k : Call) (hk : k ∈ c.calls) (bd : Bind) (hbd : bd ∈ k.binds)
    (r : Ref) (hr : r ∈ refs bd.exp) : r ∈ graphRefs c := by
  unfold graphRefs
  apply List.mem_append_left; apply List.mem_append_left
  exact List.mem_flatMap.mpr ⟨k, hk, List.mem_flatMap.mpr ⟨bd, hbd, hr⟩⟩

theorem mem_graphRefs_ret (c : Callable) (bd : Bind) (hbd : bd ∈ c.ret)
    (r : Ref) (hr : r ∈ refs bd.exp) : r ∈ graphRefs c := by
  unfold graphRefs
  apply List.mem_append_left; apply List.mem_append_right
  exact List.mem_flatMap.mpr ⟨bd, hbd, hr⟩

theorem mem_graphRefs_retain (c : Callable) (r : Ref) (hr : r ∈ c.retain) : r ∈ graphRefs c := by
  unfold graphRefs
  exact List.mem_append_right _ hr

theorem rename_output_graph (ti : TypeInfo) (p : Program) (hok : RenOutOK x a b ti p = true) :
    deepGraph (ti.renameOutput x a b) (renameOutput x a b p)
      = (deepGraph ti p).map (renNodeOut x a b) := by
  simp only [RenOutOK, Bool.and_eq_true, bne_iff_ne, ne_eq, List.all_eq_true, Bool.not_eq_true',
    List.contains_eq_mem, decide_eq_false_iff_not] at hok
  obtain ⟨⟨⟨⟨⟨⟨⟨hx, hstar⟩, hab⟩, hfx⟩, hall⟩, htopok⟩, hax⟩, htys⟩ := hok
  have hax' := typesAvoid_parts hax
  have hp' : renameOutput x a b p = { p with callables := p.callables.map (renameOutputIn x a b) } := by
    unfold renameOutput
    cases h : p.find? x with
    | none => simp [h] at hfx
    | some _ => rfl
  let ok : String → Prop := fun base => base ≠ x
  have hmo : ∀ base, ok base → membersOf (ti.renameOutput x a b) base = membersOf ti base := by
    intro base hb
    simp only [membersOf, TypeInfo.renameOutput]
    rw [lookup_onKey_ne x base _ ti.outs hb]
  have hclosed : ∀ base ms, ok base → membersOf ti base = some ms → ∀ m ∈ ms, ok m.2.base := by
    intro base ms _ hm m hmm
    cases membersOf_mem ti base ms hm with
    | inl h => exact hax'.2.1 _ h m hmm
    | inr h => exact hax'.2.2.2 _ h m hmm
  have hinsOK : ∀ n, ∀ m ∈ insOf ti n, ok m.2.base := by
    intro n m hm
    unfold insOf at hm
    cases hl : ti.ins.lookup n with
    | none => simp [hl] at hm
    | some ms =>
      simp only [hl, Option.getD_some] at hm
      exact hax'.2.2.1 _ (mem_of_lookup _ _ _ hl) m hm
  have houtsOK : ∀ n, ∀ m ∈ outsOf ti n, ok m.2.base := by
    intro n m hm
    unfold outsOf at hm
    cases hl : ti.outs.lookup n with
    | none => simp [hl] at hm
    | some ms =>
      simp only [hl, Option.getD_some] at hm
      exact hax'.2.2.2 _ (mem_of_lookup _ _ _ hl) m hm
  have hnsmap : ∀ (f : Ref → Ref) (bs : List Bind), noStar bs = true →
      noStar (bs.map (Bind.mapRefs f)) = true := by
    intro f bs h; simpa [noStar, Bind.mapRefs] using h
  have H : SimHyp ti (ti.renameOutput x a b) p (renameOutput x a b p) id (renameOutputIn x a b)
      (GOut x a b) (fun _ env => mapVals (renOutR x a b) env) (OOut x a b) (renOutR x a b)
      (fun c => pipeOKOut x b p c = true) (IOut x) (JOut x b) (fun _ => True) (fun _ _ => true) := by
    refine { hfind1 := ?_, hfind0 := ?_, hrel := fun _ _ _ _ => trivial, hF := ?_, hcalls := ?_,
             hGid := ?_, hGdec := ?_, hfirst := ?_, hO0 := ?_, hOs := ?_, o0 := ?_, o0s := ?_,
             o1 := ?_, o2 := ?_, c5 := ?_, c6 := ?_, c7 := ?_ }
    · intro n d hd
      refine ⟨?_, hall d (find_mem p n d hd)⟩
      rw [hp']
      unfold Program.find? at hd ⊢
      simp only [id]
      rw [find_map_name _ (renameOutputIn_name x a b), hd]; rfl
    · intro n _ hd
      rw [hp']
      unfold Program.find? at hd ⊢
      simp only [id]
      rw [find_map_name _ (renameOutputIn_name x a b), hd]; rfl
    · intro c hg
      have hparts := pipeOKOut_parts x b hg
      unfold renameOutputIn
      split
      · split
        · refine ⟨rfl, rfl, ?_, ?_⟩
          · cases c.outs with
            | nil => rfl
            | cons o t => simp only [renameFirstOut]; split <;> rfl
          · simp [renameBindAll]
        · refine ⟨rfl, rfl, ?_, rfl⟩
          cases c.outs with
          | nil => rfl
          | cons o t => simp only [renameFirstOut]; split <;> rfl
      · split <;> simp
    · intro pipe hg
      have hparts := pipeOKOut_parts x b hg
      rw [show (pipe.calls.filter (fun k => (fun (_ : Callable) (_ : String) => true) pipe k.id)) = pipe.calls from filter_true' _]
      unfold renameOutputIn GOut
      by_cases hn : pipe.name = x
      · simp only [hn, if_true]
        split <;> simp
      · simp only [hn, if_false]
        cases hparts.1 with
        | inl h => simp [h]
        | inr h => simp [h]; split <;> simp [h]
    · intro pipe k
      unfold GOut; split <;> rfl
    · intro pipe _ k _
      unfold GOut; split <;> rfl
    · intro pipe hg
      exact first_of_nodup pipe (pipeOKOut_parts x b hg).2.1
    · intro n isP
      unfold OOut; split <;> rfl
    · intro d fq _ hp
      simp [OOut, renOutR, mapSref, renOutG]
    · -- o0
      intro d
      unfold JOut
      split
      · split <;> exact Or.inl rfl
      · rfl
    · -- o0s
      intro d fq hp
      unfold JOut
      split
      · rename_i hn
        simp only [hp, Bool.false_eq_true, if_false]
        exact Or.inr ⟨fq, by rw [hn]⟩
      · rename_i hn
        simp [cleanR, hn]
    · -- o1
      intro pipe self sib k d id hg hi hsib hk _
      have hparts := pipeOKOut_parts x b hg
      have hkm := (call_mem pipe id k hk).1
      unfold callIns IOut
      rw [expandWild_noStar _ _ _ _ (hparts.2.2.1 k hkm)]
      apply clean_resolveBinds
      intro bd hbd r hr
      exact (perRef_out x a b p hab pipe self sib hg hi hsib r (mem_graphRefs_bind pipe k hkm bd hbd r hr)).1
    · -- o2
      intro d ins sib hg hp hi hsib
      have hparts := pipeOKOut_parts x b hg
      have hcl : ∀ kv ∈ resolveBinds ti (outsOf ti d.name) (lookupRef ins sib) d.ret, cleanR x kv.2 = true := by
        apply clean_resolveBinds
        intro bd hbd r hr
        exact (perRef_out x a b p hab d ins sib hg hi hsib r (mem_graphRefs_ret d bd hbd r hr)).1
      unfold pipeOuts JOut
      rw [expandWild_noStar _ _ _ _ hparts.2.2.2.1]
      split
      · rename_i hn
        first | rw [if_pos hp] | skip
        refine Or.inr ⟨_, rfl, ?_, hcl⟩
        rw [resolveBinds_keys]
        exact (hparts.2.2.2.2.2.2.1 hn).2.1
      · simp only [cleanR]
        exact clean_envEntries x _ hcl
    · -- c5
      intro pipe self sib sib' k d id hg hi hsib hag _ hk hd
      have hs' := sibAgree_true hag
      subst hs'
      have hparts := pipeOKOut_parts x b hg
      have hkm := (call_mem pipe id k hk).1
      have hns := hparts.2.2.1 k hkm
      have hper := fun bd hbd r hr =>
        (perRef_out x a b p hab pipe self sib hg hi hsib r (mem_graphRefs_bind pipe k hkm bd hbd r hr)).2
      unfold callIns
      rw [renameOutputIn_name]
      have hins : insOf (ti.renameOutput x a b) d.name = insOf ti d.name := rfl
      rw [hins, expandWild_noStar _ _ _ _ hns]
      have hgoal : resolveBinds (ti.renameOutput x a b) (insOf ti d.name)
          (lookupRef (mapVals (renOutR x a b) self) (Osib p (OOut x a b) pipe sib))
          (k.binds.map (Bind.mapRefs (renOutAll (callIdsOf x pipe) a b)))
          = mapVals (renOutR x a b) (resolveBinds ti (insOf ti d.name) (lookupRef self sib) k.binds) := by
        rw [resolveBinds_mapRefs, resolveBinds_congr _ _ _ (fun r => renOutR x a b (lookupRef self sib r)) _ hper,
            resolveBinds_ti_ok ti _ ok hmo hclosed _ (hinsOK d.name)]
        exact resolveBinds_post _ ti _ _ _
      by_cases hn : pipe.name = x
      · have hnil := callIdsOf_nil_of_no_call x pipe (hparts.2.2.2.2.2.2.1 hn).1
        have hG : (GOut x a b pipe k).binds = k.binds := by simp [GOut, hn]
        rw [hG, expandWild_noStar _ _ _ _ hns]
        rw [hnil] at hgoal
        have hid' : k.binds.map (Bind.mapRefs (renOutAll [] a b)) = k.binds := by
          have : ∀ e : Exp, mapRefs (renOutAll [] a b) e = e := by
            intro e
            induction e with
            | lit s => rfl
            | ref r => rfl
            | split e ih => simp [mapRefs, ih]
            | arr es ih => simp [mapRefs, ih]
            | map st es ih => simp [mapRefs, ih]
            | nil => rfl
            | cons k h t ih1 ih2 => simp [mapRefs, ih1, ih2]
          conv => rhs; rw [← List.map_id k.binds]
          apply List.map_congr_left
          intro bd _
          simp [Bind.mapRefs, this]
        rw [hid'] at hgoal
        exact hgoal
      · have hG : (GOut x a b pipe k).binds = k.binds.map (Bind.mapRefs (renOutAll (callIdsOf x pipe) a b)) := by
          simp [GOut, hn, Call.mapRefs]
        rw [hG, expandWild_noStar _ _ _ _ (hnsmap _ _ hns)]
        exact hgoal
    · -- c6
      intro d ins sib sib' hg hp hi hsib hag
      have hs' := sibAgree_true hag
      subst hs'
      have hparts := pipeOKOut_parts x b hg
      have hper := fun bd hbd r hr =>
        (perRef_out x a b p hab d ins sib hg hi hsib r (mem_graphRefs_ret d bd hbd r hr)).2
      have hstruct : ∀ env : Env, renOutR x a b (.map true (envEntries env))
          = .map true (envEntries (mapVals (renOutR x a b) env)) := by
        intro env
        unfold renOutR
        simp only [mapSref]
        rw [envEntries_mapVals]
      unfold pipeOuts
      rw [renameOutputIn_name, expandWild_noStar _ _ _ _ hparts.2.2.2.1]
      by_cases hn : d.name = x
      · have h7 := hparts.2.2.2.2.2.2.1 hn
        have hnil := callIdsOf_nil_of_no_call x d h7.1
        have hret : (renameOutputIn x a b d).ret = renameFirstBind a b d.ret := by
          simp only [renameOutputIn, hn, if_true, hp]
          exact renameBindAll_eq_first a b d.ret h7.2.2
        have houts : outsOf (ti.renameOutput x a b) d.name = renKeyM a b (outsOf ti d.name) := by
          simp only [outsOf, TypeInfo.renameOutput, hn, lookup_onKey_self]
          cases ti.outs.lookup x <;> rfl
        have hns' : noStar (renameFirstBind a b d.ret) = true :=
          noStar_renameFirst a b hstar _ hparts.2.2.2.1
        rw [hret, expandWild_noStar _ _ _ _ hns', houts]
        have htys' : b ∉ (outsOf ti d.name).map (·.1) := by rw [hn]; exact htys
        have hokm : ∀ m ∈ renKeyM a b (outsOf ti d.name), ok m.2.base := by
          intro m hm
          have : ∀ (l : Members), (∀ m ∈ l, ok m.2.base) → ∀ m ∈ renKeyM a b l, ok m.2.base := by
            intro l
            induction l with
            | nil => intro _ m hm; cases hm
            | cons e t ih =>
              intro hl m hm
              obtain ⟨k, v⟩ := e
              simp only [renKeyM] at hm
              split at hm
              · cases hm with
                | head => exact hl (k, v) (List.mem_cons_self ..)
                | tail _ h => exact hl m (List.mem_cons_of_mem _ h)
              · cases hm with
                | head => exact hl (k, v) (List.mem_cons_self ..)
                | tail _ h => exact ih (fun m' hm' => hl m' (List.mem_cons_of_mem _ hm')) m h
          exact this _ (houtsOK d.name) m hm
        rw [resolveBinds_ti_ok ti _ ok hmo hclosed _ hokm,
            resolveBinds_renameFirst ti a b _ _ _ hab htys' h7.2.1 h7.2.2]
        have hper' : ∀ bd ∈ d.ret, ∀ r ∈ refs bd.exp,
            lookupRef (mapVals (renOutR x a b) ins) (Osib p (OOut x a b) d sib) r
              = renOutR x a b (lookupRef ins sib r) := by
          intro bd hbd r hr
          have := hper bd hbd r hr
          rw [hnil] at this
          exact this
        rw [resolveBinds_congr _ _ _ (fun r => renOutR x a b (lookupRef ins sib r)) _ hper']
        have := resolveBinds_post (renOutG x a b) ti (outsOf ti d.name) (lookupRef ins sib) d.ret
        unfold renOutR
        rw [this, envEntries_renKey]
        simp only [OOut, hn, and_self, if_true]
        rw [hstruct]
        rfl
      · have hret : (renameOutputIn x a b d).ret
            = d.ret.map (Bind.mapRefs (renOutAll (callIdsOf x d) a b)) := by
          simp [renameOutputIn, hn, hp]
        have houts : outsOf (ti.renameOutput x a b) d.name = outsOf ti d.name := by
          simp [outsOf, TypeInfo.renameOutput, lookup_onKey_ne x d.name _ _ hn]
        rw [hret, expandWild_noStar _ _ _ _ (hnsmap _ _ hparts.2.2.2.1), houts, resolveBinds_mapRefs,
            resolveBinds_congr _ _ _ (fun r => renOutR x a b (lookupRef ins sib r)) _ hper,
            resolveBinds_ti_ok ti _ ok hmo hclosed _ (houtsOK d.name)]
        have := resolveBinds_post (renOutG x a b) ti (outsOf ti d.name) (lookupRef ins sib) d.ret
        unfold renOutR
        rw [this]
        simp only [OOut, hn, false_and, if_false]
        exact (hstruct _).symm
    · -- c7
      intro d ins sib sib' hg hp hi hsib hag
      have hs' := sibAgree_true hag
      subst hs'
      have hparts := pipeOKOut_parts x b hg
      have hper := fun r hr =>
        (perRef_out x a b p hab d ins sib hg hi hsib r (mem_graphRefs_retain d r hr)).2
      unfold pipeRetained
      rw [List.map_flatMap]
      by_cases hn : d.name = x
      · have hnil := callIdsOf_nil_of_no_call x d (hparts.2.2.2.2.2.2.1 hn).1
        have hret : (renameOutputIn x a b d).retain = d.retain := by
          simp [renameOutputIn, hn, hp]
        rw [hret]
        apply flatMap_congr'
        intro r hr
        have := hper r hr
        rw [hnil] at this
        have e : renOutAll [] a b r = r := rfl
        rw [e] at this
        rw [this]
        exact rrefs_mapSref _ _
      · have hret : (renameOutputIn x a b d).retain = d.retain.map (renOutAll (callIdsOf x d) a b) := by
          simp [renameOutputIn, hn, hp]
        rw [hret, List.flatMap_map]
        apply flatMap_congr'
        intro r hr
        rw [hper r hr]
        exact rrefs_mapSref _ _
  have hmap : nodeMap id (fun _ env => mapVals (renOutR x a b) env) (OOut x a b) (renOutR x a b)
      = renNodeOut x a b := by
    funext n
    simp [nodeMap, renNodeOut, OOut]
  rw [← deepGraphKeep_true ti p, ← hmap]
  apply sim_graph H
  · intro t ht
    have htop : (pipeOKOut x b p (topPipe t) = true
        ∧ ∀ bd ∈ t.binds, refs bd.exp = []) ∧ ∀ bd ∈ t.mods, refs bd.exp = [] := by
      simpa [ht, List.isEmpty_iff] using htopok
    have hGt : GOut x a b (topPipe t) t = t := by
      have hne : (topPipe t).name ≠ x := by simp [topPipe, Ne.symm hx]
      simp only [GOut, hne, if_false, Call.mapRefs]
      have h1 : t.binds.map (Bind.mapRefs (renOutAll (callIdsOf x (topPipe t)) a b)) = t.binds := by
        conv => rhs; rw [← List.map_id t.binds]
        apply List.map_congr_left
        intro bd hbd
        simp [Bind.mapRefs, mapRefs_noRefs _ _ (htop.1.2 bd hbd)]
      have h2 : t.mods.map (Bind.mapRefs (renOutAll (callIdsOf x (topPipe t)) a b)) = t.mods := by
        conv => rhs; rw [← List.map_id t.mods]
        apply List.map_congr_left
        intro bd hbd
        simp [Bind.mapRefs, mapRefs_noRefs _ _ (htop.2 bd hbd)]
      rw [h1, h2]
    refine ⟨?_, ?_, htop.1.1, ?_, rfl⟩
    · rw [hp', hGt]; exact ht
    · rw [hGt]
      have hne : (topPipe t).name ≠ x := by simp [topPipe, Ne.symm hx]
      have hmr : Call.mapRefs (renOutAll (callIdsOf x (topPipe t)) a b) t = t := by
        have := hGt
        simpa [GOut, hne] using this
      unfold renameOutputIn
      rw [if_neg hne]
      simp only [topPipe, if_true, List.map_cons, List.map_nil] at hmr ⊢
      rw [hmr]
    · intro kv hkv; cases hkv
  · intro ht; rw [hp']; exact ht
  · rfl
  · rw [hp']
    simp only [graphFuel, List.map_map]
    congr 2
    apply List.map_congr_left
    intro c _
    simp only [Function.comp, renameOutputIn]
    split <;> split <;> simp

end RenOut

end Proofs.RefactorGraph
