import Martian.SemaphoreMJP
import Proofs.SemaphoreMJ

/-! Lemmas for the MaxJobs model with callers. -/
namespace Martian.Semaphore

theorem MJP.signal_ok (s : MJP) : s.signal.parked = [] ∨ s.signal.woken ≠ [] := by
  unfold MJP.signal
  cases h : s.parked with
  | nil => left; simp [h]
  | cons p ps => right; simp

theorem MJP.signal_mj (s : MJP) : s.signal.mj = s.mj := by
  unfold MJP.signal; split <;> rfl

theorem MJ.attempt_none (s : MJ) (id : Nat) (st : MdState) (nb : Bool)
    (h : (s.attempt id st nb).2 = none) :
    (s.attempt id st nb).1 = s ∧ s.limit ≤ (s.running.length : Int) := by
  unfold MJ.attempt at h ⊢
  by_cases hc : st.cancelled nb = true
  · rw [if_pos hc] at h; cases h
  · rw [if_neg hc] at h ⊢
    by_cases hfull : s.limit ≤ (s.running.length : Int)
    · rw [if_pos hfull] at h ⊢
      refine ⟨?_, hfull⟩
      by_cases h0 : s.limit ≤ 0
      · rw [if_pos h0]
      · rw [if_neg h0]
        by_cases hcon : s.running.contains id = true
        · rw [if_pos hcon]
        · rw [if_neg hcon]
          by_cases hnb : nb = true
          · rw [if_pos hnb]
          · rw [if_neg hnb]
    · rw [if_neg hfull] at h; cases h

theorem MJ.attempt_limit (s : MJ) (id : Nat) (st : MdState) (nb : Bool) :
    (s.attempt id st nb).1.limit = s.limit := by
  unfold MJ.attempt; repeat' split
  all_goals rfl

theorem MJP.pass_some (s : MJP) (w id : Nat) (st : MdState) (nb : Bool) (b : Bool)
    (h : (s.mj.attempt id st nb).2 = some b) :
    s.pass w id st nb = (({ s with running := (s.mj.attempt id st nb).1.running }).signal, some b) := by
  simp only [MJP.pass, h]

theorem MJP.pass_none (s : MJP) (w id : Nat) (st : MdState) (nb : Bool)
    (h : (s.mj.attempt id st nb).2 = none) :
    s.pass w id st nb =
      ({ s with running := (s.mj.attempt id st nb).1.running, parked := s.parked ++ [(w, id)] }, none) := by
  simp only [MJP.pass, h]

theorem MJP.pass_noLost (s : MJP) (w id : Nat) (st : MdState) (nb : Bool) :
    (s.pass w id st nb).1.NoLostWakeup := by
  cases h : (s.mj.attempt id st nb).2 with
  | some b =>
    rw [MJP.pass_some s w id st nb b h]
    intro _
    exact MJP.signal_ok _
  | none =>
    rw [MJP.pass_none s w id st nb h]
    obtain ⟨h1, h2⟩ := MJ.attempt_none s.mj id st nb h
    intro hroom
    exfalso
    have hr : (s.mj.attempt id st nb).1.running = s.running := by rw [h1]; rfl
    simp only [MJP.room, hr] at hroom
    simp only [MJP.mj] at h2
    omega

theorem MJ.eta_limit (m : MJ) (l : Int) (h : m.limit = l) : (⟨l, m.running⟩ : MJ) = m := by
  cases m; simp_all

theorem MJP.pass_mj (s : MJP) (w id : Nat) (st : MdState) (nb : Bool) :
    (s.pass w id st nb).1.mj = (s.mj.attempt id st nb).1 ∧ (s.pass w id st nb).2 = (s.mj.attempt id st nb).2 := by
  have hl := MJ.attempt_limit s.mj id st nb
  cases h : (s.mj.attempt id st nb).2 with
  | some b =>
    rw [MJP.pass_some s w id st nb b h]
    refine ⟨?_, rfl⟩
    rw [MJP.signal_mj]
    exact MJ.eta_limit _ _ hl
  | none =>
    rw [MJP.pass_none s w id st nb h]
    exact ⟨MJ.eta_limit _ _ hl, rfl⟩

/-- every operation re-establishes / preserves `NoLostWakeup` -/
theorem MJP.step_noLost (s : MJP) (op : MJPOp) (h : s.NoLostWakeup) : (s.step op).st.NoLostWakeup := by
  cases op with
  | enter w id st nb =>
    simp only [MJP.step]
    split
    · exact h
    · exact MJP.pass_noLost s w id st nb
  | resume w st =>
    simp only [MJP.step]
    split
    · exact MJP.pass_noLost _ w _ st false
    · split
      · exact MJP.pass_noLost _ w _ st false
      · exact h
  | release id =>
    simp only [MJP.step]
    split
    · intro _; exact MJP.signal_ok _
    · exact h
  | findDone fin =>
    simp only [MJP.step]
    split
    · exact h
    · split
      · intro _; left; rfl
      · split
        · intro _; exact MJP.signal_ok _
        · rename_i h1 h2
          intro hroom
          exfalso
          simp only [MJP.room] at hroom
          omega
  | clear =>
    simp only [MJP.step]
    intro _; left; rfl

/-- the `MJ` invariant (at most `L` distinct holders) carries over to the model with callers -/
theorem MJP.step_inv (L : Int) (hL : 0 ≤ L) (s : MJP) (op : MJPOp) (h : MJInv L s.mj) :
    MJInv L (s.step op).st.mj := by
  cases op with
  | enter w id st nb =>
    simp only [MJP.step]
    split
    · exact h
    · rw [(MJP.pass_mj s w id st nb).1]; exact MJ.attempt_inv L s.mj id st nb h
  | resume w st =>
    simp only [MJP.step]
    split
    · rw [(MJP.pass_mj _ w _ st false).1]; exact MJ.attempt_inv L _ _ st false h
    · split
      · rw [(MJP.pass_mj _ w _ st false).1]; exact MJ.attempt_inv L _ _ st false h
      · exact h
  | release id =>
    simp only [MJP.step]
    split
    · rw [MJP.signal_mj]; exact MJ.step_inv L s.mj (.release id) h hL
    · exact h
  | findDone fin =>
    simp only [MJP.step]
    have hf := MJ.step_inv L s.mj (.findDone fin) h hL
    split
    · exact h
    · split
      · exact hf
      · split
        · rw [MJP.signal_mj]; exact hf
        · exact hf
  | clear =>
    simp only [MJP.step]
    exact MJ.step_inv L s.mj .clear h hL

theorem MJP.run_inv (L : Int) (hL : 0 ≤ L) (ops : List MJPOp) (s : MJP) (h : MJInv L s.mj) :
    MJInv L (s.run ops).mj := by
  induction ops generalizing s with
  | nil => exact h
  | cons op ops ih => exact ih _ (MJP.step_inv L hL s op h)

theorem MJP.run_noLost (s : MJP) (ops : List MJPOp) (h : s.NoLostWakeup) : (s.run ops).NoLostWakeup := by
  induction ops generalizing s with
  | nil => exact h
  | cons op ops ih => exact ih _ (MJP.step_noLost s op h)

end Martian.Semaphore
