/-
C01 — soundness of the decidable type check `wellTypedTB` (array-mode map calls of stages and
pipelines, nested).
-/
import Proofs.ResolverStaticMapGCheck
import Proofs.ResolverStaticTree3

namespace Proofs.ResolverStatic
open Martian.Dataflow Martian.Resolver Martian.ResolverForks Martian.ResolverStatic Proofs.Dataflow

theorem mappedOkTB_sound (st : StructTable) (n : Nat) (P : Program) (sT cT : String → Ty) (c : Call)
    (h : mappedOkTB st n P sT cT c = true) : MappedOkT st P sT cT c := by
  simp only [mappedOkTB, Bool.and_eq_true, Option.isNone_iff_eq_none, List.any_eq_true, List.all_eq_true,
    decide_eq_true_eq, Bool.or_eq_true, Bool.not_eq_true', beq_iff_eq] at h
  obtain ⟨⟨⟨⟨⟨hm, hd⟩, hex⟩, hnd⟩, hpar⟩, hty⟩ := h
  refine ⟨hm, hd, ?_, ?_, ?_⟩
  · obtain ⟨b, hb, hs⟩ := hex
    exact ⟨b, hb, hs⟩
  · intro b hb hs
    cases hpar b hb with
    | inl h0 => rw [h0] at hs; cases hs
    | inr h0 =>
      obtain ⟨p, hp, hpn⟩ := h0
      refine ⟨p, hp, ?_⟩
      rw [hpn]
      exact find_key_of_nodup c.binds (·.param) hnd b hb
  · intro p hp b hb
    have := hty p hp
    simp only [hb] at this
    exact hasTyB_sound st n sT cT b.exp _ this

theorem callsOkTB_sound (st : StructTable) (n : Nat) (P : Program) (sT : String → Ty) :
    ∀ (cs : List Call) (L : List (String × Ty)), callsOkTB st n P sT L cs = true → CallsOkT st P sT L cs
  | [], _, _ => trivial
  | c :: cs, L, h => by
    simp only [callsOkTB, Bool.and_eq_true, callOkTB, Bool.or_eq_true, List.all_eq_true, Bool.not_eq_true'] at h
    refine ⟨?_, callsOkTB_sound st n P sT cs _ h.2⟩
    cases h.1 with
    | inl h1 => exact Or.inl ⟨callOkB_sound st n P.insOf sT _ c (by rw [← callTyOfB_eq]; exact h1.1), h1.2⟩
    | inr h1 => exact Or.inr (mappedOkTB_sound st n P sT _ c (by rw [← callTyOfB_eq]; exact h1))

theorem wellTypedTB_sound (P : Program) (h : wellTypedTB P = true) : WellTypedT P := by
  simp only [wellTypedTB, Bool.and_eq_true, List.all_eq_true, beq_iff_eq, Bool.not_eq_true'] at h
  obtain ⟨⟨⟨⟨h1, h2⟩, h3⟩, h4⟩, h5⟩ := h
  refine ⟨structsOkB_sound _ h1, ?_, ?_, ?_⟩
  · intro name c hl
    exact h2 (name, c) (mem_of_lookup _ _ _ hl)
  · intro name pins outs calls ret hl
    have := h3 (name, _) (mem_of_lookup _ _ _ hl)
    simp only [pipelineOkTB, Bool.and_eq_true, List.all_eq_true] at this
    refine ⟨callsOkTB_sound _ _ _ _ calls [] (by rw [← selfTyOfB_eq]; exact this.1), ?_⟩
    intro p hp e he
    have h6 := this.2 p hp
    simp only [he] at h6
    exact hasTyB_sound _ _ _ _ e p.ty h6
  · exact ⟨callOkB_sound _ _ _ _ _ _ h4, h5⟩

end Proofs.ResolverStatic
