/-
C19: soundness of the reachability analysis behind `mro edit -remove-unused-outputs`
(`unusedOutputs` = Go `populateChildPipelineOuts` + the frontier walk that strikes
every referenced output from the table).  Core Lean only.
-/
import Martian.Refactor
import Martian.RefactorGraph
import Proofs.RefactorGraph
import Proofs.RefactorGraphLemmas
import Proofs.RefactorClosure
import Proofs.RefactorLoop
import Proofs.RefactorGraphRoFull

namespace Proofs.RefactorUnusedOuts
open Martian.Refactor Proofs.RefactorGraph

abbrev Table := List (String × List String)

/-- the table still lists output `o` of pipeline `x` -/
def Has (T : Table) (x o : String) : Prop := ∃ e ∈ T, e.1 = x ∧ o ∈ e.2

/-- reference `r`, read in pipeline `pipe`, refers to a call of `x` as a whole or to
its output `o` (possibly projected further) -/
def RefersTo (p : Program) (pipe : Callable) (x o : String) (r : Ref) : Prop :=
  ∃ k d, pipe.calls.find? (·.id == r.id) = some k ∧ p.find? k.decId = some d ∧ d.name = x
    ∧ (r.path = [] ∨ ∃ t, r.path = o :: t)

theorem useRef_has (p : Program) (pipe : Callable) (acc : List String × Table) (r : Ref) (x o : String)
    (h : Has (useRef p pipe acc r).2 x o) : Has acc.2 x o ∧ ¬ RefersTo p pipe x o r := by
  unfold useRef at h
  cases hk : pipe.calls.find? (·.id == r.id) with
  | none =>
    simp only [hk] at h
    exact ⟨h, fun ⟨k, d, hk', _⟩ => by rw [hk] at hk'; cases hk'⟩
  | some k =>
    simp only [hk] at h
    cases hd : p.find? k.decId with
    | none =>
      simp only [hd] at h
      exact ⟨h, fun ⟨k', d, hk', hd', _⟩ => by
        rw [hk] at hk'; cases hk'; rw [hd] at hd'; cases hd'⟩
    | some d =>
      simp only [hd] at h
      cases hp : r.path with
      | nil =>
        simp only [hp] at h
        obtain ⟨e, he, hx, ho⟩ := h
        have hm := List.mem_filter.mp he
        refine ⟨⟨e, hm.1, hx, ho⟩, ?_⟩
        rintro ⟨k', d', hk', hd', hdx, _⟩
        rw [hk] at hk'; cases hk'; rw [hd] at hd'; cases hd'
        have := hm.2
        simp [hx, hdx] at this
      | cons hh tt =>
        simp only [hp] at h
        obtain ⟨e', he', hx, ho⟩ := h
        have hm := List.mem_filter.mp he'
        obtain ⟨e, he, hee⟩ := List.mem_map.mp hm.1
        by_cases hen : e.1 = d.name
        · have hee' : e' = (e.1, e.2.filter (· != hh)) := by
            rw [← hee]; simp [hen]
          rw [hee'] at hx ho
          have hof := List.mem_filter.mp ho
          refine ⟨⟨e, he, hx, hof.1⟩, ?_⟩
          rintro ⟨k', d', hk', hd', hdx, hpath⟩
          rcases hpath with hnil | ⟨t, ht⟩
          · rw [hp] at hnil; cases hnil
          · rw [hp] at ht
            injection ht with h1 _
            have := hof.2
            simp [h1] at this
        · have hee' : e' = e := by
            rw [← hee]; simp [hen]
          rw [hee'] at hx ho
          refine ⟨⟨e, he, hx, ho⟩, ?_⟩
          rintro ⟨k', d', hk', hd', hdx, _⟩
          rw [hk] at hk'; cases hk'; rw [hd] at hd'; cases hd'
          exact hen (hx.trans hdx.symm)

theorem useRef_next (p : Program) (pipe : Callable) (acc : List String × Table) (r : Ref) (n : String)
    (h : n ∈ acc.1) : n ∈ (useRef p pipe acc r).1 := by
  unfold useRef
  split
  · exact h
  · split
    · exact h
    · dsimp only
      split
      · exact List.mem_append_left _ h
      · exact h

theorem fold_useRef (p : Program) (pipe : Callable) (x o : String) : ∀ (rs : List Ref) (acc : List String × Table),
    (Has (rs.foldl (useRef p pipe) acc).2 x o → Has acc.2 x o ∧ ∀ r ∈ rs, ¬ RefersTo p pipe x o r)
    ∧ (∀ n ∈ acc.1, n ∈ (rs.foldl (useRef p pipe) acc).1) := by
  intro rs
  induction rs with
  | nil => intro acc; exact ⟨fun h => ⟨h, fun _ hr => by cases hr⟩, fun _ h => h⟩
  | cons r rest ih =>
    intro acc
    simp only [List.foldl_cons]
    obtain ⟨ih1, ih2⟩ := ih (useRef p pipe acc r)
    refine ⟨fun h => ?_, fun n hn => ih2 n (useRef_next p pipe acc r n hn)⟩
    obtain ⟨h1, h2⟩ := ih1 h
    obtain ⟨h3, h4⟩ := useRef_has p pipe acc r x o h1
    refine ⟨h3, fun r' hr' => ?_⟩
    cases hr' with
    | head => exact h4
    | tail _ hm => exact h2 r' hm

/-- the pipelines called by `pipe` are all in the list computed by the `called` fold -/
theorem called_fold (p : Program) : ∀ (ks : List Call) (a : List String),
    (∀ n ∈ a, n ∈ ks.foldl (fun a k =>
      match p.find? k.decId with
      | some d => if d.isPipe && !a.contains d.name then a ++ [d.name] else a
      | none => a) a)
    ∧ (∀ k ∈ ks, ∀ d, p.find? k.decId = some d → d.isPipe = true → d.name ∈ ks.foldl (fun a k =>
      match p.find? k.decId with
      | some d => if d.isPipe && !a.contains d.name then a ++ [d.name] else a
      | none => a) a) := by
  intro ks
  induction ks with
  | nil => intro a; exact ⟨fun _ h => h, fun _ hk => by cases hk⟩
  | cons k rest ih =>
    intro a
    simp only [List.foldl_cons]
    have hstep : ∀ n ∈ a, n ∈ (match p.find? k.decId with
        | some d => if d.isPipe && !a.contains d.name then a ++ [d.name] else a
        | none => a) := by
      intro n hn
      cases p.find? k.decId with
      | none => exact hn
      | some d =>
        simp only []
        split
        · exact List.mem_append_left _ hn
        · exact hn
    obtain ⟨ih1, ih2⟩ := ih (match p.find? k.decId with
        | some d => if d.isPipe && !a.contains d.name then a ++ [d.name] else a
        | none => a)
    refine ⟨fun n hn => ih1 n (hstep n hn), fun k' hk' d hd hp => ?_⟩
    cases hk' with
    | head =>
      apply ih1
      simp only [hd, hp, Bool.true_and]
      split
      · simp
      · rename_i hc
        simpa using hc
    | tail _ hm => exact ih2 k' hm d hd hp

theorem visitPipe_spec (p : Program) (acc : List String × Table) (name : String) (x o : String) :
    (Has (visitPipe p acc name).2 x o → Has acc.2 x o ∧
        ∀ pipe, p.find? name = some pipe → ∀ r ∈ pipeCallRefs p pipe, ¬ RefersTo p pipe x o r)
    ∧ (∀ n ∈ acc.1, n ∈ (visitPipe p acc name).1)
    ∧ (∀ pipe, p.find? name = some pipe → ∀ k ∈ pipe.calls, ∀ d, p.find? k.decId = some d → d.isPipe = true →
        d.name ∈ (visitPipe p acc name).1) := by
  unfold visitPipe
  cases hf : p.find? name with
  | none =>
    exact ⟨fun h => ⟨h, fun _ hp => by cases hp⟩, fun _ h => h, fun _ hp => by cases hp⟩
  | some pipe =>
    simp only []
    obtain ⟨c1, c2⟩ := called_fold p pipe.calls acc.1
    obtain ⟨f1, f2⟩ := fold_useRef p pipe x o (pipeCallRefs p pipe) (pipe.calls.foldl (fun a k =>
      match p.find? k.decId with
      | some d => if d.isPipe && !a.contains d.name then a ++ [d.name] else a
      | none => a) acc.1, acc.2)
    refine ⟨fun h => ?_, fun n hn => f2 n (c1 n hn), fun pipe' hp' k hk d hd hdp => ?_⟩
    · obtain ⟨h1, h2⟩ := f1 h
      exact ⟨h1, fun pipe' hp' => by cases hp'; exact h2⟩
    · cases hp'
      exact f2 _ (c2 k hk d hd hdp)

theorem level_spec (p : Program) (x o : String) : ∀ (used : List String) (acc : List String × Table),
    (Has (used.foldl (visitPipe p) acc).2 x o → Has acc.2 x o ∧
        ∀ name ∈ used, ∀ pipe, p.find? name = some pipe → ∀ r ∈ pipeCallRefs p pipe, ¬ RefersTo p pipe x o r)
    ∧ (∀ n ∈ acc.1, n ∈ (used.foldl (visitPipe p) acc).1)
    ∧ (∀ name ∈ used, ∀ pipe, p.find? name = some pipe → ∀ k ∈ pipe.calls, ∀ d, p.find? k.decId = some d →
        d.isPipe = true → d.name ∈ (used.foldl (visitPipe p) acc).1) := by
  intro used
  induction used with
  | nil => intro acc; exact ⟨fun h => ⟨h, fun _ hn => by cases hn⟩, fun _ h => h, fun _ hn => by cases hn⟩
  | cons u rest ih =>
    intro acc
    simp only [List.foldl_cons]
    obtain ⟨i1, i2, i3⟩ := ih (visitPipe p acc u)
    obtain ⟨v1, v2, v3⟩ := visitPipe_spec p acc u x o
    refine ⟨fun h => ?_, fun n hn => i2 n (v2 n hn), fun name hname pipe hp k hk d hd hdp => ?_⟩
    · obtain ⟨h1, h2⟩ := i1 h
      obtain ⟨h3, h4⟩ := v1 h1
      refine ⟨h3, fun name hname => ?_⟩
      cases hname with
      | head => exact h4
      | tail _ hm => exact h2 name hm
    · cases hname with
      | head => exact i2 _ (v3 pipe hp k hk d hd hdp)
      | tail _ hm => exact i3 name hm pipe hp k hk d hd hdp

/-- the pipelines reachable from `roots` through calls of pipelines -/
inductive Reach (p : Program) (roots : List String) : String → Prop
  | root (n : String) : n ∈ roots → Reach p roots n
  | step (n : String) (pipe : Callable) (k : Call) (d : Callable) : Reach p roots n → p.find? n = some pipe →
      k ∈ pipe.calls → p.find? k.decId = some d → d.isPipe = true → Reach p roots d.name

theorem reach_nil (p : Program) (n : String) (h : Reach p [] n) : False := by
  induction h with
  | root n hn => cases hn
  | step _ _ _ _ _ _ _ _ _ ih => exact ih

/-- **soundness of the frontier walk** (explicit exhaustion): an output that is still in
the table when the walk has visited everything is referenced — as a projection
`CALL.o…` or through a whole-call reference `CALL` — by NO pipeline reachable from the
roots; and it was in the table the walk started from. -/
theorem usedOutsLoopO_sound (p : Program) (x o : String) : ∀ (fuel : Nat) (used : List String) (outs T : Table),
    usedOutsLoopO p fuel used outs = some T → Has T x o →
    Has outs x o ∧ ∀ n, Reach p used n → ∀ pipe, p.find? n = some pipe →
      ∀ r ∈ pipeCallRefs p pipe, ¬ RefersTo p pipe x o r := by
  intro fuel
  induction fuel with
  | zero =>
    intro used outs T h hT
    simp only [usedOutsLoopO] at h
    split at h
    · rename_i hc
      cases h
      refine ⟨hT, fun n hn => ?_⟩
      rcases Bool.or_eq_true _ _ |>.mp hc with hu | ho
      · have : used = [] := by simpa using hu
        subst this
        exact (reach_nil p n hn).elim
      · have : outs = [] := by simpa using ho
        subst this
        obtain ⟨e, he, _⟩ := hT
        cases he
    · cases h
  | succ fuel ih =>
    intro used outs T h hT
    simp only [usedOutsLoopO] at h
    split at h
    · rename_i hc
      cases h
      refine ⟨hT, fun n hn => ?_⟩
      rcases Bool.or_eq_true _ _ |>.mp hc with hu | ho
      · have : used = [] := by simpa using hu
        subst this
        exact (reach_nil p n hn).elim
      · have : outs = [] := by simpa using ho
        subst this
        obtain ⟨e, he, _⟩ := hT
        cases he
    · obtain ⟨h1, h2⟩ := ih _ _ T h hT
      obtain ⟨l1, _, l3⟩ := level_spec p x o used (([] : List String), outs)
      obtain ⟨h3, h4⟩ := l1 h1
      refine ⟨h3, fun n hn => ?_⟩
      -- a reachable pipeline is in this level or reachable from the next
      have hsplit : n ∈ used ∨ Reach p (used.foldl (visitPipe p) (([] : List String), outs)).1 n := by
        induction hn with
        | root n hn => exact Or.inl hn
        | step n' pipe k d _ hp hk hd hdp ih' =>
          rcases ih' with hin | hre
          · exact Or.inr (Reach.root _ (l3 n' hin pipe hp k hk d hd hdp))
          · exact Or.inr (Reach.step n' pipe k d hre hp hk hd hdp)
      rcases hsplit with hin | hre
      · exact h4 n hin
      · exact h2 n hre

/-- the explicit-exhaustion walk agrees with the walk as run -/
theorem usedOutsLoopO_eq (p : Program) : ∀ (fuel : Nat) (used : List String) (outs T : Table),
    usedOutsLoopO p fuel used outs = some T → usedOutsLoop p fuel used outs = T := by
  intro fuel
  induction fuel with
  | zero =>
    intro used outs T h
    simp only [usedOutsLoopO] at h
    split at h
    · cases h; rfl
    · cases h
  | succ fuel ih =>
    intro used outs T h
    simp only [usedOutsLoopO] at h
    unfold usedOutsLoop
    split at h
    · rename_i hc
      cases h
      rw [if_pos hc]
    · rename_i hc
      rw [if_neg hc]
      exact ih _ _ T h

/-! ### from the analysis to the side conditions of the graph theorem -/

theorem mem_withMaster (m : Option Ref) (bs : List Bind) (b : Bind) (h : b ∈ bs) : b ∈ withMaster m bs := by
  unfold withMaster
  cases m with
  | none => exact h
  | some r =>
    simp only []
    apply List.mem_flatMap.mpr
    refine ⟨b, h, ?_⟩
    split <;> simp

theorem find_star_none (bs : List Bind) (h : noStar bs = true) : bs.find? (·.name == "*") = none := by
  rw [List.find?_eq_none]
  intro b hb
  simp only [noStar, List.all_eq_true, bne_iff_ne, ne_eq] at h
  simpa using h b hb

theorem mem_compiledBinds (p : Program) (pipe : Callable) (k : Call) (h : noStar k.binds = true)
    (b : Bind) (hb : b ∈ k.binds) : b ∈ compiledBinds p pipe k := by
  unfold compiledBinds
  rw [find_star_none k.binds h]
  exact mem_withMaster _ _ b hb

/-- a call-kind reference in a binding, modifier, return or retain of `pipe` is one of
the references the analysis scans -/
theorem mem_pipeCallRefs (p : Program) (pipe : Callable) (hns : ∀ k ∈ pipe.calls, noStar k.binds = true)
    (r : Ref) (hk : r.kind = RefKind.call)
    (h : (∃ k ∈ pipe.calls, (∃ b ∈ k.binds, r ∈ refs b.exp) ∨ (∃ b ∈ k.mods, r ∈ refs b.exp))
        ∨ (∃ b ∈ pipe.ret, r ∈ refs b.exp) ∨ r ∈ pipe.retain) :
    r ∈ pipeCallRefs p pipe := by
  unfold pipeCallRefs
  simp only []
  have hkk : (r.kind == RefKind.call) = true := by simp [hk]
  rcases h with ⟨k, hkm, hb⟩ | ⟨b, hb, hr⟩ | hr
  · apply List.mem_append_right
    apply List.mem_flatMap.mpr
    refine ⟨k, hkm, ?_⟩
    rcases hb with ⟨b, hb, hr⟩ | ⟨b, hb, hr⟩
    · apply List.mem_append_left
      exact List.mem_flatMap.mpr ⟨b, mem_compiledBinds p pipe k (hns k hkm) b hb, List.mem_filter.mpr ⟨hr, hkk⟩⟩
    · apply List.mem_append_right
      exact List.mem_flatMap.mpr ⟨b, hb, List.mem_filter.mpr ⟨hr, hkk⟩⟩
  · apply List.mem_append_left
    apply List.mem_append_right
    exact List.mem_flatMap.mpr ⟨b, hb, List.mem_filter.mpr ⟨hr, hkk⟩⟩
  · apply List.mem_append_left
    apply List.mem_append_left
    exact List.mem_filter.mpr ⟨hr, hkk⟩

/-- a reference whose id is the id of a call of `x` in `pipe` refers to `x` -/
theorem refersTo_of_call (p : Program) (pipe : Callable) (hnd : (callIds pipe).Nodup) (x o : String) (xc : Callable)
    (hx : p.find? x = some xc) (r : Ref) (k : Call) (hk : k ∈ pipe.calls) (hid : k.id = r.id) (hdec : k.decId = x)
    (hpath : r.path = [] ∨ ∃ t, r.path = o :: t) : RefersTo p pipe x o r := by
  refine ⟨k, xc, ?_, ?_, find_name p x xc hx, hpath⟩
  · rw [← hid]; exact first_of_nodup pipe hnd k hk
  · rw [hdec]; exact hx

/-- **the analysis establishes the reference conditions**: if no reference scanned in any
pipeline refers to `x.o`, then `refCondRo x o` holds for every callable and
`outputUnreferenced x o p` holds -/
theorem refConds_of_not_refers (p : Program) (hs : StructOK p = true) (x o : String) (xc : Callable)
    (hx : p.find? x = some xc)
    (h : ∀ pipe ∈ p.callables, pipe.isPipe = true → ∀ r ∈ pipeCallRefs p pipe, ¬ RefersTo p pipe x o r) :
    p.callables.all (refCondRo x o) = true ∧ outputUnreferenced x o p = true := by
  obtain ⟨_, hall, _⟩ := StructOK_parts hs
  constructor
  · rw [List.all_eq_true]
    intro c hc
    obtain ⟨_, hsc⟩ := hall c hc
    obtain ⟨hpipe, hnd, hbinds, _⟩ := structOKc_parts hsc
    unfold refCondRo
    rw [List.all_eq_true]
    intro r hr
    by_cases hcr : callRefTo (callIdsOf x c) r = true
    · simp only [hcr, Bool.not_true, Bool.false_or]
      simp only [callRefTo, Bool.and_eq_true, beq_iff_eq, List.contains_iff_mem] at hcr
      obtain ⟨hkind, hin⟩ := hcr
      unfold callIdsOf at hin
      obtain ⟨k, hkf, hkid⟩ := List.mem_map.mp hin
      obtain ⟨hkm, hkd⟩ := List.mem_filter.mp hkf
      have hkd' : k.decId = x := by simpa using hkd
      have hcp : c.isPipe = true := by
        rcases hpipe with hp | hp
        · exact hp
        · rw [hp] at hkm; cases hkm
      have hmem : r ∈ pipeCallRefs p c := by
        apply mem_pipeCallRefs p c (fun k hk => (hbinds k hk).1) r hkind
        unfold graphRefs at hr
        rcases List.mem_append.mp hr with hr | hr
        · rcases List.mem_append.mp hr with hr | hr
          · obtain ⟨k', hk', hr⟩ := List.mem_flatMap.mp hr
            obtain ⟨b, hb, hr⟩ := List.mem_flatMap.mp hr
            exact Or.inl ⟨k', hk', Or.inl ⟨b, hb, hr⟩⟩
          · obtain ⟨b, hb, hr⟩ := List.mem_flatMap.mp hr
            exact Or.inr (Or.inl ⟨b, hb, hr⟩)
        · exact Or.inr (Or.inr hr)
      have hnot := h c hc hcp r hmem
      cases hp : r.path with
      | nil => exact absurd (refersTo_of_call p c hnd x o xc hx r k hkm hkid hkd' (Or.inl hp)) hnot
      | cons hh tt =>
        simp only [bne_iff_ne, ne_eq]
        intro heq
        subst heq
        exact hnot (refersTo_of_call p c hnd x hh xc hx r k hkm hkid hkd' (Or.inr ⟨tt, hp⟩))
    · simp only [Bool.not_eq_true] at hcr
      simp [hcr]
  · unfold outputUnreferenced
    rw [List.all_eq_true]
    intro pipe hc
    obtain ⟨_, hsc⟩ := hall pipe hc
    obtain ⟨_, hnd, hbinds, _⟩ := structOKc_parts hsc
    cases hcp : pipe.isPipe with
    | false => rfl
    | true =>
      simp only [Bool.not_true, Bool.false_or]
      -- one reference
      have hone : ∀ r, ((∃ k ∈ pipe.calls, (∃ b ∈ k.binds, r ∈ refs b.exp) ∨ (∃ b ∈ k.mods, r ∈ refs b.exp))
            ∨ (∃ b ∈ pipe.ret, r ∈ refs b.exp) ∨ r ∈ pipe.retain) → isCallRefTo pipe x o r = false := by
        intro r hr
        cases hic : isCallRefTo pipe x o r with
        | false => rfl
        | true =>
          exfalso
          simp only [isCallRefTo, Bool.and_eq_true, beq_iff_eq, List.any_eq_true] at hic
          obtain ⟨⟨hkind, k, hkm, hkid, hkd⟩, hpath⟩ := hic
          have hmem := mem_pipeCallRefs p pipe (fun k hk => (hbinds k hk).1) r hkind hr
          have hnot := h pipe hc hcp r hmem
          cases hp : r.path with
          | nil => rw [hp] at hpath; cases hpath
          | cons hh tt =>
            rw [hp] at hpath
            have : hh = o := by simpa using hpath
            subst this
            exact hnot (refersTo_of_call p pipe hnd x hh xc hx r k hkm hkid hkd (Or.inr ⟨tt, hp⟩))
      simp only [Bool.and_eq_true, List.all_eq_true, Bool.not_eq_true']
      refine ⟨⟨fun k hk => ⟨fun b hb r hr => ?_, fun b hb r hr => ?_⟩, fun b hb r hr => ?_⟩, fun r hr => ?_⟩
      · exact hone r (Or.inl ⟨k, hk, Or.inl ⟨b, hb, hr⟩⟩)
      · exact hone r (Or.inl ⟨k, hk, Or.inr ⟨b, hb, hr⟩⟩)
      · exact hone r (Or.inr (Or.inl ⟨b, hb, hr⟩))
      · exact hone r (Or.inr (Or.inr hr))

theorem remOutOK_of_parts (x o : String) (ti : TypeInfo) (p : Program)
    (h1 : RemOutStructOK x o ti p = true) (h2 : p.callables.all (refCondRo x o) = true) :
    RemOutOK x o ti p = true := by
  unfold RemOutStructOK at h1
  unfold RemOutOK
  simp only [Bool.and_eq_true] at h1 ⊢
  obtain ⟨⟨⟨⟨hx, hm⟩, hall⟩, htop⟩, hty⟩ := h1
  refine ⟨⟨⟨⟨hx, hm⟩, ?_⟩, htop⟩, hty⟩
  rw [List.all_eq_true] at hall h2 ⊢
  intro c hc
  have a := hall c hc
  have b := h2 c hc
  unfold pipeOKRoS at a
  unfold refCondRo at b
  unfold pipeOKRo
  simp only [Bool.and_eq_true] at a ⊢
  exact ⟨a, b⟩

/-- every pipeline of the program is reachable from the top pipelines through calls -/
def AllReach (p : Program) (tops : List String) : Prop :=
  ∀ c ∈ p.callables, c.isPipe = true → Reach p (topNames p tops) c.name

theorem unusedOutputsO_spec (p0 p : Program) (tops : List String) (T : Table)
    (h : unusedOutputsO p0 p tops = some T) :
    unusedOutputs p0 p tops = T ∧
    ∀ x o, Has T x o → ∀ n, Reach p (topNames p tops) n → ∀ pipe, p.find? n = some pipe →
      ∀ r ∈ pipeCallRefs p pipe, ¬ RefersTo p pipe x o r := by
  unfold unusedOutputsO at h
  refine ⟨?_, fun x o hT => ?_⟩
  · unfold unusedOutputs
    exact usedOutsLoopO_eq p _ _ _ T h
  · exact (usedOutsLoopO_sound p x o _ _ _ T h hT).2

theorem find_self (p : Program) (hnd : (p.callables.map (·.name)).Nodup) (c : Callable) (hc : c ∈ p.callables) :
    p.find? c.name = some c := by
  cases hf : p.find? c.name with
  | none =>
    unfold Program.find? at hf
    rw [List.find?_eq_none] at hf
    have := hf c hc
    simp at this
  | some c' =>
    have := eq_of_name_eq p hnd c' c (find_mem p _ c' hf) hc (find_name p _ c' hf)
    rw [this]

/-- **an entry of the table is removable**: on a structurally well-formed program all of
whose pipelines are reachable from the top pipelines, when the walk terminated by
exhausting the frontier, every output `o` of `x` the analysis reports satisfies the
reference conditions of the graph theorems — `RemOutOK` follows from its structural
part `RemOutStructOK`, and `outputUnreferenced` holds. -/
theorem unused_entry_ok (p0 p : Program) (tops : List String) (T : Table) (ti : TypeInfo)
    (hs : StructOK p = true) (hreach : AllReach p tops) (h : unusedOutputsO p0 p tops = some T)
    (x o : String) (hT : Has T x o) (hst : RemOutStructOK x o ti p = true) :
    RemOutOK x o ti p = true ∧ outputUnreferenced x o p = true := by
  obtain ⟨hnd, _, _⟩ := StructOK_parts hs
  have hsound := (unusedOutputsO_spec p0 p tops T h).2 x o hT
  have hx : ∃ xc, p.find? x = some xc := by
    unfold RemOutStructOK at hst
    cases hf : p.find? x with
    | none => simp [hf] at hst
    | some xc => exact ⟨xc, rfl⟩
  obtain ⟨xc, hxc⟩ := hx
  have hall : ∀ pipe ∈ p.callables, pipe.isPipe = true → ∀ r ∈ pipeCallRefs p pipe, ¬ RefersTo p pipe x o r :=
    fun pipe hc hp => hsound pipe.name (hreach pipe hc hp) pipe (find_self p hnd pipe hc)
  obtain ⟨h1, h2⟩ := refConds_of_not_refers p hs x o xc hxc hall
  exact ⟨remOutOK_of_parts x o ti p hst h1, h2⟩

/-! ### a whole table of outputs, removed one after the other -/

theorem graphRefs_FRo (x o : String) (c : Callable) (r : Ref) (h : r ∈ graphRefs (FRo x o c)) : r ∈ graphRefs c := by
  have hf := FRo_fields x o c
  have hle := FRo_le x o c
  unfold graphRefs at h ⊢
  rw [hf.2.2.1, hf.2.2.2.1] at h
  rcases List.mem_append.mp h with h | h
  · rcases List.mem_append.mp h with h | h
    · exact List.mem_append_left _ (List.mem_append_left _ h)
    · obtain ⟨b, hb, hr⟩ := List.mem_flatMap.mp h
      exact List.mem_append_left _ (List.mem_append_right _
        (List.mem_flatMap.mpr ⟨b, hle.2.2.1.subset hb, hr⟩))
  · exact List.mem_append_right _ h

theorem refCond_FRo (x o x' o' : String) (c : Callable) (h : refCondRo x' o' c = true) :
    refCondRo x' o' (FRo x o c) = true := by
  unfold refCondRo at h ⊢
  rw [List.all_eq_true] at h ⊢
  intro r hr
  have := h r (graphRefs_FRo x o c r hr)
  have hc : callIdsOf x' (FRo x o c) = callIdsOf x' c := by
    unfold callIdsOf; rw [(FRo_fields x o c).2.2.1]
  rw [hc]; exact this

theorem refCond_outStep (x o : String) (ti : TypeInfo) (p : Program) (hst : RemOutStructOK x o ti p = true)
    (x' o' : String) (h : p.callables.all (refCondRo x' o') = true) :
    (outStep x o p).callables.all (refCondRo x' o') = true := by
  unfold RemOutStructOK at hst
  simp only [Bool.and_eq_true, bne_iff_ne, ne_eq, List.all_eq_true] at hst
  obtain ⟨⟨⟨⟨_, hfx⟩, _⟩, _⟩, _⟩ := hst
  cases hxc : p.find? x with
  | none => simp [hxc] at hfx
  | some xc =>
    simp only [hxc, Bool.and_eq_true, List.all_eq_true, Bool.or_eq_true, bne_iff_ne, ne_eq, beq_iff_eq] at hfx
    obtain ⟨⟨hcons, _⟩, _⟩ := hfx
    rw [outStep_eq x o p xc hxc hcons]
    rw [List.all_eq_true] at h ⊢
    intro c' hc'
    obtain ⟨c0, hc0, rfl⟩ := List.mem_map.mp hc'
    exact refCond_FRo x o x' o' c0 (h c0 hc0)

/-- **a whole list of output removals** whose reference conditions hold in the original
program and whose structural conditions hold along the way: the graph loses exactly
the removed keys in the output structs of the pipelines concerned -/
theorem remove_outputs_graph : ∀ (pairs : List (String × String)) (ti : TypeInfo) (p : Program),
    TableStructOK pairs ti p = true →
    (∀ xo ∈ pairs, p.callables.all (refCondRo xo.1 xo.2) = true) →
    deepGraph (ti.removeOutputs pairs) (outSteps pairs p)
      = pairs.foldl (fun g xo => g.map (remNodeOut xo.1 xo.2)) (deepGraph ti p) := by
  intro pairs
  induction pairs with
  | nil => intro ti p _ _; rfl
  | cons xo rest ih =>
    intro ti p hst href
    simp only [TableStructOK, Bool.and_eq_true] at hst
    simp only [outSteps, TypeInfo.removeOutputs, List.foldl_cons]
    have hok := remOutOK_of_parts xo.1 xo.2 ti p hst.1 (href xo (List.mem_cons_self ..))
    have := ih (ti.removeOutput xo.1 xo.2) (outStep xo.1 xo.2 p) hst.2
      (fun xo' hxo' => refCond_outStep xo.1 xo.2 ti p hst.1 xo'.1 xo'.2 (href xo' (List.mem_cons_of_mem _ hxo')))
    simp only [outSteps, TypeInfo.removeOutputs] at this
    rw [this, remove_output_graph xo.1 xo.2 ti p hok]

/-! ### the outputs pass of the `-top-calls` loop -/

/-- all removals of a list applied to one callable -/
def FT (pairs : List (String × String)) (c : Callable) : Callable :=
  pairs.foldl (fun c xo => FRo xo.1 xo.2 c) c

theorem FT_fields (pairs : List (String × String)) : ∀ (c : Callable),
    (FT pairs c).name = c.name ∧ (FT pairs c).isPipe = c.isPipe ∧ (FT pairs c).calls = c.calls
    ∧ (FT pairs c).retain = c.retain ∧ (FT pairs c).ins = c.ins ∧ CalLe (FT pairs c) c := by
  induction pairs with
  | nil => intro c; exact ⟨rfl, rfl, rfl, rfl, rfl, CalLe.refl c⟩
  | cons xo rest ih =>
    intro c
    have hf := FRo_fields xo.1 xo.2 c
    obtain ⟨a, b, d, e, f, g⟩ := ih (FRo xo.1 xo.2 c)
    simp only [FT, List.foldl_cons] at a b d e f g ⊢
    exact ⟨a.trans hf.1, b.trans hf.2.1, d.trans hf.2.2.1, e.trans hf.2.2.2.1, f.trans hf.2.2.2.2,
      g.trans (FRo_le xo.1 xo.2 c)⟩

theorem outSteps_eq : ∀ (pairs : List (String × String)) (ti : TypeInfo) (p : Program),
    TableStructOK pairs ti p = true →
    outSteps pairs p = { p with callables := p.callables.map (FT pairs) } := by
  intro pairs
  induction pairs with
  | nil =>
    intro ti p _
    have : (fun c : Callable => FT [] c) = id := by funext c; rfl
    simp [outSteps, this]
  | cons xo rest ih =>
    intro ti p hst
    simp only [TableStructOK, Bool.and_eq_true] at hst
    have h1 := hst.1
    unfold RemOutStructOK at h1
    simp only [Bool.and_eq_true, bne_iff_ne, ne_eq, List.all_eq_true] at h1
    obtain ⟨⟨⟨⟨_, hfx⟩, _⟩, _⟩, _⟩ := h1
    cases hxc : p.find? xo.1 with
    | none => simp [hxc] at hfx
    | some xc =>
      simp only [hxc, Bool.and_eq_true, List.all_eq_true, Bool.or_eq_true, bne_iff_ne, ne_eq, beq_iff_eq] at hfx
      obtain ⟨⟨hcons, _⟩, _⟩ := hfx
      have hstep := outStep_eq xo.1 xo.2 p xc hxc hcons
      have := ih (ti.removeOutput xo.1 xo.2) (outStep xo.1 xo.2 p) hst.2
      simp only [outSteps, List.foldl_cons] at this ⊢
      rw [this, hstep]
      simp only [List.map_map]
      rfl

theorem removeOutsOf_fields : ∀ (os : List String) (c : Callable),
    (removeOutsOf os c).name = c.name ∧ (removeOutsOf os c).isPipe = c.isPipe
    ∧ (removeOutsOf os c).calls = c.calls ∧ (removeOutsOf os c).retain = c.retain
    ∧ (removeOutsOf os c).ret = os.foldl (fun r o => removeFirstBind o r) c.ret := by
  intro os
  induction os with
  | nil => intro c; exact ⟨rfl, rfl, rfl, rfl, rfl⟩
  | cons o rest ih =>
    intro c
    obtain ⟨a, b, d, e, f⟩ := ih { c with outs := removeFirstOut o c.outs, ret := removeFirstBind o c.ret }
    simp only [removeOutsOf, List.foldl_cons] at a b d e f ⊢
    exact ⟨a, b, d, e, f⟩

/-- one entry of the table applied through `FRo` is `removeOutsOf` on the pipeline it names
and nothing elsewhere -/
theorem FT_entry (x : String) : ∀ (os : List String) (c : Callable),
    FT (os.map (fun o => (x, o))) c = if c.name = x then (if c.isPipe then removeOutsOf os c else FT (os.map (fun o => (x, o))) c) else c := by
  intro os
  induction os with
  | nil => intro c; simp [FT, removeOutsOf]
  | cons o rest ih =>
    intro c
    by_cases hn : c.name = x
    · cases hp : c.isPipe with
      | false => simp [hn]
      | true =>
        simp only [hn, if_true]
        have hF : FRo x o c = { c with outs := removeFirstOut o c.outs, ret := removeFirstBind o c.ret } := by
          simp [FRo, hn, hp]
        have := ih (FRo x o c)
        rw [(FRo_fields x o c).1, (FRo_fields x o c).2.1, hn, hp] at this
        simp only [if_true] at this
        simp only [FT, List.map_cons, List.foldl_cons] at this ⊢
        rw [this, hF]
        rfl
    · simp only [hn, if_false]
      have hF : FRo x o c = c := by simp [FRo, hn]
      have := ih c
      simp only [hn, if_false] at this
      simp only [FT, List.map_cons, List.foldl_cons, hF] at this ⊢
      exact this

theorem FT_append (a b : List (String × String)) (c : Callable) : FT (a ++ b) c = FT b (FT a c) := by
  simp [FT, List.foldl_append]

/-- entries for other pipelines leave a callable alone -/
theorem FT_table_other (name : String) : ∀ (T : Table) (c : Callable), c.name = name →
    (∀ e ∈ T, e.1 ≠ name) → FT (tablePairs T) c = c := by
  intro T
  induction T with
  | nil => intro c _ _; rfl
  | cons e rest ih =>
    intro c hc hne
    have : tablePairs (e :: rest) = e.2.map (fun o => (e.1, o)) ++ tablePairs rest := by
      simp [tablePairs]
    rw [this, FT_append, FT_entry e.1 e.2 c]
    have h1 : ¬ c.name = e.1 := fun h => hne e (List.mem_cons_self ..) (h.symm.trans hc)
    simp only [h1, if_false]
    exact ih c hc (fun e' he' => hne e' (List.mem_cons_of_mem _ he'))

/-- the whole table applied through `FRo` is the simultaneous `dropOuts` of the pass -/
theorem FT_table : ∀ (T : Table) (c : Callable), (T.map (·.1)).Nodup →
    (∀ e ∈ T, e.1 = c.name → c.isPipe = true) →
    FT (tablePairs T) c = (match T.find? (fun e => e.1 == c.name) with
      | some e => if c.isPipe then removeOutsOf e.2 c else c
      | none => c) := by
  intro T
  induction T with
  | nil => intro c _ _; rfl
  | cons e rest ih =>
    intro c hnd hpipe
    simp only [List.map_cons, List.nodup_cons] at hnd
    have : tablePairs (e :: rest) = e.2.map (fun o => (e.1, o)) ++ tablePairs rest := by
      simp [tablePairs]
    rw [this, FT_append, FT_entry e.1 e.2 c]
    by_cases hn : c.name = e.1
    · have hp := hpipe e (List.mem_cons_self ..) hn.symm
      have hfind : (e :: rest).find? (fun e' => e'.1 == c.name) = some e := by
        simp [List.find?_cons, hn]
      rw [hfind]
      simp only [hn, if_true, hp]
      apply FT_table_other e.1 rest _ ((removeOutsOf_fields e.2 c).1.trans hn)
      intro e' he' heq
      exact hnd.1 (List.mem_map.mpr ⟨e', he', heq⟩)
    · have hfind : (e :: rest).find? (fun e' => e'.1 == c.name) = rest.find? (fun e' => e'.1 == c.name) := by
        have : (e.1 == c.name) = false := by
          simp only [beq_eq_false_iff_ne, ne_eq]; exact fun h => hn h.symm
        simp [List.find?_cons, this]
      simp only [hn, if_false, hfind]
      exact ih c hnd.2 (fun e' he' => hpipe e' (List.mem_cons_of_mem _ he'))

theorem mem_fold_removeFirstBind : ∀ (os : List String) (bs : List Bind), (bs.map (·.name)).Nodup →
    ∀ b ∈ os.foldl (fun r o => removeFirstBind o r) bs, b ∈ bs ∧ b.name ∉ os := by
  intro os
  induction os with
  | nil => intro bs _ b hb; exact ⟨hb, by simp⟩
  | cons o rest ih =>
    intro bs hnd b hb
    simp only [List.foldl_cons] at hb
    have hsub := removeFirstBind_sublist o bs
    have hnd' : ((removeFirstBind o bs).map (·.name)).Nodup := (hsub.map _).nodup hnd
    obtain ⟨h1, h2⟩ := ih (removeFirstBind o bs) hnd' b hb
    refine ⟨hsub.subset h1, ?_⟩
    intro hmem
    cases hmem with
    | head => exact removeFirstBind_no _ bs hnd b h1 rfl
    | tail _ h => exact h2 h

theorem eq_of_key_eq : ∀ (T : Table), (T.map (·.1)).Nodup → ∀ a b, a ∈ T → b ∈ T → a.1 = b.1 → a = b := by
  intro T
  induction T with
  | nil => intro _ a b ha; cases ha
  | cons e rest ih =>
    intro hnd a b ha hb hab
    simp only [List.map_cons, List.nodup_cons] at hnd
    cases ha with
    | head =>
      cases hb with
      | head => rfl
      | tail _ hb => exact absurd (List.mem_map.mpr ⟨b, hb, hab.symm⟩) hnd.1
    | tail _ ha =>
      cases hb with
      | head => exact absurd (List.mem_map.mpr ⟨a, ha, hab⟩) hnd.1
      | tail _ hb => exact ih hnd.2 a b ha hb hab

theorem tableShape_parts {T : Table} {p : Program} (h : TableShapeOK T p = true) :
    (T.map (·.1)).Nodup ∧ ∀ e ∈ T, ∃ pipe, p.find? e.1 = some pipe ∧ pipe.isPipe = true
      ∧ (pipe.ret.map (·.name)).Nodup := by
  simp only [TableShapeOK, Bool.and_eq_true, decide_eq_true_eq, List.all_eq_true] at h
  refine ⟨h.1, fun e he => ?_⟩
  have := h.2 e he
  cases hf : p.find? e.1 with
  | none => simp [hf] at this
  | some pipe =>
    simp only [hf, Bool.and_eq_true, decide_eq_true_eq] at this
    exact ⟨pipe, rfl, this.1, this.2⟩

theorem mem_tablePairs (T : Table) (xo : String × String) (h : xo ∈ tablePairs T) :
    ∃ e ∈ T, e.1 = xo.1 ∧ xo.2 ∈ e.2 := by
  unfold tablePairs at h
  obtain ⟨e, he, hx⟩ := List.mem_flatMap.mp h
  obtain ⟨o, ho, rfl⟩ := List.mem_map.mp hx
  exact ⟨e, he, rfl, ho⟩

/-- **one outputs pass of the `-top-calls` loop** (`removeUnusedOutputsPass`): the reference
side conditions of every removed output and of the input cascade are DERIVED from the
`unusedOutputs` analysis; what remains assumed is structural and decidable. -/
theorem outputs_pass_graph (p0 p : Program) (tops : List String) (T : Table) (ti : TypeInfo)
    (hs : StructOK p = true) (hreach : AllReach p tops) (hT : unusedOutputsO p0 p tops = some T)
    (hne : T.isEmpty = false) (hshape : TableShapeOK T p = true)
    (hst : TableStructOK (tablePairs T) ti p = true) :
    (removeUnusedOutputsPass p0 tops p).1 = removeInputs (outPassIns p T) (outSteps (tablePairs T) p)
    ∧ deepGraph ((ti.removeOutputs (tablePairs T)).removeInputs (outPassIns p T)) (removeUnusedOutputsPass p0 tops p).1
      = (outPassIns p T).foldl (fun g xq => g.map (remNodeIn xq.1 xq.2))
          ((tablePairs T).foldl (fun g xo => g.map (remNodeOut xo.1 xo.2)) (deepGraph ti p)) := by
  have hsp := StructOK_parts hs
  obtain ⟨hkeys, hents⟩ := tableShape_parts hshape
  obtain ⟨hU, hsound⟩ := unusedOutputsO_spec p0 p tops T hT
  have hsteps := outSteps_eq (tablePairs T) ti p hst
  -- the simultaneous removal is the sequential one
  have hpipeOf : ∀ c ∈ p.callables, ∀ e ∈ T, e.1 = c.name → c.isPipe = true := by
    intro c hc e he hec
    obtain ⟨pipe, hf, hp, _⟩ := hents e he
    have : pipe = c := eq_of_name_eq p hsp.1 pipe c (find_mem p _ pipe hf) hc ((find_name p _ pipe hf).trans hec)
    rw [← this]; exact hp
  have hprog : (removeUnusedOutputsPass p0 tops p).1 = removeInputs (outPassIns p T) (outSteps (tablePairs T) p) := by
    unfold removeUnusedOutputsPass
    simp only [hU, hne, Bool.false_eq_true, if_false]
    rw [hsteps]
    show removeInputs (outPassIns p T) _ = _
    congr 2
    apply List.map_congr_left
    intro c hc
    exact (FT_table T c hkeys (hpipeOf c hc)).symm
  refine ⟨hprog, ?_⟩
  rw [hprog]
  -- the reference conditions of every pair
  have hrefs : ∀ xo ∈ tablePairs T, p.callables.all (refCondRo xo.1 xo.2) = true := by
    intro xo hxo
    obtain ⟨e, he, hex, ho⟩ := mem_tablePairs T xo hxo
    obtain ⟨pipe, hf, _, _⟩ := hents e he
    have hhas : Has T xo.1 xo.2 := ⟨e, he, hex, ho⟩
    have hall : ∀ c ∈ p.callables, c.isPipe = true → ∀ r ∈ pipeCallRefs p c, ¬ RefersTo p c xo.1 xo.2 r :=
      fun c hc hp => hsound xo.1 xo.2 hhas c.name (hreach c hc hp) c (find_self p hsp.1 c hc)
    exact (refConds_of_not_refers p hs xo.1 xo.2 pipe (hex ▸ hf) hall).1
  have hg1 := remove_outputs_graph (tablePairs T) ti p hst hrefs
  -- the cascade
  have hle : ProgLe (outSteps (tablePairs T) p) p := by
    rw [hsteps]
    refine ⟨?_, fun t ht => ⟨t, ht, CallLe.refl t⟩⟩
    intro c' hc'
    obtain ⟨c0, hc0, rfl⟩ := List.mem_map.mp hc'
    exact ⟨c0, hc0, (FT_fields (tablePairs T) c0).2.2.2.2.2⟩
  have hseeds : ∀ s ∈ outPassSeeds p T, seedOK s.1 s.2 (outSteps (tablePairs T) p) = true := by
    intro s hsm
    unfold outPassSeeds at hsm
    obtain ⟨e, he, hse⟩ := List.mem_flatMap.mp hsm
    obtain ⟨pipe, hf, hpp, hretnd⟩ := hents e he
    rw [hf] at hse
    obtain ⟨i, hi, rfl⟩ := List.mem_map.mp hse
    have hpm := find_mem p _ pipe hf
    have hpn := find_name p _ pipe hf
    simp only [seedOK, Bool.and_eq_true, bne_iff_ne, ne_eq, List.all_eq_true, Bool.or_eq_true,
      Bool.not_eq_true']
    refine ⟨(hsp.2.1 pipe hpm).1, ?_⟩
    intro c' hc'
    rw [hsteps] at hc'
    obtain ⟨c0, hc0, rfl⟩ := List.mem_map.mp hc'
    by_cases hn : (FT (tablePairs T) c0).name = pipe.name
    · right
      have hc0x : c0 = pipe := eq_of_name_eq p hsp.1 c0 pipe hc0 hpm
        (((FT_fields (tablePairs T) c0).1.symm.trans hn))
      subst hc0x
      have hps := structOKc_parts (hsp.2.1 c0 hc0).2
      -- the callable after the pass
      have hFT : FT (tablePairs T) c0 = removeOutsOf e.2 c0 := by
        rw [FT_table T c0 hkeys (hpipeOf c0 hc0)]
        cases hfe : T.find? (fun e' => e'.1 == c0.name) with
        | none =>
          rw [List.find?_eq_none] at hfe
          have := hfe e he
          simp [hpn] at this
        | some e' =>
          have he'm := List.mem_of_find?_eq_some hfe
          have he'k : e'.1 = c0.name := by simpa using List.find?_some hfe
          have : e' = e := eq_of_key_eq T hkeys e' e he'm he (he'k.trans hpn)
          simp [this, hpp]
      rw [hFT]
      have hro := removeOutsOf_fields e.2 c0
      intro r hr
      cases hsr : selfRefTo i r with
      | false => rfl
      | true =>
        exfalso
        simp only [unboundInputs, List.mem_filter, Bool.not_eq_true', List.contains_eq_mem,
          decide_eq_false_iff_not] at hi
        apply hi.2
        unfold graphRefs at hr
        rw [hro.2.2.1, hro.2.2.2.1, hro.2.2.2.2] at hr
        rcases List.mem_append.mp hr with hr | hr
        · rcases List.mem_append.mp hr with hr | hr
          · obtain ⟨k, hk, hr⟩ := List.mem_flatMap.mp hr
            obtain ⟨b, hb, hr⟩ := List.mem_flatMap.mp hr
            apply List.mem_append_right
            apply List.mem_flatMap.mpr
            refine ⟨k, List.mem_filter.mpr ⟨hk, by simp⟩, List.mem_append_left _ ?_⟩
            unfold bindsRefIds
            exact List.mem_flatMap.mpr ⟨b, mem_compiledBinds p c0 k (hps.2.2.1 k hk).1 b hb,
              refs_self_mem i b.exp r hr hsr⟩
          · obtain ⟨b, hb, hr⟩ := List.mem_flatMap.mp hr
            obtain ⟨hb1, hb2⟩ := mem_fold_removeFirstBind e.2 c0.ret hretnd b hb
            apply List.mem_append_left; apply List.mem_append_left
            unfold bindsRefIds
            apply List.mem_flatMap.mpr
            refine ⟨b, List.mem_filter.mpr ⟨hb1, by simpa using hb2⟩, refs_self_mem i b.exp r hr hsr⟩
        · apply List.mem_append_left; apply List.mem_append_right
          simp only [selfRefTo, Bool.and_eq_true, beq_iff_eq] at hsr
          exact List.mem_map.mpr ⟨r, List.mem_filter.mpr ⟨hr, by simp [hsr.1]⟩, hsr.2⟩
    · exact Or.inl hn
  have hg := closure_good p (outPassSeeds p T) (closureFuel p * ((outPassSeeds p T).length + 1))
    (outPassSeeds p T) [] (by intro j hj; simp at hj) (by intro e he; exact Or.inl he)
  have hrem := remInsOK_of_good p (outSteps (tablePairs T) p) hs hle _ hseeds _ [] (by simpa using hg)
  have hrem' : RemInsOK (outPassIns p T) (outSteps (tablePairs T) p) = true := by
    simpa [removeInputs, outPassIns] using hrem
  rw [remove_inputs_graph _ _ _ hrem', hg1]

/-! ### the reachability hypothesis, decidable -/

theorem insert_fold_mem : ∀ (new acc : List String) (m : String),
    m ∈ new.foldl (fun a m => if a.contains m then a else a ++ [m]) acc → m ∈ acc ∨ m ∈ new := by
  intro new
  induction new with
  | nil => intro acc m h; exact Or.inl h
  | cons n rest ih =>
    intro acc m h
    simp only [List.foldl_cons] at h
    rcases ih _ m h with h | h
    · split at h
      · exact Or.inl h
      · rcases List.mem_append.mp h with h | h
        · exact Or.inl h
        · simp only [List.mem_singleton] at h
          exact Or.inr (h ▸ List.mem_cons_self ..)
    · exact Or.inr (List.mem_cons_of_mem _ h)

theorem reachList_sound (p : Program) (roots : List String) : ∀ (n : Nat) (acc : List String),
    (∀ m ∈ acc, Reach p roots m) → ∀ m ∈ reachList p n acc, Reach p roots m := by
  intro n
  induction n with
  | zero => intro acc h m hm; exact h m hm
  | succ n ih =>
    intro acc h m hm
    simp only [reachList] at hm
    apply ih _ _ m hm
    intro m' hm'
    rcases insert_fold_mem _ _ m' hm' with h1 | h1
    · exact h m' h1
    · obtain ⟨a, ha, hk⟩ := List.mem_flatMap.mp h1
      unfold pipeKids at hk
      cases hf : p.find? a with
      | none => simp [hf] at hk
      | some pipe =>
        simp only [hf] at hk
        obtain ⟨k, hkm, hkk⟩ := List.mem_filterMap.mp hk
        cases hd : p.find? k.decId with
        | none => simp [hd] at hkk
        | some d =>
          simp only [hd] at hkk
          cases hdp : d.isPipe with
          | false => simp [hdp] at hkk
          | true =>
            simp only [hdp, if_true, Option.some.injEq] at hkk
            rw [← hkk]
            exact Reach.step a pipe k d (h a ha) hf hkm hd hdp

theorem allReach_of_B (p : Program) (tops : List String) (h : allReachB p tops = true) : AllReach p tops := by
  intro c hc hp
  simp only [allReachB, List.all_eq_true, Bool.or_eq_true, Bool.not_eq_true', List.contains_iff_mem] at h
  rcases h c hc with h | h
  · rw [hp] at h; cases h
  · exact reachList_sound p (topNames p tops) _ _ (fun m hm => Reach.root m hm) _ h

end Proofs.RefactorUnusedOuts
