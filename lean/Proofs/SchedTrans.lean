import Proofs.Sched
import Proofs.SchedOnce

/-! "A node with an unfinished prenode is never complete", and transitive blocking
(C06 `dependents_blocked_transitive`). -/
namespace Martian.Sched

/-- while the graph is first built (incarnation 0, loading) nothing has been
submitted and nothing is complete -/
def FirstLoadInv (s : State) : Prop :=
  s.inc = 0 → s.phase = .loading → ∀ o : Obj,
    (s.m o).disk.has .jobinfo = false ∧ (s.m o).disk.has .complete = false

theorem firstLoadInv_step {s : State} {e : Ev} (h : FirstLoadInv s) (hen : enabled s e = true) :
    FirstLoadInv (apply s e) := by
  intro hi hp o
  have hinc : s.inc = 0 ∧ e ≠ .restart := by
    rw [apply_inc] at hi
    cases e <;> simp_all
  have hp0 : s.phase = .loading := by
    rw [apply_phase] at hp
    cases e <;> simp_all
  obtain ⟨a, b⟩ := h hinc.1 hp0 o
  constructor
  · cases hc : ((apply s e).m o).disk.has .jobinfo
    · rfl
    · rcases disk_origin hen a hc with ⟨_, hw⟩ | h | ⟨h, _⟩ | ⟨_, h⟩ | ⟨_, h⟩
      · rw [mrpWriteOk_jobinfo] at hw; cases hw
      · subst h; have := (en_jobend hen).2.1; simp at this
      · subst h
        have := (launchOk_phase (en_launch hen)).1
        rw [hp0] at this; cases this
      · cases h
      · cases h
  · cases hc : ((apply s e).m o).disk.has .complete
    · rfl
    · rcases disk_origin hen b hc with ⟨_, hw⟩ | h | ⟨_, h⟩ | ⟨_, h⟩ | ⟨_, h⟩
      · have := mrpWriteOk_complete_phase hw; rw [hp0] at this; cases this
      · subst h; have := (en_jobend hen).2.2.1; rw [a] at this; cases this
      · rcases h with h | h <;> cases h
      · cases h
      · cases h

theorem reach_firstLoadInv {g : List NodeInfo} {s : State} (h : Reach g s) : FirstLoadInv s := by
  induction h with
  | init => intro _ _ o; exact ⟨rfl, rfl⟩
  | step _ hen ih => exact firstLoadInv_step ih hen

theorem apply_reopened_false {s : State} {e : Ev}
    (h : (apply s e).reopened = false) : s.reopened = false := by
  cases e <;> simp_all [apply, State.updMeta]

/-- a node one of whose forks is complete has finished prenodes — as long as no
restart re-opened a finished node (`reopened`) -/
def CompleteInv (s : State) : Prop :=
  s.reopened = false → ∀ q f, (s.m ⟨q, f, .fork⟩).disk.has .complete = true → ∀ p ∈ s.pre q, nodeDone s p = true

theorem completeInv_step {s : State} {e : Ev} (hobj : ObjsInv s) (hfull : s.full = false)
    (hpre : PreInv s)
    (hfl : FirstLoadInv s) (h : CompleteInv s) (hen : enabled s e = true) :
    CompleteInv (apply s e) := by
  intro hro q f hc p hp
  have hro0 := apply_reopened_false hro
  rw [apply_pre] at hp
  cases hold : (s.m ⟨q, f, .fork⟩).disk.has .complete
  · rcases disk_origin hen hold hc with ⟨h', hw⟩ | h' | ⟨_, h'⟩ | ⟨_, h'⟩ | ⟨_, h'⟩
    · have hph := mrpWriteOk_complete_phase hw
      unfold mrpWriteOk at hw
      simp only [Bool.and_eq_true, beq_iff_eq] at hw
      have hd := hpre hph q hw.1.1.2 p hp
      exact done_stable hobj hfull hen (fun hl => by rw [hph] at hl; cases hl) hd
    · subst h'; have := (en_jobend hen).1; simp [Role.isJob] at this
    · rcases h' with h' | h' <;> cases h'
    · cases h'
    · cases h'
  · have hdp := h hro0 q f hold p hp
    refine done_stable hobj hfull hen (fun hl f' he => ?_) hdp
    subst he
    by_cases h0 : s.inc = 0
    · have := (hfl h0 hl ⟨q, f, .fork⟩).2
      rw [hold] at this; cases this
    · simp [apply, hl, h0, hdp] at hro

theorem reach_completeInv {g : List NodeInfo} {s : State} (h : Reach g s) : CompleteInv s := by
  induction h with
  | init => intro _ q f hc; cases hc
  | step hr hen ih =>
    exact completeInv_step (reach_objsInv hr) (reach_full hr) (reach_preInv hr) (reach_firstLoadInv hr) ih hen

theorem scanForks_done_false {l : List FState} {d : Bool} (h : scanForks l d = .done false) :
    d = false ∨ ∃ x ∈ l, x = .complete := by
  induction l generalizing d with
  | nil => simp [scanForks] at h; exact Or.inl h
  | cons a r ih =>
    cases a <;> simp only [scanForks] at h <;> try (cases h; done)
    · exact Or.inr ⟨_, List.mem_cons_self .., rfl⟩
    · rcases ih h with h' | ⟨x, hx, hxc⟩
      · exact Or.inl h'
      · exact Or.inr ⟨x, List.mem_cons_of_mem _ hx, hxc⟩

/-- a node whose state is Complete has a fork whose `_complete` is on disk -/
theorem nodeState_complete_fork {s : State} (hobj : ObjsInv s) {q : Nat}
    (h : nodeState s q = .complete) :
    ∃ f, (s.m ⟨q, f, .fork⟩).disk.has .complete = true := by
  unfold nodeState nodeStateOf at h
  cases hs : scanForks (forkStates s q) true
  · simp [hs] at h
  · rename_i d
    cases d
    · rcases scanForks_done_false hs with h' | ⟨x, hx, hxc⟩
      · cases h'
      · simp only [forkStates, List.mem_map] at hx
        obtain ⟨f, _, hf⟩ := hx
        subst hxc
        have : s.st ⟨q, f, .fork⟩ = some .complete := by
          have := (forkStateOf_done (fm := s.st ⟨q, f, .fork⟩) (jm := s.st ⟨q, f, .join⟩)
            (cs := chunkStates s q f) (sm := s.st ⟨q, f, .split⟩)).mp (Or.inl hf)
          rcases this with h1 | h1
          · exact h1
          · unfold forkState forkStateOf at hf; simp [h1] at hf
        exact ⟨f, (hobj _).sub _ (metaState_complete this).2.2⟩
    · simp [hs] at h
  · rw [hs] at h
    by_cases hp : (s.pre q).all (nodeDone s) = true <;> simp [hp] at h

/-- `p` is upstream of `n`: reachable through prenode edges, where every
intermediate node is not Disabled (a disabled or fork-less call consumes
nothing and waits for nothing: `Node.getState` reports it Disabled regardless of
its own prenodes). -/
inductive Upstream (s : State) : Nat → Nat → Prop where
  | direct {n p} : p ∈ s.pre n → Upstream s n p
  | step {n q p} : q ∈ s.pre n → nodeState s q ≠ .disabled → Upstream s q p → Upstream s n p

theorem nodeDone_state {s : State} {q : Nat} (h : nodeDone s q = true) :
    nodeState s q = .complete ∨ nodeState s q = .disabled := by
  unfold nodeDone at h
  unfold nodeState nodeStateOf
  cases hs : scanForks (forkStates s q) true
  · simp [hs] at h
  · rename_i d; cases d <;> simp
  · simp [hs] at h

theorem upstream_done {s : State} (hobj : ObjsInv s) (hci : CompleteInv s)
    (hro : s.reopened = false) {n p : Nat}
    (hu : Upstream s n p) (hn : ∀ q ∈ s.pre n, nodeDone s q = true) : nodeDone s p = true := by
  induction hu with
  | direct hp => exact hn _ hp
  | step hq hnd _ ih =>
    apply ih
    rcases nodeDone_state (hn _ hq) with hc | hd
    · obtain ⟨f, hf⟩ := nodeState_complete_fork hobj hc
      exact hci hro _ f hf
    · exact absurd hd hnd


/-! ### `FullStageReset` mode: the mode-independent invariants -/

theorem reachFull_objsInv {g : List NodeInfo} {s : State} (h : ReachFull g s) : ObjsInv s := by
  induction h with
  | init => intro o; exact objInv_empty _ _
  | step _ hen ih => exact objsInv_step hen ih

theorem reachFull_launchInv {g : List NodeInfo} {s : State} (h : ReachFull g s) :
    LaunchInv s := by
  induction h with
  | init => constructor <;> simp [initFull]
  | step hr hen ih => exact launchInv_step hen (reachFull_objsInv hr) ih

theorem reachFull_full {g : List NodeInfo} {s : State} (h : ReachFull g s) : s.full = true := by
  induction h with
  | init => rfl
  | step _ _ ih => rw [apply_full]; exact ih

end Martian.Sched
