import Proofs.FormatExpRangeRead
import Proofs.FormatExpRound

/-!
C09, accepted texts: from the range of the raw reader to `wf` of what Go's
`ParseValExp` holds (`canon g` of the raw result), and the float leaves of a
normal form are fixed by `canon g`.

* `wf_canon`: `GOK g`, `wfRaw e`, valid strings and no `-0` in `canon g e` give `wf (canon g e)`.
* `canon_norm_fixed`: `canon g (norm (canon g e)) = norm (canon g e)`: reading the printed form
  and canonicalising the floats again changes nothing (clause `fixed` of `GOK`).

Core Lean only.
-/

namespace Martian.FormatExp
open Martian.Lexer (Bytes parseInt)

theorem parseValExpG_inv {g : Bytes → Bytes} {src : Bytes} {e : Exp} (h : parseValExpG g src = some e) :
    ∃ e0, parseValExp src = some e0 ∧ e = canon g e0 := by
  unfold parseValExpG at h
  cases h0 : parseValExp src with
  | none => simp [h0] at h
  | some e0 =>
    simp only [h0, Option.map_some, Option.some.injEq] at h
    exact ⟨e0, rfl, h.symm⟩

theorem isVal_canon (g : Bytes → Bytes) (e : Exp) : isVal (canon g e) = isVal e := by
  cases e <;> simp [canon, isVal]

theorem sortedKeys_canonKV (g : Bytes → Bytes) : ∀ kvs : List (Bytes × Exp),
    sortedKeys (canonKV g kvs) = sortedKeys kvs := by
  have hall : ∀ (k : Bytes) (kvs : List (Bytes × Exp)),
      (canonKV g kvs).all (fun kv => bytesLt k kv.1) = kvs.all (fun kv => bytesLt k kv.1) := by
    intro k kvs
    induction kvs with
    | nil => simp [canonKV]
    | cons kv r ih => obtain ⟨k', v'⟩ := kv; simp [canonKV, ih]
  intro kvs
  induction kvs with
  | nil => simp [canonKV]
  | cons kv r ih => obtain ⟨k', v'⟩ := kv; simp [canonKV, sortedKeys, hall, ih]

/-! ## `wf` of the canonicalised expression -/

theorem wf_canon_float (g : Bytes → Bytes) (hg : GOK g) (t : Bytes) (hr : wfRaw (.float t) = true)
    (hz : noNegZero (canon g (.float t)) = true) : wf (canon g (.float t)) = true := by
  simp only [wfRaw] at hr
  simp only [canon, noNegZero, Bool.not_eq_true', beq_eq_false_iff_ne, ne_eq] at hz
  simp only [canon, wf, Bool.or_eq_true]
  rcases hg.range t hr with h | h | h
  · exact Or.inl h
  · exact Or.inr h
  · exact absurd h hz

mutual
theorem wf_canon (g : Bytes → Bytes) (hg : GOK g) : ∀ e : Exp, wfRaw e = true →
    strsValid (canon g e) = true → noNegZero (canon g e) = true → wf (canon g e) = true
  | .null, _, _, _ => rfl
  | .nilArr, _, _, _ => rfl
  | .bool _, _, _, _ => rfl
  | .int _, h, _, _ => h
  | .str _, _, hs, _ => hs
  | .ref .., h, _, _ => h
  | .float t, hr, _, hz => wf_canon_float g hg t hr hz
  | .arr xs, hr, hs, hz => by
    simp only [wfRaw] at hr
    simp only [canon, strsValid] at hs
    simp only [canon, noNegZero] at hz
    simp only [canon, wf]
    exact wfL_canon g hg xs hr hs hz
  | .map kvs, hr, hs, hz => by
    simp only [wfRaw, Bool.and_eq_true] at hr
    simp only [canon, strsValid] at hs
    simp only [canon, noNegZero] at hz
    simp only [canon, wf, Bool.and_eq_true, sortedKeys_canonKV]
    exact ⟨hr.1, wfKV_canon g hg false kvs hr.2 hs hz⟩
  | .struct kvs, hr, hs, hz => by
    simp only [wfRaw, Bool.and_eq_true] at hr
    simp only [canon, strsValid] at hs
    simp only [canon, noNegZero] at hz
    simp only [canon, wf, Bool.and_eq_true, sortedKeys_canonKV]
    exact ⟨hr.1, wfKV_canon g hg true kvs hr.2 hs hz⟩
theorem wfL_canon (g : Bytes → Bytes) (hg : GOK g) : ∀ xs : List Exp, wfRawL xs = true →
    strsValidL (canonL g xs) = true → noNegZeroL (canonL g xs) = true → wfL (canonL g xs) = true
  | [], _, _, _ => rfl
  | x :: r, hr, hs, hz => by
    simp only [wfRawL, Bool.and_eq_true] at hr
    simp only [canonL, strsValidL, Bool.and_eq_true] at hs
    simp only [canonL, noNegZeroL, Bool.and_eq_true] at hz
    simp only [canonL, wfL, Bool.and_eq_true]
    exact ⟨wf_canon g hg x hr.1 hs.1 hz.1, wfL_canon g hg r hr.2 hs.2 hz.2⟩
theorem wfKV_canon (g : Bytes → Bytes) (hg : GOK g) (s : Bool) : ∀ kvs : List (Bytes × Exp),
    wfRawKV s kvs = true → strsValidKV (!s) (canonKV g kvs) = true →
    noNegZeroKV (canonKV g kvs) = true → wfKV s (canonKV g kvs) = true
  | [], _, _, _ => rfl
  | (k, v) :: r, hr, hs, hz => by
    simp only [wfRawKV, Bool.and_eq_true] at hr
    simp only [canonKV, strsValidKV, Bool.and_eq_true] at hs
    simp only [canonKV, noNegZeroKV, Bool.and_eq_true] at hz
    simp only [canonKV, wfKV, Bool.and_eq_true]
    refine ⟨⟨?_, wf_canon g hg v hr.1.2 hs.1.2 hz.1⟩, wfKV_canon g hg s r hr.2 hs.2 hz.2⟩
    cases s with
    | true => simpa using hr.1.1
    | false => simpa using hs.1.1
end

/-! ## the normal form is fixed by the canonicaliser -/

theorem canon_norm_fixed_float (g : Bytes → Bytes) (hg : GOK g) (t : Bytes) (hr : wfRaw (.float t) = true)
    (hw : wf (canon g (.float t)) = true) :
    canon g (norm (canon g (.float t))) = norm (canon g (.float t)) := by
  simp only [wfRaw] at hr
  simp only [canon, wf, Bool.or_eq_true] at hw
  simp only [canon, norm]
  by_cases hft : isFloatTok (g t) = true
  · simp only [hft, ↓reduceIte, canon, hg.fixed t hr hft]
  · simp only [hft, Bool.false_eq_true, ↓reduceIte]
    rcases hw with hw | hw
    · exact absurd hw hft
    · unfold isCanonInt at hw
      cases hp : parseInt (g t) with
      | none => simp [hp] at hw
      | some i => simp only [canon]

mutual
theorem canon_norm_fixed (g : Bytes → Bytes) (hg : GOK g) : ∀ e : Exp, wfRaw e = true →
    wf (canon g e) = true → canon g (norm (canon g e)) = norm (canon g e)
  | .null, _, _ => rfl
  | .nilArr, _, _ => rfl
  | .bool _, _, _ => rfl
  | .int _, _, _ => rfl
  | .str _, _, _ => rfl
  | .ref .., _, _ => rfl
  | .float t, hr, hw => canon_norm_fixed_float g hg t hr hw
  | .arr xs, hr, hw => by
    simp only [wfRaw] at hr
    simp only [canon, wf] at hw
    simp only [canon, norm, canonL_normL_fixed g hg xs hr hw]
  | .map kvs, hr, hw => by
    simp only [wfRaw, Bool.and_eq_true] at hr
    simp only [canon, wf, Bool.and_eq_true] at hw
    simp only [canon, norm, canonKV_normKV_fixed g hg false kvs hr.2 hw.2]
  | .struct [], _, _ => rfl
  | .struct ((k, v) :: r), hr, hw => by
    simp only [wfRaw, Bool.and_eq_true] at hr
    simp only [canon, wf, Bool.and_eq_true] at hw
    have := canonKV_normKV_fixed g hg true ((k, v) :: r) hr.2 hw.2
    simp only [canonKV] at this
    simp only [canon, canonKV, norm, this]
theorem canonL_normL_fixed (g : Bytes → Bytes) (hg : GOK g) : ∀ xs : List Exp, wfRawL xs = true →
    wfL (canonL g xs) = true → canonL g (normL (canonL g xs)) = normL (canonL g xs)
  | [], _, _ => rfl
  | x :: r, hr, hw => by
    simp only [wfRawL, Bool.and_eq_true] at hr
    simp only [canonL, wfL, Bool.and_eq_true] at hw
    simp only [canonL, normL, canon_norm_fixed g hg x hr.1 hw.1, canonL_normL_fixed g hg r hr.2 hw.2]
theorem canonKV_normKV_fixed (g : Bytes → Bytes) (hg : GOK g) (s : Bool) : ∀ kvs : List (Bytes × Exp),
    wfRawKV s kvs = true → wfKV s (canonKV g kvs) = true →
    canonKV g (normKV (canonKV g kvs)) = normKV (canonKV g kvs)
  | [], _, _ => rfl
  | (k, v) :: r, hr, hw => by
    simp only [wfRawKV, Bool.and_eq_true] at hr
    simp only [canonKV, wfKV, Bool.and_eq_true] at hw
    simp only [canonKV, normKV, canon_norm_fixed g hg v hr.1.2 hw.1.2,
      canonKV_normKV_fixed g hg s r hr.2 hw.2]
end

/-! ## the sample canonicaliser -/

theorem gok_id : GOK id := ⟨fun _ h => Or.inl h, fun _ _ _ => rfl⟩

theorem gok_gSample : GOK gSample := by
  constructor
  · intro t ht
    unfold gSample
    split
    · exact Or.inr (Or.inl (by decide))
    · split
      · exact Or.inr (Or.inr rfl)
      · exact Or.inl ht
  · intro t _ h
    by_cases h1 : t = [0x31, 0x65, 0x33]
    · subst h1; exact absurd h (by decide)
    · by_cases h2 : t = [0x2D, 0x30, 0x2E, 0x30]
      · subst h2; exact absurd h (by decide)
      · have : gSample t = t := by simp [gSample, h1, h2]
        rw [this, this]

end Martian.FormatExp
