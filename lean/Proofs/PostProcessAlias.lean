/-
C13, aliasing: ONE file bound to TWO outputs.  What the code guarantees for
the second occurrence, exactly.
-/
import Martian.PostProcess
import Martian.PostProcessDefs
import Proofs.PostProcess

namespace Martian.PostProcess

/-! ## `filepath.Rel` followed by `filepath.Join`/`Clean` gives the target back -/

theorem resolve_clean (d cs : Path) (h : ∀ c ∈ cs, cleanComp c = true) : resolve d cs = d ++ cs := by
  induction cs generalizing d with
  | nil => simp [resolve]
  | cons c cs ih =>
    have hc := h c (by simp)
    simp only [cleanComp, Bool.and_eq_true, decide_eq_true_eq] at hc
    simp only [resolve, hc.1.1, hc.1.2, hc.2, if_false, or_self]
    rw [ih _ (fun c' hc' => h c' (by simp [hc']))]
    simp

theorem resolve_dotdots (d : Path) (m : Nat) (cs : List String) :
    resolve d (List.replicate m ".." ++ cs) = resolve (d.take (d.length - m)) cs := by
  induction m generalizing d with
  | zero => simp
  | succ m ih =>
    simp only [List.replicate_succ, List.cons_append, resolve, if_true]
    rw [ih, List.dropLast_eq_take, List.take_take, List.length_take]
    congr 2
    omega

theorem commonLen_le_left (a b : Path) : commonLen a b ≤ a.length := by
  induction a generalizing b with
  | nil => simp [commonLen]
  | cons x a ih =>
    cases b with
    | nil => simp [commonLen]
    | cons y b =>
      simp only [commonLen]
      split
      · simp; exact ih b
      · simp

theorem commonLen_take (a b : Path) : a.take (commonLen a b) = b.take (commonLen a b) := by
  induction a generalizing b with
  | nil => simp [commonLen]
  | cons x a ih =>
    cases b with
    | nil => simp [commonLen]
    | cons y b =>
      simp only [commonLen]
      split
      · next h => simp [h, ih b]
      · simp

/-- `Clean(Join(base, Rel(base, target))) = target` for a target without `.`/`..`/empty components -/
theorem resolve_relPath (base target : Path) (h : ∀ c ∈ target, cleanComp c = true) :
    resolve base (relPath base target) = target := by
  unfold relPath
  simp only
  rw [resolve_dotdots]
  have hle := commonLen_le_left base target
  have : base.length - (base.length - commonLen base target) = commonLen base target := by omega
  rw [this, commonLen_take, resolve_clean]
  · exact List.take_append_drop _ _
  · intro c hc
    exact h c (List.mem_of_mem_drop hc)

/-! ## the second occurrence of a file that has already been moved -/

/-- `p` was moved to `d1` (so `p` is now the relative link back and `d1` holds
a regular file or directory).  Processing the SAME path again for another
output with destination `outs2/name2`: the recorded value is `d1` — the
location of the FIRST output — and `outs2/name2` becomes a relative symlink to
`d1`.  (Guaranteed: the value points at a materialised location with the
producer's content, and the file is reachable at the second output's own
derived path.  Not guaranteed: that the recorded value IS that own path.) -/
theorem moveOutFile_alias (ps outs2 : Path) (name2 s : String) (p d1 : Path) (e : Entry) (fs1 : FS)
    (hs : s ≠ "") (hp : parsePath s = some p)
    (hlink : fs1.get p = some (.link (.rel (relPath p.dropLast d1))))
    (hd1 : fs1.get d1 = some e) (hl : e.isLink = false)
    (hclean : ∀ c ∈ d1, cleanComp c = true)
    (hin : inside ps p = true)
    (hfree : statExists (mkdirAll fs1 outs2) statFuel (outs2 ++ [name2]) = false) :
    moveOutFile ps outs2 name2 (.str s) fs1 =
      (.str (renderPath d1),
        symlinkAt (mkdirAll fs1 outs2) (outs2 ++ [name2])
          (.rel (relPath (outs2 ++ [name2]).dropLast d1))) := by
  have hres : resolve p.dropLast (relPath p.dropLast d1) = d1 := resolve_relPath _ _ hclean
  have hget : (mkdirAll fs1 outs2).get d1 = some e := mkdirAll_get_some _ _ _ _ hd1
  have hchase : chase (mkdirAll fs1 outs2) chaseFuel none d1 = (none, d1) := by
    cases e with
    | link t => simp [Entry.isLink] at hl
    | file c => simp [chaseFuel, chase, hget]
    | dir => simp [chaseFuel, chase, hget]
  simp [moveOutFile, hs, hp, hlink, copyOutSymlink, hin, hfree, hres, hchase]

end Martian.PostProcess
