import Martian.Tokenizer
import Proofs.LexerRegex
import Gen.Facts

/-!
The white-space set of `leadingSpace` against the sources: the ASCII fast path
against the case list re-read from tokenizer.go (`Gen.tokSpaceAscii`), the
non-ASCII part against the table behind `unicode.IsSpace`, re-read from the
toolchain's unicode/tables.go (`Gen.unicodeWhiteSpace`, (lo, hi, stride)).
(For runes ≤ 0xFF `unicode.IsSpace` uses a switch over the same Latin-1
members U+0085, U+00A0 that the table lists.)
-/
namespace Martian.Tokenizer

/-- membership in a `unicode.RangeTable`: `lo, lo+stride, …, hi` -/
def inStride : List (Nat × Nat × Nat) → Nat → Bool
  | [], _ => false
  | (lo, hi, st) :: t, r => (decide (lo ≤ r) && decide (r ≤ hi) && (r - lo) % st == 0) || inStride t r

theorem uniSpace_eq_table (r : Nat) (h : 0x80 ≤ r) : isUniSpace r = inStride Gen.unicodeWhiteSpace r := by
  simp only [isUniSpace, Gen.unicodeWhiteSpace, inStride]
  rw [Bool.eq_iff_iff]
  simp only [Bool.or_eq_true, Bool.and_eq_true, beq_iff_eq, decide_eq_true_eq, Bool.or_false]
  omega

set_option maxRecDepth 100000 in
theorem asciiSpace_eq_source : ∀ c : UInt8, isAsciiSpace c = Gen.tokSpaceAscii.contains c.toNat := by
  apply Martian.LexerRegex.forall_byte; decide

end Martian.Tokenizer
