import Proofs.FormatFileRange

/-!
C09, accepted texts of whole files: from the range of the file reader to the text-side
statements.

* `wfFile_canon`: `GOK g`, `HOK h`, `fileRaw f` and the exception hypotheses `fileHyps` give
  `wfFile (canonFile g h f)`;
* `canonFile_norm_fixed`: the canonicalisers change nothing in the normal form of a file Go holds;
* `parseFileGH_wf`, `format_accepted_file`: the text-side theorems for the reader with the exact
  reading of `mem_gb` / `vmem_gb`;
* `pDeclsR_toks`, `pFileR_toks`, `parseFileR_fmtFile`: the round trip of section WholeFile for the
  reader with ANY reader `rd` of the two values that reads the printed values back, hence
  `parseFile32GH_wf`, `format_accepted_file32`: the same theorems for the REAL (float32) reading,
  below 256 GB.

Core Lean only.
-/

namespace Martian.FormatFile
open Martian.Lexer (Bytes unquoteBytes)
open Martian.FormatExp Martian.FormatDecl Martian.FormatCall2
open Martian.FormatStage (Stage pStage pStageR stageRaw wfStage HOK canonStage wfStage_canon canonStage_fixed
  stageMB32Valid stageMBValid stageMBValid_of_32 stageMB32Valid_canon readsBack32 pStageR_toks toksStage
  stageEnd)
open Martian.FormatPipe (Pipeline pPipeline normPipeline wfPipeline toksPipeline toksPipelineRaw
  pPipeline_toks pPipeline_toks_gen wfPipeline_parts)
open Martian.FormatCallText (canonCall2 canonPipeline wfCall2Raw wfPipelineRaw wfPipeline_canon
  canonPipeline_norm_fixed wfCall2_canon fixCall_canon FixCall)
open Martian.FormatRes (readGBTok readGB32Tok ReadsBack)

/-! ## from the range to `wfFile` -/

theorem wfStruct_of_raw (s : Struct) (hr : structRaw s = true) (hs : declStrsValid s = true) :
    wfStruct s = true := by
  simp only [structRaw, Bool.and_eq_true] at hr
  simp only [wfStruct, Bool.and_eq_true]
  exact ⟨⟨hr.1.1, hr.1.2⟩, all_wfMember_of_raw s.members hr.2 hs⟩

theorem all_wfStruct_of_raw : ∀ ss : List Struct, ss.all structRaw = true → ss.all declStrsValid = true →
    ss.all wfStruct = true
  | [], _, _ => rfl
  | s :: r, h, hs => by
    simp only [List.all_cons, Bool.and_eq_true] at h hs ⊢
    exact ⟨wfStruct_of_raw s h.1 hs.1, all_wfStruct_of_raw r h.2 hs.2⟩

theorem wfCallable_canon (g h : Bytes → Bytes) (hg : GOK g) (hh : HOK h) (c : Callable)
    (hr : callableRaw c = true) (hs : callableStrsValid (canonCallable g h c) = true)
    (hz : callableNoNegZero (canonCallable g h c) = true)
    (hm : callableMB32Valid (canonCallable g h c) = true)
    (hd : callableModsDistinct (canonCallable g h c) = true)
    (hc : callableCallsDistinct (canonCallable g h c) = true) :
    wfCallable (canonCallable g h c) = true := by
  cases c with
  | stage s => exact wfStage_canon h hh s hr hs hm
  | pipeline p => exact wfPipeline_canon g hg p hr hs hz hd hc

theorem all_wfCallable_canon (g h : Bytes → Bytes) (hg : GOK g) (hh : HOK h) : ∀ cs : List Callable,
    cs.all callableRaw = true → (cs.map (canonCallable g h)).all callableStrsValid = true →
    (cs.map (canonCallable g h)).all callableNoNegZero = true →
    (cs.map (canonCallable g h)).all callableMB32Valid = true →
    (cs.map (canonCallable g h)).all callableModsDistinct = true →
    (cs.map (canonCallable g h)).all callableCallsDistinct = true →
    (cs.map (canonCallable g h)).all wfCallable = true
  | [], _, _, _, _, _, _ => rfl
  | c :: r, hr, hs, hz, hm, hd, hc => by
    simp only [List.map_cons, List.all_cons, Bool.and_eq_true] at hr hs hz hm hd hc ⊢
    exact ⟨wfCallable_canon g h hg hh c hr.1 hs.1 hz.1 hm.1 hd.1 hc.1,
      all_wfCallable_canon g h hg hh r hr.2 hs.2 hz.2 hm.2 hd.2 hc.2⟩

theorem isEmpty_map_canon {α β : Type} (q : α → β) (l : List α) : (l.map q).isEmpty = l.isEmpty := by
  cases l <;> rfl

/-- from the range of the reader to `wfFile`, for the file as Go holds it -/
theorem wfFile_canon (g h : Bytes → Bytes) (hg : GOK g) (hh : HOK h) (f : File) (hr : fileRaw f = true)
    (hy : fileHyps (canonFile g h f) = true) : wfFile (canonFile g h f) = true := by
  obtain ⟨incs, fts, sts, cs, call⟩ := f
  simp only [fileRaw, Bool.and_eq_true] at hr
  obtain ⟨⟨⟨⟨r1, r2⟩, r3⟩, r4⟩, r5⟩ := hr
  simp only [fileHyps, fileStrsValid, fileNoNegZero, fileMB32Valid, fileModsDistinct, fileCallsDistinct,
    canonFile, Bool.and_eq_true] at hy
  obtain ⟨⟨⟨⟨⟨⟨⟨s1, s2⟩, s3⟩, s4⟩, z1, z2⟩, m1⟩, d1, d2⟩, c1⟩ := hy
  simp only [wfFile, canonFile, Bool.and_eq_true]
  refine ⟨⟨⟨⟨⟨s1, r1⟩, all_wfStruct_of_raw sts r2 s2⟩,
    all_wfCallable_canon g h hg hh cs r3 s3 z1 m1 d1 c1⟩, ?_⟩, ?_⟩
  · cases call with
    | none => rfl
    | some c => exact wfCall2_canon g hg c r4 s4 z2 d2
  · rw [isEmpty_map_canon]
    cases call <;> exact r5

/-! ## the canonicalisers fix the normal form -/

theorem canonCallable_norm_fixed (g h : Bytes → Bytes) (hg : GOK g) (hh : HOK h) (c : Callable)
    (hr : callableRaw c = true) (hw : wfCallable (canonCallable g h c) = true) :
    canonCallable g h (normCallable (canonCallable g h c)) = normCallable (canonCallable g h c) := by
  cases c with
  | stage s =>
    simp only [canonCallable, normCallable]
    rw [canonStage_fixed h hh s hr]
  | pipeline p =>
    simp only [canonCallable, normCallable]
    rw [canonPipeline_norm_fixed g hg p hr hw]

theorem map_canonCallable_norm_fixed (g h : Bytes → Bytes) (hg : GOK g) (hh : HOK h) :
    ∀ cs : List Callable, cs.all callableRaw = true → (cs.map (canonCallable g h)).all wfCallable = true →
    (((cs.map (canonCallable g h)).map normCallable).map (canonCallable g h)) =
      (cs.map (canonCallable g h)).map normCallable
  | [], _, _ => rfl
  | c :: r, hr, hw => by
    simp only [List.map_cons, List.all_cons, Bool.and_eq_true] at hr hw ⊢
    rw [canonCallable_norm_fixed g h hg hh c hr.1 hw.1, map_canonCallable_norm_fixed g h hg hh r hr.2 hw.2]

theorem canonFile_norm_fixed (g h : Bytes → Bytes) (hg : GOK g) (hh : HOK h) (f : File)
    (hr : fileRaw f = true) (hw : wfFile (canonFile g h f) = true) :
    canonFile g h (normFile (canonFile g h f)) = normFile (canonFile g h f) := by
  obtain ⟨incs, fts, sts, cs, call⟩ := f
  simp only [fileRaw, Bool.and_eq_true] at hr
  obtain ⟨⟨⟨⟨_, _⟩, r3⟩, r4⟩, _⟩ := hr
  obtain ⟨_, _, _, w4, w5, _⟩ := wfFile_parts hw
  simp only [canonFile] at w4 w5
  have hcall : ((call.map (canonCall2 g)).map normCall2).map (canonCall2 g) =
      (call.map (canonCall2 g)).map normCall2 := by
    cases call with
    | none => rfl
    | some c =>
      have : FixCall g (canonCall2 g c) := fixCall_canon g hg c r4 w5
      simp only [Option.map_some]
      rw [this]
  simp only [canonFile, normFile, map_canonCallable_norm_fixed g h hg hh cs r3 w4, hcall]

/-! ## the text-side theorems, exact reading of `mem_gb` / `vmem_gb` -/

theorem parseFileGH_inv {g h : Bytes → Bytes} {src : Bytes} {f : File} (hp : parseFileGH g h src = some f) :
    ∃ f0, parseFile src = some f0 ∧ f = canonFile g h f0 := by
  unfold parseFileGH at hp
  cases h0 : parseFile src with
  | none => simp [h0] at hp
  | some f0 =>
    simp only [h0, Option.map_some, Option.some.injEq] at hp
    exact ⟨f0, rfl, hp.symm⟩

/-- **The parser produces well-formed files**, up to F6b, F26, F29 (F25 subsumed), F40, F34 -/
theorem parseFileGH_wf (g h : Bytes → Bytes) (hg : GOK g) (hh : HOK h) (src : Bytes) (f : File)
    (hp : parseFileGH g h src = some f) (hy : fileHyps f = true) : wfFile f = true := by
  obtain ⟨f0, h0, rfl⟩ := parseFileGH_inv hp
  exact wfFile_canon g h hg hh f0 (parseFile_range src f0 h0) hy

/-- **Formatting preserves every accepted file text**, up to F6b, F26, F29 (F25 subsumed), F40, F34 -/
theorem format_accepted_file (g h : Bytes → Bytes) (hg : GOK g) (hh : HOK h) (src : Bytes) (f : File)
    (hp : parseFileGH g h src = some f) (hy : fileHyps f = true) :
    parseFileGH g h (fmtFile f) = some (normFile f) ∧ fmtFile (normFile f) = fmtFile f ∧
      parseFileGH g h (fmtFile (normFile f)) = some (normFile f) := by
  obtain ⟨f0, h0, rfl⟩ := parseFileGH_inv hp
  have hr := parseFile_range src f0 h0
  have hw := wfFile_canon g h hg hh f0 hr hy
  have hfix := canonFile_norm_fixed g h hg hh f0 hr hw
  have h1 : parseFileGH g h (fmtFile (canonFile g h f0)) = some (normFile (canonFile g h f0)) := by
    simp only [parseFileGH, parseFile_fmtFile _ hw, Option.map_some, hfix]
  refine ⟨h1, fmtFile_norm _ hw, ?_⟩
  rw [fmtFile_norm _ hw]
  exact h1

/-! ## the token layer for the reader with `rd` -/

/-- `rd` reads the printed `mem_gb` / `vmem_gb` of every stage among the declarations back -/
def DeclsReadBack (rd : Tok → Option Int) (ds : List Decl) : Prop :=
  ∀ s, Decl.stage s ∈ ds → ∀ r, s.res = some r → ReadsBack rd r

theorem pDeclsR_toks (rd : Tok → Option Int) (raw : Bool) : ∀ (ds : List Decl) (f : Nat) (rest : List Tok),
    ds.all wfDecl = true → DeclsReadBack rd ds → ds.length < f → decKind rest = 0 →
    declStart rest = true →
    pDeclsR rd f (toksDecls raw ds ++ rest) = some (ds.map (readDeclB raw), rest)
  | [], f, rest, _, _, hf, hk, _ => by
    obtain ⟨g, rfl⟩ : ∃ g, f = g + 1 := ⟨f - 1, by simp at hf; omega⟩
    simp only [toksDecls, List.nil_append, pDeclsR, hk, List.map_nil]
  | d :: ds, f, rest, hw, hrd, hf, hk, hr => by
    obtain ⟨g, rfl⟩ : ∃ g, f = g + 1 := ⟨f - 1, by omega⟩
    simp only [List.all_cons, Bool.and_eq_true] at hw
    have ih := pDeclsR_toks rd raw ds g rest hw.2 (fun s hs => hrd s (List.mem_cons_of_mem _ hs))
      (by simp at hf; omega) hk hr
    have hR := declStart_toksDecls raw ds rest hr
    have e : toksDecls raw (d :: ds) ++ rest = toksDecl raw d ++ (toksDecls raw ds ++ rest) := by
      simp [toksDecls]
    rw [e]
    cases d with
    | filetype t =>
      have h1 := decKind_filetype t (toksDecls raw ds ++ rest)
      have h2 := pFiletypeDecl_toks t hw.1 (toksDecls raw ds ++ rest)
      simp only [toksDecl] at h1 h2 ⊢
      rw [pDeclsR]
      simp only [h1, h2, ih, Option.map_some, List.map_cons, readDeclB]
    | struct s =>
      have h1 : decKind (toksStruct s ++ (toksDecls raw ds ++ rest)) = 2 := rfl
      have h2 := pStructDecl_toks s hw.1 (toksDecls raw ds ++ rest)
      simp only [toksDecl] at h1 h2 ⊢
      rw [pDeclsR]
      simp only [h1, h2, ih, Option.map_some, List.map_cons, readDeclB]
    | stage s =>
      have h1 : decKind (toksStage s ++ (toksDecls raw ds ++ rest)) = 3 := rfl
      have h2 := pStageR_toks rd s hw.1 (hrd s (List.mem_cons_self ..)) (toksDecls raw ds ++ rest)
        (declStart_stageEnd hR)
      simp only [toksDecl] at h1 h2 ⊢
      rw [pDeclsR]
      simp only [h1, h2, ih, Option.map_some, List.map_cons, readDeclB]
    | pipeline p =>
      cases raw with
      | false =>
        have h1 : decKind (toksPipeline p ++ (toksDecls false ds ++ rest)) = 4 := rfl
        have h2 := pPipeline_toks p (toksDecls false ds ++ rest) hw.1
        simp only [toksDecl, Bool.false_eq_true, ↓reduceIte] at h1 h2 ⊢
        rw [pDeclsR]
        simp only [h1, h2, ih, Option.map_some, List.map_cons, readDeclB, Bool.false_eq_true, ↓reduceIte]
      | true =>
        have h1 : decKind (toksPipelineRaw p ++ (toksDecls true ds ++ rest)) = 4 := rfl
        obtain ⟨_, hwi, hi, hwo, ho, hb, _⟩ := wfPipeline_parts (p := p) hw.1
        have h2 := pPipeline_toks_gen p.id p.ins p.outs p.body (toksDecls true ds ++ rest) hwi hi hwo ho hb
        simp only [toksDecl, ↓reduceIte, toksPipelineRaw] at h1 h2 ⊢
        rw [pDeclsR]
        simp only [h1, h2, ih, Option.map_some, List.map_cons, readDeclB, readDecl, ↓reduceIte]

/-- **Token layer, file, any reader of `mem_gb` / `vmem_gb`** that reads the printed values back -/
theorem pFileR_toks (rd : Tok → Option Int) (raw : Bool) (incs : List Bytes) (ds : List Decl)
    (call : Option Call2) (hw : wfSource incs ds call = true) (hrd : DeclsReadBack rd ds) :
    pFileR rd (toksIncludes incs ++ (toksDecls raw ds ++ toksCallOpt call)) =
      some (distribute incs (ds.map (readDeclB raw)) (call.map normCall2)) := by
  simp only [wfSource, Bool.and_eq_true, Bool.or_eq_true, Bool.not_eq_true',
    List.isEmpty_eq_false_iff] at hw
  obtain ⟨⟨⟨hi, hd⟩, hc⟩, hne⟩ := hw
  have hlen1 := toksIncludes_length incs
  have hlen2 := toksDecls_length raw ds
  have h1 := pIncludes_toks incs
    ((toksIncludes incs ++ (toksDecls raw ds ++ toksCallOpt call)).length + 1)
    (toksDecls raw ds ++ toksCallOpt call) hi
    (by simp only [List.length_append]; omega)
    (declStart_toksDecls raw ds _ (declStart_toksCallOpt call))
  have h2 := pDeclsR_toks rd raw ds
    ((toksIncludes incs ++ (toksDecls raw ds ++ toksCallOpt call)).length + 1)
    (toksCallOpt call) hd hrd
    (by simp only [List.length_append]; omega)
    (decKind_toksCallOpt call) (declStart_toksCallOpt call)
  unfold pFileR
  simp only [h1, h2]
  cases call with
  | none =>
    have hds : ds ≠ [] := by
      rcases hne with h | h
      · exact h
      · simp at h
    have : (ds.map (readDeclB raw)).isEmpty = false := by
      cases ds with
      | nil => exact absurd rfl hds
      | cons d ds => rfl
    simp only [toksCallOpt, this, Bool.false_eq_true, ↓reduceIte, Option.map_none]
  | some c =>
    obtain ⟨k, r, hk, _⟩ := toksCall2_head c
    have h3 := pCall2_toks c [] hc noUsing_nil
    rw [List.append_nil, hk] at h3
    simp only [toksCallOpt, hk, h3, Option.map_some]

/-- **Round trip, file, any reader of `mem_gb` / `vmem_gb`** that reads the printed values back -/
theorem parseFileR_fmtFile (rd : Tok → Option Int) (f : File) (hw : wfFile f = true)
    (hrd : DeclsReadBack rd (declsOf f)) : parseFileR rd (fmtFile f) = some (normFile f) := by
  have hl := lexAll_of_lexOK_nil (lexOK_fmtFile f hw)
  have hp := pFileR_toks rd false f.includes (declsOf f) f.call (wfSource_of_wfFile f hw) hrd
  rw [distribute_read_false, distribute_declsOf] at hp
  simp only [parseFileR, hl, Option.bind_some, toksFile, hp]

/-! ## the real (float32) reading -/

theorem mem_declsOf_stage {f : File} {s : Stage} (h : Decl.stage s ∈ declsOf f) :
    Callable.stage s ∈ f.callables := by
  simp only [declsOf, List.mem_append, List.mem_map] at h
  rcases h with ⟨_, _, e⟩ | ⟨_, _, e⟩ | ⟨c, hc, e⟩
  · cases e
  · cases e
  · cases c with
    | stage s' =>
      simp only [Callable.toDecl, Decl.stage.injEq] at e
      subst e; exact hc
    | pipeline p => cases e

theorem readsBack32_file (f : File) (hm : fileMB32Valid f = true) :
    DeclsReadBack readGB32Tok (declsOf f) := by
  intro s hs
  have hc := mem_declsOf_stage hs
  have := List.all_eq_true.mp hm _ hc
  exact readsBack32 s this

theorem callablesMB32Valid_of_wf : ∀ cs : List Callable, cs.all wfCallable = true →
    cs.all callableMB32Valid = true
  | [], _ => rfl
  | c :: r, h => by
    simp only [List.all_cons, Bool.and_eq_true] at h ⊢
    refine ⟨?_, callablesMB32Valid_of_wf r h.2⟩
    cases c with
    | stage s => exact Martian.FormatStage.stageMB32Valid_of_wf s h.1
    | pipeline p => rfl

/-- the resource bound of `wfFile` IS `fileMB32Valid` (`wfMB` is the 256 GB bound) -/
theorem fileMB32Valid_of_wf (f : File) (hw : wfFile f = true) : fileMB32Valid f = true := by
  obtain ⟨_, _, _, h4, _, _⟩ := wfFile_parts hw
  exact callablesMB32Valid_of_wf f.callables h4

/-- **Round trip with the REAL reading of `mem_gb` / `vmem_gb`**, below 256 GB -/
theorem parseFile32_fmtFile (f : File) (hw : wfFile f = true) (hm : fileMB32Valid f = true) :
    parseFile32 (fmtFile f) = some (normFile f) :=
  parseFileR_fmtFile readGB32Tok f hw (readsBack32_file f hm)

theorem fileMBValid_of_32 : ∀ cs : List Callable, cs.all callableMB32Valid = true →
    cs.all callableMBValid = true
  | [], _ => rfl
  | c :: r, h => by
    simp only [List.all_cons, Bool.and_eq_true] at h ⊢
    refine ⟨?_, fileMBValid_of_32 r h.2⟩
    cases c with
    | stage s => exact stageMBValid_of_32 s h.1
    | pipeline p => rfl

/-- the two names denote the same conjunction -/
theorem fileHyps32_eq (f : File) : fileHyps32 f = fileHyps f := rfl

theorem fileHyps_of_32 (f : File) (hy : fileHyps32 f = true) : fileHyps f = true := hy

/-- F29's range is inside F25's (256 GB < 2^53 GB) -/
theorem fileMBValid_of_hyps (f : File) (hy : fileHyps f = true) : fileMBValid f = true := by
  simp only [fileHyps, Bool.and_eq_true] at hy
  exact fileMBValid_of_32 _ hy.1.1.2

theorem fileMB32Valid_norm (f : File) : fileMB32Valid (normFile f) = fileMB32Valid f := by
  simp only [fileMB32Valid, normFile, List.all_map]
  congr 1
  funext c
  cases c <;> rfl

theorem parseFile32GH_inv {g h : Bytes → Bytes} {src : Bytes} {f : File}
    (hp : parseFile32GH g h src = some f) : ∃ f0, parseFile32 src = some f0 ∧ f = canonFile g h f0 := by
  unfold parseFile32GH at hp
  cases h0 : parseFile32 src with
  | none => simp [h0] at hp
  | some f0 =>
    simp only [h0, Option.map_some, Option.some.injEq] at hp
    exact ⟨f0, rfl, hp.symm⟩

/-- **The real parser produces well-formed files**, up to F6b, F26, F29/F25, F40, F34 -/
theorem parseFile32GH_wf (g h : Bytes → Bytes) (hg : GOK g) (hh : HOK h) (src : Bytes) (f : File)
    (hp : parseFile32GH g h src = some f) (hy : fileHyps32 f = true) : wfFile f = true := by
  obtain ⟨f0, h0, rfl⟩ := parseFile32GH_inv hp
  exact wfFile_canon g h hg hh f0 (parseFile32_range src f0 h0) (fileHyps_of_32 _ hy)

/-- **Formatting preserves every file text the REAL parser accepts**, up to F6b, F26, F29, F40, F34 -/
theorem format_accepted_file32 (g h : Bytes → Bytes) (hg : GOK g) (hh : HOK h) (src : Bytes) (f : File)
    (hp : parseFile32GH g h src = some f) (hy : fileHyps32 f = true) :
    parseFile32GH g h (fmtFile f) = some (normFile f) ∧ fmtFile (normFile f) = fmtFile f ∧
      parseFile32GH g h (fmtFile (normFile f)) = some (normFile f) := by
  obtain ⟨f0, h0, rfl⟩ := parseFile32GH_inv hp
  have hr := parseFile32_range src f0 h0
  have hw := wfFile_canon g h hg hh f0 hr (fileHyps_of_32 _ hy)
  have hm : fileMB32Valid (canonFile g h f0) = true := by
    simp only [fileHyps32, Bool.and_eq_true] at hy
    exact hy.1.1.2
  have hfix := canonFile_norm_fixed g h hg hh f0 hr hw
  have h1 : parseFile32GH g h (fmtFile (canonFile g h f0)) = some (normFile (canonFile g h f0)) := by
    simp only [parseFile32GH, parseFile32_fmtFile _ hw hm, Option.map_some, hfix]
  refine ⟨h1, fmtFile_norm _ hw, ?_⟩
  rw [fmtFile_norm _ hw]
  exact h1

end Martian.FormatFile
