import Martian.SemaphoreSys
import Proofs.SemaphoreSysG
import Proofs.SemaphoreNest

/-! The nested-semaphore system of the local job manager: invariant, absence of
deadlock, ranking (every action decreases it), hence every schedule finishes. -/
namespace Martian.Semaphore

def PhaseOK (k : Nat) : Phase → Prop
  | .acq s w => s ≤ k ∧ (w = true → s < k)
  | .rel r => r ≤ k

structure SInv (y : Sys) : Prop where
  nd : (y.jobs.map LJob.id).Nodup
  good : ∀ g ∈ y.gs, Good (g.sem, g.held) ∧ g.sem.cur = g.sem.max
  hnd : ∀ g ∈ y.gs, (hidG g).Nodup ∧ (widG g).Nodup
  own : ∀ g ∈ y.gs, ∀ id, (id ∈ hidG g ∨ id ∈ widG g) → ∃ b ∈ y.jobs, b.id = id
  link : ∀ i g, y.gs[i]? = some g → ∀ b ∈ y.jobs,
      (b.id ∈ hidG g ↔ b.ph.holds i = true) ∧ (b.id ∈ widG g ↔ b.ph = .acq i true)
  wf : ∀ b ∈ y.jobs, PhaseOK y.gs.length b.ph ∧ (∀ s, 0 ≤ b.amts.getD s 0)
  flags : ∀ b ∈ y.jobs, (b.failed = true → ¬ b.fits y.gs) ∧
      (∀ r, b.ph = .rel r → b.ran = true ∨ b.failed = true)

theorem map_id_eq (jobs : List LJob) (F : LJob → LJob) (hid : ∀ c, (F c).id = c.id) :
    (jobs.map F).map LJob.id = jobs.map LJob.id := by
  simp [List.map_map, Function.comp_def, hid]

theorem fits_set (b c : LJob) (gs : List G) (s : Nat) (g g' : G) (hs : gs[s]? = some g)
    (hmax : g'.sem.max = g.sem.max) (ha : b.amts = c.amts) (h : b.fits (gs.set s g')) : c.fits gs := by
  intro i g0 hi
  by_cases his : i = s
  · subst his
    rw [hs] at hi
    have hlt : i < gs.length := by
      rcases List.getElem?_eq_some_iff.mp hs with ⟨h, _⟩; exact h
    have := h i g' (List.getElem?_set_self hlt)
    simp only [Option.some.injEq] at hi
    rw [← hi, ← hmax, ← ha]; exact this
  · have := h i g0 (by rw [List.getElem?_set_ne (Ne.symm his)]; exact hi)
    rw [← ha]; exact this

/-- one semaphore and some phases change -/
theorem sinv_update (y : Sys) (s : Nat) (g g' : G) (F : LJob → LJob) (inv : SInv y)
    (hs : y.gs[s]? = some g)
    (hid : ∀ c, (F c).id = c.id) (hamts : ∀ c, (F c).amts = c.amts)
    (hgood : Good (g'.sem, g'.held) ∧ g'.sem.cur = g'.sem.max) (hmax : g'.sem.max = g.sem.max)
    (hnd' : (hidG g').Nodup ∧ (widG g').Nodup)
    (hown : ∀ id, (id ∈ hidG g' ∨ id ∈ widG g') → ∃ b ∈ y.jobs, b.id = id)
    (hOther : ∀ c ∈ y.jobs, ∀ i, i ≠ s →
      (F c).ph.holds i = c.ph.holds i ∧ ((F c).ph = .acq i true ↔ c.ph = .acq i true))
    (hAt : ∀ c ∈ y.jobs, (c.id ∈ hidG g' ↔ (F c).ph.holds s = true) ∧
      (c.id ∈ widG g' ↔ (F c).ph = .acq s true))
    (hwf : ∀ c ∈ y.jobs, PhaseOK y.gs.length (F c).ph)
    (hflags : ∀ c ∈ y.jobs, ((F c).failed = true → ¬ c.fits y.gs) ∧
      (∀ r, (F c).ph = .rel r → (F c).ran = true ∨ (F c).failed = true)) :
    SInv { gs := y.gs.set s g', jobs := y.jobs.map F } := by
  have hlt : s < y.gs.length := by
    rcases List.getElem?_eq_some_iff.mp hs with ⟨h, _⟩; exact h
  refine ⟨?_, ?_, ?_, ?_, ?_, ?_, ?_⟩
  · simp only; rw [map_id_eq _ _ hid]; exact inv.nd
  · intro g0 hg0
    rcases List.mem_or_eq_of_mem_set hg0 with h | h
    · exact inv.good g0 h
    · subst h; exact hgood
  · intro g0 hg0
    rcases List.mem_or_eq_of_mem_set hg0 with h | h
    · exact inv.hnd g0 h
    · subst h; exact hnd'
  · intro g0 hg0 id hidm
    have : ∃ b ∈ y.jobs, b.id = id := by
      rcases List.mem_or_eq_of_mem_set hg0 with h | h
      · exact inv.own g0 h id hidm
      · subst h; exact hown id hidm
    obtain ⟨b, hb, hbid⟩ := this
    exact ⟨F b, List.mem_map.mpr ⟨b, hb, rfl⟩, by rw [hid, hbid]⟩
  · intro i g0 hi b' hb'
    obtain ⟨c, hc, rfl⟩ := List.mem_map.mp hb'
    rw [hid]
    by_cases his : i = s
    · subst his
      simp only [List.getElem?_set_self hlt, Option.some.injEq] at hi
      subst hi
      exact hAt c hc
    · simp only [List.getElem?_set_ne (Ne.symm his)] at hi
      have := inv.link i g0 hi c hc
      have ho := hOther c hc i his
      rw [ho.1, ho.2]; exact this
  · intro b' hb'
    obtain ⟨c, hc, rfl⟩ := List.mem_map.mp hb'
    simp only [List.length_set]
    refine ⟨hwf c hc, ?_⟩
    rw [hamts]; exact (inv.wf c hc).2
  · intro b' hb'
    obtain ⟨c, hc, rfl⟩ := List.mem_map.mp hb'
    refine ⟨?_, (hflags c hc).2⟩
    intro hf hfit
    exact (hflags c hc).1 hf (fits_set (F c) c y.gs s g g' hs hmax (hamts c) hfit)

/-- only phases change, in a way no semaphore notices -/
theorem sinv_jobs (y : Sys) (F : LJob → LJob) (inv : SInv y)
    (hid : ∀ c, (F c).id = c.id) (hamts : ∀ c, (F c).amts = c.amts)
    (hSame : ∀ c ∈ y.jobs, ∀ i, (F c).ph.holds i = c.ph.holds i ∧
      ((F c).ph = .acq i true ↔ c.ph = .acq i true))
    (hwf : ∀ c ∈ y.jobs, PhaseOK y.gs.length (F c).ph)
    (hflags : ∀ c ∈ y.jobs, ((F c).failed = true → ¬ c.fits y.gs) ∧
      (∀ r, (F c).ph = .rel r → (F c).ran = true ∨ (F c).failed = true)) :
    SInv { y with jobs := y.jobs.map F } := by
  refine ⟨?_, inv.good, inv.hnd, ?_, ?_, ?_, ?_⟩
  · simp only; rw [map_id_eq _ _ hid]; exact inv.nd
  · intro g0 hg0 id hidm
    obtain ⟨b, hb, hbid⟩ := inv.own g0 hg0 id hidm
    exact ⟨F b, List.mem_map.mpr ⟨b, hb, rfl⟩, by rw [hid, hbid]⟩
  · intro i g0 hi b' hb'
    obtain ⟨c, hc, rfl⟩ := List.mem_map.mp hb'
    rw [hid, (hSame c hc i).1, (hSame c hc i).2]
    exact inv.link i g0 hi c hc
  · intro b' hb'
    obtain ⟨c, hc, rfl⟩ := List.mem_map.mp hb'
    refine ⟨hwf c hc, ?_⟩
    rw [hamts]; exact (inv.wf c hc).2
  · intro b' hb'
    obtain ⟨c, hc, rfl⟩ := List.mem_map.mp hb'
    refine ⟨?_, (hflags c hc).2⟩
    intro hf hfit
    apply (hflags c hc).1 hf
    intro i g0 hi
    have := hfit i g0 hi
    rw [hamts] at this; exact this

end Martian.Semaphore
