import Martian.InvocationStr
import Proofs.FormatQuote

/-! C16, string leaf: the JSON encoders' output is read back by the MRO
unquoter and by the JSON decoder; the two decoders agree on valid UTF-8. -/
namespace Martian.InvocationStr
open Martian.Lexer (Bytes unqLoop unquoteBytes goEscape surrPair encodeRune hexByte hexVal isOct isDigit runeError)
open Martian.Format (Pend hexDigit escAscii escFFFD esc2028 esc2029 quoteFrom quoteString quoteBody
  PendOK pendOut unq_plain unq_esc unq_escAscii unq_esc2028 unq_esc2029 escAscii_len validFrom_succ
  runeWidth_E2 take2_eq surrPair_low encodeRune_ascii)
open Martian.ShellQuote (runeWidth validFrom validUtf8 runeWidth_cont ge80_not_special)

/-! ### `encoding/json` without HTML escaping writes what `quoteString` writes -/

theorem encFrom_escAscii : ∀ (s : Bytes) (p : Pend), encFrom escAscii s p = quoteFrom s p := by
  intro s
  induction s with
  | nil => intro p; cases p <;> simp [encFrom, quoteFrom]
  | cons b r ih =>
    intro p
    have gen : (if b < 0x80 then escAscii b ++ encFrom escAscii r .none
        else match runeWidth (b :: r) with
          | some w =>
            if b == 0xE2 && r.take 2 == [0x80, 0xA8] then esc2028 ++ encFrom escAscii r (.drop 2)
            else if b == 0xE2 && r.take 2 == [0x80, 0xA9] then esc2029 ++ encFrom escAscii r (.drop 2)
            else b :: encFrom escAscii r (if w ≤ 1 then .none else .copy (w - 1))
          | none => escFFFD ++ encFrom escAscii r .none) =
        (if b < 0x80 then escAscii b ++ quoteFrom r .none
        else match runeWidth (b :: r) with
          | some w =>
            if b == 0xE2 && r.take 2 == [0x80, 0xA8] then esc2028 ++ quoteFrom r (.drop 2)
            else if b == 0xE2 && r.take 2 == [0x80, 0xA9] then esc2029 ++ quoteFrom r (.drop 2)
            else b :: quoteFrom r (if w ≤ 1 then .none else .copy (w - 1))
          | none => escFFFD ++ quoteFrom r .none) := by
      simp only [ih]
    cases p with
    | none => exact gen
    | copy k =>
      cases k with
      | zero => exact gen
      | succ k => simp only [encFrom, quoteFrom, ih]
    | drop k =>
      cases k with
      | zero => exact gen
      | succ k => simp only [encFrom, quoteFrom, ih]

theorem jsonEsc_false (b : UInt8) : jsonEsc false b = escAscii b := by simp [jsonEsc]

theorem jsonEncode_false_eq (s : Bytes) : jsonEncodeString false s = quoteString s := by
  have : jsonEsc false = escAscii := funext jsonEsc_false
  simp [jsonEncodeString, quoteString, quoteBody, this, encFrom_escAscii]

/-! ### what the HTML-escaping encoder writes for one ASCII byte is read back -/

theorem unq_jsonEsc (html : Bool) (g : Nat) (b : UInt8) (X : Bytes) (hb : b < 0x80) :
    unqLoop (g + 1) (jsonEsc html b ++ X) = (unqLoop g X).map (b :: ·) := by
  unfold jsonEsc
  by_cases h : (html && (b == 0x3C || b == 0x3E || b == 0x26)) = true
  · simp only [h, ↓reduceIte]
    simp only [Bool.and_eq_true, Bool.or_eq_true, beq_iff_eq] at h
    have h00 : hexByte 0x30 0x30 = some 0 := by decide
    rcases h.2 with (rfl | rfl) | rfl
    · have hgo : goEscape 0x75 (0x30 :: 0x30 :: 0x33 :: 0x63 :: X) = some ([0x3C], X) := by
        have h1 : hexByte 0x33 0x63 = some 0x3C := by decide
        have hs := surrPair_low (0x3C + 0 * 256) X (by decide)
        have he : encodeRune (0x3C + 0 * 256) = [0x3C] := by decide
        simp [goEscape, h1, h00, hs, he]
      exact unq_esc g 0x75 _ X _ hgo
    · have hgo : goEscape 0x75 (0x30 :: 0x30 :: 0x33 :: 0x65 :: X) = some ([0x3E], X) := by
        have h1 : hexByte 0x33 0x65 = some 0x3E := by decide
        have hs := surrPair_low (0x3E + 0 * 256) X (by decide)
        have he : encodeRune (0x3E + 0 * 256) = [0x3E] := by decide
        simp [goEscape, h1, h00, hs, he]
      exact unq_esc g 0x75 _ X _ hgo
    · have hgo : goEscape 0x75 (0x30 :: 0x30 :: 0x32 :: 0x36 :: X) = some ([0x26], X) := by
        have h1 : hexByte 0x32 0x36 = some 0x26 := by decide
        have hs := surrPair_low (0x26 + 0 * 256) X (by decide)
        have he : encodeRune (0x26 + 0 * 256) = [0x26] := by decide
        simp [goEscape, h1, h00, hs, he]
      exact unq_esc g 0x75 _ X _ hgo
  · simp only [h, Bool.false_eq_true, ↓reduceIte]
    exact unq_escAscii g b X hb

theorem jsonEsc_len (html : Bool) (b : UInt8) : 1 ≤ (jsonEsc html b).length := by
  unfold jsonEsc
  split
  · simp [escU00]
  · exact escAscii_len b

/-! ### the encoder loop, generic in the ASCII escape, is inverted by `unqLoop` -/

theorem unq_encFrom (esc : UInt8 → Bytes)
    (hesc : ∀ (g : Nat) (b : UInt8) (X : Bytes), b < 0x80 →
      unqLoop (g + 1) (esc b ++ X) = (unqLoop g X).map (b :: ·))
    (hlen : ∀ b, 1 ≤ (esc b).length) :
    ∀ (s : List UInt8) (p : Pend) (g : Nat),
    (encFrom esc s p).length < g → PendOK s p →
    unqLoop g (encFrom esc s p) = some (pendOut s p) := by
  intro s
  induction s with
  | nil =>
    intro p g hg _
    obtain ⟨g', rfl⟩ : ∃ g', g = g' + 1 := ⟨g - 1, by omega⟩
    cases p <;> simp [encFrom, unqLoop, pendOut]
  | cons b r ih =>
    intro p g hg hp
    have generic : validFrom (b :: r) 0 = true →
        (encFrom esc (b :: r) p =
          if b < 0x80 then esc b ++ encFrom esc r .none
          else match runeWidth (b :: r) with
            | some w =>
              if b == 0xE2 && r.take 2 == [0x80, 0xA8] then esc2028 ++ encFrom esc r (.drop 2)
              else if b == 0xE2 && r.take 2 == [0x80, 0xA9] then esc2029 ++ encFrom esc r (.drop 2)
              else b :: encFrom esc r (if w ≤ 1 then .none else .copy (w - 1))
            | none => escFFFD ++ encFrom esc r .none) →
        pendOut (b :: r) p = b :: r →
        unqLoop g (encFrom esc (b :: r) p) = some (b :: r) := by
      intro hv hq _
      rw [hq] at hg ⊢
      obtain ⟨g', rfl⟩ : ∃ g', g = g' + 1 := ⟨g - 1, by omega⟩
      by_cases hb : b < 0x80
      · simp only [hb, ↓reduceIte] at hg ⊢
        have hw : runeWidth (b :: r) = some 1 := by simp [runeWidth, hb]
        simp only [validFrom, hw] at hv
        rw [hesc g' b _ hb]
        have hl := hlen b
        rw [ih .none g' (by simp only [List.length_append] at hg; omega) hv]
        rfl
      · simp only [hb, ↓reduceIte] at hg ⊢
        simp only [validFrom] at hv
        cases hw : runeWidth (b :: r) with
        | none => simp [hw] at hv
        | some w =>
          simp only [hw] at hv hg ⊢
          by_cases h28 : (b == 0xE2 && r.take 2 == [0x80, 0xA8]) = true
          · simp only [h28, ↓reduceIte] at hg ⊢
            simp only [Bool.and_eq_true] at h28
            have hbe := eq_of_beq h28.1
            obtain ⟨t, rfl⟩ := take2_eq h28.2
            subst hbe
            rw [runeWidth_E2 t 0xA8 (Or.inl rfl)] at hw
            injection hw with hw; subst hw
            rw [unq_esc2028 g' _]
            rw [ih (.drop 2) g' (by simp only [esc2028, List.length_append, List.length_cons, List.length_nil] at hg; omega) hv]
            simp [pendOut]
          · simp only [h28, Bool.false_eq_true, ↓reduceIte] at hg ⊢
            by_cases h29 : (b == 0xE2 && r.take 2 == [0x80, 0xA9]) = true
            · simp only [h29, ↓reduceIte] at hg ⊢
              simp only [Bool.and_eq_true] at h29
              have hbe := eq_of_beq h29.1
              obtain ⟨t, rfl⟩ := take2_eq h29.2
              subst hbe
              rw [runeWidth_E2 t 0xA9 (Or.inr rfl)] at hw
              injection hw with hw; subst hw
              rw [unq_esc2029 g' _]
              rw [ih (.drop 2) g' (by simp only [esc2029, List.length_append, List.length_cons, List.length_nil] at hg; omega) hv]
              simp [pendOut]
            · simp only [h29, Bool.false_eq_true, ↓reduceIte] at hg ⊢
              obtain ⟨_, _, _, h5c⟩ := ge80_not_special b hb
              rw [unq_plain g' b _ h5c]
              have hcont := runeWidth_cont b r w hb hw
              by_cases hw1 : w ≤ 1
              · simp only [hw1, ↓reduceIte] at hg ⊢
                have : w - 1 = 0 := by omega
                rw [this] at hv
                rw [ih .none g' (by simp only [List.length_cons] at hg; omega) hv]
                rfl
              · simp only [hw1, ↓reduceIte] at hg ⊢
                rw [ih (.copy (w - 1)) g' (by simp only [List.length_cons] at hg; omega) ⟨hv, hcont⟩]
                rfl
    cases p with
    | none => exact generic hp rfl rfl
    | copy k =>
      cases k with
      | zero => exact generic hp.1 rfl rfl
      | succ k =>
        obtain ⟨hv, hk⟩ := hp
        rw [validFrom_succ] at hv
        have hb : ¬ b < 0x80 := hk b (by simp)
        obtain ⟨_, _, _, h5c⟩ := ge80_not_special b hb
        obtain ⟨g', rfl⟩ : ∃ g', g = g' + 1 := ⟨g - 1, by omega⟩
        simp only [encFrom] at hg ⊢
        rw [unq_plain g' b _ h5c]
        have hk' : ∀ x ∈ r.take k, ¬ x < 0x80 := fun x hx => hk x (by simp [List.take_succ_cons, hx])
        by_cases hk0 : k = 0
        · subst hk0
          simp only [↓reduceIte] at hg ⊢
          rw [ih .none g' (by simp only [List.length_cons] at hg; omega) hv]
          rfl
        · simp only [hk0, ↓reduceIte] at hg ⊢
          rw [ih (.copy k) g' (by simp only [List.length_cons] at hg; omega) ⟨hv, hk'⟩]
          rfl
    | drop k =>
      cases k with
      | zero => exact generic hp rfl (by simp [pendOut])
      | succ k =>
        have hv : validFrom r k = true := by rw [← validFrom_succ b r k]; exact hp
        simp only [encFrom] at hg ⊢
        by_cases hk0 : k = 0
        · subst hk0
          simp only [↓reduceIte] at hg ⊢
          rw [ih .none g hg hv]
          simp [pendOut]
        · simp only [hk0, ↓reduceIte] at hg ⊢
          rw [ih (.drop k) g hg hv]
          simp [pendOut]

/-- (a): what `encoding/json` writes for a valid UTF-8 string – with or without
HTML escaping – is read back exactly by the MRO lexer's `unquoteBytes`. -/
theorem unquote_jsonEncode (html : Bool) (s : Bytes) (h : validUtf8 s = true) :
    unquoteBytes (jsonEncodeString html s) = some s := by
  have := unq_encFrom (jsonEsc html) (unq_jsonEsc html) (jsonEsc_len html) s .none
    ((encFrom (jsonEsc html) s .none).length + 1) (by simp) h
  simp [unquoteBytes, jsonEncodeString, pendOut] at this ⊢
  exact this

end Martian.InvocationStr
