import Martian.InvocationStr
import Proofs.FormatQuote

/-! C16, string leaf: the JSON encoders' output is read back by the MRO
unquoter and by the JSON decoder; the two decoders agree on valid UTF-8. -/
namespace Martian.InvocationStr
open Martian.Lexer (Bytes unqLoop unquoteBytes goEscape surrPair encodeRune hexByte hexVal isOct isDigit runeError)
open Martian.Format (Pend hexDigit escAscii escFFFD esc2028 esc2029 quoteFrom quoteString quoteBody
  PendOK pendOut unq_plain unq_esc unq_escAscii unq_esc2028 unq_esc2029 escAscii_len validFrom_succ
  runeWidth_E2 take2_eq surrPair_low encodeRune_ascii)
open Martian.ShellQuote (runeWidth validFrom validUtf8 runeWidth_cont ge80_not_special)

/-! ### `encoding/json` without HTML escaping writes what `quoteString` writes -/

theorem encFrom_escAscii : ∀ (s : Bytes) (p : Pend), encFrom escAscii s p = quoteFrom s p := by
  intro s
  induction s with
  | nil => intro p; cases p <;> simp [encFrom, quoteFrom]
  | cons b r ih =>
    intro p
    have gen : (if b < 0x80 then escAscii b ++ encFrom escAscii r .none
        else match runeWidth (b :: r) with
          | some w =>
            if b == 0xE2 && r.take 2 == [0x80, 0xA8] then esc2028 ++ encFrom escAscii r (.drop 2)
            else if b == 0xE2 && r.take 2 == [0x80, 0xA9] then esc2029 ++ encFrom escAscii r (.drop 2)
            else b :: encFrom escAscii r (if w ≤ 1 then .none else .copy (w - 1))
          | none => escFFFD ++ encFrom escAscii r .none) =
        (if b < 0x80 then escAscii b ++ quoteFrom r .none
        else match runeWidth (b :: r) with
          | some w =>
            if b == 0xE2 && r.take 2 == [0x80, 0xA8] then esc2028 ++ quoteFrom r (.drop 2)
            else if b == 0xE2 && r.take 2 == [0x80, 0xA9] then esc2029 ++ quoteFrom r (.drop 2)
            else b :: quoteFrom r (if w ≤ 1 then .none else .copy (w - 1))
          | none => escFFFD ++ quoteFrom r .none) := by
      simp only [ih]
    cases p with
    | none => exact gen
    | copy k =>
      cases k with
      | zero => exact gen
      | succ k => simp only [encFrom, quoteFrom, ih]
    | drop k =>
      cases k with
      | zero => exact gen
      | succ k => simp only [encFrom, quoteFrom, ih]

theorem jsonEsc_false (b : UInt8) : jsonEsc false b = escAscii b := by simp [jsonEsc]

theorem jsonEncode_false_eq (s : Bytes) : jsonEncodeString false s = quoteString s := by
  have : jsonEsc false = escAscii := funext jsonEsc_false
  simp [jsonEncodeString, quoteString, quoteBody, this, encFrom_escAscii]

/-! ### what the HTML-escaping encoder writes for one ASCII byte is read back -/

theorem unq_jsonEsc (html : Bool) (g : Nat) (b : UInt8) (X : Bytes) (hb : b < 0x80) :
    unqLoop (g + 1) (jsonEsc html b ++ X) = (unqLoop g X).map (b :: ·) := by
  unfold jsonEsc
  by_cases h : (html && (b == 0x3C || b == 0x3E || b == 0x26)) = true
  · simp only [h, ↓reduceIte]
    simp only [Bool.and_eq_true, Bool.or_eq_true, beq_iff_eq] at h
    have h00 : hexByte 0x30 0x30 = some 0 := by decide
    rcases h.2 with (rfl | rfl) | rfl
    · have hgo : goEscape 0x75 (0x30 :: 0x30 :: 0x33 :: 0x63 :: X) = some ([0x3C], X) := by
        have h1 : hexByte 0x33 0x63 = some 0x3C := by decide
        have hs := surrPair_low (0x3C + 0 * 256) X (by decide)
        have he : encodeRune (0x3C + 0 * 256) = [0x3C] := by decide
        simp [goEscape, h1, h00, hs, he]
      exact unq_esc g 0x75 _ X _ hgo
    · have hgo : goEscape 0x75 (0x30 :: 0x30 :: 0x33 :: 0x65 :: X) = some ([0x3E], X) := by
        have h1 : hexByte 0x33 0x65 = some 0x3E := by decide
        have hs := surrPair_low (0x3E + 0 * 256) X (by decide)
        have he : encodeRune (0x3E + 0 * 256) = [0x3E] := by decide
        simp [goEscape, h1, h00, hs, he]
      exact unq_esc g 0x75 _ X _ hgo
    · have hgo : goEscape 0x75 (0x30 :: 0x30 :: 0x32 :: 0x36 :: X) = some ([0x26], X) := by
        have h1 : hexByte 0x32 0x36 = some 0x26 := by decide
        have hs := surrPair_low (0x26 + 0 * 256) X (by decide)
        have he : encodeRune (0x26 + 0 * 256) = [0x26] := by decide
        simp [goEscape, h1, h00, hs, he]
      exact unq_esc g 0x75 _ X _ hgo
  · simp only [h, Bool.false_eq_true, ↓reduceIte]
    exact unq_escAscii g b X hb

theorem jsonEsc_len (html : Bool) (b : UInt8) : 1 ≤ (jsonEsc html b).length := by
  unfold jsonEsc
  split
  · simp [escU00]
  · exact escAscii_len b

/-! ### the encoder loop, generic in the ASCII escape, is inverted by `unqLoop` -/

theorem unq_encFrom (esc : UInt8 → Bytes)
    (hesc : ∀ (g : Nat) (b : UInt8) (X : Bytes), b < 0x80 →
      unqLoop (g + 1) (esc b ++ X) = (unqLoop g X).map (b :: ·))
    (hlen : ∀ b, 1 ≤ (esc b).length) :
    ∀ (s : List UInt8) (p : Pend) (g : Nat),
    (encFrom esc s p).length < g → PendOK s p →
    unqLoop g (encFrom esc s p) = some (pendOut s p) := by
  intro s
  induction s with
  | nil =>
    intro p g hg _
    obtain ⟨g', rfl⟩ : ∃ g', g = g' + 1 := ⟨g - 1, by omega⟩
    cases p <;> simp [encFrom, unqLoop, pendOut]
  | cons b r ih =>
    intro p g hg hp
    have generic : validFrom (b :: r) 0 = true →
        (encFrom esc (b :: r) p =
          if b < 0x80 then esc b ++ encFrom esc r .none
          else match runeWidth (b :: r) with
            | some w =>
              if b == 0xE2 && r.take 2 == [0x80, 0xA8] then esc2028 ++ encFrom esc r (.drop 2)
              else if b == 0xE2 && r.take 2 == [0x80, 0xA9] then esc2029 ++ encFrom esc r (.drop 2)
              else b :: encFrom esc r (if w ≤ 1 then .none else .copy (w - 1))
            | none => escFFFD ++ encFrom esc r .none) →
        pendOut (b :: r) p = b :: r →
        unqLoop g (encFrom esc (b :: r) p) = some (b :: r) := by
      intro hv hq _
      rw [hq] at hg ⊢
      obtain ⟨g', rfl⟩ : ∃ g', g = g' + 1 := ⟨g - 1, by omega⟩
      by_cases hb : b < 0x80
      · simp only [hb, ↓reduceIte] at hg ⊢
        have hw : runeWidth (b :: r) = some 1 := by simp [runeWidth, hb]
        simp only [validFrom, hw] at hv
        rw [hesc g' b _ hb]
        have hl := hlen b
        rw [ih .none g' (by simp only [List.length_append] at hg; omega) hv]
        rfl
      · simp only [hb, ↓reduceIte] at hg ⊢
        simp only [validFrom] at hv
        cases hw : runeWidth (b :: r) with
        | none => simp [hw] at hv
        | some w =>
          simp only [hw] at hv hg ⊢
          by_cases h28 : (b == 0xE2 && r.take 2 == [0x80, 0xA8]) = true
          · simp only [h28, ↓reduceIte] at hg ⊢
            simp only [Bool.and_eq_true] at h28
            have hbe := eq_of_beq h28.1
            obtain ⟨t, rfl⟩ := take2_eq h28.2
            subst hbe
            rw [runeWidth_E2 t 0xA8 (Or.inl rfl)] at hw
            injection hw with hw; subst hw
            rw [unq_esc2028 g' _]
            rw [ih (.drop 2) g' (by simp only [esc2028, List.length_append, List.length_cons, List.length_nil] at hg; omega) hv]
            simp [pendOut]
          · simp only [h28, Bool.false_eq_true, ↓reduceIte] at hg ⊢
            by_cases h29 : (b == 0xE2 && r.take 2 == [0x80, 0xA9]) = true
            · simp only [h29, ↓reduceIte] at hg ⊢
              simp only [Bool.and_eq_true] at h29
              have hbe := eq_of_beq h29.1
              obtain ⟨t, rfl⟩ := take2_eq h29.2
              subst hbe
              rw [runeWidth_E2 t 0xA9 (Or.inr rfl)] at hw
              injection hw with hw; subst hw
              rw [unq_esc2029 g' _]
              rw [ih (.drop 2) g' (by simp only [esc2029, List.length_append, List.length_cons, List.length_nil] at hg; omega) hv]
              simp [pendOut]
            · simp only [h29, Bool.false_eq_true, ↓reduceIte] at hg ⊢
              obtain ⟨_, _, _, h5c⟩ := ge80_not_special b hb
              rw [unq_plain g' b _ h5c]
              have hcont := runeWidth_cont b r w hb hw
              by_cases hw1 : w ≤ 1
              · simp only [hw1, ↓reduceIte] at hg ⊢
                have : w - 1 = 0 := by omega
                rw [this] at hv
                rw [ih .none g' (by simp only [List.length_cons] at hg; omega) hv]
                rfl
              · simp only [hw1, ↓reduceIte] at hg ⊢
                rw [ih (.copy (w - 1)) g' (by simp only [List.length_cons] at hg; omega) ⟨hv, hcont⟩]
                rfl
    cases p with
    | none => exact generic hp rfl rfl
    | copy k =>
      cases k with
      | zero => exact generic hp.1 rfl rfl
      | succ k =>
        obtain ⟨hv, hk⟩ := hp
        rw [validFrom_succ] at hv
        have hb : ¬ b < 0x80 := hk b (by simp)
        obtain ⟨_, _, _, h5c⟩ := ge80_not_special b hb
        obtain ⟨g', rfl⟩ : ∃ g', g = g' + 1 := ⟨g - 1, by omega⟩
        simp only [encFrom] at hg ⊢
        rw [unq_plain g' b _ h5c]
        have hk' : ∀ x ∈ r.take k, ¬ x < 0x80 := fun x hx => hk x (by simp [List.take_succ_cons, hx])
        by_cases hk0 : k = 0
        · subst hk0
          simp only [↓reduceIte] at hg ⊢
          rw [ih .none g' (by simp only [List.length_cons] at hg; omega) hv]
          rfl
        · simp only [hk0, ↓reduceIte] at hg ⊢
          rw [ih (.copy k) g' (by simp only [List.length_cons] at hg; omega) ⟨hv, hk'⟩]
          rfl
    | drop k =>
      cases k with
      | zero => exact generic hp rfl (by simp [pendOut])
      | succ k =>
        have hv : validFrom r k = true := by rw [← validFrom_succ b r k]; exact hp
        simp only [encFrom] at hg ⊢
        by_cases hk0 : k = 0
        · subst hk0
          simp only [↓reduceIte] at hg ⊢
          rw [ih .none g hg hv]
          simp [pendOut]
        · simp only [hk0, ↓reduceIte] at hg ⊢
          rw [ih (.drop k) g hg hv]
          simp [pendOut]

/-- (a): what `encoding/json` writes for a valid UTF-8 string – with or without
HTML escaping – is read back exactly by the MRO lexer's `unquoteBytes`. -/
theorem unquote_jsonEncode (html : Bool) (s : Bytes) (h : validUtf8 s = true) :
    unquoteBytes (jsonEncodeString html s) = some s := by
  have := unq_encFrom (jsonEsc html) (unq_jsonEsc html) (jsonEsc_len html) s .none
    ((encFrom (jsonEsc html) s .none).length + 1) (by simp) h
  simp [unquoteBytes, jsonEncodeString, pendOut] at this ⊢
  exact this

end Martian.InvocationStr

/-! ### the JSON decoder and the MRO unquoter agree on valid UTF-8 tokens -/
namespace Martian.InvocationStr
open Martian.Lexer (Bytes unqLoop unquoteBytes goEscape surrPair encodeRune hexByte hexVal isOct isDigit runeError)
open Martian.Format (unq_plain unq_esc validFrom_succ)
open Martian.ShellQuote (runeWidth validFrom validUtf8 runeWidth_cont ge80_not_special)

theorem encodeRune_surr (r : Nat) (h1 : 0xD800 ≤ r) (h2 : r < 0xE000) : encodeRune r = runeError := by
  have a : ¬ r < 0x80 := by omega
  have b : ¬ r < 0x800 := by omega
  have c : (0xD800 ≤ r ∧ r ≤ 0xDFFF) := ⟨h1, by omega⟩
  simp [encodeRune, a, b, c]

theorem jsonSurr_eq (r : Nat) (rest : Bytes) (h1 : 0xD800 ≤ r) (h2 : r < 0xE000) :
    jsonSurr r rest = surrPair r rest := by
  have he := encodeRune_surr r h1 h2
  have hc : (decide (0xD800 ≤ r) && decide (r < 0xE000)) = true := by simp [h1, h2]
  unfold jsonSurr surrPair
  simp only [hc, ↓reduceIte, he]
  rcases rest with _ | ⟨c, _ | ⟨d, _ | ⟨g0, _ | ⟨g1, _ | ⟨g2, _ | ⟨g3, rest2⟩⟩⟩⟩⟩⟩ <;> rfl

theorem jsonEscape_go (c2 : UInt8) (v out rest : Bytes) (h : jsonEscape c2 v = some (out, rest)) :
    goEscape c2 v = some (out, rest) := by
  unfold jsonEscape at h
  split at h
  · rename_i hc
    simp only [Bool.or_eq_true, beq_iff_eq] at hc
    rcases hc with (rfl | rfl) | rfl <;> (rw [← h]; simp [goEscape, isOct])
  · split at h
    · rename_i hc; have := eq_of_beq hc; subst this; rw [← h]; simp [goEscape]
    · split at h
      · rename_i hc; have := eq_of_beq hc; subst this; rw [← h]; simp [goEscape]
      · split at h
        · rename_i hc; have := eq_of_beq hc; subst this; rw [← h]; simp [goEscape]
        · split at h
          · rename_i hc; have := eq_of_beq hc; subst this; rw [← h]; simp [goEscape]
          · split at h
            · rename_i hc; have := eq_of_beq hc; subst this; rw [← h]; simp [goEscape]
            · split at h
              · rename_i hc; have := eq_of_beq hc; subst this
                rcases v with _ | ⟨h0, _ | ⟨h1, _ | ⟨h2, _ | ⟨h3, rest'⟩⟩⟩⟩ <;>
                  simp only [getu4] at h <;> try cases h
                cases hlo : hexByte h2 h3 with
                | none => simp [hlo] at h
                | some lo =>
                  cases hhi : hexByte h0 h1 with
                  | none => simp [hlo, hhi] at h
                  | some hi =>
                    simp only [hlo, hhi] at h
                    have hgo : goEscape 0x75 (h0 :: h1 :: h2 :: h3 :: rest') = surrPair (lo + hi * 256) rest' := by
                      simp [goEscape, hlo, hhi]
                    rw [hgo]
                    by_cases hs : (decide (0xD800 ≤ lo + hi * 256) && decide (lo + hi * 256 < 0xE000)) = true
                    · simp only [hs, ↓reduceIte] at h
                      simp only [Bool.and_eq_true, decide_eq_true_eq] at hs
                      rw [← jsonSurr_eq _ _ hs.1 hs.2]; exact h
                    · simp only [hs, Bool.false_eq_true, ↓reduceIte] at h
                      rw [← h]; unfold surrPair; simp only [hs, Bool.false_eq_true, ↓reduceIte]
              · cases h


theorem hexVal_ascii (c : UInt8) (n : Nat) (h : hexVal c = some n) : c < 0x80 := by
  unfold hexVal isDigit at h
  rw [UInt8.lt_iff_toNat_lt]
  split at h
  · rename_i hc
    simp only [Bool.and_eq_true, decide_eq_true_eq, UInt8.le_iff_toNat_le] at hc
    have := hc.2; simp at this ⊢; omega
  · split at h
    · rename_i hc
      simp only [Bool.and_eq_true, decide_eq_true_eq, UInt8.le_iff_toNat_le] at hc
      have := hc.2; simp at this ⊢; omega
    · split at h
      · rename_i hc
        simp only [Bool.and_eq_true, decide_eq_true_eq, UInt8.le_iff_toNat_le] at hc
        have := hc.2; simp at this ⊢; omega
      · cases h

theorem hexByte_ascii (a b : UInt8) (n : Nat) (h : hexByte a b = some n) : a < 0x80 ∧ b < 0x80 := by
  unfold hexByte at h
  cases ha : hexVal a with
  | none => simp [ha] at h
  | some x =>
    cases hb : hexVal b with
    | none => simp [ha, hb] at h
    | some y => exact ⟨hexVal_ascii a x ha, hexVal_ascii b y hb⟩

theorem validFrom_ascii (b : UInt8) (r : Bytes) (hb : b < 0x80) :
    validFrom (b :: r) 0 = validFrom r 0 := by
  simp [validFrom, runeWidth, hb]

theorem jsonSurr_valid (r : Nat) (v out rest : Bytes) (h : jsonSurr r v = some (out, rest)) :
    validFrom v 0 = validFrom rest 0 := by
  unfold jsonSurr at h
  split at h
  · rename_i c d g0 g1 g2 g3 rest2
    split at h
    · rename_i hcd
      simp only [Bool.and_eq_true, beq_iff_eq] at hcd
      obtain ⟨rfl, rfl⟩ := hcd
      split at h
      · rename_i lo2 hi2 hlo hhi
        have a1 := hexByte_ascii _ _ _ hlo
        have a2 := hexByte_ascii _ _ _ hhi
        dsimp only at h
        split at h
        · simp only [Option.some.injEq, Prod.mk.injEq] at h; obtain ⟨_, rfl⟩ := h
          rw [validFrom_ascii 0x5C _ (by decide), validFrom_ascii 0x75 _ (by decide),
            validFrom_ascii _ _ a2.1, validFrom_ascii _ _ a2.2,
            validFrom_ascii _ _ a1.1, validFrom_ascii _ _ a1.2]
        · simp only [Option.some.injEq, Prod.mk.injEq] at h; obtain ⟨_, rfl⟩ := h; rfl
      · cases h
    · simp only [Option.some.injEq, Prod.mk.injEq] at h; obtain ⟨_, rfl⟩ := h; rfl
  · simp only [Option.some.injEq, Prod.mk.injEq] at h; obtain ⟨_, rfl⟩ := h; rfl

theorem jsonEscape_cases (c2 : UInt8) (v out rest : Bytes) (h : jsonEscape c2 v = some (out, rest)) :
    c2 < 0x80 ∧ (rest = v ∨ ∃ r rest', getu4 v = some (r, rest') ∧
      (jsonSurr r rest' = some (out, rest) ∨ rest = rest')) := by
  unfold jsonEscape at h
  split at h
  · rename_i hc
    simp only [Bool.or_eq_true, beq_iff_eq] at hc
    injection h with h; injection h with _ h
    rcases hc with (rfl | rfl) | rfl <;> exact ⟨by decide, Or.inl h.symm⟩
  · split at h
    · rename_i hc; have := eq_of_beq hc; subst this
      injection h with h; injection h with _ h; exact ⟨by decide, Or.inl h.symm⟩
    · split at h
      · rename_i hc; have := eq_of_beq hc; subst this
        injection h with h; injection h with _ h; exact ⟨by decide, Or.inl h.symm⟩
      · split at h
        · rename_i hc; have := eq_of_beq hc; subst this
          injection h with h; injection h with _ h; exact ⟨by decide, Or.inl h.symm⟩
        · split at h
          · rename_i hc; have := eq_of_beq hc; subst this
            injection h with h; injection h with _ h; exact ⟨by decide, Or.inl h.symm⟩
          · split at h
            · rename_i hc; have := eq_of_beq hc; subst this
              injection h with h; injection h with _ h; exact ⟨by decide, Or.inl h.symm⟩
            · split at h
              · rename_i hc; have := eq_of_beq hc; subst this
                refine ⟨by decide, Or.inr ?_⟩
                cases hg : getu4 v with
                | none => simp [hg] at h
                | some p =>
                  obtain ⟨r, rest'⟩ := p
                  simp only [hg] at h
                  refine ⟨r, rest', rfl, ?_⟩
                  split at h
                  · exact Or.inl h
                  · injection h with h; injection h with _ h; exact Or.inr h.symm
              · cases h

theorem getu4_valid (v rest : Bytes) (r : Nat) (hg : getu4 v = some (r, rest)) :
    validFrom v 0 = validFrom rest 0 := by
  rcases v with _ | ⟨h0, _ | ⟨h1, _ | ⟨h2, _ | ⟨h3, v'⟩⟩⟩⟩ <;> simp only [getu4] at hg <;> try cases hg
  cases hlo : hexByte h2 h3 with
  | none => simp [hlo] at hg
  | some lo =>
    cases hhi : hexByte h0 h1 with
    | none => simp [hlo, hhi] at hg
    | some hi =>
      simp only [hlo, hhi, Option.some.injEq, Prod.mk.injEq] at hg
      obtain ⟨_, rfl⟩ := hg
      have a1 := hexByte_ascii _ _ _ hlo
      have a2 := hexByte_ascii _ _ _ hhi
      rw [validFrom_ascii _ _ a2.1, validFrom_ascii _ _ a2.2,
          validFrom_ascii _ _ a1.1, validFrom_ascii _ _ a1.2]

theorem jsonEscape_valid (c2 : UInt8) (v out rest : Bytes) (h : jsonEscape c2 v = some (out, rest)) :
    validFrom v 0 = validFrom rest 0 := by
  obtain ⟨_, hc⟩ := jsonEscape_cases c2 v out rest h
  rcases hc with rfl | ⟨r, rest', hg, hs | rfl⟩
  · rfl
  · rw [getu4_valid v rest' r hg]; exact jsonSurr_valid _ _ _ _ hs
  · exact getu4_valid v rest r hg

/-- On a token body that is valid UTF-8 the MRO unquoter returns whatever the
JSON decoder returns. -/
theorem dec_agree : ∀ (g : Nat) (t : Bytes) (k : Nat) (s : Bytes),
    validFrom t k = true → (∀ x ∈ t.take k, ¬ x < 0x80) →
    jsonDecLoop g t k = some s → unqLoop g t = some s := by
  intro g
  induction g with
  | zero => intro t k s _ _ h; simp [jsonDecLoop] at h
  | succ f ih =>
    intro t k s hv hk h
    cases t with
    | nil => simp only [jsonDecLoop, Option.some.injEq] at h; subst h; simp [unqLoop]
    | cons c r =>
      cases k with
      | succ k =>
        simp only [jsonDecLoop, Option.map_eq_some_iff] at h
        obtain ⟨s', hs', rfl⟩ := h
        have hc : ¬ c < 0x80 := hk c (by simp)
        obtain ⟨_, _, _, h5c⟩ := ge80_not_special c hc
        rw [validFrom_succ] at hv
        rw [unq_plain f c r h5c, ih r k s' hv (fun x hx => hk x (by simp [List.take_succ_cons, hx])) hs']
        rfl
      | zero =>
        simp only [jsonDecLoop] at h
        by_cases h5c : (c == 0x5C) = true
        · simp only [h5c, ↓reduceIte] at h
          have := eq_of_beq h5c; subst this
          cases r with
          | nil => cases h
          | cons c2 r2 =>
            simp only at h
            cases he : jsonEscape c2 r2 with
            | none => simp [he] at h
            | some p =>
              obtain ⟨out, rest⟩ := p
              simp only [he, Option.map_eq_some_iff] at h
              obtain ⟨s', hs', rfl⟩ := h
              have hv2 : validFrom rest 0 = true := by
                rw [← jsonEscape_valid c2 r2 out rest he]
                rw [validFrom_ascii 0x5C _ (by decide)] at hv
                have hc2 : c2 < 0x80 := (jsonEscape_cases c2 r2 out rest he).1
                rw [validFrom_ascii _ _ hc2] at hv
                exact hv
              rw [unq_esc f c2 r2 rest out (jsonEscape_go c2 r2 out rest he),
                ih rest 0 s' hv2 (by simp) hs']
              rfl
        · have h5c' : (c == 0x5C) = false := by simpa using h5c
          simp only [h5c', Bool.false_eq_true, ↓reduceIte] at h
          split at h
          · cases h
          · split at h
            · rename_i hlt
              simp only [Option.map_eq_some_iff] at h
              obtain ⟨s', hs', rfl⟩ := h
              rw [validFrom_ascii _ _ hlt] at hv
              rw [unq_plain f c r h5c', ih r 0 s' hv (by simp) hs']
              rfl
            · rename_i hge
              simp only [validFrom] at hv
              cases hw : runeWidth (c :: r) with
              | none => simp [hw] at hv
              | some w =>
                simp only [hw, Option.map_eq_some_iff] at h hv
                obtain ⟨s', hs', rfl⟩ := h
                rw [unq_plain f c r h5c', ih r (w - 1) s' hv (runeWidth_cont c r w hge hw) hs']
                rfl

/-- Whatever writer produced the token: if it is valid UTF-8 and the JSON
decoder (`encoding/json`) reads the string `s` from it, then the MRO path
(`unquoteBytes`) reads the same `s` – every JSON escape form, surrogate pairs,
lone surrogates (U+FFFD in both), upper- and lower-case hex. -/
theorem unquote_of_jsonDecode (body s : Bytes) (hv : validUtf8 body = true)
    (h : jsonDecodeString (0x22 :: (body ++ [0x22])) = some s) :
    unquoteBytes (0x22 :: (body ++ [0x22])) = some s := by
  simp only [jsonDecodeString, List.reverse_append, List.reverse_cons, List.reverse_nil,
    List.nil_append, List.singleton_append, List.reverse_reverse, List.length_reverse] at h
  simp only [unquoteBytes, List.reverse_append, List.reverse_cons, List.reverse_nil,
    List.nil_append, List.singleton_append, List.reverse_reverse, List.length_reverse]
  exact dec_agree _ _ 0 s hv (by simp) h

end Martian.InvocationStr

/-! ### the JSON decoder reads back what the encoders (and `quoteString`) write -/
namespace Martian.InvocationStr
open Martian.Lexer (Bytes encodeRune hexByte hexVal runeError)
open Martian.Format (Pend hexDigit escAscii escFFFD esc2028 esc2029 quoteFrom quoteString quoteBody
  PendOK pendOut escAscii_len validFrom_succ runeWidth_E2 take2_eq hex_roundtrip encodeRune_ascii lt80_toNat)
open Martian.ShellQuote (runeWidth validFrom validUtf8 runeWidth_cont ge80_not_special ok2 ok3 ok4)

theorem dec_plain (g : Nat) (c : UInt8) (X : Bytes) (h5c : (c == 0x5C) = false)
    (h22 : (c == 0x22) = false) (h20 : ¬ c < 0x20) (h80 : c < 0x80) :
    jsonDecLoop (g + 1) (c :: X) 0 = (jsonDecLoop g X 0).map (c :: ·) := by
  simp [jsonDecLoop, h5c, h22, h20, h80]

theorem dec_esc (g : Nat) (c2 : UInt8) (Y X out : Bytes) (h : jsonEscape c2 Y = some (out, X)) :
    jsonDecLoop (g + 1) (0x5C :: c2 :: Y) 0 = (jsonDecLoop g X 0).map (out ++ ·) := by
  simp [jsonDecLoop, h]

theorem dec_u00 (g : Nat) (b : UInt8) (X : Bytes) (hb : b < 0x80) :
    jsonDecLoop (g + 1) (escU00 b ++ X) 0 = (jsonDecLoop g X 0).map (b :: ·) := by
  have hlt : b.toNat < 128 := lt80_toNat hb
  have h00 : hexByte 0x30 0x30 = some 0 := by decide
  have hx : hexByte (hexDigit (b.toNat / 16)) (hexDigit (b.toNat % 16)) = some b.toNat := by
    have : ∀ n, n < 128 → hexByte (hexDigit (n / 16)) (hexDigit (n % 16)) = some n := by decide
    exact this _ hlt
  have he : encodeRune b.toNat = [b] := by rw [encodeRune_ascii _ hlt]; simp
  have hns : ¬ (0xD800 ≤ b.toNat) := by omega
  have hgo : jsonEscape 0x75 (0x30 :: 0x30 :: hexDigit (b.toNat / 16) :: hexDigit (b.toNat % 16) :: X)
      = some ([b], X) := by
    simp [jsonEscape, getu4, hx, h00, he, hns]
  simp only [escU00, List.cons_append, List.nil_append]
  rw [dec_esc g 0x75 _ X [b] hgo]; rfl

theorem dec_escAscii (g : Nat) (b : UInt8) (X : Bytes) (hb : b < 0x80) :
    jsonDecLoop (g + 1) (escAscii b ++ X) 0 = (jsonDecLoop g X 0).map (b :: ·) := by
  unfold escAscii
  by_cases h1 : (b == 0x5C || b == 0x22) = true
  · simp only [h1, ↓reduceIte, List.cons_append, List.nil_append]
    simp only [Bool.or_eq_true, beq_iff_eq] at h1
    rcases h1 with rfl | rfl
    · rw [dec_esc g 0x5C X X [0x5C] (by simp [jsonEscape])]; rfl
    · rw [dec_esc g 0x22 X X [0x22] (by simp [jsonEscape])]; rfl
  · simp only [h1, Bool.false_eq_true, ↓reduceIte]
    simp only [Bool.or_eq_true, not_or, Bool.not_eq_true] at h1
    by_cases h2 : (0x20 : UInt8) ≤ b
    · simp only [h2, ↓reduceIte, List.cons_append, List.nil_append]
      have h20 : ¬ b < 0x20 := by
        rw [UInt8.lt_iff_toNat_lt]; rw [UInt8.le_iff_toNat_le] at h2; omega
      exact dec_plain g b X h1.1 h1.2 h20 hb
    · simp only [h2, ↓reduceIte]
      by_cases h8 : (b == 0x08) = true
      · have := eq_of_beq h8; subst this
        simp only [beq_self_eq_true, ↓reduceIte, List.cons_append, List.nil_append]
        rw [dec_esc g 0x62 X X [0x08] (by simp [jsonEscape])]; rfl
      · simp only [h8, Bool.false_eq_true, ↓reduceIte]
        by_cases hc : (b == 0x0C) = true
        · have := eq_of_beq hc; subst this
          simp only [beq_self_eq_true, ↓reduceIte, List.cons_append, List.nil_append]
          rw [dec_esc g 0x66 X X [0x0C] (by simp [jsonEscape])]; rfl
        · simp only [hc, Bool.false_eq_true, ↓reduceIte]
          by_cases ha : (b == 0x0A) = true
          · have := eq_of_beq ha; subst this
            simp only [beq_self_eq_true, ↓reduceIte, List.cons_append, List.nil_append]
            rw [dec_esc g 0x6E X X [0x0A] (by simp [jsonEscape])]; rfl
          · simp only [ha, Bool.false_eq_true, ↓reduceIte]
            by_cases hd : (b == 0x0D) = true
            · have := eq_of_beq hd; subst this
              simp only [beq_self_eq_true, ↓reduceIte, List.cons_append, List.nil_append]
              rw [dec_esc g 0x72 X X [0x0D] (by simp [jsonEscape])]; rfl
            · simp only [hd, Bool.false_eq_true, ↓reduceIte]
              by_cases h9 : (b == 0x09) = true
              · have := eq_of_beq h9; subst this
                simp only [beq_self_eq_true, ↓reduceIte, List.cons_append, List.nil_append]
                rw [dec_esc g 0x74 X X [0x09] (by simp [jsonEscape])]; rfl
              · simp only [h9, Bool.false_eq_true, ↓reduceIte]
                exact dec_u00 g b X hb

theorem dec_jsonEsc (html : Bool) (g : Nat) (b : UInt8) (X : Bytes) (hb : b < 0x80) :
    jsonDecLoop (g + 1) (jsonEsc html b ++ X) 0 = (jsonDecLoop g X 0).map (b :: ·) := by
  unfold jsonEsc
  split
  · exact dec_u00 g b X hb
  · exact dec_escAscii g b X hb

theorem dec_esc2028 (g : Nat) (X : Bytes) :
    jsonDecLoop (g + 1) (esc2028 ++ X) 0 = (jsonDecLoop g X 0).map ([0xE2, 0x80, 0xA8] ++ ·) := by
  have hgo : jsonEscape 0x75 (0x32 :: 0x30 :: 0x32 :: 0x38 :: X) = some ([0xE2, 0x80, 0xA8], X) := by
    have h1 : hexByte 0x32 0x30 = some 0x20 := by decide
    have h2 : hexByte 0x32 0x38 = some 0x28 := by decide
    have he : encodeRune (0x28 + 0x20 * 256) = [0xE2, 0x80, 0xA8] := by decide
    simp [jsonEscape, getu4, h1, h2, he]
  simp only [esc2028, List.cons_append, List.nil_append]
  exact dec_esc g 0x75 _ X _ hgo

theorem dec_esc2029 (g : Nat) (X : Bytes) :
    jsonDecLoop (g + 1) (esc2029 ++ X) 0 = (jsonDecLoop g X 0).map ([0xE2, 0x80, 0xA9] ++ ·) := by
  have hgo : jsonEscape 0x75 (0x32 :: 0x30 :: 0x32 :: 0x39 :: X) = some ([0xE2, 0x80, 0xA9], X) := by
    have h1 : hexByte 0x32 0x30 = some 0x20 := by decide
    have h2 : hexByte 0x32 0x39 = some 0x29 := by decide
    have he : encodeRune (0x29 + 0x20 * 256) = [0xE2, 0x80, 0xA9] := by decide
    simp [jsonEscape, getu4, h1, h2, he]
  simp only [esc2029, List.cons_append, List.nil_append]
  exact dec_esc g 0x75 _ X _ hgo

/-! `runeWidth` looks only at the bytes of the rune -/
theorem runeWidth_2 (b b1 : UInt8) (Y : Bytes) (hb : ¬ b < 0x80) (h : ok2 b b1 = true) :
    runeWidth (b :: b1 :: Y) = some 2 := by
  rcases Y with _ | ⟨y0, _ | ⟨y1, Y⟩⟩ <;> simp [runeWidth, hb, h]

theorem runeWidth_3 (b b1 b2 : UInt8) (Y : Bytes) (hb : ¬ b < 0x80) (h2 : ¬ ok2 b b1 = true)
    (h : ok3 b b1 b2 = true) : runeWidth (b :: b1 :: b2 :: Y) = some 3 := by
  rcases Y with _ | ⟨y0, Y⟩ <;> simp [runeWidth, hb, h2, h]

theorem runeWidth_4 (b b1 b2 b3 : UInt8) (Y : Bytes) (hb : ¬ b < 0x80) (h2 : ¬ ok2 b b1 = true)
    (h3 : ¬ ok3 b b1 b2 = true) (h : ok4 b b1 b2 b3 = true) :
    runeWidth (b :: b1 :: b2 :: b3 :: Y) = some 4 := by
  simp [runeWidth, hb, h2, h3, h]

theorem runeWidth_enc (esc : UInt8 → Bytes) (b : UInt8) (r : Bytes) (w : Nat) (hb : ¬ b < 0x80)
    (h : runeWidth (b :: r) = some w) :
    runeWidth (b :: encFrom esc r (if w ≤ 1 then .none else .copy (w - 1))) = some w := by
  rcases r with _ | ⟨b1, _ | ⟨b2, _ | ⟨b3, t⟩⟩⟩ <;> simp only [runeWidth, hb, if_false] at h
  · cases h
  · split at h
    · rename_i h2; injection h with h; subst h
      rw [show (if (2:Nat) ≤ 1 then Pend.none else Pend.copy (2 - 1)) = Pend.copy (0 + 1) from rfl]
      simp only [encFrom]; exact runeWidth_2 _ _ _ hb h2
    · cases h
  · split at h
    · rename_i h2; injection h with h; subst h
      rw [show (if (2:Nat) ≤ 1 then Pend.none else Pend.copy (2 - 1)) = Pend.copy (0 + 1) from rfl]
      simp only [encFrom]; exact runeWidth_2 _ _ _ hb h2
    · split at h
      · rename_i h2 h3; injection h with h; subst h
        rw [show (if (3:Nat) ≤ 1 then Pend.none else Pend.copy (3 - 1)) = Pend.copy (1 + 1) from rfl]
        simp only [encFrom, Nat.add_one_ne_zero, if_false]; exact runeWidth_3 _ _ _ _ hb h2 h3
      · cases h
  · split at h
    · rename_i h2; injection h with h; subst h
      rw [show (if (2:Nat) ≤ 1 then Pend.none else Pend.copy (2 - 1)) = Pend.copy (0 + 1) from rfl]
      simp only [encFrom]; exact runeWidth_2 _ _ _ hb h2
    · split at h
      · rename_i h2 h3; injection h with h; subst h
        rw [show (if (3:Nat) ≤ 1 then Pend.none else Pend.copy (3 - 1)) = Pend.copy (1 + 1) from rfl]
        simp only [encFrom, Nat.add_one_ne_zero, if_false]; exact runeWidth_3 _ _ _ _ hb h2 h3
      · split at h
        · rename_i h2 h3 h4; injection h with h; subst h
          rw [show (if (4:Nat) ≤ 1 then Pend.none else Pend.copy (4 - 1)) = Pend.copy (2 + 1) from rfl]
          simp only [encFrom, Nat.add_one_ne_zero, if_false]; exact runeWidth_4 _ _ _ _ _ hb h2 h3 h4
        · cases h


/-- the decoder's pending-continuation count that goes with an encoder state -/
def pendK : Pend → Nat
  | .copy k => k
  | _ => 0

theorem dec_encFrom (esc : UInt8 → Bytes)
    (hesc : ∀ (g : Nat) (b : UInt8) (X : Bytes), b < 0x80 →
      jsonDecLoop (g + 1) (esc b ++ X) 0 = (jsonDecLoop g X 0).map (b :: ·))
    (hlen : ∀ b, 1 ≤ (esc b).length) :
    ∀ (s : List UInt8) (p : Pend) (g : Nat),
    (encFrom esc s p).length < g → PendOK s p →
    jsonDecLoop g (encFrom esc s p) (pendK p) = some (pendOut s p) := by
  intro s
  induction s with
  | nil =>
    intro p g hg _
    obtain ⟨g', rfl⟩ : ∃ g', g = g' + 1 := ⟨g - 1, by omega⟩
    cases p <;> simp [encFrom, jsonDecLoop, pendOut]
  | cons b r ih =>
    intro p g hg hp
    have generic : validFrom (b :: r) 0 = true →
        (encFrom esc (b :: r) p =
          if b < 0x80 then esc b ++ encFrom esc r .none
          else match runeWidth (b :: r) with
            | some w =>
              if b == 0xE2 && r.take 2 == [0x80, 0xA8] then esc2028 ++ encFrom esc r (.drop 2)
              else if b == 0xE2 && r.take 2 == [0x80, 0xA9] then esc2029 ++ encFrom esc r (.drop 2)
              else b :: encFrom esc r (if w ≤ 1 then .none else .copy (w - 1))
            | none => escFFFD ++ encFrom esc r .none) →
        pendOut (b :: r) p = b :: r →
        jsonDecLoop g (encFrom esc (b :: r) p) 0 = some (b :: r) := by
      intro hv hq _
      rw [hq] at hg ⊢
      obtain ⟨g', rfl⟩ : ∃ g', g = g' + 1 := ⟨g - 1, by omega⟩
      by_cases hb : b < 0x80
      · simp only [hb, ↓reduceIte] at hg ⊢
        have hw : runeWidth (b :: r) = some 1 := by simp [runeWidth, hb]
        simp only [validFrom, hw] at hv
        rw [hesc g' b _ hb]
        have hl := hlen b
        have := ih .none g' (by simp only [List.length_append] at hg; omega) hv
        simp only [pendK] at this
        rw [this]
        rfl
      · simp only [hb, ↓reduceIte] at hg ⊢
        simp only [validFrom] at hv
        cases hw : runeWidth (b :: r) with
        | none => simp [hw] at hv
        | some w =>
          simp only [hw] at hv hg ⊢
          by_cases h28 : (b == 0xE2 && r.take 2 == [0x80, 0xA8]) = true
          · simp only [h28, ↓reduceIte] at hg ⊢
            simp only [Bool.and_eq_true] at h28
            have hbe := eq_of_beq h28.1
            obtain ⟨t, rfl⟩ := take2_eq h28.2
            subst hbe
            rw [runeWidth_E2 t 0xA8 (Or.inl rfl)] at hw
            injection hw with hw; subst hw
            rw [dec_esc2028 g' _]
            have := ih (.drop 2) g' (by simp only [esc2028, List.length_append, List.length_cons, List.length_nil] at hg; omega) hv
            simp only [pendK] at this
            rw [this]
            simp [pendOut]
          · simp only [h28, Bool.false_eq_true, ↓reduceIte] at hg ⊢
            by_cases h29 : (b == 0xE2 && r.take 2 == [0x80, 0xA9]) = true
            · simp only [h29, ↓reduceIte] at hg ⊢
              simp only [Bool.and_eq_true] at h29
              have hbe := eq_of_beq h29.1
              obtain ⟨t, rfl⟩ := take2_eq h29.2
              subst hbe
              rw [runeWidth_E2 t 0xA9 (Or.inr rfl)] at hw
              injection hw with hw; subst hw
              rw [dec_esc2029 g' _]
              have := ih (.drop 2) g' (by simp only [esc2029, List.length_append, List.length_cons, List.length_nil] at hg; omega) hv
              simp only [pendK] at this
              rw [this]
              simp [pendOut]
            · simp only [h29, Bool.false_eq_true, ↓reduceIte] at hg ⊢
              obtain ⟨h22, _, _, h5c⟩ := ge80_not_special b hb
              have h20 : ¬ b < 0x20 := by
                intro hh; apply hb
                rw [UInt8.lt_iff_toNat_lt] at hh ⊢
                have : (0x20 : UInt8).toNat = 32 := rfl
                have : (0x80 : UInt8).toNat = 128 := rfl
                omega
              have hstep : jsonDecLoop (g' + 1)
                  (b :: encFrom esc r (if w ≤ 1 then .none else .copy (w - 1))) 0 =
                  (jsonDecLoop g' (encFrom esc r (if w ≤ 1 then .none else .copy (w - 1))) (w - 1)).map (b :: ·) := by
                simp [jsonDecLoop, h5c, h22, h20, hb, runeWidth_enc esc b r w hb hw]
              rw [hstep]
              have hcont := runeWidth_cont b r w hb hw
              by_cases hw1 : w ≤ 1
              · simp only [hw1, ↓reduceIte] at hg ⊢
                have hw0 : w - 1 = 0 := by omega
                rw [hw0] at hv ⊢
                have := ih .none g' (by simp only [List.length_cons] at hg; omega) hv
                simp only [pendK] at this
                rw [this]
                rfl
              · simp only [hw1, ↓reduceIte] at hg ⊢
                have := ih (.copy (w - 1)) g' (by simp only [List.length_cons] at hg; omega) ⟨hv, hcont⟩
                simp only [pendK] at this
                rw [this]
                rfl
    cases p with
    | none => exact generic hp rfl rfl
    | copy k =>
      cases k with
      | zero => exact generic hp.1 rfl rfl
      | succ k =>
        obtain ⟨hv, hk⟩ := hp
        rw [validFrom_succ] at hv
        obtain ⟨g', rfl⟩ : ∃ g', g = g' + 1 := ⟨g - 1, by omega⟩
        simp only [encFrom, pendK] at hg ⊢
        simp only [jsonDecLoop]
        have hk' : ∀ x ∈ r.take k, ¬ x < 0x80 := fun x hx => hk x (by simp [List.take_succ_cons, hx])
        by_cases hk0 : k = 0
        · subst hk0
          simp only [↓reduceIte] at hg ⊢
          have := ih .none g' (by simp only [List.length_cons] at hg; omega) hv
          simp only [pendK] at this
          rw [this]
          rfl
        · simp only [hk0, ↓reduceIte] at hg ⊢
          have := ih (.copy k) g' (by simp only [List.length_cons] at hg; omega) ⟨hv, hk'⟩
          simp only [pendK] at this
          rw [this]
          rfl
    | drop k =>
      cases k with
      | zero => exact generic hp rfl (by simp [pendOut])
      | succ k =>
        have hv : validFrom r k = true := by rw [← validFrom_succ b r k]; exact hp
        simp only [encFrom, pendK] at hg ⊢
        by_cases hk0 : k = 0
        · subst hk0
          simp only [↓reduceIte] at hg ⊢
          have := ih .none g hg hv
          simp only [pendK] at this
          rw [this]
          simp [pendOut]
        · simp only [hk0, ↓reduceIte] at hg ⊢
          have := ih (.drop k) g hg hv
          simp only [pendK] at this
          rw [this]
          simp [pendOut]

/-- `encoding/json` reads back its own output (both HTML modes) -/
theorem jsonDecode_jsonEncode (html : Bool) (s : Bytes) (h : validUtf8 s = true) :
    jsonDecodeString (jsonEncodeString html s) = some s := by
  have := dec_encFrom (jsonEsc html) (dec_jsonEsc html) (jsonEsc_len html) s .none
    ((encFrom (jsonEsc html) s .none).length + 1) (by simp) h
  simp [jsonDecodeString, jsonEncodeString, pendOut, pendK] at this ⊢
  exact this

/-- (b): the text `quoteString` writes (every string literal, map key and
`MarshalJSON` of a `StringExp`) is decoded by a JSON reader to the string it
was given. -/
theorem jsonDecode_quoteString (s : Bytes) (h : validUtf8 s = true) :
    jsonDecodeString (quoteString s) = some s := by
  rw [← jsonEncode_false_eq]; exact jsonDecode_jsonEncode false s h

end Martian.InvocationStr

/-! ### the Python writer (`json.dumps`, `ensure_ascii`): UTF-8 decode/encode identities,
`\uXXXX` and surrogate-pair escapes are read back by `unquoteBytes` -/
namespace Martian.InvocationStr
open Martian.Lexer (Bytes unqLoop unquoteBytes goEscape surrPair encodeRune hexByte hexVal isOct isDigit runeError)
open Martian.Format (hexDigit unq_plain unq_esc)
open Martian.ShellQuote (runeWidth validFrom validUtf8 ok2 ok3 ok4 isCont)

theorem hexByte_digits : ∀ a, a < 16 → ∀ b, b < 16 → hexByte (hexDigit a) (hexDigit b) = some (a * 16 + b) := by
  decide

theorem ofNat_toNat' (b : UInt8) : UInt8.ofNat b.toNat = b := by simp

/-- 2-byte sequences: encode ∘ decode = id -/
theorem enc_dec2 (b0 b1 : UInt8) (h : ok2 b0 b1 = true) :
    encodeRune ((b0.toNat % 32) * 64 + b1.toNat % 64) = [b0, b1] := by
  simp only [ok2, isCont, Bool.and_eq_true, decide_eq_true_eq, UInt8.le_iff_toNat_le] at h
  obtain ⟨⟨h1, h2⟩, h3, h4⟩ := h
  have e1 : (0xC2 : UInt8).toNat = 194 := rfl
  have e2 : (0xDF : UInt8).toNat = 223 := rfl
  have e3 : (0x80 : UInt8).toNat = 128 := rfl
  have e4 : (0xBF : UInt8).toNat = 191 := rfl
  rw [e1] at h1; rw [e2] at h2; rw [e3] at h3; rw [e4] at h4
  have a : ¬ ((b0.toNat % 32) * 64 + b1.toNat % 64 < 0x80) := by omega
  have b : (b0.toNat % 32) * 64 + b1.toNat % 64 < 0x800 := by omega
  have c0 : 0xC0 + ((b0.toNat % 32) * 64 + b1.toNat % 64) / 64 = b0.toNat := by omega
  have c1 : 0x80 + ((b0.toNat % 32) * 64 + b1.toNat % 64) % 64 = b1.toNat := by omega
  simp only [encodeRune, a, b, ↓reduceIte, c0, c1, ofNat_toNat']

theorem u8 (n : Nat) (h : n < 256) : (UInt8.ofNat n).toNat = n := by simp [UInt8.toNat_ofNat, Nat.mod_eq_of_lt h]

/-- 3-byte sequences -/
theorem enc_dec3 (b0 b1 b2 : UInt8) (h : ok3 b0 b1 b2 = true) :
    encodeRune ((b0.toNat % 16) * 4096 + (b1.toNat % 64) * 64 + b2.toNat % 64) = [b0, b1, b2]
    ∧ 0x800 ≤ (b0.toNat % 16) * 4096 + (b1.toNat % 64) * 64 + b2.toNat % 64
    ∧ (b0.toNat % 16) * 4096 + (b1.toNat % 64) * 64 + b2.toNat % 64 < 0x10000
    ∧ ¬ (0xD800 ≤ (b0.toNat % 16) * 4096 + (b1.toNat % 64) * 64 + b2.toNat % 64
        ∧ (b0.toNat % 16) * 4096 + (b1.toNat % 64) * 64 + b2.toNat % 64 < 0xE000) := by
  simp only [ok3, isCont, Bool.and_eq_true, decide_eq_true_eq, UInt8.le_iff_toNat_le] at h
  obtain ⟨⟨⟨⟨h1, h2⟩, h3⟩, h4⟩, h5, h6⟩ := h
  have e1 : (0xE0 : UInt8).toNat = 224 := rfl
  have e2 : (0xEF : UInt8).toNat = 239 := rfl
  have e3 : (0x80 : UInt8).toNat = 128 := rfl
  have e4 : (0xBF : UInt8).toNat = 191 := rfl
  have e5 : (0xA0 : UInt8).toNat = 160 := rfl
  have e6 : (0x9F : UInt8).toNat = 159 := rfl
  rw [e1] at h1; rw [e2] at h2; rw [e3] at h5; rw [e4] at h6
  have k3 : (if b0.toNat = 224 then 160 else 128) ≤ b1.toNat := by
    by_cases hb : b0 = 0xE0
    · subst hb; simp at h3 ⊢; exact h3
    · have hne : ¬ b0.toNat = 224 := fun hh => hb (UInt8.toNat_inj.mp (by rw [hh]; rfl))
      simp [hb] at h3; simp [hne]; exact h3
  have k4 : b1.toNat ≤ (if b0.toNat = 237 then 159 else 191) := by
    by_cases hb : b0 = 0xED
    · subst hb; simp at h4 ⊢; exact h4
    · have hne : ¬ b0.toNat = 237 := fun hh => hb (UInt8.toNat_inj.mp (by rw [hh]; rfl))
      simp [hb] at h4; simp [hne]; exact h4
  have hb1lo : 128 ≤ b1.toNat := by split at k3 <;> omega
  have hb1hi : b1.toNat ≤ 191 := by split at k4 <;> omega
  have hE0 : b0.toNat = 224 → 160 ≤ b1.toNat := by intro hh; simp [hh] at k3; exact k3
  have hED : b0.toNat = 237 → b1.toNat ≤ 159 := by intro hh; simp [hh] at k4; exact k4
  clear k3 k4 h3 h4
  have hr1 : 0x800 ≤ (b0.toNat % 16) * 4096 + (b1.toNat % 64) * 64 + b2.toNat % 64 := by omega
  have hr2 : (b0.toNat % 16) * 4096 + (b1.toNat % 64) * 64 + b2.toNat % 64 < 0x10000 := by omega
  have hr3 : ¬ (0xD800 ≤ (b0.toNat % 16) * 4096 + (b1.toNat % 64) * 64 + b2.toNat % 64
        ∧ (b0.toNat % 16) * 4096 + (b1.toNat % 64) * 64 + b2.toNat % 64 < 0xE000) := by omega
  refine ⟨?_, hr1, hr2, hr3⟩
  have c0 : 0xE0 + ((b0.toNat % 16) * 4096 + (b1.toNat % 64) * 64 + b2.toNat % 64) / 4096 = b0.toNat := by omega
  have c1 : 0x80 + ((b0.toNat % 16) * 4096 + (b1.toNat % 64) * 64 + b2.toNat % 64) / 64 % 64 = b1.toNat := by omega
  have c2 : 0x80 + ((b0.toNat % 16) * 4096 + (b1.toNat % 64) * 64 + b2.toNat % 64) % 64 = b2.toNat := by omega
  generalize hr : (b0.toNat % 16) * 4096 + (b1.toNat % 64) * 64 + b2.toNat % 64 = r at *
  have a : ¬ r < 0x80 := by omega
  have b : ¬ r < 0x800 := by omega
  have c : ¬ (r > 0x10FFFF ∨ (0xD800 ≤ r ∧ r ≤ 0xDFFF)) := by omega
  simp [encodeRune, a, b, c, hr2, c0, c1, c2]

/-- 4-byte sequences -/
theorem enc_dec4 (b0 b1 b2 b3 : UInt8) (h : ok4 b0 b1 b2 b3 = true) :
    encodeRune ((b0.toNat % 8) * 262144 + (b1.toNat % 64) * 4096 + (b2.toNat % 64) * 64 + b3.toNat % 64)
      = [b0, b1, b2, b3]
    ∧ 0x10000 ≤ (b0.toNat % 8) * 262144 + (b1.toNat % 64) * 4096 + (b2.toNat % 64) * 64 + b3.toNat % 64
    ∧ (b0.toNat % 8) * 262144 + (b1.toNat % 64) * 4096 + (b2.toNat % 64) * 64 + b3.toNat % 64 ≤ 0x10FFFF := by
  simp only [ok4, isCont, Bool.and_eq_true, decide_eq_true_eq, UInt8.le_iff_toNat_le] at h
  obtain ⟨⟨⟨⟨⟨h1, h2⟩, h3⟩, h4⟩, h5, h6⟩, h7, h8⟩ := h
  have e1 : (0xF0 : UInt8).toNat = 240 := rfl
  have e2 : (0xF4 : UInt8).toNat = 244 := rfl
  have e3 : (0x80 : UInt8).toNat = 128 := rfl
  have e4 : (0xBF : UInt8).toNat = 191 := rfl
  rw [e1] at h1; rw [e2] at h2; rw [e3] at h5 h7; rw [e4] at h6 h8
  have k3 : (if b0.toNat = 240 then 144 else 128) ≤ b1.toNat := by
    by_cases hb : b0 = 0xF0
    · subst hb; simp at h3 ⊢; exact h3
    · have hne : ¬ b0.toNat = 240 := fun hh => hb (UInt8.toNat_inj.mp (by rw [hh]; rfl))
      simp [hb] at h3; simp [hne]; exact h3
  have k4 : b1.toNat ≤ (if b0.toNat = 244 then 143 else 191) := by
    by_cases hb : b0 = 0xF4
    · subst hb; simp at h4 ⊢; exact h4
    · have hne : ¬ b0.toNat = 244 := fun hh => hb (UInt8.toNat_inj.mp (by rw [hh]; rfl))
      simp [hb] at h4; simp [hne]; exact h4
  have hb1lo : 128 ≤ b1.toNat := by split at k3 <;> omega
  have hb1hi : b1.toNat ≤ 191 := by split at k4 <;> omega
  have hF0 : b0.toNat = 240 → 144 ≤ b1.toNat := by intro hh; simp [hh] at k3; exact k3
  have hF4 : b0.toNat = 244 → b1.toNat ≤ 143 := by intro hh; simp [hh] at k4; exact k4
  clear k3 k4 h3 h4
  have hr1 : 0x10000 ≤ (b0.toNat % 8) * 262144 + (b1.toNat % 64) * 4096 + (b2.toNat % 64) * 64 + b3.toNat % 64 := by omega
  have hr2 : (b0.toNat % 8) * 262144 + (b1.toNat % 64) * 4096 + (b2.toNat % 64) * 64 + b3.toNat % 64 ≤ 0x10FFFF := by omega
  refine ⟨?_, hr1, hr2⟩
  have c0 : 0xF0 + ((b0.toNat % 8) * 262144 + (b1.toNat % 64) * 4096 + (b2.toNat % 64) * 64 + b3.toNat % 64) / 262144 = b0.toNat := by omega
  have c1 : 0x80 + ((b0.toNat % 8) * 262144 + (b1.toNat % 64) * 4096 + (b2.toNat % 64) * 64 + b3.toNat % 64) / 4096 % 64 = b1.toNat := by omega
  have c2 : 0x80 + ((b0.toNat % 8) * 262144 + (b1.toNat % 64) * 4096 + (b2.toNat % 64) * 64 + b3.toNat % 64) / 64 % 64 = b2.toNat := by omega
  have c3 : 0x80 + ((b0.toNat % 8) * 262144 + (b1.toNat % 64) * 4096 + (b2.toNat % 64) * 64 + b3.toNat % 64) % 64 = b3.toNat := by omega
  generalize hr : (b0.toNat % 8) * 262144 + (b1.toNat % 64) * 4096 + (b2.toNat % 64) * 64 + b3.toNat % 64 = r at *
  have a : ¬ r < 0x80 := by omega
  have b : ¬ r < 0x800 := by omega
  have c : ¬ (r > 0x10FFFF ∨ (0xD800 ≤ r ∧ r ≤ 0xDFFF)) := by omega
  have d : ¬ r < 0x10000 := by omega
  simp [encodeRune, a, b, c, d, c0, c1, c2, c3]

/-- `\uXXXX` (lower-case hex as Python and Go write it) of a BMP code point that is no surrogate -/
theorem unq_escU (g : Nat) (n : Nat) (X : Bytes) (hn : n < 0x10000)
    (hs : ¬ (0xD800 ≤ n ∧ n < 0xE000)) :
    unqLoop (g + 1) (escU n ++ X) = (unqLoop g X).map (encodeRune n ++ ·) := by
  have h1 := hexByte_digits (n / 16 % 16) (by omega) (n % 16) (by omega)
  have h2 := hexByte_digits (n / 4096 % 16) (by omega) (n / 256 % 16) (by omega)
  have hv : n / 16 % 16 * 16 + n % 16 + (n / 4096 % 16 * 16 + n / 256 % 16) * 256 = n := by omega
  have hsp : surrPair n X = some (encodeRune n, X) := by
    unfold surrPair
    have : (decide (0xD800 ≤ n) && decide (n < 0xE000)) = false := by
      simp only [Bool.and_eq_false_iff, decide_eq_false_iff_not]; omega
    simp [this]
  have hgo : goEscape 0x75 (hex4 n ++ X) = some (encodeRune n, X) := by
    simp only [hex4, List.cons_append, List.nil_append]
    simp [goEscape, h1, h2, hv, hsp]
  simp only [escU, List.cons_append]
  exact unq_esc g 0x75 _ X _ hgo


theorem hex4_val (n : Nat) (h : n < 0x10000) :
    hexByte (hexDigit (n / 16 % 16)) (hexDigit (n % 16)) = some (n % 256)
    ∧ hexByte (hexDigit (n / 4096 % 16)) (hexDigit (n / 256 % 16)) = some (n / 256) := by
  have h1 := hexByte_digits (n / 16 % 16) (by omega) (n % 16) (by omega)
  have h2 := hexByte_digits (n / 4096 % 16) (by omega) (n / 256 % 16) (by omega)
  have e1 : n / 16 % 16 * 16 + n % 16 = n % 256 := by omega
  have e2 : n / 4096 % 16 * 16 + n / 256 % 16 = n / 256 := by omega
  rw [e1] at h1; rw [e2] at h2
  exact ⟨h1, h2⟩

theorem surrPair_pair (hi lo r : Nat) (X : Bytes) (bhi : 0xD800 ≤ hi ∧ hi < 0xDC00)
    (blo : 0xDC00 ≤ lo ∧ lo < 0xE000) (hr : 0x10000 + (hi - 0xD800) * 1024 + (lo - 0xDC00) = r) :
    surrPair hi (escU lo ++ X) = some (encodeRune r, X) := by
  obtain ⟨c1, c2⟩ := hex4_val lo (by omega)
  have cv : lo % 256 + lo / 256 * 256 = lo := by omega
  have t1 : (decide (0xD800 ≤ hi) && decide (hi < 0xE000)) = true := by
    simp only [Bool.and_eq_true, decide_eq_true_eq]; omega
  have t2 : (decide (hi < 0xDC00) && decide (0xDC00 ≤ lo) && decide (lo < 0xE000)) = true := by
    simp only [Bool.and_eq_true, decide_eq_true_eq]; omega
  have hl : escU lo ++ X = 0x5C :: 0x75 :: hexDigit (lo / 4096 % 16) :: hexDigit (lo / 256 % 16) ::
      hexDigit (lo / 16 % 16) :: hexDigit (lo % 16) :: X := by simp [escU, hex4]
  rw [hl]
  unfold surrPair
  rw [if_pos t1]
  simp only [beq_self_eq_true, Bool.and_self, ↓reduceIte, c1, c2, cv]
  rw [if_pos t2, hr]


theorem goEscape_u (n : Nat) (Y : Bytes) (hn : n < 0x10000) :
    goEscape 0x75 (hex4 n ++ Y) = surrPair n Y := by
  obtain ⟨c1, c2⟩ := hex4_val n hn
  have cv : n % 256 + n / 256 * 256 = n := by omega
  simp only [hex4, List.cons_append, List.nil_append]
  simp [goEscape, c1, c2, cv]

/-- a surrogate pair of `\\uXXXX` escapes is read as the one code point -/
theorem unq_escPair (g : Nat) (r : Nat) (X : Bytes) (h1 : 0x10000 ≤ r) (h2 : r ≤ 0x10FFFF) :
    unqLoop (g + 1) (escU (0xD800 + (r - 0x10000) / 1024) ++ (escU (0xDC00 + (r - 0x10000) % 1024) ++ X))
      = (unqLoop g X).map (encodeRune r ++ ·) := by
  have bhi : 0xD800 ≤ 0xD800 + (r - 0x10000) / 1024 ∧ 0xD800 + (r - 0x10000) / 1024 < 0xDC00 := by omega
  have blo : 0xDC00 ≤ 0xDC00 + (r - 0x10000) % 1024 ∧ 0xDC00 + (r - 0x10000) % 1024 < 0xE000 := by omega
  have hr : 0x10000 + (0xD800 + (r - 0x10000) / 1024 - 0xD800) * 1024
      + (0xDC00 + (r - 0x10000) % 1024 - 0xDC00) = r := by omega
  have hgo := goEscape_u (0xD800 + (r - 0x10000) / 1024)
    (escU (0xDC00 + (r - 0x10000) % 1024) ++ X) (by omega)
  rw [surrPair_pair _ _ r X bhi blo hr] at hgo
  have : escU (0xD800 + (r - 0x10000) / 1024) ++ (escU (0xDC00 + (r - 0x10000) % 1024) ++ X)
      = 0x5C :: 0x75 :: (hex4 (0xD800 + (r - 0x10000) / 1024) ++ (escU (0xDC00 + (r - 0x10000) % 1024) ++ X)) := by
    simp [escU]
  rw [this]
  exact unq_esc g 0x75 _ X _ hgo


theorem runeWidth_inv (b : UInt8) (r : Bytes) (w : Nat) (hb : ¬ b < 0x80)
    (h : runeWidth (b :: r) = some w) :
    (w = 2 ∧ ∃ b1 t, r = b1 :: t ∧ ok2 b b1 = true)
    ∨ (w = 3 ∧ ∃ b1 b2 t, r = b1 :: b2 :: t ∧ ok3 b b1 b2 = true)
    ∨ (w = 4 ∧ ∃ b1 b2 b3 t, r = b1 :: b2 :: b3 :: t ∧ ok4 b b1 b2 b3 = true) := by
  rcases r with _ | ⟨b1, _ | ⟨b2, _ | ⟨b3, t⟩⟩⟩ <;> simp only [runeWidth, hb, if_false] at h
  · cases h
  · split at h
    · rename_i h2; injection h with h; subst h; exact Or.inl ⟨rfl, b1, [], rfl, h2⟩
    · cases h
  · split at h
    · rename_i h2; injection h with h; subst h; exact Or.inl ⟨rfl, b1, [b2], rfl, h2⟩
    · split at h
      · rename_i h3; injection h with h; subst h; exact Or.inr (Or.inl ⟨rfl, b1, b2, [], rfl, h3⟩)
      · cases h
  · split at h
    · rename_i h2; injection h with h; subst h; exact Or.inl ⟨rfl, b1, b2 :: b3 :: t, rfl, h2⟩
    · split at h
      · rename_i h3; injection h with h; subst h; exact Or.inr (Or.inl ⟨rfl, b1, b2, b3 :: t, rfl, h3⟩)
      · split at h
        · rename_i h4; injection h with h; subst h
          exact Or.inr (Or.inr ⟨rfl, b1, b2, b3, t, rfl, h4⟩)
        · cases h

theorem pyEscRune_bmp (n : Nat) (h1 : 0x80 ≤ n) (h2 : n < 0x10000) : pyEscRune n = escU n := by
  have a1 : ¬ n = 0x22 := by omega
  have a2 : ¬ n = 0x5C := by omega
  have a3 : ¬ n = 0x0A := by omega
  have a4 : ¬ n = 0x0D := by omega
  have a5 : ¬ n = 0x09 := by omega
  have a6 : ¬ n = 0x0C := by omega
  have a7 : ¬ n = 0x08 := by omega
  have a8 : ¬ n ≤ 0x7E := by omega
  simp [pyEscRune, a1, a2, a3, a4, a5, a6, a7, a8, h2]

theorem pyEscRune_astral (n : Nat) (h1 : 0x10000 ≤ n) :
    pyEscRune n = escU (0xD800 + (n - 0x10000) / 1024) ++ escU (0xDC00 + (n - 0x10000) % 1024) := by
  have a1 : ¬ n = 0x22 := by omega
  have a2 : ¬ n = 0x5C := by omega
  have a3 : ¬ n = 0x0A := by omega
  have a4 : ¬ n = 0x0D := by omega
  have a5 : ¬ n = 0x09 := by omega
  have a6 : ¬ n = 0x0C := by omega
  have a7 : ¬ n = 0x08 := by omega
  have a8 : ¬ n ≤ 0x7E := by omega
  have a9 : ¬ n < 0x10000 := by omega
  simp [pyEscRune, a1, a2, a3, a4, a5, a6, a7, a8, a9]


theorem eq_of_toNat (b : UInt8) (n : Nat) (hn : n < 256) (h : b.toNat = n) : b = UInt8.ofNat n := by
  apply UInt8.toNat_inj.mp
  rw [h, u8 n hn]

/-- what the Python writer emits for an ASCII byte is read back as that byte -/
theorem unq_pyAscii (g : Nat) (b : UInt8) (X : Bytes) (hb : b < 0x80) :
    unqLoop (g + 1) (pyEscRune b.toNat ++ X) = (unqLoop g X).map (b :: ·) := by
  have hlt : b.toNat < 128 := Martian.Format.lt80_toNat hb
  unfold pyEscRune
  by_cases h22 : b.toNat = 0x22
  · have := eq_of_toNat b _ (by decide) h22; subst this
    simp only [show ((UInt8.ofNat 0x22).toNat == 0x22) = true from by decide, ↓reduceIte, List.cons_append, List.nil_append]
    rw [unq_esc g 0x22 X X [0x22] (by simp [goEscape, isOct])]; rfl
  · by_cases h5c : b.toNat = 0x5C
    · have := eq_of_toNat b _ (by decide) h5c; subst this
      simp only [show ((UInt8.ofNat 0x5C).toNat == 0x22) = false from by decide,
        show ((UInt8.ofNat 0x5C).toNat == 0x5C) = true from by decide, Bool.false_eq_true, ↓reduceIte,
        List.cons_append, List.nil_append]
      rw [unq_esc g 0x5C X X [0x5C] (by simp [goEscape, isOct])]; rfl
    · by_cases h0a : b.toNat = 0x0A
      · have := eq_of_toNat b _ (by decide) h0a; subst this
        simp (decide := true) only [↓reduceIte, List.cons_append, List.nil_append]
        rw [unq_esc g 0x6E X X [0x0A] (by simp [goEscape])]; rfl
      · by_cases h0d : b.toNat = 0x0D
        · have := eq_of_toNat b _ (by decide) h0d; subst this
          simp (decide := true) only [↓reduceIte, List.cons_append, List.nil_append]
          rw [unq_esc g 0x72 X X [0x0D] (by simp [goEscape])]; rfl
        · by_cases h09 : b.toNat = 0x09
          · have := eq_of_toNat b _ (by decide) h09; subst this
            simp (decide := true) only [↓reduceIte, List.cons_append, List.nil_append]
            rw [unq_esc g 0x74 X X [0x09] (by simp [goEscape])]; rfl
          · by_cases h0c : b.toNat = 0x0C
            · have := eq_of_toNat b _ (by decide) h0c; subst this
              simp (decide := true) only [↓reduceIte, List.cons_append, List.nil_append]
              rw [unq_esc g 0x66 X X [0x0C] (by simp [goEscape])]; rfl
            · by_cases h08 : b.toNat = 0x08
              · have := eq_of_toNat b _ (by decide) h08; subst this
                simp (decide := true) only [↓reduceIte, List.cons_append, List.nil_append]
                rw [unq_esc g 0x62 X X [0x08] (by simp [goEscape])]; rfl
              · simp only [beq_iff_eq, h22, h5c, h0a, h0d, h09, h0c, h08, ↓reduceIte]
                by_cases hp : (decide (0x20 ≤ b.toNat) && decide (b.toNat ≤ 0x7E)) = true
                · simp only [hp, ↓reduceIte, List.cons_append, List.nil_append, ofNat_toNat']
                  have hne : (b == 0x5C) = false := by
                    apply Bool.eq_false_iff.mpr
                    intro hh
                    have := eq_of_beq hh; subst this
                    exact h5c rfl
                  exact unq_plain g b X hne
                · simp only [hp, Bool.false_eq_true, ↓reduceIte]
                  have hlt2 : b.toNat < 0x10000 := by omega
                  simp only [hlt2, ↓reduceIte]
                  rw [unq_escU g b.toNat X hlt2 (by omega)]
                  rw [Martian.Format.encodeRune_ascii _ hlt]
                  simp


theorem enc_dec2_bounds (b0 b1 : UInt8) (h : ok2 b0 b1 = true) :
    0x80 ≤ (b0.toNat % 32) * 64 + b1.toNat % 64 ∧ (b0.toNat % 32) * 64 + b1.toNat % 64 < 0x800 := by
  simp only [ok2, isCont, Bool.and_eq_true, decide_eq_true_eq, UInt8.le_iff_toNat_le] at h
  obtain ⟨⟨h1, h2⟩, h3, h4⟩ := h
  have e1 : (0xC2 : UInt8).toNat = 194 := rfl
  have e2 : (0xDF : UInt8).toNat = 223 := rfl
  have e3 : (0x80 : UInt8).toNat = 128 := rfl
  have e4 : (0xBF : UInt8).toNat = 191 := rfl
  rw [e1] at h1; rw [e2] at h2; rw [e3] at h3; rw [e4] at h4
  omega

/-- one rune: what the Python writer emits for the rune at the head of a valid
sequence is read back as the bytes of that rune, in one step of the unquote loop -/
theorem unq_pyRune (g : Nat) (b : UInt8) (r : Bytes) (w : Nat) (X : Bytes)
    (hw : runeWidth (b :: r) = some w) :
    unqLoop (g + 1) (pyEscRune (decodeRune w (b :: r)) ++ X)
      = (unqLoop g X).map ((b :: r.take (w - 1)) ++ ·) := by
  by_cases hb : b < 0x80
  · have : w = 1 := by simp [runeWidth, hb] at hw; exact hw.symm
    subst this
    have hd : decodeRune 1 (b :: r) = b.toNat := by simp [decodeRune]
    rw [hd, unq_pyAscii g b X hb]
    simp
  · rcases runeWidth_inv b r w hb hw with ⟨rfl, b1, t, rfl, h2⟩ | ⟨rfl, b1, b2, t, rfl, h3⟩ |
      ⟨rfl, b1, b2, b3, t, rfl, h4⟩
    · have hd : decodeRune 2 (b :: b1 :: t) = (b.toNat % 32) * 64 + b1.toNat % 64 := by simp [decodeRune]
      obtain ⟨l, u⟩ := enc_dec2_bounds b b1 h2
      rw [hd, pyEscRune_bmp _ l (by omega), unq_escU g _ X (by omega) (by omega), enc_dec2 b b1 h2]
      simp
    · have hd : decodeRune 3 (b :: b1 :: b2 :: t)
          = (b.toNat % 16) * 4096 + (b1.toNat % 64) * 64 + b2.toNat % 64 := by simp [decodeRune]
      obtain ⟨he, l, u, ns⟩ := enc_dec3 b b1 b2 h3
      rw [hd, pyEscRune_bmp _ (by omega) u, unq_escU g _ X u ns, he]
      simp
    · have hd : decodeRune 4 (b :: b1 :: b2 :: b3 :: t)
          = (b.toNat % 8) * 262144 + (b1.toNat % 64) * 4096 + (b2.toNat % 64) * 64 + b3.toNat % 64 := by
        simp [decodeRune]
      obtain ⟨he, l, u⟩ := enc_dec4 b b1 b2 b3 h4
      rw [hd, pyEscRune_astral _ l, List.append_assoc, unq_escPair g _ X l u, he]
      simp

theorem pyEscRune_len (n : Nat) : 1 ≤ (pyEscRune n).length := by
  unfold pyEscRune
  repeat' split
  all_goals simp [escU, hex4]

theorem unq_pyFrom : ∀ (s : Bytes) (k g : Nat), (pyFrom s k).length < g → validFrom s k = true →
    unqLoop g (pyFrom s k) = some (s.drop k) := by
  intro s
  induction s with
  | nil =>
    intro k g hg _
    obtain ⟨g', rfl⟩ : ∃ g', g = g' + 1 := ⟨g - 1, by omega⟩
    simp [pyFrom, unqLoop]
  | cons b r ih =>
    intro k g hg hv
    cases k with
    | succ k =>
      simp only [pyFrom, List.drop_succ_cons] at hg ⊢
      rw [Martian.Format.validFrom_succ] at hv
      exact ih k g hg hv
    | zero =>
      simp only [validFrom] at hv
      cases hw : runeWidth (b :: r) with
      | none => simp [hw] at hv
      | some w =>
        simp only [hw] at hv
        simp only [pyFrom, hw, List.drop_zero] at hg ⊢
        obtain ⟨g', rfl⟩ : ∃ g', g = g' + 1 := ⟨g - 1, by omega⟩
        have hl := pyEscRune_len (decodeRune w (b :: r))
        rw [unq_pyRune g' b r w _ hw,
          ih (w - 1) g' (by simp only [List.length_append] at hg; omega) hv]
        simp [List.take_append_drop]

/-- What Python's `json.dumps` (`ensure_ascii`) writes for a valid UTF-8 string – `\uXXXX`
for everything outside `' '..'~'`, surrogate pairs for non-BMP runes – is read back exactly
by the MRO lexer's `unquoteBytes`. -/
theorem unquote_pyEncode (s : Bytes) (h : validUtf8 s = true) :
    unquoteBytes (pyEncodeString s) = some s := by
  have := unq_pyFrom s 0 ((pyFrom s 0).length + 1) (by simp) h
  simp [unquoteBytes, pyEncodeString] at this ⊢
  exact this

end Martian.InvocationStr

/-! ### … and by the JSON decoder -/
namespace Martian.InvocationStr
open Martian.Lexer (Bytes surrPair encodeRune hexByte runeError)
open Martian.Format (hexDigit)
open Martian.ShellQuote (runeWidth validFrom validUtf8 ok2 ok3 ok4 isCont)

theorem jsonEscape_u (n : Nat) (Y : Bytes) (hn : n < 0x10000) :
    jsonEscape 0x75 (hex4 n ++ Y) = surrPair n Y := by
  obtain ⟨c1, c2⟩ := hex4_val n hn
  have cv : n % 256 + n / 256 * 256 = n := by omega
  have hg : getu4 (hex4 n ++ Y) = some (n, Y) := by
    simp only [hex4, List.cons_append, List.nil_append]
    simp [getu4, c1, c2, cv]
  by_cases hs : 0xD800 ≤ n ∧ n < 0xE000
  · have t : (decide (0xD800 ≤ n) && decide (n < 0xE000)) = true := by simp [hs.1, hs.2]
    simp only [jsonEscape, hg]
    simp only [show ((0x75 : UInt8) == 0x22 || (0x75 : UInt8) == 0x5C || (0x75 : UInt8) == 0x2F) = false from by decide,
      show ((0x75 : UInt8) == 0x62) = false from by decide, show ((0x75 : UInt8) == 0x66) = false from by decide,
      show ((0x75 : UInt8) == 0x6E) = false from by decide, show ((0x75 : UInt8) == 0x72) = false from by decide,
      show ((0x75 : UInt8) == 0x74) = false from by decide, beq_self_eq_true, Bool.false_eq_true, ↓reduceIte, t]
    exact jsonSurr_eq n Y hs.1 hs.2
  · have t : (decide (0xD800 ≤ n) && decide (n < 0xE000)) = false := by
      simp only [Bool.and_eq_false_iff, decide_eq_false_iff_not]; omega
    simp only [jsonEscape, hg]
    simp only [show ((0x75 : UInt8) == 0x22 || (0x75 : UInt8) == 0x5C || (0x75 : UInt8) == 0x2F) = false from by decide,
      show ((0x75 : UInt8) == 0x62) = false from by decide, show ((0x75 : UInt8) == 0x66) = false from by decide,
      show ((0x75 : UInt8) == 0x6E) = false from by decide, show ((0x75 : UInt8) == 0x72) = false from by decide,
      show ((0x75 : UInt8) == 0x74) = false from by decide, beq_self_eq_true, Bool.false_eq_true, ↓reduceIte, t]
    unfold surrPair
    simp [t]

theorem dec_escU (g : Nat) (n : Nat) (X : Bytes) (hn : n < 0x10000)
    (hs : ¬ (0xD800 ≤ n ∧ n < 0xE000)) :
    jsonDecLoop (g + 1) (escU n ++ X) 0 = (jsonDecLoop g X 0).map (encodeRune n ++ ·) := by
  have hsp : surrPair n X = some (encodeRune n, X) := by
    unfold surrPair
    have : (decide (0xD800 ≤ n) && decide (n < 0xE000)) = false := by
      simp only [Bool.and_eq_false_iff, decide_eq_false_iff_not]; omega
    simp [this]
  have hgo : jsonEscape 0x75 (hex4 n ++ X) = some (encodeRune n, X) := by rw [jsonEscape_u n X hn, hsp]
  simp only [escU, List.cons_append]
  exact dec_esc g 0x75 _ X _ hgo

theorem dec_escPair (g : Nat) (r : Nat) (X : Bytes) (h1 : 0x10000 ≤ r) (h2 : r ≤ 0x10FFFF) :
    jsonDecLoop (g + 1) (escU (0xD800 + (r - 0x10000) / 1024) ++ (escU (0xDC00 + (r - 0x10000) % 1024) ++ X)) 0
      = (jsonDecLoop g X 0).map (encodeRune r ++ ·) := by
  have bhi : 0xD800 ≤ 0xD800 + (r - 0x10000) / 1024 ∧ 0xD800 + (r - 0x10000) / 1024 < 0xDC00 := by omega
  have blo : 0xDC00 ≤ 0xDC00 + (r - 0x10000) % 1024 ∧ 0xDC00 + (r - 0x10000) % 1024 < 0xE000 := by omega
  have hr : 0x10000 + (0xD800 + (r - 0x10000) / 1024 - 0xD800) * 1024
      + (0xDC00 + (r - 0x10000) % 1024 - 0xDC00) = r := by omega
  have hgo := jsonEscape_u (0xD800 + (r - 0x10000) / 1024)
    (escU (0xDC00 + (r - 0x10000) % 1024) ++ X) (by omega)
  rw [surrPair_pair _ _ r X bhi blo hr] at hgo
  have : escU (0xD800 + (r - 0x10000) / 1024) ++ (escU (0xDC00 + (r - 0x10000) % 1024) ++ X)
      = 0x5C :: 0x75 :: (hex4 (0xD800 + (r - 0x10000) / 1024) ++ (escU (0xDC00 + (r - 0x10000) % 1024) ++ X)) := by
    simp [escU]
  rw [this]
  exact dec_esc g 0x75 _ X _ hgo

theorem dec_pyAscii (g : Nat) (b : UInt8) (X : Bytes) (hb : b < 0x80) :
    jsonDecLoop (g + 1) (pyEscRune b.toNat ++ X) 0 = (jsonDecLoop g X 0).map (b :: ·) := by
  have hlt : b.toNat < 128 := Martian.Format.lt80_toNat hb
  unfold pyEscRune
  by_cases h22 : b.toNat = 0x22
  · have := eq_of_toNat b _ (by decide) h22; subst this
    simp only [show ((UInt8.ofNat 0x22).toNat == 0x22) = true from by decide, ↓reduceIte, List.cons_append, List.nil_append]
    rw [dec_esc g 0x22 X X [0x22] (by simp [jsonEscape])]; rfl
  · by_cases h5c : b.toNat = 0x5C
    · have := eq_of_toNat b _ (by decide) h5c; subst this
      simp only [show ((UInt8.ofNat 0x5C).toNat == 0x22) = false from by decide,
        show ((UInt8.ofNat 0x5C).toNat == 0x5C) = true from by decide, Bool.false_eq_true, ↓reduceIte,
        List.cons_append, List.nil_append]
      rw [dec_esc g 0x5C X X [0x5C] (by simp [jsonEscape])]; rfl
    · by_cases h0a : b.toNat = 0x0A
      · have := eq_of_toNat b _ (by decide) h0a; subst this
        simp (decide := true) only [↓reduceIte, List.cons_append, List.nil_append]
        rw [dec_esc g 0x6E X X [0x0A] (by simp [jsonEscape])]; rfl
      · by_cases h0d : b.toNat = 0x0D
        · have := eq_of_toNat b _ (by decide) h0d; subst this
          simp (decide := true) only [↓reduceIte, List.cons_append, List.nil_append]
          rw [dec_esc g 0x72 X X [0x0D] (by simp [jsonEscape])]; rfl
        · by_cases h09 : b.toNat = 0x09
          · have := eq_of_toNat b _ (by decide) h09; subst this
            simp (decide := true) only [↓reduceIte, List.cons_append, List.nil_append]
            rw [dec_esc g 0x74 X X [0x09] (by simp [jsonEscape])]; rfl
          · by_cases h0c : b.toNat = 0x0C
            · have := eq_of_toNat b _ (by decide) h0c; subst this
              simp (decide := true) only [↓reduceIte, List.cons_append, List.nil_append]
              rw [dec_esc g 0x66 X X [0x0C] (by simp [jsonEscape])]; rfl
            · by_cases h08 : b.toNat = 0x08
              · have := eq_of_toNat b _ (by decide) h08; subst this
                simp (decide := true) only [↓reduceIte, List.cons_append, List.nil_append]
                rw [dec_esc g 0x62 X X [0x08] (by simp [jsonEscape])]; rfl
              · simp only [beq_iff_eq, h22, h5c, h0a, h0d, h09, h0c, h08, ↓reduceIte]
                by_cases hp : (decide (0x20 ≤ b.toNat) && decide (b.toNat ≤ 0x7E)) = true
                · simp only [hp, ↓reduceIte, List.cons_append, List.nil_append, ofNat_toNat']
                  simp only [Bool.and_eq_true, decide_eq_true_eq] at hp
                  have hne : (b == 0x5C) = false := by
                    apply Bool.eq_false_iff.mpr
                    intro hh; have := eq_of_beq hh; subst this; exact h5c rfl
                  have hnq : (b == 0x22) = false := by
                    apply Bool.eq_false_iff.mpr
                    intro hh; have := eq_of_beq hh; subst this; exact h22 rfl
                  have h20 : ¬ b < 0x20 := by
                    rw [UInt8.lt_iff_toNat_lt]
                    have : (0x20 : UInt8).toNat = 32 := rfl
                    omega
                  exact dec_plain g b X hne hnq h20 hb
                · simp only [hp, Bool.false_eq_true, ↓reduceIte]
                  have hlt2 : b.toNat < 0x10000 := by omega
                  simp only [hlt2, ↓reduceIte]
                  rw [dec_escU g b.toNat X hlt2 (by omega)]
                  rw [Martian.Format.encodeRune_ascii _ hlt]
                  simp

theorem dec_pyRune (g : Nat) (b : UInt8) (r : Bytes) (w : Nat) (X : Bytes)
    (hw : runeWidth (b :: r) = some w) :
    jsonDecLoop (g + 1) (pyEscRune (decodeRune w (b :: r)) ++ X) 0
      = (jsonDecLoop g X 0).map ((b :: r.take (w - 1)) ++ ·) := by
  by_cases hb : b < 0x80
  · have : w = 1 := by simp [runeWidth, hb] at hw; exact hw.symm
    subst this
    have hd : decodeRune 1 (b :: r) = b.toNat := by simp [decodeRune]
    rw [hd, dec_pyAscii g b X hb]
    simp
  · rcases runeWidth_inv b r w hb hw with ⟨rfl, b1, t, rfl, h2⟩ | ⟨rfl, b1, b2, t, rfl, h3⟩ |
      ⟨rfl, b1, b2, b3, t, rfl, h4⟩
    · have hd : decodeRune 2 (b :: b1 :: t) = (b.toNat % 32) * 64 + b1.toNat % 64 := by simp [decodeRune]
      obtain ⟨l, u⟩ := enc_dec2_bounds b b1 h2
      rw [hd, pyEscRune_bmp _ l (by omega), dec_escU g _ X (by omega) (by omega), enc_dec2 b b1 h2]
      simp
    · have hd : decodeRune 3 (b :: b1 :: b2 :: t)
          = (b.toNat % 16) * 4096 + (b1.toNat % 64) * 64 + b2.toNat % 64 := by simp [decodeRune]
      obtain ⟨he, l, u, ns⟩ := enc_dec3 b b1 b2 h3
      rw [hd, pyEscRune_bmp _ (by omega) u, dec_escU g _ X u ns, he]
      simp
    · have hd : decodeRune 4 (b :: b1 :: b2 :: b3 :: t)
          = (b.toNat % 8) * 262144 + (b1.toNat % 64) * 4096 + (b2.toNat % 64) * 64 + b3.toNat % 64 := by
        simp [decodeRune]
      obtain ⟨he, l, u⟩ := enc_dec4 b b1 b2 b3 h4
      rw [hd, pyEscRune_astral _ l, List.append_assoc, dec_escPair g _ X l u, he]
      simp

theorem dec_pyFrom : ∀ (s : Bytes) (k g : Nat), (pyFrom s k).length < g → validFrom s k = true →
    jsonDecLoop g (pyFrom s k) 0 = some (s.drop k) := by
  intro s
  induction s with
  | nil =>
    intro k g hg _
    obtain ⟨g', rfl⟩ : ∃ g', g = g' + 1 := ⟨g - 1, by omega⟩
    simp [pyFrom, jsonDecLoop]
  | cons b r ih =>
    intro k g hg hv
    cases k with
    | succ k =>
      simp only [pyFrom, List.drop_succ_cons] at hg ⊢
      rw [Martian.Format.validFrom_succ] at hv
      exact ih k g hg hv
    | zero =>
      simp only [validFrom] at hv
      cases hw : runeWidth (b :: r) with
      | none => simp [hw] at hv
      | some w =>
        simp only [hw] at hv
        simp only [pyFrom, hw, List.drop_zero] at hg ⊢
        obtain ⟨g', rfl⟩ : ∃ g', g = g' + 1 := ⟨g - 1, by omega⟩
        have hl := pyEscRune_len (decodeRune w (b :: r))
        rw [dec_pyRune g' b r w _ hw,
          ih (w - 1) g' (by simp only [List.length_append] at hg; omega) hv]
        simp [List.take_append_drop]

/-- Go's JSON decoder reads what Python's `json.dumps` writes (stage `_outs` read by mrp). -/
theorem jsonDecode_pyEncode (s : Bytes) (h : validUtf8 s = true) :
    jsonDecodeString (pyEncodeString s) = some s := by
  have := dec_pyFrom s 0 ((pyFrom s 0).length + 1) (by simp) h
  simp [jsonDecodeString, pyEncodeString] at this ⊢
  exact this

end Martian.InvocationStr
