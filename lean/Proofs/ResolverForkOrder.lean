/-
C01 — the ORDER of the stage instances below nested map calls: den (and the model's `instsT`)
enumerate them with the OUTERMOST call slowest; `ForkIdSet.MakeForkIds` (C11's model
`Martian.ForkName.makeForkIds`: the cartesian product with the FIRST source fastest) enumerates the
forks of a node, whose fork roots are listed outermost first, with the outermost call FASTEST.  The
two orders are the same list up to reversing the root list and every fork id.
-/
import Martian.ResolverStaticTree
import Martian.ForkNameSet

namespace Proofs.ResolverStatic
open Martian.Dataflow Martian.ResolverForks Martian.ResolverStatic

/-- C11's model of `MakeForkIds` is `prodFF` of the sources' parts -/
theorem makeForkIds_eq_prodFF (srcs : List Martian.ForkName.Src) :
    Martian.ForkName.makeForkIds srcs = prodFF (srcs.map Martian.ForkName.srcParts) := by
  induction srcs with
  | nil => rfl
  | cons s rest ih => simp [Martian.ForkName.makeForkIds, prodFF, ih]

theorem flatMap_singleton_map {α β : Type} (g : α → β) (xs : List α) :
    xs.flatMap (fun x => [g x]) = xs.map g := by
  induction xs with
  | nil => rfl
  | cons x xs ih => simp [ih]

theorem prodFF_snoc {α : Type} (xs : List α) : ∀ (A : List (List α)),
    prodFF (A ++ [xs]) = xs.flatMap fun x => (prodFF A).map (· ++ [x])
  | [] => by
    simp only [List.nil_append, prodFF, List.flatMap_cons, List.flatMap_nil, List.append_nil, List.map_cons,
      List.map_nil]
    exact (flatMap_singleton_map (fun x => [x]) xs).symm
  | ys :: A => by
    simp only [List.cons_append, prodFF, prodFF_snoc xs A, List.flatMap_assoc, List.map_flatMap, List.flatMap_map]
    simp [List.map_map, Function.comp_def, List.flatMap_map]

/-- den's order is the `MakeForkIds` order of the reversed root list, every fork id reversed -/
theorem prodFS_eq_prodFF_reverse {α : Type} : ∀ (L : List (List α)),
    prodFS L = (prodFF L.reverse).map List.reverse
  | [] => rfl
  | xs :: rest => by
    simp only [prodFS, List.reverse_cons, prodFF_snoc, List.map_flatMap, List.map_map]
    congr 1
    funext x
    rw [prodFS_eq_prodFF_reverse rest, List.map_map]
    apply List.map_congr_left
    intro t _
    simp

theorem denForks_eq_prodFS (dims : List (String × List Idx)) :
    denForks dims = prodFS (dims.map fun d => d.2.map fun ix => (d.1, ix)) := by
  induction dims with
  | nil => rfl
  | cons d rest ih =>
    obtain ⟨c, ixs⟩ := d
    simp [denForks, prodFS, ih, List.flatMap_map]

/-- the model enumerates the instances of a node below nested map calls in den's order -/
theorem instsT_chain_keys (st : StructTable) (F : Nat) (ρ : Store) (n : SNode) :
    ∀ (dims : List (String × List Idx)) (forks : List (String × Idx)) (f : ForkAssign),
      (instsT st F ρ forks f (chainT dims n)).map (·.key) =
        (denForks dims).map fun fk => ⟨n.path, forks ++ fk⟩
  | [], forks, f => by simp [chainT, instsT, denForks]
  | (c, ixs) :: rest, forks, f => by
    simp only [chainT, instsT, instsTList, List.append_nil, denForks, List.map_flatMap, List.map_map]
    congr 1
    funext ix
    rw [instsT_chain_keys st F ρ n rest (forks ++ [(c, ix)]) (fset f c ix)]
    apply List.map_congr_left
    intro fk _
    simp

end Proofs.ResolverStatic
