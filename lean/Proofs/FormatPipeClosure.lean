import Martian.Format
import Proofs.Format
import Proofs.FormatTopo
import Proofs.FormatClosure

/-! The closure `topoSort` computes is the LEAST transitive relation on the calls that contains
the direct dependencies (`closedDeps_least`); consequences for `topoSort` on relabelled
dependency graphs: sorting the calls in the order `topoSort` put them in changes nothing
(`topoSort_relabel`).  Also: `topoSort` depends on the edge list only through membership. -/
namespace Martian.Format

/-! ### minimality of the closure -/

theorem closeOnce_least (n : Nat) (R : Nat → Nat → Prop)
    (htr : ∀ a b c, a < n → b < n → c < n → R a b → R b c → R a c) (d : Dep)
    (hd : ∀ a b, a < n → b < n → d a b = true → R a b) :
    ∀ a b, a < n → b < n → closeOnce n d a b = true → R a b := by
  intro a b ha hb h
  unfold closeOnce at h
  simp only [Bool.or_eq_true, List.any_eq_true, List.mem_range, Bool.and_eq_true] at h
  rcases h with h | ⟨c, hc, hac, hcb⟩
  · exact hd a b ha hb h
  · exact htr a c b ha hc hb (hd a c ha hc hac) (hd c b hc hb hcb)

theorem closeFix_least (n : Nat) (R : Nat → Nat → Prop)
    (htr : ∀ a b c, a < n → b < n → c < n → R a b → R b c → R a c) :
    ∀ (k : Nat) (t : List (List Bool)),
      (∀ a b, a < n → b < n → ofTable t a b = true → R a b) →
      ∀ a b, a < n → b < n → ofTable (closeFix n k t) a b = true → R a b := by
  intro k
  induction k with
  | zero => intro t ht a b ha hb h; exact ht a b ha hb h
  | succ k ih =>
    intro t ht a b ha hb h
    unfold closeFix at h
    simp only at h
    split at h
    · exact ht a b ha hb h
    · refine ih _ ?_ a b ha hb h
      intro x y hx hy hxy
      rw [ofTable_tabulate n _ x y hx hy] at hxy
      exact closeOnce_least n R htr (ofTable t) ht x y hx hy hxy

/-- **The closure is the least one.**  Every relation on the calls `0 … n-1` that contains the
direct dependencies and is transitive contains the closed dependency relation `topoSort` sorts
by: the `for changes` loop of `addNextDeps` adds nothing but consequences of transitivity. -/
theorem closedDeps_least' (n : Nat) (edges : List (Nat × Nat)) (R : Nat → Nat → Prop)
    (hE : ∀ a b, a < n → b < n → (a, b) ∈ edges → R a b)
    (htr : ∀ a b c, a < n → b < n → c < n → R a b → R b c → R a c)
    (a b : Nat) (ha : a < n) (hb : b < n) (h : closedDeps n edges a b = true) : R a b := by
  unfold closedDeps closedTable at h
  refine closeFix_least n R htr _ _ ?_ a b ha hb h
  intro x y hx hy hxy
  rw [ofTable_tabulate n _ x y hx hy] at hxy
  simp only [depOfEdges, List.contains_iff_mem] at hxy
  exact hE x y hx hy hxy

/-! ### `sortedFrom` by positions -/

theorem getD_of_lt (l : List Nat) (i : Nat) (h : i < l.length) : l.getD i 0 = l[i] := by
  simp [List.getD_eq_getElem?_getD, List.getElem?_eq_getElem h]

theorem sortedFrom_iff (d : Dep) : ∀ l : List Nat,
    sortedFrom d l = true ↔ ∀ i j, i < j → j < l.length → d (l.getD i 0) (l.getD j 0) = false
  | [] => by simp [sortedFrom]
  | c :: r => by
    have ih := sortedFrom_iff d r
    simp only [sortedFrom, Bool.and_eq_true, List.all_eq_true, Bool.not_eq_true', ih]
    constructor
    · rintro ⟨h1, h2⟩ i j hij hj
      cases i with
      | zero =>
        cases j with
        | zero => omega
        | succ j =>
          simp only [List.getD_cons_zero, List.getD_cons_succ]
          apply h1
          simp only [List.length_cons] at hj
          rw [getD_of_lt _ _ (by omega)]
          exact List.getElem_mem _
      | succ i =>
        cases j with
        | zero => omega
        | succ j =>
          simp only [List.getD_cons_succ]
          simp only [List.length_cons] at hj
          exact h2 i j (by omega) (by omega)
    · intro h
      constructor
      · intro x hx
        obtain ⟨j, hj, rfl⟩ := List.getElem_of_mem hx
        have := h 0 (j + 1) (by omega) (by simp only [List.length_cons]; omega)
        simp only [List.getD_cons_zero, List.getD_cons_succ] at this
        rw [getD_of_lt _ _ hj] at this
        exact this
      · intro i j hij hj
        have := h (i + 1) (j + 1) (by omega) (by simp only [List.length_cons]; omega)
        simpa only [List.getD_cons_succ] using this

theorem getD_range (n i : Nat) (h : i < n) : (List.range n).getD i 0 = i := by
  rw [getD_of_lt _ _ (by simpa using h)]
  simp

/-! ### `topoSort` and membership in the edge list -/

theorem depOfEdges_congr (e1 e2 : List (Nat × Nat)) (h : ∀ a b, (a, b) ∈ e1 ↔ (a, b) ∈ e2) :
    depOfEdges e1 = depOfEdges e2 := by
  funext a b
  simp only [depOfEdges]
  rw [Bool.eq_iff_iff]
  simp only [List.contains_iff_mem]
  exact h a b

/-- `topoSort` depends on the edge list only through the set of its pairs -/
theorem topoSort_congr (n : Nat) (e1 e2 : List (Nat × Nat)) (h : ∀ a b, (a, b) ∈ e1 ↔ (a, b) ∈ e2) :
    topoSort n e1 = topoSort n e2 := by
  unfold topoSort closedTable
  rw [depOfEdges_congr e1 e2 h]

theorem closedDeps_congr (n : Nat) (e1 e2 : List (Nat × Nat)) (h : ∀ a b, (a, b) ∈ e1 ↔ (a, b) ∈ e2) :
    closedDeps n e1 = closedDeps n e2 := by
  unfold closedDeps closedTable
  rw [depOfEdges_congr e1 e2 h]

/-! ### sorting a second time -/

/-- the members of a permutation of `0 … n-1`, by position -/
theorem perm_range_getD_lt {n : Nat} {L : List Nat} (hp : L.Perm (List.range n)) (i : Nat) (hi : i < n) :
    L.getD i 0 < n := by
  have hlen : L.length = n := by simpa using hp.length_eq
  rw [getD_of_lt _ _ (by omega)]
  have : L[i]'(by omega) ∈ List.range n := hp.subset (List.getElem_mem _)
  simpa using this

/-- **A sorted list of calls stays where it is.**  Let `L` be any arrangement of the calls
`0 … n-1` that is in dependency order for the closed relation of `edges`, and let `edges'` be
dependencies between POSITIONS in `L` that all come from `edges` (`(i, j) ∈ edges'` implies
`(L[i], L[j]) ∈ edges`).  Then `topoSort` on the positions moves nothing — whether or not
`edges'` has a cycle.  (Minimality of the closure: the closed relation of `edges'`, pulled back
along `L`, is contained in the closed relation of `edges`.) -/
theorem topoSort_relabel (n : Nat) (edges edges' : List (Nat × Nat)) (L : List Nat)
    (hp : L.Perm (List.range n))
    (hs : sortedFrom (closedDeps n edges) L = true)
    (he : ∀ i j, i < n → j < n → (i, j) ∈ edges' → (L.getD i 0, L.getD j 0) ∈ edges) :
    topoSort n edges' = List.range n := by
  have hlt := fun i hi => perm_range_getD_lt hp i hi
  have hpull : ∀ i j, i < n → j < n → closedDeps n edges' i j = true →
      closedDeps n edges (L.getD i 0) (L.getD j 0) = true := by
    intro i j hi hj h
    refine closedDeps_least' n edges' (fun i j => closedDeps n edges (L.getD i 0) (L.getD j 0) = true)
      ?_ ?_ i j hi hj h
    · intro a b ha hb hab
      exact closedDeps_contains_edges' n edges _ _ (hlt a ha) (hlt b hb) (he a b ha hb hab)
    · intro a b c ha hb hc hab hbc
      have htr := closedDeps_trans n edges
      unfold transOn at htr
      simp only [List.all_eq_true, List.mem_range] at htr
      have := htr _ (hlt a ha) _ (hlt b hb) _ (hlt c hc)
      rw [hab, hbc] at this
      simpa using this
  have hlen : L.length = n := by simpa using hp.length_eq
  have hsorted : sortedFrom (closedDeps n edges') (List.range n) = true := by
    rw [sortedFrom_iff]
    intro i j hij hj
    simp only [List.length_range] at hj
    rw [getD_range n i (by omega), getD_range n j hj]
    cases hd : closedDeps n edges' i j with
    | false => rfl
    | true =>
      have h1 := hpull i j (by omega) hj hd
      have h2 := (sortedFrom_iff _ L).mp hs i j hij (by omega)
      rw [h1] at h2
      cases h2
  unfold topoSort
  simp only
  split
  · rfl
  · exact loop_sorted _ _ _ 0 (by simpa [closedDeps] using hsorted)

end Martian.Format
