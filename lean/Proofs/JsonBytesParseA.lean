/-
The annotated parser `parseA` (Martian/JsonBytes.lean) returns the tree `parseV` returns, and
every node of its result is SOUND: the raw bytes recorded for the node denote the node's tree
(by the locality theorem).  Hence the byte-level filters can be stated on bytes alone.
Core Lean only.
-/
import Martian.JsonBytes
import Proofs.JsonBytes
import Proofs.JsonBytesLocal
import Proofs.JsonBytesFilter
import Proofs.InvocationStrValid
import Proofs.JsonBytesAgree
namespace Martian.JsonBytes
open Martian.Json (J Num)
open Martian.Lexer (Bytes)
open Martian.ShellQuote (validUtf8)

def SpecV (f : Nat) : Prop := ∀ b a r, parseA f b = some (a, r) →
  parseV f b = some (a.toJ, r) ∧ a.raw = consumed (skipWs b) r
def SpecE (f : Nat) : Prop := ∀ b xs r, parseElemsA f b = some (xs, r) → parseElems f b = some (toJs xs, r)
def SpecM (f : Nat) : Prop := ∀ b kvs r, parseMembersA f b = some (kvs, r) →
  parseMembers f b = some (toJKvs kvs, r)

theorem specE_step (f : Nat) (hV : SpecV f) (hE : SpecE f) : SpecE (f + 1) := by
  intro b xs r h
  simp only [parseElemsA] at h
  cases hv : parseA f b with
  | none => simp [hv] at h
  | some p =>
    obtain ⟨x1, r1⟩ := p
    simp only [hv] at h
    have h1 := (hV b x1 r1 hv).1
    simp only [parseElems, h1]
    cases hs : skipWs r1 with
    | nil => simp [hs] at h
    | cons c r' =>
      simp only [hs] at h ⊢
      split at h
      · simp only [Option.map_eq_some_iff] at h
        obtain ⟨⟨xs', r''⟩, he, heq⟩ := h
        simp only [Prod.mk.injEq] at heq
        obtain ⟨rfl, rfl⟩ := heq
        rename_i hc
        simp [hc, hE r' xs' r'' he, toJs]
      · rename_i hc
        split at h
        · rename_i hb
          simp only [Option.some.injEq, Prod.mk.injEq] at h
          obtain ⟨rfl, rfl⟩ := h
          simp [hc, hb, toJs]
        · cases h

theorem specM_step (f : Nat) (hV : SpecV f) (hM : SpecM f) : SpecM (f + 1) := by
  intro b kvs r h
  simp only [parseMembersA] at h
  simp only [parseMembers]
  cases hk : parseStr (skipWs b) with
  | none => simp [hk] at h
  | some p =>
    obtain ⟨k, r0⟩ := p
    simp only [hk] at h ⊢
    cases hs : skipWs r0 with
    | nil => simp [hs] at h
    | cons c r1 =>
      simp only [hs] at h ⊢
      split at h
      · rename_i hc
        simp only [hc, ↓reduceIte]
        cases hv : parseA f r1 with
        | none => simp [hv] at h
        | some q =>
          obtain ⟨xv, r2⟩ := q
          simp only [hv] at h
          simp only [(hV r1 xv r2 hv).1]
          cases hs2 : skipWs r2 with
          | nil => simp [hs2] at h
          | cons c2 r3 =>
            simp only [hs2] at h ⊢
            split at h
            · rename_i hc2
              simp only [Option.map_eq_some_iff] at h
              obtain ⟨⟨kvs', r''⟩, hm, heq⟩ := h
              simp only [Prod.mk.injEq] at heq
              obtain ⟨rfl, rfl⟩ := heq
              simp [hc2, hM r3 kvs' r'' hm, toJKvs]
            · rename_i hc2
              split at h
              · rename_i hb
                simp only [Option.some.injEq, Prod.mk.injEq] at h
                obtain ⟨rfl, rfl⟩ := h
                simp [hc2, hb, toJKvs]
              · cases h
      · cases h

theorem specV_step (f : Nat) (hE : SpecE f) (hM : SpecM f) : SpecV (f + 1) := by
  intro b a r h
  simp only [parseA] at h
  simp only [parseV]
  cases hs : skipWs b with
  | nil => simp [hs] at h
  | cons c t =>
    simp only [hs] at h ⊢
    split at h
    · -- object
      rename_i hc
      simp only [hc, ↓reduceIte]
      split at h
      · rename_i r' hsk
        simp only [Option.some.injEq, Prod.mk.injEq] at h
        obtain ⟨rfl, rfl⟩ := h
        simp [hsk, A.toJ, toJKvs, A.raw]
      · rename_i hnot
        simp only [Option.map_eq_some_iff] at h
        obtain ⟨⟨kvs, r''⟩, hm, heq⟩ := h
        simp only [Prod.mk.injEq] at heq
        obtain ⟨rfl, rfl⟩ := heq
        have := hM _ kvs r'' hm
        simp [this, A.toJ, A.raw]
    · rename_i hc
      simp only [hc, Bool.false_eq_true, ↓reduceIte]
      split at h
      · -- array
        rename_i hc5
        simp only [hc5, ↓reduceIte]
        split at h
        · rename_i r' hsk
          simp only [Option.some.injEq, Prod.mk.injEq] at h
          obtain ⟨rfl, rfl⟩ := h
          simp [hsk, A.toJ, toJs, A.raw]
        · rename_i hnot
          simp only [Option.map_eq_some_iff] at h
          obtain ⟨⟨xs, r''⟩, he, heq⟩ := h
          simp only [Prod.mk.injEq] at heq
          obtain ⟨rfl, rfl⟩ := heq
          have := hE _ xs r'' he
          simp [this, A.toJ, A.raw]
      · rename_i hc5
        simp only [hc5, Bool.false_eq_true, ↓reduceIte]
        split at h
        · rename_i hq
          simp only [hq, ↓reduceIte]
          simp only [Option.map_eq_some_iff] at h
          obtain ⟨⟨s', r''⟩, hp, heq⟩ := h
          simp only [Prod.mk.injEq] at heq
          obtain ⟨rfl, rfl⟩ := heq
          simp [hp, A.toJ, A.raw]
        · rename_i hq
          simp only [hq, Bool.false_eq_true, ↓reduceIte]
          split at h
          · rename_i h74
            simp only [h74, ↓reduceIte]
            simp only [Option.map_eq_some_iff] at h
            obtain ⟨t', hp, heq⟩ := h
            simp only [Prod.mk.injEq] at heq
            obtain ⟨rfl, rfl⟩ := heq
            simp [hp, A.toJ, A.raw]
          · rename_i h74
            simp only [h74, Bool.false_eq_true, ↓reduceIte]
            split at h
            · rename_i h66
              simp only [h66, ↓reduceIte]
              simp only [Option.map_eq_some_iff] at h
              obtain ⟨t', hp, heq⟩ := h
              simp only [Prod.mk.injEq] at heq
              obtain ⟨rfl, rfl⟩ := heq
              simp [hp, A.toJ, A.raw]
            · rename_i h66
              simp only [h66, Bool.false_eq_true, ↓reduceIte]
              split at h
              · rename_i h6e
                simp only [h6e, ↓reduceIte]
                simp only [Option.map_eq_some_iff] at h
                obtain ⟨t', hp, heq⟩ := h
                simp only [Prod.mk.injEq] at heq
                obtain ⟨rfl, rfl⟩ := heq
                simp [hp, A.toJ, A.raw]
              · rename_i h6e
                simp only [h6e, Bool.false_eq_true, ↓reduceIte]
                split at h
                · rename_i hn
                  simp only [hn, ↓reduceIte]
                  simp only [Option.map_eq_some_iff] at h
                  obtain ⟨⟨n, r''⟩, hp, heq⟩ := h
                  simp only [Prod.mk.injEq] at heq
                  obtain ⟨rfl, rfl⟩ := heq
                  simp [hp, A.toJ, A.raw]
                · cases h

theorem spec_all : ∀ f, SpecV f ∧ SpecE f ∧ SpecM f
  | 0 => ⟨by intro b a r h; simp [parseA] at h, by intro b xs r h; simp [parseElemsA] at h,
      by intro b kvs r h; simp [parseMembersA] at h⟩
  | f + 1 =>
    have ih := spec_all f
    ⟨specV_step f ih.2.1 ih.2.2, specE_step f ih.1 ih.2.1, specM_step f ih.1 ih.2.2⟩


/-! ### soundness of the annotation -/

mutual
/-- every object key, at every depth, is valid UTF-8 (always true of keys decoded by
`encoding/json`, which coerces to U+FFFD) -/
def keysValidA : A → Bool
  | .lit _ _ => true
  | .arr _ xs => keysValidAs xs
  | .obj _ kvs => keysValidKvs kvs
def keysValidAs : List A → Bool
  | [] => true
  | x :: r => keysValidA x && keysValidAs r
def keysValidKvs : List (Bytes × A) → Bool
  | [] => true
  | (k, v) :: r => validUtf8 k && keysValidA v && keysValidKvs r
end

/-- where the children of a parsed container come from -/
theorem parseA_children (f : Nat) (b : Bytes) (a : A) (r : Bytes) (h : parseA (f + 1) b = some (a, r)) :
    match a with
    | .arr _ xs => xs = [] ∨ ∃ b', parseElemsA f b' = some (xs, r)
    | .obj _ kvs => kvs = [] ∨ ∃ b', parseMembersA f b' = some (kvs, r)
    | .lit _ _ => True := by
  simp only [parseA] at h
  cases hs : skipWs b with
  | nil => simp [hs] at h
  | cons c t =>
    simp only [hs] at h
    split at h
    · split at h
      · simp only [Option.some.injEq, Prod.mk.injEq] at h
        obtain ⟨rfl, rfl⟩ := h
        exact Or.inl rfl
      · simp only [Option.map_eq_some_iff] at h
        obtain ⟨⟨kvs, r''⟩, hm, heq⟩ := h
        simp only [Prod.mk.injEq] at heq
        obtain ⟨rfl, rfl⟩ := heq
        exact Or.inr ⟨_, hm⟩
    · split at h
      · split at h
        · simp only [Option.some.injEq, Prod.mk.injEq] at h
          obtain ⟨rfl, rfl⟩ := h
          exact Or.inl rfl
        · simp only [Option.map_eq_some_iff] at h
          obtain ⟨⟨xs, r''⟩, he, heq⟩ := h
          simp only [Prod.mk.injEq] at heq
          obtain ⟨rfl, rfl⟩ := heq
          exact Or.inr ⟨_, he⟩
      · repeat' split at h
        all_goals first
          | cases h
          | (simp only [Option.map_eq_some_iff] at h
             obtain ⟨p, _, heq⟩ := h
             simp only [Prod.mk.injEq] at heq
             obtain ⟨rfl, _⟩ := heq
             trivial)

def SoundV (f : Nat) : Prop := ∀ b a r, parseA f b = some (a, r) → keysValidA a = true → ASound a
def SoundE (f : Nat) : Prop := ∀ b xs r, parseElemsA f b = some (xs, r) → keysValidAs xs = true →
  ∀ x, x ∈ xs → ASound x
def SoundM (f : Nat) : Prop := ∀ b kvs r, parseMembersA f b = some (kvs, r) → keysValidKvs kvs = true →
  ∀ kv, kv ∈ kvs → ASound kv.2 ∧ validUtf8 kv.1 = true

theorem soundE_step (f : Nat) (hV : SoundV f) (hE : SoundE f) : SoundE (f + 1) := by
  intro b xs r h hk
  simp only [parseElemsA] at h
  cases hv : parseA f b with
  | none => simp [hv] at h
  | some p =>
    obtain ⟨x1, r1⟩ := p
    simp only [hv] at h
    cases hs : skipWs r1 with
    | nil => simp [hs] at h
    | cons c r' =>
      simp only [hs] at h
      split at h
      · simp only [Option.map_eq_some_iff] at h
        obtain ⟨⟨xs', r''⟩, he, heq⟩ := h
        simp only [Prod.mk.injEq] at heq
        obtain ⟨rfl, rfl⟩ := heq
        simp only [keysValidAs, Bool.and_eq_true] at hk
        intro x hx
        rcases List.mem_cons.mp hx with rfl | hx
        · exact hV b x r1 hv hk.1
        · exact hE r' xs' r'' he hk.2 x hx
      · split at h
        · simp only [Option.some.injEq, Prod.mk.injEq] at h
          obtain ⟨rfl, rfl⟩ := h
          simp only [keysValidAs, Bool.and_eq_true] at hk
          intro x hx
          simp only [List.mem_singleton] at hx
          subst hx
          exact hV b x r1 hv hk.1
        · cases h

theorem soundM_step (f : Nat) (hV : SoundV f) (hM : SoundM f) : SoundM (f + 1) := by
  intro b kvs r h hk
  simp only [parseMembersA] at h
  cases hkk : parseStr (skipWs b) with
  | none => simp [hkk] at h
  | some p =>
    obtain ⟨k, r0⟩ := p
    simp only [hkk] at h
    cases hs : skipWs r0 with
    | nil => simp [hs] at h
    | cons c r1 =>
      simp only [hs] at h
      split at h
      · cases hv : parseA f r1 with
        | none => simp [hv] at h
        | some q =>
          obtain ⟨xv, r2⟩ := q
          simp only [hv] at h
          cases hs2 : skipWs r2 with
          | nil => simp [hs2] at h
          | cons c2 r3 =>
            simp only [hs2] at h
            split at h
            · simp only [Option.map_eq_some_iff] at h
              obtain ⟨⟨kvs', r''⟩, hm, heq⟩ := h
              simp only [Prod.mk.injEq] at heq
              obtain ⟨rfl, rfl⟩ := heq
              simp only [keysValidKvs, Bool.and_eq_true] at hk
              intro kv hkv
              rcases List.mem_cons.mp hkv with rfl | hkv
              · exact ⟨hV r1 xv r2 hv hk.1.2, hk.1.1⟩
              · exact hM r3 kvs' r'' hm hk.2 kv hkv
            · split at h
              · simp only [Option.some.injEq, Prod.mk.injEq] at h
                obtain ⟨rfl, rfl⟩ := h
                simp only [keysValidKvs, Bool.and_eq_true] at hk
                intro kv hkv
                simp only [List.mem_singleton] at hkv
                subst hkv
                exact ⟨hV r1 xv r2 hv hk.1.2, hk.1.1⟩
              · cases h
      · cases h

theorem soundV_step (f : Nat) (hE : SoundE f) (hM : SoundM f) : SoundV (f + 1) := by
  intro b a r h hk
  obtain ⟨hspec, hraw⟩ := (spec_all (f + 1)).1 b a r h
  have hden : Den a.raw a.toJ := by rw [hraw]; exact parseV_local _ _ _ _ hspec
  have hch := parseA_children f b a r h
  cases a with
  | lit raw j => exact .lit _ _ hden
  | arr raw xs =>
    simp only [A.raw, A.toJ] at hden
    simp only [keysValidA] at hk
    refine .arr _ _ hden ?_
    rcases hch with rfl | ⟨b', he⟩
    · intro x hx; cases hx
    · exact hE b' xs r he hk
  | obj raw kvs =>
    simp only [A.raw, A.toJ] at hden
    simp only [keysValidA] at hk
    rcases hch with rfl | ⟨b', hm⟩
    · exact .obj _ _ hden (by intro kv hkv; cases hkv) (by intro kv hkv; cases hkv)
    · have := hM b' kvs r hm hk
      exact .obj _ _ hden (fun kv hkv => (this kv hkv).1) (fun kv hkv => (this kv hkv).2)

theorem sound_all : ∀ f, SoundV f ∧ SoundE f ∧ SoundM f
  | 0 => ⟨by intro b a r h; simp [parseA] at h, by intro b xs r h; simp [parseElemsA] at h,
      by intro b kvs r h; simp [parseMembersA] at h⟩
  | f + 1 =>
    have ih := sound_all f
    ⟨soundV_step f ih.2.1 ih.2.2, soundE_step f ih.1 ih.2.1, soundM_step f ih.1 ih.2.2⟩

/-- what `encoding/json` hands out is sound: every node's raw slice denotes the node's tree -/
theorem sound_parseTopA (data : Bytes) (a : A) (h : parseTopA data = some a) (hk : keysValidA a = true) :
    ASound a := by
  unfold parseTopA at h
  cases hp : parseA (data.length + 1) data with
  | none => simp [hp] at h
  | some p =>
    obtain ⟨a', r⟩ := p
    simp only [hp] at h
    split at h
    · injection h with h; subst h
      exact (sound_all _).1 data a' r hp hk
    · cases h

/-- the annotated parser returns the tree the plain parser returns -/
theorem parseTopA_toJ (data : Bytes) (a : A) (h : parseTopA data = some a) : parseTop data = some a.toJ := by
  unfold parseTopA at h
  cases hp : parseA (data.length + 1) data with
  | none => simp [hp] at h
  | some p =>
    obtain ⟨a', r⟩ := p
    simp only [hp] at h
    split at h
    · rename_i hws
      injection h with h; subst h
      simp [parseTop, ((spec_all _).1 data a' r hp).1, hws]
    · cases h


/-! ### keys are always valid: no side condition left -/

theorem parseStr_valid (t k r : Bytes) (h : parseStr t = some (k, r)) : validUtf8 k = true := by
  unfold parseStr at h
  split at h
  · split at h
    · simp only [Option.map_eq_some_iff, Prod.mk.injEq] at h
      obtain ⟨s, hs, rfl, _⟩ := h
      exact Martian.InvocationStr.jsonDecLoop_valid _ _ _ hs
    · cases h
  · cases h

def KvV (f : Nat) : Prop := ∀ b a r, parseA f b = some (a, r) → keysValidA a = true
def KvE (f : Nat) : Prop := ∀ b xs r, parseElemsA f b = some (xs, r) → keysValidAs xs = true
def KvM (f : Nat) : Prop := ∀ b kvs r, parseMembersA f b = some (kvs, r) → keysValidKvs kvs = true

theorem kvE_step (f : Nat) (hV : KvV f) (hE : KvE f) : KvE (f + 1) := by
  intro b xs r h
  simp only [parseElemsA] at h
  cases hv : parseA f b with
  | none => simp [hv] at h
  | some p =>
    obtain ⟨x1, r1⟩ := p
    simp only [hv] at h
    cases hs : skipWs r1 with
    | nil => simp [hs] at h
    | cons c r' =>
      simp only [hs] at h
      split at h
      · simp only [Option.map_eq_some_iff] at h
        obtain ⟨⟨xs', r''⟩, he, heq⟩ := h
        simp only [Prod.mk.injEq] at heq
        obtain ⟨rfl, rfl⟩ := heq
        simp [keysValidAs, hV b x1 r1 hv, hE r' xs' r'' he]
      · split at h
        · simp only [Option.some.injEq, Prod.mk.injEq] at h
          obtain ⟨rfl, rfl⟩ := h
          simp [keysValidAs, hV b x1 r1 hv]
        · cases h

theorem kvM_step (f : Nat) (hV : KvV f) (hM : KvM f) : KvM (f + 1) := by
  intro b kvs r h
  simp only [parseMembersA] at h
  cases hkk : parseStr (skipWs b) with
  | none => simp [hkk] at h
  | some p =>
    obtain ⟨k, r0⟩ := p
    simp only [hkk] at h
    have hkv := parseStr_valid _ k r0 hkk
    cases hs : skipWs r0 with
    | nil => simp [hs] at h
    | cons c r1 =>
      simp only [hs] at h
      split at h
      · cases hv : parseA f r1 with
        | none => simp [hv] at h
        | some q =>
          obtain ⟨xv, r2⟩ := q
          simp only [hv] at h
          cases hs2 : skipWs r2 with
          | nil => simp [hs2] at h
          | cons c2 r3 =>
            simp only [hs2] at h
            split at h
            · simp only [Option.map_eq_some_iff] at h
              obtain ⟨⟨kvs', r''⟩, hm, heq⟩ := h
              simp only [Prod.mk.injEq] at heq
              obtain ⟨rfl, rfl⟩ := heq
              simp [keysValidKvs, hkv, hV r1 xv r2 hv, hM r3 kvs' r'' hm]
            · split at h
              · simp only [Option.some.injEq, Prod.mk.injEq] at h
                obtain ⟨rfl, rfl⟩ := h
                simp [keysValidKvs, hkv, hV r1 xv r2 hv]
              · cases h
      · cases h

theorem kvV_step (f : Nat) (hE : KvE f) (hM : KvM f) : KvV (f + 1) := by
  intro b a r h
  have hch := parseA_children f b a r h
  cases a with
  | lit raw j => rfl
  | arr raw xs =>
    simp only [keysValidA]
    rcases hch with rfl | ⟨b', he⟩
    · rfl
    · exact hE b' xs r he
  | obj raw kvs =>
    simp only [keysValidA]
    rcases hch with rfl | ⟨b', hm⟩
    · rfl
    · exact hM b' kvs r hm

theorem kv_all : ∀ f, KvV f ∧ KvE f ∧ KvM f
  | 0 => ⟨by intro b a r h; simp [parseA] at h, by intro b xs r h; simp [parseElemsA] at h,
      by intro b kvs r h; simp [parseMembersA] at h⟩
  | f + 1 =>
    have ih := kv_all f
    ⟨kvV_step f ih.2.1 ih.2.2, kvE_step f ih.1 ih.2.1, kvM_step f ih.1 ih.2.2⟩

/-- EVERY document the parser accepts is annotated soundly: at every node the raw slice denotes
the node's tree, and every key is valid UTF-8 -/
theorem sound_of_parseTopA (data : Bytes) (a : A) (h : parseTopA data = some a) : ASound a := by
  have hk : keysValidA a = true := by
    unfold parseTopA at h
    cases hp : parseA (data.length + 1) data with
    | none => simp [hp] at h
    | some p =>
      obtain ⟨a', r⟩ := p
      simp only [hp] at h
      split at h
      · injection h with h; subst h; exact (kv_all _).1 data a' r hp
      · cases h
  exact sound_parseTopA data a h hk

/-- FILTER BYTES, hypothesis-free: for every type (member names valid UTF-8) and every input the
grammar accepts, the bytes `FilterJson` returns are a JSON document, and it is the document of the
tree the model returns -/
theorem filterBytes_parses (t : Martian.Types.Ty) (hk : tyKeysOk t = true) (data out : Bytes)
    (e : Martian.Types.FErr) (h : filterBytes t data = some (out, e)) :
    ∃ a, parseTopA data = some a ∧ out = (filterA t a).out.raw ∧ parseTop out = some (filterA t a).out.toJ := by
  unfold filterBytes at h
  cases hp : parseTopA data with
  | none => simp [hp] at h
  | some a =>
    simp only [hp, Option.map_some, Option.some.injEq, Prod.mk.injEq] at h
    refine ⟨a, rfl, h.1.symm, ?_⟩
    rw [← h.1]
    exact parseTop_of_den (sound_filterA t hk a (sound_of_parseTopA data a hp)).den


/-- FILTER BYTES = FILTER TREE: for every well-formed type and every input the grammar accepts, if
the filter does not fail fatally then the bytes it returns parse to a tree that is – as a map
decode sees it – the tree-level model's filter of the tree the input parses to. -/
theorem filterBytes_tree (t : Martian.Types.Ty) (hwf : t.wf = true) (hk : tyKeysOk t = true) (data out : Bytes)
    (e : Martian.Types.FErr) (h : filterBytes t data = some (out, e)) (hne : e ≠ .fatal) :
    ∃ j0 j, parseTop data = some j0 ∧ parseTop out = some j ∧ EqL j (Martian.TypesR.filter t j0).1 := by
  obtain ⟨a, ha, hout, hp⟩ := filterBytes_parses t hk data out e h
  have he : (filterA t a).err = e := by
    unfold filterBytes at h
    simp only [ha, Option.map_some, Option.some.injEq, Prod.mk.injEq] at h
    exact h.2
  exact ⟨a.toJ, (filterA t a).out.toJ, parseTopA_toJ data a ha, hp,
    filterA_agrees t hwf a (by rw [he]; exact hne)⟩

end Martian.JsonBytes
