import Martian.ForkOrder
import Proofs.SortKeys

/-! Lemmas about the fork-id enumeration order (C10; the bijection is also the C03 clause
"one fork per element / key combination"). -/
namespace Martian.ForkOrder
open Martian.SortKeys

/-! ### independence of Go map order -/

/-- the same source, its keys handed over in another order -/
inductive Elems.Equiv : Elems → Elems → Prop
  | unknown : Elems.Equiv .unknown .unknown
  | arr (n : Nat) : Elems.Equiv (.arr n) (.arr n)
  | keys {a b : List Key} (h : a.Perm b) : Elems.Equiv (.keys a) (.keys b)

theorem Elems.Equiv.parts_eq {e₁ e₂ : Elems} (h : Elems.Equiv e₁ e₂) : e₁.parts = e₂.parts := by
  cases h with
  | unknown => rfl
  | arr n => rfl
  | keys h => simp [Elems.parts, sortKeys_eq_of_perm h]

inductive Root.Equiv : Root → Root → Prop
  | dyn : Root.Equiv .dyn .dyn
  | static {e₁ e₂ : Elems} (h : Elems.Equiv e₁ e₂) : Root.Equiv (.static e₁) (.static e₂)

theorem Root.Equiv.initParts_eq {r₁ r₂ : Root} (h : Root.Equiv r₁ r₂) : r₁.initParts = r₂.initParts := by
  cases h with
  | dyn => rfl
  | static h => simp [Root.initParts, h.parts_eq]

/-- root lists that differ only in the order in which map keys were handed over -/
inductive RootsEquiv : List Root → List Root → Prop
  | nil : RootsEquiv [] []
  | cons {r₁ r₂ : Root} {l₁ l₂ : List Root} (h : Root.Equiv r₁ r₂) (t : RootsEquiv l₁ l₂) :
      RootsEquiv (r₁ :: l₁) (r₂ :: l₂)

theorem sat_congr {i₁ i₂ : Inner} (h : ∀ j pre, (i₁ j pre).parts = (i₂ j pre).parts) :
    ∀ (rest : List Part) (j : Nat) (pre : List Part), sat i₁ j pre rest = sat i₂ j pre rest := by
  intro rest
  induction rest with
  | nil => intro j pre; rfl
  | cons p rest ih =>
    intro j pre
    unfold sat
    simp only [h j pre, ih]

theorem bfs_congr {i₁ i₂ : Inner} (h : ∀ j pre, (i₁ j pre).parts = (i₂ j pre).parts) :
    ∀ (n : Nat) (g : List Fork), bfs i₁ n g = bfs i₂ n g := by
  have hs : satFork i₁ = satFork i₂ := by funext f; simp [satFork, sat_congr h]
  have hk : kids i₁ = kids i₂ := by funext f; simp [kids, sat_congr h]
  intro n
  induction n with
  | zero => intro g; simp [bfs, hs]
  | succ n ih => intro g; simp [bfs, hs, hk, ih]

theorem satRt_congr {i₁ i₂ : Inner} (h : ∀ j pre, (i₁ j pre).parts = (i₂ j pre).parts) :
    ∀ (rest : List Part) (j : Nat) (pre : List Part), satRt i₁ j pre rest = satRt i₂ j pre rest := by
  intro rest
  induction rest with
  | nil => intro j pre; rfl
  | cons p rest ih =>
    intro j pre
    unfold satRt
    simp only [h j pre, ih]

theorem bfsRt_congr {i₁ i₂ : Inner} (h : ∀ j pre, (i₁ j pre).parts = (i₂ j pre).parts) :
    ∀ (n : Nat) (g : List Fork), bfsRt i₁ n g = bfsRt i₂ n g := by
  intro n
  induction n with
  | zero => intro g; simp [bfsRt, satRt_congr h]
  | succ n ih => intro g; simp [bfsRt, satRt_congr h, ih]

theorem forkOrder_congr {r₁ r₂ : List Root} {i₁ i₂ : Inner}
    (hr : RootsEquiv r₁ r₂) (hi : ∀ j pre, Elems.Equiv (i₁ j pre) (i₂ j pre)) :
    forkOrder r₁ i₁ = forkOrder r₂ i₂ := by
  have both : r₁.length = r₂.length ∧ r₁.map Root.initParts = r₂.map Root.initParts := by
    induction hr with
    | nil => exact ⟨rfl, rfl⟩
    | cons h _ ih => exact ⟨by simp [ih.1], by simp [h.initParts_eq, ih.2]⟩
  obtain ⟨hlen, hinit⟩ := both
  unfold forkOrder
  rw [hlen, hinit]
  exact bfs_congr (fun j pre => (hi j pre).parts_eq) _ _

/-! ### forks without undetermined parts are left alone -/

theorem sat_determined (inner : Inner) : ∀ (rest : List Part) (j : Nat) (pre : List Part),
    Part.undet ∉ rest → sat inner j pre rest = (rest, []) := by
  intro rest
  induction rest with
  | nil => intro j pre _; rfl
  | cons p rest ih =>
    intro j pre h
    have hp : (p != Part.undet) = true := by
      simp only [bne_iff_ne, ne_eq]; intro e; exact h (by simp [e])
    unfold sat
    simp only [hp, if_true, ih (j + 1) (pre ++ [p]) (fun hr => h (List.mem_cons_of_mem _ hr))]

theorem bfs_nil (inner : Inner) : ∀ n, bfs inner n [] = [] := by
  intro n; induction n with
  | zero => rfl
  | succ n ih => simp [bfs, ih]

theorem bfs_determined (inner : Inner) (n : Nat) (g : List Fork)
    (h : ∀ f ∈ g, Part.undet ∉ f) : bfs inner n g = g := by
  have hs : g.map (satFork inner) = g := by
    rw [List.map_congr_left (g := id)]
    · simp
    · intro f hf; simp [satFork, sat_determined inner f 0 [] (h f hf)]
  have hk : g.flatMap (kids inner) = [] := by
    rw [List.flatMap_eq_nil_iff]
    intro f hf; simp [kids, sat_determined inner f 0 [] (h f hf)]
  cases n with
  | zero => simp [bfs, hs]
  | succ n => simp [bfs, hs, hk, bfs_nil]

theorem mem_product {ls : List (List Part)} : ∀ {f : Fork}, f ∈ product ls →
    ∀ p ∈ f, ∃ l ∈ ls, p ∈ l := by
  induction ls with
  | nil => intro f hf p hp; simp [product] at hf; subst hf; cases hp
  | cons l rest ih =>
    intro f hf p hp
    simp only [product, List.mem_flatMap, List.mem_map] at hf
    obtain ⟨tail, ht, q, hq, rfl⟩ := hf
    rcases List.mem_cons.mp hp with rfl | hp
    · exact ⟨l, by simp, hq⟩
    · obtain ⟨l', hl', hpl⟩ := ih ht p hp
      exact ⟨l', List.mem_cons_of_mem _ hl', hpl⟩

theorem parts_determined {e : Elems} {l : List Part} (h : e.parts = some l) :
    Part.undet ∉ l ∧ Part.empty ∉ l := by
  cases e with
  | unknown => cases h
  | arr n =>
    simp only [Elems.parts, Option.some.injEq] at h; subst h
    simp
  | keys ks =>
    simp only [Elems.parts, Option.some.injEq] at h; subst h
    simp

end Martian.ForkOrder
