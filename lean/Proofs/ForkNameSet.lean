/-
Lemmas for the fork set of one node (model: Martian/ForkNameSet.lean).
-/
import Martian.ForkNameSet
import Proofs.ForkName
import Proofs.ForkNameInj

namespace Martian.ForkName


theorem nodup_map_of_inj_on {α β : Type} (f : α → β) : ∀ (l : List α), l.Nodup →
    (∀ a ∈ l, ∀ b ∈ l, f a = f b → a = b) → (l.map f).Nodup := by
  intro l
  induction l with
  | nil => intro _ _; simp
  | cons x xs ih =>
    intro hnd hinj
    rw [List.nodup_cons] at hnd
    simp only [List.map_cons, List.nodup_cons, List.mem_map, not_exists, not_and]
    refine ⟨?_, ih hnd.2 (fun a ha b hb => hinj a (by simp [ha]) b (by simp [hb]))⟩
    intro y hy e
    have := hinj y (by simp [hy]) x (by simp) e
    exact hnd.1 (this ▸ hy)

def fits : List Part → List Src → Prop
  | [], [] => True
  | p :: ps, s :: ss => p ∈ srcParts s ∧ fits ps ss
  | _, _ => False

theorem srcParts_nodup (s : Src) (h : srcOk s) : (srcParts s).Nodup := by
  cases s with
  | arr len =>
    simp only [srcParts]
    refine nodup_map_of_inj_on _ _ List.nodup_range ?_
    intro a _ b _ e
    simpa using e
  | keys ks =>
    simp only [srcParts]
    refine nodup_map_of_inj_on _ _ h ?_
    intro a _ b _ e
    simpa using e
  | undet => simp [srcParts]

theorem srcParts_shape (s : Src) (p q : Part) (hp : p ∈ srcParts s) (hq : q ∈ srcParts s) :
    sameShapeP p q = true ∧ partOk p = true ∧ (s ≠ .undet → partValid p = true) := by
  cases s with
  | arr len =>
    simp only [srcParts, List.mem_map, List.mem_range] at hp hq
    obtain ⟨i, hi, rfl⟩ := hp
    obtain ⟨j, hj, rfl⟩ := hq
    have : len ≠ 0 := by omega
    simp [sameShapeP, partOk, partValid, hi, this]
  | keys ks =>
    simp only [srcParts, List.mem_map] at hp hq
    obtain ⟨k, hk, rfl⟩ := hp
    obtain ⟨k', hk', rfl⟩ := hq
    have hne : ks.isEmpty = false := by cases ks <;> simp_all
    simp [sameShapeP, partOk, partValid, hk, hne]
  | undet =>
    simp only [srcParts, List.mem_singleton] at hp hq
    subst hp; subst hq
    simp [sameShapeP, partOk, partSkip]

theorem mem_makeForkIds : ∀ (srcs : List Src) (a : List Part), a ∈ makeForkIds srcs →
    fits a srcs := by
  intro srcs
  induction srcs with
  | nil => intro a h; simp [makeForkIds] at h; subst h; exact trivial
  | cons s rest ih =>
    intro a h
    simp only [makeForkIds, List.mem_flatMap, List.mem_map] at h
    obtain ⟨tail, ht, p, hp, rfl⟩ := h
    exact ⟨hp, ih tail ht⟩

theorem forall2_shape : ∀ (srcs : List Src) (a b : List Part),
    fits a srcs → fits b srcs →
    sameShape a b = true ∧ a.all partOk = true := by
  intro srcs
  induction srcs with
  | nil =>
    intro a b ha hb
    cases a <;> cases b <;> simp_all [fits, sameShape]
  | cons s rest ih =>
    intro a b ha hb
    cases a with
    | nil => simp [fits] at ha
    | cons p ps =>
      cases b with
      | nil => simp [fits] at hb
      | cons q qs =>
        obtain ⟨hp, hta⟩ := ha
        obtain ⟨hq, htb⟩ := hb
        obtain ⟨h1, h2, _⟩ := srcParts_shape s _ _ hp hq
        obtain ⟨h3, h4⟩ := ih _ _ hta htb
        simp [sameShape, h1, h2, h3, h4]

theorem makeForkIds_nodup : ∀ (srcs : List Src), (∀ s ∈ srcs, srcOk s) → (makeForkIds srcs).Nodup := by
  intro srcs
  induction srcs with
  | nil => intro _; simp [makeForkIds]
  | cons s rest ih =>
    intro h
    have hs := srcParts_nodup s (h s (by simp))
    have hr := ih (fun x hx => h x (by simp [hx]))
    simp only [makeForkIds, List.Nodup]
    rw [List.pairwise_flatMap]
    refine ⟨?_, ?_⟩
    · intro tail _
      rw [List.pairwise_map]
      exact hs.imp (fun hne e => hne (List.cons.inj e).1)
    · exact hr.imp (fun hne x hx y hy e => by
        simp only [List.mem_map] at hx hy
        obtain ⟨p, _, rfl⟩ := hx
        obtain ⟨q, _, rfl⟩ := hy
        exact hne (List.cons.inj e).2)

theorem nodup_getElem?_inj {α : Type} : ∀ (l : List α), l.Nodup → ∀ (i j : Nat) (x : α),
    l[i]? = some x → l[j]? = some x → i = j := by
  intro l
  induction l with
  | nil => intro _ i j x h; simp at h
  | cons a t ih =>
    intro hnd i j x hi hj
    rw [List.nodup_cons] at hnd
    cases i with
    | zero =>
      cases j with
      | zero => rfl
      | succ j =>
        simp only [List.getElem?_cons_zero, Option.some.injEq] at hi
        simp only [List.getElem?_cons_succ] at hj
        subst hi
        exact absurd (List.mem_of_getElem? hj) hnd.1
    | succ i =>
      cases j with
      | zero =>
        simp only [List.getElem?_cons_zero, Option.some.injEq] at hj
        simp only [List.getElem?_cons_succ] at hi
        subst hj
        exact absurd (List.mem_of_getElem? hi) hnd.1
      | succ j =>
        simp only [List.getElem?_cons_succ] at hi hj
        rw [ih hnd.2 i j x hi hj]

theorem forkSet_names_nodup_tt (srcs : List Src) (h : ∀ s ∈ srcs, srcOk s) :
    ((makeForkIds srcs).map (forkIdString true true)).Nodup := by
  by_cases hu : srcs = [.undet]
  · subst hu; simp [makeForkIds, srcParts]
  apply nodup_map_of_inj_on _ _ (makeForkIds_nodup srcs h)
  intro a ha b hb e
  have fa := mem_makeForkIds srcs a ha
  have fb := mem_makeForkIds srcs b hb
  obtain ⟨hs, hva⟩ := forall2_shape srcs a b fa fb
  obtain ⟨_, hvb⟩ := forall2_shape srcs b a fb fa
  have one : ∀ (x : List Part), fits x srcs → x.length = 1 → x.all partValid = true := by
    intro x fx hl
    match x, srcs, fx, hu with
    | [p], [s], fx, hu =>
      have hp : p ∈ srcParts s := fx.1
      have hsu : s ≠ .undet := by intro e; exact hu (by rw [e])
      simp [(srcParts_shape s p p hp hp).2.2 hsu]
    | [_], [], fx, _ => exact absurd fx (by simp [fits])
    | [_], _ :: _ :: _, fx, _ => exact absurd fx.2 (by simp [fits])
  exact forkIdString_inj a b hs hva hvb (one a fa) (one b fb) e

end Martian.ForkName
