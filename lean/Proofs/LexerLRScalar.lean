import Martian.LexerLRSem
import Proofs.FormatExpToks
import Proofs.FormatExpLex
import Proofs.FormatExpRound

/-!
Progress on `LRAgrees` (Props/C09Tie.lean): on SCALAR tokens the goyacc parser
model and x-c09's reader agree for every token text — proved by running the
driver on the (concrete) token kind in the kernel and replaying the semantic
actions on the (symbolic) token text.  Hence the round trip "format, then the
goyacc parser" is unconditional for scalar expressions.
-/
namespace Martian.LexerLR
open Martian.FormatExp

/-! the driver runs, evaluated by the kernel -/

theorem run_int : runFuel genTables (fun _ => false) (fuelFor genCert [tokChar (.int [])]) (init [tokChar (.int [])]) [.push 0] =
    (.accept, [.lex 1 0, .push 1, .reduce 7 5, .push 5, .reduce 129 11, .push 11, .lex 53 57381, .push 0]) := by decide +kernel
theorem run_float : runFuel genTables (fun _ => false) (fuelFor genCert [tokChar (.float [])]) (init [tokChar (.float [])]) [.push 0] =
    (.accept, [.lex 1 0, .push 1, .reduce 7 5, .push 5, .reduce 128 10, .push 10, .lex 52 57380, .push 0]) := by decide +kernel
theorem run_str : runFuel genTables (fun _ => false) (fuelFor genCert [tokChar (.str [])]) (init [tokChar (.str [])]) [.push 0] =
    (.accept, [.lex 1 0, .push 1, .reduce 7 5, .push 5, .reduce 130 12, .push 12, .lex 51 57379, .push 0]) := by decide +kernel
theorem run_true : runFuel genTables (fun _ => false) (fuelFor genCert [tokChar .kTrue]) (init [tokChar .kTrue]) [.push 0] =
    (.accept, [.lex 1 0, .push 1, .reduce 7 5, .push 5, .reduce 133 15, .push 15, .reduce 142 26, .push 26, .lex 58 57386, .push 0]) := by
  decide +kernel
theorem run_false : runFuel genTables (fun _ => false) (fuelFor genCert [tokChar .kFalse]) (init [tokChar .kFalse]) [.push 0] =
    (.accept, [.lex 1 0, .push 1, .reduce 7 5, .push 5, .reduce 133 15, .push 15, .reduce 143 27, .push 27, .lex 59 57387, .push 0]) := by
  decide +kernel
theorem run_null : runFuel genTables (fun _ => false) (fuelFor genCert [tokChar .kNull]) (init [tokChar .kNull]) [.push 0] =
    (.accept, [.lex 1 0, .push 1, .reduce 7 5, .push 5, .reduce 134 16, .push 16, .lex 60 57388, .push 0]) := by decide +kernel

/-! the actions of the productions involved, recognised in the regenerated facts -/

theorem kind_7 : semKind 7 = some (some .fileVal) := by decide +kernel
theorem kind_128 : semKind 128 = some (some .floatE) := by decide +kernel
theorem kind_129 : semKind 129 = some (some .intE) := by decide +kernel
theorem kind_130 : semKind 130 = some (some .strE) := by decide +kernel
theorem kind_133 : semKind 133 = none := by decide +kernel
theorem kind_134 : semKind 134 = some (some .nullE) := by decide +kernel
theorem kind_142 : semKind 142 = some (some .trueE) := by decide +kernel
theorem kind_143 : semKind 143 = some (some .falseE) := by decide +kernel

theorem r2_of : (genTables.r2.get? (7 : Nat)) = some 1 ∧ (genTables.r2.get? (128 : Nat)) = some 1 ∧
    (genTables.r2.get? (129 : Nat)) = some 1 ∧ (genTables.r2.get? (130 : Nat)) = some 1 ∧
    (genTables.r2.get? (133 : Nat)) = some 1 ∧ (genTables.r2.get? (134 : Nat)) = some 1 ∧
    (genTables.r2.get? (142 : Nat)) = some 1 ∧ (genTables.r2.get? (143 : Nat)) = some 1 := by decide +kernel

/-! the replay, step by step on explicit states -/

theorem semStep_lex_cons (T : Tables) (vs : List Val) (la : Option Tok) (t : Tok) (r : List Tok) (p : Option Nat) (ok : Bool)
    (a b : Int) : semStep T ⟨vs, la, t :: r, p, ok⟩ (.lex a b) = ⟨vs, some t, r, p, ok⟩ := rfl

theorem semStep_lex_nil (T : Tables) (vs : List Val) (la : Option Tok) (p : Option Nat) (ok : Bool) (a b : Int) :
    semStep T ⟨vs, la, [], p, ok⟩ (.lex a b) = ⟨vs, none, [], p, ok⟩ := rfl

theorem semStep_reduce (T : Tables) (st : SemState) (n s : Nat) :
    semStep T st (.reduce n s) = { st with pending := some n } := rfl

theorem semStep_push_init (T : Tables) (la : Option Tok) (ts : List Tok) (p : Option Nat) (ok : Bool) (s : Nat) :
    semStep T ⟨[], la, ts, p, ok⟩ (.push s) = ⟨[.none], la, ts, p, ok⟩ := rfl

theorem semStep_push_shift (T : Tables) (v : Val) (vs : List Val) (t : Tok) (ts : List Tok) (ok : Bool) (s : Nat) :
    semStep T ⟨v :: vs, some t, ts, none, ok⟩ (.push s) = ⟨.tok t :: v :: vs, none, ts, none, ok⟩ := rfl

/-- a reduction by a production with one right-hand side symbol whose action succeeds -/
theorem semStep_push_red1 (v w x : Val) (vs : List Val) (la : Option Tok) (ts : List Tok) (ok : Bool) (n s : Nat)
    (hk : genTables.r2.get? (n : Nat) = some 1) (ha : semAct n [v] = some x) :
    semStep genTables ⟨v :: w :: vs, la, ts, some n, ok⟩ (.push s) = ⟨x :: w :: vs, la, ts, none, ok⟩ := by
  simp [semStep, hk, ha]

theorem semStep_push_red1_fail (v w : Val) (vs : List Val) (la : Option Tok) (ts : List Tok) (ok : Bool) (n s : Nat)
    (hk : genTables.r2.get? (n : Nat) = some 1) (ha : semAct n [v] = none) :
    semStep genTables ⟨v :: w :: vs, la, ts, some n, ok⟩ (.push s) = ⟨.none :: w :: vs, la, ts, none, false⟩ := by
  simp [semStep, hk, ha]

theorem semStep_ok_false (T : Tables) (st : SemState) (ev : Event) (h : st.ok = false) :
    (semStep T st ev).ok = false := by
  cases ev <;> simp only [semStep] <;> (try exact h)
  · split <;> (try exact h)
    · split <;> first | exact h | rfl
  · split <;> exact h

/-! agreement on scalar tokens, for every token text -/

theorem lr_int (t : List UInt8) : parseLR [.int t] = parseToks [.int t] := by
  have hc : tokChar (.int t) = tokChar (.int []) := rfl
  unfold parseLR runSem
  simp only [List.map, hc, run_int, List.reverse_cons, List.reverse_nil, List.nil_append, List.cons_append,
    List.foldl_cons, List.foldl_nil, semStep_push_init, semStep_lex_cons, semStep_push_shift, semStep_reduce]
  cases h : Martian.Lexer.parseInt t with
  | none =>
    have ha : semAct 129 [.tok (.int t)] = none := by simp [semAct, kind_129, semApply, h]
    rw [semStep_push_red1_fail _ _ _ _ _ _ _ _ r2_of.2.2.1 ha]
    rw [if_neg (by
      rw [semStep_ok_false _ _ _ (semStep_ok_false _ _ _ rfl)]; simp)]
    simp [parseToks, pExp, h]
  | some i =>
    have ha : semAct 129 [.tok (.int t)] = some (.exp (.int i)) := by simp [semAct, kind_129, semApply, h]
    rw [semStep_push_red1 _ _ _ _ _ _ _ _ _ r2_of.2.2.1 ha]
    have h7 : semAct 7 [.exp (.int i)] = some (.result (.int i)) := by simp [semAct, kind_7, semApply]
    rw [semStep_push_red1 _ _ _ _ _ _ _ _ _ r2_of.1 h7]
    simp [semStep_lex_nil, parseToks, pExp, h, isVal]

theorem lr_float (t : List UInt8) : parseLR [.float t] = parseToks [.float t] := by
  have hc : tokChar (.float t) = tokChar (.float []) := rfl
  unfold parseLR runSem
  simp only [List.map, hc, run_float, List.reverse_cons, List.reverse_nil, List.nil_append, List.cons_append,
    List.foldl_cons, List.foldl_nil, semStep_push_init, semStep_lex_cons, semStep_push_shift, semStep_reduce]
  have ha : semAct 128 [.tok (.float t)] = some (.exp (.float t)) := by simp [semAct, kind_128, semApply]
  rw [semStep_push_red1 _ _ _ _ _ _ _ _ _ r2_of.2.1 ha]
  have h7 : semAct 7 [.exp (.float t)] = some (.result (.float t)) := by simp [semAct, kind_7, semApply]
  rw [semStep_push_red1 _ _ _ _ _ _ _ _ _ r2_of.1 h7]
  simp [semStep_lex_nil, parseToks, pExp, isVal]

theorem lr_str (t : List UInt8) : parseLR [.str t] = parseToks [.str t] := by
  have hc : tokChar (.str t) = tokChar (.str []) := rfl
  unfold parseLR runSem
  simp only [List.map, hc, run_str, List.reverse_cons, List.reverse_nil, List.nil_append, List.cons_append,
    List.foldl_cons, List.foldl_nil, semStep_push_init, semStep_lex_cons, semStep_push_shift, semStep_reduce]
  cases h : Martian.Lexer.unquoteBytes t with
  | none =>
    have ha : semAct 130 [.tok (.str t)] = none := by simp [semAct, kind_130, semApply, h]
    rw [semStep_push_red1_fail _ _ _ _ _ _ _ _ r2_of.2.2.2.1 ha]
    rw [if_neg (by
      rw [semStep_ok_false _ _ _ (semStep_ok_false _ _ _ rfl)]; simp)]
    simp [parseToks, pExp, h]
  | some u =>
    have ha : semAct 130 [.tok (.str t)] = some (.exp (.str u)) := by simp [semAct, kind_130, semApply, h]
    rw [semStep_push_red1 _ _ _ _ _ _ _ _ _ r2_of.2.2.2.1 ha]
    have h7 : semAct 7 [.exp (.str u)] = some (.result (.str u)) := by simp [semAct, kind_7, semApply]
    rw [semStep_push_red1 _ _ _ _ _ _ _ _ _ r2_of.1 h7]
    simp [semStep_lex_nil, parseToks, pExp, h, isVal]

theorem lr_null : parseLR [.kNull] = parseToks [.kNull] := by
  unfold parseLR runSem
  simp only [List.map, run_null, List.reverse_cons, List.reverse_nil, List.nil_append, List.cons_append,
    List.foldl_cons, List.foldl_nil, semStep_push_init, semStep_lex_cons, semStep_push_shift, semStep_reduce]
  have ha : semAct 134 [.tok .kNull] = some (.exp .null) := by simp [semAct, kind_134, semApply]
  rw [semStep_push_red1 _ _ _ _ _ _ _ _ _ r2_of.2.2.2.2.2.1 ha]
  have h7 : semAct 7 [.exp .null] = some (.result .null) := by simp [semAct, kind_7, semApply]
  rw [semStep_push_red1 _ _ _ _ _ _ _ _ _ r2_of.1 h7]
  simp [semStep_lex_nil, parseToks, pExp, isVal]

theorem lr_bool (b : Bool) : parseLR [if b then .kTrue else .kFalse] = parseToks [if b then .kTrue else .kFalse] := by
  cases b
  · simp only [Bool.false_eq_true, if_false]
    unfold parseLR runSem
    simp only [List.map, run_false, List.reverse_cons, List.reverse_nil, List.nil_append, List.cons_append,
      List.foldl_cons, List.foldl_nil, semStep_push_init, semStep_lex_cons, semStep_push_shift, semStep_reduce]
    have ha : semAct 143 [.tok .kFalse] = some (.exp (.bool false)) := by simp [semAct, kind_143, semApply]
    rw [semStep_push_red1 _ _ _ _ _ _ _ _ _ r2_of.2.2.2.2.2.2.2 ha]
    have hd : semAct 133 [.exp (.bool false)] = some (.exp (.bool false)) := by simp [semAct, kind_133]
    rw [semStep_push_red1 _ _ _ _ _ _ _ _ _ r2_of.2.2.2.2.1 hd]
    have h7 : semAct 7 [.exp (.bool false)] = some (.result (.bool false)) := by simp [semAct, kind_7, semApply]
    rw [semStep_push_red1 _ _ _ _ _ _ _ _ _ r2_of.1 h7]
    simp [semStep_lex_nil, parseToks, pExp, isVal]
  · simp only [if_true]
    unfold parseLR runSem
    simp only [List.map, run_true, List.reverse_cons, List.reverse_nil, List.nil_append, List.cons_append,
      List.foldl_cons, List.foldl_nil, semStep_push_init, semStep_lex_cons, semStep_push_shift, semStep_reduce]
    have ha : semAct 142 [.tok .kTrue] = some (.exp (.bool true)) := by simp [semAct, kind_142, semApply]
    rw [semStep_push_red1 _ _ _ _ _ _ _ _ _ r2_of.2.2.2.2.2.2.1 ha]
    have hd : semAct 133 [.exp (.bool true)] = some (.exp (.bool true)) := by simp [semAct, kind_133]
    rw [semStep_push_red1 _ _ _ _ _ _ _ _ _ r2_of.2.2.2.2.1 hd]
    have h7 : semAct 7 [.exp (.bool true)] = some (.result (.bool true)) := by simp [semAct, kind_7, semApply]
    rw [semStep_push_red1 _ _ _ _ _ _ _ _ _ r2_of.1 h7]
    simp [semStep_lex_nil, parseToks, pExp, isVal]

/-! the empty collections `[]` and `{}` (two fixed tokens) -/

theorem run_arr0 : runFuel genTables (fun _ => false) (fuelFor genCert ([tLB, tRB].map tokChar)) (init ([tLB, tRB].map tokChar)) [.push 0] =
    (.accept, [.lex 1 0, .push 1, .reduce 7 5, .push 5, .reduce 131 13, .push 13, .reduce 137 61, .push 61, .lex 14 93, .push 23,
      .lex 13 91, .push 0]) := by decide +kernel
theorem run_map0 : runFuel genTables (fun _ => false) (fuelFor genCert ([tLC, tRC].map tokChar)) (init ([tLC, tRC].map tokChar)) [.push 0] =
    (.accept, [.lex 1 0, .push 1, .reduce 7 5, .push 5, .reduce 132 14, .push 14, .reduce 141 70, .push 70, .lex 18 125, .push 25,
      .lex 17 123, .push 0]) := by decide +kernel

theorem kind_131 : semKind 131 = none := by decide +kernel
theorem kind_132 : semKind 132 = none := by decide +kernel
theorem kind_137 : semKind 137 = some (some .arrEmpty) := by decide +kernel
theorem kind_141 : semKind 141 = some (some .mapEmpty) := by decide +kernel
theorem r2_of' : (genTables.r2.get? (131 : Nat)) = some 1 ∧ (genTables.r2.get? (132 : Nat)) = some 1 ∧
    (genTables.r2.get? (137 : Nat)) = some 2 ∧ (genTables.r2.get? (141 : Nat)) = some 2 := by decide +kernel

/-- a reduction by a production with two right-hand side symbols -/
theorem semStep_push_red2 (v1 v2 w x : Val) (vs : List Val) (la : Option Tok) (ts : List Tok) (ok : Bool) (n s : Nat)
    (hk : genTables.r2.get? (n : Nat) = some 2) (ha : semAct n [v1, v2] = some x) :
    semStep genTables ⟨v2 :: v1 :: w :: vs, la, ts, some n, ok⟩ (.push s) = ⟨x :: w :: vs, la, ts, none, ok⟩ := by
  simp [semStep, hk, ha]

theorem lr_arr0 : parseLR [tLB, tRB] = parseToks [tLB, tRB] := by
  unfold parseLR runSem
  simp only [run_arr0, List.reverse_cons, List.reverse_nil, List.nil_append, List.cons_append,
    List.foldl_cons, List.foldl_nil, semStep_push_init, semStep_lex_cons, semStep_push_shift, semStep_reduce]
  have ha : semAct 137 [.tok tLB, .tok tRB] = some (.exp (.arr [])) := by simp [semAct, kind_137, semApply]
  rw [semStep_push_red2 _ _ _ _ _ _ _ _ _ _ r2_of'.2.2.1 ha]
  have hd : semAct 131 [.exp (.arr [])] = some (.exp (.arr [])) := by simp [semAct, kind_131]
  rw [semStep_push_red1 _ _ _ _ _ _ _ _ _ r2_of'.1 hd]
  have h7 : semAct 7 [.exp (.arr [])] = some (.result (.arr [])) := by simp [semAct, kind_7, semApply]
  rw [semStep_push_red1 _ _ _ _ _ _ _ _ _ r2_of.1 h7]
  simp [semStep_lex_nil, parseToks, pExp, isVal, tLB, tRB]

theorem lr_map0 : parseLR [tLC, tRC] = parseToks [tLC, tRC] := by
  unfold parseLR runSem
  simp only [run_map0, List.reverse_cons, List.reverse_nil, List.nil_append, List.cons_append,
    List.foldl_cons, List.foldl_nil, semStep_push_init, semStep_lex_cons, semStep_push_shift, semStep_reduce]
  have ha : semAct 141 [.tok tLC, .tok tRC] = some (.exp (.map [])) := by simp [semAct, kind_141, semApply]
  rw [semStep_push_red2 _ _ _ _ _ _ _ _ _ _ r2_of'.2.2.2 ha]
  have hd : semAct 132 [.exp (.map [])] = some (.exp (.map [])) := by simp [semAct, kind_132]
  rw [semStep_push_red1 _ _ _ _ _ _ _ _ _ r2_of'.2.1 hd]
  have h7 : semAct 7 [.exp (.map [])] = some (.result (.map [])) := by simp [semAct, kind_7, semApply]
  rw [semStep_push_red1 _ _ _ _ _ _ _ _ _ r2_of.1 h7]
  simp [semStep_lex_nil, parseToks, pExp, isVal, tLC, tRC]

/-- scalar expressions and empty collections: what prints as one token, `[]` or `{}` -/
def isScalar : Exp → Bool
  | .null | .nilArr | .bool _ | .int _ | .float _ | .str _ => true
  | .arr [] | .map [] | .struct [] => true
  | _ => false

/-- on the token list of a printed scalar expression the goyacc parser model and
the reader agree -/
theorem lr_agrees_scalar (e : Exp) (hs : isScalar e = true) : parseLR (toks e) = parseToks (toks e) := by
  cases e with
  | null => exact lr_null
  | nilArr => exact lr_null
  | bool b => exact lr_bool b
  | int i => exact lr_int _
  | float t =>
    simp only [toks]
    split
    · exact lr_float t
    · exact lr_int t
  | str s => exact lr_str _
  | arr l =>
    cases l with
    | nil => simpa [toks] using lr_arr0
    | cons _ _ => simp [isScalar] at hs
  | map l =>
    cases l with
    | nil => simpa [toks] using lr_map0
    | cons _ _ => simp [isScalar] at hs
  | struct l =>
    cases l with
    | nil => simpa [toks] using lr_map0
    | cons _ _ => simp [isScalar] at hs
  | ref _ _ _ => simp [isScalar] at hs

theorem isScalar_isVal (e : Exp) (hs : isScalar e = true) : isVal e = true := by
  cases e <;> first | rfl | simp [isScalar] at hs

/-- **format, then the goyacc parser — UNCONDITIONAL for scalar expressions**
(integers, floats, strings, booleans, null, and the empty collections `[]`, `{}`): the LR loop on the regenerated
tables with the real actions reads the printed text back as the expression, up
to `norm`. -/
theorem format_then_goyacc_parse_scalar (e : Exp) (hw : wf e = true) (hs : isScalar e = true) :
    parseValExpLR (fmt [] e) = some (norm e) := by
  unfold parseValExpLR
  rw [lexAll_fmt_top e hw]
  simp only [Option.bind_some]
  rw [lr_agrees_scalar e hs]
  exact parseToks_toks e hw (isScalar_isVal e hs)

end Martian.LexerLR
